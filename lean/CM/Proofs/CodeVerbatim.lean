import CM.Proofs.CodeVerbatimFenced
import CM.Proofs.CodeVerbatimIndent
import CM.Proofs.Stream
/-
C06, block piece: **code block contents come out verbatim**.

`fenced_code_verbatim` — for a fence of `n ≥ 3` characters `c ∈ {'`', '~'}`, an info string `info` (`infoOK`), and content
lines `ls` none of which contains LF / CR / NUL (`plainLine`) or is a closing fence (`closesFence`; any other bytes —
spaces, tabs, backticks, `>`, shorter or differently-made fences, empty lines — are allowed), the document

    fencedDoc c n info ls = fence ++ info ++ "\n" ++ (ls.map (· ++ "\n")).flatten ++ fence ++ "\n"

run through `drain (blocksLP x) fuel (memParser doc) []` (any `fuel ≥ 2`) gives exactly one root and then `io.EOF`; the root
spans the whole document; its block is a FencedCode block (`char = c`, `n = n`, span `[0, len doc)`) whose inline children
are the InfoString node (iff `info ≠ []`; it spans exactly `info`) followed by ONE Text node per content line `l`, in
order, whose source slice is `l ++ "\n"` — no `Indent` node, no soft break, nothing else. Concatenating the Text slices
gives `(ls.map (· ++ "\n")).flatten`: the contents are verbatim.

How the model represents special lines (all covered by the statement): an empty line is a Text node spanning just `"\n"`;
a line starting with a tab or spaces is one Text node starting at the line start (the fence is not indented, so
`ruleMatch` consumes no indentation and `addLineText` emits no `Indent` node).

`indented_code_verbatim` — for content lines `ls` without LF / CR / NUL, the first and the last not blank, the document
`indentedDoc ls` in which every non-blank line `l` is written `"    " ++ l ++ "\n"` and every blank line (spaces and tabs)
`l ++ "\n"`: one root, then `io.EOF`; the block is an IndentedCode block spanning `[4, len doc)` (the model starts the block
after the consumed indentation) whose inline children are ONE Text node per line, slicing to `indentedText l`:
`l ++ "\n"` for a non-blank line (extra leading spaces and tabs of `l` are kept — verbatim), and for a blank line what is
left after the indentation the match rule consumes (`take4`: four columns — four spaces, or up to three spaces and a tab
— or the whole line if it is narrower), then `"\n"`. No `Indent` node arises: consuming four columns from column 0 never
ends inside a tab. `indented_code_run` (CodeVerbatimIndent) is the same statement on the lines as the model sees them
(`icEnc`; continuation lines may also be indented by up to three spaces and a tab).

Helper files: `CodeVerbatimLine` (`processLine` on an open fenced block), `CodeVerbatimOpen` (the opening line),
`CodeVerbatimBytes` (recognizers, the closing test), `CodeVerbatimRun` (`parseLines` line by line),
`CodeVerbatimFenced` (`fenced_code_run`: the whole run).
-/
namespace CM.Proofs
open CM CM.Model CM.Gen
open CM.Proofs.BT

/-! ### source slices of the Text nodes -/

theorem slice_textNode (src : Bytes) (s len : Nat) : Node.slice src (textNode s len) = (src.drop s).take len :=
  slice_span src IK.text s len []

theorem slices_textNodes : ∀ (ls : List Bytes) (pre post : Bytes) (s : Nat), s = pre.length →
    (textNodes s ls).map (Node.slice (pre ++ (body ls ++ post))) = ls.map (· ++ [LF])
  | [], _, _, _, _ => rfl
  | l :: ls, pre, post, s, hs => by
    subst hs
    have ih := slices_textNodes ls (pre ++ (l ++ [LF])) post (pre.length + (l.length + 1)) (by simp)
    have e : pre ++ (body (l :: ls) ++ post) = (pre ++ (l ++ [LF])) ++ (body ls ++ post) := by rw [body_cons]; simp
    simp only [textNodes, List.map_cons]
    rw [e, ih, slice_textNode]
    congr 1
    rw [List.append_assoc pre, List.drop_left' rfl, List.take_left' (by simp)]

theorem textNodes_isText : ∀ (ls : List Bytes) (s : Nat), ∀ t ∈ textNodes s ls, Node.isI t IK.text = true ∧ t.children = []
  | [], _, t, h => by simp [textNodes] at h
  | l :: ls, s, t, h => by
    simp only [textNodes, List.mem_cons] at h
    rcases h with h | h
    · subst h; exact ⟨rfl, rfl⟩
    · exact textNodes_isText ls _ t h

theorem text_of_isText (ext : Ext) (src : Bytes) (t : Tree) (h : Node.isI t IK.text = true) :
    Node.text ext src t = Node.slice src t := by
  simp only [Node.isI, Bool.and_eq_true, Bool.not_eq_true', beq_iff_eq] at h
  simp [Node.text, h.1, h.2]

theorem textNodes_length : ∀ (ls : List Bytes) (s : Nat), (textNodes s ls).length = ls.length
  | [], _ => rfl
  | l :: ls, s => by simp [textNodes, textNodes_length ls]

/-! ### (1) fenced code blocks -/

/-- The tree of the fenced code block: span, fence character and length, children. -/
def fencedTree (x : PExt) (c : UInt8) (n : Nat) (info : Bytes) (ls : List Bytes) : Tree :=
  .node { isBlock := true, kind := BK.fencedCode, start := 0, stop := ((fencedDoc c n info ls).length : Nat), n := (n : Nat),
          char := c }
    (infoNodes x c n info ++ textNodes (n + info.length + 1) ls)

/-- **Fenced code block contents come out verbatim.** -/
theorem fenced_code_verbatim (x : PExt) (c : UInt8) (n : Nat) (info : Bytes) (ls : List Bytes) (fuel : Nat)
    (hc : isFenceChar c = true) (hn : 3 ≤ n) (hi : infoOK c info = true)
    (hls : ∀ l ∈ ls, plainLine l = true ∧ closesFence c n l = false) (hfuel : 2 ≤ fuel) :
    ∃ (blk : PB) (p' : BP),
      -- exactly one root, then io.EOF, no panic
      drain (blocksLP x) fuel (memParser (fencedDoc c n info ls)) [] =
        ([{ source := fencedDoc c n info ls, startLine := 1, startOffset := 0,
            endOffset := (fencedDoc c n info ls).length, block := blk }], .err .eof, p') ∧
      p'.panic = none ∧
      -- the block: FencedCode, char, n, whole-document span, children = [InfoString]? ++ one Text per line
      pbToTree blk = fencedTree x c n info ls ∧
      -- the InfoString node is there iff the info string is non-empty, and spans it
      Node.infoString (fencedTree x c n info ls) =
        (if info = [] then none else some (infoNode x (fenceLine c n info) n info.length)) ∧
      (info ≠ [] → Node.slice (fencedDoc c n info ls) (infoNode x (fenceLine c n info) n info.length) = info) ∧
      -- the Text nodes: one per line, each slicing to the line with its terminator
      (∀ t ∈ textNodes (n + info.length + 1) ls, Node.isI t IK.text = true ∧ t.children = []) ∧
      (textNodes (n + info.length + 1) ls).map (Node.slice (fencedDoc c n info ls)) = ls.map (· ++ [LF]) ∧
      -- verbatim
      (textNodes (n + info.length + 1) ls).flatMap (Node.text x.ext (fencedDoc c n info ls)) = (ls.map (· ++ [LF])).flatten := by
  have hrun := fenced_code_run x c n info ls fuel hc hn hi hls hfuel
  have hsl : (textNodes (n + info.length + 1) ls).map (Node.slice (fencedDoc c n info ls)) = ls.map (· ++ [LF]) :=
    slices_textNodes ls (fenceLine c n info) (fenceLine c n []) _ (fenceLine_length c n info).symm
  refine ⟨_, _, hrun, rfl, ?_, ?_, ?_, textNodes_isText ls _, hsl, ?_⟩
  · simp [pbToTree, fcLabel, fencedTree]
  · by_cases hinfo : info = []
    · subst hinfo
      cases ls with
      | nil => simp [Node.infoString, fencedTree, infoNodes, textNodes, Node.isB, BK.fencedCode, Tree.children]
      | cons l ls =>
        simp [Node.infoString, fencedTree, infoNodes, textNodes, Node.isB, BK.fencedCode, Tree.children, Node.isI, textNode,
          mkInline, Tree.label, IK.text, IK.infoString]
    · simp [Node.infoString, fencedTree, infoNodes, hinfo, Node.isB, BK.fencedCode, Tree.children, Node.isI, infoNode,
        mkInline, Tree.label]
  · intro _
    rw [infoNode, slice_span, fencedDoc, fenceLine, List.append_assoc, List.append_assoc, List.drop_left' (by simp),
      List.take_left' rfl]
  · rw [← hsl, List.flatMap_def]
    congr 1
    apply List.map_congr_left
    intro t ht
    exact text_of_isText x.ext _ t (textNodes_isText ls _ t ht).1

/-! ### (2) indented code blocks -/

theorem slices_icTextNodes : ∀ (its : List (Bytes × Bytes)) (pre post : Bytes) (s : Nat), s = pre.length →
    (icTextNodes s its).map (Node.slice (pre ++ (icBody its ++ post))) = its.map (fun it => it.2 ++ [LF])
  | [], _, _, _, _ => rfl
  | it :: its, pre, post, s, hs => by
    subst hs
    have ih := slices_icTextNodes its (pre ++ icEnc it) post (pre.length + (icEnc it).length) (by simp)
    have e : pre ++ (icBody (it :: its) ++ post) = (pre ++ icEnc it) ++ (icBody its ++ post) := by rw [icBody_cons]; simp
    have hlen : pre.length + (icEnc it).length = (pre.length + it.1.length) + (it.2.length + 1) := by simp [icEnc]; omega
    simp only [icTextNodes, List.map_cons]
    rw [e, ih, hlen, slice_span]
    congr 1
    have hs : (pre ++ icEnc it) ++ (icBody its ++ post) =
        pre ++ (it.1 ++ ((it.2 ++ [LF]) ++ (icBody its ++ post))) := by simp [icEnc]
    rw [hs, ← List.drop_drop, List.drop_left' rfl, List.drop_left' rfl, List.take_left' (by simp)]

theorem icTextNodes_isText : ∀ (its : List (Bytes × Bytes)) (s : Nat), ∀ t ∈ icTextNodes s its,
    Node.isI t IK.text = true ∧ t.children = []
  | [], _, t, h => by simp [icTextNodes] at h
  | it :: its, s, t, h => by
    simp only [icTextNodes, List.mem_cons] at h
    rcases h with h | h
    · subst h; exact ⟨rfl, rfl⟩
    · exact icTextNodes_isText its _ t h

/-- A content line as written in the document: four spaces in front of a non-blank line, blank lines as they are. -/
def indentedLine (l : Bytes) : Bytes := if isBlankLine l then l ++ [LF] else List.replicate 4 SP ++ (l ++ [LF])

def indentedDoc (ls : List Bytes) : Bytes := (ls.map indentedLine).flatten

/-- Number of leading bytes that span the next `c` columns (a tab reaches the tab stop at column 4), or all of the
    white space if it is narrower. -/
def take4 : Nat → Bytes → Nat
  | 0, _ => 0
  | _ + 1, [] => 0
  | c + 1, b :: r => if b == SP then 1 + take4 c r else if b == TAB then 1 else 0

/-- What the Text node of the line slices to: a non-blank line entirely; of a blank line what is left after the
    indentation the match rule consumes (four columns, or the whole line if it is narrower). -/
def indentedText (l : Bytes) : Bytes := if isBlankLine l then l.drop (take4 4 l) ++ [LF] else l ++ [LF]

/-- The line as the model sees it: consumed indentation, text. -/
def icItem (l : Bytes) : Bytes × Bytes :=
  if isBlankLine l then (l.take (take4 4 l), l.drop (take4 4 l)) else (List.replicate 4 SP, l)

theorem plainLine_drop {l : Bytes} (k : Nat) (h : plainLine l = true) : plainLine (l.drop k) = true := by
  apply List.all_eq_true.mpr
  intro b hb
  exact List.all_eq_true.mp h b (List.mem_of_mem_drop hb)

theorem take4_spec : ∀ (c : Nat) (l : Bytes), isBlankLine l = true → plainLine l = true →
    l.take (take4 c l) = List.replicate c SP ∨ (∃ j, j < c ∧ l.take (take4 c l) = List.replicate j SP ++ [TAB]) ∨
      (∃ k, k < c ∧ l = List.replicate k SP ∧ take4 c l = k) := by
  intro c
  induction c with
  | zero => intro l _ _; left; simp [take4]
  | succ c ih =>
    intro l hb hp
    cases l with
    | nil => right; right; exact ⟨0, by omega, rfl, rfl⟩
    | cons b r =>
      have hb' : isSpaceTabOrLineEnding b = true ∧ isBlankLine r = true := by
        simpa [isBlankLine] using hb
      have hpb := plainLine_mem hp (List.mem_cons_self (a := b) (l := r))
      have hpr : plainLine r = true := by simp [plainLine] at hp ⊢; exact hp.2
      have hst := ws_plain_spTab b hb'.1 hpb.1 hpb.2.1
      simp only [Bool.or_eq_true, beq_iff_eq] at hst
      rcases hst with hst | hst
      · subst hst
        have e : take4 (c + 1) (SP :: r) = 1 + take4 c r := by simp [take4]
        rw [e, Nat.add_comm 1, List.take_succ_cons]
        rcases ih r hb'.2 hpr with h | ⟨j, hj, h⟩ | ⟨k, hk, h1, h2⟩
        · left; rw [h, List.replicate_succ]
        · right; left; exact ⟨j + 1, by omega, by rw [h, List.replicate_succ]; rfl⟩
        · right; right; exact ⟨k + 1, by omega, by rw [List.replicate_succ, ← h1], by rw [h2]⟩
      · subst hst
        have e : take4 (c + 1) (TAB :: r) = 1 := by
          have h1 : ((TAB : UInt8) == SP) = false := by decide
          simp [take4, h1]
        right; left
        exact ⟨0, by omega, by rw [e]; rfl⟩

theorem icItem_facts (l : Bytes) (hp : plainLine l = true) :
    icEnc (icItem l) = indentedLine l ∧ icValid (icItem l) = true ∧ (icItem l).2 ++ [LF] = indentedText l := by
  by_cases hbl : isBlankLine l = true
  · refine ⟨?_, ?_, ?_⟩
    · simp only [icItem, hbl, if_true, icEnc, indentedLine]
      rw [← List.append_assoc, List.take_append_drop]
    · simp only [icItem, hbl, if_true, icValid, plainLine_drop _ hp, Bool.true_and]
      rcases take4_spec 4 l hbl hp with h | ⟨j, hj, h⟩ | ⟨k, hk, h1, h2⟩
      · simp [indentW, h]
      · simp only [indentW, h, Bool.or_eq_true, List.any_eq_true, List.mem_range, beq_iff_eq]
        left; right; exact ⟨j, hj, rfl⟩
      · have hl : l.length = k := by rw [h1]; simp
        have ht : l.take (take4 4 l) = List.replicate k SP := by rw [h2, ← hl, List.take_length]; rw [hl]; exact h1
        have hd : l.drop (take4 4 l) = [] := by rw [h2, ← hl, List.drop_length]
        simp only [indentW, ht, hd, Bool.or_eq_true, Bool.and_eq_true, List.any_eq_true, List.mem_range, beq_iff_eq,
          List.isEmpty_nil, and_true]
        right; exact ⟨k, hk, rfl⟩
    · simp only [icItem, hbl, if_true, indentedText]
  · have hbl' : isBlankLine l = false := by simpa using hbl
    refine ⟨?_, ?_, ?_⟩
    · simp only [icItem, hbl', Bool.false_eq_true, if_false, icEnc, indentedLine]
    · simp [icItem, hbl', icValid, hp, indentW]
    · simp only [icItem, hbl', Bool.false_eq_true, if_false, indentedText]

theorem icBody_items (ls : List Bytes) (h : ∀ l ∈ ls, plainLine l = true) : icBody (ls.map icItem) = indentedDoc ls := by
  induction ls with
  | nil => rfl
  | cons l ls ih =>
    simp only [List.map_cons, icBody_cons, indentedDoc, List.flatten_cons]
    rw [(icItem_facts l (h l List.mem_cons_self)).1]
    congr 1
    exact ih (fun l' h' => h l' (List.mem_cons_of_mem _ h'))

/-- The tree of the indented code block. -/
def indentedTree (ls : List Bytes) : Tree :=
  .node { isBlock := true, kind := BK.indentedCode, start := 4, stop := ((indentedDoc ls).length : Nat) }
    (icTextNodes 0 (ls.map icItem))

/-- **Indented code block contents come out verbatim.** -/
theorem indented_code_verbatim (x : PExt) (ls : List Bytes) (first last : Bytes) (fuel : Nat)
    (hok : ∀ l ∈ ls, plainLine l = true)
    (hfirst : ls.head? = some first) (hfnb : isBlankLine first = false)
    (hlast : ls.getLast? = some last) (hlnb : isBlankLine last = false) (hfuel : 2 ≤ fuel) :
    ∃ (blk : PB) (p' : BP),
      drain (blocksLP x) fuel (memParser (indentedDoc ls)) [] =
        ([{ source := indentedDoc ls, startLine := 1, startOffset := 0, endOffset := (indentedDoc ls).length, block := blk }],
         .err .eof, p') ∧
      p'.panic = none ∧
      pbToTree blk = indentedTree ls ∧
      (∀ t ∈ icTextNodes 0 (ls.map icItem), Node.isI t IK.text = true ∧ t.children = []) ∧
      (icTextNodes 0 (ls.map icItem)).map (Node.slice (indentedDoc ls)) = ls.map indentedText ∧
      (icTextNodes 0 (ls.map icItem)).flatMap (Node.text x.ext (indentedDoc ls)) = (ls.map indentedText).flatten := by
  obtain ⟨rest, hrest⟩ : ∃ rest, ls = first :: rest := by
    cases ls with
    | nil => simp at hfirst
    | cons a r => simp at hfirst; exact ⟨r, by rw [hfirst]⟩
  obtain ⟨init, hinit⟩ : ∃ init, ls = init ++ [last] := by
    rcases List.eq_nil_or_concat ls with h | ⟨init, a, h⟩
    · rw [h] at hfirst; simp at hfirst
    · rw [h] at hlast
      simp at hlast
      exact ⟨init, by rw [h, hlast]; simp⟩
  have hf : icItem first = (List.replicate 4 SP, first) := by simp [icItem, hfnb]
  have hl : icItem last = (List.replicate 4 SP, last) := by simp [icItem, hlnb]
  have hrun := indented_code_run x (ls.map icItem) first (rest.map icItem) (init.map icItem) (List.replicate 4 SP) last fuel
    (by rw [hrest, List.map_cons, hf]) (by rw [hinit, List.map_append, List.map_singleton, hl])
    (by
      intro it hit
      obtain ⟨l, hl', rfl⟩ := List.mem_map.mp hit
      exact (icItem_facts l (hok l hl')).2.1) hfnb hlnb hfuel
  rw [icBody_items ls hok] at hrun
  have hsl : (icTextNodes 0 (ls.map icItem)).map (Node.slice (indentedDoc ls)) = ls.map indentedText := by
    have := slices_icTextNodes (ls.map icItem) [] [] 0 rfl
    simp only [List.nil_append, List.append_nil, icBody_items ls hok, List.map_map] at this
    rw [this]
    apply List.map_congr_left
    intro l hl'
    exact (icItem_facts l (hok l hl')).2.2
  refine ⟨_, _, hrun, rfl, ?_, icTextNodes_isText _ _, hsl, ?_⟩
  · simp [pbToTree, icLabel, indentedTree]
  · rw [← hsl, List.flatMap_def]
    congr 1
    apply List.map_congr_left
    intro t ht
    exact text_of_isText x.ext _ t (icTextNodes_isText _ _ t ht).1

/-- For a non-blank line the Text node is the line itself (with its terminator): verbatim. -/
theorem indentedText_nonblank (l : Bytes) (h : isBlankLine l = false) : indentedText l = l ++ [LF] := by
  simp [indentedText, h]

/-! ### (3) concrete evaluations -/

/-- Content lines: a shorter backtick run, a tab-leading line with trailing spaces, an indented shorter fence with a
    trailing space, a tilde fence, an empty line, a `>` line, four backticks followed by text (not a closing fence). -/
def demoLines : List Bytes :=
  [[96, 96, 96], [9, 120, 32, 32], [32, 32, 96, 96, 96, 32], [126, 126, 126, 126, 126], [], [62, 32, 113],
   [96, 96, 96, 96, 32, 120]]

/-- The hypotheses of `fenced_code_verbatim` are satisfiable on a non-trivial input (non-vacuity):
    a 4-backtick fence, info string `go`, the lines above. -/
example : ∃ blk p', drain (blocksLP demoExt) 2 (memParser (fencedDoc 96 4 [103, 111] demoLines)) [] =
      ([{ source := fencedDoc 96 4 [103, 111] demoLines, startLine := 1, startOffset := 0,
          endOffset := (fencedDoc 96 4 [103, 111] demoLines).length, block := blk }], .err .eof, p') ∧
      pbToTree blk = fencedTree demoExt 96 4 [103, 111] demoLines := by
  obtain ⟨blk, p', h1, _, h3, _⟩ := fenced_code_verbatim demoExt 96 4 [103, 111] demoLines 2 (by decide +kernel) (by decide)
    (by decide +kernel) (by decide +kernel) (by decide)
  exact ⟨blk, p', h1, h3⟩

example : fencedDoc 96 4 [103, 111] [[96, 96, 96], [9, 120, 32, 32]] =
    [96, 96, 96, 96, 103, 111, 10, 96, 96, 96, 10, 9, 120, 32, 32, 10, 96, 96, 96, 96, 10] := by decide +kernel

/-- By evaluation of the model: the block label and the source slices of the inline children of the single root. -/
example : (drain (blocksLP demoExt) 2 (memParser (fencedDoc 96 4 [103, 111] demoLines)) []).1.map
      (fun r => r.block.inlines.map (fun t => (t.label.kind, Node.slice r.source t))) =
    [[(IK.infoString, [103, 111]), (IK.text, [96, 96, 96, 10]), (IK.text, [9, 120, 32, 32, 10]),
      (IK.text, [32, 32, 96, 96, 96, 32, 10]), (IK.text, [126, 126, 126, 126, 126, 10]), (IK.text, [10]),
      (IK.text, [62, 32, 113, 10]), (IK.text, [96, 96, 96, 96, 32, 120, 10])]] := by decide +kernel

example : (drain (blocksLP demoExt) 2 (memParser (fencedDoc 96 4 [103, 111] demoLines)) []).1.map
      (fun r => (r.block.kind, r.block.label.char, r.block.label.n.toNat, r.block.label.start.toNat, r.block.label.stop.toNat)) =
    [(BK.fencedCode, 96, 4, 0, 46)] := by decide +kernel

/-- Tilde fence without info string, backticks inside. -/
example : (drain (blocksLP demoExt) 2 (memParser (fencedDoc 126 3 [] [[96, 96, 96], [126, 126]])) []).1.map
      (fun r => r.block.inlines.map (fun t => (t.label.kind, Node.slice r.source t))) =
    [[(IK.text, [96, 96, 96, 10]), (IK.text, [126, 126, 10])]] := by decide +kernel

/-- The hypothesis on the content lines is needed: a line of five backticks closes a four-backtick fence, the rest of the
    document becomes further blocks. -/
example : closesFence 96 4 [96, 96, 96, 96, 96] = true ∧
    (drain (blocksLP demoExt) 5 (memParser (fencedDoc 96 4 [] [[120], [96, 96, 96, 96, 96], [121]])) []).1.length = 3 := by
  decide +kernel

/-- An info string that starts with the (tilde) fence character would lengthen the fence (`infoOK` excludes it). -/
example : infoOK 126 [126, 97] = false ∧ parseCodeFence (fenceLine 126 3 [126, 97]) = ⟨126, 4, 4, 5⟩ := by decide +kernel

/-- Indented code: a line with extra indentation, blank lines of 0, 2 and 6 spaces, blank lines with tabs (`\t`,
    ` \t `, four spaces and a tab), a tab-leading line with trailing spaces. -/
def demoIndented : List Bytes :=
  [[97], [32, 32, 98], [], [32, 32], [32, 32, 32, 32, 32, 32], [9], [32, 9, 32], [32, 32, 32, 32, 9], [9, 99, 32, 32], [100]]

example : ∃ blk p', drain (blocksLP demoExt) 2 (memParser (indentedDoc demoIndented)) [] =
      ([{ source := indentedDoc demoIndented, startLine := 1, startOffset := 0,
          endOffset := (indentedDoc demoIndented).length, block := blk }], .err .eof, p') ∧
      pbToTree blk = indentedTree demoIndented := by
  obtain ⟨blk, p', h1, _, h3, _⟩ := indented_code_verbatim demoExt demoIndented [97] [100] 2 (by decide +kernel) rfl
    (by decide +kernel) rfl (by decide +kernel) (by decide)
  exact ⟨blk, p', h1, h3⟩

example : (drain (blocksLP demoExt) 2 (memParser (indentedDoc demoIndented)) []).1.map
      (fun r => r.block.inlines.map (fun t => (t.label.kind, Node.slice r.source t))) =
    [[(IK.text, [97, 10]), (IK.text, [32, 32, 98, 10]), (IK.text, [10]), (IK.text, [10]), (IK.text, [32, 32, 10]),
      (IK.text, [10]), (IK.text, [32, 10]), (IK.text, [9, 10]), (IK.text, [9, 99, 32, 32, 10]), (IK.text, [100, 10])]] := by
  decide +kernel

example : demoIndented.map indentedText =
    [[97, 10], [32, 32, 98, 10], [10], [10], [32, 32, 10], [10], [32, 10], [9, 10], [9, 99, 32, 32, 10], [100, 10]] := by
  decide +kernel

/-- `indented_code_run` also covers continuation lines indented with a tab: `"    a\n" ++ "\tb\n" ++ "  \tc\n"`. -/
def demoTabItems : List (Bytes × Bytes) := [([32, 32, 32, 32], [97]), ([9], [98]), ([32, 32, 9], [99])]

example : drain (blocksLP demoExt) 2 (memParser (icBody demoTabItems)) [] =
    ([{ source := icBody demoTabItems, startLine := 1, startOffset := 0, endOffset := (icBody demoTabItems).length,
        block := .mk (icLabel false ((icBody demoTabItems).length : Nat)) [] (icTextNodes 0 demoTabItems) }],
     .err .eof, doneBP (icBody demoTabItems).length (1 + lineCount (icBody demoTabItems))) :=
  indented_code_run demoExt demoTabItems [97] [([9], [98]), ([32, 32, 9], [99])] [([32, 32, 32, 32], [97]), ([9], [98])]
    [32, 32, 9] [99] 2 rfl rfl (by decide +kernel) (by decide +kernel) (by decide +kernel) (by decide)

example : icBody demoTabItems = [32, 32, 32, 32, 97, 10, 9, 98, 10, 32, 32, 9, 99, 10] ∧
    (drain (blocksLP demoExt) 2 (memParser (icBody demoTabItems)) []).1.map
      (fun r => r.block.inlines.map (fun t => (t.label.kind, Node.slice r.source t))) =
    [[(IK.text, [97, 10]), (IK.text, [98, 10]), (IK.text, [99, 10])]] := by decide +kernel
