import CM.Proofs.InlSpanRun
/-
C02, inline half — the first group of cases of the tokenizer (`tokA`: delimiter runs, brackets).
-/
namespace CM.Proofs.InlH
open CM CM.Model CM.Model.Inl CM.Gen
open Std.Do

set_option mvcgen.warning false

/-- `alloc n; addToRoot id; pushStack ⟨el, id⟩` for a non-empty Text leaf `n` at the frontier -/
theorem SP.pushLeaf {lo hi F : Int} {s : IState} (h : SPT lo hi F s) (n : INode) (hk : n.kids = #[]) (hs : F ≤ n.start)
    (hv : n.start < n.stop) (hh : n.stop ≤ hi) (hsub : n.sub = []) (el : DelimElem) :
    SPT lo hi n.stop
      { s with nodes := addRootA s.nodes n, parentMap := (s.parentMap.push none).set! s.nodes.size (some 0),
               stack := s.stack.push ⟨el, s.nodes.size⟩ } := by
  refine SP.addRootPush h n hk hs hv hh hsub el rfl rfl (by simp)
    (fun i hlt' => pm_push_set_lt _ _ _ (by rw [h.2]; exact Nat.le_refl _) i hlt') ?_
  have := pm_push_set_new s.parentMap (some 0)
  rw [h.2] at this
  exact this

@[spec 20000]
theorem tokA_specP (L : Lims) (c : ICtx) (hU : UnpOK c L) (hT : TokScan c L.hi) (hS : LinkScan c L.hi) (s : IState)
    (b : UInt8) (pos plainStart : Int) (done : Bool)
    (hB : ∀ s,
      ⦃fun st => ⌜st = s ∧ RunInv L c (pos, plainStart, done) s ∧ s.unparsedPos < c.unparsed.size ∧
          pos < spanEndOf c s⌝⦄
      tokB c s b pos plainStart done
      ⦃⇓? r st => ⌜RunInv L c r.value st⌝⦄) :
    ⦃fun st => ⌜st = s ∧ RunInv L c (pos, plainStart, done) s ∧ s.unparsedPos < c.unparsed.size ∧
        pos < spanEndOf c s⌝⦄
    tokA c s b pos plainStart done
    ⦃⇓? r st => ⌜RunInv L c r.value st⌝⦄ := by
  mvcgen [tokA, addText, alloc, addToRoot, nodeLen, getNode, setParent, modifyNode, pushStack, hB,
    -addToRoot_spec, -addToRoot_specS]
  all_goals (try (exact fun h => h))
  all_goals (try (exact ExceptConds.entails.refl _))
  all_goals (try (exact hU.arr))
  all_goals (try assumption)
  all_goals tok_setup
  -- the dead branch of `addToRoot` (the new node is not empty)
  all_goals (try (
    exfalso
    have h2 := ‹(spanLenI _ _ == 0) = true›
    rw [get!_push_eq] at h2
    dsimp only at h2
    have := spanLen_zero h2 (by omega)
    omega))
  all_goals unp_norm
  all_goals (first
    | (refine ⟨trivial, ?_, ?_⟩
       · first | assumption | (apply SP.mono; assumption; omega; omega)
       · omega)
    | (refine ⟨trivial, ?_, ?_, ?_⟩
       · first | assumption | (apply SP.mono; assumption; omega; omega)
       · omega
       · omega)
    | (refine ⟨trivial, ?_, ?_, ?_, ?_⟩
       · first | assumption | (apply SP.mono; assumption; omega; omega)
       · omega
       · omega
       · omega)
    | (refine ⟨?_, ?_, ?_⟩
       · first | assumption | (apply SP.mono; assumption; omega; omega)
       · omega
       · intro _; omega)
    | (refine ⟨?_, by omega, ?_⟩
       · exact SP.congr (SP.pushLeaf (SP.mono (F' := pos) ‹SPT _ _ (max _ _) _› (by omega) (by omega))
           { kind := IK.text, start := pos, stop := _ } rfl (Int.le_refl _) (by dsimp only; omega)
           (by dsimp only; omega) rfl _) rfl rfl rfl
       · intro _; omega)
    )

end CM.Proofs.InlH
