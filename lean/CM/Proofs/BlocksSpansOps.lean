import CM.Proofs.BlocksSpansSpine
/-
C02, block half — the mid-line invariant `MI` of the line parser and how the closing operations
(`closeLastChild`, `closeContainer`) transport it.
-/
namespace CM.Proofs.BSp
open CM CM.Model CM.Gen CM.Proofs.BT

/-- The source position of the cursor. -/
def curPos (p : LP) : Int := (p.lineStart : Int) + (p.i : Int)
/-- The source position of the end of the line. -/
def lineEnd (p : LP) : Int := (p.lineStart : Int) + (p.line.length : Int)

/-- The mid-line invariant: everything in the tree lies before the cursor, the spine down to the container is open. -/
structure MI (Q : ParaPred) (p : LP) : Prop where
  base : PBSpans Q 0 (curPos p) p.root
  sopen : SpineOpen p.root p.depth
  ile : p.i ≤ p.line.length

/-- What hangs below the container, if open, lies before the start of the line (it can be closed there). -/
def Below (Q : ParaPred) (p : LP) : Prop :=
  ∀ c, spineGet p.root (p.depth + 1) = some c → c.isOpen = true → PBSpans Q 0 p.lineStart c

/-- The container's last child (if any) is closed. -/
def TipClosed (p : LP) : Prop := ∀ c, spineGet p.root (p.depth + 1) = some c → 0 ≤ c.label.stop

theorem TipClosed.below {Q : ParaPred} {p : LP} (h : TipClosed p) : Below Q p := by
  intro c hc ho
  have := h c hc
  rw [isOpen_iff] at ho
  omega

theorem curPos_le_lineEnd {p : LP} (h : p.i ≤ p.line.length) : curPos p ≤ lineEnd p := by
  simp only [curPos, lineEnd]; omega

theorem lineStart_le_curPos (p : LP) : (p.lineStart : Int) ≤ curPos p := by
  simp only [curPos]; omega

theorem curPos_nonneg (p : LP) : 0 ≤ curPos p := by simp only [curPos]; omega

/-- Cursor operations (the tree is untouched, the cursor does not move backwards). -/
theorem MI.of_cursor {Q : ParaPred} {p p' : LP} (h : MI Q p) (ht : BT.tree p' = BT.tree p) (hl : p'.line = p.line)
    (hi : p.i ≤ p'.i) (hile : p'.i ≤ p'.line.length) : MI Q p' := by
  simp only [BT.tree, Prod.mk.injEq] at ht
  obtain ⟨_, hr, hd, hls⟩ := ht
  refine ⟨?_, by rw [hr, hd]; exact h.sopen, hile⟩
  rw [hr]
  refine PBSpans_mono' (Int.le_refl _) ?_ h.base
  simp only [curPos, hls]; omega

theorem Below.of_cursor {Q : ParaPred} {p p' : LP} (h : Below Q p) (ht : BT.tree p' = BT.tree p) : Below Q p' := by
  simp only [BT.tree, Prod.mk.injEq] at ht
  obtain ⟨_, hr, hd, hls⟩ := ht
  intro c hc ho
  rw [hr, hd] at hc
  rw [hls]
  exact h c hc ho

theorem container_of_spineGet {p : LP} {b : PB} (h : spineGet p.root p.depth = some b) : p.container = b := by
  simp [LP.container, h]

theorem MI.container_open {Q : ParaPred} {p : LP} (h : MI Q p) :
    ∃ b, spineGet p.root p.depth = some b ∧ b.label.stop < 0 ∧ p.container = b := by
  obtain ⟨l, hl, ho⟩ := h.sopen p.depth (Nat.le_refl _)
  obtain ⟨b, hb, e⟩ := labelAt_eq_some hl
  exact ⟨b, hb, by rw [e]; exact ho, container_of_spineGet hb⟩

theorem SpineOpen.open_of_get {root : PB} {d j : Nat} {b : PB} (h : SpineOpen root d) (hj : j ≤ d) (hb : spineGet root j = some b) :
    b.label.stop < 0 := by
  obtain ⟨l, hl, ho⟩ := h j hj
  rw [labelAt_of_spineGet hb] at hl
  cases hl
  exact ho

theorem SpineOpen.root_open {root : PB} {d : Nat} (h : SpineOpen root d) : root.label.stop < 0 := by
  obtain ⟨l, hl, ho⟩ := h 0 (Nat.zero_le _)
  rw [labelAt_zero] at hl
  cases hl
  exact ho

/-! ### replacing the last child of the block at depth `d` -/

theorem replaceLastG_spans {Q : ParaPred} {C : Int} (g : PB → List PB) (root : PB) (d : Nat) (lo : Int)
    (hbase : PBSpans Q lo C root) (hopen : SpineOpen root d)
    (hg : ∀ c lo', spineGet root (d + 1) = some c → lo ≤ lo' → PBSpans Q lo' C c → PBSpansL Q true lo' C (g c)) :
    PBSpans Q lo C (spineReplaceLast g root d) := by
  rw [spineReplaceLast_eq]
  apply spineModify_spans (replaceLastFn g) d root lo hbase (fun j hj => hopen j (by omega))
  intro b lo' hb hlo' hsp
  have hbo := hopen.open_of_get (Nat.le_refl _) hb
  obtain ⟨l, bs, is⟩ := b
  simp only [PB.label] at hbo
  simp only [replaceLastFn]
  cases hgl : bs.getLast? with
  | none => exact hsp
  | some c =>
    simp only []
    rw [PBSpans_mk, endOf_open hbo] at hsp ⊢
    obtain ⟨a1, a2, a3, a4, a5, a6, a7⟩ := hsp
    obtain ⟨e, hinit, hc, hpo, hge⟩ := getLast_split hgl a5
    have hcg : spineGet root (d + 1) = some c := by
      rw [spineGet_succ_eq, hb]; exact hgl
    have hres := hg c _ hcg (by omega) hc
    refine ⟨a1, a2, a3, a4, ?_, ⟨?_, a7⟩⟩
    · have : decide (l.stop < 0) = true := by simp [hbo]
      rw [this]
      exact PBSpansL_append_closed hinit hres
    · rcases a6 with a6 | a6
      · exact Or.inl a6
      · rw [a6] at hgl; cases hgl

/-- The last child of the block at depth `d` after the replacement. -/
theorem replaceLast_tip {g : PB → List PB} {root : PB} {d : Nat} {c' : PB}
    (h : spineGet (spineReplaceLast g root d) (d + 1) = some c') :
    ∃ b c, spineGet root d = some b ∧ b.blocks.getLast? = some c ∧ c' ∈ b.blocks.dropLast ++ g c := by
  rw [spineReplaceLast_eq, spineGet_modify_add] at h
  cases hb : spineGet root d with
  | none => rw [hb] at h; cases h
  | some b =>
    rw [hb] at h
    simp only [Option.bind_some] at h
    obtain ⟨l, bs, is⟩ := b
    simp only [replaceLastFn] at h
    cases hgl : bs.getLast? with
    | none =>
      rw [hgl] at h
      simp only [] at h
      rw [spineGet_succ, hgl] at h
      cases h
    | some c =>
      rw [hgl] at h
      simp only [] at h
      rw [spineGet_succ] at h
      cases hgl' : (bs.dropLast ++ g c).getLast? with
      | none => rw [hgl'] at h; cases h
      | some c'' =>
        rw [hgl'] at h
        simp only [spineGet_zero, Option.some.injEq] at h
        subst h
        exact ⟨_, c, rfl, hgl, List.mem_of_getLast? hgl'⟩

theorem closeBlock_closed (x : PExt) (src : Bytes) (e : Int) (c : PB) (h : 0 ≤ c.label.stop) : closeBlock x src e c = [c] := by
  obtain ⟨l, bs, is⟩ := c
  rw [closeBlock]
  simp only [PB.label] at h
  rw [if_pos h]

/-- `closeBlock … e` as the replacement function of `replaceLastG_spans`. -/
theorem closeBlock_hg {Q : ParaPred} {x : PExt} {src : Bytes} {e C : Int} (he : 0 ≤ e) (heC : e ≤ C)
    (hQ : CloseParaOK Q x src e) (c : PB) (lo' : Int) (hcl : c.isOpen = true → PBSpans Q 0 e c) (h : PBSpans Q lo' C c) :
    PBSpansL Q true lo' C (closeBlock x src e c) ∧ allClosed (closeBlock x src e c) ∧
      (c.isOpen = true → ∀ c' ∈ closeBlock x src e c, c'.label.stop ≤ e) := by
  cases hco : c.isOpen
  · have hcc := (isOpen_false_iff c).mp hco
    rw [closeBlock_closed x src e c hcc]
    refine ⟨?_, ?_, fun h' => by cases h'⟩
    · rw [PBSpansL_cons]
      exact ⟨h, fun _ => ⟨rfl, rfl⟩, PBSpansL_nil _ _ _ _⟩
    · intro c' hc'
      simp only [List.mem_singleton] at hc'
      subst hc'; exact hcc
  · have h1 := PBSpans_combine h (hcl hco)
    have h2 := closeBlock_spans he hQ c h1
    have hac := allClosed_of_false h2
    refine ⟨PBSpansL_po (PBSpansL_mono' (Int.le_refl _) heC (PBSpansL_closed_Q h2)), hac, fun _ c' hc' => ?_⟩
    exact PBSpansL_mem_le h2 c' hc' (hac c' hc')

/-- Closing (at `e`) the last child of the block at depth `d`. -/
theorem closeAt_spans {Q : ParaPred} {x : PExt} {src : Bytes} {e C : Int} (root : PB) (d : Nat) (he : 0 ≤ e) (heC : e ≤ C)
    (hQ : CloseParaOK Q x src e) (hbase : PBSpans Q 0 C root) (hopen : SpineOpen root d)
    (hlast : ∀ c, spineGet root (d + 1) = some c → c.isOpen = true → PBSpans Q 0 e c) :
    PBSpans Q 0 C (spineReplaceLast (closeBlock x src e) root d) ∧
    SpineOpen (spineReplaceLast (closeBlock x src e) root d) d ∧
    (∀ c, spineGet (spineReplaceLast (closeBlock x src e) root d) (d + 1) = some c → 0 ≤ c.label.stop) := by
  refine ⟨?_, ?_, ?_⟩
  · apply replaceLastG_spans _ root d 0 hbase hopen
    intro c lo' hc _ hsp
    exact (closeBlock_hg he heC hQ c lo' (hlast c hc) hsp).1
  · intro j hj
    obtain ⟨l, hl, ho⟩ := hopen j hj
    refine ⟨l, ?_, ho⟩
    rw [spineReplaceLast_eq, labelAt_modify_le _ (replaceLastFn_label _) _ _ _ hj]
    exact hl
  · intro c' hc'
    obtain ⟨b, c, hb, hgl, hmem⟩ := replaceLast_tip hc'
    obtain ⟨lo', _, hbs⟩ := spineGet_spans d root 0 b hbase hb
    have hbo := hopen.open_of_get (Nat.le_refl _) hb
    obtain ⟨l, bs, is⟩ := b
    simp only [PB.label] at hbo
    simp only [PB.blocks] at hgl hmem
    rw [PBSpans_mk, endOf_open hbo] at hbs
    obtain ⟨e1, hinit, hc, _, _⟩ := getLast_split hgl hbs.2.2.2.2.1
    rcases List.mem_append.mp hmem with hm | hm
    · exact allClosed_of_false hinit c' hm
    · have hcg : spineGet root (d + 1) = some c := by rw [spineGet_succ_eq, hb]; exact hgl
      exact (closeBlock_hg he heC hQ c _ (hlast c hcg) hc).2.1 c' hm

/-! ### `closeLastChild` at the start of the line -/

theorem closeLastChild_MI {Q : ParaPred} {x : PExt} {p : LP} (h : MI Q p) (hb : Below Q p)
    (hL : CloseParaOK Q x p.source p.lineStart) :
    MI Q (p.closeLastChild x p.lineStart) ∧ TipClosed (p.closeLastChild x p.lineStart) := by
  have := closeAt_spans (x := x) (src := p.source) p.root p.depth (Int.natCast_nonneg _) (lineStart_le_curPos p) hL h.base h.sopen hb
  exact ⟨⟨this.1, this.2.1, h.ile⟩, this.2.2⟩

/-! ### `closeContainer` -/

/-- The state after `closeContainer` at depth ≥ 1. -/
theorem closeContainer_eq (x : PExt) (p : LP) (e : Int) (hd : p.depth ≠ 0) :
    p.closeContainer x e = { p with root := spineReplaceLast (closeBlock x p.source e) p.root (p.depth - 1), depth := p.depth - 1 } := by
  unfold LP.closeContainer
  have : (p.depth == 0) = false := by simp [hd]
  simp only [this, Bool.false_eq_true, if_false]

/-- Closing the container (depth ≥ 1) at `e`, when it is closable there. -/
theorem closeContainer_MI {Q : ParaPred} {x : PExt} {p : LP} {e : Int} (h : MI Q p) (hd : p.depth ≠ 0) (he : 0 ≤ e)
    (heC : e ≤ curPos p) (hQ : CloseParaOK Q x p.source e) (hB : PBSpans Q 0 e p.container) :
    MI Q (p.closeContainer x e) ∧ TipClosed (p.closeContainer x e) := by
  rw [closeContainer_eq x p e hd]
  obtain ⟨b, hbg, _, hbc⟩ := h.container_open
  have hd1 : p.depth - 1 + 1 = p.depth := by omega
  have := closeAt_spans (x := x) (src := p.source) p.root (p.depth - 1) he heC hQ h.base (h.sopen.mono (by omega))
    (fun c hc _ => by
      rw [hd1, hbg] at hc
      cases hc
      rw [← hbc]; exact hB)
  exact ⟨⟨this.1, this.2.1, h.ile⟩, this.2.2⟩

end CM.Proofs.BSp
