import CM.Proofs.ParseWholeSafe2
import CM.Proofs.FilterRender
import CM.Props.C17
/-
Whole-`Parse` theorems, part 13: **C17 (b) for parser output** — the seam condition `rawSeamsOK cx t'` of
`C17.render_no_rejected_start_tag`.

`rawSeamsOK_of_safePre` needs `safePre` (now unconditional: `parse_safePre`) and `rawClosed src t'`: no RawHTML node's
slice ends in an unfinished name candidate `<` nameChar*.

* **`rawClosed` is FALSE for parser output** (`parse_rawClosed_target_false`): the input `<div` (an HTML block whose
  last — here only — line has no line ending) gives the tree HTMLBlock [RawHTML `[0,4)`] whose raw slice `<div` IS an
  unfinished candidate.  (`rawSeamsOK` itself holds on this tree: nothing follows the block; see `FilterRender.lean`.)
* What is proved without hypothesis: **with `IgnoreRaw` set** the raw nodes are not written at all, and `rawSeamsOK`
  follows from `safePre` alone: `parse_rawSeamsOK_ignoreRaw`, hence
  `parse_render_no_rejected_start_tag_ignoreRaw` — for every parsed root on which the inline phase completed, every
  name-closed predicate `p` and every configuration with `filter = some p`, `ignoreRaw = true` whose source is the
  root's source, an HTML tokenizer reading the rendered bytes emits no start tag whose name `p` rejects.
* With raw HTML written (`ignoreRaw = false`): `parse_rawSeamsOK_of_rawClosed` / `parse_render_no_rejected_start_tag_of_rawClosed`
  — the contract of C17 is reduced from two tree conditions to the single decidable one `rawClosed` (which holds e.g. for
  every tree without RawHTML node: `rawClosed_of_noRaw`).  `parse_rawSeamsOK_target` (no hypothesis, any configuration) is
  NOT proved: it needs (i) "a RawHTML node of an HTML block ends with its line ending, or at the end of the source" (the
  line discipline of the stream machine, which no existing invariant records for HTML blocks), (ii) "a RawHTML child of an
  inline HTML tag ends with `>` or with the line ending before an Indent node" (`NodeInv.htmlTag` exposes no fact about
  the tag's bytes), (iii) that nothing starting with a name character is written after an HTML block that ends the
  source.
-/
namespace CM.Proofs.PW
open CM CM.Model CM.Gen CM.Spec
open CM.Proofs.BT CM.Proofs.BG CM.Proofs.RK CM.Proofs.InlH CM.Proofs.FilterSites

/-! ### the seam condition from a per-node condition -/

mutual
/-- `seamsNode` looks at the tree only through `copyOK` at the nodes the renderer does not descend into. -/
theorem seamsNode_of_copyOK (cx : RCtx) (t : Tree) (parent block : Option Tree) (index : Int) (nc : Bool)
    (h : ∀ n ∈ T.nodes t, ∀ nc', copyOK cx n nc' = true) : seamsNode cx t parent block index nc = true := by
  match t with
  | .node l cs =>
    simp only [seamsNode]
    split
    · refine seamsForest_of_copyOK cx _ _ cs 0 _ (fun n hn => h n ?_)
      rw [T.nodes]; exact List.mem_cons_of_mem _ hn
    · exact h _ (by rw [T.nodes]; exact List.mem_cons_self ..) nc
theorem seamsForest_of_copyOK (cx : RCtx) (parent : Tree) (block : Option Tree) (cs : List Tree) (i : Nat) (nc : Bool)
    (h : ∀ n ∈ T.nodesL cs, ∀ nc', copyOK cx n nc' = true) : seamsForest cx parent block cs i nc = true := by
  match cs with
  | [] => rfl
  | c :: cs =>
    simp only [seamsForest, Bool.and_eq_true]
    refine ⟨seamsNode_of_copyOK cx c _ _ _ _ (fun n hn => h n ?_), seamsForest_of_copyOK cx parent block cs (i + 1) nc
      (fun n hn => h n ?_)⟩
    · rw [T.nodesL]; exact List.mem_append_left _ hn
    · rw [T.nodesL]; exact List.mem_append_right _ hn
end

/-- With `IgnoreRaw`, a node that satisfies `safePreAt` is fine whatever follows it. -/
theorem copyOK_of_safePreAt_ignoreRaw (cx : RCtx) (hraw : cx.ignoreRaw = true) (t : Tree)
    (h : safePreAt cx.src t = true) (nc : Bool) : copyOK cx t nc = true := by
  unfold copyOK
  cases hb : t.label.isBlock with
  | true => rfl
  | false =>
    simp only [Bool.false_or]
    simp only [safePreAt, T.isI, hb, Bool.not_false, Bool.true_and, Bool.and_eq_true] at h
    unfold inlineCopyOK
    simp only []
    have hverb : noLt (Node.slice cx.src t) = true → verbatimOK (filterPred cx) (Node.slice cx.src t) nc = true := by
      intro hn
      simp [verbatimOK, sitesOK_of_noLt _ _ hn, endsInCandidate_of_noLt _ hn]
    split
    · rename_i hk
      have h1 := h.1
      rw [if_pos hk] at h1
      exact hverb (noLt_of_charRefShape _ h1)
    split
    · rw [hraw]; rfl
    split
    · rename_i hk
      have h2 := h.2
      rw [if_pos hk] at h2
      simp [hverb (noLt_of_eol _ h2)]
    · rfl

/-- `safePre` is all the seam condition needs when raw HTML is ignored. -/
theorem rawSeamsOK_of_safePre_ignoreRaw (cx : RCtx) (hraw : cx.ignoreRaw = true) (t : Tree)
    (hpre : safePre cx.src t = true) : rawSeamsOK cx t = true := by
  unfold safePre at hpre
  rw [List.all_eq_true] at hpre
  exact seamsNode_of_copyOK cx t none none (-1) false
    (fun n hn nc => copyOK_of_safePreAt_ignoreRaw cx hraw n (hpre n hn) nc)

/-! ### parser output -/

/-- **`rawSeamsOK` for parser output, raw HTML ignored** — no hypothesis. -/
theorem parse_rawSeamsOK_ignoreRaw (x : PExt) (ix : IExt) (inp : Bytes) :
    ∀ pr ∈ (parseDoc x ix inp).roots, ∀ t', pr.tree = .ok t' →
      ∀ cx : RCtx, cx.src = pr.root.source → cx.ignoreRaw = true → rawSeamsOK cx t' = true := by
  intro pr hpr t' ht cx hsrc hraw
  exact rawSeamsOK_of_safePre_ignoreRaw cx hraw t' (by rw [hsrc]; exact parse_safePre x ix inp pr hpr t' ht)

/-- **C17 (b) for parser output, raw HTML ignored**: whatever the tag filter `p` (name-closed), no start tag with a
    rejected name can be read off the rendering of a parsed root. -/
theorem parse_render_no_rejected_start_tag_ignoreRaw (x : PExt) (ix : IExt) (inp : Bytes) :
    ∀ pr ∈ (parseDoc x ix inp).roots, ∀ t', pr.tree = .ok t' →
      ∀ (cx : RCtx) (p : Bytes → Bool), cx.src = pr.root.source → cx.filter = some p → cx.ignoreRaw = true →
        NameClosed p → ∀ name ∈ Spec.startTags (appendBlock cx [] t'), p name = false := by
  intro pr hpr t' ht cx p hsrc hf hraw hp
  exact CM.Props.C17.render_no_rejected_start_tag cx p hf hp t'
    (parse_rawSeamsOK_ignoreRaw x ix inp pr hpr t' ht cx hsrc hraw)

/-- **`rawSeamsOK` for parser output, any configuration**, given the one remaining (decidable) tree condition. -/
theorem parse_rawSeamsOK_of_rawClosed (x : PExt) (ix : IExt) (inp : Bytes) :
    ∀ pr ∈ (parseDoc x ix inp).roots, ∀ t', pr.tree = .ok t' → rawClosed pr.root.source t' = true →
      ∀ cx : RCtx, cx.src = pr.root.source → rawSeamsOK cx t' = true := by
  intro pr hpr t' ht hrc cx hsrc
  exact rawSeamsOK_of_safePre cx t' (by rw [hsrc]; exact parse_safePre x ix inp pr hpr t' ht) (by rw [hsrc]; exact hrc)

theorem parse_render_no_rejected_start_tag_of_rawClosed (x : PExt) (ix : IExt) (inp : Bytes) :
    ∀ pr ∈ (parseDoc x ix inp).roots, ∀ t', pr.tree = .ok t' → rawClosed pr.root.source t' = true →
      ∀ (cx : RCtx) (p : Bytes → Bool), cx.src = pr.root.source → cx.filter = some p → NameClosed p →
        ∀ name ∈ Spec.startTags (appendBlock cx [] t'), p name = false := by
  intro pr hpr t' ht hrc cx p hsrc hf hp
  exact CM.Props.C17.render_no_rejected_start_tag cx p hf hp t'
    (parse_rawSeamsOK_of_rawClosed x ix inp pr hpr t' ht hrc cx hsrc)

/-- A tree without RawHTML node is `rawClosed`. -/
theorem rawClosed_of_noRaw (src : Bytes) (t : Tree) (h : (T.nodes t).all (fun n => !T.isI n IK.rawHTML) = true) :
    rawClosed src t = true := by
  unfold rawClosed
  rw [List.all_eq_true] at h ⊢
  intro n hn
  have := h n hn
  simp only [Bool.not_eq_true'] at this
  rw [this]; rfl

/-! ### `rawClosed` is false for parser output -/

/-- The statement asked for. -/
def parse_rawClosed_target : Prop :=
  ∀ (x : PExt) (ix : IExt) (inp : Bytes), ∀ pr ∈ (parseDoc x ix inp).roots, ∀ t', pr.tree = .ok t' →
    rawClosed pr.root.source t' = true

/-- The seam condition itself, for every configuration (believed true; not proved, see the header). -/
def parse_rawSeamsOK_target : Prop :=
  ∀ (x : PExt) (ix : IExt) (inp : Bytes), ∀ pr ∈ (parseDoc x ix inp).roots, ∀ t', pr.tree = .ok t' →
    ∀ cx : RCtx, cx.src = pr.root.source → rawSeamsOK cx t' = true

/-- The witness: `<div`, four bytes, no line ending. -/
def rawWitness : Bytes := [0x3C, 0x64, 0x69, 0x76]

-- one root, source `<div`, an HTML block holding one RawHTML node `[0, 4)` …
theorem rawWitness_tree : (parseDoc exX exIX rawWitness).roots.map (fun pr =>
      (pr.root.source, (T.nodes (finalTree pr)).map (fun u => (u.label.isBlock, u.label.kind, u.label.start, u.label.stop)))) =
    [(rawWitness, [(true, BK.htmlBlock, 0, 4), (false, IK.rawHTML, 0, 4)])] := by decide +kernel

-- … whose slice is an unfinished name candidate
theorem rawWitness_not_closed : ∀ pr ∈ (parseDoc exX exIX rawWitness).roots,
    rawClosed pr.root.source (finalTree pr) = false ∧ treeOk pr = true := by decide +kernel

/-- **`rawClosed` does not hold for all parser output.** -/
theorem parse_rawClosed_target_false : ¬ parse_rawClosed_target := by
  intro h
  have hr : (parseDoc exX exIX rawWitness).roots ≠ [] := by decide +kernel
  obtain ⟨pr, hpr⟩ := List.exists_mem_of_ne_nil _ hr
  have h1 := rawWitness_not_closed pr hpr
  have h2 := h exX exIX rawWitness pr hpr _ (tree_of_treeOk h1.2)
  rw [h1.1] at h2
  cases h2

-- the seam condition itself holds on the witness (GFM filter, raw HTML written): nothing follows the block
example : ∀ pr ∈ (parseDoc exX exIX rawWitness).roots,
    rawSeamsOK { ext := exX.ext, src := pr.root.source, filter := some filterTagGFM } (finalTree pr) = true := by
  decide +kernel

/-! ### Non-vacuity -/

section Examples

/-- An HTML block (`<script>` is rejected by the GFM filter), a paragraph with emphasis and a character reference, a
    code block ending the input without a line ending.  (No inline HTML tag: `decide +kernel` does not evaluate
    `collectTextNodes`.) -/
def pwRawDoc : Bytes := Bytes.ofString "<script>\nalert(1)\n</script>\n\na *b* &#65;\n\n    x"

/-- The GFM configuration for a source. -/
def cxGFM (src : Bytes) (ignoreRaw : Bool) : RCtx :=
  { ext := exX.ext, src := src, filter := some filterTagGFM, ignoreRaw := ignoreRaw }

example : (parseDoc exX exIX pwRawDoc).roots.length = 3 := by decide +kernel
example : ∀ pr ∈ (parseDoc exX exIX pwRawDoc).roots, treeOk pr = true := by decide +kernel

-- raw HTML ignored: no hypothesis
example : ∀ pr ∈ (parseDoc exX exIX pwRawDoc).roots,
    ∀ name ∈ Spec.startTags (appendBlock (cxGFM pr.root.source true) [] (finalTree pr)), filterTagGFM name = false :=
  fun pr hpr => parse_render_no_rejected_start_tag_ignoreRaw exX exIX pwRawDoc pr hpr _
    (tree_of_treeOk ((by revert pr; decide +kernel : ∀ pr ∈ (parseDoc exX exIX pwRawDoc).roots, treeOk pr = true) pr hpr))
    _ filterTagGFM rfl rfl rfl filterTagGFM_nameClosed

-- raw HTML written: `rawClosed` holds on these roots (every raw line has its line ending)
example : ∀ pr ∈ (parseDoc exX exIX pwRawDoc).roots, rawClosed pr.root.source (finalTree pr) = true := by decide +kernel
example : ∀ pr ∈ (parseDoc exX exIX pwRawDoc).roots,
    ∀ name ∈ Spec.startTags (appendBlock (cxGFM pr.root.source false) [] (finalTree pr)), filterTagGFM name = false :=
  fun pr hpr => parse_render_no_rejected_start_tag_of_rawClosed exX exIX pwRawDoc pr hpr _
    (tree_of_treeOk ((by revert pr; decide +kernel : ∀ pr ∈ (parseDoc exX exIX pwRawDoc).roots, treeOk pr = true) pr hpr))
    ((by revert pr; decide +kernel : ∀ pr ∈ (parseDoc exX exIX pwRawDoc).roots,
        rawClosed pr.root.source (finalTree pr) = true) pr hpr)
    _ filterTagGFM rfl rfl filterTagGFM_nameClosed

end Examples

end CM.Proofs.PW
