import CM.Proofs.ParseShapesKinds
import CM.Proofs.ParseShapesRuns
import CM.Proofs.ParseShapesEmpty
/-
C13 for the whole of `Parse`, part 4: **from a per-node condition on the inline children of paragraphs and headings of
block-phase trees (`ContQ`) to the inline half of C13 for every tree `Parse` returns.**

* `blockphase_nodeOK`: every node of every block-phase tree satisfies the per-node clause of `Spec.spansOK` (valid span
  inside the source, children inside, siblings in order) — from C02 / C03 (`RDC.drain_cover_uncond`, `Cov.pb_nodes_ok`).
* `ContReady src L`: what the inline-shape theorems need of a container — `HBreakOK ∧ CSHyp`, or the container's only
  child is an EMPTY Unparsed run (`# ` with no content: `CSHyp` is FALSE there, `atx_empty_not_cshyp`; the inline phase
  returns no child, `parseInlines_empty`).
* `rewriteE_shapes_ready`: `InlH.rewriteE_shapes_partial` with `ContReady` in the place of `HBreakOK ∧ CSHyp`.
* `blockphase_contReady`: `ContQ` (every child satisfies `NodeQ` and no child but the first is preceded by a backtick, or
  there is one child only) gives `ContReady`, for the
  containers of block-phase trees.
* `parse_shapes_partial_of`: the inline half of C13 for `parseDoc`, given `BlockphaseQ x` (discharged in
  `ParseShapesFinal`).
-/
namespace CM.Proofs.PSh
open CM CM.Model CM.Gen CM.Spec CM.Model.Inl
open CM.Proofs.BT CM.Proofs.BG CM.Proofs.PW CM.Proofs.InlH CM.Proofs.PS CM.Proofs.RK

/-! ### spans of block-phase trees -/

/-- Every node of every block-phase tree of `Parse`: valid span inside the source, children inside, siblings in
    order. -/
theorem blockphase_nodeOK (x : PExt) (fuel : Nat) (inp : Bytes) :
    ∀ r ∈ (drain (blocksLP x) fuel (memParser inp) []).1, ∀ u ∈ T.nodes (pbToTree r.block),
      Cov.nodeOK r.source.length u = true := by
  intro r hr u hu
  obtain ⟨hsp, hwf, _⟩ := RDC.drain_cover_uncond x inp fuel r hr
  have hclosed : 0 ≤ r.block.label.stop := by rw [hsp.2]; exact Int.natCast_nonneg _
  have h := Cov.pb_nodes_ok r.source.length r.block 0 r.source.length hsp.1 (Int.le_refl _) (Int.le_refl _) hclosed hwf
  rw [List.all_eq_true] at h
  exact h u hu

theorem sorted_of_siblings : ∀ (L : List Tree), siblingsOrdered L = true →
    (∀ t ∈ L, t.label.start ≤ t.label.stop) → SortedSpans L
  | [], _, _ => by simp [SortedSpans]
  | [_], _, _ => by simp [SortedSpans]
  | a :: b :: rest, h, hv => by
    simp only [siblingsOrdered, Bool.and_eq_true, T.start, T.stop] at h
    have h1' : a.label.stop ≤ b.label.start := of_decide_eq_true h.1
    have ih := sorted_of_siblings (b :: rest) h.2 (fun t ht => hv t (List.mem_cons_of_mem _ ht))
    unfold SortedSpans at ih ⊢
    rw [List.pairwise_cons]
    refine ⟨?_, ih⟩
    intro c hc
    rcases List.mem_cons.1 hc with rfl | hc
    · exact h1'
    · have h1 := (List.pairwise_cons.1 ih).1 c hc
      have h2 := hv b (List.mem_cons_of_mem _ (List.mem_cons_self ..))
      omega

/-! ### what the inline phase needs of a container -/

/-- The container's only inline child is an empty Unparsed run. -/
def EmptyRun (L : List Tree) : Prop :=
  ∃ t, L = [t] ∧ t.label.isBlock = false ∧ t.label.kind = IK.unparsed ∧ t.label.start = t.label.stop

/-- What the inline-shape theorems need of a container. -/
def ContReady (src : Bytes) (L : List Tree) : Prop := (HBreakOK src L ∧ CSHyp L src src.length) ∨ EmptyRun L

/-- `InlH.rewriteE_shapes_partial` with `ContReady`. -/
theorem rewriteE_shapes_ready (x : IExt) (src : Bytes) (matchRef : Bytes → Bool) (t t' : Tree)
    (hpre : ∀ u ∈ T.nodes t, u.label.isBlock = false → shapeAt src u = true)
    (hR : ∀ p ∈ conts t, ContReady src p.2)
    (h : rewriteE x src src.toArray matchRef t = .ok t') :
    ∀ u ∈ T.nodes t', u.label.isBlock = false → InlineShapesPartial src u := by
  obtain ⟨hs, hcont⟩ := surv_conts_of_all (Q := fun u => u.label.isBlock = false → shapeAt src u = true) t hpre
  refine rewriteE_nodes x src src.toArray matchRef (fun u => u.label.isBlock = false → InlineShapesPartial src u)
    (fun _ cs => InShape src cs ∧ ContReady src cs)
    (fun l cs kids hRR hp u hu hb => ?_)
    (fun l cs cs' _ hb hb' => by rw [show (Tree.node l cs').label.isBlock = l.isBlock from rfl, hb] at hb'; cases hb')
    t.size t t' (Nat.le_refl _)
    (fun u hu hb => ⟨fun _ => hs u hu hb, fun _ => hs u hu hb, fun _ _ => hs u hu hb, emShape_of_shape (hs u hu hb)⟩) ?_ h
  · rcases hRR.2 with ⟨h1, h2⟩ | ⟨t0, rfl, hb0, hk0, he0⟩
    · exact parseInlines_shapes_partial x src matchRef l.start l.stop cs kids hRR.1 h1 h2 hp u hu hb
    · rw [parseInlines_empty x src src.toArray matchRef l.start l.stop t0 hb0 hk0 he0] at hp
      cases hp
      simp [T.nodesL] at hu
  · intro p hp
    exact ⟨fun c hc hb _ v hv => hcont p hp c hc v hv, hR p hp⟩

/-! ### the containers of block-phase trees -/

/-- What is asked of the block phase, per container: every inline child satisfies `NodeQ`, or there is only one. -/
def ContQ (src : Bytes) (L : List Tree) : Prop :=
  ((∀ t ∈ L, NodeQ src t) ∧ ∀ t ∈ L.tail, NoTickBeforeI src t.label.start) ∨ ∃ t, L = [t]

/-- … for every container of every block-phase tree. -/
def BlockphaseQ (x : PExt) : Prop :=
  ∀ (fuel : Nat) (inp : Bytes), ∀ r ∈ (drain (blocksLP x) fuel (memParser inp) []).1,
    ∀ p ∈ conts (pbToTree r.block), ContQ r.source p.2

theorem isUnparsed_facts {t : Tree} (h : isUnparsed t = true) :
    t.label.isBlock = false ∧ t.label.kind = IK.unparsed ∧ isIndent t = false := by
  unfold isUnparsed Node.isI at h
  simp only [Bool.and_eq_true, Bool.not_eq_true', beq_iff_eq] at h
  refine ⟨h.1, h.2, ?_⟩
  unfold isIndent Node.isI
  rw [h.1, h.2]; rfl

/-- **The containers of block-phase trees meet the hypotheses of the inline-shape theorems**, given `ContQ`. -/
theorem blockphase_contReady (x : PExt) (fuel : Nat) (inp : Bytes) :
    ∀ r ∈ (drain (blocksLP x) fuel (memParser inp) []).1, ∀ p ∈ conts (pbToTree r.block),
      ContQ r.source p.2 → ContReady r.source p.2 := by
  intro r hr p hp hq
  obtain ⟨hnode, _, hun⟩ := conts_sub _ _ (Nat.le_refl _) p hp
  have hchild : ∀ t ∈ p.2, t ∈ T.nodes (pbToTree r.block) := by
    intro t ht
    have h1 : t ∈ T.nodes (Tree.node p.1 p.2) := by
      rw [T.nodes]
      exact List.mem_cons_of_mem _ (nodesL_of_mem ht (self_mem_nodes t))
    exact nodes_trans' hnode h1
  have hspan : ∀ t ∈ p.2, 0 ≤ t.label.start ∧ t.label.start ≤ t.label.stop ∧ t.label.stop ≤ (r.source.length : Int) :=
    fun t ht => blockphase_spanValid x fuel inp r hr t (hchild t ht)
  rcases hq with hq | ⟨t, ht⟩
  · have hsib : siblingsOrdered p.2 = true := by
      have := blockphase_nodeOK x fuel inp r hr _ hnode
      simp only [Cov.nodeOK, Bool.and_eq_true] at this
      exact this.2
    have hR : RunsOK r.source p.2 :=
      { lines := (blockphase_contOK x fuel inp r hr p hp).lines
        pos := fun t ht => (hspan t ht).1
        sorted := sorted_of_siblings p.2 hsib (fun t ht => (hspan t ht).2.1)
        bound := fun t ht => by
          have := hspan t ht
          unfold TB; omega
        node := hq.1
        pre := hq.2 }
    exact Or.inl ⟨runsOK_hbreak hR, runsOK_cshyp hR⟩
  · have htm : t ∈ p.2 := by rw [ht]; exact List.mem_singleton.2 rfl
    have hu : isUnparsed t = true := by
      rw [ht] at hun
      simpa [hasUnparsed] using hun
    obtain ⟨hb, hk, hi⟩ := isUnparsed_facts hu
    obtain ⟨h0, h1, h2⟩ := hspan t htm
    by_cases he : t.label.start = t.label.stop
    · exact Or.inr ⟨t, ht, hb, hk, he⟩
    · left
      rw [ht]
      exact ⟨single_hbreak _ t, single_cshyp _ t hi h0 (by omega) h2⟩

/-! ### `Parse` -/

/-- **The inline half of C13 for `Parse`**, given the block-phase condition `BlockphaseQ`. -/
theorem parse_shapes_partial_of (x : PExt) (hQ : BlockphaseQ x) (ix : IExt) (inp : Bytes) :
    ∀ pr ∈ (parseDoc x ix inp).roots, ∀ t', pr.tree = .ok t' →
      ∀ u ∈ T.nodes t', u.label.isBlock = false → InlineShapesPartial pr.root.source u := by
  intro pr hpr t' ht
  rw [parseDoc_tree x ix inp pr hpr] at ht
  have hr := root_mem_drain x ix inp pr hpr
  exact rewriteE_shapes_ready ix _ _ _ t'
    (blockphase_inline_shapes x _ inp pr.root hr)
    (fun p hp => blockphase_contReady x _ inp pr.root hr p hp (hQ _ inp pr.root hr p hp)) ht

/-! ### `CSHyp` is false of an ATX heading without content -/

/-- The block-phase tree of `#⏎`: the heading's only inline child is the empty run `[1, 1)`. -/
example : ((drain (blocksLP exX) 10 (memParser [0x23, 0x0A]) []).1.map fun r =>
    (conts (pbToTree r.block)).map fun p => p.2.map fun t => (t.label.kind, t.label.start, t.label.stop)) =
    [[[(IK.unparsed, 1, 1)]]] := by decide +kernel

/-- … so `CSHyp` (its clause `NodesNE`) fails there. -/
theorem atx_empty_not_cshyp : ¬ CSHyp [Model.mkInline IK.unparsed 1 1] [0x23, 0x0A] 2 := by
  intro h
  have := (h.ne _ (List.mem_singleton.2 rfl)).2
  revert this
  decide

end CM.Proofs.PSh
