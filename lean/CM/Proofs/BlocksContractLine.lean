import CM.Proofs.BlocksContractEnd
/-
C01 contract for the real block parser — `addLineText`, `openNewBlocks`, `processLine` on a non-empty line.
-/
namespace CM.Proofs
open CM CM.Model CM.Gen CM.Props.C01

theorem consumeIndentN_bai (p : LP) (n : Nat) : (p.consumeIndentN n).bytesAfterIndent = p.bytesAfterIndent :=
  consumeIndent_bai (n + 1) p n

theorem acceptsLines_al {k : Nat} (h : acceptsLines k = false) : AL k = false := by
  unfold AL; rw [h]; rfl

/-- `addLineText` after the blank-line flags. -/
theorem altRest_T (H : onCloseParagraph_cuts_target) (x : PExt) (blank : Bool) {N : Nat} {q : LP} (h : PreText N q)
    (hb : blank = q.isRestBlank) :
    TopEnd N (match altCont x blank q with
      | none => q
      | some r => altFinish r) := by
  by_cases hP : ∃ k, q.root.blocks.getLast? = some k ∧ k.label.stop < 0 ∧ k.label.kind = BK.paragraph
  · -- the text continues the open paragraph child of the document
    obtain ⟨k, hk, hko, hkp⟩ := hP
    obtain ⟨hd, hi0, htp⟩ := h.up k hk hko hkp
    have hck : q.containerKind = BK.paragraph := by rw [containerKind_of_last hd hk]; exact hkp
    have hcont : altCont x blank q = some q := by
      unfold altCont
      simp only [hck, acceptsLines_paragraph, if_true, htp, Bool.and_false, Bool.false_eq_true, if_false]
    rw [hcont]
    simp only
    have hN := h.lt.src.lineLen
    have hlt := h.lt.src.lt
    cases h.lt.top with
    | empty he => rw [he] at hk; cases hk
    | old k0 hb0 ho hls hp =>
      have hb' : q.root.blocks = [] ++ [k0] := hb0
      have : k0 = k := by rw [(last_of_append hb').1] at hk; cases hk; rfl
      subst this
      refine altFinish_para h.lt.src hd hck hb' trivial ho (by rw [hi0]; omega) ?_
      by_cases hne : k0.inlines = []
      · exact Or.inl hne
      · exact Or.inr ⟨hp hkp hne, hi0⟩
    | closedAt _ hc _ _ =>
      have := hc.closed (Int.le_refl _) k (List.mem_of_getLast? hk)
      unfold PBClosed at this; omega
    | new pre c hb0 _ _ _ _ _ e1 =>
      have : c = k := by rw [(last_of_append hb0).1] at hk; cases hk; rfl
      subst this
      exfalso
      have hf1 : Univ BK.paragraph = false := by decide
      have hf2 : AL BK.paragraph = false := by decide
      rcases e1 hd with h' | h' <;> rw [hkp] at h'
      · rw [hf1] at h'; cases h'
      · rw [hf2] at h'; cases h'
  · -- the last child of the document is not an open paragraph
    have hn : NoOpenPara q := fun c hc ho hkp => hP ⟨c, hc, ho, hkp⟩
    cases hcont : altCont x blank q with
    | none =>
      simp only
      unfold altCont at hcont
      simp only at hcont
      split at hcont
      · split at hcont <;> cases hcont
      · split at hcont
        · cases hcont
        · rename_i hbl
          have hbl' : q.isRestBlank = true := by rw [← hb]; simpa using hbl
          refine topEnd_of_A h.lt.src h.lt.top (paraT_of_np hn) (fun h0 => ?_)
          have hi0 := h.u0 h0
          unfold LP.isRestBlank at hbl'
          rw [hi0, List.drop_zero, h.lt.src.line] at hbl'
          have := gap_of_isBlankLine_drop hbl'
          rw [h.lt.src.len] at this
          exact this
    | some r =>
      simp only
      unfold altCont at hcont
      simp only at hcont
      split at hcont
      · -- the container takes the line
        rename_i hacc
        have hd0 : q.depth ≠ 0 := by
          intro h0
          rw [containerKind_depth0 h0, h.lt.la.root.kind, acceptsLines_document] at hacc
          cases hacc
        split at hcont
        · simp only [Option.some.injEq] at hcont
          subst hcont
          have hk := ck_ne_para h.lt hn
          generalize hq1 : LP.appendInline q _ = q1
          have h1 : LT QB true N q1 := by rw [← hq1]; exact appendInline_T _ h.lt hk
          have n1 : NoOpenPara q1 := by rw [← hq1]; exact noOpenPara_appendInline _ hn
          have b4 : ContFrame q q1 := by rw [← hq1]; exact (appendInline_LA _ h.lt.la hk).2.2.2.1
          obtain ⟨c1, _⟩ := consumeIndentN_frame q1 q1.tabRem
          exact altFinish_np (h1.of_frame c1) (fun c hc => n1 c (by rw [← c1.root]; exact hc))
            (by rw [c1.depth, b4.depth]; exact hd0)
        · simp only [Option.some.injEq] at hcont
          subst hcont
          exact altFinish_np h.lt hn hd0
      · rename_i hacc
        have hacc' : acceptsLines q.containerKind = false := by simpa using hacc
        split at hcont
        · -- a new paragraph
          simp only [Option.some.injEq] at hcont
          subst hcont
          rename_i hbl
          have hbl' : q.isRestBlank = false := by rw [← hb]; simpa using hbl
          have hs := h.st hacc'
          obtain ⟨ot, onew⟩ := openBlock_T H x BK.paragraph id h.lt.weaken hs (by decide) (Or.inr rfl) (fun _ => ⟨rfl, rfl⟩)
            (Or.inr ⟨by decide, h.lt.top.toQU (acceptsLines_al hacc')⟩)
          obtain ⟨_, _, o3, o4, o5, _⟩ := openBlock_LA x BK.paragraph id h.lt.la hs (by decide) (Or.inr rfl) (fun _ => ⟨rfl, rfl⟩)
          have hbai : (q.openBlock x BK.paragraph).bytesAfterIndent = q.bytesAfterIndent := by
            unfold LP.bytesAfterIndent; rw [o5.line, o5.i]
          generalize q.openBlock x BK.paragraph = o at ot onew o3 o4 o5 hbai
          obtain ⟨c1, _⟩ := consumeIndentN_frame o o.indent
          have hi : (o.consumeIndentN o.indent).i < (o.consumeIndentN o.indent).line.length := by
            apply i_lt_of_bai_ne
            rw [consumeIndentN_bai, hbai]
            exact bai_ne_of_not_blank q hbl'
          have hck : (o.consumeIndentN o.indent).containerKind = BK.paragraph := by
            rw [(ContFrame.of_cur c1).kind]; exact o4
          have hlt := ot.of_frame c1
          generalize o.consumeIndentN o.indent = r at c1 hi hck hlt
          by_cases hd1 : r.depth = 1
          · obtain ⟨pre, c, k1, k2, k3, k4, _⟩ := (onew (by rw [← c1.depth]; exact hd1)).of_eq c1.root c1.source c1.lineStart
            exact altFinish_para hlt.src hd1 hck k1 k2 k3 hi (Or.inl k4)
          · have hd2 : 2 ≤ r.depth := by rw [c1.depth] at hd1 ⊢; omega
            exact altFinish_np hlt (noOpenPara_depth2 hlt.la hd2) (by omega)
        · cases hcont

theorem addLineText_T (H : onCloseParagraph_cuts_target) (x : PExt) {N : Nat} {p : LP} (h : PreText N p) :
    TopEnd N (addLineText x p) := by
  rw [addLineText_eq]
  obtain ⟨f1, f2, f3, f4, f5, f6, f7⟩ := altPrep_fields p
  obtain ⟨r1, r2⟩ := altPrep_root p
  obtain ⟨_, _, _, q4, _⟩ := altPrep_ok h.lt.la
  have hq : PreText N (altPrep p) := by
    refine ⟨altPrep_T h.lt, fun h0 => by rw [f1]; exact h.u0 (by rw [← f3]; exact h0), ?_, ?_⟩
    · intro c' hc' ho' hk'
      obtain ⟨c, hc, k1, k2, _⟩ := r1.rev c' hc'
      obtain ⟨u1, u2, u3⟩ := h.up c hc (by rw [← k2]; exact ho') (by rw [← k1]; exact hk')
      exact ⟨by rw [f3]; exact u1, by rw [f1]; exact u2, by rw [f2]; exact u3⟩
    · intro hacc
      rw [q4]
      apply h.st
      -- the container keeps its kind
      obtain ⟨b, hb⟩ := h.lt.la.dv
      obtain ⟨b', hb', hk'⟩ := r2 p.depth b (Nat.le_refl _) hb
      rw [containerKind_eq hb, ← hk', ← containerKind_eq (p := altPrep p) (by rw [f3]; exact hb')]
      exact hacc
  have hbl : p.isRestBlank = (altPrep p).isRestBlank := by
    unfold LP.isRestBlank; rw [f4, f1]
  exact altRest_T H x p.isRestBlank hq hbl

end CM.Proofs
