import CM.Proofs.RefDefCoverDef
import CM.Proofs.RefDefSpansLine3
import CM.Proofs.RefDefCoverTLine2
/-
C03, block half — `GoodT2` (the strong invariant of RefDefCoverDef): adaptation of RefDefSpansLine3.lean.
Everything that does not mention `GoodT`/`NodeOK` is reused from `CM.Proofs.RDS`.
-/
namespace CM.Proofs.RDC
open CM CM.Model CM.Gen CM.Proofs.BSp CM.Proofs.BT CM.Proofs.BG CM.Proofs.RDS

/-! ### blank lines, the bytes of a line -/

-- reused from RDS: blank_lt

-- reused from RDS: blank_tab

-- reused from RDS: bai_ne_nil

-- reused from RDS: eol_line

/-- The text node of the line. -/
theorem textNode_ok2 {src : Bytes} {ls : Nat} (hLO : LineOK (src.drop ls)) (hls : ls ≤ src.length) (kd : Nat) (hkd : kd ≠ IK.indent)
    (i : Nat) (hi : i < (src.drop ls).length) :
    NodeOK2 src (mkInline kd ((ls : Int) + (i : Int)) ((ls : Int) + ((src.drop ls).length : Int))) ∧
      (mkInline kd ((ls : Int) + (i : Int)) ((ls : Int) + ((src.drop ls).length : Int))).label.stop ≤ (src.length : Int) := by
  have hlen : (src.drop ls).length = src.length - ls := List.length_drop
  have hstop : ((ls : Int) + ((src.drop ls).length : Int)) = (src.length : Int) := by rw [hlen]; omega
  have hni : isIndent (mkInline kd ((ls : Int) + (i : Int)) ((ls : Int) + ((src.drop ls).length : Int))) = false := by
    simp only [isIndent, Node.isI, mkInline, Tree.label, Bool.not_false, Bool.true_and, beq_eq_false_iff_ne, ne_eq]
    exact hkd
  have hx : NodeX src (mkInline kd ((ls : Int) + (i : Int)) ((ls : Int) + ((src.drop ls).length : Int))) := by
    refine ⟨fun h => ?_, fun _ => Or.inl hstop⟩
    rw [hni] at h; cases h
  refine ⟨⟨⟨?_, ?_, fun h => ?_, fun _ => ?_⟩, hx⟩, ?_⟩
  · show (ls : Int) + (i : Int) < (ls : Int) + ((src.drop ls).length : Int)
    omega
  · show (ls : Int) + ((src.drop ls).length : Int) ≤ _
    omega
  · rw [hni] at h; cases h
  · show EolAtEnd src ((ls : Int) + (i : Int)) ((ls : Int) + ((src.drop ls).length : Int))
    rw [hstop]
    exact eol_line hLO hls _ (by omega)
  · show (ls : Int) + ((src.drop ls).length : Int) ≤ _
    omega

/-! ### addLineText -/

theorem altBlank_GI2 {src : Bytes} {bd : Int} {ls : Nat} (p : LP) (hg : GI2 src bd ls p) :
    GI2 src bd ls (altBlank p) ∧ BT.cur (altBlank p) = BT.cur p := by
  unfold altBlank
  split
  · refine ⟨⟨hg.source, hg.lineStart, hg.line, ?_⟩, rfl⟩
    apply GoodT2_spineModify _ _ _ hg.good
    intro c _ hc
    obtain ⟨l, bs, is⟩ := c
    simp only []
    cases hgl : bs.getLast? with
    | none => exact hc
    | some c' =>
      simp only []
      rw [GoodT2_mk] at hc ⊢
      refine ⟨BlockOK2_congr (b := .mk l bs is) rfl rfl rfl hc.1, ?_⟩
      intro b hb
      rcases List.mem_append.mp hb with h' | h'
      · exact hc.2 b ((List.dropLast_sublist bs).subset h')
      · simp only [List.mem_singleton] at h'
        subst h'
        exact GoodT2_setLabel (f := fun cl => { cl with lastLineBlank := true }) (fun _ => rfl) (fun _ => rfl)
          (hc.2 c' (List.mem_of_getLast? hgl))
  · exact ⟨hg, rfl⟩

theorem altFlags_GI2 {src : Bytes} {bd : Int} {ls : Nat} (b : Bool) (p : LP) (hg : GI2 src bd ls p) :
    GI2 src bd ls (altFlags b p) ∧ BT.cur (altFlags b p) = BT.cur p := by
  unfold altFlags
  exact ⟨⟨hg.source, hg.lineStart, hg.line, GoodT2_setBlankFlags _ _ _ hg.good⟩, rfl⟩

-- reused from RDS: tabNode

theorem tabNode_ok2 {src : Bytes} {bd : Int} {ls : Nat} (p : LP) (hg : GI2 src bd ls p) (hlt : p.i < p.line.length)
    (htab : p.line.getD p.i 0 = TAB) :
    NodeOK2 src (tabNode p) ∧ (tabNode p).label.stop ≤ (src.length : Int) := by
  have hline : p.line.length = src.length - ls := by rw [hg.line, List.length_drop]
  have hls := hg.lineStart
  have hx : NodeX src (tabNode p) := by
    refine ⟨fun _ => ?_, fun hni => ?_⟩
    · show src.getD (↑p.lineStart + ↑p.i : Int).toNat 0 = TAB
      have e : (↑p.lineStart + ↑p.i : Int).toNat = ls + p.i := by omega
      rw [e, ← getD_drop_add, ← hg.line]
      exact htab
    · have : isIndent (tabNode p) = true := rfl
      rw [this] at hni; cases hni
  refine ⟨⟨⟨?_, ?_, fun _ => rfl, fun hni => ?_⟩, hx⟩, ?_⟩
  · show (↑p.lineStart + ↑p.i : Int) < ↑p.lineStart + ↑p.i + 1
    omega
  · show (↑p.lineStart + ↑p.i + 1 : Int) ≤ _
    omega
  · have : isIndent (tabNode p) = true := rfl
    rw [this] at hni; cases hni
  · show (↑p.lineStart + ↑p.i + 1 : Int) ≤ _
    omega

/-- Where the text goes: the invariant holds, and if the text goes to a paragraph, some of the line is left. -/
theorem altCont_st2 {src : Bytes} {ls : Nat} (x : PExt) (p q : LP) (h : BT.Inv p)
    (hs : acceptsLines p.containerKind = false → p.state ≤ 2) (hg : GI2 src (src.length : Int) ls p) (hj : J p)
    (hq : altCont x p.isRestBlank p = some q) :
    GI2 src (src.length : Int) ls q ∧ (q.containerKind = BK.paragraph → q.i < q.line.length) := by
  unfold altCont at hq
  simp only [] at hq
  split at hq
  · split at hq
    · rename_i hc
      simp only [Option.some.injEq] at hq
      subst hq
      simp only [Bool.and_eq_true, decide_eq_true_eq, beq_iff_eq] at hc
      obtain ⟨⟨⟨hlt, htab⟩, hrem⟩, _⟩ := hc
      have hnode := tabNode_ok2 p hg hlt htab
      have ga := appendInline_GI_node2 p _ hnode hg
      show GI2 src (src.length : Int) ls ((p.appendInline (tabNode p)).consumeIndentN p.tabRem) ∧
        (((p.appendInline (tabNode p)).consumeIndentN p.tabRem).containerKind = BK.paragraph →
          ((p.appendInline (tabNode p)).consumeIndentN p.tabRem).i < ((p.appendInline (tabNode p)).consumeIndentN p.tabRem).line.length)
      refine ⟨ga.of_fr (fr_consumeIndentN _ _), fun hk => ?_⟩
      rw [fr_containerKind (fr_consumeIndentN _ _), appendInline_containerKind p _ h.tree] at hk
      have hnb := hj hk
      have hi : ((p.appendInline (tabNode p)).consumeIndentN p.tabRem).i = p.i + 1 :=
        consumeIndentN_tab (p.appendInline (tabNode p)) hlt htab hrem
      rw [hi, fr_line (fr_consumeIndentN _ _)]
      exact blank_tab hnb htab
    · simp only [Option.some.injEq] at hq
      subst hq
      exact ⟨hg, fun hk => blank_lt (hj hk)⟩
  · split at hq
    · simp only [Option.some.injEq] at hq
      subst hq
      rename_i hna hnb
      have hna' : acceptsLines p.containerKind = false := by simpa using hna
      have hnb' : p.isRestBlank = false := by simpa using hnb
      have ob := openBlock_inv x p BK.paragraph id id_kind h (hs hna') (Or.inl (by decide))
      have og := openBlock_GI2 x p BK.paragraph id id_kind (by decide) hg
      generalize p.openBlock x BK.paragraph = pC at ob og
      have iC := ob.inv h
      obtain ⟨ci, _, hil⟩ := consumeAll pC iC
      refine ⟨og.of_fr (fr_consumeIndentN _ _), fun _ => ?_⟩
      have hb : pC.bytesAfterIndent ≠ [] := by rw [bai_of_cur ob.cur]; exact bai_ne_nil hnb'
      have : 0 < pC.bytesAfterIndent.length := List.length_pos_iff.mpr hb
      rw [ci.line]
      omega
    · cases hq

/-- The text node (and the synthetic line break of a code block). -/
theorem altTail_st2 {src : Bytes} {ls : Nat} (q : LP) (hLO : LineOK (src.drop ls)) (hls : ls ≤ src.length)
    (hg : GI2 src (src.length : Int) ls q) (hlt : q.containerKind = BK.paragraph → q.i < q.line.length) :
    GoodT2 src (src.length : Int) (altTail q).root := by
  unfold altTail
  simp only []
  by_cases hk : q.containerKind = BK.paragraph
  · have hcode : (q.containerKind == BK.indentedCode || q.containerKind == BK.fencedCode) = false := by rw [hk]; decide
    have hhtml : (q.containerKind == BK.htmlBlock) = false := by rw [hk]; decide
    simp only [hcode, hhtml, Bool.false_eq_true, if_false, Bool.false_and]
    have hn := textNode_ok2 hLO hls IK.unparsed (by decide) q.i (by rw [← hg.line]; exact hlt hk)
    rw [← hg.line, ← hg.lineStart] at hn
    exact (appendInline_GI_node2 q _ hn hg).good
  · have np := NotPara.of_kind hk
    generalize (if (q.containerKind == BK.indentedCode || q.containerKind == BK.fencedCode) = true then IK.text
      else if (q.containerKind == BK.htmlBlock) = true then IK.rawHTML else IK.unparsed) = kd
    obtain ⟨g1, n1⟩ := appendInline_GI_np2 q (mkInline kd (↑q.lineStart + ↑q.i) (↑q.lineStart + ↑q.line.length)) np hg
    split
    · exact (appendInline_GI_np2 _ _ n1 g1).1.good
    · exact g1.good

theorem addLineText_st2 {src : Bytes} {bd : Int} {ls : Nat} (x : PExt) (p : LP) (h : BT.Inv p)
    (hs : acceptsLines p.containerKind = false → p.state ≤ 2) (hLO : LineOK (src.drop ls)) (hls : ls ≤ src.length)
    (hbd : bd ≤ (src.length : Int)) (hg : GI2 src bd ls p) (hj : J p) :
    GoodT2 src (src.length : Int) (addLineText x p).root := by
  have hg' : GI2 src (src.length : Int) ls p :=
    ⟨hg.source, hg.lineStart, hg.line, GoodT2_mono_bd hbd _ hg.good⟩
  rw [addLineText_eq]
  have a := altBlank_step p h
  obtain ⟨ga, ca⟩ := altBlank_GI2 p hg'
  have b := altFlags_step p.isRestBlank (altBlank p) a.inv
  obtain ⟨gb, cb⟩ := altFlags_GI2 p.isRestBlank (altBlank p) ga
  generalize altFlags p.isRestBlank (altBlank p) = pB at b gb cb
  have kB : pB.containerKind = p.containerKind := by rw [b.ckind, a.ckind]
  have sB : pB.state = p.state := by rw [b.state, a.state]
  have cB : BT.cur pB = BT.cur p := by rw [cb, ca]
  have rB : pB.isRestBlank = p.isRestBlank := isRestBlank_of_cur cB
  have jB : J pB := by unfold J; rw [kB, rB]; exact hj
  split
  · exact gb.good
  · rename_i q hq
    rw [← rB] at hq
    obtain ⟨gq, lq⟩ := altCont_st2 x pB q b.inv (by rw [kB, sB]; exact hs) gb jB hq
    exact altTail_st2 q hLO hls gq lq

/-! ### processLine -/

/-- **One line of the block phase keeps the paragraphs good.** `src[ls:]` is one line; the tree is good with all lines
    ending at or before `ls`; afterwards it is good with all lines ending at or before the end of `src`. -/
theorem processLine_st2 {src : Bytes} {bd : Int} {ls : Nat} (x : PExt) (p : LP) (h : BT.Inv p) (hLO : LineOK (src.drop ls))
    (hls : ls ≤ src.length) (hbd : bd ≤ (ls : Int)) (hg : GI2 src bd ls p) :
    GoodT2 src (src.length : Int) (processLine x p).root := by
  have hbd' : bd ≤ (src.length : Int) := by omega
  unfold processLine
  have h0 := h.setDepth 0 (Nat.zero_le _)
  have hj0 : J ({ p with depth := 0 } : LP) := by
    intro hk
    rw [containerKind_zero _ rfl] at hk
    have := h.tree.root
    rw [show ({ p with depth := 0 } : LP).root.kind = p.root.kind from rfl, this] at hk
    cases hk
  have d := descendOpenBlocks_inv x p h
  have ds := descendLoop_st2 x (spineLength p.root + 1) p 0 h0 hg hj0
  unfold descendOpenBlocks at d ⊢
  generalize descendLoop x (spineLength p.root + 1) p 0 = r at d ds
  obtain ⟨allMatched, p1⟩ := r
  simp only [] at d ds ⊢
  split
  · exact GoodT2_mono_bd hbd' _ ds.1.good
  · rename_i h4
    have hn4 : p1.state ≠ 4 := by simpa [stateDescendTerminated] using h4
    have o := openNewBlocks_post x p1 allMatched d
    have os := openNewBlocks_st2 x hbd hls p1 allMatched d ds.1 (ds.2 hn4)
    generalize openNewBlocks x p1 allMatched = r2 at o os
    obtain ⟨hasText, p2⟩ := r2
    simp only [] at o os ⊢
    split
    · rename_i ht
      exact addLineText_st2 x p2 o.inv (o.st ht) hLO hls hbd' os.1 (os.2 ht)
    · exact GoodT2_mono_bd hbd' _ os.1.good

end CM.Proofs.RDC
