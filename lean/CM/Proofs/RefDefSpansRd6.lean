import CM.Proofs.RefDefSpansRd5
/-
C02, block half — `RefDefSpansOK` for paragraphs made of lines, part 6: `onCloseParagraph` and the main theorem
`paraSpans_of_nodes`: an (open) paragraph whose inline children are in order inside `[l.start, L]` and are `NodeOK`
(non-empty, inside the source, Indent nodes one byte long, line endings only at the end of a node) satisfies
`RefDefSpansOK`: whatever `onCloseParagraph` splits off it, the resulting blocks have valid, ordered spans.
-/
namespace CM.Proofs.RDS
open CM CM.Model CM.Gen CM.Proofs CM.Proofs.BSp CM.Proofs.BT

/-- `onCloseParagraph` on a paragraph / setext heading closed at `l.stop`, whose inline children are `NodeOK`. -/
theorem onClose_spans (x : PExt) (src : Bytes) (l : PLabel) (is : List Tree) (po : Bool)
    (h0 : 0 ≤ l.start) (hsHI : l.start ≤ l.stop) (hi : InlsOK l.start l.stop is)
    (hN : ∀ t ∈ is, NodeOK src t) (hpo : l.kind = BK.setextHeading → po = true) :
    PBSpansL QT po l.start l.stop (onCloseParagraph x src (.mk l [] is)) := by
  have hHI : 0 ≤ l.stop := by omega
  cases is with
  | nil =>
    simp only [onCloseParagraph]
    exact giveUp_spans (result := []) (PBSpansL_nil _ _ _ _) (Int.le_refl _) hsHI rfl hHI hi
  | cons first rest =>
    have hc : Ctx src (first :: rest) := ctx_of_inls h0 hi hN
    have hB := inls_le_last hi
    have hBH : inlLast l.start (first :: rest) ≤ l.stop := inlLast_le hsHI hi
    have hf := inls_bounds hi first List.mem_cons_self
    have hfB := hB first List.mem_cons_self
    have hfok := hN first List.mem_cons_self
    have hrd : RdOK 0 (inlLast l.start (first :: rest)).toNat false (newReader (first :: rest) first.label.start.toNat) := by
      refine ⟨?_, hc.sorted, ?_, Nat.zero_le _, ?_, ?_, fun h => (by cases h), Or.inl ?_⟩
      · intro t ht
        have := hB t ht
        unfold TB
        omega
      · show first.label.start.toNat ≤ _
        omega
      · show (-1 : Int) + 1 ≤ _
        omega
      · show (-1 : Int) ≤ -1
        omega
      · show (-1 : Int) + 1 ≤ ((first.label.start.toNat : Nat) : Int)
        omega
    have hri : RI src (first :: rest) (newReader (first :: rest) first.label.start.toNat) := by
      refine ⟨⟨0, rfl⟩, ?_, ?_, ?_⟩
      · intro t rest' e
        have e' : first :: rest = t :: rest' := e
        cases e'
        show first.label.start ≤ ((first.label.start.toNat : Nat) : Int) ∧ ((first.label.start.toNat : Nat) : Int) < _
        have := hfok.1
        omega
      · intro _ _ _ _
        show 0 < 3
        omega
      · intro e
        have e' : first :: rest = [] := e
        cases e'
    have key : ∀ orphan, OrphOK (inlLast l.start (first :: rest)).toNat l.stop po orphan →
        PBSpansL QT po l.start l.stop
          (refDefLoop x src orphan ((first :: rest).length + 2) (newReader (first :: rest) first.label.start.toNat) l
            (first :: rest) []) := by
      intro orphan ho
      refine refDefLoop_spans x src orphan l.start l.stop po _ hHI (by omega) ho _ _ l (first :: rest) [] 0 hc
        ⟨Nat.zero_le _, hrd, hri⟩ rfl hi (PBSpansL_nil _ _ _ _) (Int.le_refl _) ?_
      show l.start ≤ ((first.label.start.toNat : Nat) : Int)
      omega
    by_cases hk : l.kind = BK.setextHeading
    · have hk' : (l.kind == BK.setextHeading) = true := by simpa using hk
      simp only [onCloseParagraph, hk', if_true]
      apply key
      intro o ho
      simp only [Option.some.injEq] at ho
      subst ho
      refine ⟨hpo hk, fun e he => ?_⟩
      rw [inlLast_eq_getLast 0 (first :: rest) l.start (by simp)]
      have hbody : ((src.take l.stop.toNat).drop (inlLast l.start (first :: rest)).toNat).length ≤
          l.stop.toNat - (inlLast l.start (first :: rest)).toNat := by
        simp only [List.length_drop, List.length_take]; omega
      generalize (src.take l.stop.toNat).drop (inlLast l.start (first :: rest)).toNat = body at hbody ⊢
      have hw : (body.reverse.dropWhile isSpaceTabOrLineEnding).length ≤ body.length := by
        have := dropWhile_length_le isSpaceTabOrLineEnding body.reverse
        simpa using this
      generalize body.reverse.dropWhile isSpaceTabOrLineEnding = noWs at hw ⊢
      cases noWs with
      | nil =>
        apply orphan_blk <;> first | omega | (simp only; omega)
      | cons u t =>
        have := dropWhile_length_le (· == u) (u :: t)
        simp only [List.length_cons] at this hw
        apply orphan_blk <;> first | omega | (simp only; omega)
    · have hk' : (l.kind == BK.setextHeading) = false := by simpa using hk
      simp only [onCloseParagraph, hk', Bool.false_eq_true, if_false]
      exact key none (fun _ h => (by cases h))

/-- **Main theorem.** An open paragraph made of `NodeOK` inline children satisfies the hypothesis `RefDefSpansOK` of the
    block phase, for every closing position `L` and every end `E ≥ L` of a setext underline. -/
theorem paraSpans_of_nodes (x : PExt) (src : Bytes) (L E : Int) (l : PLabel) (is : List Tree)
    (hk : l.kind = BK.paragraph) (h0 : 0 ≤ l.start) (hs : l.start ≤ L) (hLE : L ≤ E)
    (hi : InlsOK l.start L is) (hN : ∀ t ∈ is, NodeOK src t) :
    RefDefSpansOK x src L E l is = true := by
  have hiE : InlsOK l.start E is := InlsOK_mono (Int.le_refl _) hLE hi
  simp only [RefDefSpansOK, Bool.and_eq_true]
  refine ⟨⟨?_, ?_⟩, ?_⟩
  · show PBSpansL QT false l.start L _
    refine onClose_spans x src { l with stop := L } is false h0 hs hi hN (fun hk' => ?_)
    have : l.kind = BK.setextHeading := hk'
    rw [hk] at this
    exact absurd this (by decide)
  · show PBSpansL QT true l.start E _
    exact onClose_spans x src { l with kind := BK.setextHeading, n := 1, stop := E } is true h0 (by show l.start ≤ E; omega)
      hiE hN (fun _ => rfl)
  · show PBSpansL QT true l.start E _
    exact onClose_spans x src { l with kind := BK.setextHeading, n := 2, stop := E } is true h0 (by show l.start ≤ E; omega)
      hiE hN (fun _ => rfl)

/-! ### Deciding `NodeOK` on concrete nodes, and a non-vacuity example -/

/-- Boolean version of `EolAtEnd`. -/
def eolCheckB (src : Bytes) (s e : Int) : Bool :=
  (List.range e.toNat).all fun j =>
    !(decide (s ≤ (j : Int))) ||
      ((src.getD j 0 != LF || decide ((j : Int) + 1 = e)) &&
       (src.getD j 0 != CR || decide ((j : Int) + 1 = e) || (decide ((j : Int) + 2 = e) && src.getD (j + 1) 0 == LF)))

theorem eolAtEnd_of_check {src : Bytes} {s e : Int} (h : eolCheckB src s e = true) : EolAtEnd src s e := by
  intro j hs he
  simp only [eolCheckB, List.all_eq_true, List.mem_range] at h
  have := h j (by omega)
  simp only [Bool.or_eq_true, Bool.not_eq_true', decide_eq_false_iff_not, Bool.and_eq_true, bne_iff_ne, ne_eq,
    decide_eq_true_eq, beq_iff_eq] at this
  rcases this with h1 | ⟨h2, h3⟩
  · exact absurd hs h1
  · constructor
    · intro hlf
      rcases h2 with h2 | h2
      · exact absurd hlf h2
      · exact h2
    · intro hcr
      rcases h3 with (h3 | h3) | h3
      · exact absurd hcr h3
      · exact Or.inl h3
      · exact Or.inr h3

/-- Boolean version of `NodeOK`. -/
def nodeCheckB (src : Bytes) (t : Tree) : Bool :=
  decide (t.label.start < t.label.stop) && decide (t.label.stop ≤ (src.length : Int)) &&
  (!isIndent t || decide (t.label.stop = t.label.start + 1)) &&
  (isIndent t || eolCheckB src t.label.start t.label.stop)

theorem nodeOK_of_check {src : Bytes} {t : Tree} (h : nodeCheckB src t = true) : NodeOK src t := by
  simp only [nodeCheckB, Bool.and_eq_true, decide_eq_true_eq, Bool.or_eq_true, Bool.not_eq_true'] at h
  obtain ⟨⟨⟨h1, h2⟩, h3⟩, h4⟩ := h
  refine ⟨h1, h2, fun hi => ?_, fun hi => ?_⟩
  · rcases h3 with h3 | h3
    · rw [hi] at h3; cases h3
    · exact h3
  · rcases h4 with h4 | h4
    · rw [hi] at h4; cases h4
    · exact eolAtEnd_of_check h4

theorem nodesOK_of_check {src : Bytes} {is : List Tree} (h : is.all (nodeCheckB src) = true) :
    ∀ t ∈ is, NodeOK src t := by
  intro t ht
  exact nodeOK_of_check (List.all_eq_true.mp h t ht)

section Example

/-- A link reference definition with a title, followed by a line of paragraph text; the next line (`===`) would turn the
    paragraph into a setext heading. -/
def exSrc : Bytes := Bytes.ofString "[foo]: /url \"t\"\nrest\n===\n"

/-- The inline children of the open paragraph after two lines: one Unparsed node per line. -/
def exIs : List Tree := [mkInline IK.unparsed 0 16, mkInline IK.unparsed 16 21]

def exL : PLabel := { kind := BK.paragraph, start := 0, stop := -1 }

-- the hypotheses of `paraSpans_of_nodes` hold …
example : InlsOK exL.start 21 exIs := by decide +kernel
example : ∀ t ∈ exIs, NodeOK exSrc t := nodesOK_of_check (by decide +kernel)

-- … so the theorem applies (closing at 21, or a setext underline ending at 25):
example : RefDefSpansOK btX exSrc 21 25 exL exIs = true :=
  paraSpans_of_nodes btX exSrc 21 25 exL exIs rfl (by decide) (by decide) (by decide) (by decide +kernel)
    (nodesOK_of_check (by decide +kernel))

-- the paragraph really is split: the definition `[0, 16)` with label, destination and title, then the rest `[16, 21)`;
example : (onCloseParagraph btX exSrc (.mk { exL with stop := 21 } [] exIs)).map
    (fun b => (b.kind, b.label.start, b.label.stop)) = [(BK.linkRefDef, 0, 16), (BK.paragraph, 16, 21)] := by decide +kernel
example : ((onCloseParagraph btX exSrc (.mk { exL with stop := 21 } [] exIs)).headD default).inlines.map
    (fun t => (t.label.kind, t.label.start, t.label.stop)) =
    [(IK.linkLabel, 1, 4), (IK.linkDest, 7, 11), (IK.linkTitle, 12, 15)] := by decide +kernel

-- with CR LF line endings, an Indent node (a partially consumed tab) between label and destination, and a paragraph that
-- consists of definitions only,
-- the setext heading leaves the orphan paragraph (open, last) behind:
def exSrc2 : Bytes := Bytes.ofString "[a]:\r\n\t/u\r\n[b]: /v\r\n==\n"
def exIs2 : List Tree :=
  [mkInline IK.unparsed 0 6, .node { isBlock := false, kind := IK.indent, start := 6, stop := 7, indent := 2 } [],
   mkInline IK.unparsed 7 11, mkInline IK.unparsed 11 20]

example : RefDefSpansOK btX exSrc2 20 23 exL exIs2 = true :=
  paraSpans_of_nodes btX exSrc2 20 23 exL exIs2 rfl (by decide) (by decide) (by decide) (by decide +kernel)
    (nodesOK_of_check (by decide +kernel))

example : (onCloseParagraph btX exSrc2 (.mk { exL with kind := BK.setextHeading, n := 1, stop := 23 } [] exIs2)).map
    (fun b => (b.kind, b.label.start, b.label.stop)) =
    [(BK.linkRefDef, 0, 11), (BK.linkRefDef, 11, 20), (BK.paragraph, 20, -1)] := by decide +kernel

-- `NodeOK` is needed: with a line ending in the middle of a node the hypothesis fails.
example : RefDefSpansOK btX exSrc 21 25 exL [mkInline IK.unparsed 0 21] = false := by decide +kernel

end Example

end CM.Proofs.RDS

#print axioms CM.Proofs.RDS.paraSpans_of_nodes
