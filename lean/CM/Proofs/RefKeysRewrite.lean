import CM.Proofs.RefKeysParse
import CM.Proofs.RefKeysInlSafe
/-
C12 — `Extract` reads only block structure and the children of link reference definitions, and `Rewrite` changes
neither: the reference map also equals the extraction from the FINAL trees.

`bpShape t` (Boolean): the shape of block-phase trees that matters here — a block whose children contain an Unparsed
node is not a link reference definition and has only inline children; a link reference definition has only inline
children. `PBGrammar b → bpShape (pbToTree b)`.

`rewriteE_defs`: if `bpShape t` and `rewriteE … t = .ok t'` then `t'` defines the same (label, definition) pairs as `t`,
hence `extractNode ext src t' m = extractNode ext src t m`. The proof uses that the inline parser returns inline nodes
(`InlineOutNonBlock`, proved for every `ix` in `RefKeysInlSafe.lean`: `parseInlines_nonblock`).

Whole `Parse`: `parse_refs_eq_extractAll_final` — the reference map equals `extractAll` over the FINAL trees of the roots
(when the inline phase completed on every root, i.e. no `panic`/fuel marker tree).
-/
namespace CM.Proofs.RK
open CM CM.Model CM.Gen CM.Model.Node
open CM.Proofs.BT CM.Proofs.BG

def nonBlock (t : Tree) : Bool := !t.label.isBlock

mutual
/-- The shape of block-phase trees that `Rewrite` relies on (see the header). -/
def bpShape : Tree → Bool
  | .node l cs =>
    !l.isBlock ||
      ((!Inl.hasUnparsed cs || (l.kind != BK.linkRefDef && cs.all nonBlock)) &&
       (l.kind != BK.linkRefDef || cs.all nonBlock) && bpShapeL cs)
def bpShapeL : List Tree → Bool
  | [] => true
  | c :: cs => bpShape c && bpShapeL cs
end

theorem bpShapeL_iff (cs : List Tree) : bpShapeL cs = true ↔ ∀ c ∈ cs, bpShape c = true := by
  induction cs with
  | nil => simp [bpShapeL]
  | cons c cs ih => simp [bpShapeL, ih]

theorem bpShape_nonblock (t : Tree) (h : t.label.isBlock = false) : bpShape t = true := by
  obtain ⟨l, cs⟩ := t
  have h' : l.isBlock = false := h
  simp [bpShape, h']

/-- The inline parser returns inline nodes. -/
def InlineOutNonBlock (ix : IExt) : Prop :=
  ∀ (src : Bytes) (srcA : Array UInt8) (m : Bytes → Bool) (s e : Int) (cs kids : List Tree),
    Inl.parseInlines ix src srcA m s e cs = .ok kids → ∀ k ∈ kids, k.label.isBlock = false

/-! ### block-phase trees have the shape -/

theorem hasUnparsed_false_of_blocks (bs : List PB) : Inl.hasUnparsed (bs.map pbToTree) = false := by
  unfold Inl.hasUnparsed
  rw [List.any_eq_false]
  intro t ht
  rw [List.mem_map] at ht
  obtain ⟨b, _, rfl⟩ := ht
  have := (pbToTree_label b).1
  simp [isUnparsed, isI, this]

theorem hasUnparsed_refdef {is : List Tree} (h : refDefKids is = true) : Inl.hasUnparsed is = false := by
  obtain ⟨a, b, rest, rfl, ha, hb, hrest⟩ := refDefKids_cases h
  unfold Inl.hasUnparsed
  rw [List.any_eq_false]
  intro t ht
  have hk : t.label.kind = IK.linkLabel ∨ t.label.kind = IK.linkDest ∨ t.label.kind = IK.linkTitle := by
    rcases List.mem_cons.1 ht with rfl | ht
    · exact Or.inl (isInl_nonblock ha).2
    · rcases List.mem_cons.1 ht with rfl | ht
      · exact Or.inr (Or.inl (isInl_nonblock hb).2)
      · exact Or.inr (Or.inr (isInl_nonblock (hrest t ht)).2)
  rcases hk with hk | hk | hk <;> simp [isUnparsed, isI, hk, IK.unparsed, IK.linkLabel, IK.linkDest, IK.linkTitle]

/-- **Every block-phase tree that obeys the node grammar has the shape.** -/
theorem bpShape_pbToTree : ∀ b : PB, PBGrammar b → bpShape (pbToTree b) = true := by
  apply PB.ind
  intro l bs is ih hg
  obtain ⟨hloc, hkids⟩ := (PBGrammar_mk l bs is).1 hg
  obtain ⟨hb, hi⟩ := (localOK_iff l bs is).1 hloc
  have hch := pbToTree_children l bs is
  have hlab : (pbToTree (.mk l bs is)).label.isBlock = true ∧ (pbToTree (.mk l bs is)).label.kind = l.kind := ⟨rfl, rfl⟩
  generalize pbToTree (.mk l bs is) = T at hch hlab
  obtain ⟨L, cs⟩ := T
  have hL1 : L.isBlock = true := hlab.1
  have hL2 : L.kind = l.kind := hlab.2
  have hcs : cs = if bs.isEmpty then is else bs.map pbToTree := hch
  rw [bpShape]
  simp only [hL1, Bool.not_true, Bool.false_or, Bool.and_eq_true, Bool.or_eq_true, Bool.not_eq_true', bne_iff_ne, ne_eq, hL2]
  by_cases hbe : bs.isEmpty = true
  · -- inline children
    rw [if_pos hbe] at hcs
    subst hcs
    have hnb : cs.all nonBlock = true := by
      rw [List.all_eq_true]
      intro t ht
      simp [nonBlock, inlinesOK_nonblock hi t ht]
    refine ⟨⟨?_, Or.inr hnb⟩, ?_⟩
    · by_cases hk : l.kind = BK.linkRefDef
      · left
        rcases inlinesOK_cases hi with ⟨h', _⟩ | ⟨h', _⟩ | ⟨h', _⟩ | ⟨h', _⟩ | ⟨h', _⟩ | ⟨_, hrk⟩
        · rw [hk] at h'; exact absurd h' (by decide)
        · rw [hk] at h'; exact absurd h' (by decide)
        · rw [hk] at h'; exact absurd h' (by decide)
        · rw [hk] at h'; exact absurd h' (by decide)
        · rw [hk] at h'; exact absurd h' (by decide)
        · exact hasUnparsed_refdef hrk
      · exact Or.inr ⟨hk, hnb⟩
    · rw [bpShapeL_iff]
      intro c hc
      exact bpShape_nonblock c (inlinesOK_nonblock hi c hc)
  · -- block children
    rw [if_neg hbe] at hcs
    subst hcs
    have hk : l.kind ≠ BK.linkRefDef := by
      intro hk
      have := refdef_no_blocks hk hb
      subst this
      exact hbe rfl
    refine ⟨⟨Or.inl (hasUnparsed_false_of_blocks bs), Or.inl hk⟩, ?_⟩
    rw [bpShapeL_iff]
    intro c hc
    rw [List.mem_map] at hc
    obtain ⟨b', hb', rfl⟩ := hc
    exact ih b' hb' (hkids b' hb')

/-! ### `Rewrite` keeps the definitions -/

section Rewrite
variable (ix : IExt) (src : Bytes) (srcA : Array UInt8) (m : Bytes → Bool)

theorem rewriteE_nonblock (t : Tree) (h : t.label.isBlock = false) : Inl.rewriteE ix src srcA m t = .ok t := by
  obtain ⟨l, cs⟩ := t
  have h' : l.isBlock = false := h
  rw [Inl.rewriteE]
  simp [h']

theorem rewriteForestE_nonblock : ∀ (cs : List Tree), (∀ c ∈ cs, c.label.isBlock = false) →
    Inl.rewriteForestE ix src srcA m cs = .ok cs := by
  intro cs
  induction cs with
  | nil => intro _; rw [Inl.rewriteForestE]
  | cons c rest ih =>
    intro h
    rw [Inl.rewriteForestE, rewriteE_nonblock ix src srcA m c (h c (List.mem_cons_self ..)),
      ih (fun t ht => h t (List.mem_cons_of_mem _ ht))]

theorem all_nonBlock {cs : List Tree} (h : cs.all nonBlock = true) : ∀ c ∈ cs, c.label.isBlock = false := by
  intro c hc
  have := List.all_eq_true.1 h c hc
  simpa [nonBlock] using this

theorem defsNode_block (ext : Ext) (s : Bytes) (l : Label) (cs : List Tree) (hb : l.isBlock = true)
    (hk : l.kind ≠ BK.linkRefDef) : defsNode ext s (.node l cs) = defsForest ext s cs := by
  have hk' : (l.kind == BK.linkRefDef) = false := by simpa using hk
  simp [defsNode, hb, hk']

mutual
/-- **`Rewrite` does not change what a tree defines.** -/
theorem rewriteE_defs (hout : InlineOutNonBlock ix) (ext : Ext) (s : Bytes) (t t' : Tree) (hs : bpShape t = true)
    (h : Inl.rewriteE ix src srcA m t = .ok t') : defsNode ext s t' = defsNode ext s t := by
  match t, hs, h with
  | .node l cs, hs, h =>
    rw [Inl.rewriteE] at h
    split at h
    · cases h; rfl
    · rename_i hblk
      have hb : l.isBlock = true := by simpa using hblk
      rw [bpShape] at hs
      simp only [hb, Bool.not_true, Bool.false_or, Bool.and_eq_true, Bool.or_eq_true, Bool.not_eq_true', bne_iff_ne, ne_eq] at hs
      obtain ⟨⟨hs1, hs2⟩, hs3⟩ := hs
      split at h
      · rename_i hun
        rcases hs1 with hs1 | ⟨hk, hnb⟩
        · rw [hun] at hs1; cases hs1
        · split at h
          · rename_i kids hpi
            cases h
            rw [defsNode_block ext s l kids hb hk, defsNode_block ext s l cs hb hk,
              defsForest_nonblock ext s kids (hout _ _ _ _ _ _ _ hpi), defsForest_nonblock ext s cs (all_nonBlock hnb)]
          · cases h
      · split at h
        · rename_i kids hrf
          cases h
          by_cases hk : l.kind = BK.linkRefDef
          · rcases hs2 with hs2 | hnb
            · exact absurd hk hs2
            · rw [rewriteForestE_nonblock ix src srcA m cs (all_nonBlock hnb)] at hrf
              cases hrf; rfl
          · rw [defsNode_block ext s l kids hb hk, defsNode_block ext s l cs hb hk]
            exact rewriteForestE_defs hout ext s cs kids hs3 hrf
        · cases h
theorem rewriteForestE_defs (hout : InlineOutNonBlock ix) (ext : Ext) (s : Bytes) (cs cs' : List Tree)
    (hs : bpShapeL cs = true) (h : Inl.rewriteForestE ix src srcA m cs = .ok cs') :
    defsForest ext s cs' = defsForest ext s cs := by
  match cs, hs, h with
  | [], _, h =>
    rw [Inl.rewriteForestE] at h
    cases h; rfl
  | c :: rest, hs, h =>
    rw [Inl.rewriteForestE] at h
    rw [bpShapeL, Bool.and_eq_true] at hs
    split at h
    · cases h
    · rename_i c' hc
      split at h
      · cases h
      · rename_i rest' hr
        cases h
        rw [defsForest, defsForest, rewriteE_defs hout ext s c c' hs.1 hc, rewriteForestE_defs hout ext s rest rest' hs.2 hr]
end

/-- … hence `Extract` on the rewritten tree is `Extract` on the block-phase tree, for every map. -/
theorem rewriteE_extract (hout : InlineOutNonBlock ix) (ext : Ext) (s : Bytes) (t t' : Tree) (hs : bpShape t = true)
    (h : Inl.rewriteE ix src srcA m t = .ok t') (mp : RefMap) : extractNode ext s t' mp = extractNode ext s t mp := by
  rw [extractNode_eq, extractNode_eq, rewriteE_defs ix src srcA m hout ext s t t' hs h]

end Rewrite

/-! ### whole `Parse`: the map equals the extraction from the final trees -/

/-- The final tree of a root (`Rewrite`'s result; the marker tree after a panic / fuel exhaustion). -/
def finalTree (r : ParsedRoot) : Tree :=
  match r.tree with
  | .ok t => t
  | .error e => Inl.errTree e

def treeOk (r : ParsedRoot) : Bool :=
  match r.tree with
  | .ok _ => true
  | .error _ => false

/-- Every root's final tree defines what its block-phase tree defines (if the inline phase completed on it). -/
theorem parse_final_defs (x : PExt) (ix : IExt) (hout : InlineOutNonBlock ix) (source : Bytes) (ext : Ext) (s : Bytes) :
    ∀ r ∈ (parseDoc x ix source).roots, treeOk r = true →
      defsNode ext s (finalTree r) = defsNode ext s (pbToTree r.root.block) := by
  intro r hr hok
  have hroots := parseDoc_roots x ix source
  have hmem : r.root ∈ (drain (blocksLP x) (source.length + 8) (memParser source) []).1 := by
    rw [← hroots]; exact List.mem_map_of_mem hr
  have hshape := bpShape_pbToTree r.root.block (drain_grammar_mem x _ source r.root hmem).1
  unfold parseDoc at hr
  simp only [List.mem_map] at hr
  obtain ⟨r0, _, rfl⟩ := hr
  unfold finalTree
  unfold treeOk at hok
  simp only [] at hok hshape ⊢
  split
  · rename_i t' ht
    exact rewriteE_defs ix _ _ _ hout ext s _ t' hshape ht
  · rename_i e he
    rw [he] at hok
    cases hok

theorem flatMap_congr' {α β : Type} {f g : α → List β} : ∀ (l : List α), (∀ a ∈ l, f a = g a) → l.flatMap f = l.flatMap g := by
  intro l
  induction l with
  | nil => intro _; rfl
  | cons a rest ih =>
    intro h
    rw [List.flatMap_cons, List.flatMap_cons, h a (List.mem_cons_self ..), ih (fun b hb => h b (List.mem_cons_of_mem _ hb))]

/-- **The reference map equals extracting definitions from the FINAL trees of the root blocks, in order** — when the
    inline phase completed on every root. -/
theorem parse_refs_eq_extractAll_final (x : PExt) (ix : IExt) (hout : InlineOutNonBlock ix) (source : Bytes)
    (hok : ∀ r ∈ (parseDoc x ix source).roots, treeOk r = true) :
    (parseDoc x ix source).refs =
      extractAll x.ext ((parseDoc x ix source).roots.map fun r => (r.root.source, finalTree r)) [] := by
  rw [parse_refs_eq_insAll, extractAll_eq, List.flatMap_map]
  congr 1
  apply flatMap_congr'
  intro r hr
  exact (parse_final_defs x ix hout source x.ext r.root.source r hr (hok r hr)).symm

/-- The hypothesis of the `…_defs` lemmas holds for every instance of the external functions. -/
theorem inlineOutNonBlock (ix : IExt) : InlineOutNonBlock ix := parseInlines_nonblock ix

/-- **`Extract` on a rewritten block-phase tree is `Extract` on the block-phase tree.** -/
theorem rewriteE_extract_pb (ix : IExt) (src : Bytes) (srcA : Array UInt8) (m : Bytes → Bool) (ext : Ext) (s : Bytes)
    (b : PB) (hg : PBGrammar b) (t' : Tree) (h : Inl.rewriteE ix src srcA m (pbToTree b) = .ok t') (mp : RefMap) :
    extractNode ext s t' mp = extractNode ext s (pbToTree b) mp :=
  rewriteE_extract ix src srcA m (inlineOutNonBlock ix) ext s _ t' (bpShape_pbToTree b hg) h mp

/-- **The reference map equals extracting definitions from the FINAL trees of the root blocks, in order.** -/
theorem parse_refs_eq_extractAll_final' (x : PExt) (ix : IExt) (source : Bytes)
    (hok : ∀ r ∈ (parseDoc x ix source).roots, treeOk r = true) :
    (parseDoc x ix source).refs =
      extractAll x.ext ((parseDoc x ix source).roots.map fun r => (r.root.source, finalTree r)) [] :=
  parse_refs_eq_extractAll_final x ix (inlineOutNonBlock ix) source hok

/-! ### Non-vacuity -/

section Examples
-- the example document of `RefKeysParse`: the inline phase completes on all four roots, and the final trees differ
-- from the block-phase trees (the paragraph `[foo bar]` became a link)
example : ∀ r ∈ (parseDoc exX exIX exDoc).roots, treeOk r = true := by decide +kernel
example : (parseDoc exX exIX exDoc).roots.map (fun r => bpShape (pbToTree r.root.block)) = [true, true, true, true] := by
  decide +kernel
example : (parseDoc exX exIX exDoc).refs =
    extractAll exX.ext ((parseDoc exX exIX exDoc).roots.map fun r => (r.root.source, finalTree r)) [] :=
  parse_refs_eq_extractAll_final' exX exIX exDoc (by decide +kernel)
-- the predicate rejects a link reference definition that still holds an Unparsed node, and one with a block child
example : bpShape (.node { kind := BK.linkRefDef } [mkInline IK.unparsed 0 1]) = false := by decide +kernel
example : bpShape (.node { kind := BK.linkRefDef } [.node { kind := BK.paragraph } []]) = false := by decide +kernel
end Examples

end CM.Proofs.RK
