import CM.Proofs.InlineSerRender
import CM.Props.C06Leaf
import CM.Model.Parse
/-
Inline serialisation — part 10: the whole parser.  `inline_ser_render`: the inline phase + renderer on the runs of the
lines; `inline_ser_doc`: `Parse` (block phase via `C06.paragraph_leaf`, `Extract`, `Rewrite`) on the document `srcOf ls`
— a paragraph of several lines with soft and hard breaks — delivers one paragraph whose children are the nodes of the
lines, and `AppendBlock` renders it as `<p>` ++ the HTML of the pieces ++ `</p>`.
-/
namespace CM.Proofs.InlSer
open CM CM.Gen CM.Model CM.Model.Inl CM.Proofs.EscText CM.Proofs.Leaf

/-- **Inline phase + renderer on the lines of a paragraph.** -/
theorem inline_ser_render (x : IExt) (matchRef : Bytes → Bool) (ls : List SLine) (N : Int)
    (hok : ∀ l ∈ ls, SLineOK x.ext l)
    (hlast : ∀ k, (h : k < ls.length) → ls[k].ending.isLast = decide (k + 1 ≥ ls.length))
    (cx : RCtx) (hsrc : cx.src = srcOf ls) (dst : Bytes) :
    ∃ kids : List Tree,
      parseInlines x (srcOf ls) (srcOf ls).toArray matchRef 0 N ((toLines (srcOf ls) 0 ls).map Line.run) = .ok kids ∧
      appendBlock cx dst (.node { isBlock := true, kind := BK.paragraph, start := 0, stop := N } kids) =
        dst ++ openTag cx (str "p") ++ ls.flatMap (htmlL cx) ++ closeTag cx (str "p") :=
  ⟨_, parseInlines_slines x matchRef 0 N ls hok hlast,
    render_paragraph_slines cx dst N ls hsrc (fun l hl => PShape_of_POK x.ext l.P _ (hok l hl).pieces)⟩

/-- The bytes of an ending before its LF. -/
def Ending.pre : Ending → Bytes
  | .eof => [] | .lastLF => [] | .soft => [] | .hardSp => [SP, SP] | .hardBs => [0x5C]

/-- The text of a line without its line ending. -/
def SLine.text (l : SLine) : Bytes := pbytes l.P ++ l.ending.pre

theorem SLine.bytes_text (l : SLine) (h : l.ending ≠ .eof) : l.bytes = l.text ++ [LF] := by
  unfold SLine.bytes SLine.text
  cases he : l.ending <;> simp_all [Ending.bytes, Ending.pre]

theorem srcOf_body : ∀ (ls : List SLine), (∀ l ∈ ls, l.ending ≠ .eof) → srcOf ls = body (ls.map SLine.text)
  | [], _ => rfl
  | l :: ls, h => by
    rw [List.map_cons, body_cons, srcOf, List.flatMap_cons, SLine.bytes_text l (h l (by simp))]
    have := srcOf_body ls (fun l' hl' => h l' (by simp [hl']))
    rw [srcOf] at this
    rw [this]; simp

theorem runs_eq (src : Bytes) : ∀ (ls : List SLine) (a : Nat), (∀ l ∈ ls, l.ending ≠ .eof) →
    (toLines src a ls).map Line.run = runNodes IK.unparsed a (ls.map SLine.text)
  | [], _, _ => rfl
  | l :: ls, a, h => by
    have hl := SLine.bytes_text l (h l (by simp))
    have hlen : l.bytes.length = l.text.length + 1 := by rw [hl]; simp
    simp only [toLines, List.map_cons, runNodes]
    rw [hlen, runs_eq src ls _ (fun l' hl' => h l' (by simp [hl']))]
    congr 1
    simp only [Line.run, Line.E, Line.e0, plen_toPiece, ← Ending.bytes_length]
    have : (pbytes l.P).length + l.ending.bytes.length = l.text.length + 1 := by
      rw [← hlen]; simp [SLine.bytes]
    congr 2
    omega

/-- **`Parse` + `AppendBlock` on a paragraph of lines of inline pieces.**  `ls = l0 :: rest` are the lines (pieces with
    their side conditions `SLineOK`; every ending but the last is a soft or hard break, the last is the final LF); the block
    phase's own line conditions (`paraFirstOK` for the first line, `plainLine` + `paraContOK` for the others: no line starts
    another block) are hypotheses.  Then: exactly one root, a paragraph spanning the document, normal end, and it
    renders as `<p>` ++ the HTML of the pieces ++ `</p>`. -/
theorem inline_ser_doc (x : PExt) (ix : IExt) (l0 : SLine) (rest : List SLine)
    (hok : ∀ l ∈ l0 :: rest, SLineOK ix.ext l)
    (hlast : ∀ k, (h : k < (l0 :: rest).length) → (l0 :: rest)[k].ending.isLast = decide (k + 1 ≥ (l0 :: rest).length))
    (hneof : ∀ l ∈ l0 :: rest, l.ending ≠ .eof)
    (h0 : paraFirstOK l0.text = true) (hb : l0.text.head? ≠ some 0x5B)
    (hls : ∀ l ∈ rest, plainLine l.text = true ∧ paraContOK l.text = true) :
    ∃ (r : Root) (kids : List Tree),
      (parseDoc x ix (srcOf (l0 :: rest))).roots =
        [{ root := r, tree := .ok (leafTree BK.paragraph 0 ((srcOf (l0 :: rest)).length : Nat) kids) }] ∧
      (parseDoc x ix (srcOf (l0 :: rest))).ending = .err .eof ∧
      r.source = srcOf (l0 :: rest) ∧
      kids = ((toLines (srcOf (l0 :: rest)) 0 (l0 :: rest)).flatMap lineNodes).map nodeTree ∧
      ∀ (cx : RCtx) (dst : Bytes), cx.src = r.source →
        appendBlock cx dst (leafTree BK.paragraph 0 ((srcOf (l0 :: rest)).length : Nat) kids) =
          dst ++ openTag cx (str "p") ++ (l0 :: rest).flatMap (htmlL cx) ++ closeTag cx (str "p") := by
  have hdoc : leafDoc l0.text (rest.map SLine.text) [] = srcOf (l0 :: rest) := by
    rw [srcOf_body _ hneof, List.map_cons, body_cons, leafDoc]; simp
  obtain ⟨blk, p', hdrain, _, htree, _, _⟩ := CM.Props.C06.paragraph_leaf x l0.text (rest.map SLine.text)
    ((srcOf (l0 :: rest)).length + 8) h0 hb
    (by
      intro l hl
      obtain ⟨sl', hsl', rfl⟩ := List.mem_map.1 hl
      exact hls sl' hsl')
    (by omega)
  rw [hdoc] at hdrain htree
  have hruns := runs_eq (srcOf (l0 :: rest)) (l0 :: rest) 0 hneof
  rw [List.map_cons] at hruns
  rw [← hruns] at htree
  have hk := parseInlines_slines ix
    (fun k => ((extractAll x.ext [(srcOf (l0 :: rest), pbToTree blk)] []).lookup k).isSome) 0
    (((srcOf (l0 :: rest)).length : Nat) : Int) (l0 :: rest) hok hlast
  refine ⟨{ source := srcOf (l0 :: rest), startLine := 1, startOffset := 0, endOffset := (srcOf (l0 :: rest)).length, block := blk },
    _, ?_, ?_, rfl, rfl, ?_⟩
  · unfold parseDoc
    rw [hdrain]
    simp only [List.map_cons, List.map_nil, htree]
    rw [leafTree, rewriteE]
    simp only [Bool.not_true, Bool.false_eq_true, if_false]
    rw [if_pos (show hasUnparsed ((toLines (srcOf (l0 :: rest)) 0 (l0 :: rest)).map Line.run) = true from rfl)]
    simp only [htree, leafTree] at hk
    rw [hk]
    rfl
  · unfold parseDoc
    rw [hdrain]
  · intro cx dst hcx
    rw [leafTree]
    exact render_paragraph_slines cx dst _ (l0 :: rest) hcx (fun l hl => PShape_of_POK ix.ext l.P _ (hok l hl).pieces)

end CM.Proofs.InlSer
