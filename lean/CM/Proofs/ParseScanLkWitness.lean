import CM.Props.C02Inline
import CM.Proofs.ParseSeamsFinal
import CM.Proofs.ParseScanLkNpRewrite
/-
C02 / C04, inline halves, for the whole of `Parse` — the kernel-checked witness that `InlH.LinkScan.inline` (hence `ContsOK`,
the hypothesis of `rewrite_spans`) is FALSE on a block-phase tree of `Parse` (see `ParseScanLkDef`).
-/
namespace CM.Proofs.InlH2
open CM CM.Model CM.Model.Inl CM.Gen CM.Spec CM.Proofs CM.Proofs.InlH

/-! ### the witness -/

namespace Witness
open CM.Proofs.PW CM.Proofs.RK CM.Proofs.BG CM.Proofs.PS

/-- `> a⏎>⏎> ()` -/
def doc : Bytes := [0x3E, 0x20, 0x61, 0x0A, 0x3E, 0x0A, 0x3E, 0x20, 0x28, 0x29]

/-- One root, whose source is the document; its block-phase tree has the two containers `[2, 4)` and `[8, 10)`, each with
    one Unparsed run (a leaf). -/
theorem doc_conts : (parseDoc exX exIX doc).roots.map (fun pr => (pr.root.source,
      (conts (pbToTree pr.root.block)).map (fun p => (p.1.start, p.1.stop)))) = [(doc, [(2, 4), (8, 10)])] ∧
    (parseDoc exX exIX doc).roots.map (fun pr =>
      (conts (pbToTree pr.root.block)).map (fun p => p.2.map (fun t => (t.label.kind, t.label.start, t.label.stop)))) =
      [[[(IK.unparsed, 2, 4)], [(IK.unparsed, 8, 10)]]] := by decide +kernel

/-- the context of the first container -/
def c1 : ICtx := inlCtx exIX doc doc.toArray (fun _ => false) [mkInline IK.unparsed 2 4]

def s0 : IState := { nodes := #[{}], parentMap := #[none] }

def linkSpan (r : Except IErr (InlineLinkInfo × IState)) : Int × Int :=
  match r with
  | .ok (i, _) => (i.span.start, i.span.stop)
  | .error _ => (-5, -5)

/-- `parseInlineLink` at the `(` of the SECOND paragraph, run in the context of the FIRST: the link `[8, 10)`. -/
theorem link_outside : linkSpan ((parseInlineLink c1 8).run s0) = (8, 10) := by decide +kernel

/-- **`LinkScan.inline` fails on a container of a block-phase tree.** -/
theorem linkScan_inline_false : ¬ LinkScan c1 4 := by
  intro h
  have hw := link_outside
  cases hr : (parseInlineLink c1 8).run s0 with
  | error e => rw [hr] at hw; simp [linkSpan] at hw
  | ok p =>
    obtain ⟨info, s'⟩ := p
    rw [hr] at hw
    simp only [linkSpan, Prod.mk.injEq] at hw
    have hv : info.span.isValid = true := by
      unfold SpanI.isValid
      rw [hw.1, hw.2]; decide
    have := (h.inline s0 s' 8 info (by decide) (by decide) (by decide) hr hv).2.1
    rw [hw.2] at this
    omega

theorem map_singleton {α β} {f : α → β} {l : List α} {y : β} (h : l.map f = [y]) : ∃ x, l = [x] ∧ f x = y := by
  match l, h with
  | [x], h => exact ⟨x, rfl, by simpa using h⟩

/-- … so `ContsOK` fails on the block-phase tree of a parsed root: `rewrite_spans` does not apply to it. -/
theorem contsOK_false : ¬ ∀ pr ∈ (parseDoc exX exIX doc).roots,
    ContsOK exIX pr.root.source pr.root.source.toArray (fun _ => false) (pbToTree pr.root.block) := by
  intro h
  have hroots : ∃ pr, (parseDoc exX exIX doc).roots = [pr] ∧ pr.root.source = doc ∧
      (conts (pbToTree pr.root.block)).head?.map (fun p => (p.1.start, p.1.stop, p.2)) =
        some (2, 4, [mkInline IK.unparsed 2 4]) := by
    have : ((parseDoc exX exIX doc).roots.map fun pr => (pr.root.source,
        (conts (pbToTree pr.root.block)).head?.map (fun p => (p.1.start, p.1.stop)))) = [(doc, some (2, 4))] ∧
        ((parseDoc exX exIX doc).roots.map fun pr =>
          ((conts (pbToTree pr.root.block)).head?.map (fun p => p.2.map (fun t => (t.label, t.children.isEmpty)))).getD []) =
          [[((mkInline IK.unparsed 2 4).label, true)]] := by decide +kernel
    obtain ⟨hA, hB⟩ := this
    obtain ⟨pr, hq, h12⟩ := map_singleton hA
    rw [hq] at hB
    simp only [List.map_cons, List.map_nil, List.cons.injEq, and_true] at hB
    simp only [Prod.mk.injEq] at h12
    obtain ⟨h1, h2⟩ := h12
    refine ⟨pr, hq, h1, ?_⟩
    cases hcs : (conts (pbToTree pr.root.block)).head? with
    | none => rw [hcs] at h2; cases h2
    | some p =>
      rw [hcs] at h2 hB
      simp only [Option.map_some, Option.some.injEq, Prod.mk.injEq, Option.getD_some] at h2 hB ⊢
      refine ⟨h2.1, h2.2, ?_⟩
      obtain ⟨t, hp, h3⟩ := map_singleton hB
      rw [hp]
      simp only [Prod.mk.injEq] at h3
      obtain ⟨l, cs⟩ := t
      have e1 : l = (mkInline IK.unparsed 2 4).label := h3.1
      have e2 : cs = [] := List.isEmpty_iff.1 h3.2
      subst e1 e2
      rfl
  obtain ⟨pr, hpr, hsrc, hc⟩ := hroots
  have hC := h pr (by rw [hpr]; exact List.mem_singleton.2 rfl)
  cases hcs : conts (pbToTree pr.root.block) with
  | nil => rw [hcs] at hc; cases hc
  | cons p rest =>
    rw [hcs] at hc
    simp only [List.head?_cons, Option.map_some, Option.some.injEq, Prod.mk.injEq] at hc
    obtain ⟨hnode, hb, hun⟩ := conts_sub _ _ (Nat.le_refl _) p (by rw [hcs]; exact List.mem_cons_self ..)
    have := (hC _ hnode hb hun).2.2
    rw [hsrc] at this
    have e1 : (Tree.node p.1 p.2).children = [mkInline IK.unparsed 2 4] := hc.2.2
    have e2 : (Tree.node p.1 p.2).label.stop = 4 := hc.2.1
    rw [e1, e2] at this
    exact linkScan_inline_false this

/-! ### `TokScan.code` -/

/-- a code span: backtick, `a`, backtick -/
def srcT : Bytes := [0x60, 0x61, 0x60]

/-- the context of the paragraph `[0, 3)` with one Unparsed run -/
def cT : ICtx := inlCtx exIX srcT srcT.toArray (fun _ => false) [mkInline IK.unparsed 0 3]

/-- a state whose `parentMap` is longer than its arena, with an entry at the index the next node will get -/
def tT : IState := { nodes := #[{}], parentMap := #[none, some 7] }

def csT : CodeSpan :=
  match (parseCodeSpan cT 0).run s0 with
  | .ok (cs, _) => cs
  | .error _ => ⟨nullSpan, nullSpan⟩

def pmAfter (r : Except IErr (Unit × IState)) : List (Option Nat) :=
  match r with
  | .ok (_, t') => t'.parentMap.toList
  | .error _ => []

/-- the code span is `[0, 3)` with content `[1, 2)`; `collectCodeSpan` overwrites the entry `parentMap[1]` of `tT` -/
theorem code_overwrites : (csT.span.start, csT.span.stop) = (0, 3) ∧
    pmAfter ((collectCodeSpan cT csT).run tT) = [none, some 0, none] := by decide +kernel

/-- **`TokScan.code` fails on a container with a code span**: it asks of EVERY state `t` that `collectCodeSpan` leaves the
    old entries of `t.parentMap` alone. -/
theorem tokScan_code_false : ¬ TokScan cT 3 := by
  intro h
  obtain ⟨hw1, hw2⟩ := code_overwrites
  cases hr : (parseCodeSpan cT 0).run s0 with
  | error e =>
    have : csT = ⟨nullSpan, nullSpan⟩ := by unfold csT; rw [hr]
    rw [this] at hw1
    revert hw1; decide
  | ok p =>
    obtain ⟨cs, s'⟩ := p
    have hcs : csT = cs := by unfold csT; rw [hr]
    have hv : cs.span.isValid = true := by
      rw [← hcs]
      simp only [Prod.mk.injEq] at hw1
      unfold SpanI.isValid
      rw [hw1.1, hw1.2]; decide
    obtain ⟨_, _, _, hc⟩ := (h.code s0 s' 0 cs (by decide) (by decide) (by decide) hr (by decide) (by decide)).1 hv
    cases hr2 : (collectCodeSpan cT cs).run tT with
    | error e => rw [hcs, hr2] at hw2; simp [pmAfter] at hw2
    | ok q =>
      obtain ⟨u, t'⟩ := q
      rw [hcs, hr2] at hw2
      simp only [pmAfter] at hw2
      obtain ⟨n, _, _, _, _, _, _, _, hpm, _⟩ := hc tT t' rfl hr2
      have := hpm 1 (by decide)
      have e1 : t'.parentMap[1]? = some (some 0) := by
        rw [← Array.getElem?_toList, hw2]; rfl
      rw [e1] at this
      revert this; decide

end Witness

end CM.Proofs.InlH2
