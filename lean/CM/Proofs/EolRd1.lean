import CM.Proofs.RefDefSpansRd6
import CM.Proofs.EolMap
/-
C14 (a), the paragraph hook under the position map — part 1: positions and bytes of the re-written source, the mapped
inline children of a paragraph.

`src = X.take k` is the source the line parser has been given so far (`X` the whole buffer), `src' = toEol e src` the
re-written one, `φ = eolPos e X` the position map.  A byte `c ≠ LF` at `j` sits at `φ j` in `src'`; an LF at `j` becomes the
bytes of `e` at `φ j …`.  The inline children of a paragraph made of lines (`RDS.Ctx`: sorted, `NodeOK`) are again such
children after mapping (`ctx_map`) — provided no Indent node sits on an LF (`TabsOK`; an Indent node is a partially consumed
tab).
-/
namespace CM.Proofs.ERd
open CM CM.Model CM.Gen CM.Proofs CM.Proofs.RDS CM.Proofs.BSp

/-! ### Positions -/

theorem stdEol_len {e : Bytes} (he : StdEol e) : e.length = 1 ∨ e.length = 2 := by
  rcases he with h | h | h <;> subst h <;> simp

theorem eolPos_succ (e X : Bytes) (he : 1 ≤ e.length) {j : Nat} (hj : j < X.length) :
    eolPos e X (j + 1) = eolPos e X j + (if X.getD j 0 = LF then e.length else 1) := by
  unfold eolPos
  rw [List.take_succ_eq_append_getElem hj, cntLF_append]
  have hg : X.getD j 0 = X[j] := by simp [List.getD_eq_getElem?_getD, hj]
  rw [hg]
  by_cases h : X[j] = LF
  · rw [if_pos h, h]
    have : cntLF [LF] = 1 := by decide
    rw [this, Nat.mul_add, Nat.mul_one]; omega
  · rw [if_neg h]
    have : cntLF [X[j]] = 0 := cntLF_eq_zero (by simpa using h)
    simp only [this, Nat.add_zero]; omega

theorem eolPos_zero (e X : Bytes) : eolPos e X 0 = 0 := by simp [eolPos, cntLF]

section
variable {e X : Bytes} {k : Nat}

theorem getD_take_lt {l : Bytes} {n j : Nat} (h : j < n) : (l.take n).getD j 0 = l.getD j 0 := by
  simp only [List.getD_eq_getElem?_getD, List.getElem?_take, h, if_true]

theorem lt_of_lt_take {l : Bytes} {n j : Nat} (h : j < (l.take n).length) : j < n ∧ j < l.length := by
  simp only [List.length_take] at h; omega

theorem eolPos_succ_ne (he : StdEol e) {j : Nat} (hj : j < (X.take k).length) (hb : (X.take k).getD j 0 ≠ LF) :
    eolPos e X (j + 1) = eolPos e X j + 1 := by
  obtain ⟨h1, h2⟩ := lt_of_lt_take hj
  rw [eolPos_succ e X (by rcases stdEol_len he with h | h <;> omega) h2, if_neg (by rw [← getD_take_lt h1]; exact hb)]

theorem eolPos_succ_lf (he : StdEol e) {j : Nat} (hj : j < (X.take k).length) (hb : (X.take k).getD j 0 = LF) :
    eolPos e X (j + 1) = eolPos e X j + e.length := by
  obtain ⟨h1, h2⟩ := lt_of_lt_take hj
  rw [eolPos_succ e X (by rcases stdEol_len he with h | h <;> omega) h2, if_pos (by rw [← getD_take_lt h1]; exact hb)]

/-- The length of the re-written source. -/
theorem length_src' (he : StdEol e) : (toEol e (X.take k)).length = eolPos e X (X.take k).length := by
  rw [← eolPos_length e (stdEol_ne_nil he), eolPos_take e X (by simp only [List.length_take]; omega)]

theorem pos_lt_iff (he : StdEol e) (j : Nat) : eolPos e X j < (toEol e (X.take k)).length ↔ j < (X.take k).length := by
  rw [length_src' he]; exact eolPos_lt_iff e X

/-! ### Bytes -/

theorem split_at {l : Bytes} {j : Nat} (hj : j < l.length) : l = l.take j ++ l.getD j 0 :: l.drop (j + 1) := by
  have hg : l.getD j 0 = l[j] := by simp [List.getD_eq_getElem?_getD, hj]
  rw [hg, ← List.drop_eq_getElem_cons hj, List.take_append_drop]

theorem toEol_split (he : StdEol e) {j : Nat} (hj : j < (X.take k).length) :
    toEol e (X.take k) = toEol e ((X.take k).take j) ++ toEol e [(X.take k).getD j 0] ++ toEol e ((X.take k).drop (j + 1)) ∧
    (toEol e ((X.take k).take j)).length = eolPos e X j := by
  constructor
  · conv => lhs; rw [split_at hj]
    rw [show (X.take k).take j ++ (X.take k).getD j 0 :: (X.take k).drop (j + 1) =
      (X.take k).take j ++ [(X.take k).getD j 0] ++ (X.take k).drop (j + 1) by simp, toEol_append, toEol_append]
  · have h1 := lt_of_lt_take hj
    rw [← eolPos_eq_length e (stdEol_ne_nil he) (X.take k) (Nat.le_of_lt hj), eolPos_take e X (Nat.le_of_lt h1.1)]

/-- A byte other than LF keeps its value. -/
theorem byte_ne (he : StdEol e) {j : Nat} (hj : j < (X.take k).length) (hb : (X.take k).getD j 0 ≠ LF) :
    (toEol e (X.take k)).getD (eolPos e X j) 0 = (X.take k).getD j 0 := by
  obtain ⟨h1, h2⟩ := toEol_split (e := e) he hj
  rw [h1, List.append_assoc]
  have : toEol e [(X.take k).getD j 0] = [(X.take k).getD j 0] := by
    rw [toEol_cons_ne e hb]; rfl
  rw [this, List.getD_eq_getElem?_getD, List.getElem?_append_right (by omega), h2, Nat.sub_self]
  rfl

/-- An LF becomes the bytes of `e`. -/
theorem byte_lf (he : StdEol e) {j : Nat} (hj : j < (X.take k).length) (hb : (X.take k).getD j 0 = LF) {i : Nat}
    (hi : i < e.length) : (toEol e (X.take k)).getD (eolPos e X j + i) 0 = e.getD i 0 := by
  obtain ⟨h1, h2⟩ := toEol_split (e := e) he hj
  rw [h1, List.append_assoc]
  have : toEol e [(X.take k).getD j 0] = e := by
    rw [hb, toEol_cons_LF]; simp [toEol]
  rw [this, List.getD_eq_getElem?_getD, List.getElem?_append_right (by omega), h2, Nat.add_sub_cancel_left,
    List.getElem?_append_left hi, ← List.getD_eq_getElem?_getD]

/-- Every position of the re-written source comes from a position of the source. -/
theorem pos_inv (he : StdEol e) : ∀ (n : Nat), n ≤ (X.take k).length → ∀ j', j' < eolPos e X n →
    ∃ j i, j < n ∧ j' = eolPos e X j + i ∧
      (((X.take k).getD j 0 ≠ LF ∧ i = 0) ∨ ((X.take k).getD j 0 = LF ∧ i < e.length)) := by
  intro n
  induction n with
  | zero => intro _ j' h; rw [eolPos_zero] at h; omega
  | succ n ih =>
    intro hn j' hj'
    by_cases hlt : j' < eolPos e X n
    · obtain ⟨j, i, a, b, c⟩ := ih (by omega) j' hlt
      exact ⟨j, i, by omega, b, c⟩
    · by_cases hb : (X.take k).getD n 0 = LF
      · rw [eolPos_succ_lf he (by omega) hb] at hj'
        exact ⟨n, j' - eolPos e X n, by omega, by omega, Or.inr ⟨hb, by omega⟩⟩
      · rw [eolPos_succ_ne he (by omega) hb] at hj'
        exact ⟨n, 0, by omega, by omega, Or.inl ⟨hb, rfl⟩⟩

end

/-! ### The mapped inline children -/

/-- No Indent node sits on a line feed (an Indent node is a partially consumed tab). -/
def TabsOK (src : Bytes) (is : List Tree) : Prop :=
  ∀ t ∈ is, isIndent t = true → src.getD t.label.start.toNat 0 ≠ LF

theorem isIndent_map (g : Int → Int) (t : Tree) : isIndent (mapTree g t) = isIndent t := by
  cases t; rfl

theorem isI_map (g : Int → Int) (t : Tree) (kd : Nat) : Node.isI (mapTree g t) kd = Node.isI t kd := by
  cases t; rfl

theorem map_start (e X : Bytes) (t : Tree) : (mapTree (eolPosZ e X) t).label.start = eolPosZ e X t.label.start := by
  rw [mapTree_label]
theorem map_stop (e X : Bytes) (t : Tree) : (mapTree (eolPosZ e X) t).label.stop = eolPosZ e X t.label.stop := by
  rw [mapTree_label]
theorem map_indent (e X : Bytes) (t : Tree) : (mapTree (eolPosZ e X) t).label.indent = t.label.indent := by
  rw [mapTree_label]

theorem mem_mapTrees {g : Int → Int} {ts : List Tree} {t' : Tree} (h : t' ∈ mapTrees g ts) : ∃ t ∈ ts, t' = mapTree g t := by
  rw [mapTrees_eq_map] at h
  obtain ⟨t, h1, h2⟩ := List.mem_map.1 h
  exact ⟨t, h1, h2.symm⟩

section
variable {e X : Bytes} {k : Nat}

theorem eolAtEnd_map (he : StdEol e) (hcr : NoCR X) {s t : Nat} (hst : s < t) (ht : t ≤ (X.take k).length)
    (h : EolAtEnd (X.take k) s t) : EolAtEnd (toEol e (X.take k)) (eolPos e X s : Nat) (eolPos e X t : Nat) := by
  intro j' h1 h2
  have h1' : eolPos e X s ≤ j' := by omega
  have h2' : j' < eolPos e X t := by omega
  obtain ⟨j, i, a, b, c⟩ := pos_inv (e := e) (X := X) (k := k) he t ht j' h2'
  have hjs : s ≤ j := by
    rcases Nat.lt_or_ge j s with hlt | hge
    · exfalso
      have h3 : eolPos e X (j + 1) ≤ eolPos e X s := eolPos_mono e X (by omega)
      rcases c with ⟨c1, c2⟩ | ⟨c1, c2⟩
      · rw [eolPos_succ_ne he (by omega) c1] at h3; omega
      · rw [eolPos_succ_lf he (by omega) c1] at h3; omega
    · exact hge
  have hjt : j < (X.take k).length := by omega
  have horig := h j (by omega) (by omega)
  have hnocr : (X.take k).getD j 0 ≠ CR := by
    intro hc
    have hm : (X.take k).getD j 0 ∈ X.take k := by
      rw [List.getD_eq_getElem?_getD, List.getElem?_eq_getElem hjt]; exact List.getElem_mem hjt
    exact noCR_take hcr k _ hm hc
  rcases c with ⟨c1, c2⟩ | ⟨c1, c2⟩
  · subst c2
    rw [Nat.add_zero] at b
    subst b
    rw [byte_ne he hjt c1]
    exact ⟨fun hh => absurd hh c1, fun hh => absurd hh hnocr⟩
  · have hend : (j : Int) + 1 = (t : Int) := horig.1 c1
    have hend' : j + 1 = t := by omega
    have hphi := eolPos_succ_lf (e := e) he hjt c1
    rw [hend'] at hphi
    subst b
    rw [byte_lf he hjt c1 c2]
    rcases he with hE | hE | hE
    · subst hE
      have : i = 0 := by simp at c2; omega
      subst this
      simp at hphi
      refine ⟨fun _ => by omega, fun hh => ?_⟩
      exact absurd hh (by decide)
    · subst hE
      have : i = 0 := by simp at c2; omega
      subst this
      simp at hphi
      refine ⟨fun hh => absurd hh (by decide), fun _ => Or.inl (by omega)⟩
    · subst hE
      simp at hphi c2
      have : i = 0 ∨ i = 1 := by omega
      rcases this with hi | hi
      · subst hi
        refine ⟨fun hh => absurd hh (by decide), fun _ => Or.inr ⟨by omega, ?_⟩⟩
        have := byte_lf (e := [CR, LF]) (Or.inr (Or.inr rfl)) hjt c1 (i := 1) (by simp)
        rw [Nat.add_zero]
        exact this
      · subst hi
        refine ⟨fun _ => by omega, fun hh => absurd hh (by decide)⟩

/-- A node made of lines stays one. -/
theorem nodeOK_map (he : StdEol e) (hcr : NoCR X) {t : Tree} (h : NodeOK (X.take k) t) (h0 : 0 ≤ t.label.start)
    (htab : isIndent t = true → (X.take k).getD t.label.start.toNat 0 ≠ LF) :
    NodeOK (toEol e (X.take k)) (mapTree (eolPosZ e X) t) := by
  obtain ⟨a1, a2, a3, a4⟩ := h
  have hs : t.label.start = (t.label.start.toNat : Int) := (Int.toNat_of_nonneg h0).symm
  have ht : t.label.stop = (t.label.stop.toNat : Int) := (Int.toNat_of_nonneg (by omega)).symm
  rw [NodeOK, map_start, map_stop, isIndent_map]
  refine ⟨(eolPosZ_lt_iff e X _ _).2 a1, ?_, ?_, ?_⟩
  · rw [ht, eolPosZ_ofNat, length_src' he]
    have : t.label.stop.toNat ≤ (X.take k).length := by omega
    have := eolPos_mono e X this
    omega
  · intro hi
    have hb := htab hi
    have hstop := a3 hi
    have hlt : t.label.start.toNat < (X.take k).length := by omega
    have := eolPos_succ_ne (e := e) he hlt hb
    rw [hstop]
    generalize t.label.start.toNat = n at hs this
    rw [hs]
    have e1 : ((n : Int) + 1) = ((n + 1 : Nat) : Int) := by omega
    rw [e1, eolPosZ_ofNat, eolPosZ_ofNat, this]
    omega
  · intro hi
    have := a4 hi
    rw [hs, ht] at this ⊢
    rw [eolPosZ_ofNat, eolPosZ_ofNat]
    exact eolAtEnd_map he hcr (by omega) (by omega) this

theorem sorted_map (e X : Bytes) {is : List Tree} (h : SortedSpans is) : SortedSpans (mapTrees (eolPosZ e X) is) := by
  unfold SortedSpans at h ⊢
  rw [mapTrees_eq_map, List.pairwise_map]
  exact h.imp (fun {a b} hab => by rw [map_stop, map_start]; exact (eolPosZ_le_iff e X _ _).2 hab)

/-- The mapped inline children of a paragraph made of lines. -/
theorem ctx_map (he : StdEol e) (hcr : NoCR X) {is : List Tree} (hc : Ctx (X.take k) is) (htab : TabsOK (X.take k) is) :
    Ctx (toEol e (X.take k)) (mapTrees (eolPosZ e X) is) := by
  refine ⟨sorted_map e X hc.sorted, ?_, ?_⟩
  · intro t' ht'
    obtain ⟨t, h1, rfl⟩ := mem_mapTrees ht'
    exact nodeOK_map he hcr (hc.ok t h1) (hc.nn t h1) (htab t h1)
  · intro t' ht'
    obtain ⟨t, h1, rfl⟩ := mem_mapTrees ht'
    rw [map_start]
    exact (eolPosZ_nonneg_iff e X _).2 (hc.nn t h1)

end

end CM.Proofs.ERd
