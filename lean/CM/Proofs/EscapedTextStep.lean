import CM.Proofs.EscapedTextState
/-
C06, escaped text — part 3: the tokenizer loop of `parseRun`, one iteration at a time.  `parseRun_shape` exhibits the
loop body `f` of `parseRun` (the `do` block of the model, as elaborated) together with equations for the five kinds of
iteration that occur on an escaped text: end of the run, a plain byte, a backslash escape, a space, the final LF.
-/
namespace CM.Proofs.EscText
open CM CM.Gen CM.Model CM.Model.Inl

/-- The mutable variables of the tokenizer loop: `pos`, `plainStart`, `done`. -/
abbrev LS := Int × Int × Bool

/-- `parseRun` around an abstract loop body, from a state with `ignoreNextIndent = false`. -/
def tokLoop (c : ICtx) (f : Nat → LS → IM (ForInStep LS)) : IM Unit := do
  let node ← unparsedAt c
  setIgnoreNextIndent false
  let r ← forIn [:c.srcA.size + 2] ((node.label.start, node.label.start, false) : LS) f
  if !r.2.2 then outOfFuel "parse: tokenizer loop"
  addText r.2.1 (← spanEnd c)

theorem unparsedAt_run (c : ICtx) (s : IState) (t : Tree) (h : c.unparsed[s.unparsedPos]? = some t) :
    (unparsedAt c).run s = pure (t, s) := by
  simp [unparsedAt, h, StateT.run_bind]

theorem srcAt_run (c : ICtx) (i : Nat) (s : IState) (h : i < c.srcA.size) :
    (srcAt c (i : Int)).run s = pure (c.srcA[i]!, s) := by
  unfold srcAt
  rw [if_neg (by simp; omega)]
  simp

theorem srcSlice_run (c : ICtx) (lo hi : Nat) (s : IState) (h1 : lo ≤ hi) (h2 : hi ≤ c.srcA.size) :
    (srcSlice c (lo : Int) (hi : Int)).run s = pure ((c.srcA.extract lo hi).toList, s) := by
  unfold srcSlice
  rw [if_neg (by simp; omega)]
  simp

/-- The one-run context: the source is `src`, the only inline child is the Unparsed run `[0, |src|)`. -/
structure OneRun (c : ICtx) (src : Bytes) : Prop where
  srcA : c.srcA = src.toArray
  unparsed : c.unparsed = #[mkInline IK.unparsed 0 (src.length : Int)]

theorem OneRun.spanEnd {c : ICtx} {src : Bytes} (h : OneRun c src) (s : IState) (hs : s.unparsedPos = 0) :
    spanEndOf c s = (src.length : Int) := by
  simp [spanEndOf, h.unparsed, hs, mkInline, Tree.label]

theorem OneRun.get {c : ICtx} {src : Bytes} (h : OneRun c src) {i : Nat} {b : UInt8} (hb : src[i]? = some b) :
    i < c.srcA.size ∧ c.srcA[i]! = b := by
  have hi : i < src.length := by
    rcases Nat.lt_or_ge i src.length with h | h
    · exact h
    · rw [List.getElem?_eq_none h] at hb; cases hb
  rw [h.srcA]
  refine ⟨by simpa using hi, ?_⟩
  rw [getElem!_pos _ i (by simpa using hi)]
  rw [List.getElem?_eq_getElem hi] at hb
  simpa using hb

/-- A byte that the tokenizer's dispatch does not look at. -/
def plainByte (b : UInt8) : Prop := isASCIIPunctuation b = false ∧ b ≠ SP ∧ b ≠ LF ∧ b ≠ CR

theorem punct_ne {b : UInt8} (h : isASCIIPunctuation b = false) :
    b ≠ 42 ∧ b ≠ 95 ∧ b ≠ 91 ∧ b ≠ 93 ∧ b ≠ 33 ∧ b ≠ 96 ∧ b ≠ 60 ∧ b ≠ 92 ∧ b ≠ 38 := by
  refine ⟨?_, ?_, ?_, ?_, ?_, ?_, ?_, ?_, ?_⟩ <;> (rintro rfl; revert h; decide)

theorem parseBackslash_run (c : ICtx) (src : Bytes) (h : OneRun c src) (s : IState) (hs : s.unparsedPos = 0)
    (pos : Nat) (b : UInt8) (hb : src[pos + 1]? = some b) (hp : isASCIIPunctuation b = true) :
    (parseBackslash c (pos : Int)).run s =
      pure ((pos : Int) + 2, addLeafP IK.text ((pos : Int) + 1) ((pos : Int) + 2) s) := by
  obtain ⟨h1, h2⟩ := h.get hb
  have hlen : pos + 1 < src.length := by rw [h.srcA] at h1; simpa using h1
  have hLF : b ≠ LF := by rintro rfl; revert hp; decide
  have hCR : b ≠ CR := by rintro rfl; revert hp; decide
  have hge : ¬ ((pos : Int) + 1 ≥ (src.length : Int)) := by omega
  have hat : ∀ s, (srcAt c ((pos : Int) + 1)).run s = pure (b, s) := by
    intro s
    have := srcAt_run c (pos + 1) s h1
    rw [h2] at this
    simpa using this
  unfold parseBackslash
  simp [spanEnd, StateT.run_bind, h.spanEnd s hs, hge, hat, hLF, hCR, hp, addLeaf_run]

theorem addLeafP_unparsedPos (k : Nat) (a b : Int) (s : IState) : (addLeafP k a b s).unparsedPos = s.unparsedPos := by
  unfold addLeafP; split <;> rfl

theorem OneRun.isLastSpan {c : ICtx} {src : Bytes} (h : OneRun c src) (s : IState) :
    (isLastSpan c).run s = pure (true, s) := by
  simp [Inl.isLastSpan, h.unparsed]

theorem OneRun.slice {c : ICtx} {src : Bytes} (h : OneRun c src) (s : IState) (pos : Nat) (hp : pos ≤ src.length) :
    (srcSlice c (pos : Int) (src.length : Int)).run s = pure (src.drop pos, s) := by
  rw [srcSlice_run c pos src.length s hp (by rw [h.srcA]; simp)]
  simp [h.srcA, List.take_of_length_le]

/-- What the iterations of the tokenizer loop that occur on an escaped text do. -/
structure StepSpec (c : ICtx) (src : Bytes) (f : Nat → LS → IM (ForInStep LS)) : Prop where
  done : ∀ (x : Nat) (ps : Int) (s : IState), s.unparsedPos = 0 →
    (f x ((src.length : Int), ps, false)).run s = pure (.done ((src.length : Int), ps, true), s)
  plain : ∀ (x pos : Nat) (ps : Int) (s : IState) (b : UInt8), s.unparsedPos = 0 → src[pos]? = some b → plainByte b →
    (f x ((pos : Int), ps, false)).run s = pure (.yield ((pos : Int) + 1, ps, false), s)
  escape : ∀ (x pos : Nat) (ps : Int) (s : IState) (b : UInt8), s.unparsedPos = 0 → src[pos]? = some 0x5C →
    src[pos + 1]? = some b → isASCIIPunctuation b = true →
    (f x ((pos : Int), ps, false)).run s =
      pure (.yield ((pos : Int) + 2, (pos : Int) + 2, false),
        addLeafP IK.text ((pos : Int) + 1) ((pos : Int) + 2) (addLeafP IK.text ps (pos : Int) s))
  space : ∀ (x pos : Nat) (ps : Int) (s : IState), s.unparsedPos = 0 → src[pos]? = some SP →
    (f x ((pos : Int), ps, false)).run s =
      pure (.yield ((pos : Int) + ((parseHardLineBreakSpace (src.drop pos)).1 : Int), ps, false), s)
  lf : ∀ (x pos : Nat) (ps : Int) (s : IState), s.unparsedPos = 0 → src[pos]? = some LF →
    (f x ((pos : Int), ps, false)).run s =
      pure (.yield ((pos : Int) + 1, (pos : Int) + 1, false), addLeafP IK.text ps (pos : Int) s)

theorem lt_of_get {src : Bytes} {i : Nat} {b : UInt8} (hb : src[i]? = some b) : i < src.length := by
  rcases Nat.lt_or_ge i src.length with h | h
  · exact h
  · rw [List.getElem?_eq_none h] at hb; cases hb

/-- **The shape of `parseRun`**: its loop body satisfies `StepSpec`. -/
theorem parseRun_shape (c : ICtx) (src : Bytes) (h : OneRun c src) : ∃ f : Nat → LS → IM (ForInStep LS),
    (∀ s t, s.ignoreNextIndent = false → c.unparsed[s.unparsedPos]? = some t →
      (parseRun c).run s = (tokLoop c f).run s) ∧ StepSpec c src f := by
  unfold parseRun
  refine ⟨?f, ?eq, ?spec⟩
  case eq =>
    intro s t hs ht
    unfold tokLoop
    simp only [StateT.run_bind, StateT.run_get, unparsedAt_run c s t ht]
    simp only [pure_bind, hs, Bool.false_eq_true, if_false, StateT.run_bind]
    rfl
  case spec =>
    constructor
    · intro x ps s hs
      simp [StateT.run_bind, h.spanEnd s hs]
    · intro x pos ps s b hs hb hp
      obtain ⟨h1, h2⟩ := h.get hb
      have hlt := Nat.not_le.2 (lt_of_get hb)
      obtain ⟨p1, p2, p3, p4, p5, p6, p7, p8, p9⟩ := punct_ne hp.1
      obtain ⟨_, q1, q2, q3⟩ := hp
      simp [StateT.run_bind, h.spanEnd s hs, h.unparsed, hs, hlt, srcAt_run c pos s h1, h2, p1, p2, p3, p4, p5, p6, p7, p8, p9,
        q1, q2, q3]
    · intro x pos ps s b hs hb0 hb hp
      obtain ⟨h1, h2⟩ := h.get hb0
      have hlt := Nat.not_le.2 (lt_of_get hb0)
      have hs' : (addLeafP IK.text ps (pos : Int) s).unparsedPos = 0 := by rw [addLeafP_unparsedPos]; exact hs
      simp [StateT.run_bind, h.spanEnd s hs, h.unparsed, hs, hlt, srcAt_run c pos s h1, h2, addText, addLeaf_run,
        parseBackslash_run c src h _ hs' pos b hb hp, SP]
    · intro x pos ps s hs hb
      obtain ⟨h1, h2⟩ := h.get hb
      have hlt := Nat.not_le.2 (lt_of_get hb)
      simp [StateT.run_bind, h.spanEnd s hs, h.unparsed, hs, hlt, srcAt_run c pos s h1, h2,
        h.slice s pos (Nat.le_of_lt (lt_of_get hb)), h.isLastSpan, SP]
    · intro x pos ps s hs hb
      obtain ⟨h1, h2⟩ := h.get hb
      have hlt := Nat.not_le.2 (lt_of_get hb)
      simp [StateT.run_bind, h.spanEnd s hs, h.unparsed, hs, hlt, srcAt_run c pos s h1, h2, addText, addLeaf_run,
        h.isLastSpan, LF, SP]

end CM.Proofs.EscText
