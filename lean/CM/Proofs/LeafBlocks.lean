import CM.Proofs.LeafBlocksATXIff
import CM.Proofs.LeafBlocksHR
import CM.Proofs.LeafBlocksSetext
import CM.Proofs.LeafBlocksHTML
import CM.Proofs.LeafBlocksBlank
import CM.Proofs.Stream
/-
C06, block piece `C06_leaf_blocks`: **the canonical spellings of the leaf blocks parse to exactly the block they denote**.

For each leaf block of the canonical serialisation (`Spec.Doc.serBlk`) other than the code blocks (`CodeVerbatim`), over
explicit byte lists and for EVERY content meeting a decidable side condition: draining the parser `Parse` builds
(`drain (blocksLP x) fuel (memParser doc) []`, any `fuel ≥ 2`) delivers exactly one root, spanning the document, of the
expected kind and attributes, whose inline children are exactly the expected Unparsed / RawHTML runs (spans given, source
slices proved), then `io.EOF`, no panic.

* `atx_heading_leaf`, `atx_empty_leaf`, `atx_empty_closed_leaf` — `#`×n SP c [SP `#`×k] LF, `#`×n LF, `#`×n SP `#`×k LF;
  the side condition `atxContentOK` is necessary and sufficient (`parseATXHeading_atxLine_iff`).
* `thematic_break_leaf` — a line starting with `*`, `-` or `_` whose non-blank bytes are `n ≥ 3` copies of it.
* `paragraph_leaf` — lines none of which starts a block / interrupts the paragraph, in terms of the model's own
  recognisers (`noBlockStart`); one Unparsed node per line, line ending included; no link reference definition split off.
* `setext_heading_leaf` — such lines followed by an underline of `=` or `-`.
* `html_block_leaf` — an HTML block the end condition of which is not met before the end of input (types 6 and 7: any
  non-blank lines); one RawHTML node per line.
* `paragraph_blank_leaf`, `html_block_blank_leaf` — the same two blocks ended by a blank line (`"\n"`) before the end of
  input: the root spans the lines of the block, the blank line is skipped.
Every theorem is followed (at the end of the file) by a concrete instance and by evaluations showing what the parser does
when a side condition fails.
-/
namespace CM.Proofs.Leaf
open CM CM.Model CM.Gen
open CM.Proofs CM.Proofs.BT

/-- The tree of a leaf block that starts at offset 0. -/
def leafTree (kind : Nat) (n : Int) (stop : Int) (kids : List Tree) : Tree :=
  .node { isBlock := true, kind := kind, start := 0, stop := stop, n := n } kids

theorem pbToTree_leafClosed (kind : Nat) (n e : Int) (inl : List Tree) :
    pbToTree (leafClosed kind n e inl) = leafTree kind n e inl := by
  simp [pbToTree, leafClosed, leafTree]

theorem leafDoc_eq_body (l0 : Bytes) (ls : List Bytes) (tail : Bytes) : leafDoc l0 ls tail = [] ++ (body (l0 :: ls) ++ tail) := by
  rw [leafDoc, body_cons]; simp

/-- The nodes of the lines slice to the lines with their line endings. -/
theorem slices_lines (ik : Nat) (l0 : Bytes) (ls : List Bytes) (tail : Bytes) :
    (runNodes ik 0 (l0 :: ls)).map (Node.slice (leafDoc l0 ls tail)) = (l0 :: ls).map (· ++ [LF]) := by
  rw [leafDoc_eq_body]
  exact slices_runNodes ik (l0 :: ls) [] tail 0 rfl

/-! ### 1. ATX headings -/

/-- **ATX heading.** -/
theorem atx_heading_leaf (x : PExt) (n : Nat) (c : Bytes) (k : Nat) (fuel : Nat) (hn1 : 1 ≤ n) (hn6 : n ≤ 6)
    (hc : atxContentOK c k = true) (hfuel : 2 ≤ fuel) :
    ∃ (blk : PB) (p' : BP),
      drain (blocksLP x) fuel (memParser (atxLine n c k)) [] =
        ([{ source := atxLine n c k, startLine := 1, startOffset := 0, endOffset := (atxLine n c k).length, block := blk }],
         .err .eof, p') ∧
      p'.panic = none ∧
      pbToTree blk = leafTree BK.atxHeading n ((atxLine n c k).length : Nat)
        [mkInline IK.unparsed ((n + 1 : Nat) : Int) ((n + 1 + c.length : Nat) : Int)] ∧
      Node.slice (atxLine n c k) (mkInline IK.unparsed ((n + 1 : Nat) : Int) ((n + 1 + c.length : Nat) : Int)) = c :=
  ⟨_, _, atx_heading_run x n c k fuel hn1 hn6 hc hfuel, rfl, pbToTree_leafClosed _ _ _ _, atx_heading_slice n c k⟩

/-- **Empty ATX heading**: one Unparsed child of length 0. -/
theorem atx_empty_leaf (x : PExt) (n : Nat) (fuel : Nat) (hn1 : 1 ≤ n) (hn6 : n ≤ 6) (hfuel : 2 ≤ fuel) :
    ∃ (blk : PB) (p' : BP),
      drain (blocksLP x) fuel (memParser (atxEmptyLine n)) [] =
        ([{ source := atxEmptyLine n, startLine := 1, startOffset := 0, endOffset := (atxEmptyLine n).length, block := blk }],
         .err .eof, p') ∧
      p'.panic = none ∧
      pbToTree blk = leafTree BK.atxHeading n ((atxEmptyLine n).length : Nat) [mkInline IK.unparsed ((n : Nat) : Int) ((n : Nat) : Int)] ∧
      Node.slice (atxEmptyLine n) (mkInline IK.unparsed ((n : Nat) : Int) ((n : Nat) : Int)) = [] := by
  refine ⟨_, _, atx_empty_run x n fuel hn1 hn6 hfuel, rfl, pbToTree_leafClosed _ _ _ _, ?_⟩
  have := slice_span (atxEmptyLine n) IK.unparsed n 0 []
  simpa using this

/-- **Empty ATX heading with a closing sequence** `#`×n SP `#`×k LF (as `serBlk` writes an empty heading with a closing
    sequence): one Unparsed child of length 0. -/
theorem atx_empty_closed_leaf (x : PExt) (n k : Nat) (fuel : Nat) (hn1 : 1 ≤ n) (hn6 : n ≤ 6) (hk : 1 ≤ k) (hfuel : 2 ≤ fuel) :
    ∃ (blk : PB) (p' : BP),
      drain (blocksLP x) fuel (memParser (atxEmptyClosedLine n k)) [] =
        ([{ source := atxEmptyClosedLine n k, startLine := 1, startOffset := 0, endOffset := (atxEmptyClosedLine n k).length,
            block := blk }], .err .eof, p') ∧
      p'.panic = none ∧
      pbToTree blk = leafTree BK.atxHeading n ((atxEmptyClosedLine n k).length : Nat)
        [mkInline IK.unparsed ((n + 1 : Nat) : Int) ((n + 1 : Nat) : Int)] ∧
      Node.slice (atxEmptyClosedLine n k) (mkInline IK.unparsed ((n + 1 : Nat) : Int) ((n + 1 : Nat) : Int)) = [] := by
  refine ⟨_, _, atx_empty_closed_run x n k fuel hn1 hn6 hk hfuel, rfl, pbToTree_leafClosed _ _ _ _, ?_⟩
  have := slice_span (atxEmptyClosedLine n k) IK.unparsed (n + 1) 0 []
  simpa using this

/-! ### 2. thematic breaks -/

/-- **Thematic break.** -/
theorem thematic_break_leaf (x : PExt) (c : UInt8) (n : Nat) (l : Bytes) (fuel : Nat) (h : hrOK c n l = true) (hfuel : 2 ≤ fuel) :
    ∃ (blk : PB) (p' : BP),
      drain (blocksLP x) fuel (memParser (l ++ [LF])) [] =
        ([{ source := l ++ [LF], startLine := 1, startOffset := 0, endOffset := (l ++ [LF]).length, block := blk }],
         .err .eof, p') ∧
      p'.panic = none ∧
      pbToTree blk = leafTree BK.thematicBreak 0 ((l ++ [LF]).length : Nat) [] :=
  ⟨_, _, thematic_break_run x c n l fuel h hfuel, rfl, pbToTree_leafClosed _ _ _ _⟩

/-! ### 3. paragraphs -/

/-- **Paragraph.** -/
theorem paragraph_leaf (x : PExt) (l0 : Bytes) (ls : List Bytes) (fuel : Nat)
    (h0 : paraFirstOK l0 = true) (hb : l0.head? ≠ some 0x5B)
    (hls : ∀ l ∈ ls, plainLine l = true ∧ paraContOK l = true) (hfuel : 2 ≤ fuel) :
    ∃ (blk : PB) (p' : BP),
      drain (blocksLP x) fuel (memParser (leafDoc l0 ls [])) [] =
        ([{ source := leafDoc l0 ls [], startLine := 1, startOffset := 0, endOffset := (leafDoc l0 ls []).length, block := blk }],
         .err .eof, p') ∧
      p'.panic = none ∧
      pbToTree blk = leafTree BK.paragraph 0 ((leafDoc l0 ls []).length : Nat) (runNodes IK.unparsed 0 (l0 :: ls)) ∧
      (∀ t ∈ runNodes IK.unparsed 0 (l0 :: ls), Node.isI t IK.unparsed = true ∧ t.children = []) ∧
      (runNodes IK.unparsed 0 (l0 :: ls)).map (Node.slice (leafDoc l0 ls [])) = (l0 :: ls).map (· ++ [LF]) :=
  ⟨_, _, paragraph_run x l0 ls fuel h0 hb hls hfuel, rfl, pbToTree_leafClosed _ _ _ _, runNodes_kind _ _ _, slices_lines _ _ _ _⟩

/-! ### 4. setext headings -/

/-- **Setext heading.** -/
theorem setext_heading_leaf (x : PExt) (l0 : Bytes) (ls : List Bytes) (c : UInt8) (m : Nat) (fuel : Nat)
    (h0 : paraFirstOK l0 = true) (hb : l0.head? ≠ some 0x5B)
    (hls : ∀ l ∈ ls, plainLine l = true ∧ paraContOK l = true)
    (hu : isUnderlineChar c = true) (hm : 1 ≤ m) (hfuel : 2 ≤ fuel) :
    ∃ (blk : PB) (p' : BP),
      drain (blocksLP x) fuel (memParser (leafDoc l0 ls (List.replicate m c ++ [LF]))) [] =
        ([{ source := leafDoc l0 ls (List.replicate m c ++ [LF]), startLine := 1, startOffset := 0,
            endOffset := (leafDoc l0 ls (List.replicate m c ++ [LF])).length, block := blk }],
         .err .eof, p') ∧
      p'.panic = none ∧
      pbToTree blk = leafTree BK.setextHeading (setextLevel c) ((leafDoc l0 ls (List.replicate m c ++ [LF])).length : Nat)
        (runNodes IK.unparsed 0 (l0 :: ls)) ∧
      (∀ t ∈ runNodes IK.unparsed 0 (l0 :: ls), Node.isI t IK.unparsed = true ∧ t.children = []) ∧
      (runNodes IK.unparsed 0 (l0 :: ls)).map (Node.slice (leafDoc l0 ls (List.replicate m c ++ [LF]))) = (l0 :: ls).map (· ++ [LF]) :=
  ⟨_, _, setext_run x l0 ls c m fuel h0 hb hls hu hm hfuel, rfl, pbToTree_leafClosed _ _ _ _, runNodes_kind _ _ _,
    slices_lines _ _ _ _⟩

/-! ### 5. HTML blocks -/

/-- **HTML block** ended by the end of input (`i0 = 5`: CommonMark's type 6). -/
theorem html_block_leaf (x : PExt) (i0 : Nat) (l0 : Bytes) (ls : List Bytes) (fuel : Nat)
    (h0 : htmlFirstOK i0 l0 = true) (hls : ∀ l ∈ ls, plainLine l = true ∧ htmlContOK i0 l = true) (hfuel : 2 ≤ fuel) :
    ∃ (blk : PB) (p' : BP),
      drain (blocksLP x) fuel (memParser (leafDoc l0 ls [])) [] =
        ([{ source := leafDoc l0 ls [], startLine := 1, startOffset := 0, endOffset := (leafDoc l0 ls []).length, block := blk }],
         .err .eof, p') ∧
      p'.panic = none ∧
      pbToTree blk = leafTree BK.htmlBlock i0 ((leafDoc l0 ls []).length : Nat) (runNodes IK.rawHTML 0 (l0 :: ls)) ∧
      (∀ t ∈ runNodes IK.rawHTML 0 (l0 :: ls), Node.isI t IK.rawHTML = true ∧ t.children = []) ∧
      (runNodes IK.rawHTML 0 (l0 :: ls)).map (Node.slice (leafDoc l0 ls [])) = (l0 :: ls).map (· ++ [LF]) :=
  ⟨_, _, html_block_run x i0 l0 ls fuel h0 hls hfuel, rfl, pbToTree_leafClosed _ _ _ _, runNodes_kind _ _ _, slices_lines _ _ _ _⟩

/-! ### 6. paragraphs and HTML blocks ended by a blank line -/

theorem pbToTree_leafClosedB (kind : Nat) (n e : Int) (inl : List Tree) :
    pbToTree (leafClosedB kind n e inl) = leafTree kind n e inl := by
  simp [pbToTree, leafClosedB, leafTree]

/-- **Paragraph ended by a blank line** (`"\n"`) before the end of input: the same root, spanning the paragraph lines. -/
theorem paragraph_blank_leaf (x : PExt) (l0 : Bytes) (ls : List Bytes) (fuel : Nat)
    (h0 : paraFirstOK l0 = true) (hb : l0.head? ≠ some 0x5B)
    (hls : ∀ l ∈ ls, plainLine l = true ∧ paraContOK l = true) (hfuel : 2 ≤ fuel) :
    ∃ (blk : PB) (p' : BP),
      drain (blocksLP x) fuel (memParser (leafDoc l0 ls [LF])) [] =
        ([{ source := leafDoc l0 ls [], startLine := 1, startOffset := 0, endOffset := (leafDoc l0 ls []).length, block := blk }],
         .err .eof, p') ∧
      p'.panic = none ∧ p'.offset = (leafDoc l0 ls [LF]).length ∧
      pbToTree blk = leafTree BK.paragraph 0 ((leafDoc l0 ls []).length : Nat) (runNodes IK.unparsed 0 (l0 :: ls)) ∧
      (∀ t ∈ runNodes IK.unparsed 0 (l0 :: ls), Node.isI t IK.unparsed = true ∧ t.children = []) ∧
      (runNodes IK.unparsed 0 (l0 :: ls)).map (Node.slice (leafDoc l0 ls [])) = (l0 :: ls).map (· ++ [LF]) :=
  ⟨_, _, paragraph_blank_run x l0 ls fuel h0 hb hls hfuel, rfl, rfl, pbToTree_leafClosedB _ _ _ _, runNodes_kind _ _ _,
    slices_lines _ _ _ _⟩

/-- **HTML block of type 6 or 7 ended by a blank line** before the end of input. -/
theorem html_block_blank_leaf (x : PExt) (i0 : Nat) (hi0 : i0 = 5 ∨ i0 = 6) (l0 : Bytes) (ls : List Bytes) (fuel : Nat)
    (h0 : htmlFirstOK i0 l0 = true) (hls : ∀ l ∈ ls, plainLine l = true ∧ isBlankLine l = false) (hfuel : 2 ≤ fuel) :
    ∃ (blk : PB) (p' : BP),
      drain (blocksLP x) fuel (memParser (leafDoc l0 ls [LF])) [] =
        ([{ source := leafDoc l0 ls [], startLine := 1, startOffset := 0, endOffset := (leafDoc l0 ls []).length, block := blk }],
         .err .eof, p') ∧
      p'.panic = none ∧ p'.offset = (leafDoc l0 ls [LF]).length ∧
      pbToTree blk = leafTree BK.htmlBlock i0 ((leafDoc l0 ls []).length : Nat) (runNodes IK.rawHTML 0 (l0 :: ls)) ∧
      (∀ t ∈ runNodes IK.rawHTML 0 (l0 :: ls), Node.isI t IK.rawHTML = true ∧ t.children = []) ∧
      (runNodes IK.rawHTML 0 (l0 :: ls)).map (Node.slice (leafDoc l0 ls [])) = (l0 :: ls).map (· ++ [LF]) :=
  ⟨_, _, html_block_blank_run x i0 hi0 l0 ls fuel h0 hls hfuel, rfl, rfl, pbToTree_leafClosedB _ _ _ _, runNodes_kind _ _ _,
    slices_lines _ _ _ _⟩

/-! ### non-vacuity, and what happens without the side conditions -/

/-- What `drain` delivers, for the evaluations below: per root `[startOffset, endOffset, kind, n]`, and the kind and
    slice of every inline child. -/
def observeLeaf (d : Bytes) : List (List Nat × List (Nat × Bytes)) :=
  (drain (blocksLP demoExt) 6 (memParser d) []).1.map fun r =>
    ([r.startOffset, r.endOffset, r.block.kind, r.block.label.n.toNat],
     r.block.inlines.map fun t => (t.label.kind, Node.slice r.source t))

/-- `## ab c ###`: level 2, content `ab c`. -/
example : ∃ blk p', drain (blocksLP demoExt) 2 (memParser (atxLine 2 [97, 98, 32, 99] 3)) [] =
      ([{ source := atxLine 2 [97, 98, 32, 99] 3, startLine := 1, startOffset := 0, endOffset := 12, block := blk }], .err .eof, p') ∧
      pbToTree blk = leafTree BK.atxHeading 2 12 [mkInline IK.unparsed 3 7] := by
  obtain ⟨blk, p', h1, _, h3, _⟩ := atx_heading_leaf demoExt 2 [97, 98, 32, 99] 3 2 (by decide) (by decide) (by decide +kernel) (by decide)
  exact ⟨blk, p', h1, h3⟩

example : atxLine 2 [97, 98, 32, 99] 3 = [35, 35, 32, 97, 98, 32, 99, 32, 35, 35, 35, 10] := by decide +kernel
example : observeLeaf (atxLine 2 [97, 98, 32, 99] 3) = [([0, 12, BK.atxHeading, 2], [(IK.unparsed, [97, 98, 32, 99])])] := by decide +kernel
/-- a content that ends in `#` not preceded by a blank is fine without a closing sequence: `# a#` -/
example : atxContentOK [97, 35] 0 = true ∧ observeLeaf (atxLine 1 [97, 35] 0) = [([0, 5, BK.atxHeading, 1], [(IK.unparsed, [97, 35])])] := by
  decide +kernel
/-- `# # ##`: the content `#` is kept when a closing sequence follows. -/
example : atxContentOK [35] 2 = true ∧ observeLeaf (atxLine 1 [35] 2) = [([0, 7, BK.atxHeading, 1], [(IK.unparsed, [35])])] := by
  decide +kernel
/-- Without the condition: `## a #` (content `a #`, no closing sequence) loses its `#`; -/
example : atxContentOK [97, 32, 35] 0 = false ∧ parseATXHeading (atxLine 2 [97, 32, 35] 0) = ⟨2, 3, 4⟩ := by decide +kernel
/-- … and in `## a\ #` (content `a\`, closing sequence) the content keeps the blank after the backslash (known finding). -/
example : atxContentOK [97, 92] 1 = false ∧ parseATXHeading (atxLine 2 [97, 92] 1) = ⟨2, 3, 6⟩ := by decide +kernel
/-- The shape conditions: a content that begins or ends with a space is not the content the parser finds. -/
example : parseATXHeading (atxLine 1 [32, 97] 0) = ⟨1, 3, 4⟩ ∧ parseATXHeading (atxLine 1 [97, 32] 0) = ⟨1, 2, 3⟩ := by decide +kernel
example : observeLeaf (atxEmptyClosedLine 2 3) = [([0, 7, BK.atxHeading, 2], [(IK.unparsed, [])])] := by decide +kernel
example : observeLeaf (atxEmptyLine 3) = [([0, 4, BK.atxHeading, 3], [(IK.unparsed, [])])] := by decide +kernel

/-- `***`, `---`, `___`, `* * *`, `- - - -`, and more characters / trailing blanks. -/
example : hrOK 42 3 [42, 42, 42] = true ∧ hrOK 45 3 [45, 45, 45] = true ∧ hrOK 95 3 [95, 95, 95] = true ∧
    hrOK 42 3 [42, 32, 42, 32, 42] = true ∧ hrOK 45 4 [45, 32, 45, 32, 45, 32, 45] = true ∧
    hrOK 95 5 [95, 95, 9, 95, 95, 95, 32, 32] = true := by decide +kernel
example : observeLeaf [45, 32, 45, 32, 45, 32, 45, 10] = [([0, 8, BK.thematicBreak, 0], [])] := by decide +kernel
/-- two characters are a paragraph -/
example : hrOK 42 2 [42, 42] = false ∧ observeLeaf [42, 42, 10] = [([0, 3, BK.paragraph, 0], [(IK.unparsed, [42, 42, 10])])] := by
  decide +kernel

/-- `ab` / `c` / `*d` / `2. x` / `<a>`: one paragraph of five lines (an ordered item not numbered 1 and an HTML block of
    type 7 do not interrupt a paragraph). -/
def demoPara : List Bytes := [[99], [42, 100], [50, 46, 32, 120], [60, 97, 62]]

example : ∃ blk p', drain (blocksLP demoExt) 2 (memParser (leafDoc [97, 98] demoPara [])) [] =
      ([{ source := leafDoc [97, 98] demoPara [], startLine := 1, startOffset := 0, endOffset := (leafDoc [97, 98] demoPara []).length,
          block := blk }], .err .eof, p') ∧
      pbToTree blk = leafTree BK.paragraph 0 ((leafDoc [97, 98] demoPara []).length : Nat) (runNodes IK.unparsed 0 ([97, 98] :: demoPara)) := by
  obtain ⟨blk, p', h1, _, h3, _⟩ := paragraph_leaf demoExt [97, 98] demoPara 2 (by decide +kernel) (by decide) (by decide +kernel) (by decide)
  exact ⟨blk, p', h1, h3⟩

example : observeLeaf (leafDoc [97, 98] demoPara []) =
    [([0, 17, BK.paragraph, 0], [(IK.unparsed, [97, 98, 10]), (IK.unparsed, [99, 10]), (IK.unparsed, [42, 100, 10]),
      (IK.unparsed, [50, 46, 32, 120, 10]), (IK.unparsed, [60, 97, 62, 10])])] := by decide +kernel
/-- Without the condition on the later lines: `- x`, `***`, `1. x`, `<div>` interrupt the paragraph. -/
example : paraContOK [45, 32, 120] = false ∧ (observeLeaf (leafDoc [97, 98] [[45, 32, 120]] [])).length = 2 ∧
    paraContOK [42, 42, 42] = false ∧ (observeLeaf (leafDoc [97, 98] [[42, 42, 42]] [])).length = 2 ∧
    paraContOK [49, 46, 32, 120] = false ∧ (observeLeaf (leafDoc [97, 98] [[49, 46, 32, 120]] [])).length = 2 ∧
    paraContOK [60, 100, 105, 118, 62] = false ∧ (observeLeaf (leafDoc [97, 98] [[60, 100, 105, 118, 62]] [])).length = 2 := by
  decide +kernel
/-- … and so do `> x`, `# x`, a fence; `===` turns the paragraph into a heading. -/
example : paraContOK [62, 32, 120] = false ∧ (observeLeaf (leafDoc [97, 98] [[62, 32, 120]] [])).length = 2 ∧
    paraContOK [35, 32, 120] = false ∧ (observeLeaf (leafDoc [97, 98] [[35, 32, 120]] [])).length = 2 ∧
    paraContOK [96, 96, 96] = false ∧ (observeLeaf (leafDoc [97, 98] [[96, 96, 96]] [])).length = 2 ∧
    paraContOK [61, 61, 61] = false ∧
      (observeLeaf (leafDoc [97, 98] [[61, 61, 61]] [])).map (fun r => r.1.getD 2 0) = [BK.setextHeading] := by
  decide +kernel
/-- The first line must not start a block either: `# x` / `c` is a heading and a paragraph; `<a>` / `c` is an HTML block
    (type 7 starts a block outside a paragraph). -/
example : paraFirstOK [35, 32, 120] = false ∧
    (observeLeaf (leafDoc [35, 32, 120] [[99]] [])).map (fun r => r.1.getD 2 0) = [BK.atxHeading, BK.paragraph] ∧
    paraFirstOK [60, 97, 62] = false ∧
    (observeLeaf (leafDoc [60, 97, 62] [[99]] [])).map (fun r => r.1.getD 2 0) = [BK.htmlBlock] := by
  decide +kernel
/-- Without the condition on the first byte: `[a]: b` / `c` gives a link reference definition and a paragraph. -/
example : (observeLeaf (leafDoc [91, 97, 93, 58, 32, 98] [[99]] [])).map (fun r => r.1.getD 2 0) = [BK.linkRefDef, BK.paragraph] := by
  decide +kernel

/-- `ab` / `c` / `---`: a level-2 setext heading (not a thematic break); `ab` / `=`: level 1. -/
example : ∃ blk p', drain (blocksLP demoExt) 2 (memParser (leafDoc [97, 98] [[99]] (List.replicate 3 45 ++ [LF]))) [] =
      ([{ source := leafDoc [97, 98] [[99]] (List.replicate 3 45 ++ [LF]), startLine := 1, startOffset := 0,
          endOffset := (leafDoc [97, 98] [[99]] (List.replicate 3 45 ++ [LF])).length, block := blk }], .err .eof, p') ∧
      pbToTree blk = leafTree BK.setextHeading 2 ((leafDoc [97, 98] [[99]] (List.replicate 3 45 ++ [LF])).length : Nat)
        (runNodes IK.unparsed 0 [[97, 98], [99]]) := by
  obtain ⟨blk, p', h1, _, h3, _⟩ := setext_heading_leaf demoExt [97, 98] [[99]] 45 3 2 (by decide +kernel) (by decide)
    (by decide +kernel) (by decide) (by decide) (by decide)
  exact ⟨blk, p', h1, h3⟩

example : observeLeaf (leafDoc [97, 98] [[99]] (List.replicate 3 45 ++ [LF])) =
    [([0, 9, BK.setextHeading, 2], [(IK.unparsed, [97, 98, 10]), (IK.unparsed, [99, 10])])] := by decide +kernel
example : observeLeaf (leafDoc [97, 98] [] (List.replicate 1 61 ++ [LF])) =
    [([0, 5, BK.setextHeading, 1], [(IK.unparsed, [97, 98, 10])])] := by decide +kernel

/-- `<div>` / `  x` / `</div>`: an HTML block of type 6 (index 5). -/
def demoHTML : List Bytes := [[32, 32, 120], [60, 47, 100, 105, 118, 62]]

example : ∃ blk p', drain (blocksLP demoExt) 2 (memParser (leafDoc [60, 100, 105, 118, 62] demoHTML [])) [] =
      ([{ source := leafDoc [60, 100, 105, 118, 62] demoHTML [], startLine := 1, startOffset := 0,
          endOffset := (leafDoc [60, 100, 105, 118, 62] demoHTML []).length, block := blk }], .err .eof, p') ∧
      pbToTree blk = leafTree BK.htmlBlock 5 ((leafDoc [60, 100, 105, 118, 62] demoHTML []).length : Nat)
        (runNodes IK.rawHTML 0 ([60, 100, 105, 118, 62] :: demoHTML)) := by
  obtain ⟨blk, p', h1, _, h3, _⟩ := html_block_leaf demoExt 5 [60, 100, 105, 118, 62] demoHTML 2 (by decide +kernel) (by
    intro l hl
    have : ∀ l ∈ demoHTML, plainLine l = true ∧ isBlankLine l = false := by decide +kernel
    exact ⟨(this l hl).1, htmlContOK_67 5 l (Or.inl rfl) (this l hl).2⟩) (by decide)
  exact ⟨blk, p', h1, h3⟩

example : observeLeaf (leafDoc [60, 100, 105, 118, 62] demoHTML []) =
    [([0, 17, BK.htmlBlock, 5], [(IK.rawHTML, [60, 100, 105, 118, 62, 10]), (IK.rawHTML, [32, 32, 120, 10]),
      (IK.rawHTML, [60, 47, 100, 105, 118, 62, 10])])] := by decide +kernel
example : observeLeaf (leafDoc [60, 100, 105, 118, 62] demoHTML [LF]) = observeLeaf (leafDoc [60, 100, 105, 118, 62] demoHTML []) ∧
    observeLeaf (leafDoc [97, 98] demoPara [LF]) = observeLeaf (leafDoc [97, 98] demoPara []) := by decide +kernel
/-- A blank line ends the block: what follows is another block. -/
example : htmlContOK 5 [] = false ∧ (observeLeaf (leafDoc [60, 100, 105, 118, 62] [[120], [], [121]] [])).length = 2 := by
  decide +kernel

end CM.Proofs.Leaf
