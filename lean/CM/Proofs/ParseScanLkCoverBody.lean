import CM.Proofs.InlCoverBody
import CM.Proofs.ParseScanLkCoverRunM

/-
C03, inline half, with `LinkScan2` / `TokScan2` — `parseBody`.
(Generated from `InlCoverBody.lean`: the same proofs with `LinkScan2` in the place of `LinkScan`.)
-/

namespace CM.Proofs.InlH2
open CM CM.Model CM.Model.Inl CM.Gen CM.Spec CM.Proofs CM.Proofs.InlH
open Std.Do

set_option mvcgen.warning false

/-- `parseRun`: span invariant, coverage, and `unparsedPos` does not decrease -/
theorem parseRun_specCU (L : Lims) (c : ICtx) (hU : UnpOK c L) (hT : TokScan2 c L.hi) (hS : LinkScan2 c L.hi)
    (hC : LinkCover c) (hV : TokCover c) (s0 : IState) :
    ⦃fun s => ⌜s = s0 ∧ SPT L.lo L.hi (c.unparsed[s0.unparsedPos]!).label.start s ∧
        s0.unparsedPos < c.unparsed.size ∧ StkNN c s ∧
        CovBelow c s.nodes (c.unparsed[s0.unparsedPos]!).label.start⌝⦄
    parseRun c
    ⦃⇓? _ s => ⌜((∃ F, SPT L.lo L.hi F s ∧ PosOK c s F) ∧ StkNN c s ∧ CovBelow c s.nodes (spanEndOf c s)) ∧
        s0.unparsedPos ≤ s.unparsedPos⌝⦄ :=
  triple_and (parseRun_specC L c hU hT hS hC hV s0) (parseRun_uge c s0) fun _ h => ⟨h, h.1⟩

theorem parseBody_cov (L : Lims) (c : ICtx) (hU : UnpOK c L) (hT : TokScan2 c L.hi) (hS : LinkScan2 c L.hi)
    (hC : LinkCover c) (hV : TokCover c) :
    ⦃fun s => ⌜BodyInv L c s ∧ BodyCov c s⌝⦄ parseBody c
    ⦃⇓? _ s => ⌜∀ j, InRun c j → NeedAt c j → CovA s.nodes j⌝⦄ := by
  mvcgen [parseBody, setIgnoreNextIndent, setUnparsedPos, parseRun_specCU, processEmphasis_specGC, -parseBody_spec, 
    -parseBody_specS, -parseRun_spec, -parseRun_specS, -processEmphasis_spec, -processEmphasis_specS, 
    -CM.Proofs.InlH2.parseRun_specP, -importNode_specP, -CM.Proofs.InlH2.parseRun_specC, 
    -CM.Proofs.InlH.refPart_specP, -CM.Proofs.InlH.parseEndBracket_specP, -CM.Proofs.InlH.tokC_specP, 
    -CM.Proofs.InlH.tokA_specP, -CM.Proofs.InlH.tokCode_specP, -CM.Proofs.InlH.tokLt_specP, 
    -CM.Proofs.InlH.runBody_specP, -CM.Proofs.InlH.refPart_specC, -CM.Proofs.InlH.parseEndBracket_specC, 
    -CM.Proofs.InlH.runBody_specC, -CM.Proofs.InlH.parseRun_specC]
  case inv1 =>
    exact PostCond.mayThrow (fun (q : _ × PUnit) s =>
      ⌜BodyInv L c s ∧ BodyCov c s ∧ (q.1.prefix.length ≤ s.unparsedPos ∨ ¬ s.unparsedPos < c.unparsed.size)⌝)
  inl_norm
  all_goals (try (intros; assumption))
  all_goals (try (exact fun h => h))
  -- the loop is left
  · obtain ⟨h1, h2, -⟩ := ‹BodyInv L c _ ∧ BodyCov c _ ∧ _›
    have hu := ‹(!decide (_ < _)) = true›
    simp only [Bool.not_eq_true', decide_eq_false_iff_not] at hu
    exact ⟨h1, h2, Or.inr hu⟩
  -- the entry is there
  all_goals (try (
    have hu := ‹¬(!decide (_ < _)) = true›
    simp only [Bool.not_eq_true', Bool.not_eq_false, decide_eq_true_eq] at hu
    have hb := hU.bounds _ hu
    obtain ⟨⟨F, hsp, hF⟩, hbc, hcnt⟩ := ‹BodyInv L c _ ∧ BodyCov c _ ∧ _›
    have hF' := hF hu))
  -- the preconditions of `importNode` and `parseRun`
  all_goals (try (
    first
    | exact ⟨trivial, hsp.mono hF' (by omega), hb.2.1, hb.2.2, hU.kids _ hu, hbc.1⟩
    | exact ⟨trivial, (hsp.mono hF' (by omega)).congr rfl rfl rfl, hb.2.1, hb.2.2, hU.kids _ hu, hbc.1⟩
    | (refine ⟨trivial, hsp.mono hF' (by omega), hu, hbc.1, ?_⟩
       intro j hj hr hn
       exact hbc.2 j hr hn fun _ => hj)))
  -- nothing imported: on to the next entry
  all_goals (try (
    refine ⟨BodyInv.next hU F hsp ⟨rfl, rfl, rfl⟩ rfl (fun _ => by omega), ?_, count_next hcnt hu (Nat.le_refl _)⟩
    first
    | exact hbc.skip hU hu (notRun_a ‹_›) hbc.1 (Keep.refl _ _) rfl
    | exact hbc.skip hU hu (notRun_b ‹_›) hbc.1 (Keep.refl _ _) rfl))
  -- after `importNode`
  all_goals (try (
    obtain ⟨⟨hq, hq2, -⟩, k1, k2, -⟩ := ‹(SPT _ _ _ _ ∧ _ = _ ∧ _) ∧ _›
    refine ⟨BodyInv.next hU _ hq ⟨rfl, rfl, rfl⟩ rfl (fun _ => by rw [hq2]; exact Int.le_refl _), ?_,
      count_next hcnt hu (Nat.le_of_eq hq2.symm)⟩
    first
    | exact hbc.skip hU hu (notRun_b ‹_›) k1 k2 (by show _ + 1 = _ + 1; rw [hq2])
    | exact hbc.skip hU hu (notRun_c ‹_›) k1 k2 (by show _ + 1 = _ + 1; rw [hq2])))
  -- after `parseRun`
  all_goals (try (
    obtain ⟨⟨⟨F', hq, hq2⟩, k1, k2⟩, hge⟩ := ‹((∃ F, SPT _ _ F _ ∧ PosOK _ _ F) ∧ _) ∧ _›
    exact ⟨BodyInv.next hU F' hq ⟨rfl, rfl, rfl⟩ rfl hq2, BodyCov.afterRun hU k1 k2 ⟨rfl, rfl, rfl⟩ rfl,
      count_next hcnt hu hge⟩))
  -- the start
  · obtain ⟨h1, h2⟩ := ‹BodyInv L c _ ∧ BodyCov c _›
    exact ⟨h1, h2, Or.inl (Nat.zero_le _)⟩
  -- `processEmphasis 0`
  · rename_i hinv _ _
    have hinv' : BodyInv L c _ ∧ BodyCov c _ ∧ (_ ≤ _ ∨ ¬ _ < _) := hinv
    obtain ⟨⟨F, hsp, -⟩, hbc, hcnt⟩ := hinv'
    intro h
    obtain ⟨-, -, k2⟩ := h _ _ _ _ _ hsp hbc.1
    refine fun j hr hj => k2 j hj (hbc.done ?_ j hr hj)
    rcases hcnt with h' | h'
    · have e : ([:c.unparsed.size + 1] : Std.Legacy.Range).toList.length = c.unparsed.size + 1 := range_len _
      have h'' : ([:c.unparsed.size + 1] : Std.Legacy.Range).toList.length ≤ _ := h'
      rw [e] at h''
      omega
    · exact h'

end CM.Proofs.InlH2
