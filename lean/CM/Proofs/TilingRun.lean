import CM.Proofs.TilingMachine
/-
C01: `skipBlank`, `parseLines`, `nextBlock`, `drain` of the in-memory parser under the line-parser contract.
-/
namespace CM.Model
open CM CM.Gen CM.Spec

theorem isBlankLine_append (a b : Bytes) : isBlankLine (a ++ b) = (isBlankLine a && isBlankLine b) := by
  simp [isBlankLine, List.all_append]

theorem isBlankLine_nil : isBlankLine [] = true := rfl

theorem length_padNulls_append_le (a b : Bytes) : (padNulls b 0).length ≤ (padNulls (a ++ b) 0).length := by
  rw [padNulls_append]; simp

/-! ### The blank-line loop -/

theorem skipBlank_spec {x : Bytes} : ∀ (fuel : Nat) {p : BP} {c y : Bytes}, MInv x p c y → p.i = 0 →
    y.length + 1 ≤ fuel →
    (∃ p', skipBlank fuel p = (none, p') ∧ p'.panic = none ∧ p'.err = some .eof ∧ isBlankLine y = true)
    ∨ (∃ p' p'' g y', skipBlank fuel p = (some p', p'') ∧ y = g ++ y' ∧ isBlankLine g = true ∧
        MInv x p' (c ++ g) y' ∧ p'.blocks = p.blocks ∧ p'.i = lineLen p'.buf ∧ 0 < p'.i ∧
        isBlankLine (p'.buf.take p'.i) = false) := by
  intro fuel
  induction fuel with
  | zero => intro p c y _ _ hf; omega
  | succ fuel ih =>
    intro p c y h hi0 hf
    have h1 := h.readline
    have hm : p.i + lineLen (p.buf.drop p.i) = lineLen p.buf := by rw [hi0]; simp
    simp only [skipBlank, h.readline_eq]
    by_cases hpos : 0 < lineLen (p.buf.drop p.i)
    · simp only [hpos, decide_true, Bool.not_true, Bool.false_eq_true, if_false]
      by_cases hbl : isBlankLine (List.take (p.i + lineLen (p.buf.drop p.i)) p.buf) = true
      · -- a blank line: consume it and go on
        simp only [hbl, Bool.not_true, Bool.false_eq_true, if_false]
        let p1 : BP := { p with i := p.i + lineLen (p.buf.drop p.i) }
        let p2 : BP := { p1 with offset := p1.offset + unpaddedNullLength (p1.buf.take p1.i), lineno := p1.lineno + 1,
                                 buf := p1.buf.drop p1.i, i := 0 }
        have hline : p1.buf.drop p1.i ≠ [] → p2.lineno = p1.lineno + lineCount (p1.buf.take p1.i) := by
          intro hne
          show p.lineno + 1 = p.lineno + lineCount (p.buf.take (p.i + lineLen (p.buf.drop p.i)))
          have hne' : p.buf.drop (p.i + lineLen (p.buf.drop p.i)) ≠ [] := hne
          rw [hm] at hne' ⊢
          rw [lineCount_line hne']
        obtain ⟨y₁, y₂, e, ht, -, hM⟩ :=
          h1.advance (n := p1.i) (Nat.le_refl _) h1.cut_i p2 rfl rfl hline
            (by show 0 = p1.i - p1.i; omega) rfl rfl h.panic
        have hb1 : isBlankLine y₁ = true := by
          rw [← isBlankLine_padNulls, ← ht]; exact hbl
        have hy1 : y₁ ≠ [] := by
          intro e1; subst e1
          have := congrArg List.length ht
          have hle := lineLen_le (p.buf.drop p.i)
          have hil := h.i_le
          simp only [p1, List.length_take, padNulls_nil, List.length_nil, List.length_drop] at this hle
          omega
        have hf2 : y₂.length + 1 ≤ fuel := by
          have : 0 < y₁.length := List.length_pos_iff.mpr hy1
          rw [e, List.length_append] at hf; omega
        rcases ih hM rfl hf2 with ⟨p', hs, hp1, hp2, hb2⟩ | ⟨p', p'', g, y', hs, e', hg, hM', hbk, hi', hpos', hnb⟩
        · left
          exact ⟨p', hs, hp1, hp2, by rw [e, isBlankLine_append, hb1, hb2]; rfl⟩
        · right
          refine ⟨p', p'', y₁ ++ g, y', hs, by rw [e, e']; simp, by rw [isBlankLine_append, hb1, hg]; rfl, ?_, hbk,
            hi', hpos', hnb⟩
          simpa using hM'
      · -- a non-blank line
        simp only [hbl, Bool.not_false, if_true]
        right
        refine ⟨_, _, [], y, rfl, rfl, rfl, by simpa using h1, rfl, hm, ?_, by simpa using hbl⟩
        show 0 < p.i + lineLen (p.buf.drop p.i)
        omega
    · -- end of input
      simp only [hpos, decide_false, Bool.not_false, if_true]
      left
      refine ⟨_, rfl, h.panic, h.err, ?_⟩
      have hb : p.buf = [] := by
        by_cases hne : p.buf = []
        · exact hne
        · have := lineLen_pos (l := p.buf.drop p.i) (by rw [hi0]; simpa using hne)
          exact absurd this hpos
      have : y = [] := padNulls_eq_nil (by rw [← h.buf, hb])
      rw [this]; rfl

/-! ### The per-line loop -/

/-- The invariant on the left-over blocks: none and only blank bytes up to the parse position, or some, in a
    session of the contract. -/
def PendInv {L : LineParserI} (C : LPContract L) (bs : List PB) (src : Bytes) : Prop :=
  (bs = [] ∧ isBlankLine src = true) ∨ (bs ≠ [] ∧ C.Pend bs src)

/-- `NextBlock` returned the root `r` for the input range `y₁` at the front of the unconsumed input `y`. -/
def BlockOut {L : LineParserI} (C : LPContract L) (x c y : Bytes) (r : Root) (p' : BP) : Prop :=
  ∃ y₁ y₂, y = y₁ ++ y₂ ∧ y₁ ≠ [] ∧ MInv x p' (c ++ y₁) y₂ ∧ PendInv C p'.blocks (p'.buf.take p'.i) ∧ RootAt c y₁ r

theorem offsetPBs_cons_ne (n : Int) (k : PB) (rest : List PB) : offsetPBs n (k :: rest) ≠ [] := by
  simp [offsetPBs]

theorem offsetPBs_nil (n : Int) : offsetPBs n [] = [] := by simp [offsetPBs]

/-- Cutting the closed first child off (`makeRoot`), from a line-parser state or from left-over blocks. -/
theorem makeRoot_out {L : LineParserI} (C : LPContract L) {x p c y} (h : MInv x p c y) (k : PB) (rest : List PB)
    (hk : k.isOpen = false) (hkids : kidsOK (p.buf.take p.i) 0 (k :: rest) = true)
    (hcut : ∀ k' r', rest = k' :: r' →
      C.Pend (offsetPBs (-(stopOf k : Int)) rest) ((p.buf.take p.i).drop (stopOf k))) :
    ∃ r p', makeRoot p (k :: rest) = some (r, p') ∧ BlockOut C x c y r p' := by
  obtain ⟨h0, hle, hg, hrest⟩ := kidsOK_cons_closed hk hkids
  have hsl : (p.buf.take p.i).length = p.i := by simp [h.i_le]
  rw [hsl] at hle
  obtain ⟨y₁, y₂, r, p', hmk, e, hy1, hM, hbl, hsrc, hR⟩ := makeRoot_spec h k rest hk h0 hle hg
  refine ⟨r, p', hmk, y₁, y₂, e, hy1, hM, ?_, hR⟩
  rw [hbl, hsrc]
  cases rest with
  | nil => left; exact ⟨offsetPBs_nil _, by simpa [kidsOK_nil] using hrest⟩
  | cons k' r' => right; exact ⟨offsetPBs_cons_ne _ _ _, hcut k' r' rfl⟩

theorem parseLines_spec {L : LineParserI} (C : LPContract L) {x : Bytes} :
    ∀ (fuel : Nat) {p : BP} {c y : Bytes} (σ : L.σ) (ls : Nat), MInv x p c y → ls ≤ p.i →
    p.buf.length + 1 ≤ fuel + ls →
    C.Ok (L.line σ (p.buf.take p.i) ls) (p.buf.take p.i) ls →
    ∃ r p', parseLines L fuel σ ls p = (.block r, p') ∧ BlockOut C x c y r p' := by
  intro fuel
  induction fuel with
  | zero =>
    intro p c y σ ls h hls hf _
    have := h.i_le; omega
  | succ fuel ih =>
    intro p c y σ ls h hls hf hok
    have hil := h.i_le
    have hsl : (p.buf.take p.i).length = p.i := by simp [hil]
    obtain ⟨hpan, hne, hkids, heof⟩ := checkStep_elim (C.obs _ _ _ hok)
    simp only [parseLines, hpan]
    cases hk : L.kids (L.line σ (p.buf.take p.i) ls) with
    | nil => exact absurd hk hne
    | cons k rest =>
      rw [hk] at hkids heof
      by_cases hopen : k.isOpen = true
      · -- the first child is open: read the next line
        have hrest : rest = [] := kidsOK_cons_open hopen hkids
        subst hrest
        have hlt : ls < p.i := by
          rcases Nat.lt_or_ge ls p.i with h' | h'
          · exact h'
          · have : ls = (p.buf.take p.i).length := by rw [hsl]; omega
            have := heof this k (by simp)
            rw [hopen] at this; exact absurd this (by simp)
        simp only [makeRoot_none_of_open p hopen, h.readline_eq]
        obtain ⟨hpad, hline, hns, htake, -⟩ := h.line_facts
        have hok' := C.next _ _ ls _ hok (by rw [hk]; exact hopen) hpad hline hns
        rw [hsl, ← htake] at hok'
        exact ih (L.line σ (p.buf.take p.i) ls) p.i h.readline (Nat.le_add_right _ _) (by
          show p.buf.length + 1 ≤ fuel + p.i
          omega) hok'
      · -- the first child is closed: cut it off
        have hclosed : k.isOpen = false := by simpa using hopen
        obtain ⟨r, p', hmk, hout⟩ := makeRoot_out C h k rest hclosed hkids (by
          intro k' r' e
          subst e
          exact C.cut _ _ ls k k' r' hok hk hclosed)
        exact ⟨r, p', by simp only [hmk], hout⟩

/-! ### `NextBlock` -/

theorem nextBlock_spec {L : LineParserI} (C : LPContract L) {x : Bytes} {p : BP} {c y : Bytes}
    (h : MInv x p c y) (hp : PendInv C p.blocks (p.buf.take p.i)) :
    (∃ r p' g y', nextBlock L p = (.block r, p') ∧ y = g ++ y' ∧ isBlankLine g = true ∧ BlockOut C x (c ++ g) y' r p')
    ∨ (∃ p', nextBlock L p = (.err .eof, p') ∧ p'.panic = none ∧ isBlankLine y = true) := by
  have hil := h.i_le
  have hsl : (p.buf.take p.i).length = p.i := by simp [hil]
  have hbuflen : p.buf.length = (padNulls y 0).length := by rw [h.buf]
  rcases hp with ⟨hb, hblank⟩ | ⟨hb, hpend⟩
  · -- no left-over blocks: consume the blank bytes before the parse position, skip blank lines, parse
    have hmk : makeRoot p p.blocks = none := by rw [hb]; simp [makeRoot]
    have hlen : ¬ (p.blocks.length > 0) := by rw [hb]; simp
    simp only [nextBlock, hmk, hlen, if_false]
    let p0 : BP := { p with offset := p.offset + unpaddedNullLength (p.buf.take p.i),
                            lineno := p.lineno + lineCount (p.buf.take p.i), buf := p.buf.drop p.i, i := 0 }
    obtain ⟨g, y₂, e, ht, -, hM⟩ :=
      h.advance (n := p.i) (Nat.le_refl _) h.cut_i p0 rfl rfl (fun _ => rfl) (by simp [p0]) rfl rfl h.panic
    have hg : isBlankLine g = true := by rw [← isBlankLine_padNulls, ← ht]; exact hblank
    have hf : y₂.length + 1 ≤ bpFuel p := by
      have h1 := length_le_length_padNulls y
      have : y₂.length ≤ y.length := by rw [e]; simp
      simp only [bpFuel]; omega
    rcases skipBlank_spec (bpFuel p) hM rfl hf with
      ⟨p', hs, hp1, hp2, hb2⟩ | ⟨p', p'', g', y', hs, e', hg', hM', hbk, hi', hpos', hnb⟩
    · right
      refine ⟨p', ?_, hp1, by rw [e, isBlankLine_append, hg, hb2]; rfl⟩
      show (match skipBlank (bpFuel p) p0 with
        | (none, p) => (match p.panic with
            | some m => (NBOut.panic m, p)
            | none => (NBOut.err (p.err.getD .eof), p))
        | (some q, _) => parseLines L (bpFuel p) (L.new q.blocks) 0 q) = _
      rw [hs]
      simp only [hp1, hp2, Option.getD_some]
    · left
      have hbk' : p'.blocks = [] := by rw [hbk]; exact hb
      have hne : p'.buf ≠ [] := by
        intro e0; rw [e0] at hi'; simp at hi'; omega
      have hline : IsLine (p'.buf.take p'.i) := by rw [hi']; exact isLine_take hne
      have hpad : Padded (p'.buf.take p'.i) := by
        obtain ⟨z₁, z₂, -, h1, -⟩ := hM'.cut_facts hM'.cut_i
        exact ⟨z₁, h1⟩
      have hok := C.fresh _ hpad hline hnb
      have hf' : p'.buf.length + 1 ≤ bpFuel p + 0 := by
        have h1 := length_padNulls_append_le (g ++ g') y'
        rw [hM'.buf]
        have : y = (g ++ g') ++ y' := by rw [e, e']; simp
        rw [← this, ← hbuflen] at h1
        simp only [bpFuel]; omega
      obtain ⟨r, q, hpl, hout⟩ := parseLines_spec C (bpFuel p) (L.new []) 0 hM' (Nat.zero_le _) hf' hok
      refine ⟨r, q, g ++ g', y', ?_, by rw [e, e']; simp, by rw [isBlankLine_append, hg, hg']; rfl, ?_⟩
      · show (match skipBlank (bpFuel p) p0 with
          | (none, p) => (match p.panic with
              | some m => (NBOut.panic m, p)
              | none => (NBOut.err (p.err.getD .eof), p))
          | (some q, _) => parseLines L (bpFuel p) (L.new q.blocks) 0 q) = _
        rw [hs]
        simp only [hbk', hpl]
      · simpa using hout
  · -- left-over blocks
    have hkids := C.obsP _ _ hpend
    cases hbs : p.blocks with
    | nil => exact absurd hbs hb
    | cons k rest =>
      rw [hbs] at hkids hpend
      by_cases hopen : k.isOpen = true
      · -- an open left-over block: continue its session with the next line
        have hrest : rest = [] := kidsOK_cons_open hopen hkids
        subst hrest
        have hmk : makeRoot p p.blocks = none := by rw [hbs]; exact makeRoot_none_of_open p hopen
        have hlen : p.blocks.length > 0 := by rw [hbs]; simp
        simp only [nextBlock, hmk, hlen, if_true, h.readline_eq]
        obtain ⟨hpad, hline, hns, htake, -⟩ := h.line_facts
        have hok := C.resume _ _ _ hpend hopen hpad hline hns
        rw [hsl, ← htake] at hok
        obtain ⟨r, q, hpl, hout⟩ := parseLines_spec C (bpFuel p) (L.new [k]) p.i h.readline
          (Nat.le_add_right _ _) (by
            show p.buf.length + 1 ≤ bpFuel p + p.i
            simp only [bpFuel]; omega) hok
        left
        refine ⟨r, q, [], y, ?_, rfl, rfl, by simpa using hout⟩
        rw [← hbs] at hpl
        exact hpl
      · -- a closed left-over block: deliver it
        have hclosed : k.isOpen = false := by simpa using hopen
        obtain ⟨r, p', hmk, hout⟩ := makeRoot_out C h k rest hclosed hkids (by
          intro k' r' e
          subst e
          exact C.cut' _ k k' r' hpend hclosed)
        left
        refine ⟨r, p', [], y, ?_, rfl, rfl, by simpa using hout⟩
        simp only [nextBlock, hbs, hmk]

/-! ### `drain` -/

/-- The roots delivered for the unconsumed input `y` after the consumed part `c`: blank bytes, a root, … , blank
    bytes. -/
inductive Segs : Bytes → Bytes → List Root → Prop
  | done {c y} : isBlankLine y = true → Segs c y []
  | root {c g y₁ y₂ r rs} : isBlankLine g = true → y₁ ≠ [] → RootAt (c ++ g) y₁ r →
      Segs (c ++ g ++ y₁) y₂ rs → Segs c (g ++ y₁ ++ y₂) (r :: rs)

theorem drain_spec {L : LineParserI} (C : LPContract L) {x : Bytes} :
    ∀ (fuel : Nat) {p : BP} {c y : Bytes} (acc : List Root), MInv x p c y → PendInv C p.blocks (p.buf.take p.i) →
    y.length + 1 ≤ fuel →
    ∃ rs p', drain L fuel p acc = (acc.reverse ++ rs, .err .eof, p') ∧ p'.panic = none ∧ Segs c y rs := by
  intro fuel
  induction fuel with
  | zero => intro p c y acc _ _ hf; omega
  | succ fuel ih =>
    intro p c y acc h hp hf
    rcases nextBlock_spec C h hp with ⟨r, p', g, y', hnb, e, hg, y₁, y₂, e', hy1, hM, hP, hR⟩ | ⟨p', hnb, hpn, hb⟩
    · have hf' : y₂.length + 1 ≤ fuel := by
        have : 0 < y₁.length := List.length_pos_iff.mpr hy1
        rw [e, e'] at hf; simp at hf; omega
      obtain ⟨rs, q, hd, hqn, hs⟩ := ih (r :: acc) hM hP hf'
      refine ⟨r :: rs, q, ?_, hqn, ?_⟩
      · simp only [drain, hnb, hd]; simp
      · rw [e, e', ← List.append_assoc]
        exact Segs.root hg hy1 hR hs
    · exact ⟨[], p', by simp only [drain, hnb]; simp, hpn, Segs.done hb⟩

end CM.Model
