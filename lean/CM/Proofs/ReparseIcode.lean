import CM.Proofs.ReparseEof
/-
C16, Layer B, part 10b: closing an indented code block. `indentedOnClose` reads the source only through the slices of
the block's inline children; when these lie inside a prefix of the source, the rest of the source does not matter.
-/
namespace CM.Proofs.Rp
open CM CM.Model CM.Gen CM.Proofs

theorem InLine.mono {ls len : Nat} {t : Tree} (h : InLine ls len t) (ls' len' : Nat) (h1 : ls' ≤ ls) (h2 : ls + len ≤ ls' + len') :
    InLine ls' len' t := by
  obtain ⟨a, b, c⟩ := h
  refine ⟨?_, b, ?_⟩ <;> omega

/-- The slice of a node inside `[0, |s|]` does not depend on what follows `s`. -/
theorem slice_append (s u : Bytes) (t : Tree) (h : InLine 0 s.length t) : Node.slice (s ++ u) t = Node.slice s t := by
  obtain ⟨a, b, c⟩ := h
  unfold Node.slice
  split
  · have h1 : t.label.start.toNat ≤ s.length := by omega
    rw [List.drop_append_of_le_length h1, List.take_append_of_le_length]
    rw [List.length_drop]; omega
  · rfl

theorem trim_congr (src src' : Bytes) : ∀ ts : List Tree, (∀ t ∈ ts, Node.slice src t = Node.slice src' t) →
    indentedOnClose.trim src ts = indentedOnClose.trim src' ts := by
  intro ts
  induction ts with
  | nil => intro _; rfl
  | cons c rest ih =>
    intro h
    unfold indentedOnClose.trim
    rw [h c (by simp), ih (fun t ht => h t (by simp [ht]))]

theorem indentedOnClose_congr (src src' : Bytes) (l : PLabel) (bs : List PB) (is : List Tree)
    (h : ∀ t ∈ is, Node.slice src t = Node.slice src' t) :
    indentedOnClose src (.mk l bs is) = indentedOnClose src' (.mk l bs is) := by
  unfold indentedOnClose
  simp only []
  have hr : ∀ t ∈ is.reverse, Node.slice src t = Node.slice src' t := fun t ht => h t (List.mem_reverse.mp ht)
  have key : ∀ X : List Tree, (∀ t ∈ X, t ∈ is) →
      PB.mk l bs (indentedOnClose.trim src X.reverse).reverse = PB.mk l bs (indentedOnClose.trim src' X.reverse).reverse := by
    intro X hX
    rw [trim_congr src src' _ (fun t ht => h t (hX t (List.mem_reverse.mp ht)))]
  cases hrev : is.reverse with
  | nil => exact key is (fun _ ht => ht)
  | cons sb tl =>
    cases tl with
    | nil => exact key is (fun _ ht => ht)
    | cons prev rest =>
      simp only []
      rw [hr prev (by rw [hrev]; simp)]
      split
      · refine key _ (fun t ht => ?_)
        rw [List.mem_reverse] at ht
        exact List.mem_reverse.mp (by rw [hrev]; exact List.mem_cons_of_mem _ ht)
      · exact key is (fun _ ht => ht)

theorem indentedOnClose_label (src : Bytes) (b : PB) : (indentedOnClose src b).label = b.label ∧
    (indentedOnClose src b).blocks = b.blocks := by
  cases b with
  | mk l bs is => exact ⟨rfl, rfl⟩

theorem closeBlock_icode (x : PExt) (src : Bytes) (e : Int) (l : PLabel) (is : List Tree) (ho : l.stop < 0)
    (hk : l.kind = BK.indentedCode) :
    closeBlock x src e (.mk l [] is) = [indentedOnClose src (.mk { l with stop := e } [] is)] := by
  rw [closeBlock]
  have hcl : ¬ l.stop ≥ 0 := by omega
  simp [hcl, hk, BK.indentedCode, BK.list, BK.paragraph, BK.setextHeading]

/-- Closing an open leaf block without a link reference definition in front: one block, ending at `e`, of the same kind
    unless a paragraph became a setext heading. -/
theorem closeBlock_leaf (x : PExt) (src : Bytes) (e : Int) (k0 h : PB) (tl : List PB) (ho : k0.label.stop < 0)
    (hk : k0.blocks = []) (hl : LeafK k0.kind) (hc : closeBlock x src e k0 = h :: tl) (hnd : h.kind ≠ BK.linkRefDef) :
    tl = [] ∧ h.label.stop = e ∧ h.label.kind = k0.label.kind ∧
      (k0.label.kind ≠ BK.indentedCode → h = .mk { k0.label with stop := e } [] k0.inlines) := by
  have three : k0.label.kind = BK.paragraph ∨ k0.label.kind = BK.setextHeading ∨ k0.label.kind = BK.fencedCode ∨
      k0.label.kind = BK.htmlBlock → _ := fun hh => closeBlock_single x src e k0 h tl ho hk hh hc hnd
  rcases hl with h1 | h1 | h1 | h1
  · obtain ⟨a, b⟩ := three (Or.inl h1); exact ⟨a, by rw [b]; rfl, by rw [b]; rfl, fun _ => b⟩
  · obtain ⟨a, b⟩ := three (Or.inr (Or.inr (Or.inl h1))); exact ⟨a, by rw [b]; rfl, by rw [b]; rfl, fun _ => b⟩
  · obtain ⟨a, b⟩ := three (Or.inr (Or.inr (Or.inr h1))); exact ⟨a, by rw [b]; rfl, by rw [b]; rfl, fun _ => b⟩
  · cases k0 with
    | mk l bs is =>
      simp only [PB.blocks] at hk
      subst hk
      rw [closeBlock_icode x src e l is ho h1] at hc
      simp only [List.cons.injEq] at hc
      refine ⟨hc.2.symm, ?_, ?_, fun hne => absurd h1 hne⟩
      · rw [← hc.1, (indentedOnClose_label _ _).1]; rfl
      · rw [← hc.1, (indentedOnClose_label _ _).1]; rfl

/-- Closing an indented code block whose inline children lie inside `[0, |s|]`: the source beyond `s` is not read. -/
theorem closeBlock_icode_indep (x : PExt) (s u : Bytes) (e : Int) (l : PLabel) (is : List Tree) (ho : l.stop < 0)
    (hk : l.kind = BK.indentedCode) (hsp : ∀ t ∈ is, InLine 0 s.length t) :
    closeBlock x (s ++ u) e (.mk l [] is) = closeBlock x s e (.mk l [] is) := by
  rw [closeBlock_icode x _ e l is ho hk, closeBlock_icode x _ e l is ho hk,
    indentedOnClose_congr (s ++ u) s _ [] is (fun t ht => slice_append s u t (hsp t ht))]

end CM.Proofs.Rp
