import CM.Proofs.BlocksTotal
/-
C06 (block piece), helper: what `processLine` does to a top-level open fenced code block.
-/
namespace CM.Proofs
open CM CM.Model CM.Gen
open CM.Proofs.BT

/-- Label of a top-level fenced code block that starts at offset 0, not indented. -/
def fcLabel (c : UInt8) (n : Nat) (stop : Int) : PLabel :=
  { kind := BK.fencedCode, start := 0, stop := stop, n := n, char := c, indent := 0 }

def fcOpen (c : UInt8) (n : Nat) (inl : List Tree) : PB := .mk (fcLabel c n (-1)) [] inl

/-- The closing-fence test of `ruleMatch` for a fenced code block. -/
def lpClosing (p : LP) (c : UInt8) (n : Nat) : Bool :=
  decide (p.indent < codeBlockIndentLimit) &&
    (let f := parseCodeFence p.bytesAfterIndent
     decide (f.n > 0) && !(decide (f.infoStart ≥ 0) && decide (f.infoEnd ≥ 0) && decide (f.infoStart ≤ f.infoEnd))
       && f.char == c && decide ((f.n : Int) ≥ (n : Int)))

theorem consumeIndentN_zero (p : LP) : p.consumeIndentN 0 = p := by
  simp [LP.consumeIndentN, LP.consumeIndent]

theorem ruleMatch_fenced (x : PExt) (p : LP) (c : UInt8) (n : Nat)
    (hs : p.state = stateDescending) (hl : p.container.label = fcLabel c n (-1)) :
    ruleMatch x BK.fencedCode p = if lpClosing p c n then some (false, p.consumeLine) else some (true, p) := by
  unfold ruleMatch
  simp only [BK.fencedCode, BK.document, BK.list, BK.listItem, BK.blockQuote]
  simp only [Nat.reduceBEq, Bool.false_or, Bool.false_eq_true, if_false, beq_self_eq_true, if_true]
  have hci : p.containerIndent = some 0 := by
    simp [LP.containerIndent, hs, hl, fcLabel, stateDescending, stateDescendTerminated]
  simp only [hci, Option.getD_some, Int.toNat_zero, Nat.not_lt_zero, if_false, consumeIndentN_zero, hl, fcLabel]
  rfl

theorem spineLength_doc1 (l l2 : PLabel) (is is2 : List Tree) : spineLength (.mk l [.mk l2 [] is2] is) = 1 := by
  simp [spineLength]

/-- `descendOpenBlocks` on a document whose only child is an open fenced code block: not a closing fence. -/
theorem descend_fenced_cont (x : PExt) (p : LP) (c : UInt8) (n : Nat) (inl : List Tree)
    (hroot : p.root = docRoot [fcOpen c n inl])
    (hnc : lpClosing { p with depth := 1, state := stateDescending } c n = false) :
    descendOpenBlocks x p = (true, { p with depth := 1, state := stateDescending }) := by
  obtain ⟨source, root, depth, lineStart, line, i, col, tabRem, tabPartial, state, panic⟩ := p
  simp only at hroot
  subst hroot
  unfold descendOpenBlocks
  simp only [docRoot, fcOpen, spineLength_doc1]
  rw [descendLoop]
  simp only [spineGet, List.getLast?_singleton]
  have ho : (PB.mk (fcLabel c n (-1)) [] inl).isOpen = true := by simp [PB.isOpen, PB.label, fcLabel]
  simp only [ho, Bool.not_true, Bool.false_eq_true, if_false]
  have hk : (PB.mk (fcLabel c n (-1)) [] inl).kind = BK.fencedCode := rfl
  rw [hk, ruleMatch_fenced x _ c n rfl (by simp [LP.container, spineGet, PB.label])]
  simp only [docRoot, fcOpen] at hnc
  simp only [hnc, Bool.false_eq_true, if_false]
  simp only [stateDescending, stateDescendTerminated, Nat.reduceBEq, Bool.false_eq_true, if_false, Bool.not_true]
  rw [descendLoop]
  simp [spineGet]

theorem openNew_fenced (x : PExt) (p : LP) (c : UInt8) (n : Nat) (inl : List Tree)
    (hroot : p.root = docRoot [fcOpen c n inl]) (hd : p.depth = 1) (hne : p.line ≠ []) :
    openNewBlocks x p true = (true, p) := by
  obtain ⟨source, root, depth, lineStart, line, i, col, tabRem, tabPartial, state, panic⟩ := p
  simp only at hroot hd hne
  subst hroot hd
  unfold openNewBlocks
  have : line.isEmpty = false := by cases line <;> simp_all
  simp only [this, Bool.false_eq_true, if_false]
  rw [show line.length + 8 = (line.length + 7) + 1 from rfl, openingLoop]
  simp [LP.containerKind, LP.container, docRoot, fcOpen, spineGet, PB.kind, PB.label, fcLabel, BK.fencedCode, BK.paragraph, acceptsLines]

theorem addLineText_fenced (x : PExt) (p : LP) (c : UInt8) (n : Nat) (inl : List Tree)
    (hroot : p.root = docRoot [fcOpen c n inl]) (hd : p.depth = 1) (htp : p.tabPartial = false)
    (hlf : hasByteSuffix p.line [LF] = true) :
    addLineText x p = { p with root := docRoot [fcOpen c n (inl ++ [mkInline IK.text (p.lineStart + p.i) (p.lineStart + p.line.length)])] } := by
  obtain ⟨source, root, depth, lineStart, line, i, col, tabRem, tabPartial, state, panic⟩ := p
  simp only at hroot hd htp hlf
  subst hroot hd htp
  unfold addLineText
  simp [LP.containerKind, LP.container, docRoot, fcOpen, spineGet, spineModify, PB.kind, PB.label, fcLabel, setBlankFlags, 
    BK.fencedCode, BK.blockQuote, BK.listItem, BK.indentedCode, acceptsLines, LP.appendInline, LP.modifyContainer, hlf]

/-- A content line of an open top-level fenced code block appends exactly one Text node (the rest of the line). -/
theorem processLine_fenced_cont (x : PExt) (p : LP) (c : UInt8) (n : Nat) (inl : List Tree)
    (hroot : p.root = docRoot [fcOpen c n inl]) (htp : p.tabPartial = false)
    (hlf : hasByteSuffix p.line [LF] = true) (hne : p.line ≠ [])
    (hnc : lpClosing { p with depth := 1, state := stateDescending } c n = false) :
    processLine x p = { p with depth := 1, state := stateDescending,
                               root := docRoot [fcOpen c n (inl ++ [mkInline IK.text (p.lineStart + p.i) (p.lineStart + p.line.length)])] } := by
  unfold processLine
  rw [descend_fenced_cont x p c n inl hroot hnc]
  simp only [show (stateDescending == stateDescendTerminated) = false from rfl, Bool.false_eq_true, if_false]
  rw [openNew_fenced x { p with depth := 1, state := stateDescending } c n inl hroot rfl hne]
  simp only [if_true]
  rw [addLineText_fenced x { p with depth := 1, state := stateDescending } c n inl hroot rfl htp hlf]

theorem closeBlock_fenced (x : PExt) (src : Bytes) (e : Int) (c : UInt8) (n : Nat) (inl : List Tree) :
    closeBlock x src e (fcOpen c n inl) = [.mk (fcLabel c n e) [] inl] := by
  rw [fcOpen, closeBlock]
  simp [fcLabel, BK.fencedCode, BK.list, BK.paragraph, BK.setextHeading, BK.indentedCode, closeLast]

/-- The closing fence closes the block at the end of the line. -/
theorem processLine_fenced_close (x : PExt) (p : LP) (c : UInt8) (n : Nat) (inl : List Tree)
    (hroot : p.root = docRoot [fcOpen c n inl]) (hc : CurOK p)
    (hcl : lpClosing { p with depth := 1, state := stateDescending } c n = true) :
    (processLine x p).root = docRoot [.mk (fcLabel c n (p.lineStart + p.line.length)) [] inl]
      ∧ (processLine x p).panic = p.panic := by
  obtain ⟨source, root, depth, lineStart, line, i, col, tabRem, tabPartial, state, panic⟩ := p
  simp only at hroot
  subst hroot
  have hc' : CurOK { source := source, root := docRoot [fcOpen c n inl], depth := 1, lineStart := lineStart, line := line, i := i,
                     col := col, tabRem := tabRem, tabPartial := tabPartial, state := stateDescending, panic := panic } :=
    ⟨hc.hi, hc.htab⟩
  have cl := consumeLine_post _ hc'
  unfold processLine descendOpenBlocks
  simp only [docRoot, fcOpen, spineLength_doc1]
  rw [descendLoop]
  simp only [spineGet, List.getLast?_singleton]
  have ho : (PB.mk (fcLabel c n (-1)) [] inl).isOpen = true := by simp [PB.isOpen, PB.label, fcLabel]
  simp only [ho, Bool.not_true, Bool.false_eq_true, if_false]
  have hk : (PB.mk (fcLabel c n (-1)) [] inl).kind = BK.fencedCode := rfl
  rw [hk, ruleMatch_fenced x _ c n rfl (by simp [LP.container, spineGet, PB.label])]
  simp only [docRoot, fcOpen] at hcl cl
  simp only [hcl, if_true]
  generalize LP.consumeLine _ = q at cl ⊢
  have hst : q.state = stateDescendTerminated := by
    rw [cl.state]; split <;> rfl
  have htree := cl.tree
  have hi := cl.i
  have hp := cl.panic
  simp only [tree, Prod.mk.injEq] at htree
  obtain ⟨h1, h2, h3, h4⟩ := htree
  obtain ⟨qsource, qroot, qdepth, qlineStart, qline, qi, qcol, qtabRem, qtabPartial, qstate, qpanic⟩ := q
  simp only at hst h1 h2 h3 h4 hi hp
  subst hst h1 h2 h3 h4 hi hp
  simp only [beq_self_eq_true, if_true]
  have := closeBlock_fenced x qsource (qlineStart + line.length : Nat) c n inl
  simp only [fcOpen, Int.natCast_add] at this
  simp [LP.closeContainer, spineReplaceLast, spineModify, this]
