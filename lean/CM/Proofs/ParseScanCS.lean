import CM.Proofs.InlNpBase
import CM.Proofs.InlSpanDefs
/-
C02 / C04, inline halves, for the whole of `Parse` — the pieces of a code span under construction (`CSN`) as a chain
(`CsChainL`: in order inside `[lo, hi]`, Text pieces not empty), and **`csAddSpan`** (`csAddSpan_W`): slicing `[a, b)` off the
source and cutting its line ending off appends to the chain and does not panic.
-/
namespace CM.Proofs.PSc
open CM CM.Model CM.Model.Inl CM.Gen CM.Proofs CM.Proofs.InlH
open Std.Do

set_option mvcgen.warning false

/-- The pieces are Text / Indent, in order inside `[lo, hi]`, Text pieces not empty. -/
def CsChainL : Int → Int → List CSN → Prop
  | lo, hi, [] => lo ≤ hi
  | lo, hi, n :: rest =>
    lo ≤ n.start ∧ (n.kind = IK.text ∨ n.kind = IK.indent) ∧ (n.kind = IK.text → n.start < n.stop) ∧ n.start ≤ n.stop ∧
      CsChainL n.stop hi rest

theorem CsChainL.le : ∀ {l : List CSN} {lo hi : Int}, CsChainL lo hi l → lo ≤ hi
  | [], _, _, h => h
  | n :: rest, _, _, h => by
    obtain ⟨h1, _, _, h4, h5⟩ := h
    have := CsChainL.le h5
    omega

theorem CsChainL.mono : ∀ {l : List CSN} {lo hi lo' hi' : Int}, CsChainL lo hi l → lo' ≤ lo → hi ≤ hi' → CsChainL lo' hi' l
  | [], _, _, _, _, h, h1, h2 => by unfold CsChainL at *; omega
  | n :: rest, _, _, _, _, h, h1, h2 => by
    obtain ⟨g1, g2, g3, g4, g5⟩ := h
    exact ⟨by omega, g2, g3, g4, g5.mono (Int.le_refl _) h2⟩

theorem CsChainL_append : ∀ {xs ys : List CSN} {lo hi : Int},
    CsChainL lo hi (xs ++ ys) ↔ ∃ m, CsChainL lo m xs ∧ CsChainL m hi ys
  | [], ys, lo, hi => by
    constructor
    · intro h; exact ⟨lo, Int.le_refl _, h⟩
    · rintro ⟨m, h1, h2⟩; exact h2.mono h1 (Int.le_refl _)
  | n :: rest, ys, lo, hi => by
    rw [List.cons_append]
    constructor
    · rintro ⟨g1, g2, g3, g4, g5⟩
      obtain ⟨m, a, b⟩ := CsChainL_append.1 g5
      exact ⟨m, ⟨g1, g2, g3, g4, a⟩, b⟩
    · rintro ⟨m, ⟨g1, g2, g3, g4, a⟩, b⟩
      exact ⟨g1, g2, g3, g4, CsChainL_append.2 ⟨m, a, b⟩⟩

theorem CsChainL.snoc {l : List CSN} {lo m : Int} (h : CsChainL lo m l) (n : CSN) (h1 : m ≤ n.start)
    (h2 : n.kind = IK.text ∨ n.kind = IK.indent) (h3 : n.kind = IK.text → n.start < n.stop) (h4 : n.start ≤ n.stop) :
    CsChainL lo n.stop (l ++ [n]) :=
  CsChainL_append.2 ⟨m, h, h1, h2, h3, h4, Int.le_refl _⟩

/-- the pieces as trees -/
theorem CsChainL.wfl : ∀ {l : List CSN} {lo hi : Int}, CsChainL lo hi l → WFL lo hi (l.map CSN.toTree)
  | [], _, _, h => (WFL_nil _ _).2 h
  | n :: rest, _, _, h => by
    obtain ⟨g1, _, _, g4, g5⟩ := h
    rw [List.map_cons, WFL_cons]
    exact ⟨g1, WFT_leaf _ g4, g5.wfl⟩

/-- the same for arrays -/
def CsChain (lo hi : Int) (a : Array CSN) : Prop := CsChainL lo hi a.toList

theorem CsChain.empty {lo hi : Int} (h : lo ≤ hi) : CsChain lo hi #[] := h

theorem CsChain.push {a : Array CSN} {lo m : Int} (h : CsChain lo m a) (n : CSN) (h1 : m ≤ n.start)
    (h2 : n.kind = IK.text ∨ n.kind = IK.indent) (h3 : n.kind = IK.text → n.start < n.stop) (h4 : n.start ≤ n.stop) :
    CsChain lo n.stop (a.push n) := by
  unfold CsChain
  rw [Array.toList_push]
  exact CsChainL.snoc h n h1 h2 h3 h4

theorem spanLenI_pos {a b : Int} (h : spanLenI a b > 0) : a < b := by
  unfold spanLenI at h
  split at h
  · rename_i hc
    simp only [Bool.and_eq_true, decide_eq_true_eq] at hc
    omega
  · omega

theorem spanLenI_of_lt {a b : Int} (h0 : 0 ≤ a) (h : a < b) : spanLenI a b > 0 := by
  unfold spanLenI
  rw [if_pos (by simp only [Bool.and_eq_true, decide_eq_true_eq]; omega)]
  omega

/-- **`csAddSpan`** appends the slice `[a, b)` (a Text piece, then its line ending as an Indent piece) to the chain. -/
theorem csAddSpan_W (c : ICtx) (acc : Array CSN) (a b lo : Int) (s0 : IState) :
    ⦃fun s => ⌜s = s0 ∧ 0 ≤ a ∧ a ≤ b ∧ b ≤ c.srcA.size ∧ CsChain lo a acc⌝⦄ csAddSpan c acc a b
    ⦃⇓! r s => ⌜s = s0 ∧ CsChain lo b r⌝⦄ := by
  apply (triple_iff_postNP _ _ _).2
  intro s hs
  obtain ⟨rfl, h0, h1, h2, hch⟩ := hs
  unfold csAddSpan
  rw [if_neg (by simp only [Bool.or_eq_true, decide_eq_true_eq]; omega)]
  simp only []
  -- the trimmed length
  generalize htr : (if (decide (b - a ≥ 2) && (if b - a ≥ 2 then c.srcA[(b - 2).toNat]! else 0) == CR &&
      (if b - a ≥ 1 then c.srcA[(b - 1).toNat]! else 0) == LF) = true then (2 : Int)
    else if (decide (b - a ≥ 1) && ((if b - a ≥ 1 then c.srcA[(b - 1).toNat]! else 0) == LF ||
      (if b - a ≥ 1 then c.srcA[(b - 1).toNat]! else 0) == CR)) = true then 1 else 0) = trim
  have htrim : 0 ≤ trim ∧ trim ≤ b - a := by
    rw [← htr]
    by_cases h2' : b - a ≥ 2
    · split
      · omega
      · split <;> omega
    · rw [if_neg (by simp [h2'])]
      by_cases h1'' : b - a ≥ 1
      · split <;> omega
      · rw [if_neg (by simp [h1''])]
        omega
  refine ⟨rfl, ?_⟩
  have h1' : CsChain lo (b - trim) (if spanLenI a (b - trim) > 0 then
      acc.push { kind := IK.text, start := a, stop := b - trim } else acc) := by
    split
    · rename_i hl
      have := spanLenI_pos hl
      exact hch.push { kind := IK.text, start := a, stop := b - trim } (Int.le_refl _) (Or.inl rfl) (fun _ => this)
        (by simp only []; omega)
    · rename_i hl
      have : ¬ a < b - trim := fun hlt => hl (spanLenI_of_lt h0 hlt)
      unfold CsChain at hch ⊢
      exact hch.mono (Int.le_refl _) (by omega)
  split
  · rename_i ht
    have := h1'.push { kind := IK.indent, start := b - trim, stop := b - trim + trim, indent := 1 } (Int.le_refl _)
      (Or.inr rfl) (fun h => by cases h) (by simp only []; omega)
    simp only [] at this
    have e : b - trim + trim = b := by omega
    rw [e] at this
    rw [e]
    exact this
  · rename_i ht
    have : trim = 0 := by omega
    subst this
    simpa using h1'

end CM.Proofs.PSc
