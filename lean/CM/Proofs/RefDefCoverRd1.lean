import CM.Proofs.RefDefCoverDef
import CM.Proofs.RefDefSpansRd6
import CM.Proofs.CoverageCheck
/-
C03, block half — discharging `RefDefCoverOK` for paragraphs made of lines, part 1: the byte reader again.

`Ctx2 src is`: on top of `RDS.Ctx` the inline children are leaves of kind Unparsed or Indent and satisfy `NodeX`.
Then `next` is described exactly (`next_cases`: four cases), the positions a `next` jumps over are covered by no inline
child (`next_gap`), a reader that has died is past all inline children (`RI2`), and a byte the reader sees that need
not be covered is a byte of the source that need not be covered (`cur_not_need`): `step_NN`.
-/
namespace CM.Proofs.RDC
open CM CM.Model CM.Gen CM.Proofs CM.Proofs.BSp CM.Proofs.RDS CM.Proofs.Cov

/-- The inline children of the paragraph (strong version). -/
structure Ctx2 (src : Bytes) (is : List Tree) : Prop where
  base : Ctx src is
  leaf : ∀ t ∈ is, t.children = [] ∧ t.label.isBlock = false
  kind : ∀ t ∈ is, isIndent t = true ∨ isUnparsed t = true
  x : ∀ t ∈ is, NodeX src t

theorem Ctx2.drop {src : Bytes} {is : List Tree} (h : Ctx2 src is) (k : Nat) : Ctx2 src (is.drop k) :=
  ⟨h.base.drop k, fun t ht => h.leaf t (List.mem_of_mem_drop ht), fun t ht => h.kind t (List.mem_of_mem_drop ht),
    fun t ht => h.x t (List.mem_of_mem_drop ht)⟩

/-! ### what the inline children cover -/

theorem covT_of_leaf {t : Tree} (h : t.children = [] ∧ t.label.isBlock = false) (j : Nat) :
    covT t j = (decide (t.label.start ≤ (j : Int)) && decide ((j : Int) < t.label.stop)) := by
  obtain ⟨l, cs⟩ := t
  simp only [Tree.children, Tree.label] at h
  obtain ⟨rfl, hb⟩ := h
  exact covT_leaf l j hb

theorem covTs_leaves {is : List Tree} (hl : ∀ t ∈ is, t.children = [] ∧ t.label.isBlock = false) (j : Nat) :
    covTs is j = true ↔ ∃ t ∈ is, t.label.start ≤ (j : Int) ∧ (j : Int) < t.label.stop := by
  rw [covTs_iff]
  constructor
  · rintro ⟨t, ht, hc⟩
    rw [covT_of_leaf (hl t ht)] at hc
    simp only [Bool.and_eq_true, decide_eq_true_eq] at hc
    exact ⟨t, ht, hc⟩
  · rintro ⟨t, ht, hc⟩
    refine ⟨t, ht, ?_⟩
    rw [covT_of_leaf (hl t ht)]
    simp only [Bool.and_eq_true, decide_eq_true_eq]
    exact hc

/-- No inline child covers a position of `[p, q)`. -/
def Unc (is : List Tree) (p q : Nat) : Prop := ∀ j, p ≤ j → j < q → covTs is j = false

/-- No position of `[p, q)` that an inline child covers needs to be covered. -/
def NN (src : Bytes) (is : List Tree) (p q : Nat) : Prop :=
  ∀ j, p ≤ j → j < q → covTs is j = true → need (src.getD j 0) = false

theorem Unc.nn {src : Bytes} {is : List Tree} {p q : Nat} (h : Unc is p q) : NN src is p q := by
  intro j h1 h2 h3
  rw [h j h1 h2] at h3; cases h3

theorem NN.trans {src : Bytes} {is : List Tree} {p q s : Nat} (h1 : NN src is p q) (h2 : NN src is q s) : NN src is p s := by
  intro j a b c
  by_cases hj : j < q
  · exact h1 j a hj c
  · exact h2 j (by omega) b c

theorem NN.refl (src : Bytes) (is : List Tree) (p : Nat) : NN src is p p := fun j a b _ => by omega

theorem NN.of_le {src : Bytes} {is : List Tree} {p q : Nat} (h : q ≤ p) : NN src is p q := fun j a b _ => by omega

theorem NN.sub {src : Bytes} {is : List Tree} {p q p' q' : Nat} (h : NN src is p q) (h1 : p ≤ p') (h2 : q' ≤ q) :
    NN src is p' q' := fun j a b c => h j (by omega) (by omega) c

theorem Unc.sub {is : List Tree} {p q p' q' : Nat} (h : Unc is p q) (h1 : p ≤ p') (h2 : q' ≤ q) : Unc is p' q' :=
  fun j a b => h j (by omega) (by omega)

theorem Unc.of_le {is : List Tree} {p q : Nat} (h : q ≤ p) : Unc is p q := fun j a b => by omega

/-! ### the structure of the list around the reader's node -/

variable {src : Bytes} {is : List Tree} {r : Rd}

theorem drop_split {k : Nat} {l : List Tree} (e : is.drop k = l) : is = is.take k ++ l := by
  rw [← e, List.take_append_drop]

/-- Every inline child ends at or before the end of the last one. -/
theorem all_le_last (hc : Ctx src is) {k : Nat} {t : Tree} (e : is.drop k = [t]) :
    ∀ u ∈ is, u.label.stop ≤ t.label.stop := by
  intro u hu
  have hso := hc.sorted
  rw [drop_split e] at hu hso
  have hp := List.pairwise_append.mp hso
  rcases List.mem_append.mp hu with h | h
  · have := hp.2.2 u h t List.mem_cons_self
    have := (hc.ok t (List.mem_of_mem_drop (by rw [e]; exact List.mem_cons_self))).1
    omega
  · simp only [List.mem_singleton] at h
    subst h; exact Int.le_refl _

/-- Between two adjacent inline children there is nothing. -/
theorem adjacent (hc : Ctx src is) {k : Nat} {t t' : Tree} {rest' : List Tree} (e : is.drop k = t :: t' :: rest') :
    ∀ u ∈ is, u.label.stop ≤ t.label.stop ∨ t'.label.start ≤ u.label.start := by
  intro u hu
  have hso := hc.sorted
  rw [drop_split e] at hu hso
  have hp := List.pairwise_append.mp hso
  have ht1 := (hc.ok t (List.mem_of_mem_drop (by rw [e]; exact List.mem_cons_self))).1
  have ht2 := (hc.ok t' (List.mem_of_mem_drop (by rw [e]; simp))).1
  rcases List.mem_append.mp hu with h | h
  · have := hp.2.2 u h t List.mem_cons_self
    left; omega
  · rcases List.mem_cons.mp h with rfl | h
    · left; exact Int.le_refl _
    · rcases List.mem_cons.mp h with rfl | h
      · right; exact Int.le_refl _
      · have h2 := (List.pairwise_cons.mp (List.pairwise_cons.mp hp.2.1).2).1 u h
        right; omega

theorem nextTextNode_cons2 {t' : Tree} {rest' : List Tree} (hk : isIndent t' = true ∨ isUnparsed t' = true) :
    nextTextNode (t' :: rest') = some (t', t' :: rest') := by
  unfold nextTextNode
  have : (Node.isI t' IK.unparsed || Node.isI t' IK.text || Node.isI t' IK.indent) = true := by
    rcases hk with h | h
    · have h' : Node.isI t' IK.indent = true := h
      rw [h']; simp
    · have h' : Node.isI t' IK.unparsed = true := h
      rw [h']; simp
  rw [if_pos this]

/-- The four cases of `next` on a live, normalised reader. -/
theorem next_cases (hc : Ctx2 src is) (h : RI src is r) {t : Tree} {rest : List Tree} (hs : r.spans = t :: rest) :
    (isIndent t = true ∧ (r.vpos : Int) < t.label.indent ∧
      r.next src = (true, { r with prev := r.pos, vpos := r.vpos + 1 })) ∨
    (isIndent t = false ∧ (r.pos : Int) + 1 < t.label.stop ∧
      r.next src = (true, { r with prev := r.pos, pos := r.pos + 1,
                                   vpos := if src.getD r.pos 1 == 0 && src.getD (r.pos + 1) 1 == 0
                                     then (r.vpos + 1) % nullReplacementString.length else 0 })) ∨
    ((r.pos : Int) + 1 = t.label.stop ∧ rest = [] ∧
      r.next src = (false, { spans := [], prev := r.pos, pos := r.pos + 1, vpos := r.vpos })) ∨
    ((r.pos : Int) + 1 = t.label.stop ∧ ∃ t' rest', rest = t' :: rest' ∧
      r.next src = (true, { spans := rest, prev := r.pos, pos := t'.label.start.toNat,
                            vpos := computeNullVirtualPosition src t'.label.start.toNat })) := by
  have hn := h.norm t rest hs
  have htm := h.head_mem hs
  have hok := hc.base.ok t htm
  rw [next_live hc.base h hs]
  by_cases c1 : (isIndent t && decide ((r.vpos : Int) < t.label.indent)) = true
  · rw [if_pos c1]
    simp only [Bool.and_eq_true, decide_eq_true_eq] at c1
    exact Or.inl ⟨c1.1, c1.2, rfl⟩
  · rw [if_neg c1]
    by_cases c2 : (!isIndent t && decide (((r.pos + 1 : Nat) : Int) < t.label.stop)) = true
    · rw [if_pos c2]
      simp only [Bool.and_eq_true, Bool.not_eq_eq_eq_not, Bool.not_true, decide_eq_true_eq] at c2
      exact Or.inr (Or.inl ⟨c2.1, by omega, rfl⟩)
    · rw [if_neg c2]
      have hstop : (r.pos : Int) + 1 = t.label.stop := by
        cases hi : isIndent t
        · simp only [hi, Bool.not_false, Bool.true_and, decide_eq_true_eq] at c2
          omega
        · have := hok.2.2.1 hi; omega
      cases rest with
      | nil => exact Or.inr (Or.inr (Or.inl ⟨hstop, rfl, rfl⟩))
      | cons t' rest' =>
        have ht' : t' ∈ is := h.mem (by rw [hs]; simp)
        rw [nextTextNode_cons2 (hc.kind t' ht')]
        exact Or.inr (Or.inr (Or.inr ⟨hstop, t', rest', rfl, rfl⟩))

/-! ### the strong reader invariant -/

/-- Normalised, and a dead reader is past all inline children. -/
structure RI2 (src : Bytes) (is : List Tree) (r : Rd) : Prop where
  ri : RI src is r
  past : r.spans = [] → ∀ u ∈ is, u.label.stop ≤ (r.pos : Int)

theorem RI2.next (hc : Ctx2 src is) (h : RI2 src is r) : RI2 src is (r.next src).2 := by
  refine ⟨(next_spec hc.base h.ri).1, ?_⟩
  cases hs : r.spans with
  | nil =>
    rw [next_dead hc.base h.ri hs]
    exact fun _ => h.past hs
  | cons t rest =>
    obtain ⟨k, hk⟩ := h.ri.suf
    rcases next_cases hc h.ri hs with ⟨_, _, e⟩ | ⟨_, _, e⟩ | ⟨h1, h2, e⟩ | ⟨_, t', rest', h2, e⟩
    · rw [e]; intro hd
      have hd' : r.spans = [] := hd
      rw [hs] at hd'; cases hd'
    · rw [e]; intro hd
      have hd' : r.spans = [] := hd
      rw [hs] at hd'; cases hd'
    · rw [e]; intro _ u hu
      subst h2
      have := all_le_last hc.base (by rw [← hk, hs]) u hu
      show u.label.stop ≤ ((r.pos + 1 : Nat) : Int)
      omega
    · rw [e]; intro hd
      have hd' : rest = [] := hd
      rw [h2] at hd'; cases hd'

theorem RI2.cur (hc : Ctx2 src is) (h : RI2 src is r) : RI2 src is (r.current src).2 := by
  rw [current_snd hc.base h.ri]; exact h

/-- The positions a `next` jumps over are covered by no inline child. -/
theorem next_gap (hc : Ctx2 src is) (h : RI src is r) {b : Bool} {r' : Rd} (e : r.next src = (b, r')) :
    Unc is (r.pos + 1) r'.pos := by
  cases hs : r.spans with
  | nil =>
    rw [next_dead hc.base h hs] at e
    simp only [Prod.mk.injEq] at e
    rw [← e.2]; exact Unc.of_le (by omega)
  | cons t rest =>
    obtain ⟨k, hk⟩ := h.suf
    rcases next_cases hc h hs with ⟨_, _, e'⟩ | ⟨_, _, e'⟩ | ⟨_, _, e'⟩ | ⟨h1, t', rest', h2, e'⟩
    · rw [e'] at e; simp only [Prod.mk.injEq] at e; rw [← e.2]; exact Unc.of_le (by show r.pos ≤ r.pos + 1; omega)
    · rw [e'] at e; simp only [Prod.mk.injEq] at e; rw [← e.2]; exact Unc.of_le (by show r.pos + 1 ≤ r.pos + 1; omega)
    · rw [e'] at e; simp only [Prod.mk.injEq] at e; rw [← e.2]; exact Unc.of_le (by show r.pos + 1 ≤ r.pos + 1; omega)
    · rw [e'] at e; simp only [Prod.mk.injEq] at e; rw [← e.2]
      intro j hj1 hj2
      have hj2' : j < t'.label.start.toNat := hj2
      cases hcv : covTs is j with
      | false => rfl
      | true =>
        exfalso
        obtain ⟨u, hu, hu1, hu2⟩ := (covTs_leaves hc.leaf j).mp hcv
        subst h2
        rcases adjacent hc.base (by rw [← hk, hs]) u hu with h3 | h3 <;> omega

/-- A live reader that sees a byte that need not be covered stands on a source byte that need not be covered. -/
theorem cur_not_need (hc : Ctx2 src is) (h : RI src is r) {t : Tree} {rest : List Tree} (hs : r.spans = t :: rest)
    (hn : need (r.current src).1 = false) : need (src.getD r.pos 0) = false := by
  have hnorm := h.norm t rest hs
  have htm := h.head_mem hs
  rw [current_live hc.base h hs] at hn
  cases hi : isIndent t
  · rw [hi] at hn
    simp only [Bool.false_eq_true, if_false] at hn
    split at hn
    · exfalso
      have hv := h.vp t rest hs hi
      have : r.vpos = 0 ∨ r.vpos = 1 ∨ r.vpos = 2 := by omega
      rcases this with e | e | e <;> rw [e] at hn <;> revert hn <;> decide +kernel
    · exact hn
  · have h1 := (hc.base.ok t htm).2.2.1 hi
    have h0 := hc.base.nn t htm
    have hp : t.label.start.toNat = r.pos := by omega
    have := (hc.x t htm).1 hi
    rw [hp] at this
    rw [this]; decide +kernel

/-- The source byte under a live reader outside an Indent node, when the reader sees an ASCII byte. -/
theorem cur_byte (hc : Ctx2 src is) (h : RI src is r) {t : Tree} {rest : List Tree} (hs : r.spans = t :: rest)
    (hi : isIndent t = false) (hlt : (r.current src).1 < 128) : src.getD r.pos 0 = (r.current src).1 := by
  rw [current_live hc.base h hs, hi] at hlt ⊢
  simp only [Bool.false_eq_true, if_false] at hlt ⊢
  split at hlt
  · exfalso
    have hv := h.vp t rest hs hi
    have : r.vpos = 0 ∨ r.vpos = 1 ∨ r.vpos = 2 := by omega
    rcases this with e | e | e <;> rw [e] at hlt <;> revert hlt <;> decide
  · rename_i hz
    rw [if_neg hz]

/-- One `next` from a byte that need not be covered. -/
theorem step_NN (hc : Ctx2 src is) (h : RI src is r) (hn : need (r.current src).1 = false) {b : Bool} {r' : Rd}
    (e : r.next src = (b, r')) : NN src is r.pos r'.pos := by
  cases hs : r.spans with
  | nil =>
    rw [next_dead hc.base h hs] at e
    simp only [Prod.mk.injEq] at e
    rw [← e.2]; exact NN.refl _ _ _
  | cons t rest =>
    have h1 := cur_not_need hc h hs hn
    have h2 := next_gap hc h e
    intro j a b' c
    by_cases hj : j = r.pos
    · rw [hj]; exact h1
    · have := h2 j (by omega) b'
      rw [this] at c; cases c

end CM.Proofs.RDC
