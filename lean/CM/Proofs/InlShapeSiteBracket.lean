import CM.Proofs.InlShapeSiteTok
/-
The `SiteInv` chain, part 3: brackets (`lookForLinkOrImage`, `parseInlineLink`, `finishLink`, `parseEndBracket`).
(The proofs are those of `InlInvBracket.lean`.)
-/
namespace CM.Proofs.InlH
open CM CM.Model CM.Model.Inl
open Std.Do

set_option mvcgen.warning false

section
variable {c : ICtx} {φ : INode → Prop}

@[spec 20000]
theorem lookForLinkOrImage_specT :
    ⦃fun s => ⌜G φ s⌝⦄ lookForLinkOrImage ⦃⇓? _ s => ⌜G φ s⌝⦄ := by
  mvcgen [lookForLinkOrImage, -lookForLinkOrImage_spec, -lookForLinkOrImage_specS]
  inl_inv (G φ)
  inl_norm
  inl_triv

/-- `parseInlineLink` only moves `unparsedPos`. -/
@[spec 20000]
theorem parseInlineLink_specT (start : Int) :
    ⦃fun s => ⌜G φ s⌝⦄ parseInlineLink c start ⦃⇓? _ s => ⌜G φ s⌝⦄ := by
  mvcgen [parseInlineLink, setUnparsedPos, -parseInlineLink_spec, -parseInlineLink_specS]
  inl_triv
  all_goals (inl_subst; first | assumption | (inl_state; assumption))

@[spec 20000]
theorem finishLink_specT (hN : SiteInv c φ) (kind odi : Nat) :
    ⦃fun s => ⌜G φ s⌝⦄ finishLink kind odi ⦃⇓? _ s => ⌜G φ s⌝⦄ := by
  mvcgen [finishLink, -finishLink_spec, -finishLink_specS]
  all_goals (try (exact (PostCond.mayThrow (fun p s => ⌜G φ s ∧ StackOK s.nodes p.2⌝))))
  inl_norm
  inl_triv
  · obtain ⟨h, hst⟩ := ‹G φ _ ∧ StackOK _ _›
    exact ⟨h, StackOK.set!_upd hst _ _ rfl⟩
  · exact ⟨‹G φ _›, (‹G φ _›).stack⟩
  · obtain ⟨h, hst⟩ := ‹G φ _ ∧ StackOK _ _›
    inl_state
    exact GA.setStack h hst

/-- `appendFinished`, with the frame -/
@[spec 20000]
theorem appendFinished_specT (hN : SiteInv c φ) (parent : Nat) (n : INode) (hφ : φ n) (s0 : IState) :
    ⦃fun s => ⌜s = s0 ∧ G φ s⌝⦄ appendFinished parent n ⦃⇓? _ s => ⌜G φ s ∧ KExt s0.nodes s.nodes⌝⦄ := by
  mvcgen [appendFinished, alloc, modifyNode, -appendFinished_spec, -appendFinished_specS]
  obtain ⟨rfl, h⟩ := ‹_ = s0 ∧ G φ _›
  refine ⟨?_, ?_⟩
  · inl_modkidsT (GA.push h hφ) with hN
  · simp -failIfUnchanged +zetaDelta only []
    exact (KExt.push _ _).trans (KExt.modify _ _ (by intro _; rfl))

/-- the span (and reference) update of a fresh link: closes `G φ s'` -/
macro "inl_modlinkT " hN:term : tactic =>
  `(tactic| (
    inl_subst
    simp -failIfUnchanged +zetaDelta only [] at *
    first
      | (have hx := ‹G _ _ ∧ KExt _ _›
         have hy := ‹G _ _ ∧ KindP _ _ _›
         obtain ⟨h', he⟩ := hx
         obtain ⟨h, hk⟩ := hy
         show GA _ _ _
         try dsimp only
         refine GA.modifyK h' (hk.ext he) (by intro _; rfl) (fun n hn hk => ?_))
      | (have hy := ‹G _ _ ∧ KindP _ _ _›
         obtain ⟨h, hk⟩ := hy
         show GA _ _ _
         try dsimp only
         refine GA.modifyK h hk (by intro _; rfl) (fun n hn hk => ?_))
      | fail "inl_modlink: no fresh link in the context"
    have hk' : n.kind = IK.link ∨ n.kind = IK.image := by rw [hk]; exact linkKind_or _
    first
      | exact SiteInv.modLink $hN n _ _ _ hn hk' (Or.inl rfl)
      | (have hm := ‹¬(!ICtx.matchRef _ _) = true›
         simp only [Bool.not_eq_true', Bool.not_eq_true, Bool.not_eq_false] at hm
         exact SiteInv.modLink $hN n _ _ _ hn hk' (Or.inr hm))
      | fail "inl_modlink: modLink does not apply"))

@[spec 20000]
theorem parseEndBracket_specT (hN : SiteInv c φ) (start : Int) :
    ⦃fun s => ⌜G φ s⌝⦄ parseEndBracket c start ⦃⇓? _ s => ⌜G φ s⌝⦄ := by
  mvcgen [parseEndBracket, spanEnd, getNode, modifyNode, setUnparsedPos, -parseEndBracket_spec, -parseEndBracket_specS]
  inl_triv
  all_goals first
    | (intro _; exact hN.text _ _)
    | (simp -failIfUnchanged +zetaDelta only []; exact linkKind_wrap _)
    | (refine ⟨trivial, ?_⟩; inl_modlinkT hN)
    | (inl_modlinkT hN)
    | (inl_subst; subst_vars; simp -failIfUnchanged +zetaDelta only []
       first
        | (split
           · first | exact hN.linkDest _ _ _ _ _ _ _ | exact hN.linkTitle _ _ _ _ _ _ _
           · first | exact hN.linkDestEmpty _ _ | exact hN.linkTitleEmpty _ _)
        | (have hm := ‹¬(!ICtx.matchRef _ _) = true›
           simp only [Bool.not_eq_true', Bool.not_eq_false] at hm
           exact hN.linkLabel _ _ _ _ _ _ _ _ hm)
        | fail "parseEndBracket: unexpected condition")
    | skip

end

end CM.Proofs.InlH
