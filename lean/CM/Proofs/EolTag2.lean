import CM.Proofs.EolTag1
/-
HTML block start condition 7 and the line ending, part 2 — `parseHTMLAttribute`, `parseHTMLOpenTag`,
`parseHTMLClosingTag` on two readers that agree until one ends.
-/
namespace CM.Proofs
open CM CM.Model CM.Gen

/-! ### `parseHTMLAttribute` in three pieces -/

/-- After `=` (and a successful `next`): the attribute value. -/
def attrTail3 (src : Bytes) (fuel : Nat) (r : Rd) : Bool × Rd :=
  let (ok, r) := skipLinkSpace src fuel r
  if !ok then (false, r) else
  let (c, r) := r.current src
  if c == 0x27 || c == 0x22 then
    let (ok, r) := r.next src
    if !ok then (false, r) else quotedLoop src c fuel r
  else if isUnquotedAttributeValueChar c then (true, unquotedLoop src fuel r)
  else (false, r)

/-- After the attribute name: the optional value specification. -/
def attrTail2 (src : Bytes) (fuel : Nat) (prevState r : Rd) : Bool × Rd :=
  let (ok, r) := skipLinkSpace src fuel r
  if !ok then (true, prevState) else
  let (c, r) := r.current src
  if c != 0x3D then (true, prevState) else
  let (ok, r) := r.next src
  if !ok then (false, r) else attrTail3 src fuel r

/-- After the first byte of the name. -/
def attrTail1 (src : Bytes) (fuel : Nat) (r : Rd) : Bool × Rd :=
  let (cont, r) := attrNameLoop src fuel r
  if !cont then (true, r) else attrTail2 src fuel r r

theorem parseHTMLAttribute_eq (src : Bytes) (fuel : Nat) (r : Rd) :
    parseHTMLAttribute src fuel r =
      (let (c, r) := r.current src
       if !isASCIILetter c && c != 0x5F && c != 0x3A then (false, r) else
       let (ok, r) := r.next src
       if !ok then (true, r) else attrTail1 src fuel r) := rfl

section Dead
variable {s : Bytes} {D : Rd → Prop} (H : DeadRd s D)
include H

theorem dead_attrTail3 (f : Nat) (a : Rd) (h : D a) : (attrTail3 s f a).1 = false ∧ D (attrTail3 s f a).2 := by
  unfold attrTail3
  obtain ⟨k1, k2⟩ := dead_skipLinkSpace H f a h
  simp only [k1, Bool.not_false, if_true]
  exact ⟨trivial, k2⟩

theorem dead_attrTail2 (f : Nat) (prev a : Rd) (h : D a) : attrTail2 s f prev a = (true, prev) := by
  unfold attrTail2
  obtain ⟨k1, _⟩ := dead_skipLinkSpace H f a h
  simp only [k1, Bool.not_false, if_true]

theorem dead_attrTail1 (f : Nat) (a : Rd) (h : D a) : (attrTail1 s f a).1 = true ∧ D (attrTail1 s f a).2 := by
  unfold attrTail1
  have hd := dead_attrNameLoop H f a h
  generalize attrNameLoop s f a = res at hd
  obtain ⟨cont, r⟩ := res
  simp only [] at hd ⊢
  cases cont
  · exact ⟨rfl, hd⟩
  · simp only [Bool.not_true, Bool.false_eq_true, if_false]
    rw [dead_attrTail2 H f r r hd]
    exact ⟨rfl, hd⟩

end Dead

section Live
variable {s1 s2 : Bytes} {K : Nat} {L : Rd → Rd → Prop} {D1 D2 : Rd → Prop}
  (H : LiveRd s1 s2 K L D1 D2) (H1 : DeadRd s1 D1) (H2 : DeadRd s2 D2)
include H H1 H2

theorem live_attrTail3 (f1 f2 : Nat) (a b : Rd) (hL : L a b) (hf1 : K - b.pos < f1) (hf2 : K - b.pos < f2) :
    (attrTail3 s1 f1 a).1 = (attrTail3 s2 f2 b).1 ∧ OutS L D1 D2 b.pos (attrTail3 s1 f1 a).2 (attrTail3 s2 f2 b).2 := by
  unfold attrTail3
  obtain ⟨k1, k2⟩ := live_skipLinkSpace H H1 H2 f1 f2 a b hL hf1 hf2
  generalize skipLinkSpace s1 f1 a = ra at k1 k2
  generalize skipLinkSpace s2 f2 b = rb at k1 k2
  obtain ⟨ok1, a1⟩ := ra
  obtain ⟨ok2, b1⟩ := rb
  simp only [] at k1 k2 ⊢
  subst k1
  cases ok1 with
  | false =>
    simp only [Bool.not_false, if_true]
    refine ⟨trivial, ?_⟩
    rcases k2 with k | ⟨k3, k4, _⟩
    · exact Or.inl k
    · exact Or.inr ⟨k3, k4⟩
  | true =>
    simp only [Bool.not_true, Bool.false_eq_true, if_false]
    rcases k2 with ⟨k3, k4⟩ | ⟨_, _, k5⟩
    · obtain ⟨c1, c2, c3⟩ := H.cur a1 b1 k3
      have hp := (H.pos a1 b1 k3).2
      rw [c1]
      by_cases hq : ((b1.current s2).1 == 0x27 || (b1.current s2).1 == 0x22) = true
      · rw [if_pos hq, if_pos hq]
        have hq' : (b1.current s2).1 = 0x27 ∨ (b1.current s2).1 = 0x22 := by simpa using hq
        rcases H.nxt _ _ c2 with ⟨n1, n2, n3, n4⟩ | ⟨n1, n2⟩
        · simp only [n1, n2, Bool.not_true, Bool.false_eq_true, if_false]
          obtain ⟨r1, r2⟩ := live_quotedLoop H H1 H2 _ hq' f1 f2 _ _ n3 (by rw [n4, c3]; omega) (by rw [n4, c3]; omega)
          exact ⟨r1, r2.mono (by rw [n4, c3]; omega)⟩
        · have e1 : ∀ r, D1 r → ∀ (ok : Bool),
              (if (!ok) = true then (false, r) else quotedLoop s1 (b1.current s2).1 f1 r).1 = false ∧
              D1 (if (!ok) = true then (false, r) else quotedLoop s1 (b1.current s2).1 f1 r).2 := by
            intro r hr ok
            cases ok
            · exact ⟨rfl, hr⟩
            · exact dead_quotedLoop H1 _ hq' _ _ hr
          have e2 : ∀ r, D2 r → ∀ (ok : Bool),
              (if (!ok) = true then (false, r) else quotedLoop s2 (b1.current s2).1 f2 r).1 = false ∧
              D2 (if (!ok) = true then (false, r) else quotedLoop s2 (b1.current s2).1 f2 r).2 := by
            intro r hr ok
            cases ok
            · exact ⟨rfl, hr⟩
            · exact dead_quotedLoop H2 _ hq' _ _ hr
          obtain ⟨x1, x2⟩ := e1 _ n1 (Rd.next s1 (a1.current s1).2).1
          obtain ⟨y1, y2⟩ := e2 _ n2 (Rd.next s2 (b1.current s2).2).1
          exact ⟨by rw [x1, y1], Or.inr ⟨x2, y2⟩⟩
      · rw [if_neg hq, if_neg hq]
        by_cases hu : isUnquotedAttributeValueChar (b1.current s2).1 = true
        · rw [if_pos hu, if_pos hu]
          refine ⟨rfl, ?_⟩
          have := live_unquotedLoop H H1 H2 f1 f2 _ _ c2 (by rw [c3]; omega) (by rw [c3]; omega)
          exact this.mono (by rw [c3]; omega)
        · rw [if_neg hu, if_neg hu]
          exact ⟨rfl, Or.inl ⟨c2, by rw [c3]; omega⟩⟩
    · cases k5

theorem live_attrTail2 (f1 f2 : Nat) (pa pb a b : Rd) (hP : L pa pb) (hL : L a b) (hpp : pb.pos ≤ b.pos)
    (hf1 : K - b.pos < f1) (hf2 : K - b.pos < f2) :
    (attrTail2 s1 f1 pa a).1 = (attrTail2 s2 f2 pb b).1 ∧
      OutS L D1 D2 pb.pos (attrTail2 s1 f1 pa a).2 (attrTail2 s2 f2 pb b).2 := by
  unfold attrTail2
  obtain ⟨k1, k2⟩ := live_skipLinkSpace H H1 H2 f1 f2 a b hL hf1 hf2
  generalize skipLinkSpace s1 f1 a = ra at k1 k2
  generalize skipLinkSpace s2 f2 b = rb at k1 k2
  obtain ⟨ok1, a1⟩ := ra
  obtain ⟨ok2, b1⟩ := rb
  simp only [] at k1 k2 ⊢
  subst k1
  cases ok1 with
  | false =>
    simp only [Bool.not_false, if_true]
    exact ⟨trivial, Or.inl ⟨hP, Nat.le_refl _⟩⟩
  | true =>
    simp only [Bool.not_true, Bool.false_eq_true, if_false]
    rcases k2 with ⟨k3, k4⟩ | ⟨_, _, k5⟩
    · obtain ⟨c1, c2, c3⟩ := H.cur a1 b1 k3
      have hp := (H.pos a1 b1 k3).2
      rw [c1]
      by_cases he : ((b1.current s2).1 != 0x3D) = true
      · rw [if_pos he, if_pos he]
        exact ⟨rfl, Or.inl ⟨hP, Nat.le_refl _⟩⟩
      · rw [if_neg he, if_neg he]
        rcases H.nxt _ _ c2 with ⟨n1, n2, n3, n4⟩ | ⟨n1, n2⟩
        · simp only [n1, n2, Bool.not_true, Bool.false_eq_true, if_false]
          obtain ⟨r1, r2⟩ := live_attrTail3 H H1 H2 f1 f2 _ _ n3 (by rw [n4, c3]; omega) (by rw [n4, c3]; omega)
          exact ⟨r1, r2.mono (by rw [n4, c3]; omega)⟩
        · have e1 : ∀ r, D1 r → ∀ (ok : Bool),
              (if (!ok) = true then (false, r) else attrTail3 s1 f1 r).1 = false ∧
              D1 (if (!ok) = true then (false, r) else attrTail3 s1 f1 r).2 := by
            intro r hr ok
            cases ok
            · exact ⟨rfl, hr⟩
            · exact dead_attrTail3 H1 _ _ hr
          have e2 : ∀ r, D2 r → ∀ (ok : Bool),
              (if (!ok) = true then (false, r) else attrTail3 s2 f2 r).1 = false ∧
              D2 (if (!ok) = true then (false, r) else attrTail3 s2 f2 r).2 := by
            intro r hr ok
            cases ok
            · exact ⟨rfl, hr⟩
            · exact dead_attrTail3 H2 _ _ hr
          obtain ⟨x1, x2⟩ := e1 _ n1 (Rd.next s1 (a1.current s1).2).1
          obtain ⟨y1, y2⟩ := e2 _ n2 (Rd.next s2 (b1.current s2).2).1
          exact ⟨by rw [x1, y1], Or.inr ⟨x2, y2⟩⟩
    · cases k5

theorem live_attrTail1 (f1 f2 : Nat) (a b : Rd) (hL : L a b) (hf1 : K - b.pos < f1) (hf2 : K - b.pos < f2) :
    (attrTail1 s1 f1 a).1 = (attrTail1 s2 f2 b).1 ∧ OutS L D1 D2 b.pos (attrTail1 s1 f1 a).2 (attrTail1 s2 f2 b).2 := by
  unfold attrTail1
  have hk := live_attrNameLoop H H1 H2 f1 f2 a b hL hf1 hf2
  generalize attrNameLoop s1 f1 a = ra at hk
  generalize attrNameLoop s2 f2 b = rb at hk
  obtain ⟨c1, a1⟩ := ra
  obtain ⟨c2, b1⟩ := rb
  simp only [] at hk ⊢
  rcases hk with ⟨k1, k2, k3⟩ | ⟨k1, k2⟩
  · subst k1
    cases c1 with
    | false => exact ⟨rfl, Or.inl ⟨k2, k3⟩⟩
    | true =>
      simp only [Bool.not_true, Bool.false_eq_true, if_false]
      have hp := (H.pos a1 b1 k2).2
      obtain ⟨r1, r2⟩ := live_attrTail2 H H1 H2 f1 f2 a1 b1 a1 b1 k2 k2 (Nat.le_refl _) (by omega) (by omega)
      exact ⟨r1, r2.mono k3⟩
  · have e1 : ((if (!c1) = true then (true, a1) else attrTail2 s1 f1 a1 a1) : Bool × Rd) = (true, a1) := by
      cases c1
      · rfl
      · simp only [Bool.not_true, Bool.false_eq_true, if_false]; exact dead_attrTail2 H1 _ _ _ k1
    have e2 : ((if (!c2) = true then (true, b1) else attrTail2 s2 f2 b1 b1) : Bool × Rd) = (true, b1) := by
      cases c2
      · rfl
      · simp only [Bool.not_true, Bool.false_eq_true, if_false]; exact dead_attrTail2 H2 _ _ _ k2
    rw [e1, e2]
    exact ⟨rfl, Or.inr ⟨k1, k2⟩⟩

theorem live_attribute (f1 f2 : Nat) (a b : Rd) (hL : L a b) (hf1 : K - b.pos < f1) (hf2 : K - b.pos < f2) :
    (parseHTMLAttribute s1 f1 a).1 = (parseHTMLAttribute s2 f2 b).1 ∧
      OutS L D1 D2 b.pos (parseHTMLAttribute s1 f1 a).2 (parseHTMLAttribute s2 f2 b).2 := by
  rw [parseHTMLAttribute_eq, parseHTMLAttribute_eq]
  obtain ⟨c1, c2, c3⟩ := H.cur a b hL
  have hp := (H.pos a b hL).2
  simp only []
  rw [c1]
  by_cases hn : (!isASCIILetter (b.current s2).1 && (b.current s2).1 != 0x5F && (b.current s2).1 != 0x3A) = true
  · rw [if_pos hn, if_pos hn]
    exact ⟨rfl, Or.inl ⟨c2, by rw [c3]; exact Nat.le_refl _⟩⟩
  · rw [if_neg hn, if_neg hn]
    rcases H.nxt _ _ c2 with ⟨n1, n2, n3, n4⟩ | ⟨n1, n2⟩
    · simp only [n1, n2, Bool.not_true, Bool.false_eq_true, if_false]
      obtain ⟨r1, r2⟩ := live_attrTail1 H H1 H2 f1 f2 _ _ n3 (by rw [n4, c3]; omega) (by rw [n4, c3]; omega)
      exact ⟨r1, r2.mono (by rw [n4, c3]; omega)⟩
    · have e1 : ∀ r, D1 r → ∀ (ok : Bool),
          (if (!ok) = true then (true, r) else attrTail1 s1 f1 r).1 = true ∧
          D1 (if (!ok) = true then (true, r) else attrTail1 s1 f1 r).2 := by
        intro r hr ok
        cases ok
        · exact ⟨rfl, hr⟩
        · exact dead_attrTail1 H1 _ _ hr
      have e2 : ∀ r, D2 r → ∀ (ok : Bool),
          (if (!ok) = true then (true, r) else attrTail1 s2 f2 r).1 = true ∧
          D2 (if (!ok) = true then (true, r) else attrTail1 s2 f2 r).2 := by
        intro r hr ok
        cases ok
        · exact ⟨rfl, hr⟩
        · exact dead_attrTail1 H2 _ _ hr
      obtain ⟨x1, x2⟩ := e1 _ n1 (Rd.next s1 (a.current s1).2).1
      obtain ⟨y1, y2⟩ := e2 _ n2 (Rd.next s2 (b.current s2).2).1
      exact ⟨by rw [x1, y1], Or.inr ⟨x2, y2⟩⟩

end Live

end CM.Proofs
