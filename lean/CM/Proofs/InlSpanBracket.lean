import CM.Proofs.InlSpanFinish
/-
C02, inline half — `parseEndBracket` keeps the span invariant (given the facts `LinkScan` about the link scanners).
-/
namespace CM.Proofs.InlH
open CM CM.Model CM.Model.Inl CM.Gen
open Std.Do

set_option mvcgen.warning false

/-- `lookForLinkOrImage`: either an index of the stack (state unchanged), or `-1` (an inactive opener may have been
    dropped from the stack). -/
@[spec 20000]
theorem lookForLinkOrImage_specP (s0 : IState) :
    ⦃fun s => ⌜s = s0⌝⦄ lookForLinkOrImage
    ⦃⇓? r s => ⌜(0 ≤ r ∧ r.toNat < s0.stack.size ∧ s = s0) ∨
        (r = -1 ∧ (s = s0 ∨ ∃ i, i < s0.stack.size ∧ s = delSt s0 i (i + 1)))⌝⦄ := by
  mvcgen [lookForLinkOrImage, delStack, -lookForLinkOrImage_spec, -lookForLinkOrImage_specS, -delStack_spec, -delStack_specS]
  case inv1 =>
    exact PostCond.mayThrow (fun (q : _ × (Option Int × Int)) s =>
      ⌜(q.1.suffix ≠ [] → q.2.1 = none) ∧
        (q.2.1 = none → s = s0 ∧ q.2.2 = (s0.stack.size : Int) - 1 - q.1.prefix.length) ∧
        (∀ r, q.2.1 = some r → (0 ≤ r ∧ r.toNat < s0.stack.size ∧ s = s0) ∨
          (r = -1 ∧ ∃ i, i < s0.stack.size ∧ s = delSt s0 i (i + 1)))⌝)
  inl_norm
  all_goals (try (exact fun h => h))
  all_goals (
    have hlen : ∀ (pref suff : List Nat) (cur n : Nat), [:n].toList = pref ++ cur :: suff → pref.length < n := by
      intro pref suff cur n h
      have := congrArg List.length h
      simp at this
      omega)
  · -- inactive opener: dropped
    obtain ⟨h0, h1, -⟩ := ‹(_ ≠ [] → _) ∧ (_ = none → _) ∧ _›
    obtain ⟨hs, hi⟩ := h1 (h0 (by simp))
    subst hs
    subst_vars
    have hl := hlen _ _ _ _ ‹_›
    refine ⟨fun h => absurd rfl h, (fun h => by cases h), fun r hr => Or.inr ⟨(Option.some.inj hr).symm, _, ?_, rfl⟩⟩
    simp -failIfUnchanged +zetaDelta only [] at *
    omega
  · -- active opener: found
    obtain ⟨h0, h1, -⟩ := ‹(_ ≠ [] → _) ∧ (_ = none → _) ∧ _›
    obtain ⟨hs, hi⟩ := h1 (h0 (by simp))
    subst hs
    subst_vars
    have hl := hlen _ _ _ _ ‹_›
    refine ⟨fun h => absurd rfl h, (fun h => by cases h), fun r hr => Or.inl ?_⟩
    have := Option.some.inj hr
    simp -failIfUnchanged +zetaDelta only [] at *
    subst this
    exact ⟨by omega, by omega, trivial⟩
  · -- next entry
    obtain ⟨h0, h1, -⟩ := ‹(_ ≠ [] → _) ∧ (_ = none → _) ∧ _›
    obtain ⟨hs, hi⟩ := h1 (h0 (by simp))
    refine ⟨fun _ => trivial, fun _ => ⟨hs, ?_⟩, fun r hr => by cases hr⟩
    simp -failIfUnchanged +zetaDelta only [List.length_append, List.length_singleton, List.length_cons, List.length_nil] at *
    omega
  · refine ⟨fun _ => trivial, fun _ => ⟨‹_›, ?_⟩, fun r hr => by cases hr⟩
    subst_vars
    simp -failIfUnchanged +zetaDelta only [List.length_nil]
    omega
  · obtain ⟨-, -, h2⟩ := ‹(_ ≠ [] → _) ∧ (_ = none → _) ∧ _›
    rcases h2 _ ‹_› with h | ⟨h, i, hi, hs⟩
    · exact Or.inl h
    · exact Or.inr ⟨h, Or.inr ⟨i, hi, hs⟩⟩
  · obtain ⟨-, h1, -⟩ := ‹(_ ≠ [] → _) ∧ (_ = none → _) ∧ _›
    exact Or.inr ⟨trivial, Or.inl (h1 ‹_›).1⟩

/-! ### positions -/

/-- `nodeIndexForPosition`: the node found contains the position. -/
theorem nodeIndex_spec : ∀ (l : List Tree) (pos k i : Nat), nodeIndexForPosition l pos k = some i →
    ∃ j, i = k + j ∧ j < l.length ∧ (l[j]!).label.start ≤ (pos : Int) ∧ (pos : Int) < (l[j]!).label.stop := by
  intro l
  induction l with
  | nil => intro pos k i h; simp [nodeIndexForPosition] at h
  | cons t rest ih =>
    intro pos k i h
    unfold nodeIndexForPosition at h
    split at h
    · cases h
    · split at h
      · rename_i hc
        cases h
        unfold spanContains at hc
        simp only [Bool.and_eq_true, decide_eq_true_eq] at hc
        exact ⟨0, rfl, by simp, by simpa using hc.1.2, by simpa using hc.2⟩
      · obtain ⟨j, e, hj, h1, h2⟩ := ih pos (k + 1) i h
        refine ⟨j + 1, by omega, by simp; omega, ?_, ?_⟩
        · simpa using h1
        · simpa using h2

/-- what the tokenizer needs to know about its position `r` after a construct: not beyond the end of the current
    run -/
def PosOK (c : ICtx) (s : IState) (r : Int) : Prop :=
  s.unparsedPos < c.unparsed.size → r ≤ (c.unparsed[s.unparsedPos]!).label.stop

theorem drop_get (c : ICtx) (hc : c.unparsed = c.unparsedL.toArray) (u j : Nat) (hj : j < (c.unparsedL.drop u).length) :
    (c.unparsedL.drop u)[j]! = c.unparsed[u + j]! := by
  rw [hc]
  simp only [List.length_drop] at hj
  rw [getElem!_pos _ j (by simp; omega), getElem!_pos _ (u + j) (by simp; omega)]
  simp

/-- after `setUnparsedPos (u + i)` for the node containing the last byte of a construct ending at `e` -/
theorem posOK_of_index (c : ICtx) (hc : c.unparsed = c.unparsedL.toArray) (u : Nat) (e : Int) (he : 1 ≤ e) (i : Nat)
    (h : nodeIndexForPosition (c.unparsedL.drop u) (e - 1).toNat 0 = some i) :
    e ≤ (c.unparsed[u + i]!).label.stop := by
  obtain ⟨j, e', hj, h1, h2⟩ := nodeIndex_spec _ _ _ _ h
  rw [drop_get c hc u j hj] at h2
  have : i = j := by omega
  subst this
  omega

/-- A run of `m` ends in what it ends in. -/
theorem run_spec {α} (m : IM α) (s0 : IState) :
    ⦃fun s => ⌜s = s0⌝⦄ m ⦃⇓? r s => ⌜m.run s0 = .ok (r, s)⌝⦄ := by
  apply Post.triple
  intro s hs
  subst hs
  cases hr : m.run s with
  | error e => trivial
  | ok p => rfl

theorem parseInlineLink_frame (c : ICtx) (hc : c.unparsed = c.unparsedL.toArray) (start : Int) (s0 : IState) :
    ⦃fun s => ⌜s = s0⌝⦄ parseInlineLink c start
    ⦃⇓? r s => ⌜s.nodes = s0.nodes ∧ s.stack = s0.stack ∧ s.parentMap = s0.parentMap ∧
        s.ignoreNextIndent = s0.ignoreNextIndent ∧ (r.span.isValid = true → PosOK c s r.span.stop) ∧
        (r.span.isValid = false → s = s0)⌝⦄ := by
  mvcgen [parseInlineLink, setUnparsedPos, -parseInlineLink_spec, -parseInlineLink_specS]
  all_goals sp_norm
  all_goals first
    | exact ⟨trivial, trivial, trivial, trivial, fun h => absurd h (by decide), fun _ => trivial⟩
    | (refine ⟨trivial, trivial, trivial, trivial, fun _ => ?_, fun hf => ?_⟩
       · first
         | (intro _; exact posOK_of_index c hc _ _ (by omega) _ ‹_›)
         | (intro hlt; exact absurd hlt (Nat.lt_irrefl _))
       · have hv := ‹SpanI.isValid _ = true›
         rw [hf] at hv; cases hv)
    | (refine ⟨trivial, trivial, trivial, trivial, fun hv => ?_, fun _ => trivial⟩
       exact absurd hv ‹_›)

@[spec 20000]
theorem parseInlineLink_specP (c : ICtx) (hc : c.unparsed = c.unparsedL.toArray) (start : Int) (s0 : IState) :
    ⦃fun s => ⌜s = s0⌝⦄ parseInlineLink c start
    ⦃⇓? r s => ⌜(parseInlineLink c start).run s0 = .ok (r, s) ∧ s.nodes = s0.nodes ∧ s.stack = s0.stack ∧
        s.parentMap = s0.parentMap ∧ s.ignoreNextIndent = s0.ignoreNextIndent ∧
        (r.span.isValid = true → PosOK c s r.span.stop) ∧ (r.span.isValid = false → s = s0)⌝⦄ := by
  apply Post.triple
  refine ((Post.of_triple (run_spec (parseInlineLink c start) s0)).and
    (Post.of_triple (parseInlineLink_frame c hc start s0))).conseq (fun s h => ⟨h, h⟩) (fun _ _ h => h)

/-- the children of a destination / title node -/
def textKids (c : ICtx) (linkNodes : List Tree) (text : SpanI) : List Tree :=
  if text.isValid then
    collectTextNodes c.x.ext c.src text.stop.toNat IK.text true c.fl (newReader linkNodes text.start.toNat)
      text.start.toNat []
  else []

/-- **Hypotheses about the link scanners** (facts about pure reader code, not proved here): where the parts of an
    inline link `(destination "title")` and of a reference label `[label]` lie, and that the pieces
    `collectTextNodes` cuts them into are in order inside them. `hi`: the end of the container. Each fact is only
    asked for where the tokenizer calls the scanner: at a `(` resp. at a `[` of the source. -/
structure LinkScan (c : ICtx) (hi : Int) : Prop where
  inline : ∀ (s s' : IState) (start : Int) (info : InlineLinkInfo),
    0 ≤ start → start < c.srcA.size → c.srcA[start.toNat]! = 0x28 →
    (parseInlineLink c start).run s = .ok (info, s') → info.span.isValid = true →
    start ≤ info.span.stop ∧ info.span.stop ≤ hi ∧
    (info.destination.span.isValid = true →
      start ≤ info.destination.span.start ∧ info.destination.span.start ≤ info.destination.span.stop ∧
      info.destination.span.stop ≤ info.span.stop ∧
      WFL info.destination.span.start info.destination.span.stop
        (textKids c (c.unparsedL.drop s.unparsedPos) info.destination.text)) ∧
    (info.title.span.isValid = true →
      start ≤ info.title.span.start ∧
      (info.destination.span.isValid = true → info.destination.span.stop ≤ info.title.span.start) ∧
      info.title.span.start ≤ info.title.span.stop ∧ info.title.span.stop ≤ info.span.stop ∧
      WFL info.title.span.start info.title.span.stop
        (textKids c (c.unparsedL.drop s.unparsedPos) info.title.text))
  label : ∀ (u : Nat) (start : Int) (label : LinkLabel) (r' : Rd),
    0 ≤ start → start < c.srcA.size → c.srcA[start.toNat]! = 0x5B →
    parseLinkLabel c.src c.fl (newReader (c.unparsedL.drop u) start.toNat) = (label, r') →
    label.span.isValid = true →
    start ≤ label.span.start ∧ label.span.start ≤ label.span.stop ∧ label.span.stop ≤ hi ∧
    WFL label.span.start label.span.stop
      (collectTextNodes c.x.ext c.src label.inner.stop.toNat IK.text false c.fl
        (newReader (c.unparsedL.drop u) label.inner.start.toNat) label.inner.start.toNat []) ∧
    (nodeIndexForPosition (c.unparsedL.drop u) (label.span.stop - 1).toNat 0 = none → u < c.unparsed.size →
      label.span.stop ≤ (c.unparsed[u]!).label.stop)

theorem spanEndOf_lt (c : ICtx) (s : IState) (h : s.unparsedPos < c.unparsed.size) :
    spanEndOf c s = (c.unparsed[s.unparsedPos]!).label.stop := by
  unfold spanEndOf
  rw [if_neg (by omega)]

/-- the tree part of the state is the same -/
def Same (s' s : IState) : Prop := s'.nodes = s.nodes ∧ s'.stack = s.stack ∧ s'.parentMap = s.parentMap

theorem Same.rfl' (s : IState) : Same s s := ⟨rfl, rfl, rfl⟩

theorem SP.same {lo hi : Int} {x : Option Nat} {b p : Nat} {F : Int} {s s' : IState} (h : SP lo hi x b p F s)
    (hs : Same s' s) : SP lo hi x b p F s' := h.congr hs.1 hs.2.1 hs.2.2

theorem PosOK.of_eq {c : ICtx} {s s' : IState} {r : Int} (h : PosOK c s' r) (hu : s.unparsedPos = s'.unparsedPos) :
    PosOK c s r := by
  unfold PosOK at *; rw [hu]; exact h

theorem PosOK.of_le {c : ICtx} {s : IState} {r : Int} (hu : s.unparsedPos < c.unparsed.size → r ≤ spanEndOf c s) :
    PosOK c s r := by
  intro h
  have := hu h
  rwa [spanEndOf_lt c s h] at this

theorem stack_get {s : IState} {odi : Nat} {e : DelimE} (hodi : odi < s.stack.size) (he : s.stack[odi]? = some e) :
    s.stack[odi]! = e := by
  rw [getElem!_pos s.stack odi hodi]
  rw [Array.getElem?_eq_getElem hodi] at he
  exact Option.some.inj he

theorem link_wrap_pre' {lo hi F : Int} {s s' : IState} {odi : Nat} {e : DelimE} (hsp : SPT lo hi F s) (hsame : Same s' s)
    (hodi : odi < s.stack.size) (he : s.stack[odi]? = some e) :
    (pmOf s' e.node).isSome = true ∧
    e.node ∈ (s'.nodes[(pmOf s' e.node).getD 0]!).kids.toList ∧
    s'.parentMap.size = s'.nodes.size ∧
    ∀ k ∈ (s'.nodes[(pmOf s' e.node).getD 0]!).kids.toList, k < s'.nodes.size := by
  have h := link_wrap_pre (hsp.same hsame) (odi := odi) (by rw [hsame.2.1]; exact hodi)
  rw [hsame.2.1, stack_get hodi he] at h
  exact h

/-- After `wrap kind opener none`, in the form the verification conditions present it. -/
theorem LinkInv.wrap' {lo hi F : Int} {s s' s1 : IState} {odi kind r : Nat} {e : DelimE} (hsp : SPT lo hi F s)
    (hsame : Same s' s) (hodi : odi < s.stack.size) (he : s.stack[odi]? = some e)
    (hw : r = s'.nodes.size ∧
      s1.nodes = wrapNodes s' kind e.node none ((pmOf s' e.node).getD 0)
        (cutA (s'.nodes[(pmOf s' e.node).getD 0]!).kids.toList e.node)
        (cutM (cutR (s'.nodes[(pmOf s' e.node).getD 0]!).kids.toList e.node) none)
        (cutT (cutR (s'.nodes[(pmOf s' e.node).getD 0]!).kids.toList e.node) none) ∧
      s1.stack = s'.stack ∧ s1.unparsedPos = s'.unparsedPos ∧ s1.ignoreNextIndent = s'.ignoreNextIndent ∧
      s1.parentMap.size = s'.nodes.size + 1 ∧
      ∀ i, pmOf s1 i =
        if i ∈ cutM (cutR (s'.nodes[(pmOf s' e.node).getD 0]!).kids.toList e.node) none then some s'.nodes.size
        else if i = s'.nodes.size then some ((pmOf s' e.node).getD 0) else pmOf s' i) :
    LinkInv lo hi e.node r odi F hi false s1 ∧ s1.unparsedPos = s'.unparsedPos := by
  obtain ⟨hr, h1n, h1st, h1u, -, h1s, h1p⟩ := hw
  subst hr
  have hodi' : odi < s'.stack.size := by rw [hsame.2.1]; exact hodi
  have hee : (s'.stack[odi]!).node = e.node := by rw [hsame.2.1, stack_get hodi he]
  rw [← hee] at h1n h1p ⊢
  exact ⟨(LinkInv.wrap (hsp.same hsame) hodi' h1n h1st h1s h1p).1, h1u⟩

theorem posOK_of {c : ICtx} {s s' : IState} {r : Int} (hu : s'.unparsedPos = s.unparsedPos)
    (h : r ≤ spanEndOf c s) : PosOK c s' r := by
  intro hlt
  rw [hu] at hlt ⊢
  rwa [spanEndOf_lt c s hlt] at h

theorem posOK_raw {c : ICtx} {s : IState} {u : Nat} {r : Int} (hu : u = s.unparsedPos) (h : r ≤ spanEndOf c s) :
    u < c.unparsed.size → r ≤ (c.unparsed[u]!).label.stop := by
  subst hu
  intro hlt
  rwa [spanEndOf_lt c s hlt] at h

theorem posOK_raw' {c : ICtx} {s : IState} {u : Nat} {r : Int} (hu : u = s.unparsedPos) (h : PosOK c s r) :
    u < c.unparsed.size → r ≤ (c.unparsed[u]!).label.stop := by
  subst hu; exact h

theorem spanEndOf_delSt (c : ICtx) (s : IState) (i j : Nat) : spanEndOf c (delSt s i j) = spanEndOf c s := rfl

/-- the end of a link path: what `finishLink` left, as the postcondition of `parseEndBracket` -/
theorem fin_goal {lo hi E start : Int} {c : ICtx} {s : IState} {u : Nat} {g : Prop}
    (hfin : SPT lo hi E s ∧ s.unparsedPos = u ∧ g) (h2 : start < E)
    (h3 : u < c.unparsed.size → E ≤ (c.unparsed[u]!).label.stop) : SPT lo hi E s ∧ start < E ∧ PosOK c s E :=
  ⟨hfin.1, h2, by unfold PosOK; rw [hfin.2.1]; exact h3⟩

/-- the end of the full-reference path: `finishLink`, then `unparsedPos` moves on by `i` -/
theorem fin_goal_some {lo hi E start : Int} {c : ICtx} {s s' : IState} {u i : Nat} {g : Prop}
    (hfin : SPT lo hi E s ∧ s.unparsedPos = u ∧ g) (h2 : start < E) (hs' : Same s' s)
    (hu' : s'.unparsedPos = s.unparsedPos + i)
    (h3 : s.unparsedPos = u → E ≤ (c.unparsed[s.unparsedPos + i]!).label.stop) :
    SPT lo hi E s' ∧ start < E ∧ PosOK c s' E :=
  ⟨hfin.1.same hs', h2, by unfold PosOK; rw [hu']; exact fun _ => h3 hfin.2.1⟩

/-- …or stays -/
theorem fin_goal_none {lo hi E start : Int} {c : ICtx} {s : IState} {u : Nat} {g : Prop}
    (hfin : SPT lo hi E s ∧ s.unparsedPos = u ∧ g) (h2 : start < E)
    (h3 : s.unparsedPos = u → s.unparsedPos < c.unparsed.size → E ≤ (c.unparsed[s.unparsedPos]!).label.stop) :
    SPT lo hi E s ∧ start < E ∧ PosOK c s E :=
  ⟨hfin.1, h2, h3 hfin.2.1⟩

/-! ### `parseEndBracket` in two parts -/

/-- the reference-link part of `parseEndBracket` -/
def refPart (c : ICtx) (start : Int) (odi : Nat) (opener : DelimE) (kind : Nat) : IM Int := do
  let src := c.src
  let se ← spanEnd c
  let isCollapsed ← (do
    if (← guardAt (start + 2 < se) c (start + 1) 0x5B) then srcIs c (start + 2) 0x5D else pure false)
  if isCollapsed then
    -- Collapsed reference link.
    let on ← getNode opener.node
    let normalizedLabel := transformLinkReferenceSpan c.x.fold src c.unparsedL on.stop.toNat start.toNat
    if !c.matchRef normalizedLabel then
      addLeaf IK.text start (start + 3)
      delStack odi (odi + 1)
      return start + 3
    let linkNode ← wrap kind opener.node none
    let on ← getNode opener.node
    modifyNode linkNode fun n => { n with start := on.start, stop := start + 3, ref := normalizedLabel }
    finishLink kind odi
    return start + 3
  else if (← guardAt (start + 1 < se) c (start + 1) 0x5B) then
    -- Full reference link.
    let spans ← unparsedFrom c
    let (label, _) := parseLinkLabel src c.fl (newReader spans (start + 1).toNat)
    if !label.span.isValid then
      addLeaf IK.text start (start + 1)
      delStack odi (odi + 1)
      return start + 1
    let labelKids := collectTextNodes c.x.ext src label.inner.stop.toNat IK.text false c.fl
      (newReader spans label.inner.start.toNat) label.inner.start.toNat []
    let ref := transformLinkReference c labelKids
    if !c.matchRef ref then
      addLeaf IK.text start (start + 1)
      delStack odi (odi + 1)
      return start + 1
    let linkNode ← wrap kind opener.node none
    appendFinished linkNode { kind := IK.linkLabel, start := label.span.start, stop := label.span.stop, ref := ref, sub := labelKids }
    let on ← getNode opener.node
    modifyNode linkNode fun n => { n with start := on.start, stop := label.span.stop }
    finishLink kind odi
    match nodeIndexForPosition (← unparsedFrom c) (label.span.stop - 1).toNat 0 with
    | some i => setUnparsedPos ((← get).unparsedPos + i)
    | none => pure ()
    return label.span.stop
  else
    -- Shortcut reference link.
    let on ← getNode opener.node
    let normalizedLabel := transformLinkReferenceSpan c.x.fold src c.unparsedL on.stop.toNat start.toNat
    if !c.matchRef normalizedLabel then
      addLeaf IK.text start (start + 1)
      delStack odi (odi + 1)
      return start + 1
    let linkNode ← wrap kind opener.node none
    let on ← getNode opener.node
    modifyNode linkNode fun n => { n with start := on.start, stop := start + 1, ref := normalizedLabel }
    finishLink kind odi
    return start + 1

/-- `parseEndBracket` with the reference part as a function of its own -/
def parseEndBracket' (c : ICtx) (start : Int) : IM Int := do
  let openDelimIndex ← lookForLinkOrImage
  if openDelimIndex < 0 then
    addLeaf IK.text start (start + 1)
    return start + 1
  let odi := openDelimIndex.toNat
  let some opener := (← get).stack[odi]? | goPanic "parseEndBracket: index out of range"
  let kind := if opener.elem.typ == 4 then IK.image else IK.link
  let src := c.src
  if (← guardAt (start + 1 < (← spanEnd c)) c (start + 1) 0x28) then
    let linkNodes ← unparsedFrom c
    let info ← parseInlineLink c (start + 1)
    if info.span.isValid then
      let linkNode ← wrap kind opener.node none
      let on ← getNode opener.node
      modifyNode linkNode fun n => { n with start := on.start, stop := info.span.stop }
      if info.destination.span.isValid then
        let kids := if info.destination.text.isValid then
            collectTextNodes c.x.ext src info.destination.text.stop.toNat IK.text true c.fl
              (newReader linkNodes info.destination.text.start.toNat) info.destination.text.start.toNat []
          else []
        appendFinished linkNode { kind := IK.linkDest, start := info.destination.span.start, stop := info.destination.span.stop, sub := kids }
      if info.title.span.isValid then
        let kids := if info.title.text.isValid then
            collectTextNodes c.x.ext src info.title.text.stop.toNat IK.text true c.fl
              (newReader linkNodes info.title.text.start.toNat) info.title.text.start.toNat []
          else []
        appendFinished linkNode { kind := IK.linkTitle, start := info.title.span.start, stop := info.title.span.stop, sub := kids }
      finishLink kind odi
      return info.span.stop
  refPart c start odi opener kind

theorem parseEndBracket_eq (c : ICtx) (start : Int) : parseEndBracket c start = parseEndBracket' c start := rfl


end CM.Proofs.InlH
