import CM.Proofs.StreamBasic
/-
The simulation relation between a streaming parser state and the in-memory parser state of the same run,
and the heart of the proof: `readline` preserves it, whatever the read schedule.
-/
namespace CM.Proofs
open CM CM.Model CM.Gen

/-- The size of the `Read` request `readline` issues when the buffer holds `len` bytes. -/
def readReq (len : Nat) : Nat :=
  (if len + Model.chunkSize * nullReplacementString.length > Model.maxBlockSize
   then len + (Model.maxBlockSize - len) / nullReplacementString.length
   else len + Model.chunkSize) - len

theorem readReq_pos {len : Nat} (h : len + 3 ≤ Model.maxBlockSize) : 0 < readReq len := by
  have h1 : Model.chunkSize = 8192 := rfl
  have h2 : Model.maxBlockSize = 1048576 := rfl
  have h3 : nullReplacementString.length = 3 := rfl
  unfold readReq
  split <;> rename_i hc <;> simp only [h1, h2, h3] at hc h ⊢ <;> omega

theorem readline_some {p : BP} {e : Nat} (fuel : Nat) (h : eolEnd? p = some e) :
    readline (fuel + 1) p = (decide (p.i < e), { p with i := e }) := by
  simp [readline, h]

theorem readline_none {p : BP} (fuel : Nat) (h : eolEnd? p = none) (hs : p.buf.length + 3 ≤ Model.maxBlockSize) :
    readline (fuel + 1) p =
      readline fuel { p with buf := padNulls (p.buf ++ (p.rd.read (readReq p.buf.length)).1) p.buf.length,
                             err := (p.rd.read (readReq p.buf.length)).2.1.map PErr.ofR,
                             rd := (p.rd.read (readReq p.buf.length)).2.2 } := by
  have hp := readReq_pos hs
  unfold readReq at hp
  simp only [readline, h]
  rw [if_neg (by omega)]
  rfl

/-- `Sim fin ps pm`: `ps` is a streaming parser whose reader will finally report `fin`, `pm` is the in-memory
    parser at the same point of the same run: `pm` already holds (padded) what `ps` has not read yet. -/
structure Sim (fin : RErr) (ps pm : BP) : Prop where
  buf : pm.buf = ps.buf ++ padNulls ps.rd.data 0
  i : pm.i = ps.i
  offset : pm.offset = ps.offset
  lineno : pm.lineno = ps.lineno
  blocks : pm.blocks = ps.blocks
  panic : pm.panic = ps.panic
  merr : pm.err = some .eof
  rfin : ps.rd.fin = fin
  serr : ps.err = none ∨ (ps.err = some (PErr.ofR fin) ∧ ps.rd.data = [])
  ile : ps.i ≤ ps.buf.length
  small : pm.buf.length + 3 ≤ Model.maxBlockSize

/-- The number of `Read`s (plus one) `readline` may still need. -/
def rlMeasure (p : BP) : Nat := if p.err.isSome then 1 else p.rd.data.length + p.rd.sched.length + 2

theorem rlMeasure_le (p : BP) : rlMeasure p ≤ p.rd.data.length + p.rd.sched.length + 2 := by
  unfold rlMeasure; split <;> omega

/-- `readline` on the in-memory parser: never reads. -/
theorem readline_mem {pm : BP} (h : pm.err.isSome = true) (f : Nat) :
    ∃ e, eolEndB pm.buf pm.i true = some e ∧ readline (f + 1) pm = (decide (pm.i < e), { pm with i := e }) := by
  obtain ⟨e, he⟩ := eolEndB_true pm.buf pm.i
  refine ⟨e, he, readline_some f ?_⟩
  rw [eolEnd?_eq, h, he]

theorem readline_sim (fin : RErr) : ∀ (fuel : Nat) (ps pm : BP), Sim fin ps pm → rlMeasure ps ≤ fuel →
    ∀ e, eolEndB pm.buf pm.i true = some e →
    ∃ ps', readline fuel ps = (decide (pm.i < e), ps') ∧ Sim fin ps' { pm with i := e } ∧
      (¬ pm.i < e → ps'.err = some (PErr.ofR fin)) := by
  intro fuel
  induction fuel with
  | zero =>
    intro ps pm _ hm
    unfold rlMeasure at hm; split at hm <;> omega
  | succ fuel ih =>
    intro ps pm hs hm e he
    cases hq : eolEnd? ps with
    | some e' =>
      rw [readline_some fuel hq]
      rw [eolEnd?_eq] at hq
      have hb := eolEndB_bounds hq
      have hee : e' = e := by
        rcases hs.serr with h0 | ⟨h1, h2⟩
        · rw [h0] at hq
          have := eolEndB_append hq (padNulls ps.rd.data 0) true
          rw [← hs.buf, ← hs.i, he] at this
          exact (Option.some.inj this).symm
        · rw [h1] at hq
          have hbuf : pm.buf = ps.buf := by rw [hs.buf, h2]; simp
          rw [hbuf, hs.i] at he
          simp only [Option.isSome_some] at hq
          rw [hq] at he
          exact Option.some.inj he
      subst hee
      refine ⟨_, by rw [hs.i], ?_, ?_⟩
      · exact ⟨hs.buf, rfl, hs.offset, hs.lineno, hs.blocks, hs.panic, hs.merr, hs.rfin, hs.serr, hb.1, hs.small⟩
      · intro hlt
        rw [hs.i] at hlt
        rcases hb.2 with h | ⟨h, _⟩
        · exact absurd h hlt
        · rcases hs.serr with h0 | ⟨h1, _⟩
          · simp [h0] at h
          · exact h1
    | none =>
      have herr : ps.err = none := by
        rcases hs.serr with h0 | ⟨h1, _⟩
        · exact h0
        · rw [eolEnd?_eq, h1] at hq
          obtain ⟨e2, he2⟩ := eolEndB_true ps.buf ps.i
          simp [he2] at hq
      have hlen : ps.buf.length + 3 ≤ Model.maxBlockSize := by
        have := hs.small
        rw [hs.buf, List.length_append] at this
        omega
      rw [readline_none fuel hq hlen]
      obtain ⟨out, er, r', hread, hdata, hfin, _, herr', hdec⟩ := read_spec ps.rd (readReq ps.buf.length)
      rw [hread]
      simp only
      have hs' : Sim fin { ps with buf := padNulls (ps.buf ++ out) ps.buf.length, err := er.map PErr.ofR, rd := r' } pm := by
        refine { hs with buf := ?_, rfin := ?_, serr := ?_, ile := ?_ }
        · simp only [padNulls_append_len]
          rw [hs.buf, hdata, padNulls_append_zero, List.append_assoc]
        · simp only [hfin, hs.rfin]
        · rcases herr' with h | ⟨h, h'⟩
          · left; simp [h]
          · right; simp [h, h', hs.rfin]
        · simp only [padNulls_append_len, List.length_append]
          have := hs.ile
          omega
      refine ih _ pm hs' ?_ e he
      unfold rlMeasure at hm ⊢
      simp only [herr, Option.isSome_none] at hm
      simp only
      rcases herr' with h | ⟨h, h'⟩
      · have := hdec h (readReq_pos hlen)
        simp [h]; simp at hm; omega
      · simp [h]; simp at hm; omega

end CM.Proofs
