import CM.Proofs.BlocksWellLine
import CM.Proofs.StreamFuel
/-
Re-basing the pending blocks (`offsetPBs`) keeps the invariant of the children of the document.
-/
namespace CM.Proofs
open CM CM.Model CM.Gen

theorem offsetPBs_map (n : Int) (l : List PB) : offsetPBs n l = l.map (offsetPB n) := by
  induction l with
  | nil => rfl
  | cons a t ih => simp [offsetPBs, ih]

theorem offsetTrees_map (n : Int) (l : List Tree) : offsetTrees n l = l.map (offsetTree n) := by
  induction l with
  | nil => rfl
  | cons a t ih => simp [offsetTrees, ih]

theorem offsetTree_label (n : Int) (t : Tree) :
    (offsetTree n t).label.start = t.label.start + n ∧
    (offsetTree n t).label.stop = if t.label.stop ≥ 0 then t.label.stop + n else t.label.stop := by
  cases t with
  | node l cs => simp [offsetTree, Tree.label]

theorem offsetPB_fields (n : Int) (b : PB) :
    (offsetPB n b).label.kind = b.label.kind ∧
    (offsetPB n b).label.stop = (if b.label.stop ≥ 0 then b.label.stop + n else b.label.stop) ∧
    (offsetPB n b).inlines = b.inlines.map (offsetTree n) ∧ (offsetPB n b).blocks = b.blocks.map (offsetPB n) := by
  cases b with
  | mk l bs is => simp [offsetPB, PB.label, PB.inlines, PB.blocks, offsetPBs_map, offsetTrees_map]

theorem dropLast_cons_ne {α : Type} (a : α) (l : List α) (h : l ≠ []) : (a :: l).dropLast = a :: l.dropLast := by
  cases l with
  | nil => exact absurd rfl h
  | cons b t => rfl

/-- Cutting off the first (closed) child and re-basing the others. -/
theorem Kids.offset {N : Nat} {k0 : PB} {rest : List PB} (h : Kids N N (k0 :: rest)) (hc : 0 ≤ k0.label.stop) :
    Kids (N - k0.label.stop.toNat) (N - k0.label.stop.toNat) (rest.map (offsetPB (-(k0.label.stop.toNat : Int)))) ∧
    ClosedLe ((N - k0.label.stop.toNat : Nat) : Int) (rest.map (offsetPB (-(k0.label.stop.toNat : Int)))) := by
  have hk0N : k0.label.stop ≤ (N : Int) := (h.kid k0 (by simp)).closed hc
  generalize hn : k0.label.stop.toNat = n
  have hn' : (n : Int) = k0.label.stop := by rw [← hn]; omega
  have hnN : n ≤ N := by omega
  -- closed blocks after the first end after it
  have hge : ∀ b ∈ rest, 0 ≤ b.label.stop → (n : Int) ≤ b.label.stop := by
    intro b hb h0
    have := (List.pairwise_cons.mp h.sorted).1 b hb h0
    omega
  have hstop : ∀ b ∈ rest, ((offsetPB (-(n : Int)) b).label.stop < 0 ↔ b.label.stop < 0) ∧
      (0 ≤ b.label.stop → (offsetPB (-(n : Int)) b).label.stop = b.label.stop - n) := by
    intro b hb
    have hs := (offsetPB_fields (-(n : Int)) b).2.1
    by_cases h0 : b.label.stop ≥ 0
    · rw [if_pos h0] at hs
      have := hge b hb h0
      exact ⟨by rw [hs]; omega, fun _ => by rw [hs]; omega⟩
    · rw [if_neg h0] at hs
      exact ⟨by rw [hs], fun h' => absurd h' (by omega)⟩
  by_cases hre : rest = []
  · subst hre
    exact ⟨Kids.nil _ _, fun _ h => (by cases h)⟩
  have hdl : (k0 :: rest).dropLast = k0 :: rest.dropLast := dropLast_cons_ne k0 rest hre
  have hlast : (k0 :: rest).getLast? = rest.getLast? := by
    cases rest with
    | nil => exact absurd rfl hre
    | cons a t => exact List.getLast?_cons_cons
  -- an open block of the rest is the last one; its paragraph data
  have hpara : ∀ b ∈ rest, b.label.stop < 0 → b.label.kind = BK.paragraph →
      ParaOK N b ∧ ∀ t ∈ b.inlines, k0.label.stop ≤ t.label.start ∧ ∀ a ∈ rest.dropLast, a.label.stop ≤ t.label.start := by
    intro b hb hneg hkp
    have hbl : rest.getLast? = some b := by
      have hsplit := List.dropLast_concat_getLast hre
      rw [← hsplit] at hb
      rcases List.mem_append.mp hb with h' | h'
      · have : PBClosed b := h.init b (by rw [hdl]; simp [h'])
        unfold PBClosed at this; omega
      · simp only [List.mem_singleton] at h'
        rw [h']; exact List.getLast?_eq_some_getLast hre
    refine ⟨(h.kid b (by simp [hb])).para hneg hkp, fun t ht => ⟨?_, fun a ha => ?_⟩⟩
    · exact h.lb b (by rw [hlast]; exact hbl) hneg hkp k0 (by rw [hdl]; simp) t ht
    · exact h.lb b (by rw [hlast]; exact hbl) hneg hkp a (by rw [hdl]; simp [ha]) t ht
  refine ⟨⟨?_, ?_, ?_, ?_⟩, ?_⟩
  · intro k' hk'
    obtain ⟨b, hb, rfl⟩ := List.mem_map.mp hk'
    have hkb := h.kid b (by simp [hb])
    obtain ⟨f1, f2, f3, f4⟩ := offsetPB_fields (-(n : Int)) b
    obtain ⟨s1, s2⟩ := hstop b hb
    refine ⟨?_, ?_, ?_⟩
    · intro h0
      have hb0 : 0 ≤ b.label.stop := by
        by_cases h' : b.label.stop < 0
        · have := s1.mpr h'; omega
        · omega
      rw [s2 hb0]
      have := hkb.closed hb0
      omega
    · intro hneg; rw [f1]; exact hkb.notSetext (s1.mp hneg)
    · intro hneg hkp
      rw [f1] at hkp
      obtain ⟨hp, hlb⟩ := hpara b hb (s1.mp hneg) hkp
      -- every inline child starts and ends after the cut
      have hin : ∀ t ∈ b.inlines, (offsetTree (-(n : Int)) t).label.start = t.label.start - n ∧
          (offsetTree (-(n : Int)) t).label.stop = t.label.stop - n := by
        intro t ht
        obtain ⟨l1, l2⟩ := offsetTree_label (-(n : Int)) t
        have h1 := (hlb t ht).1
        have h2 := hp.valid t ht
        rw [if_pos (by omega)] at l2
        exact ⟨by rw [l1]; omega, by rw [l2]; omega⟩
      refine ⟨?_, ?_, ?_, ?_⟩
      · rw [f3]
        intro t' ht'
        obtain ⟨t, ht, rfl⟩ := List.mem_map.mp ht'
        obtain ⟨i1, i2⟩ := hin t ht
        have := hp.spans t ht
        unfold TB at this ⊢
        omega
      · rw [f3]
        unfold SortedSpans
        rw [List.pairwise_map]
        refine List.Pairwise.imp_of_mem ?_ hp.sorted
        intro a c ha hcm hac
        rw [(hin a ha).2, (hin c hcm).1]; omega
      · rw [f3]
        intro t' ht'
        obtain ⟨t, ht, rfl⟩ := List.mem_map.mp ht'
        rw [(hin t ht).1, (hin t ht).2]
        have := hp.valid t ht
        omega
      · rw [f4, hp.nokids]; rfl
  · intro k' hk'
    rw [← List.map_dropLast] at hk'
    obtain ⟨b, hb, rfl⟩ := List.mem_map.mp hk'
    have hbc : PBClosed b := h.init b (by rw [hdl]; simp [hb])
    unfold PBClosed at hbc ⊢
    rw [(hstop b (mem_dropLast hb)).2 hbc]
    have := hge b (mem_dropLast hb) hbc
    omega
  · rw [List.pairwise_map]
    refine List.Pairwise.imp_of_mem ?_ (List.pairwise_cons.mp h.sorted).2
    intro a c ha hcm hac h0
    have hc0 : 0 ≤ c.label.stop := by
      by_cases h' : c.label.stop < 0
      · have := (hstop c hcm).1.mpr h'; omega
      · omega
    rw [(hstop c hcm).2 hc0]
    by_cases ha0 : 0 ≤ a.label.stop
    · rw [(hstop a ha).2 ha0]
      have := hac hc0; omega
    · have := (hstop a ha).1.mpr (by omega)
      have := hge c hcm hc0
      omega
  · intro c' hc' hneg hkp a' ha' t' ht'
    rw [List.getLast?_map] at hc'
    cases hl : rest.getLast? with
    | none => rw [hl] at hc'; cases hc'
    | some c =>
      rw [hl] at hc'
      simp only [Option.map_some, Option.some.injEq] at hc'
      subst hc'
      have hcm : c ∈ rest := List.mem_of_getLast? hl
      obtain ⟨f1, f2, f3, f4⟩ := offsetPB_fields (-(n : Int)) c
      rw [f1] at hkp
      obtain ⟨hp, hlb⟩ := hpara c hcm ((hstop c hcm).1.mp hneg) hkp
      rw [← List.map_dropLast] at ha'
      obtain ⟨a, ha, rfl⟩ := List.mem_map.mp ha'
      rw [f3] at ht'
      obtain ⟨t, ht, rfl⟩ := List.mem_map.mp ht'
      have hac : PBClosed a := h.init a (by rw [hdl]; simp [ha])
      unfold PBClosed at hac
      rw [(hstop a (mem_dropLast ha)).2 hac]
      obtain ⟨l1, _⟩ := offsetTree_label (-(n : Int)) t
      rw [l1]
      have := (hlb t ht).2 a ha
      omega
  · intro k' hk' h0
    obtain ⟨b, hb, rfl⟩ := List.mem_map.mp hk'
    have hb0 : 0 ≤ b.label.stop := by
      by_cases h' : b.label.stop < 0
      · have := (hstop b hb).1.mpr h'; omega
      · omega
    rw [(hstop b hb).2 hb0]
    have := (h.kid b (by simp [hb])).closed hb0
    omega

end CM.Proofs
