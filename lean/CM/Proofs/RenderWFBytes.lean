import CM.Proofs.RenderWFLangSound
import CM.Proofs.RenderWFPage
import CM.Proofs.RenderWFNeg
/-
C07 at byte level: the bytes the renderer writes are accepted by the recogniser of Spec/HtmlLang
(`Spec.htmlWellFormed`, the one the driver runs on the implementation's output) when no filter is set or
the filter rejects none of the renderer's own names, and by the weakened recogniser `htmlWellFormedW`
(text runs may contain `>` and `"`) under a slash-closed filter. One block and whole pages.
-/
namespace CM.Proofs.RenderWF
open CM CM.Model CM.Spec CM.Gen Node

theorem dataW_of_weakData (b : Bytes) (h : weakData b = true) : dataW b = true := by
  simp only [weakData, Bool.and_eq_true] at h
  simp only [dataW, Bool.and_eq_true]
  exact ⟨h.1, ampRefOK_of_ampOK b h.2⟩

theorem tokG_dataOK_of_tokOKB (t : Tok) (h : tokOKB t = true) : tokG dataOK t = true := by
  cases t with
  | stag n attrs =>
    simp only [tokOKB, tokOK, Bool.and_eq_true] at h
    simp only [tokG, Bool.and_eq_true]
    exact ⟨⟨h.1.1, h.2⟩, h.1.2⟩
  | etag n =>
    simp only [tokOKB, tokOK, Bool.and_eq_true] at h
    exact h.1.1
  | br => rfl
  | text b => exact dataOK_of_safeData b h
  | cref b => exact h
  | raw b => exact h

theorem tokG_dataW_of_tokOKB (t : Tok) (h : tokOKB t = true) : tokG dataW t = true := by
  cases t with
  | text b => exact dataW_of_dataOK b (dataOK_of_safeData b h)
  | stag n attrs => exact tokG_dataOK_of_tokOKB _ h
  | etag n => exact tokG_dataOK_of_tokOKB _ h
  | br => rfl
  | cref b => exact h
  | raw b => exact h

/-- A good token stays acceptable to the weakened recogniser whatever the predicate does to it. -/
theorem tokG_dataW_rej (p : Bytes → Bool) (t : Tok) (h : tokOKB t = true) : tokG dataW (rejTok p t) = true := by
  have hw := tokOKw_rejTok p t (tokOK_of_tokOKB t h)
  cases t with
  | stag n attrs =>
    simp only [rejTok] at hw ⊢
    split
    · rename_i hp; simp only [hp, if_true] at hw; exact dataW_of_weakData _ hw
    · exact tokG_dataW_of_tokOKB _ h
  | etag n =>
    simp only [rejTok] at hw ⊢
    split
    · rename_i hp; simp only [hp, if_true] at hw; exact dataW_of_weakData _ hw
    · exact tokG_dataW_of_tokOKB _ h
  | br =>
    simp only [rejTok] at hw ⊢
    split
    · rename_i hp; simp only [hp, if_true] at hw; exact dataW_of_weakData _ hw
    · rfl
  | text b => exact tokG_dataW_of_tokOKB _ h
  | cref b => exact h
  | raw b => exact h

theorem all_tokG_dataOK (ts : List Tok) (h : ts.all tokOKB = true) : ts.all (tokG dataOK) = true := by
  simp only [List.all_eq_true] at h ⊢
  exact fun t ht => tokG_dataOK_of_tokOKB t (h t ht)

theorem all_tokG_dataW_rej (p : Bytes → Bool) (ts : List Tok) (h : ts.all tokOKB = true) :
    (ts.map (rejTok p)).all (tokG dataW) = true := by
  simp only [List.all_eq_true, List.mem_map] at h ⊢
  rintro t ⟨t0, ht0, rfl⟩
  exact tokG_dataW_rej p t0 (h t0 ht0)

theorem all_tokOK_of_B (ts : List Tok) (h : ts.all tokOKB = true) : ts.all tokOK = true := by
  simp only [List.all_eq_true] at h ⊢
  exact fun t ht => tokOK_of_tokOKB t (h t ht)

/-! ### the page as one token sequence -/

theorem effToks_append (flt : Option (Bytes → Bool)) (a b : List Tok) :
    effToks flt (a ++ b) = effToks flt a ++ effToks flt b := by
  cases flt <;> simp [effToks]

theorem effToks_cons_text (flt : Option (Bytes → Bool)) (b : Bytes) (ts : List Tok) :
    effToks flt (Tok.text b :: ts) = Tok.text b :: effToks flt ts := by
  cases flt <;> simp [effToks, rejTok]

/-- The page from block `i` on is the plain writing of the effective tokens of ONE good token sequence. -/
theorem renderAll_tokens (mk : Bytes → RCtx) (flt : Option (Bytes → Bool)) (blocks : List (Bytes × Tree))
    (h : PageHyp mk flt blocks) (i : Nat) :
    ∃ ts, ts.all tokOKB = true ∧ WN ts ∧ renderAll mk blocks i = flatPlain (effToks flt ts) := by
  induction blocks generalizing i with
  | nil => exact ⟨[], rfl, WN_nil, by cases flt <;> rfl⟩
  | cons b bs ih =>
    obtain ⟨src, t⟩ := b
    obtain ⟨⟨hflt, hpre, hraw⟩, hrest⟩ := PageHyp_cons h
    obtain ⟨ts2, ok2, wn2, h2⟩ := ih hrest (i + 1)
    have g := toksNode_goodB (mk src) none t ⟨hpre, hraw⟩
    simp only at hflt
    have h1 : ∀ dst, appendBlock (mk src) dst t = dst ++ flatPlain (effToks flt (toksNode (mk src) none t)) := by
      intro dst; rw [Props.C07.render_eq_tokens, flat_eff, hflt]
    simp only [renderAll, h1, h2]
    by_cases hi : i > 0
    · refine ⟨[Tok.text [LF, LF]] ++ toksNode (mk src) none t ++ ts2, ?_, ?_, ?_⟩
      · simp only [List.all_append, Bool.and_eq_true]; exact ⟨⟨by decide, g.1⟩, ok2⟩
      · exact WN_append (WN_append (WN_text _) g.2) wn2
      · simp [hi, effToks_append, effToks_cons_text, flatPlain, plainTok]
    · refine ⟨toksNode (mk src) none t ++ ts2, ?_, WN_append g.2 wn2, ?_⟩
      · simp only [List.all_append, Bool.and_eq_true]; exact ⟨g.1, ok2⟩
      · simp [hi, effToks_append, flatPlain_append]

/-! ### acceptance -/

theorem accept_plain (ts : List Tok) (hok : ts.all tokOKB = true) (hwn : WN ts) :
    htmlWellFormed (flatPlain ts) = true := by
  rw [htmlWellFormed_eq]
  exact langG_sound dataOK textClass_dataOK ts (all_tokG_dataOK ts hok) ((WN_iff _).1 hwn)

theorem accept_weak (p : Bytes → Bool) (hp : SlashClosed p) (ts : List Tok) (hok : ts.all tokOKB = true) (hwn : WN ts) :
    htmlWellFormedW (flatPlain (ts.map (rejTok p))) = true :=
  langG_sound dataW textClass_dataW _ (all_tokG_dataW_rej p ts hok)
    (wellNested_rej p hp ts (all_tokOK_of_B ts hok) ((WN_iff _).1 hwn))

/-- What a filter setting guarantees at byte level. -/
def AcceptUnder (flt : Option (Bytes → Bool)) (out : Bytes) : Prop :=
  match flt with
  | none => htmlWellFormed out = true
  | some p => (SlashClosed p → htmlWellFormedW out = true) ∧ (RejectsNoOwn p → htmlWellFormed out = true)

theorem accept_eff (flt : Option (Bytes → Bool)) (ts : List Tok) (hok : ts.all tokOKB = true) (hwn : WN ts) :
    AcceptUnder flt (flatPlain (effToks flt ts)) := by
  cases flt with
  | none => exact accept_plain ts hok hwn
  | some p =>
    refine ⟨fun hp => accept_weak p hp ts hok hwn, fun hp => ?_⟩
    simp only [effToks]
    rw [map_rejTok_id p hp ts (all_tokOK_of_B ts hok)]
    exact accept_plain ts hok hwn

/-- C07, byte level, one block, every filter setting: the bytes `AppendBlock(nil, root)` returns are accepted
    by `Spec.htmlWellFormed` when FilterTag is unset or rejects none of the renderer's own names, and by the
    weakened recogniser when FilterTag treats `name` and `/name` alike. -/
theorem render_accepted (cx : RCtx) (root : Tree)
    (hpre : safePre cx.src root = true) (hraw : cx.ignoreRaw = true ∨ noRaw root = true) :
    AcceptUnder cx.filter (appendBlock cx [] root) := by
  have g := toksNode_goodB cx none root ⟨hpre, hraw⟩
  rw [Props.C07.render_eq_tokens, flat_eff, List.nil_append]
  exact accept_eff cx.filter _ g.1 g.2

/-- FilterTag unset (the setting of `render_wellformed`): the recogniser of Spec/HtmlLang accepts the output. -/
theorem render_htmlWellFormed (cx : RCtx) (hf : cx.filter = none) (root : Tree)
    (hpre : safePre cx.src root = true) (hraw : cx.ignoreRaw = true ∨ noRaw root = true) :
    htmlWellFormed (appendBlock cx [] root) = true := by
  have := render_accepted cx root hpre hraw
  rw [hf] at this; exact this

/-- FilterTag = p, slash-closed: the weakened recogniser accepts the output. -/
theorem render_htmlWellFormedW (cx : RCtx) (p : Bytes → Bool) (hf : cx.filter = some p) (hp : SlashClosed p)
    (root : Tree) (hpre : safePre cx.src root = true) (hraw : cx.ignoreRaw = true ∨ noRaw root = true) :
    htmlWellFormedW (appendBlock cx [] root) = true := by
  have := render_accepted cx root hpre hraw
  rw [hf] at this; exact this.1 hp

/-- FilterTagGFM: the unweakened recogniser accepts the output. -/
theorem render_htmlWellFormed_gfm (cx : RCtx) (hf : cx.filter = some filterTagGFM) (root : Tree)
    (hpre : safePre cx.src root = true) (hraw : cx.ignoreRaw = true ∨ noRaw root = true) :
    htmlWellFormed (appendBlock cx [] root) = true := by
  have := render_accepted cx root hpre hraw
  rw [hf] at this; exact this.2 gfm_rejectsNoOwn

/-- C07, byte level, whole page. -/
theorem renderAll_accepted (mk : Bytes → RCtx) (flt : Option (Bytes → Bool)) (blocks : List (Bytes × Tree))
    (h : PageHyp mk flt blocks) : AcceptUnder flt (renderAll mk blocks 0) := by
  obtain ⟨ts, hok, hwn, heq⟩ := renderAll_tokens mk flt blocks h 0
  rw [heq]; exact accept_eff flt ts hok hwn

theorem renderAll_htmlWellFormed (mk : Bytes → RCtx) (blocks : List (Bytes × Tree)) (h : PageHyp mk none blocks) :
    htmlWellFormed (renderAll mk blocks 0) = true := renderAll_accepted mk none blocks h

/-! ### the examples, at byte level -/

open RenderWFEx

-- rejected `p`/`/p`: not in the language of Spec/HtmlLang (a `>` in text), in the weakened one
example : htmlWellFormed (str "&lt;p>x&lt;/p>") = false ∧ htmlWellFormedW (str "&lt;p>x&lt;/p>") = true := by
  decide +kernel
-- rejected `em` but not `/em`: not even in the weakened language (an end tag without its start tag)
example : htmlWellFormedW (str "<p>&lt;em>x</em> &lt;y</p>") = false := by decide +kernel
-- rejected `em`/`/em`
example : htmlWellFormedW (str "<p>&lt;em>x&lt;/em> &lt;y</p>") = true
    ∧ htmlWellFormed (str "<p>&lt;em>x&lt;/em> &lt;y</p>") = false := by decide +kernel
-- the theorem's instance for that last configuration
example : htmlWellFormedW (appendBlock cxEm [] para) = true :=
  render_htmlWellFormedW cxEm pEm rfl (by unfold SlashClosed pEm; decide +kernel) para (by decide +kernel)
    (Or.inr (by decide +kernel))

-- Why `tokOKB` (no tag token named `br`) is carried along: `Spec.tokOK`/`Spec.wellNested` accept a start tag
-- token named `br` closed by an end tag token (`isVoid` knows only `hr`, `img`), the recogniser does not
-- (`isVoidOut` adds `br`). The renderer never produces such tokens (`toksNode_goodB`).
example : [Tok.stag (str "br") [], Tok.etag (str "br")].all tokOK = true
    ∧ wellNested [Tok.stag (str "br") [], Tok.etag (str "br")] = true
    ∧ htmlWellFormed (flatPlain [Tok.stag (str "br") [], Tok.etag (str "br")]) = false := by decide +kernel

end CM.Proofs.RenderWF
