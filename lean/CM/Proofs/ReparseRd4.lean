import CM.Proofs.ReparseRd3
/-
C16, `ParaCloseLocal`, part 4: the reader at the END of the text (where `current` does see the byte that follows, or
the end of the source), and the children of a link reference definition.
-/
namespace CM.Proofs.Rp
open CM CM.Model CM.Gen CM.Proofs

section
variable {s u : Bytes} {b : Nat}

theorem cur_end_B {r : Rd} (hp : r.pos = s.length) : r.current s = (0, r) := by
  unfold Rd.current
  rw [if_pos (by omega)]

theorem cur_end_A {r : Rd} (h : RW b r) (hp : r.pos = b) (hb : b ≤ s.length) : ∃ c, r.current (s ++ u) = (c, r) := by
  obtain ⟨_, _, _, _, c5⟩ := h.current (s ++ u) (by simp only [List.length_append]; omega)
  refine ⟨(r.current (s ++ u)).1, ?_⟩
  have := c5 hp
  exact Prod.ext rfl this

theorem nxt_end (src : Bytes) {r : Rd} (h : RW b r) (hp : r.pos = b) : r.next src = (false, r) := by
  obtain ⟨_, n2, n3⟩ := h.next src
  cases hok : (r.next src).1 with
  | true => have := (n2 hok).1; omega
  | false =>
    have := (n3 hok).2.2.2 hp
    exact Prod.ext hok this

/-- At the end of the text, on the longer source: `skipLinkSpace` fails, or succeeds without moving. -/
theorem skipLinkSpace_end_A {r : Rd} (h : RW b r) (hp : r.pos = b) (hb : b ≤ s.length) (m : Nat) :
    (skipLinkSpace (s ++ u) (m + 1) r).1 = false ∨ skipLinkSpace (s ++ u) (m + 1) r = (true, r) := by
  obtain ⟨c, hc⟩ := cur_end_A (u := u) h hp hb
  simp only [skipLinkSpace, hc]
  split
  · left; rfl
  · split
    · rw [nxt_end (s ++ u) h hp]
      left; rfl
    · right; rfl

theorem skipLinkSpace_end_B {r : Rd} (hp : r.pos = s.length) (m : Nat) : skipLinkSpace s (m + 1) r = (false, r) := by
  simp only [skipLinkSpace, cur_end_B hp]
  rfl

/-- At the end of the text no link title starts, whatever follows in the source. -/
theorem parseLinkTitle_end_A {r : Rd} (h : RW b r) (hp : r.pos = b) (hb : b ≤ s.length) (m : Nat) :
    (parseLinkTitle (s ++ u) (m + 1) r).1.span.isValid = false := by
  obtain ⟨c, hc⟩ := cur_end_A (u := u) h hp hb
  simp only [parseLinkTitle, hc]
  split
  · exact noTitle_invalid
  · simp only [titleLoop, nxt_end (s ++ u) h hp]
    exact noTitle_invalid

/-! ### The children of a definition -/

theorem newReader_rw {is : List Tree} {a' p : Nat} (hc : ContigL is a' b) (h1 : a' ≤ p) (h2 : p < b) : RW b (newReader is p) :=
  ⟨Or.inl ⟨a', hc, h1, h2⟩, by show (-1 : Int) + 1 ≤ (p : Int); omega, by show 0 < 3; omega,
    fun hp => by have : p = b := hp; omega⟩

theorem rdFuel_big (src : Bytes) (is : List Tree) (hb : b ≤ src.length) (p : Nat) : b - p < rdFuel src is := by
  have := rdFuel_gt src is; omega

theorem collect_new_two (ext : Ext) (hb : b ≤ s.length) {is : List Tree} {a' : Nat} (hc : ContigL is a' b) (stop textKind : Nat)
    (escapes : Bool) {q : Rd} (hq : Ins b a' q) (p : Int) (hp : p = (q.pos : Int)) :
    collectTextNodes ext (s ++ u) stop textKind escapes (rdFuel (s ++ u) is) (newReader is p.toNat) p.toNat [] =
      collectTextNodes ext s stop textKind escapes (rdFuel s is) (newReader is p.toNat) p.toNat [] := by
  have : p.toNat = q.pos := by rw [hp]; simp
  rw [this]
  exact collectTextNodes_two (u := u) ext stop textKind escapes hb _ _ _ _ _ (newReader_rw hc hq.2.1 hq.2.2)
    (fun _ => hq.2.2) (rdFuel_big _ _ (by simp only [List.length_append]; omega) _) (rdFuel_big _ _ hb _)

theorem transform_two (fold : Bytes → Bytes) (hb : b ≤ s.length) {is : List Tree} {a' : Nat} (hc : ContigL is a' b) (stop : Nat)
    {q : Rd} (hq : Ins b a' q) (p : Int) (hp : p = (q.pos : Int)) :
    transformLinkReferenceSpan fold (s ++ u) is p.toNat stop = transformLinkReferenceSpan fold s is p.toNat stop := by
  have : p.toNat = q.pos := by rw [hp]; simp
  rw [this]
  unfold transformLinkReferenceSpan
  rw [refTextLoop_two (u := u) stop hb _ _ _ _ _ (newReader_rw hc hq.2.1 hq.2.2)
    (fun _ => hq.2.2) (rdFuel_big _ _ (by simp only [List.length_append]; omega) _) (rdFuel_big _ _ hb _)]

end

end CM.Proofs.Rp
