import CM.Proofs.ParseScanLabel
/-
C02 / C04, inline halves, for the whole of `Parse` — **`parseHTMLTag`** over the inline children of a container, part 1: tag
names, attributes, open and closing tags.

The invariant is `SI` ("live, or dead at a byte no scanner accepts", given `TailSafe`).  A `next` whose failure the scanner
tolerates always follows a byte that is neither a line ending nor a space (a letter, a quote, `=` …), so `SI.next_any`
applies; wherever a scanner crosses white space (`skipLinkSpace`) a failing `next` makes it fail.  Every end position is
`r.pos + 1` at a `>` — not a safe byte, hence read by a live reader: inside the container (`EndOK`).
-/
namespace CM.Proofs.PSc
open CM CM.Model CM.Gen CM.Proofs CM.Proofs.PS CM.Proofs.InlH

variable {src : Bytes} {L : List Tree} {N m : Nat}

/-- an end position: none, or after the start and inside the container -/
def EndOK (m N : Nat) (e : Int) : Prop := e = -1 ∨ ((m : Int) < e ∧ e ≤ (N : Int))

/-- a span: none, or from `start`, ending after the reader's start and inside the container -/
def SpanOK (m N : Nat) (start : Nat) (sp : SpanI) : Prop :=
  sp = nullSpan ∨ (sp.start = (start : Int) ∧ (m : Int) < sp.stop ∧ sp.stop ≤ (N : Int))

theorem SI.cur (hc : RC src L N) {r : Rd} (h : SI src L m N r) : SI src L m N (r.current src).2 := by
  rw [h.current_snd hc]; exact h

/-- the end `r.pos + 1` at a byte that is not safe -/
theorem SI.end_ok (hc : RC src L N) {r : Rd} (h : SI src L m N r) (hb : isSafeB (r.current src).1 = false) :
    EndOK m N ((r.pos : Int) + 1) := by
  obtain ⟨_, hlt⟩ := h.live_of_byte hc hb
  have := h.lo
  right; omega

theorem notWs_of {c : UInt8} (h1 : c ≠ LF) (h2 : c ≠ CR) (h3 : c ≠ SP) : NotWs c := ⟨h1, h2, h3⟩

theorem notWs_letter {c : UInt8} (h : isASCIILetter c = true) : NotWs c := by
  refine ⟨?_, ?_, ?_⟩ <;> (intro e; rw [e] at h; revert h; decide)

theorem tagNameLoop_I (hc : RC src L N) (hT : TailSafe src L) : ∀ (f : Nat) (r : Rd), SI src L m N r →
    SI src L m N (tagNameLoop src f r) := by
  intro f
  induction f with
  | zero => intro r h; exact h
  | succ f ih =>
    intro r h
    rw [tagNameLoop, h.current_eq hc]
    simp only []
    split
    · rename_i hch
      have hw : NotWs (r.current src).1 := by
        refine ⟨?_, ?_, ?_⟩ <;> (intro e; rw [e] at hch; revert hch; decide)
      have hn := h.next_any hc hT hw
      generalize r.next src = nx at hn
      obtain ⟨ok, r1⟩ := nx
      simp only [] at hn ⊢
      split
      · exact hn
      · exact ih r1 hn
    · exact h

theorem parseHTMLTagName_I (hc : RC src L N) (hT : TailSafe src L) (f : Nat) (r : Rd) (h : SI src L m N r) :
    SI src L m N (parseHTMLTagName src f r).2 := by
  rw [parseHTMLTagName, h.current_eq hc]
  simp only []
  split
  · exact h
  · rename_i hch
    have hn := h.next_any hc hT (notWs_letter (by simpa using hch))
    generalize r.next src = nx at hn
    obtain ⟨ok, r1⟩ := nx
    simp only [] at hn ⊢
    split
    · exact hn
    · exact tagNameLoop_I hc hT f r1 hn

theorem attrNameLoop_I (hc : RC src L N) (hT : TailSafe src L) : ∀ (f : Nat) (r : Rd), SI src L m N r →
    SI src L m N (attrNameLoop src f r).2 := by
  intro f
  induction f with
  | zero => intro r h; exact h
  | succ f ih =>
    intro r h
    rw [attrNameLoop, h.current_eq hc]
    simp only []
    split
    · rename_i hch
      have hw : NotWs (r.current src).1 := by
        refine ⟨?_, ?_, ?_⟩ <;> (intro e; rw [e] at hch; revert hch; decide)
      have hn := h.next_any hc hT hw
      generalize r.next src = nx at hn
      obtain ⟨ok, r1⟩ := nx
      simp only [] at hn ⊢
      split
      · exact hn
      · exact ih r1 hn
    · exact h

theorem quotedLoop_I (hc : RC src L N) (hT : TailSafe src L) (q : UInt8) (hq : NotWs q) : ∀ (f : Nat) (r : Rd),
    SI src L m N r → (quotedLoop src q f r).1 = true → SI src L m N (quotedLoop src q f r).2 := by
  intro f
  induction f with
  | zero => intro r _ h; simp [quotedLoop] at h
  | succ f ih =>
    intro r h
    rw [quotedLoop, h.current_eq hc]
    simp only []
    split
    · rename_i hcq
      have e : (r.current src).1 = q := by simpa using hcq
      intro _
      exact h.next_any hc hT (by rw [e]; exact hq)
    · cases hok : (r.next src).1 with
      | false =>
        generalize r.next src = nx at hok
        obtain ⟨ok, r1⟩ := nx
        simp only [] at hok ⊢
        subst hok
        intro hh; simp at hh
      | true =>
        have hn := h.next_ok hc hok
        generalize r.next src = nx at hok hn
        obtain ⟨ok, r1⟩ := nx
        simp only [] at hok hn ⊢
        subst hok
        simp only [Bool.not_true, Bool.false_eq_true, if_false]
        exact ih r1 hn

theorem notWs_unq {c : UInt8} (h : isUnquotedAttributeValueChar c = true) : NotWs c := by
  refine ⟨?_, ?_, ?_⟩ <;> (intro e; rw [e] at h; revert h; decide)

theorem unquotedLoop_I (hc : RC src L N) (hT : TailSafe src L) : ∀ (f : Nat) (r : Rd), SI src L m N r →
    NotWs (r.current src).1 → SI src L m N (unquotedLoop src f r) := by
  intro f
  induction f with
  | zero => intro r h _; exact h
  | succ f ih =>
    intro r h hw
    rw [unquotedLoop]
    have hn := h.next_any hc hT hw
    generalize r.next src = nx at hn
    obtain ⟨ok, r1⟩ := nx
    simp only [] at hn ⊢
    split
    · exact hn
    · rw [hn.current_eq hc]
      simp only []
      split
      · rename_i hu
        exact ih r1 hn (notWs_unq hu)
      · exact hn

theorem skipLinkSpace_I (hc : RC src L N) : ∀ (f : Nat) (r : Rd), SI src L m N r →
    (skipLinkSpace src f r).1 = true → SI src L m N (skipLinkSpace src f r).2 := by
  intro f
  induction f with
  | zero => intro r _ h; simp [skipLinkSpace] at h
  | succ f ih =>
    intro r h
    rw [skipLinkSpace, h.current_eq hc]
    simp only []
    split
    · intro hh; simp at hh
    · split
      · cases hok : (r.next src).1 with
        | false =>
          generalize r.next src = nx at hok
          obtain ⟨ok, r1⟩ := nx
          simp only [] at hok ⊢
          subst hok
          intro hh; simp at hh
        | true =>
          have hn := h.next_ok hc hok
          generalize r.next src = nx at hok hn
          obtain ⟨ok, r1⟩ := nx
          simp only [] at hok hn ⊢
          subst hok
          simp only [Bool.not_true, Bool.false_eq_true, if_false]
          exact ih r1 hn
      · intro _; exact h

theorem parseHTMLAttribute_I (hc : RC src L N) (hT : TailSafe src L) (f : Nat) (r : Rd) (h : SI src L m N r) :
    (parseHTMLAttribute src f r).1 = true → SI src L m N (parseHTMLAttribute src f r).2 := by
  rw [parseHTMLAttribute, h.current_eq hc]
  simp only []
  split
  · intro hh; simp at hh
  · rename_i hch
    have hw : NotWs (r.current src).1 := by
      simp only [Bool.and_eq_true, Bool.not_eq_true', bne_iff_ne, ne_eq, not_and, Decidable.not_not] at hch
      refine ⟨?_, ?_, ?_⟩ <;> (intro e; rw [e] at hch; revert hch; decide)
    have hn := h.next_any hc hT hw
    generalize r.next src = nx at hn
    obtain ⟨ok, r1⟩ := nx
    simp only [] at hn ⊢
    split
    · intro _; exact hn
    · have h2 := attrNameLoop_I hc hT f r1 hn
      generalize attrNameLoop src f r1 = an at h2
      obtain ⟨cont, r2⟩ := an
      simp only [] at h2 ⊢
      split
      · intro _; exact h2
      · have h3 := skipLinkSpace_I hc f r2 h2
        generalize skipLinkSpace src f r2 = sk at h3
        obtain ⟨ok3, r3⟩ := sk
        simp only [] at h3 ⊢
        split
        · intro _; exact h2
        · rename_i hok3
          have h3' := h3 (by simpa using hok3)
          rw [h3'.current_eq hc]
          simp only []
          split
          · intro _; exact h2
          · rename_i heq
            have he : (r3.current src).1 = 0x3D := by simpa using heq
            have h4 := h3'.next_any hc hT (by rw [he]; exact ⟨by decide, by decide, by decide⟩)
            generalize r3.next src = nx4 at h4
            obtain ⟨ok4, r4⟩ := nx4
            simp only [] at h4 ⊢
            split
            · intro hh; simp at hh
            · have h5 := skipLinkSpace_I hc f r4 h4
              generalize skipLinkSpace src f r4 = sk5 at h5
              obtain ⟨ok5, r5⟩ := sk5
              simp only [] at h5 ⊢
              split
              · intro hh; simp at hh
              · rename_i hok5
                have h5' := h5 (by simpa using hok5)
                rw [h5'.current_eq hc]
                simp only []
                split
                · rename_i hq
                  have hqw : NotWs (r5.current src).1 := by
                    simp only [Bool.or_eq_true, beq_iff_eq] at hq
                    rcases hq with e | e <;> (rw [e]; exact ⟨by decide, by decide, by decide⟩)
                  have h6 := h5'.next_any hc hT hqw
                  generalize r5.next src = nx6 at h6
                  obtain ⟨ok6, r6⟩ := nx6
                  simp only [] at h6 ⊢
                  split
                  · intro hh; simp at hh
                  · exact quotedLoop_I hc hT _ hqw f r6 h6
                · split
                  · rename_i hu
                    intro _
                    exact unquotedLoop_I hc hT f r5 h5' (notWs_unq hu)
                  · intro hh; simp at hh

theorem openTagLoop_I (hc : RC src L N) (hT : TailSafe src L) : ∀ (f : Nat) (r : Rd), SI src L m N r →
    EndOK m N (openTagLoop src f r).1 := by
  intro f
  induction f with
  | zero => intro r _; exact Or.inl rfl
  | succ f ih =>
    intro r h
    rw [openTagLoop]
    simp only []
    have h1 := skipLinkSpace_I hc (f + 1) r h
    generalize skipLinkSpace src (f + 1) r = sk at h1
    obtain ⟨ok1, r1⟩ := sk
    simp only [] at h1 ⊢
    split
    · exact Or.inl rfl
    · rename_i hok1
      have h1' := h1 (by simpa using hok1)
      rw [h1'.current_eq hc]
      simp only []
      split
      · rename_i hsl
        have he : (r1.current src).1 = 0x2F := by simpa using hsl
        have h2 := h1'.next_any hc hT (by rw [he]; exact ⟨by decide, by decide, by decide⟩)
        generalize r1.next src = nx2 at h2
        obtain ⟨ok2, r2⟩ := nx2
        simp only [] at h2 ⊢
        split
        · exact Or.inl rfl
        · rw [h2.current_eq hc]
          simp only []
          split
          · exact Or.inl rfl
          · rename_i hgt
            have hg : (r2.current src).1 = 0x3E := by simpa using hgt
            exact h2.end_ok hc (by rw [hg]; rfl)
      · split
        · rename_i hgt
          have hg : (r1.current src).1 = 0x3E := by simpa using hgt
          exact h1'.end_ok hc (by rw [hg]; rfl)
        · split
          · exact Or.inl rfl
          · have h3 := parseHTMLAttribute_I hc hT (f + 1) r1 h1'
            generalize parseHTMLAttribute src (f + 1) r1 = at3 at h3
            obtain ⟨ok3, r3⟩ := at3
            simp only [] at h3 ⊢
            split
            · exact Or.inl rfl
            · rename_i hok3
              exact ih r3 (h3 (by simpa using hok3))

theorem parseHTMLOpenTag_I (hc : RC src L N) (hT : TailSafe src L) (f : Nat) (r : Rd) (h : SI src L m N r) :
    EndOK m N (parseHTMLOpenTag src f r).1 := by
  rw [parseHTMLOpenTag]
  have h1 := parseHTMLTagName_I hc hT f r h
  generalize parseHTMLTagName src f r = tn at h1
  obtain ⟨ok, r1⟩ := tn
  simp only [] at h1 ⊢
  split
  · exact Or.inl rfl
  · exact openTagLoop_I hc hT f r1 h1

theorem parseHTMLClosingTag_I (hc : RC src L N) (hT : TailSafe src L) (f : Nat) (r : Rd) (h : SI src L m N r) :
    EndOK m N (parseHTMLClosingTag src f r).1 := by
  rw [parseHTMLClosingTag, h.current_eq hc]
  simp only []
  split
  · exact Or.inl rfl
  · rename_i hsl
    have he : (r.current src).1 = 0x2F := by simpa using hsl
    have h1 := h.next_any hc hT (by rw [he]; exact ⟨by decide, by decide, by decide⟩)
    generalize r.next src = nx at h1
    obtain ⟨ok1, r1⟩ := nx
    simp only [] at h1 ⊢
    split
    · exact Or.inl rfl
    · have h2 := parseHTMLTagName_I hc hT f r1 h1
      generalize parseHTMLTagName src f r1 = tn at h2
      obtain ⟨ok2, r2⟩ := tn
      simp only [] at h2 ⊢
      split
      · exact Or.inl rfl
      · have h3 := skipLinkSpace_I hc f r2 h2
        generalize skipLinkSpace src f r2 = sk at h3
        obtain ⟨ok3, r3⟩ := sk
        simp only [] at h3 ⊢
        split
        · exact Or.inl rfl
        · rename_i hok3
          have h3' := h3 (by simpa using hok3)
          rw [h3'.current_eq hc]
          simp only []
          split
          · exact Or.inl rfl
          · rename_i hgt
            have hg : (r3.current src).1 = 0x3E := by simpa using hgt
            exact h3'.end_ok hc (by rw [hg]; rfl)

end CM.Proofs.PSc
