import CM.Proofs.ParseSeamsStream
import CM.Proofs.ParseSeamsWalk
/-
C17 (b) for parser output, part 6: **fact (1) on the block-phase trees `Parse` hands to the inline phase.**

`blockphase_rawEol`: in the tree `pbToTree r.block` of every root of `Parse`'s block phase, every RawHTML node other
than the very last node of the tree (in document order) ends, in the root's source, right after a line ending
(`EolEnd r.source stop`) — hence its slice does not end in an unfinished name candidate (`not_candidate_of_eolEnd`).
-/
namespace CM.Proofs.PS
open CM CM.Model CM.Gen CM.Spec
open CM.Proofs.BT CM.Proofs.BG CM.Proofs.PW

variable {S : Bytes}

/-! ### from `Tail` to the nodes of the exported tree -/

theorem nodesL_append (a b : List Tree) : T.nodesL (a ++ b) = T.nodesL a ++ T.nodesL b := by
  induction a with
  | nil => rw [T.nodesL]; rfl
  | cons c a ih => rw [List.cons_append, T.nodesL, T.nodesL, ih, List.append_assoc]

theorem nodesL_single (t : Tree) : T.nodesL [t] = T.nodes t := by
  rw [T.nodesL, T.nodesL, List.append_nil]

theorem isI_pbToTree (b : PB) (k : Nat) : T.isI (pbToTree b) k = false := by
  unfold T.isI
  rw [(CM.Proofs.pbToTree_label b).1]; rfl

/-- The strong invariant on the exported tree. -/
theorem PBI_nodes : ∀ b : PB, PBI (RawEol S) b → ∀ n ∈ T.nodes (pbToTree b), T.isI n IK.rawHTML = true → EolEnd S n.label.stop := by
  apply PB.ind
  intro l bs is ih h n hn hr
  rw [PBI_mk] at h
  rw [InlH.nodes_eq, CM.Proofs.pbToTree_children, List.mem_cons] at hn
  rcases hn with rfl | hn
  · rw [isI_pbToTree] at hr; cases hr
  · split at hn
    · obtain ⟨t, ht, hnt⟩ := InlH.mem_nodesL hn
      exact h.1 t ht n hnt hr
    · obtain ⟨t, ht, hnt⟩ := InlH.mem_nodesL hn
      rw [List.mem_map] at ht
      obtain ⟨c, hc, rfl⟩ := ht
      exact ih c hc (h.2 c hc) n hnt hr

/-- `Tail` on the exported tree: every RawHTML node but the last node of the tree ends with a line ending. -/
theorem Tail_nodes : ∀ b : PB, Tail S b →
    ∀ n ∈ (T.nodes (pbToTree b)).dropLast, T.isI n IK.rawHTML = true → EolEnd S n.label.stop := by
  apply PB.ind
  intro l bs is ih h n hn hr
  rw [Tail_mk] at h
  rw [InlH.nodes_eq, CM.Proofs.pbToTree_children] at hn
  by_cases hbs : bs = []
  · subst hbs
    simp only [List.isEmpty_nil, if_true] at hn
    rcases h.1 with h1 | ⟨_, pre, t, rfl, h1, h2⟩
    · have hn' := List.dropLast_subset _ hn
      rw [List.mem_cons] at hn'
      rcases hn' with rfl | hn'
      · rw [isI_pbToTree] at hr; cases hr
      · obtain ⟨t, ht, hnt⟩ := InlH.mem_nodesL hn'
        exact h1 t ht n hnt hr
    · rw [nodesL_append, nodesL_single, nodes_leaf h2.1, ← List.cons_append, List.dropLast_concat, List.mem_cons] at hn
      rcases hn with rfl | hn
      · rw [isI_pbToTree] at hr; cases hr
      · obtain ⟨u, hu, hnu⟩ := InlH.mem_nodesL hn
        exact h1 u hu n hnu hr
  · have he : bs.isEmpty = false := by cases bs with
      | nil => exact absurd rfl hbs
      | cons _ _ => rfl
    simp only [he, Bool.false_eq_true, if_false] at hn
    have h2 := (TailL_iff bs).1 h.2
    have hsplit := List.dropLast_concat_getLast hbs
    have hlast : bs.getLast? = some (bs.getLast hbs) := List.getLast?_eq_some_getLast hbs
    rw [← hsplit, List.map_append, nodesL_append, List.map_singleton, nodesL_single, ← List.cons_append,
      dropLast_append_ne _ _ (nodes_ne_nil _), List.cons_append, List.mem_cons, List.mem_append] at hn
    rcases hn with rfl | hn | hn
    · rw [isI_pbToTree] at hr; cases hr
    · obtain ⟨t, ht, hnt⟩ := InlH.mem_nodesL hn
      rw [List.mem_map] at ht
      obtain ⟨c, hc, rfl⟩ := ht
      exact PBI_nodes c (h2.1 c hc) n hnt hr
    · exact ih _ (List.getLast_mem hbs) (h2.2 _ hlast) n hn hr

/-! ### from the padded buffer to the root's source -/

theorem isEolB_ne_zero {c : UInt8} (h : RDC.isEolB c = true) : c ≠ 0 := by
  intro h0; subst h0; revert h; decide

/-- A position inside the root (`e ≤ n`) that follows a line ending of the buffer follows one of the filled source. -/
theorem EolEnd.fill {buf : Bytes} (hp : Padded buf) {i n : Nat} {e : Int} (hni : n ≤ i) (hi : i ≤ buf.length)
    (h : EolEnd (buf.take i) e) (hen : e ≤ (n : Int)) : EolEnd (fillNulls (buf.take n)) e := by
  have hl : (fillNulls (buf.take n)).length = n := by rw [fillNulls_length']; simp; omega
  refine ⟨by rw [hl]; exact hen, ?_⟩
  rcases h.2 with h2 | h2
  · exact Or.inl h2
  · by_cases h0 : e ≤ 0
    · exact Or.inl h0
    · right
      have hj : e.toNat - 1 < n := by omega
      have e1 : (buf.take i).getD (e.toNat - 1) 0 = (buf.take n).getD (e.toNat - 1) 0 := by
        rw [CM.Proofs.Cov.getD_take (by omega), CM.Proofs.Cov.getD_take hj]
      rw [e1] at h2
      obtain ⟨y, rfl⟩ := hp
      rw [fillNulls_getD_padded y n _ (isEolB_ne_zero h2)]
      exact h2

/-- **Fact (1).** In the block-phase tree of every root of `Parse`, every RawHTML node other than the last node of the
    tree ends with a line ending of the root's source. -/
theorem blockphase_rawEol (x : PExt) (fuel : Nat) (inp : Bytes) :
    ∀ r ∈ (drain (blocksLP x) fuel (memParser inp) []).1, ∀ n ∈ (T.nodes (pbToTree r.block)).dropLast,
      T.isI n IK.rawHTML = true → EolEnd r.source n.label.stop := by
  intro r hr n hn hraw
  obtain ⟨buf, i, hpad, hni, hi, hsrc, hT⟩ := drain_tail x fuel inp r hr
  have h1 := Tail_nodes r.block hT n hn hraw
  have hsp := (blockphase_spanValid x fuel inp r hr n (List.dropLast_subset _ hn)).2.2
  have hl : r.source.length = stopOf r.block := by rw [hsrc, fillNulls_length']; simp; omega
  rw [hsrc]
  exact h1.fill hpad hni hi (by rw [← hl]; exact hsp)

/-! ### a slice that ends with a line ending is not a name candidate -/

theorem slice_getLast (src : Bytes) (a b : Nat) (hab : a < b) (hb : b ≤ src.length) :
    ((src.drop a).take (b - a)).getLast? = some (src.getD (b - 1) 0) := by
  have hlen : ((src.drop a).take (b - a)).length = b - a := by simp; omega
  rw [List.getLast?_eq_getElem?, hlen, List.getElem?_take, if_pos (by omega), List.getElem?_drop,
    List.getD_eq_getElem?_getD]
  have : a + (b - a - 1) = b - 1 := by omega
  rw [this, List.getElem?_eq_getElem (by omega)]
  rfl

theorem nameChar_eol {c : UInt8} (h : RDC.isEolB c = true) : CM.Proofs.nameChar c = false ∧ c ≠ 0x3C := by
  simp only [RDC.isEolB, Bool.or_eq_true, beq_iff_eq] at h
  rcases h with rfl | rfl <;> exact ⟨by decide +kernel, by decide⟩

theorem not_candidate_of_eolEnd (src : Bytes) (t : Tree) (h : EolEnd src t.label.stop) :
    endsInCandidate (Node.slice src t) = false := by
  unfold Node.slice
  split
  · rename_i hv
    simp only [Node.spanValid, Bool.and_eq_true, decide_eq_true_eq] at hv
    by_cases heq : t.label.start = t.label.stop
    · rw [heq, Int.sub_self]; rfl
    · have hlt : t.label.start < t.label.stop := by omega
      rcases h.2 with h2 | h2
      · omega
      · have e : (t.label.stop - t.label.start).toNat = t.label.stop.toNat - t.label.start.toNat := by omega
        rw [e]
        have hg := slice_getLast src t.label.start.toNat t.label.stop.toNat (by omega) (by have := h.1; omega)
        obtain ⟨n1, n2⟩ := nameChar_eol h2
        exact endsInCandidate_of_getLast _ _ hg n1 n2
  · rfl

end CM.Proofs.PS
