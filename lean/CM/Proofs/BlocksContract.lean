import CM.Proofs.BlocksContractReach
/-
C01 — **the model of the real block parser satisfies the contract of the tiling theorem** (relative to
`onCloseParagraph_cuts_target`, discharged in `BlocksContractFinal.lean`).

`blocksLP_contract_of`: `Nonempty (LPContract (blocksLP x))`, over the least sessions `Reach` / `RPend`.
-/
namespace CM.Proofs
open CM CM.Model CM.Gen CM.Props.C01

/-! ### Cutting the first child off -/

theorem getLast?_offsetPBs (n : Int) (l : List PB) : (offsetPBs n l).getLast? = l.getLast?.map (offsetPB n) := by
  rw [offsetPBs_map, List.getLast?_map]

theorem ContigL.first_start {is : List Tree} {a b : Nat} (h : ContigL is a b) : ∀ t, is.head? = some t → t.label.start = (a : Int) := by
  intro t ht
  cases is with
  | nil => cases ht
  | cons u rest => cases ht; exact h.1

theorem KidsEnd.cut {src : Bytes} {k k' : PB} {rest : List PB} (hpad : Padded src) (h : KidsEnd src (k :: k' :: rest))
    (hk : k.isOpen = false) (hinit : ∀ a ∈ (k :: k' :: rest).dropLast, PBClosed a)
    (hlb : ∀ c, (k :: k' :: rest).getLast? = some c → c.label.stop < 0 → c.label.kind = BK.paragraph →
      ∀ t ∈ c.inlines, k.label.stop ≤ t.label.start) :
    Padded (src.drop (stopOf k)) ∧ KidsEnd (src.drop (stopOf k)) (offsetPBs (-(stopOf k : Int)) (k' :: rest)) ∧
    (∀ c, (offsetPBs (-(stopOf k : Int)) (k' :: rest)).getLast? = some c → c.label.stop < 0 → src.drop (stopOf k) ≠ []) := by
  have hk0 : 0 ≤ k.label.stop := (isOpen_false_iff' k).mp hk
  have ok0 := (kidsOK_iff _ _ _).mpr (h.ok (by simp))
  obtain ⟨_, h2, h3, h4⟩ := kidsOK_cons_closed hk ok0
  have hs : (stopOf k : Int) = k.label.stop := by unfold stopOf; omega
  have hlast : (k :: k' :: rest).getLast? = (k' :: rest).getLast? := List.getLast?_cons_cons
  have hdl : (k :: k' :: rest).dropLast = k :: (k' :: rest).dropLast := rfl
  -- the last child, re-based
  have hlastO : ∀ c', (offsetPBs (-(stopOf k : Int)) (k' :: rest)).getLast? = some c' → c'.label.stop < 0 →
      ∃ c, (k :: k' :: rest).getLast? = some c ∧ c.label.stop < 0 ∧ c' = offsetPB (-(stopOf k : Int)) c := by
    intro c' hc' ho'
    rw [getLast?_offsetPBs] at hc'
    cases hl : (k' :: rest).getLast? with
    | none => rw [hl] at hc'; cases hc'
    | some c =>
      rw [hl] at hc'
      simp only [Option.map_some, Option.some.injEq] at hc'
      refine ⟨c, by rw [hlast]; exact hl, ?_, hc'.symm⟩
      rw [← hc'] at ho'
      by_cases h0 : 0 ≤ c.label.stop
      · -- a closed block that ends at or after the cut stays closed
        exfalso
        rw [offsetPB_stop_closed h0] at ho'
        have hcm : c ∈ k' :: rest := List.mem_of_getLast? hl
        have hc0 : KidsOK src (stopOf k) (k' :: rest) := (kidsOK_iff _ _ _).mp h4
        -- every closed block of the rest ends after the cut
        have : ∀ (lo : Nat) (l : List PB), KidsOK src lo l → ∀ b ∈ l, 0 ≤ b.label.stop → (lo : Int) < b.label.stop := by
          intro lo l hl'
          induction hl' with
          | nil _ => intro b hb; cases hb
          | last_open ho => intro b hb h0'; simp only [List.mem_singleton] at hb; subst hb; rw [isOpen_true_iff'] at ho; omega
          | @closed lo k0 rest0 hk0' hlt _ _ _ ih =>
            intro b hb h0'
            rcases List.mem_cons.mp hb with rfl | hb
            · unfold stopOf at hlt; omega
            · have := ih b hb h0'
              unfold stopOf at hlt this; omega
        have := this _ _ hc0 c hcm h0
        omega
      · omega
  refine ⟨padded_drop hpad h3.1, ⟨fun _ => ?_, fun c' hc' ho' => ?_, fun c' hc' ho' a' ha' => ?_⟩, fun c' hc' ho' => ?_⟩
  · have := kidsOK_rebase h2 h3 ((kidsOK_iff _ _ _).mp h4) (Nat.le_refl _)
    rw [Nat.sub_self] at this
    exact this
  · obtain ⟨c, hc, ho, rfl⟩ := hlastO c' hc' ho'
    intro hkp hne
    obtain ⟨f1, _, f3, _⟩ := offsetPB_fields (-(stopOf k : Int)) c
    rw [f1] at hkp
    rw [f3] at hne ⊢
    have hne' : c.inlines ≠ [] := by intro e; rw [e] at hne; exact hne rfl
    obtain ⟨a, ha⟩ := h.para c hc ho hkp hne'
    have hsa : stopOf k ≤ a := by
      cases hi : c.inlines with
      | nil => exact absurd hi hne'
      | cons t ts =>
        have h1 := hlb c hc ho hkp t (by rw [hi]; simp)
        have h2' := ha.first_start t (by rw [hi]; rfl)
        omega
    refine ⟨a - stopOf k, ?_⟩
    rw [List.length_drop]
    exact ha.rebase hsa
  · -- room
    obtain ⟨c, hc, ho, _⟩ := hlastO c' hc' ho'
    rw [offsetPBs_map, ← List.map_dropLast] at ha'
    obtain ⟨a, ha, rfl⟩ := List.mem_map.mp ha'
    have ham : a ∈ (k :: k' :: rest).dropLast := by rw [hdl]; exact List.mem_cons_of_mem _ ha
    have hac : 0 ≤ a.label.stop := hinit a ham
    have := h.room c hc ho a ham
    rw [offsetPB_stop_closed hac, List.length_drop]
    omega
  · obtain ⟨c, hc, ho, _⟩ := hlastO c' hc' ho'
    have := h.room c hc ho k (by rw [hdl]; simp)
    intro e
    have hl := congrArg List.length e
    simp only [List.length_drop, List.length_nil] at hl
    omega

end CM.Proofs

namespace CM.Proofs
open CM CM.Model CM.Gen CM.Props.C01

/-! ### The sessions of the stream machine -/

/-- The invariant of a state reached by the machine. -/
structure RInv (x : PExt) (σ : LP) (src : Bytes) : Prop where
  pad : Padded src
  ne : src ≠ []
  inv : LPInv' σ
  ke : KidsEnd src σ.root.blocks

/-- The invariant of the left-over blocks. -/
structure PInv (bs : List PB) (src : Bytes) : Prop where
  pad : Padded src
  ke : KidsEnd src bs
  ne : ∀ c, bs.getLast? = some c → c.label.stop < 0 → src ≠ []

/-- If the first child is open, it is the only one. -/
theorem single_of_headOpen {N P : Nat} {bs : List PB} (h : Kids N P bs) (ho : headOpen bs = true) :
    ∃ k, bs = [k] ∧ k.label.stop < 0 := by
  cases bs with
  | nil => cases ho
  | cons k rest =>
    have hko : k.label.stop < 0 := (isOpen_true_iff' k).mp ho
    cases rest with
    | nil => exact ⟨k, rfl, hko⟩
    | cons k' rest' =>
      have := h.init k (by simp)
      unfold PBClosed at this; omega

theorem not_crlfSplit_nil (ln : Bytes) : ¬ CRLFSplit [] ln := by
  simp [CRLFSplit]

theorem new_root (x : PExt) (bs : List PB) : ((blocksLP x).new bs).root = docRoot bs ∧ ((blocksLP x).new bs).state = 0 :=
  ⟨rfl, rfl⟩

theorem docRoot_blocks (bs : List PB) : (docRoot bs).blocks = bs := rfl

/-- A line (or the end of input) fed to a parser whose only child `k` is open. -/
theorem step_open (H : onCloseParagraph_cuts_target) (x : PExt) (σ : LP) (src ln : Bytes) (k : PB)
    (hroot : RootOK src.length src.length src.length σ.root) (hT : σ.state = stateDescendTerminated → TermOK σ.root)
    (hinv : LPInv' σ) (hpad : Padded src) (hne : src ≠ []) (hb : σ.root.blocks = [k]) (ho : k.label.stop < 0)
    (hp : ParaT src.length k) (hpl : Padded ln) (hln : ln = [] ∨ IsLine ln) (hns : ¬ CRLFSplit src ln) :
    RInv x ((blocksLP x).line σ (src ++ ln) src.length) (src ++ ln) := by
  refine ⟨padded_append hpad hpl, by simp [hne], blocksLP_line_LPInv' x σ hinv _ _, ?_⟩
  rcases hln with rfl | hl
  · rw [List.append_nil]
    exact eof_step H x σ src hroot hT hpad k hb ho hne hp
  · exact line_step H x σ src ln hroot hT hpad hpl hl hns (Or.inr ⟨k, hb, ho, hne, hp⟩)

theorem reach_contract (H : onCloseParagraph_cuts_target) (x : PExt) :
    (∀ σ src ls, Reach (blocksLP x) σ src ls → RInv x σ src) ∧
    (∀ bs src, RPend (blocksLP x) bs src → PInv bs src) := by
  -- the steps, given the derivation (for the invariants of the C08 proof) and the induction hypothesis
  have hfresh : ∀ ln, Padded ln → IsLine ln → isBlankLine ln = false → RInv x ((blocksLP x).line ((blocksLP x).new []) ln 0) ln := by
    intro ln hp hl hbk
    have hroot : RootOK ([] : Bytes).length ([] : Bytes).length ([] : Bytes).length ((blocksLP x).new []).root :=
      docRoot_ok [] (Kids.nil 0 0) (fun _ h => (by cases h))
    have := line_step H x ((blocksLP x).new []) [] ln hroot (fun h => (by cases h)) padded_nil hp hl (not_crlfSplit_nil ln)
      (Or.inl ⟨rfl, rfl, show (0 : Nat) ≠ stateDescendTerminated by decide⟩)
    simp only [List.nil_append, List.length_nil] at this
    exact ⟨hp, hl.1, blocksLP_line_LPInv' x _ (new_LPInv' x []) _ _, this⟩
  have hnext : ∀ σ src ls ln, Reach (blocksLP x) σ src ls → RInv x σ src → headOpen ((blocksLP x).kids σ) = true →
      Padded ln → (ln = [] ∨ IsLine ln) → ¬ CRLFSplit src ln →
      RInv x ((blocksLP x).line σ (src ++ ln) src.length) (src ++ ln) := by
    intro σ src ls ln hr ih ho hpl hln hns
    obtain ⟨hri, _⟩ := (reach_inv x).1 σ src ls hr
    have hI : blocksI src σ := by
      rcases hri.2.2.2 with h' | h'
      · exact h'
      · exact absurd h' (headOpen_not_closed ho)
    obtain ⟨k, hb, hko⟩ := single_of_headOpen hri.1 ho
    have hb' : σ.root.blocks = [k] := hb
    exact step_open H x σ src ln k hI.1 hI.2.2 ih.inv ih.pad ih.ne hb' hko
      (ih.ke.para k (by rw [hb']; rfl) hko) hpl hln hns
  have hresume : ∀ bs src ln, RPend (blocksLP x) bs src → PInv bs src → headOpen bs = true →
      Padded ln → (ln = [] ∨ IsLine ln) → ¬ CRLFSplit src ln →
      RInv x ((blocksLP x).line ((blocksLP x).new bs) (src ++ ln) src.length) (src ++ ln) := by
    intro bs src ln hr ih ho hpl hln hns
    have hJ := (reach_inv x).2 bs src hr
    obtain ⟨k, hb, hko⟩ := single_of_headOpen hJ.1 ho
    subst hb
    exact step_open H x ((blocksLP x).new [k]) src ln k (docRoot_ok _ hJ.1 hJ.2) (fun h => (by cases h)) (new_LPInv' x _)
      ih.pad (ih.ne k rfl hko) rfl hko (ih.ke.para k rfl hko) hpl hln hns
  have hcut : ∀ (bs : List PB) (src : Bytes) (k k' : PB) (rest : List PB), bs = k :: k' :: rest → Kids src.length src.length bs →
      Padded src → KidsEnd src bs → k.isOpen = false →
      PInv (offsetPBs (-(stopOf k : Int)) (k' :: rest)) (src.drop (stopOf k)) := by
    intro bs src k k' rest hbs hK hpad hke hc
    subst hbs
    obtain ⟨c1, c2, c3⟩ := hke.cut hpad hc hK.init (fun c hcl ho hkp t ht => by
      exact hK.lb c hcl ho hkp k (by simp) t ht)
    exact ⟨c1, c2, c3⟩
  constructor
  · intro σ src ls h
    exact Reach.rec (motive_1 := fun σ src _ _ => RInv x σ src) (motive_2 := fun bs src _ => PInv bs src)
      (fun ln hp hl hb => hfresh ln hp hl hb)
      (fun σ src ls ln hr ho hpl hln hns ih => hnext σ src ls ln hr ih ho hpl hln hns)
      (fun bs src ln hr ho hpl hln hns ih => hresume bs src ln hr ih ho hpl hln hns)
      (fun σ src ls k k' rest hr hk hc ih =>
        hcut σ.root.blocks src k k' rest hk ((reach_inv x).1 σ src ls hr).1.1 ih.pad ih.ke hc)
      (fun src k k' rest hr hc ih => hcut _ src k k' rest rfl ((reach_inv x).2 _ src hr).1 ih.pad ih.ke hc) h
  · intro bs src h
    exact RPend.rec (motive_1 := fun σ src _ _ => RInv x σ src) (motive_2 := fun bs src _ => PInv bs src)
      (fun ln hp hl hb => hfresh ln hp hl hb)
      (fun σ src ls ln hr ho hpl hln hns ih => hnext σ src ls ln hr ih ho hpl hln hns)
      (fun bs src ln hr ho hpl hln hns ih => hresume bs src ln hr ih ho hpl hln hns)
      (fun σ src ls k k' rest hr hk hc ih =>
        hcut σ.root.blocks src k k' rest hk ((reach_inv x).1 σ src ls hr).1.1 ih.pad ih.ke hc)
      (fun src k k' rest hr hc ih => hcut _ src k k' rest rfl ((reach_inv x).2 _ src hr).1 ih.pad ih.ke hc) h

/-- **The contract, relative to the statement about `onCloseParagraph`.** -/
theorem blocksLP_contract_of (H : onCloseParagraph_cuts_target) (x : PExt) : Nonempty (LPContract (blocksLP x)) := by
  obtain ⟨h1, h2⟩ := reach_contract H x
  refine ⟨LPContract.ofReach (blocksLP x) (fun σ src ls hr => ?_) (fun bs src hr => ?_)⟩
  · have hi := h1 σ src ls hr
    obtain ⟨hri, hcl⟩ := (reach_inv x).1 σ src ls hr
    rw [checkLPContractStep_iff]
    refine ⟨hi.inv.panic, hri.2.2.1, hi.ke.ok hri.2.2.1, fun he k hk => ?_⟩
    have := hcl he k hk
    exact isOpen_eq_false_of_closed this
  · have hi := h2 bs src hr
    have hne : bs ≠ [] := by
      cases hr <;> simp [offsetPBs]
    exact (kidsOK_iff _ _ _).mpr (hi.ke.ok hne)

end CM.Proofs
