import CM.Proofs.ItemRun
import CM.Proofs.QuoteGRun2
/-
C09 (list-item half): the induction over the lines of `D` (port of `QuoteRun2` / `QuoteGRun2`; `D` has no blank line, so
the blank-line loop of `NextBlock` on the bare side ends at once).
-/
namespace CM.Proofs.Item
open CM CM.Model CM.Gen CM.Proofs.BT CM.Proofs.BSp CM.Proofs.Quote CM.Proofs.Nest

/-- The position between two lines (`b ≠ []`) or at the end (`b = []`). -/
structure PosAtI (I : IP) (D a b qa : Bytes) (c : Nat) : Prop where
  split : D = a ++ b
  qsplit : iq I D = qa ++ ifrom (I.pre a) I.k b
  clean : Clean D
  ne : D ≠ []
  cle : c ≤ a.length
  mid : b ≠ [] → Whole a ∧ qa.length = a.length + I.k * nLF a a.length
  fin : b = [] → qa.length = psiEk I.k D D.length

theorem PosAtI.lineAt {I : IP} {D a b qa : Bytes} {c : Nat} (h : PosAtI I D a b qa c) (hb : b ≠ []) : LineAtI I D a b qa c :=
  ⟨h.split, h.qsplit, h.clean, (h.mid hb).1, h.cle, (h.mid hb).2, hb⟩

theorem PosAtI.eofAt {I : IP} {D a qa : Bytes} {c : Nat} (h : PosAtI I D a [] qa c) : EofAtI I D qa c ∧ a = D := by
  have ha : a = D := by have := h.split; simp at this; exact this.symm
  refine ⟨⟨h.clean, h.ne, by have := h.qsplit; simpa [ifrom_nil] using this, h.fin rfl, by rw [← ha]; exact h.cle⟩, ha⟩

/-- The position after the line. -/
theorem LineAtI.nextPos {I : IP} {D a b qa : Bytes} {c : Nat} (h : LineAtI I D a b qa c) (hne : D ≠ []) (c' : Nat)
    (hc' : c' ≤ a.length + lineLen b) :
    PosAtI I D (a ++ b.take (lineLen b)) (b.drop (lineLen b)) (qa ++ (I.pre a ++ b.take (lineLen b))) c' := by
  obtain ⟨n1, n2, n3, n4⟩ := h.next
  have hl2 : (b.take (lineLen b)).length = lineLen b := by rw [List.length_take]; exact Nat.min_eq_left (lineLen_le b)
  exact ⟨n1, n2, h.clean, hne, by rw [List.length_append, hl2]; exact hc', fun hb => ⟨n3 hb, n4 hb⟩, fun hb => h.next_eof hb⟩

/-- The prefixed side when the bare side has nothing pending: it has not started yet (the very beginning), or every
    child of its item belongs to a delivered root. -/
def QStI (I : IP) (D a qa : Bytes) (done : List Tree) (lpQ : LP) : Prop :=
  (a = [] ∧ qa = [] ∧ lpQ = newOf [] ∧ done = [markerTree I.m.length]) ∨
  (a ≠ [] ∧ LPInv' lpQ ∧ Nest.RootR (iF I.k I.dl) (envOfI (DRi I.m I.N D) I.m I.N D a.length 0 qa.length done) (docRoot []) lpQ.root)

/-! ### the statements of the induction -/

def LinesStmtI (I : IP) (x : PExt) (D : Bytes) (n : Nat) : Prop :=
  ∀ (a b qa : Bytes) (c : Nat) (lpD lpQ : LP) (pD pQ : BP) (bsD : List PB) (done : List Tree) (acc : List Root) (fD gD fQ : Nat),
    b.length ≤ n → a ≠ [] → LineAtI I D a b qa c → DSt D c (a.length - c + lineLen b) bsD pD →
    DSt (iq I D) 0 (qa.length + (lineLen b + I.k)) [] pQ → DSessG D c (a.length - c) lpD →
    (∀ k rest, lpD.root.blocks = k :: rest → k.isOpen = true) → LPInv' lpQ →
    Nest.RootR (iF I.k I.dl) (envOfI (DRi I.m I.N D) I.m I.N D c (a.length - c) qa.length done) lpD.root lpQ.root → DoneI I (DRi I.m I.N D) D acc done → b.length + 2 ≤ fQ →
    GoalI I (DRi I.m I.N D) D (contD x gD acc (parseLines (blocksLPc x) fD (lpD, true) (a.length - c) pD))
      (parseLines (blocksLP x) fQ lpQ qa.length pQ)

def IdleStmtI (I : IP) (x : PExt) (D : Bytes) (n : Nat) : Prop :=
  ∀ (a b qa : Bytes) (c : Nat) (bs : List PB) (lpQ : LP) (pD pQ : BP) (done : List Tree) (acc : List Root) (gD fQ : Nat),
    b.length ≤ n → a ≠ [] → PosAtI I D a b qa c → DSt D c (a.length - c) bs pD → DPendG D c (a.length - c) bs →
    DSt (iq I D) 0 (qa.length + lineLen (ifrom (I.pre a) I.k b)) [] pQ → LPInv' lpQ →
    Nest.RootR (iF I.k I.dl) (envOfI (DRi I.m I.N D) I.m I.N D c (a.length - c) qa.length done) (docRoot bs) lpQ.root → DoneI I (DRi I.m I.N D) D acc done → b.length + 2 ≤ fQ →
    GoalI I (DRi I.m I.N D) D (drain (blocksLPc x) gD pD acc) (parseLines (blocksLP x) fQ lpQ qa.length pQ)

def SkipStmtI (I : IP) (x : PExt) (D : Bytes) (n : Nat) : Prop :=
  ∀ (a b qa : Bytes) (lpQ : LP) (p pQ : BP) (done : List Tree) (acc : List Root) (fs fp gD fQ : Nat),
    b.length ≤ n → PosAtI I D a b qa a.length → DSt D a.length 0 [] p →
    DSt (iq I D) 0 (qa.length + lineLen (ifrom (I.pre a) I.k b)) [] pQ → QStI I D a qa done lpQ → DoneI I (DRi I.m I.N D) D acc done → b.length + 2 ≤ fQ →
    GoalI I (DRi I.m I.N D) D (contD x gD acc (afterSkip (blocksLPc x) fp (skipBlank fs p))) (parseLines (blocksLP x) fQ lpQ qa.length pQ)

section run
variable {I : IP} {x : PExt} {D : Bytes} (S : SetupI I D)
include S

/-- **The second half of an iteration of `parseLines` on both sides.** -/
theorem after_lineI (n : Nat) (HL : LinesStmtI I x D n) (HI : IdleStmtI I x D n)
    (a b qa : Bytes) (c : Nat) (hL : LineAtI I D a b qa c) (hn : (b.drop (lineLen b)).length ≤ n)
    (lpD lpD' lpQ : LP) (lsD : Nat) (pD pQ : BP) (bsD : List PB) (done : List Tree) (acc : List Root) (fD gD fQ : Nat)
    (dD : DSt D c (a.length - c + lineLen b) bsD pD) (dQ : DSt (iq I D) 0 (qa.length + (lineLen b + I.k)) [] pQ)
    (hlineD : (blocksLPc x).line (lpD, true) ((D.drop c).take (a.length - c + lineLen b)) lsD = (lpD', true))
    (sD : DSessG D c (a.length - c + lineLen b) lpD')
    (iQ : LPInv' ((blocksLP x).line lpQ ((iq I D).take (qa.length + (lineLen b + I.k))) qa.length))
    (root : Nest.RootR (iF I.k I.dl) (envOfI (DRi I.m I.N D) I.m I.N D c (a.length - c + lineLen b) (qa.length + (lineLen b + I.k)) done) lpD'.root
      ((blocksLP x).line lpQ ((iq I D).take (qa.length + (lineLen b + I.k))) qa.length).root)
    (hdone : DoneI I (DRi I.m I.N D) D acc done) (hfQ : b.length + 2 ≤ fQ) :
    GoalI I (DRi I.m I.N D) D (contD x gD acc (parseLines (blocksLPc x) (fD + 1) (lpD, true) lsD pD))
      (parseLines (blocksLP x) fQ lpQ qa.length pQ) := by
  obtain ⟨f, rfl⟩ : ∃ f, fQ = f + 1 := ⟨fQ - 1, by omega⟩
  have hbpos := lineLen_pos hL.bne
  have hble := lineLen_le b
  have hnb := hL.noCRb
  obtain ⟨n1, n2, n3, n4⟩ := hL.next
  have hl2 : (b.take (lineLen b)).length = lineLen b := by rw [List.length_take]; exact Nat.min_eq_left hble
  have hb'len : (b.drop (lineLen b)).length + lineLen b = b.length := by rw [List.length_drop]; omega
  -- the prefixed side: one step
  have hQdrop : (iq I D).drop (qa.length + (lineLen b + I.k)) = ifrom (I.pre (a ++ b.take (lineLen b))) I.k (b.drop (lineLen b)) := by
    rw [n2]
    have : (qa ++ (I.pre a ++ b.take (lineLen b))).length = qa.length + (lineLen b + I.k) := by
      simp only [List.length_append, hl2, I.pre_length]; omega
    rw [← this, List.drop_left]
  obtain ⟨q1, q2⟩ := q_stepI x I.k I.dl (iq I D) lpQ qa.length (qa.length + (lineLen b + I.k)) f pQ dQ iQ ⟨_, _, root⟩
  rw [q1, hQdrop]
  rw [hQdrop] at q2
  have hqa' : (qa ++ (I.pre a ++ b.take (lineLen b))).length = qa.length + (lineLen b + I.k) := by
    simp only [List.length_append, hl2, I.pre_length]; omega
  have ha' : (a ++ b.take (lineLen b)).length = a.length + lineLen b := by rw [List.length_append, hl2]
  -- the bare side
  have hsrc : pD.buf.take pD.i = (D.drop c).take (a.length - c + lineLen b) := dD.source
  have hpan : (blocksLPc x).panicked ((blocksLPc x).line (lpD, true) (pD.buf.take pD.i) lsD) = none := by
    rw [hsrc, hlineD]; exact sD.sess.inv.panic
  have hDdrop : D.drop (c + (a.length - c + lineLen b)) = b.drop (lineLen b) := by
    have e : c + (a.length - c + lineLen b) = (a ++ b.take (lineLen b)).length := by rw [ha']; have := hL.cle; omega
    rw [e]
    conv => lhs; rw [n1]
    rw [List.drop_left]
  cases hkids : lpD'.root.blocks with
  | nil =>
    -- no child: impossible, the document is never empty inside a session
    exact absurd hkids sD.sess.well.2.1
  | cons k rest =>
    by_cases hko : k.isOpen = true
    · -- the first child is open: the session goes on
      have hmr : makeRoot pD ((blocksLPc x).kids ((blocksLPc x).line (lpD, true) (pD.buf.take pD.i) lsD)) = none := by
        rw [hsrc, hlineD]; show makeRoot pD lpD'.root.blocks = none; rw [hkids]; exact makeRoot_open' pD k rest hko
      obtain ⟨r1, r2⟩ := dD.readline_eq
      rw [hDdrop] at r1 r2
      rw [parseLines_next (blocksLPc x) hpan hmr, r1, hsrc, hlineD, dD.ieq]
      have hfirst : ∀ k0 rest0, lpD'.root.blocks = k0 :: rest0 → k0.isOpen = true := by
        intro k0 rest0 e; rw [hkids] at e; cases e; exact hko
      by_cases hb' : b.drop (lineLen b) = []
      · -- the end of the input
        have hpos := hL.nextPos S.ne c (by have := hL.cle; omega)
        rw [hb'] at hpos
        obtain ⟨heof, haD⟩ := hpos.eofAt
        have hDlen : D.length = a.length + lineLen b := by rw [← haD, ha']
        have e1 : a.length - c + lineLen b = D.length - c := by have := hL.cle; omega
        rw [hb', lineLen_nil, Nat.add_zero] at r2
        rw [hb', ifrom_nil, lineLen_nil, Nat.add_zero] at q2
        simp only [hb', ifrom_nil, lineLen_nil, Nat.add_zero]
        rw [e1] at r2 sD root ⊢
        rw [← hqa'] at q2 root iQ ⊢
        obtain ⟨f', rfl⟩ : ∃ f', f = f' + 1 := ⟨f - 1, by omega⟩
        exact run_eofI S heof lpD' _ _ _ bsD done acc r2 q2 sD hfirst iQ root hdone fD gD f'
      · -- the next line
        have hL' : LineAtI I D (a ++ b.take (lineLen b)) (b.drop (lineLen b)) (qa ++ (I.pre a ++ b.take (lineLen b))) c :=
          (hL.nextPos S.ne c (by have := hL.cle; omega)).lineAt hb'
        have e1 : a.length - c + lineLen b = (a ++ b.take (lineLen b)).length - c := by rw [ha']; have := hL.cle; omega
        have hnb' : NoCR (b.drop (lineLen b)) := hL'.noCRb
        rw [lineLen_ifrom _ I.k _ (I.pre_noLF _) hnb' hb', I.pre_length] at q2 ⊢
        rw [e1] at r2 sD root ⊢
        rw [← hqa'] at q2 root iQ ⊢
        exact HL _ _ _ c lpD' _ _ _ bsD done acc fD gD f hn hL.takeNe hL' r2 q2 sD hfirst iQ root hdone (by omega)
    · -- the first child is closed: it is cut off
      have hkc : k.isOpen = false := by simpa using hko
      have hk0 : 0 ≤ k.label.stop := (isOpen_false_iff k).mp hkc
      have hnk : ((k.label.stop.toNat : Nat) : Int) = k.label.stop := Int.toNat_of_nonneg hk0
      have hsl : ((D.drop c).take (a.length - c + lineLen b)).length = a.length - c + lineLen b := by
        rw [List.length_take, List.length_drop]; have := hL.lenD; omega
      obtain ⟨hroot1, _, _⟩ := sD.sess.well
      rw [hsl] at hroot1
      have hkidsK : Kids (a.length - c + lineLen b) (a.length - c + lineLen b) (k :: rest) := by
        have := hroot1.kids; rw [hkids] at this; exact this
      have hkN := (hkidsK.kid k (List.mem_cons_self ..)).closed hk0
      have hnle : k.label.stop.toNat ≤ a.length - c + lineLen b := by omega
      obtain ⟨r, p', hm, hrb, hso, _, _, hst⟩ := makeRoot_dst dD S.clean.noNul k rest hkc hnle
      have hmr : makeRoot pD ((blocksLPc x).kids ((blocksLPc x).line (lpD, true) (pD.buf.take pD.i) lsD)) = some (r, p') := by
        rw [hsrc, hlineD]; show makeRoot pD lpD'.root.blocks = _; rw [hkids]; exact hm
      rw [parseLines_root (blocksLPc x) hpan hmr, contD_block]
      -- the pending blocks
      obtain ⟨lo, hlo, hks⟩ := kids_spans sD.sess.spans
      rw [hkids] at hks
      obtain ⟨k', hkk', hroot'⟩ := rootR_cutI (iF I.k I.dl) (DRi I.m I.N D) (DRi_shift I.m I.N D) I.m I.N D c (a.length - c + lineLen b) (qa.length + (lineLen b + I.k)) done k rest
        lpD'.root _ hkids root hk0 hks
      have hpos := hL.nextPos S.ne (c + k.label.stop.toNat) (by have := hL.cle; omega)
      have e1 : a.length - c + lineLen b - k.label.stop.toNat = (a ++ b.take (lineLen b)).length - (c + k.label.stop.toNat) := by
        rw [ha']; have := hL.cle; omega
      have hpend : DPendG D (c + k.label.stop.toNat) (a.length - c + lineLen b - k.label.stop.toNat)
          (offsetPBs (-(k.label.stop.toNat : Int)) rest) := by
        constructor
        · have hk2 : Kids ((D.drop c).take (a.length - c + lineLen b)).length ((D.drop c).take (a.length - c + lineLen b)).length
              (k :: rest) := by rw [hsl]; exact hkidsK
          have := (blocks_cut hk2 hkc).2
          rw [take_drop_comm, List.drop_drop] at this
          exact this
        · rw [PBSpansL_cons] at hks
          obtain ⟨s1, s2, s3⟩ := hks
          have hsp' := offsetPBs_spans (-(k.label.stop.toNat : Int)) rest hk0 (by omega) s3
          have e5 : (((a.length - c + lineLen b : Nat) : Int) + -(k.label.stop.toNat : Int)) =
              ((a.length - c + lineLen b - k.label.stop.toNat : Nat) : Int) := by omega
          have e6 : k.label.stop + -(k.label.stop.toNat : Int) = 0 := by omega
          rw [e5, e6] at hsp'
          exact hsp'
        · exact tp_cut (by rw [← hkids]; exact sD.tp.kids) hks hk0 hnle
      have hdone' := hdone.snoc r k' (by rw [hso, hrb]; exact BR.mono (envOfI_le_envAtI (DRi I.m I.N D) I.m I.N D c _ _ done) k k' hkk')
      have hlq : lineLen (ifrom (I.pre (a ++ b.take (lineLen b))) I.k (b.drop (lineLen b))) = lineLen (ifrom (I.pre (a ++ b.take (lineLen b))) I.k (b.drop (lineLen b))) := rfl
      rw [e1] at hst hpend hroot'
      rw [← hqa'] at q2 hroot' iQ ⊢
      exact HI _ _ _ _ _ _ p' _ _ (r :: acc) gD f hn hL.takeNe hpos hst hpend q2 iQ hroot' hdone' (by omega)

omit S in
/-- A failed span check ends the run of the checked parser. -/
theorem goal_of_check_failedI (lp : LP) (src : Bytes) (ls : Nat) (pD : BP) (hsrc : pD.buf.take pD.i = src)
    (hchk : ¬ pbSpans (RefDefSpansOK x src (ls : Int) src.length) 0 (ls : Int) lp.root = true)
    (fD gD : Nat) (acc : List Root) (resQ : NBOut × BP) :
    GoalI I (DRi I.m I.N D) D (contD x gD acc (parseLines (blocksLPc x) (fD + 1) (lp, true) ls pD)) resQ := by
  have hfalse : pbSpans (RefDefSpansOK x src (ls : Int) src.length) 0 (ls : Int) lp.root = false := by simpa using hchk
  have hpan : (blocksLPc x).panicked ((blocksLPc x).line (lp, true) (pD.buf.take pD.i) ls) = some refDefFail := by
    rw [hsrc, checked_line, hfalse]; rfl
  rw [parseLines_panicked (blocksLPc x) hpan]
  exact GoalI.of_ne (by rw [contD_panic]; exact fun e => by cases e)

/-- **Inside a session**: one more line. -/
theorem lines_succI (n : Nat) (HL : LinesStmtI I x D n) (HI : IdleStmtI I x D n) : LinesStmtI I x D (n + 1) := by
  intro a b qa c lpD lpQ pD pQ bsD done acc fD gD fQ hbn ha0 hL dD dQ sD first iQ root hdone hfQ
  cases fD with
  | zero => exact GoalI.of_ne (by simp [parseLines, contD])
  | succ fD =>
    by_cases hchk : pbSpans (RefDefSpansOK x ((D.drop c).take (a.length - c + lineLen b)) ((a.length - c : Nat) : Int)
        ((D.drop c).take (a.length - c + lineLen b)).length) 0 ((a.length - c : Nat) : Int) lpD.root = true
    · obtain ⟨s1, s2, s3⟩ := step_lineI (x := x) hL ha0 (hL.noUL S) (hL.noBlank S) done lpD lpQ sD iQ first root hchk
      have hpos := lineLen_pos hL.bne
      have hle := lineLen_le b
      apply after_lineI S n HL HI a b qa c hL (by rw [List.length_drop]; omega) lpD _ lpQ (a.length - c) pD pQ bsD done acc fD gD fQ
        dD dQ (by rw [checked_line, hchk]; rfl) s1 s2 s3 hdone hfQ
    · exact goal_of_check_failedI lpD _ _ pD dD.source hchk fD gD acc _

/-- Nothing pending and nothing left: the bare run ends; the prefixed run closes its block quote. -/
theorem skip_endI (a qa : Bytes) (lpQ : LP) (p pQ : BP) (done : List Tree) (acc : List Root) (fs fp gD fQ : Nat)
    (hpos : PosAtI I D a [] qa a.length) (dD : DSt D a.length 0 [] p) (dQ : DSt (iq I D) 0 (qa.length + lineLen (ifrom (I.pre a) I.k [])) [] pQ)
    (hq : QStI I D a qa done lpQ) (hdone : DoneI I (DRi I.m I.N D) D acc done) (hfQ : 2 ≤ fQ) :
    GoalI I (DRi I.m I.N D) D (contD x gD acc (afterSkip (blocksLPc x) fp (skipBlank fs p))) (parseLines (blocksLP x) fQ lpQ qa.length pQ) := by
  obtain ⟨heof, haD⟩ := hpos.eofAt
  cases fs with
  | zero =>
    apply GoalI.of_ne
    simp only [skipBlank, afterSkip, dD.panic]
    exact fun e => by cases e
  | succ fs =>
    obtain ⟨r1, r2⟩ := dD.readline_eq
    have hdrop : D.drop (a.length + 0) = [] := by rw [haD]; simp
    rw [hdrop, lineLen_nil] at r1 r2
    have hsk : skipBlank (fs + 1) p = (none, { p with i := 0 + 0 }) := by
      unfold skipBlank
      rw [r1]
      simp
    rw [hsk]
    have hres : afterSkip (blocksLPc x) fp (none, { p with i := 0 + 0 }) = (.err .eof, { p with i := 0 + 0 }) := by
      simp only [afterSkip]
      have h1 : ({ p with i := 0 + 0 } : BP).panic = none := dD.panic
      have h2 : ({ p with i := 0 + 0 } : BP).err = some .eof := dD.err
      rw [h1, h2]; rfl
    rw [hres, contD_err]
    intro _
    rcases hq with ⟨ha, _, _, _⟩ | ⟨_, iQ, root⟩
    · exfalso
      apply S.ne
      rw [← haD, ha]
    · obtain ⟨f, rfl⟩ : ∃ f, fQ = f + 1 := ⟨fQ - 1, by omega⟩
      have hqq : iq I D = qa := heof.q
      have hal : a.length = D.length := by rw [haD]
      rw [ifrom_nil, lineLen_nil, Nat.add_zero] at dQ
      have e0 : D.length - a.length = 0 := by omega
      have hroot : Nest.RootR (iF I.k I.dl) (envOfI (DRi I.m I.N D) I.m I.N D a.length (D.length - a.length) qa.length done) (newOf []).root lpQ.root := by
        rw [e0]; exact root
      have hfin := step_eofI (x := x) (c := a.length) ⟨heof.clean, heof.ne, heof.q, heof.qlen, by omega⟩ done (newOf []) lpQ
        (fun hs => by rw [new_state] at hs; cases hs) hroot (tp_docRoot_nil _)
      have hnil : ((blocksLP x).line (newOf []) ((D.drop a.length).take (D.length - a.length)) (D.length - a.length)).root.blocks = [] := by
        have hs0 : ((D.drop a.length).take (D.length - a.length)).length = D.length - a.length := by
          rw [e0]; simp
        have := eof_empty_blocks (x := x) (newOf []) ((D.drop a.length).take (D.length - a.length)) rfl rfl
          (by show (-1 : Int) < 0; decide) (by rw [new_state]; decide)
        rw [hs0] at this
        exact this
      rw [hnil] at hfin
      have hinvQ' := blocksLP_line_LPInv' x lpQ iQ ((iq I D).take qa.length) qa.length
      rw [← hqq] at dQ hfin hinvQ' ⊢
      apply final_of_finRI I (DRi I.m I.N D) D (clean_iq_noNul I S.clean) a.length (D.length - a.length) done [] _ x lpQ f pQ dQ hinvQ' hfin
      intro pre bs'' hpre hr
      cases hr
      obtain ⟨ks, hk1, hk2⟩ := hdone
      exact ⟨ks, by rw [List.append_nil, hpre.2, hk1]; rfl, hk2⟩

/-- **Nothing pending**: the blank-line loop of `NextBlock`, then the first line of a new session. -/
theorem skip_succI (n : Nat) (HS : SkipStmtI I x D n) (HL : LinesStmtI I x D n) (HI : IdleStmtI I x D n) :
    SkipStmtI I x D (n + 1) := by
  intro a b qa lpQ p pQ done acc fs fp gD fQ hbn hpos dD dQ hq hdone hfQ
  by_cases hb : b = []
  · subst hb
    exact skip_endI S a qa lpQ p pQ done acc fs fp gD fQ hpos dD dQ hq hdone (by omega)
  · have hL := hpos.lineAt hb
    have hnb := hL.noCRb
    have hbpos := lineLen_pos hb
    have hble := lineLen_le b
    have hl2 : (b.take (lineLen b)).length = lineLen b := by rw [List.length_take]; exact Nat.min_eq_left hble
    cases fs with
    | zero =>
      apply GoalI.of_ne
      simp only [skipBlank, afterSkip, dD.panic]
      exact fun e => by cases e
    | succ fs =>
      obtain ⟨f, rfl⟩ : ∃ f, fQ = f + 1 := ⟨fQ - 1, by omega⟩
      obtain ⟨r1, r2⟩ := dD.readline_eq
      have hdrop : D.drop (a.length + 0) = b := by
        rw [Nat.add_zero]; conv => lhs; rw [hL.split]
        rw [List.drop_left]
      rw [hdrop] at r1 r2
      have hsrc2 : ({ p with i := 0 + lineLen b } : BP).buf.take ({ p with i := 0 + lineLen b } : BP).i = b.take (lineLen b) := by
        have := r2.source
        rw [this]
        have h2 := hL.lineD
        rw [Nat.sub_self, Nat.zero_add, List.drop_zero] at h2
        rw [Nat.zero_add]; exact h2
      rw [lineLen_ifrom _ I.k b (I.pre_noLF _) hnb hb, I.pre_length] at dQ
      obtain ⟨n1, n2, n3, n4⟩ := hL.next
      have hqa' : (qa ++ (I.pre a ++ b.take (lineLen b))).length = qa.length + (lineLen b + I.k) := by
        simp only [List.length_append, hl2, I.pre_length]; omega
      have ha' : (a ++ b.take (lineLen b)).length = a.length + lineLen b := by rw [List.length_append, hl2]
      have hQdrop : (iq I D).drop (qa.length + (lineLen b + I.k)) = ifrom (I.pre (a ++ b.take (lineLen b))) I.k (b.drop (lineLen b)) := by
        rw [n2, ← hqa', List.drop_left]
      by_cases hbl : isBlankLine (b.take (lineLen b)) = true
      · exact absurd hbl (by rw [hL.noBlank S]; decide)
      · -- the first line of a new session
        have hbl' : isBlankLine (b.take (lineLen b)) = false := by simpa using hbl
        have hsk : skipBlank (fs + 1) p = (some ({ p with i := 0 + lineLen b } : BP), ({ p with i := 0 + lineLen b } : BP)) := by
          conv => lhs; unfold skipBlank
          rw [r1]
          simp only [hbpos, decide_true, Bool.not_true, Bool.false_eq_true, if_false]
          rw [hsrc2, hbl']
          rfl
        rw [hsk]
        simp only [afterSkip]
        have hnew : (blocksLPc x).new ({ p with i := 0 + lineLen b } : BP).blocks = (newOf [], true) := by
          show (blocksLPc x).new p.blocks = _
          rw [dD.blocks]; rfl
        rw [hnew]
        cases fp with
        | zero => exact GoalI.of_ne (by simp [parseLines, contD])
        | succ fp =>
          have e0 : a.length - a.length + lineLen b = 0 + lineLen b := by omega
          have dD2 : DSt D a.length (a.length - a.length + lineLen b) [] ({ p with i := 0 + lineLen b } : BP) := by
            rw [e0]; exact r2
          by_cases hchk : pbSpans (RefDefSpansOK x ((D.drop a.length).take (a.length - a.length + lineLen b))
              ((a.length - a.length : Nat) : Int) ((D.drop a.length).take (a.length - a.length + lineLen b)).length) 0
              ((a.length - a.length : Nat) : Int) (newOf []).root = true
          · have hstep : DSessG D a.length (a.length - a.length + lineLen b)
                ((blocksLP x).line (newOf []) ((D.drop a.length).take (a.length - a.length + lineLen b)) (a.length - a.length)) ∧
              LPInv' ((blocksLP x).line lpQ ((iq I D).take (qa.length + (lineLen b + I.k))) qa.length) ∧
              Nest.RootR (iF I.k I.dl) (envOfI (DRi I.m I.N D) I.m I.N D a.length (a.length - a.length + lineLen b) (qa.length + (lineLen b + I.k)) done)
                ((blocksLP x).line (newOf []) ((D.drop a.length).take (a.length - a.length + lineLen b)) (a.length - a.length)).root
                ((blocksLP x).line lpQ ((iq I D).take (qa.length + (lineLen b + I.k))) qa.length).root := by
              rcases hq with ⟨ha0, hqa0, hlp0, hd0⟩ | ⟨ha0, iQ, root⟩
              · subst ha0 hqa0 hlp0 hd0
                have hDb : D = b := by have := hL.split; simpa using this
                have := step_firstI (x := x) hL (by rw [← hDb]; exact S.d0) (by rw [← hDb]; exact S.notb) (hL.noUL S) hbl'
                  (by simpa using hchk)
                simpa using this
              · exact step_freshI (x := x) hL ha0 (hL.noUL S) rfl done lpQ iQ hbl' (by rw [Nat.sub_self]; exact root) hchk
            obtain ⟨s1, s2, s3⟩ := hstep
            have hb'len : (b.drop (lineLen b)).length ≤ n := by rw [List.length_drop]; omega
            have := after_lineI S n HL HI a b qa a.length hL hb'len (newOf []) _ lpQ (a.length - a.length)
              ({ p with i := 0 + lineLen b } : BP) pQ [] done acc fp gD (f + 1) dD2 dQ
              (by rw [checked_line, hchk]; rfl) s1 s2 s3 hdone hfQ
            rw [Nat.sub_self] at this
            exact this
          · have hsrc3 : ({ p with i := 0 + lineLen b } : BP).buf.take ({ p with i := 0 + lineLen b } : BP).i =
                (D.drop a.length).take (a.length - a.length + lineLen b) := dD2.source
            have := goal_of_check_failedI (I := I) (x := x) (D := D) (newOf []) _ (a.length - a.length)
              ({ p with i := 0 + lineLen b } : BP) hsrc3 hchk fp gD acc (parseLines (blocksLP x) (f + 1) lpQ qa.length pQ)
            rw [Nat.sub_self] at this
            exact this

/-- **Between two calls of `NextBlock`.** -/
theorem idle_ofI (n : Nat) (HL : LinesStmtI I x D n) (HS : SkipStmtI I x D n) : IdleStmtI I x D n := by
  -- induction on the number of pending blocks
  suffices h : ∀ (m : Nat) (a b qa : Bytes) (c : Nat) (bs : List PB) (lpQ : LP) (pD pQ : BP) (done : List Tree) (acc : List Root)
      (gD fQ : Nat), bs.length ≤ m → b.length ≤ n → a ≠ [] → PosAtI I D a b qa c → DSt D c (a.length - c) bs pD → DPendG D c (a.length - c) bs →
      DSt (iq I D) 0 (qa.length + lineLen (ifrom (I.pre a) I.k b)) [] pQ → LPInv' lpQ →
      Nest.RootR (iF I.k I.dl) (envOfI (DRi I.m I.N D) I.m I.N D c (a.length - c) qa.length done) (docRoot bs) lpQ.root → DoneI I (DRi I.m I.N D) D acc done → b.length + 2 ≤ fQ →
      GoalI I (DRi I.m I.N D) D (drain (blocksLPc x) gD pD acc) (parseLines (blocksLP x) fQ lpQ qa.length pQ) by
    intro a b qa c bs lpQ pD pQ done acc gD fQ
    exact h bs.length a b qa c bs lpQ pD pQ done acc gD fQ (Nat.le_refl _)
  intro m
  induction m with
  | zero =>
    intro a b qa c bs lpQ pD pQ done acc gD fQ hm hbn ha0 hpos dD hpend dQ iQ root hdone hfQ
    have hbs : bs = [] := List.length_eq_zero_iff.mp (by omega)
    subst hbs
    cases gD with
    | zero => exact GoalI.of_ne (by simp [drain])
    | succ gD =>
      rw [drain_succ, nextBlock_eq_F]
      have hmr : makeRoot pD pD.blocks = none := by rw [dD.blocks]; rfl
      rw [nextBlockF_fresh (blocksLPc x) hmr (by rw [dD.blocks]; simp)]
      have hcle := hpos.cle
      have hhead : (pD.buf.take pD.i).length = a.length - c := by
        rw [dD.source, List.length_take, List.length_drop]; have := dD.ile; omega
      have hnn : ∀ y ∈ pD.buf.take pD.i, y ≠ 0 := by
        intro y hy
        apply S.clean.noNul
        rw [dD.buf] at hy
        exact List.mem_of_mem_drop (List.mem_of_mem_take hy)
      have dF : DSt D a.length 0 [] (freshLine pD) := by
        refine ⟨?_, ?_, rfl, dD.err, dD.rdd, dD.rds, dD.blocks, dD.panic, ?_⟩
        · show pD.buf.drop pD.i = _
          rw [dD.buf, dD.ieq, List.drop_drop]; congr 1; omega
        · show pD.offset + unpaddedNullLength (pD.buf.take pD.i) = _
          rw [unpaddedNullLength_noNul hnn, hhead, dD.offset]; omega
        · have := dD.ile; omega
      have hpos' : PosAtI I D a b qa a.length := ⟨hpos.split, hpos.qsplit, hpos.clean, hpos.ne, Nat.le_refl _, hpos.mid, hpos.fin⟩
      have hroot' : Nest.RootR (iF I.k I.dl) (envOfI (DRi I.m I.N D) I.m I.N D a.length 0 qa.length done) (docRoot []) lpQ.root :=
        rebase_nilI root rfl rfl rfl (by show (-1 : Int) < 0; decide) rfl
      exact HS a b qa lpQ (freshLine pD) pQ done acc _ _ gD fQ hbn hpos' dF dQ (Or.inr ⟨ha0, iQ, hroot'⟩) hdone hfQ
  | succ m ih =>
    intro a b qa c bs lpQ pD pQ done acc gD fQ hm hbn ha0 hpos dD hpend dQ iQ root hdone hfQ
    cases bs with
    | nil => exact ih a b qa c [] lpQ pD pQ done acc gD fQ (Nat.zero_le _) hbn ha0 hpos dD hpend dQ iQ root hdone hfQ
    | cons k rest =>
      cases gD with
      | zero => exact GoalI.of_ne (by simp [drain])
      | succ gD =>
        rw [drain_succ, nextBlock_eq_F]
        have hcle := hpos.cle
        have hsl : ((D.drop c).take (a.length - c)).length = a.length - c := by
          rw [List.length_take, List.length_drop]; have := dD.ile; omega
        obtain ⟨hkids, hcl⟩ := hpend.well
        rw [hsl] at hkids hcl
        by_cases hko : k.isOpen = true
        · -- the first pending block is open: a session goes on from the pending blocks
          have hmr : makeRoot pD pD.blocks = none := by rw [dD.blocks]; exact makeRoot_open' pD k rest hko
          rw [nextBlockF_pending (blocksLPc x) hmr (by rw [dD.blocks]; simp)]
          obtain ⟨r1, r2⟩ := dD.readline_eq
          have hdrop : D.drop (c + (a.length - c)) = b := by
            have e : c + (a.length - c) = a.length := by omega
            rw [e]; conv => lhs; rw [hpos.split]
            rw [List.drop_left]
          rw [hdrop] at r1 r2
          rw [r1, dD.ieq]
          have hnew : (blocksLPc x).new ({ pD with i := a.length - c + lineLen b } : BP).blocks = (newOf (k :: rest), true) := by
            show (blocksLPc x).new pD.blocks = _
            rw [dD.blocks]; rfl
          rw [hnew]
          have sD : DSessG D c (a.length - c) (newOf (k :: rest)) := by
            refine ⟨⟨newOf_inv _, by show (-1 : Int) < 0; decide, ?_, ?_⟩, tp_docRoot hpend.tp⟩
            · exact docRoot_spans (k :: rest) _ (Int.natCast_nonneg _) hpend.spans
            · refine ⟨?_, by simp [NE, newOf, docRoot, PB.blocks], fun h' => by cases h'⟩
              rw [hsl]
              exact docRoot_ok _ hkids hcl
          have hfirst : ∀ k0 rest0, (newOf (k :: rest)).root.blocks = k0 :: rest0 → k0.isOpen = true := by
            intro k0 rest0 e
            have : k :: rest = k0 :: rest0 := e
            cases this; exact hko
          by_cases hb : b = []
          · subst hb
            obtain ⟨heof, haD⟩ := hpos.eofAt
            rw [lineLen_nil, Nat.add_zero] at r2 ⊢
            rw [ifrom_nil, lineLen_nil, Nat.add_zero] at dQ
            have e1 : a.length - c = D.length - c := by rw [haD]
            rw [e1] at r2 sD root ⊢
            obtain ⟨f', rfl⟩ : ∃ f', fQ = f' + 1 := ⟨fQ - 1, by omega⟩
            exact run_eofI S heof (newOf (k :: rest)) lpQ _ pQ (k :: rest) done acc r2 dQ sD hfirst iQ root hdone _ gD f'
          · have hL := hpos.lineAt hb
            rw [lineLen_ifrom _ I.k b (I.pre_noLF _) hL.noCRb hb, I.pre_length] at dQ
            exact HL a b qa c (newOf (k :: rest)) lpQ _ pQ (k :: rest) done acc _ gD fQ hbn ha0 hL r2 dQ sD hfirst iQ root hdone hfQ
        · -- the first pending block is closed: it is the next root
          have hkc : k.isOpen = false := by simpa using hko
          have hk0 : 0 ≤ k.label.stop := (isOpen_false_iff k).mp hkc
          have hnk : ((k.label.stop.toNat : Nat) : Int) = k.label.stop := Int.toNat_of_nonneg hk0
          have hkN := (hkids.kid k (List.mem_cons_self ..)).closed hk0
          have hnle : k.label.stop.toNat ≤ a.length - c := by omega
          obtain ⟨r, p', hm', hrb, hso, _, _, hst⟩ := makeRoot_dst dD S.clean.noNul k rest hkc hnle
          rw [nextBlockF_root (blocksLPc x) (by rw [dD.blocks]; exact hm'), contD_block]
          obtain ⟨k', hkk', hroot'⟩ := rootR_cutI (iF I.k I.dl) (DRi I.m I.N D) (DRi_shift I.m I.N D) I.m I.N D c (a.length - c) qa.length done k rest (docRoot (k :: rest)) _ rfl
            root hk0 hpend.spans
          have hpos' : PosAtI I D a b qa (c + k.label.stop.toNat) :=
            ⟨hpos.split, hpos.qsplit, hpos.clean, hpos.ne, by omega, hpos.mid, hpos.fin⟩
          have e1 : a.length - c - k.label.stop.toNat = a.length - (c + k.label.stop.toNat) := by omega
          have hpend' : DPendG D (c + k.label.stop.toNat) (a.length - c - k.label.stop.toNat)
              (offsetPBs (-(k.label.stop.toNat : Int)) rest) := by
            constructor
            · have hk2 : Kids ((D.drop c).take (a.length - c)).length ((D.drop c).take (a.length - c)).length (k :: rest) := by
                rw [hsl]; exact hkids
              have := (blocks_cut hk2 hkc).2
              rw [take_drop_comm, List.drop_drop] at this
              exact this
            · have hks := hpend.spans
              rw [PBSpansL_cons] at hks
              obtain ⟨s1, s2, s3⟩ := hks
              have hsp' := offsetPBs_spans (-(k.label.stop.toNat : Int)) rest hk0 (by omega) s3
              have e5 : (((a.length - c : Nat) : Int) + -(k.label.stop.toNat : Int)) =
                  ((a.length - c - k.label.stop.toNat : Nat) : Int) := by omega
              have e6 : k.label.stop + -(k.label.stop.toNat : Int) = 0 := by omega
              rw [e5, e6] at hsp'
              exact hsp'
            · exact tp_cut hpend.tp hpend.spans hk0 hnle
          have hdone' := hdone.snoc r k' (by rw [hso, hrb]; exact BR.mono (envOfI_le_envAtI (DRi I.m I.N D) I.m I.N D c _ _ done) k k' hkk')
          rw [e1] at hst hpend' hroot'
          have hlen' : (offsetPBs (-(k.label.stop.toNat : Int)) rest).length ≤ m := by
            rw [CM.Proofs.offsetPBs_map, List.length_map]
            simp only [List.length_cons] at hm
            omega
          exact ih a b qa _ _ lpQ p' pQ _ (r :: acc) gD fQ hlen' hbn ha0 hpos' hst hpend' dQ iQ hroot' hdone' hfQ

end run

end CM.Proofs.Item
