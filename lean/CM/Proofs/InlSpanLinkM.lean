import CM.Proofs.InlSpanLink
import CM.Proofs.InlSpanTok
/-
C02, inline half — the construction of a link / image on states: `LinkInv` (what holds between `wrap` and `finishLink`)
and its steps (`LinkInv.wrap`, `.respan`, `.appendKid`), `finishLink` itself.
-/
namespace CM.Proofs.InlH
open CM CM.Model CM.Model.Inl CM.Gen

theorem cutM_none (l : List Nat) : cutM l none = l := by
  have h1 := cutMT l none
  have h2 : cutT l none = [] := cutMT_spec l none
  rw [h2, List.append_nil] at h1
  exact h1.symm

theorem cutT_none (l : List Nat) : cutT l none = [] := cutMT_spec l none

/-- the last child of the root -/
def lastKid (s : IState) : Nat := (kidsLS s.nodes 0).getLast?.getD 0

/-- Between `wrap` and `finishLink`: `o` the opener's Text node (stack entry `odi`), `N` the link node (the last child
    of the root, behind `o`), `K` the end of the link's children so far; `pend`: the link node has its final span
    (and overlaps `o`). -/
structure LinkInv (lo hi : Int) (o N odi : Nat) (K E : Int) (pend : Bool) (s : IState) : Prop where
  sp : SP lo hi (if pend then some o else none) (odi + 1) N (if pend then E else hi) s
  stopEq : (s.nodes[N]!).stop = E
  kids0 : ∃ A, kidsLS s.nodes 0 = A ++ [o, N]
  N0 : N ≠ 0
  Nsk : N ∉ stkOf s
  osk : odi < s.stack.size ∧ (s.stack[odi]!).node = o
  subN : (s.nodes[N]!).sub = []
  chain : ChainA s.nodes (s.nodes[o]!).stop K (kidsLS s.nodes N)
  startN : (s.nodes[N]!).start ≤ (s.nodes[o]!).stop
  stopN : K ≤ E
  stopHi : E ≤ hi
  oN : o ≠ N

section
variable {lo hi F : Int} {s s1 : IState} {odi kind : Nat}

/-- the opener on the stack -/
theorem stk_split (s : IState) (odi : Nat) (h : odi < s.stack.size) :
    stkOf s = (stkOf s).take odi ++ (s.stack[odi]!).node :: (stkOf s).drop (odi + 1) ∧ ((stkOf s).take odi).length = odi := by
  have hl := stkOf_length s
  have e1 : stkOf s = (stkOf s).take odi ++ (stkOf s).drop odi := (List.take_append_drop odi _).symm
  have e2 : (stkOf s).drop odi = (stkOf s)[odi]'(by omega) :: (stkOf s).drop (odi + 1) :=
    List.drop_eq_getElem_cons (by omega)
  rw [stkOf_get s odi h] at e2
  refine ⟨by conv => lhs; rw [e1, e2], by rw [List.length_take]; omega⟩

/-- The preconditions of `wrap kind opener none`. -/
theorem link_wrap_pre (hsp : SPT lo hi F s) (h : odi < s.stack.size) :
    (pmOf s (s.stack[odi]!).node).isSome = true ∧
    (s.stack[odi]!).node ∈ (s.nodes[(pmOf s (s.stack[odi]!).node).getD 0]!).kids.toList ∧
    s.parentMap.size = s.nodes.size ∧
    ∀ k ∈ (s.nodes[(pmOf s (s.stack[odi]!).node).getD 0]!).kids.toList, k < s.nodes.size := by
  obtain ⟨inv, hsz⟩ := hsp
  obtain ⟨hsk, _⟩ := stk_split s odi h
  have hmem : (s.stack[odi]!).node ∈ stkOf s := by rw [hsk]; exact List.mem_append_right _ (List.mem_cons_self ..)
  have hpm := inv.high.2 _ (by simpa using hmem)
  rw [hpm]
  simp only [Option.isSome_some, Option.getD_some]
  exact ⟨trivial, inv.high.1.subset (by simpa using hmem), hsz, inv.klt 0 inv.pos⟩

/-- After `wrap kind opener none`. -/
theorem LinkInv.wrap (hsp : SPT lo hi F s) (h : odi < s.stack.size)
    (h1n : s1.nodes = wrapNodes s kind (s.stack[odi]!).node none ((pmOf s (s.stack[odi]!).node).getD 0)
      (cutA (s.nodes[(pmOf s (s.stack[odi]!).node).getD 0]!).kids.toList (s.stack[odi]!).node)
      (cutM (cutR (s.nodes[(pmOf s (s.stack[odi]!).node).getD 0]!).kids.toList (s.stack[odi]!).node) none)
      (cutT (cutR (s.nodes[(pmOf s (s.stack[odi]!).node).getD 0]!).kids.toList (s.stack[odi]!).node) none))
    (h1st : s1.stack = s.stack) (h1s : s1.parentMap.size = s.nodes.size + 1)
    (h1p : ∀ i, pmOf s1 i =
      if i ∈ cutM (cutR (s.nodes[(pmOf s (s.stack[odi]!).node).getD 0]!).kids.toList (s.stack[odi]!).node) none
      then some s.nodes.size
      else if i = s.nodes.size then some ((pmOf s (s.stack[odi]!).node).getD 0) else pmOf s i) :
    LinkInv lo hi (s.stack[odi]!).node s.nodes.size odi F hi false s1 ∧
      s1.nodes[(s.stack[odi]!).node]! = s.nodes[(s.stack[odi]!).node]! := by
  obtain ⟨inv, hsz⟩ := hsp
  obtain ⟨hsk, hT⟩ := stk_split s odi h
  generalize ho : (s.stack[odi]!).node = o at *
  have hmem : o ∈ stkOf s := by rw [hsk]; exact List.mem_append_right _ (List.mem_cons_self ..)
  have hpm := inv.high.2 _ (by simpa using hmem)
  rw [hpm] at h1n h1p
  simp only [Option.getD_some, cutM_none, cutT_none] at h1n h1p
  have hoK : o ∈ kidsLS s.nodes 0 := inv.high.1.subset (by simpa using hmem)
  have hK := cut_eq hoK
  have wa := wrapArena_of s o kind (cutA (kidsLS s.nodes 0) o) (cutR (kidsLS s.nodes 0) o) inv.pos
  have hK' : (s.nodes[0]!).kids.toList = kidsLS s.nodes 0 := rfl
  rw [hK'] at h1n h1p
  rw [← h1n] at wa
  obtain ⟨core, chM, hoF, _, ho0, holt, hoA⟩ := wrapLink_core inv hsk hK wa h1p
  rw [hT] at core
  have hstk : stkOf s1 = stkOf s := by unfold stkOf; rw [h1st]
  have hoN : o ≠ s.nodes.size := by omega
  have rdN := wa.atN
  have rdo := wa.other o holt ho0
  refine ⟨{ sp := ?_, stopEq := by rw [rdN]; exact inv.root.2.1, kids0 := ⟨_, by unfold kidsLS; rw [wa.at0]⟩,
            N0 := by have := inv.pos; omega, Nsk := ?_,
            osk := by rw [h1st]; exact ⟨h, ho⟩, subN := by rw [rdN], chain := ?_, startN := ?_, stopN := inv.Fhi,
            stopHi := Int.le_refl _, oN := hoN }, rdo⟩
  · refine ⟨?_, by rw [h1s, wa.size]⟩
    rw [hstk]; exact core
  · rw [hstk]; intro hm; have := (inv.plain _ hm).lt; omega
  · rw [rdo]; unfold kidsLS; rw [rdN]; exact chM
  · rw [rdN, rdo]; exact Int.le_refl _

theorem LinkInv.o_plain {o N K E pend} (h : LinkInv lo hi o N odi K E pend s) : PlainLeaf s.nodes [] o := by
  refine h.sp.1.plain o ?_
  have := (stk_split s odi h.osk.1).1
  rw [h.osk.2] at this
  rw [this]; exact List.mem_append_right _ (List.mem_cons_self ..)

theorem LinkInv.N_not_kid {o N K E pend} (h : LinkInv lo hi o N odi K E pend s) : N ∉ kidsLS s.nodes N := by
  intro hk
  obtain ⟨A, hA⟩ := h.kids0
  have inv := h.sp.1
  have : N ∈ kidsLS s.nodes 0 := by rw [hA]; simp
  exact h.N0 (inv.uniqp N 0 N inv.plt inv.pos hk this)

/-- `modifyNode linkNode (start := opener.start, stop := e, …)` -/
theorem LinkInv.respan {o N : Nat} {K E : Int} (h : LinkInv lo hi o N odi K E false s) (e : Int) (hKe : K ≤ e)
    (he : e ≤ hi) (g : Bytes → Bytes) :
    LinkInv lo hi o N odi K e true { s with nodes := respanA s.nodes N (s.nodes[o]!).start e g } := by
  have hsp : SP lo hi none (odi + 1) N hi s := by simpa using h.sp
  obtain ⟨inv, hsz⟩ := hsp
  obtain ⟨A, hA⟩ := h.kids0
  have po := h.o_plain
  have hNlt := inv.plt
  have hch : ChainA s.nodes (s.nodes[N]!).start e (kidsLS s.nodes N) := h.chain.mono h.startN hKe
  have core := respan_core g inv hA h.N0 h.subN h.Nsk hch he
  have rdN : (respanA s.nodes N (s.nodes[o]!).start e g)[N]! =
      { s.nodes[N]! with start := (s.nodes[o]!).start, stop := e, ref := g (s.nodes[N]!).ref } := by
    unfold respanA; rw [get!_modify_eqS hNlt]
  have rd : ∀ i : Nat, i ≠ N → (respanA s.nodes N (s.nodes[o]!).start e g)[i]! = s.nodes[i]! := fun i hi => by
    unfold respanA; rw [get!_modify_neS hi]
  have kidsSame : ∀ i, kidsLS (respanA s.nodes N (s.nodes[o]!).start e g) i = kidsLS s.nodes i := by
    intro i
    unfold kidsLS
    by_cases hi : i = N
    · subst hi; rw [rdN]
    · rw [rd i hi]
  have no := inv.nodes o (Nat.pos_of_ne_zero po.ne0) po.lt
  refine { sp := ?_, stopEq := by show ((respanA _ _ _ _ _)[N]!).stop = e; rw [rdN],
           kids0 := ⟨A, by rw [kidsSame]; exact hA⟩, N0 := h.N0, Nsk := h.Nsk, osk := h.osk,
           subN := by show ((respanA _ _ _ _ _)[N]!).sub = []; rw [rdN]; exact h.subN, chain := ?_, startN := ?_,
           stopN := hKe, stopHi := he, oN := h.oN }
  · show SP lo hi (if true = true then some o else none) (odi + 1) N (if true = true then e else hi) _
    rw [if_pos rfl, if_pos rfl]
    refine ⟨core, ?_⟩
    show s.parentMap.size = (respanA _ _ _ _ _).size
    unfold respanA; simpa using hsz
  · show ChainA (respanA _ _ _ _ _) ((respanA _ _ _ _ _)[o]!).stop K (kidsLS (respanA _ _ _ _ _) N)
    rw [kidsSame, rd o h.oN]
    exact h.chain.congr fun k hk => by rw [rd k (fun e' => h.N_not_kid (e' ▸ hk))]; exact ⟨rfl, rfl⟩
  · show ((respanA _ _ _ _ _)[N]!).start ≤ ((respanA _ _ _ _ _)[o]!).stop
    rw [rdN, rd o h.oN]; exact no.valid

/-- `appendFinished linkNode n` -/
theorem LinkInv.appendKid {o N : Nat} {K E : Int} {pend : Bool} (h : LinkInv lo hi o N odi K E pend s) (n : INode)
    (hk : n.kids = #[]) (h1 : K ≤ n.start) (hv : n.start ≤ n.stop) (hh : n.stop ≤ E)
    (hsub : WFL n.start n.stop n.sub) :
    LinkInv lo hi o N odi n.stop E pend { s with nodes := addKidAS s.nodes N n, parentMap := s.parentMap.push none } := by
  obtain ⟨inv, hsz⟩ := h.sp
  obtain ⟨A, hA⟩ := h.kids0
  have po := h.o_plain
  have hNlt := inv.plt
  have h0 := inv.pos
  have hch : ChainA s.nodes (s.nodes[N]!).start n.start (kidsLS s.nodes N) := h.chain.mono h.startN h1
  have hpm : ∀ i, i ≠ s.nodes.size →
      pmOf { s with nodes := addKidAS s.nodes N n, parentMap := s.parentMap.push none } i = pmOf s i := by
    intro i hi
    unfold pmOf
    show ((s.parentMap.push none)[i]?).join = _
    rcases Nat.lt_or_ge i s.parentMap.size with hlt | hge
    · rw [Array.getElem?_push_lt hlt, Array.getElem?_eq_getElem hlt]
    · rw [Array.getElem?_eq_none (by simp; omega), Array.getElem?_eq_none hge]
  have core := appendKid_core inv h.N0 n hk hch hv (by rw [h.stopEq]; exact hh) hsub h.subN h.Nsk hpm
  have rdp : (addKidAS s.nodes N n)[N]! = { s.nodes[N]! with kids := (s.nodes[N]!).kids.push s.nodes.size } := by
    unfold addKidAS; rw [get!_modify_eqS (by simp; omega), get!_push_lt hNlt]
  have rd : ∀ i : Nat, i < s.nodes.size → i ≠ N → (addKidAS s.nodes N n)[i]! = s.nodes[i]! := fun i hi hip => by
    unfold addKidAS; rw [get!_modify_neS hip, get!_push_lt hi]
  have rdNew : (addKidAS s.nodes N n)[s.nodes.size]! = n := by
    unfold addKidAS; rw [get!_modify_neS (by omega), get!_push_eq]
  have spanOld : ∀ k, k < s.nodes.size → ((addKidAS s.nodes N n)[k]!).start = (s.nodes[k]!).start ∧
      ((addKidAS s.nodes N n)[k]!).stop = (s.nodes[k]!).stop := by
    intro k hk'
    by_cases hkp : k = N
    · subst hkp; rw [rdp]; exact ⟨rfl, rfl⟩
    · rw [rd k hk' hkp]; exact ⟨rfl, rfl⟩
  refine { sp := ?_, stopEq := ?_, kids0 := ⟨A, ?_⟩, N0 := h.N0, Nsk := h.Nsk, osk := h.osk, subN := ?_, chain := ?_,
           startN := ?_, stopN := hh, stopHi := h.stopHi, oN := h.oN }
  · refine ⟨core, ?_⟩
    show (s.parentMap.push none).size = (addKidAS s.nodes N n).size
    unfold addKidAS; simp [hsz]
  · show ((addKidAS s.nodes N n)[N]!).stop = E
    rw [(spanOld N hNlt).2]; exact h.stopEq
  · show kidsLS (addKidAS s.nodes N n) 0 = _
    unfold kidsLS; rw [rd 0 h0 (fun e => h.N0 e.symm)]; exact hA
  · show ((addKidAS s.nodes N n)[N]!).sub = []
    rw [rdp]; exact h.subN
  · show ChainA (addKidAS s.nodes N n) ((addKidAS s.nodes N n)[o]!).stop n.stop (kidsLS (addKidAS s.nodes N n) N)
    have e1 : kidsLS (addKidAS s.nodes N n) N = kidsLS s.nodes N ++ [s.nodes.size] := by unfold kidsLS; rw [rdp]; simp
    rw [e1, (spanOld o po.lt).2]
    refine ((h.chain.congr fun k hk' => spanOld k (inv.klt N hNlt k hk')).snoc ?_ ?_ ?_) <;> rw [rdNew]
    · exact h1
    · exact hv
    · exact Int.le_refl _
  · show ((addKidAS s.nodes N n)[N]!).start ≤ ((addKidAS s.nodes N n)[o]!).stop
    rw [(spanOld N hNlt).1, (spanOld o po.lt).2]; exact h.startN

end
end CM.Proofs.InlH
