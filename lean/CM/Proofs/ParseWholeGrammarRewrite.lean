import CM.Proofs.ParseWholeGrammarExport2
import CM.Proofs.GrammarMarker
import CM.Proofs.ParseWholeMain
/-
C05 — `Spec.grammarAt` through `Rewrite`: blocks keep their labels and the labels of their children; paragraphs and
headings get the output of `parseInlines`.
-/
namespace CM.Proofs.InlH
open CM CM.Model CM.Model.Inl CM.Spec

/-- a node without what is below its children -/
def strip (t : Tree) : Tree := .node t.label []

theorem map_strip_eq {cs cs' : List Tree} (h : cs.map (·.label) = cs'.map (·.label)) : cs.map strip = cs'.map strip := by
  have : ∀ xs : List Tree, xs.map strip = (xs.map (·.label)).map (fun l => Tree.node l []) := by
    intro xs; rw [List.map_map]; rfl
  rw [this, this, h]

theorem children_node (l : Label) (cs : List Tree) : (Tree.node l cs).children = cs := rfl
theorem label_node (l : Label) (cs : List Tree) : (Tree.node l cs).label = l := rfl
theorem strip_label (c : Tree) : (strip c).label = c.label := rfl
theorem isPhrasing_strip (c : Tree) : isPhrasing (strip c) = isPhrasing c := rfl
theorem inlineOf_strip (ks : List Nat) (c : Tree) : inlineOf ks (strip c) = inlineOf ks c := rfl
theorem isContainerChild_strip (c : Tree) : isContainerChild (strip c) = isContainerChild c := rfl
theorem isI_strip (c : Tree) (k : Nat) : T.isI (strip c) k = T.isI c k := rfl
theorem isB_strip (c : Tree) (k : Nat) : T.isB (strip c) k = T.isB c k := rfl

/-- the rule at a block looks at the labels of the children only -/
theorem grammarAt_strip (l : Label) (hb : l.isBlock = true) (cs : List Tree) :
    grammarAt (.node l (cs.map strip)) = grammarAt (.node l cs) := by
  rcases cs with _ | ⟨a, _ | ⟨b, _ | ⟨c, _ | ⟨d, r⟩⟩⟩⟩ <;>
    simp -failIfUnchanged only [grammarAt, children_node, label_node, hb, if_true, List.all_map, Function.comp_def, List.map_cons,
      List.map_nil, isPhrasing_strip, inlineOf_strip, isContainerChild_strip, isI_strip, isB_strip, strip_label,
      List.all_cons, List.all_nil, List.isEmpty_cons, List.isEmpty_nil] <;> rfl

theorem grammarAt_block_congr {l : Label} {cs cs' : List Tree} (hb : l.isBlock = true)
    (h : cs.map (·.label) = cs'.map (·.label)) : grammarAt (.node l cs) = grammarAt (.node l cs') := by
  rw [← grammarAt_strip l hb cs, ← grammarAt_strip l hb cs', map_strip_eq h]

theorem orderedItemOK_congr (S : Bytes) {l : Label} {cs cs' : List Tree}
    (h : cs.map (·.label) = cs'.map (·.label)) : orderedItemOK S (.node l cs) = orderedItemOK S (.node l cs') := by
  unfold orderedItemOK
  cases cs with
  | nil => cases cs' with
    | nil => rfl
    | cons _ _ => cases h
  | cons a r => cases cs' with
    | nil => cases h
    | cons a' r' =>
      simp only [List.map_cons, List.cons.injEq] at h
      simp only [Tree.children, T.slice, h.1]
      rfl

/-! ### what `phase1At` says about a block -/

theorem isUnparsed_iff {c : Tree} : isUnparsed c = true ↔ c.label.isBlock = false ∧ c.label.kind = IK.unparsed := by
  unfold isUnparsed Node.isI
  simp

theorem inlineOf_notU {ks : List Nat} (hks : ks.contains IK.unparsed = false) {c : Tree} (h : inlineOf ks c = true) :
    isUnparsed c = false := by
  cases hu : isUnparsed c with
  | false => rfl
  | true =>
    obtain ⟨_, hk⟩ := isUnparsed_iff.1 hu
    unfold inlineOf T.isBlock T.kind at h
    rw [hk, hks] at h
    simp at h

theorem block_notU {c : Tree} (h : c.label.isBlock = true) : isUnparsed c = false := by
  cases hu : isUnparsed c with
  | false => rfl
  | true => rw [(isUnparsed_iff.1 hu).1] at h; cases h

theorem isI_notU {c : Tree} {k : Nat} (hk : k ≠ IK.unparsed) (h : T.isI c k = true) : isUnparsed c = false := by
  cases hu : isUnparsed c with
  | false => rfl
  | true =>
    obtain ⟨_, hk'⟩ := isUnparsed_iff.1 hu
    unfold T.isI at h
    simp only [Bool.and_eq_true, beq_iff_eq] at h
    rw [hk'] at h; exact absurd h.2.symm hk

theorem all_notU {cs : List Tree} {p : Tree → Bool} (hp : ∀ c, p c = true → isUnparsed c = false)
    (h : cs.all p = true) : hasUnparsed cs = false := by
  unfold hasUnparsed
  rw [List.any_eq_false]
  rw [List.all_eq_true] at h
  intro c hc
  rw [hp c (h c hc)]; simp

/-- only paragraphs and headings hold `Unparsed` runs -/
theorem phase1_unparsed_kind {l : Label} {cs : List Tree} (hb : l.isBlock = true) (h : phase1At (.node l cs) = true)
    (hu : hasUnparsed cs = true) : l.kind = BK.paragraph ∨ l.kind = BK.atxHeading ∨ l.kind = BK.setextHeading := by
  by_cases h1 : l.kind = BK.paragraph
  · exact Or.inl h1
  by_cases h2 : l.kind = BK.atxHeading
  · exact Or.inr (Or.inl h2)
  by_cases h3 : l.kind = BK.setextHeading
  · exact Or.inr (Or.inr h3)
  exfalso
  rw [phase1At_eq_grammarAt _ (by rw [label_node, if_pos hb]; exact ⟨h1, h2, h3⟩)] at h
  have hcontra : hasUnparsed cs = false := by
    unfold grammarAt at h
    dsimp only [children_node, label_node] at h
    simp only [hb, if_true] at h
    have hU1 : ∀ (a : Tree) (r : List Tree), isUnparsed a = false → hasUnparsed r = false → hasUnparsed (a :: r) = false := by
      intro a r ha hr; unfold hasUnparsed at hr ⊢; rw [List.any_cons, ha, hr]; rfl
    have hCC : ∀ c, isContainerChild c = true → isUnparsed c = false := by
      intro c hc
      refine block_notU ?_
      unfold isContainerChild T.isBlock at hc; simp only [Bool.and_eq_true] at hc; exact hc.1
    have hBB : ∀ c k, T.isB c k = true → isUnparsed c = false := by
      intro c k hc
      refine block_notU ?_
      unfold T.isB at hc; simp only [Bool.and_eq_true] at hc; exact hc.1
    rw [if_neg (by simpa using h1)] at h
    by_cases k2 : (l.kind == BK.thematicBreak) = true
    · rw [if_pos k2, List.isEmpty_iff] at h; subst h; rfl
    rw [if_neg k2, if_neg (by simpa using h2), if_neg (by simpa using h3)] at h
    by_cases k5 : (l.kind == BK.indentedCode) = true
    · rw [if_pos k5] at h; exact all_notU (fun c hc => inlineOf_notU rfl hc) h
    rw [if_neg k5] at h
    by_cases k6 : (l.kind == BK.fencedCode) = true
    · rw [if_pos k6] at h
      cases cs with
      | nil => rfl
      | cons c rest =>
        simp only [Bool.and_eq_true, Bool.or_eq_true] at h
        refine hU1 _ _ ?_ (all_notU (fun c hc => inlineOf_notU rfl hc) h.2)
        rcases h.1 with hi | hi
        · exact isI_notU (by decide) hi
        · exact inlineOf_notU rfl hi
    rw [if_neg k6] at h
    by_cases k7 : (l.kind == BK.htmlBlock) = true
    · rw [if_pos k7] at h; exact all_notU (fun c hc => inlineOf_notU rfl hc) h
    rw [if_neg k7] at h
    by_cases k8 : (l.kind == BK.linkRefDef) = true
    · rw [if_pos k8] at h
      rcases cs with _ | ⟨a, _ | ⟨b, _ | ⟨c, _ | ⟨d, r⟩⟩⟩⟩
      · cases h
      · cases h
      · simp only [Bool.and_eq_true] at h
        exact hU1 _ _ (isI_notU (by decide) h.1) (hU1 _ _ (isI_notU (by decide) h.2) rfl)
      · simp only [Bool.and_eq_true] at h
        exact hU1 _ _ (isI_notU (by decide) h.1.1) (hU1 _ _ (isI_notU (by decide) h.1.2) (hU1 _ _ (isI_notU (by decide) h.2) rfl))
      · cases h
    rw [if_neg k8] at h
    by_cases k9 : (l.kind == BK.blockQuote) = true
    · rw [if_pos k9] at h; exact all_notU hCC h
    rw [if_neg k9] at h
    by_cases k10 : (l.kind == BK.listItem) = true
    · rw [if_pos k10] at h
      cases cs with
      | nil => cases h
      | cons m rest =>
        simp only [Bool.and_eq_true] at h
        exact hU1 _ _ (hBB _ _ h.1) (all_notU hCC h.2)
    rw [if_neg k10] at h
    by_cases k11 : (l.kind == BK.list) = true
    · rw [if_pos k11] at h
      simp only [Bool.and_eq_true] at h
      refine all_notU (fun c hc => ?_) h.2
      simp only [Bool.and_eq_true] at hc
      exact hBB _ _ hc.1.1
    rw [if_neg k11] at h
    by_cases k12 : (l.kind == BK.listMarker) = true
    · rw [if_pos k12, List.isEmpty_iff] at h; subst h; rfl
    · rw [if_neg k12] at h; cases h
  rw [hcontra] at hu; cases hu

theorem inlineOf_ui {c : Tree} (h : inlineOf [IK.unparsed, IK.indent] c = true) :
    c.label.isBlock = false ∧ (c.label.kind = IK.unparsed ∨ c.label.kind = IK.indent) := by
  unfold inlineOf T.isBlock T.kind at h
  simp only [Bool.and_eq_true, Bool.not_eq_true', List.contains_iff_mem, List.mem_cons, List.mem_nil_iff, or_false] at h
  exact h

theorem ui_phrasing {cs : List Tree} (h : cs.all (inlineOf [IK.unparsed, IK.indent]) = true)
    (hu : hasUnparsed cs = false) : cs.all isPhrasing = true := by
  rw [List.all_eq_true] at h ⊢
  unfold hasUnparsed at hu
  rw [List.any_eq_false] at hu
  intro c hc
  obtain ⟨hb, hk⟩ := inlineOf_ui (h c hc)
  rcases hk with hk | hk
  · exact absurd (isUnparsed_iff.2 ⟨hb, hk⟩) (hu c hc)
  · unfold isPhrasing T.isBlock T.kind
    rw [hb, hk]; rfl

/-- a block without `Unparsed` children satisfies the final rule already -/
theorem phase1_noUnparsed {l : Label} {cs : List Tree} (hb : l.isBlock = true) (h : phase1At (.node l cs) = true)
    (hu : hasUnparsed cs = false) : grammarAt (.node l cs) = true := by
  unfold phase1At at h
  dsimp only [children_node, label_node] at h
  simp only [hb, if_true] at h
  unfold grammarAt
  dsimp only [children_node, label_node]
  simp only [hb, if_true]
  by_cases k1 : (l.kind == BK.paragraph) = true
  · rw [if_pos k1] at h ⊢; exact ui_phrasing h hu
  rw [if_neg k1] at h ⊢
  have k1' : l.kind ≠ BK.paragraph := by simpa using k1
  by_cases k2 : (l.kind == BK.atxHeading) = true
  · have k2' : l.kind = BK.atxHeading := by simpa using k2
    rw [if_pos k2] at h
    rw [if_neg (by rw [k2']; decide), if_pos k2]
    simp only [Bool.and_eq_true] at h ⊢
    exact ⟨⟨ui_phrasing h.1.1 hu, h.1.2⟩, h.2⟩
  rw [if_neg k2] at h
  by_cases k3 : (l.kind == BK.setextHeading) = true
  · have k3' : l.kind = BK.setextHeading := by simpa using k3
    rw [if_pos k3] at h
    rw [if_neg (by rw [k3']; decide), if_neg k2, if_pos k3]
    simp only [Bool.and_eq_true] at h ⊢
    exact ⟨⟨ui_phrasing h.1.1 hu, h.1.2⟩, h.2⟩
  rw [if_neg k3] at h
  unfold grammarAt at h
  dsimp only [children_node, label_node] at h
  simp only [hb, if_true] at h
  rw [if_neg k1] at h
  exact h

/-- an inline container: its children are `Unparsed` runs and `Indent` leaves, and it accepts phrasing content -/
theorem phase1_container {l : Label} {cs : List Tree} (hb : l.isBlock = true) (h : phase1At (.node l cs) = true)
    (hk : l.kind = BK.paragraph ∨ l.kind = BK.atxHeading ∨ l.kind = BK.setextHeading)
    (hcs : ∀ c ∈ cs, phase1At c = true) :
    UOK cs ∧ ∀ kids : List Tree, kids.all isPhrasing = true → grammarAt (.node l kids) = true := by
  unfold phase1At at h
  dsimp only [children_node, label_node] at h
  simp only [hb, if_true] at h
  have hall : cs.all (inlineOf [IK.unparsed, IK.indent]) = true ∧
      ∀ kids : List Tree, kids.all isPhrasing = true → grammarAt (.node l kids) = true := by
    rcases hk with hk | hk | hk
    · rw [if_pos (by rw [hk]; rfl)] at h
      refine ⟨h, fun kids hkids => ?_⟩
      unfold grammarAt
      dsimp only [children_node, label_node]
      simp only [hb, if_true]
      rw [if_pos (by rw [hk]; rfl)]; exact hkids
    · rw [if_neg (by rw [hk]; decide), if_pos (by rw [hk]; rfl)] at h
      simp only [Bool.and_eq_true] at h
      refine ⟨h.1.1, fun kids hkids => ?_⟩
      unfold grammarAt
      dsimp only [children_node, label_node]
      simp only [hb, if_true]
      rw [if_neg (by rw [hk]; decide), if_neg (by rw [hk]; decide), if_pos (by rw [hk]; rfl)]
      simp only [Bool.and_eq_true]
      exact ⟨⟨hkids, h.1.2⟩, h.2⟩
    · rw [if_neg (by rw [hk]; decide), if_neg (by rw [hk]; decide), if_pos (by rw [hk]; rfl)] at h
      simp only [Bool.and_eq_true] at h
      refine ⟨h.1.1, fun kids hkids => ?_⟩
      unfold grammarAt
      dsimp only [children_node, label_node]
      simp only [hb, if_true]
      rw [if_neg (by rw [hk]; decide), if_neg (by rw [hk]; decide), if_neg (by rw [hk]; decide),
        if_pos (by rw [hk]; rfl)]
      simp only [Bool.and_eq_true]
      exact ⟨⟨hkids, h.1.2⟩, h.2⟩
  refine ⟨?_, hall.2⟩
  intro c hc
  obtain ⟨hcb, hck⟩ := inlineOf_ui ((List.all_eq_true.1 hall.1) c hc)
  refine ⟨hcb, hck, ?_⟩
  have hp := hcs c hc
  obtain ⟨lc, ccs⟩ := c
  change lc.isBlock = false at hcb
  change lc.kind = IK.unparsed ∨ lc.kind = IK.indent at hck
  unfold phase1At at hp
  dsimp only [children_node, label_node] at hp
  simp only [hcb, Bool.false_eq_true, if_false] at hp
  rcases hck with hck | hck
  · rw [if_pos (by rw [hck]; rfl)] at hp
    exact List.isEmpty_iff.1 hp
  · rw [if_neg (by rw [hck]; decide)] at hp
    unfold grammarAt at hp
    dsimp only [children_node, label_node] at hp
    simp only [hcb, Bool.false_eq_true, if_false] at hp
    rw [if_pos (by rw [hck]; rfl)] at hp
    exact List.isEmpty_iff.1 hp

end CM.Proofs.InlH
