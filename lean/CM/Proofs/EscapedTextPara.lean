import CM.Proofs.EscapedTextDefs
import CM.Proofs.LeafBlocksPara
/-
C06, escaped text — the line `esc s` is a paragraph line: it starts no other block (`paraFirstOK`, the side condition
of `paragraph_leaf`), for every non-empty `s` without LF/CR/NUL that does not begin with a space or a tab: its first
byte is a backslash or a byte that is no ASCII punctuation, and an escaped text has no list marker (`1\.`).
-/
namespace CM.Proofs.EscText
open CM CM.Gen CM.Model CM.Proofs.Leaf

/-- The side conditions on `s` for the one-line document `esc s` + LF. -/
def lineTextOK (s : Bytes) : Bool :=
  s.all (fun b => b != LF && b != CR && b != 0) && (match s with | [] => false | b :: _ => b != SP && b != TAB)

theorem plainLine_esc (s : Bytes) (h : s.all (fun b => b != LF && b != CR && b != 0) = true) : plainLine (esc s) = true := by
  induction s with
  | nil => rfl
  | cons b r ih =>
    simp only [List.all_cons, Bool.and_eq_true] at h
    have ihr := ih h.2
    rw [esc]
    unfold plainLine at ihr ⊢
    split
    · simp only [List.all_cons, Bool.and_eq_true]
      exact ⟨by decide, h.1, ihr⟩
    · simp only [List.all_cons, Bool.and_eq_true]
      exact ⟨h.1, ihr⟩

/-- No ordered-list marker inside an escaped text: the delimiter would be escaped. -/
theorem listMarkerLoop_esc (r : Bytes) : ∀ (i n : Nat), (listMarkerLoop (esc r ++ [LF]) i n).stop < 0 := by
  induction r with
  | nil => intro i n; simp [esc, listMarkerLoop, LF, isASCIIDigit, noMarker]
  | cons c r ih =>
    intro i n
    rw [esc]
    split
    · simp [listMarkerLoop, isASCIIDigit, noMarker]
    · rename_i hc
      have h1 : c ≠ 0x2E := by rintro rfl; exact hc (by decide)
      have h2 : c ≠ 0x29 := by rintro rfl; exact hc (by decide)
      simp only [List.cons_append, listMarkerLoop]
      split
      · simp [noMarker]
      · split
        · exact ih _ _
        · simp [h1, h2, noMarker]

/-- A line that begins with a byte that starts no block. -/
theorem noBlockStart_of_head (c : UInt8) (rest : Bytes)
    (hc : c = 0x5C ∨ (isASCIIPunctuation c = false ∧ c ≠ SP ∧ c ≠ TAB ∧ c ≠ LF ∧ c ≠ CR))
    (hl : (parseListMarker (c :: rest)).stop < 0) : noBlockStart false (c :: rest) = true := by
  have h3E : c ≠ 0x3E := by rcases hc with rfl | h; decide; rintro rfl; exact absurd h.1 (by decide)
  have h23 : c ≠ 0x23 := by rcases hc with rfl | h; decide; rintro rfl; exact absurd h.1 (by decide)
  have h60 : c ≠ 0x60 := by rcases hc with rfl | h; decide; rintro rfl; exact absurd h.1 (by decide)
  have h7E : c ≠ 0x7E := by rcases hc with rfl | h; decide; rintro rfl; exact absurd h.1 (by decide)
  have h3C : c ≠ 0x3C := by rcases hc with rfl | h; decide; rintro rfl; exact absurd h.1 (by decide)
  have h2D : c ≠ 0x2D := by rcases hc with rfl | h; decide; rintro rfl; exact absurd h.1 (by decide)
  have h5F : c ≠ 0x5F := by rcases hc with rfl | h; decide; rintro rfl; exact absurd h.1 (by decide)
  have h2A : c ≠ 0x2A := by rcases hc with rfl | h; decide; rintro rfl; exact absurd h.1 (by decide)
  have hSP : c ≠ SP := by rcases hc with rfl | h; decide; exact h.2.1
  have hTAB : c ≠ TAB := by rcases hc with rfl | h; decide; exact h.2.2.1
  have hLF : c ≠ LF := by rcases hc with rfl | h; decide; exact h.2.2.2.1
  have hCR : c ≠ CR := by rcases hc with rfl | h; decide; exact h.2.2.2.2
  have hth : parseThematicBreak (c :: rest) = -1 := by
    simp [parseThematicBreak, thematicLoop, h2D, h5F, h2A, hSP, hTAB, hLF, hCR]
  simp [noBlockStart, hasBytePrefix, blockQuotePrefix, h3E, parseATXHeading, countPrefix, h23, parseCodeFence, h60, h7E, h3C,
    hth, listNoStart, hl, noFence]

/-- **The line `esc s` is a paragraph line.** -/
theorem paraFirstOK_esc (s : Bytes) (h : lineTextOK s = true) : paraFirstOK (esc s) = true := by
  cases s with
  | nil => simp [lineTextOK] at h
  | cons b r =>
    simp only [lineTextOK, Bool.and_eq_true, bne_iff_ne, ne_eq] at h
    obtain ⟨hall, hsp, htab⟩ := h
    have hpl := plainLine_esc (b :: r) hall
    simp only [List.all_cons, Bool.and_eq_true, bne_iff_ne, ne_eq] at hall
    obtain ⟨⟨⟨hlf, hcr⟩, _⟩, _⟩ := hall
    unfold paraFirstOK
    rw [hpl]
    rw [esc]
    split
    · rw [show lineStartOK (0x5C :: b :: esc r) = true from rfl]
      simp only [Bool.and_self, Bool.true_and, List.cons_append]
      apply noBlockStart_of_head _ _ (Or.inl rfl)
      simp [parseListMarker, isASCIIDigit, noMarker]
    · rename_i hb
      have hls : lineStartOK (b :: esc r) = true := by simp [lineStartOK, hsp, htab]
      rw [hls]
      simp only [Bool.and_self, Bool.true_and, List.cons_append]
      apply noBlockStart_of_head _ _ (Or.inr ⟨by simpa using hb, hsp, htab, hlf, hcr⟩)
      have h2D : b ≠ 0x2D := by rintro rfl; exact hb (by decide)
      have h2B : b ≠ 0x2B := by rintro rfl; exact hb (by decide)
      have h2A : b ≠ 0x2A := by rintro rfl; exact hb (by decide)
      have hbul : (b == 0x2D || b == 0x2B || b == 0x2A) = false := by simp [h2D, h2B, h2A]
      simp only [parseListMarker, hbul, Bool.false_eq_true, if_false]
      split
      · exact listMarkerLoop_esc r _ _
      · simp [noMarker]

end CM.Proofs.EscText
