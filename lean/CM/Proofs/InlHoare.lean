import CM.Model.Inlines
import Lean.Elab.Tactic
import Std.Do
import Std.Tactic.Do
/-
A Hoare layer for the inline-phase monad `IM = StateT IState (Except IErr)` (see the long comment at the end of
this file for how to use it).
-/
namespace CM.Proofs.InlH
open CM CM.Model CM.Model.Inl
open Std.Do

set_option mvcgen.warning false

/-- The postcondition shape of `IM`: one state argument, one exception layer. -/
abbrev IShape : PostShape := .arg IState (.except IErr .pure)

/-- What `wp⟦m⟧ Q s` means for `IM`, by running `m`. -/
theorem wp_IM_eq {α} (m : IM α) (Q : PostCond α IShape) (s : IState) :
    wp⟦m⟧ Q s = (match m.run s with | .ok (a, s') => Q.1 a s' | .error e => Q.2.1 e) := by
  simp only [wp, PredTrans.pushArg, PredTrans.apply, StateT.run]
  cases m s
  · rfl
  · rfl

/-- Partial-correctness triple, stated by running the computation: from `P`, a normal end satisfies `Q`
    (a Go panic or an exhausted loop bound satisfies everything). -/
def Post {α} (P : IState → Prop) (m : IM α) (Q : α → IState → Prop) : Prop :=
  ∀ s, P s → match m.run s with
    | .ok (a, s') => Q a s'
    | .error _ => True

/-- `I` is preserved by `m`. -/
def Pres {α} (I : IState → Prop) (m : IM α) : Prop := Post I m (fun _ s' => I s')

theorem triple_iff_post {α} (P : IState → Prop) (m : IM α) (Q : α → IState → Prop) :
    ⦃fun s => ⌜P s⌝⦄ m ⦃⇓? r s => ⌜Q r s⌝⦄ ↔ Post P m Q := by
  constructor
  · intro h s hs
    have := h s hs
    rw [wp_IM_eq] at this
    split
    · rename_i a s' he; rw [he] at this; exact this
    · trivial
  · intro h s hs
    rw [wp_IM_eq]
    have := h s hs
    split
    · rename_i a s' he; rw [he] at this; exact this
    · trivial

theorem Post.of_triple {α} {P : IState → Prop} {m : IM α} {Q : α → IState → Prop}
    (h : ⦃fun s => ⌜P s⌝⦄ m ⦃⇓? r s => ⌜Q r s⌝⦄) : Post P m Q := (triple_iff_post P m Q).1 h

theorem Post.triple {α} {P : IState → Prop} {m : IM α} {Q : α → IState → Prop}
    (h : Post P m Q) : ⦃fun s => ⌜P s⌝⦄ m ⦃⇓? r s => ⌜Q r s⌝⦄ := (triple_iff_post P m Q).2 h

/-- The form in which the final theorems use a triple. -/
theorem Post.run {α} {P : IState → Prop} {m : IM α} {Q : α → IState → Prop} (h : Post P m Q)
    {s : IState} (hs : P s) {a : α} {s' : IState} (hr : m.run s = .ok (a, s')) : Q a s' := by
  have := h s hs
  rw [hr] at this
  exact this

theorem triple_run {α} {P : IState → Prop} {m : IM α} {Q : α → IState → Prop}
    (h : ⦃fun s => ⌜P s⌝⦄ m ⦃⇓? r s => ⌜Q r s⌝⦄)
    {s : IState} (hs : P s) {a : α} {s' : IState} (hr : m.run s = .ok (a, s')) : Q a s' :=
  (Post.of_triple h).run hs hr

/-! ### the hand-rolled rules (for the few places where `mvcgen` is not wanted) -/

theorem run_goPanic {α} (msg : String) (s : IState) : (goPanic msg : IM α).run s = .error (IErr.panic msg) := rfl
theorem run_outOfFuel {α} (site : String) (s : IState) : (outOfFuel site : IM α).run s = .error (IErr.fuel site) := rfl
theorem run_pure {α} (a : α) (s : IState) : (pure a : IM α).run s = .ok (a, s) := rfl
theorem run_get (s : IState) : (get : IM IState).run s = .ok (s, s) := rfl
theorem run_set (s' s : IState) : (set s' : IM PUnit).run s = .ok (⟨⟩, s') := rfl
theorem run_modify (f : IState → IState) (s : IState) : (modify f : IM PUnit).run s = .ok (⟨⟩, f s) := rfl

theorem run_bind {α β} (m : IM α) (f : α → IM β) (s : IState) :
    (m >>= f).run s = match m.run s with
      | .ok (a, s') => (f a).run s'
      | .error e => .error e := by
  show (m s >>= fun p => f p.1 p.2) = _
  simp only [StateT.run]
  cases m s <;> rfl

theorem Post.pure {α} {P : IState → Prop} {a : α} {Q : α → IState → Prop} (h : ∀ s, P s → Q a s) :
    Post P (pure a : IM α) Q := fun s hs => by rw [run_pure]; exact h s hs

theorem Post.throw {α} {P : IState → Prop} {e : IErr} {Q : α → IState → Prop} : Post P (throw e : IM α) Q :=
  fun _ _ => trivial

theorem Post.bind {α β} {P : IState → Prop} {m : IM α} {f : α → IM β} {Q : α → IState → Prop}
    {R : β → IState → Prop} (hm : Post P m Q) (hf : ∀ a, Post (Q a) (f a) R) : Post P (m >>= f) R := by
  intro s hs
  rw [run_bind]
  have := hm s hs
  cases hr : m.run s with
  | error e => trivial
  | ok p =>
    rw [hr] at this
    exact hf p.1 p.2 this

theorem Post.conseq {α} {P P' : IState → Prop} {m : IM α} {Q Q' : α → IState → Prop} (h : Post P' m Q')
    (hp : ∀ s, P s → P' s) (hq : ∀ a s, Q' a s → Q a s) : Post P m Q := by
  intro s hs
  have := h s (hp s hs)
  cases hr : m.run s with
  | error e => trivial
  | ok p => rw [hr] at this; exact hq _ _ this

theorem Post.ite {α} {P : IState → Prop} {c : Prop} [Decidable c] {m₁ m₂ : IM α} {Q : α → IState → Prop}
    (h₁ : c → Post P m₁ Q) (h₂ : ¬ c → Post P m₂ Q) : Post P (if c then m₁ else m₂) Q := by
  split
  · exact h₁ ‹_›
  · exact h₂ ‹_›

theorem Post.get {P : IState → Prop} : Post P (get : IM IState) (fun r s => r = s ∧ P s) :=
  fun s hs => by rw [run_get]; exact ⟨rfl, hs⟩

theorem Post.modify {P : IState → Prop} {f : IState → IState} {Q : PUnit → IState → Prop}
    (h : ∀ s, P s → Q ⟨⟩ (f s)) : Post P (modify f : IM PUnit) Q :=
  fun s hs => by rw [run_modify]; exact h s hs

/-- `for` loops over a range (`break` / `continue` / early `return` are just `ForInStep`s of the body): an
    invariant of the body for every index and every value of the mutable variables is an invariant of the loop. -/
theorem Post.forIn_list {α β} {I : β → IState → Prop} (f : α → β → IM (ForInStep β))
    (hf : ∀ x b, Post (I b) (f x b) (fun r s => I r.value s)) :
    ∀ (l : List α) (init : β), Post (I init) (forIn l init f) I := by
  intro l
  induction l with
  | nil => intro init; exact Post.pure (fun s hs => hs)
  | cons x xs ih =>
    intro init
    rw [List.forIn_cons]
    refine Post.bind (hf x init) ?_
    intro r
    cases r with
    | done b => exact Post.pure (fun s hs => hs)
    | yield b => exact ih b

theorem Post.forIn_range {β} {I : β → IState → Prop} (f : Nat → β → IM (ForInStep β))
    (hf : ∀ x b, Post (I b) (f x b) (fun r s => I r.value s)) (rg : Std.Legacy.Range) (init : β) :
    Post (I init) (forIn rg init f) I := by
  rw [Std.Legacy.Range.forIn_eq_forIn_range']
  exact Post.forIn_list f hf _ init

theorem Post.forIn_array {α β} {I : β → IState → Prop} (f : α → β → IM (ForInStep β))
    (hf : ∀ x b, Post (I b) (f x b) (fun r s => I r.value s)) (a : Array α) (init : β) :
    Post (I init) (forIn a init f) I := by
  rw [← Array.forIn_toList]
  exact Post.forIn_list f hf _ init

/-! ### tactics -/

/-- After `mvcgen`: give every `for` loop of the function the same invariant `I` on the state (the loop's
    mutable variables are unconstrained). Loops that need more get their invariant by hand *before* this
    (`case inv<k> => exact ⇓? ⟨xs, b⟩ s => ⌜…⌝`). -/
macro "inl_inv " I:term : tactic =>
  `(tactic| all_goals (try (exact (PostCond.mayThrow (fun _ s => ⌜$I s⌝)))))

/-- Beta/projection-normalise the verification conditions after the invariants were filled in. -/
macro "inl_norm" : tactic =>
  `(tactic| all_goals (try simp only [PostCond.mayThrow, SPred.down_pure] at *))

open Lean Elab Tactic Meta in
/-- Split every hypothesis `s' = s ∧ rest` about states and substitute the equation (the read-only
    specifications say `s' = s0 ∧ …`). -/
elab "inl_subst" : tactic => do
  for _ in [0:64] do
    let g ← getMainGoal
    let found ← g.withContext do
      let mut r : Option FVarId := none
      for d in (← getLCtx) do
        if d.isImplementationDetail then continue
        let ty ← instantiateMVars d.type
        if ty.isAppOfArity ``And 2 then
          let l := ty.getArg! 0
          if l.isAppOfArity ``Eq 3 && (l.getArg! 0).isConstOf ``CM.Model.Inl.IState then
            r := some d.fvarId
            break
      pure r
    match found with
    | none => return
    | some fv =>
      let subgoals ← g.cases fv
      let some sg := subgoals[0]? | return
      let hEq := sg.fields[0]!.fvarId!
      let g' ← try subst sg.mvarId hEq catch _ => pure sg.mvarId
      replaceMainGoal [g']

/-! ### panics and fuel exhaustion: nothing to prove after them -/

@[spec]
theorem goPanic_spec {α} (msg : String) (P : IState → Prop) :
    ⦃fun s => ⌜P s⌝⦄ (goPanic msg : IM α) ⦃⇓? _ _ => ⌜False⌝⦄ := by
  intro s _
  rw [wp_IM_eq]
  trivial

@[spec]
theorem outOfFuel_spec {α} (site : String) (P : IState → Prop) :
    ⦃fun s => ⌜P s⌝⦄ (outOfFuel site : IM α) ⦃⇓? _ _ => ⌜False⌝⦄ := by
  intro s _
  rw [wp_IM_eq]
  trivial

/-! ### read-only helpers: the state is unchanged (ghost `s0`), the result is what was read -/

theorem srcAt_post (c : ICtx) (i : Int) (s0 : IState) :
    Post (· = s0) (srcAt c i) (fun r s => s = s0 ∧ 0 ≤ i ∧ i < c.srcA.size ∧ r = c.srcA[i.toNat]!) := by
  unfold srcAt
  refine Post.ite (fun _ => Post.throw) (fun h => Post.pure fun s hs => ?_)
  simp at h
  exact ⟨hs, by omega, by omega, rfl⟩

@[spec]
theorem srcAt_spec (c : ICtx) (i : Int) (s0 : IState) :
    ⦃fun s => ⌜s = s0⌝⦄ srcAt c i
    ⦃⇓? r s => ⌜s = s0 ∧ 0 ≤ i ∧ i < c.srcA.size ∧ r = c.srcA[i.toNat]!⌝⦄ := (srcAt_post c i s0).triple

@[spec]
theorem srcSlice_spec (c : ICtx) (lo hi : Int) (s0 : IState) :
    ⦃fun s => ⌜s = s0⌝⦄ srcSlice c lo hi
    ⦃⇓? r s => ⌜s = s0 ∧ 0 ≤ lo ∧ lo ≤ hi ∧ hi ≤ c.srcA.size ∧ r = (c.srcA.extract lo.toNat hi.toNat).toList⌝⦄ := by
  apply Post.triple
  unfold srcSlice
  refine Post.ite (fun _ => Post.throw) (fun h => Post.pure fun s hs => ?_)
  simp at h
  exact ⟨hs, by omega, by omega, by omega, rfl⟩

theorem srcIs_post (c : ICtx) (i : Int) (b : UInt8) (s0 : IState) :
    Post (· = s0) (srcIs c i b) (fun r s => s = s0 ∧ 0 ≤ i ∧ i < c.srcA.size ∧ r = (c.srcA[i.toNat]! == b)) := by
  unfold srcIs
  refine Post.bind (srcAt_post c i s0) (fun a => Post.pure fun s hs => ?_)
  obtain ⟨h1, h2, h3, rfl⟩ := hs
  exact ⟨h1, h2, h3, rfl⟩

@[spec]
theorem srcIs_spec (c : ICtx) (i : Int) (b : UInt8) (s0 : IState) :
    ⦃fun s => ⌜s = s0⌝⦄ srcIs c i b
    ⦃⇓? r s => ⌜s = s0 ∧ 0 ≤ i ∧ i < c.srcA.size ∧ r = (c.srcA[i.toNat]! == b)⌝⦄ := (srcIs_post c i b s0).triple

@[spec]
theorem guardAt_spec (cond : Bool) (c : ICtx) (i : Int) (b : UInt8) (s0 : IState) :
    ⦃fun s => ⌜s = s0⌝⦄ guardAt cond c i b
    ⦃⇓? r s => ⌜s = s0 ∧ (r = true → cond = true ∧ 0 ≤ i ∧ i < c.srcA.size ∧ c.srcA[i.toNat]! = b)⌝⦄ := by
  apply Post.triple
  unfold guardAt
  refine Post.ite (fun hc => (srcIs_post c i b s0).conseq (fun _ h => h) ?_) (fun _ => Post.pure fun s hs => ?_)
  · intro a s ⟨h1, h2, h3, h4⟩
    exact ⟨h1, fun hp => ⟨hc, h2, h3, by rw [h4] at hp; simpa using hp⟩⟩
  · exact ⟨hs, fun h => by cases h⟩

@[spec]
theorem unparsedFrom_spec (c : ICtx) (s0 : IState) :
    ⦃fun s => ⌜s = s0⌝⦄ unparsedFrom c
    ⦃⇓? r s => ⌜s = s0 ∧ r = c.unparsedL.drop s0.unparsedPos⌝⦄ := by
  apply Post.triple
  unfold unparsedFrom
  refine Post.bind Post.get (fun a => Post.ite (fun _ => Post.throw) (fun _ => Post.pure fun s hs => ?_))
  obtain ⟨rfl, rfl⟩ := hs
  exact ⟨rfl, rfl⟩

@[spec]
theorem unparsedAt_spec (c : ICtx) (s0 : IState) :
    ⦃fun s => ⌜s = s0⌝⦄ unparsedAt c
    ⦃⇓? r s => ⌜s = s0 ∧ c.unparsed[s0.unparsedPos]? = some r⌝⦄ := by
  apply Post.triple
  unfold unparsedAt
  refine Post.bind Post.get (fun a => ?_)
  split
  · rename_i t ht
    exact Post.pure fun s hs => by obtain ⟨rfl, rfl⟩ := hs; exact ⟨rfl, ht⟩
  · exact Post.throw

/-! ### read-only computations -/

/-- `m` does not change the state. -/
structure RO {α} (m : IM α) : Prop where
  post : ∀ s0, Post (· = s0) m (fun _ s => s = s0)

theorem RO.pure {α} (a : α) : RO (pure a : IM α) := ⟨fun _ => Post.pure fun _ h => h⟩
theorem RO.throw {α} (e : IErr) : RO (throw e : IM α) := ⟨fun _ => Post.throw⟩
theorem RO.goPanic {α} (msg : String) : RO (goPanic msg : IM α) := ⟨fun _ => Post.throw⟩
theorem RO.outOfFuel {α} (msg : String) : RO (outOfFuel msg : IM α) := ⟨fun _ => Post.throw⟩
theorem RO.bind {α β} {m : IM α} {f : α → IM β} (hm : RO m) (hf : ∀ a, RO (f a)) : RO (m >>= f) :=
  ⟨fun s0 => Post.bind (hm.post s0) (fun a => (hf a).post s0)⟩
theorem RO.ite {α} {p : Prop} [Decidable p] {m₁ m₂ : IM α} (h₁ : RO m₁) (h₂ : RO m₂) : RO (if p then m₁ else m₂) := by
  split
  · exact h₁
  · exact h₂
theorem RO.get : RO (get : IM IState) := ⟨fun _ => Post.get.conseq (fun _ h => h) (fun _ _ h => h.2)⟩
theorem RO.forIn_range {β} {f : Nat → β → IM (ForInStep β)} (hf : ∀ x b, RO (f x b)) (rg : Std.Legacy.Range) (init : β) :
    RO (forIn rg init f) := ⟨fun s0 => Post.forIn_range (I := fun _ s => s = s0) f (fun x b => (hf x b).post s0) rg init⟩
theorem RO.forIn_array {α β} {f : α → β → IM (ForInStep β)} (hf : ∀ x b, RO (f x b)) (a : Array α) (init : β) :
    RO (forIn a init f) := ⟨fun s0 => Post.forIn_array (I := fun _ s => s = s0) f (fun x b => (hf x b).post s0) a init⟩
theorem RO.srcAt (c : ICtx) (i : Int) : RO (srcAt c i) := ⟨fun s0 => (srcAt_post c i s0).conseq (fun _ h => h) (fun _ _ h => h.1)⟩
theorem RO.srcIs (c : ICtx) (i : Int) (b : UInt8) : RO (srcIs c i b) :=
  ⟨fun s0 => (srcIs_post c i b s0).conseq (fun _ h => h) (fun _ _ h => h.1)⟩
theorem RO.srcSlice (c : ICtx) (lo hi : Int) : RO (Inl.srcSlice c lo hi) := by
  unfold Inl.srcSlice; exact RO.ite (RO.goPanic _) (RO.pure _)

theorem RO.unparsedFrom (c : ICtx) : RO (unparsedFrom c) := by
  unfold Inl.unparsedFrom
  exact RO.bind RO.get (fun _ => RO.ite (RO.goPanic _) (RO.pure _))

theorem RO.spanEnd (c : ICtx) : RO (spanEnd c) := by
  unfold Inl.spanEnd
  exact RO.bind RO.get (fun _ => RO.pure _)

/-- one step of the structural descent proving `RO m` -/
macro "inl_ro1" : tactic =>
  `(tactic| (first
      | with_reducible exact RO.pure _ | with_reducible exact RO.goPanic _ | with_reducible exact RO.outOfFuel _
      | with_reducible exact RO.throw _ | with_reducible exact RO.get
      | with_reducible exact RO.srcAt _ _ | with_reducible exact RO.srcIs _ _ _ | with_reducible exact RO.srcSlice _ _ _
      | with_reducible exact RO.unparsedFrom _ | with_reducible exact RO.spanEnd _
      | with_reducible apply RO.bind | with_reducible apply RO.ite
      | with_reducible apply RO.forIn_range | with_reducible apply RO.forIn_array
      | split | intro _))

/-- `RO m` for a function `m` of the model built from read-only pieces: `unfold m; inl_ro`. -/
macro "inl_ro" : tactic => `(tactic| (dsimp only; repeat inl_ro1))

theorem triple_true {α} (m : IM α) : ⦃fun _ => ⌜True⌝⦄ m ⦃⇓? _ _ => ⌜True⌝⦄ := by
  apply Post.triple
  intro s _
  cases m.run s <;> trivial

/-- A read-only computation: a state-free specification (which `mvcgen +jp` can prove even for functions with many
    join points: `+jp` forgets the state at join points) gives the full one. -/
theorem RO.spec {α} {m : IM α} {Q : α → Prop} (hro : RO m)
    (hQ : ⦃fun _ => ⌜True⌝⦄ m ⦃⇓? r _ => ⌜Q r⌝⦄) (s0 : IState) :
    ⦃fun s => ⌜s = s0⌝⦄ m ⦃⇓? r s => ⌜s = s0 ∧ Q r⌝⦄ := by
  apply Post.triple
  intro s hs
  have h1 := hro.post s0 s hs
  have h2 := (Post.of_triple hQ) s trivial
  cases hr : m.run s with
  | error e => trivial
  | ok p =>
    rw [hr] at h1 h2
    exact ⟨h1, h2⟩

/-! ### arrays of nodes -/

/-- Every node of the arena satisfies `φ`. -/
def ANodes (φ : INode → Prop) (a : Array INode) : Prop := ∀ i, (h : i < a.size) → φ a[i]

theorem ANodes.push {φ : INode → Prop} {a : Array INode} {n : INode} (h : ANodes φ a) (hn : φ n) :
    ANodes φ (a.push n) := by
  intro i hi
  rw [Array.getElem_push]
  split
  · exact h _ _
  · exact hn

theorem ANodes.modify {φ : INode → Prop} {a : Array INode} {id : Nat} {f : INode → INode} (h : ANodes φ a)
    (hf : ∀ hid : id < a.size, φ (f a[id])) : ANodes φ (a.modify id f) := by
  intro i hi
  simp only [Array.size_modify] at hi
  simp only [Array.getElem_modify]
  split
  · rename_i heq; subst heq; exact hf hi
  · exact h _ _

theorem ANodes.get! {φ : INode → Prop} {a : Array INode} (h : ANodes φ a) {id : Nat} (hid : id < a.size) :
    φ (a[id]!) := by
  rw [getElem!_pos a id hid]; exact h id hid

theorem ANodes.singleton {φ : INode → Prop} {n : INode} (hn : φ n) : ANodes φ #[n] := by
  intro i hi
  have : i = 0 := by simpa using hi
  subst this
  exact hn

/-- The node at index `id` exists and its kind satisfies `P`. Stable: no operation of the model changes the kind
    of an existing node. -/
def KindP (P : Nat → Prop) (a : Array INode) (id : Nat) : Prop := id < a.size ∧ P (a[id]!).kind

/-- `f` does not change the kind of a node. -/
def KPres (f : INode → INode) : Prop := ∀ n, (f n).kind = n.kind

theorem getElem!_push_lt {a : Array INode} {n : INode} {id : Nat} (h : id < a.size) : (a.push n)[id]! = a[id]! := by
  rw [getElem!_pos (a.push n) id (by simp; omega), getElem!_pos a id h, Array.getElem_push_lt]

theorem getElem!_push_size {a : Array INode} {n : INode} : (a.push n)[a.size]! = n := by
  rw [getElem!_pos (a.push n) a.size (by simp)]; simp

theorem kind_modify {a : Array INode} {j id : Nat} {f : INode → INode} (hf : KPres f) :
    ((a.modify j f)[id]!).kind = (a[id]!).kind := by
  by_cases hid : id < a.size
  · rw [getElem!_pos (a.modify j f) id (by simpa using hid), getElem!_pos a id hid, Array.getElem_modify]
    split
    · rename_i h; subst h; exact hf _
    · rfl
  · rw [getElem!_neg (a.modify j f) id (by simpa using hid), getElem!_neg a id hid]

theorem KindP.push {P : Nat → Prop} {a : Array INode} {id : Nat} {n : INode} (h : KindP P a id) :
    KindP P (a.push n) id := by
  refine ⟨by simp; exact Nat.lt_succ_of_lt h.1, ?_⟩
  rw [getElem!_push_lt h.1]; exact h.2

theorem KindP.push_new {P : Nat → Prop} {a : Array INode} {n : INode} (h : P n.kind) :
    KindP P (a.push n) a.size := by
  refine ⟨by simp, ?_⟩
  rw [getElem!_push_size]; exact h

theorem KindP.modify {P : Nat → Prop} {a : Array INode} {id j : Nat} {f : INode → INode} (hf : KPres f)
    (h : KindP P a id) : KindP P (a.modify j f) id := by
  refine ⟨by simpa using h.1, ?_⟩
  rw [kind_modify hf]; exact h.2

theorem KindP.mono {P Q : Nat → Prop} {a : Array INode} {id : Nat} (h : KindP P a id) (hpq : ∀ k, P k → Q k) :
    KindP Q a id := ⟨h.1, hpq _ h.2⟩

/-- Kinds of existing nodes are the same in `a'` (the arena only grows, kinds never change): what a specification
    says about the arena it started from (a "frame"), so that facts about node kinds survive a call. -/
def KExt (a a' : Array INode) : Prop := ∀ (P : Nat → Prop) (id : Nat), KindP P a id → KindP P a' id

theorem KExt.refl (a : Array INode) : KExt a a := fun _ _ h => h
theorem KExt.trans {a b c : Array INode} (h1 : KExt a b) (h2 : KExt b c) : KExt a c := fun P id h => h2 P id (h1 P id h)
theorem KExt.push (a : Array INode) (n : INode) : KExt a (a.push n) := fun _ _ h => h.push
theorem KExt.modify (a : Array INode) (j : Nat) {f : INode → INode} (hf : KPres f) : KExt a (a.modify j f) :=
  fun _ _ h => h.modify hf
theorem KindP.ext {P : Nat → Prop} {a a' : Array INode} {id : Nat} (h : KindP P a id) (he : KExt a a') : KindP P a' id :=
  he P id h

/-- The version of `ANodes.modify` for modifications that are only sound on nodes of certain kinds. -/
theorem ANodes.modifyK {φ : INode → Prop} {P : Nat → Prop} {a : Array INode} {id : Nat} {f : INode → INode}
    (h : ANodes φ a) (hk : KindP P a id) (hf : ∀ n, φ n → P n.kind → φ (f n)) : ANodes φ (a.modify id f) := by
  refine h.modify fun hid => hf _ (h id hid) ?_
  have := hk.2
  rw [getElem!_pos a id hid] at this
  exact this

/-!
## How to prove a further invariant of the inline phase

The layer is `Std.Do` (`⦃P⦄ m ⦃Q⦄`, `mvcgen`) plus a few conventions; `Post` / `Pres` and the `Post.*` rules are the
same thing stated by running the computation (`triple_iff_post`), for the final theorems and for the rare manual proof.

**0. If the property is a property `φ` of single arena nodes** ("every node ever put into the arena satisfies `φ`,
and the parser only modifies nodes in ways that keep `φ`"), nothing of the following is needed: prove
`NodeInv c φ` (`InlInv.lean`: one field per allocation site of the model — with what is known there — and one per
kind of modification) and apply `parseInlines_nodes` / `rewriteE_nodes` (`InlExport.lean`).  `InlUnparsed.lean`,
`InlRefs.lean`, `InlShapes.lean` are three instances (60–150 lines each, no monadic reasoning).

**1. Otherwise (an invariant `I : IState → Prop` of the whole state)** go through the model bottom-up, one
specification per function, tagged `@[spec]` so that callers use it:

```
@[spec] theorem f_spec (args) : ⦃fun s => ⌜I s⌝⦄ f args ⦃⇓? r s => ⌜I s ∧ Q r s⌝⦄ := by
  mvcgen [f, <small functions to unfold>]      -- `⇓?`: nothing to show after a panic / exhausted fuel
  inl_inv I                                    -- every `for` loop gets the invariant `I` (see 2.)
  inl_norm                                     -- beta-reduce the VCs
  inl_triv                                     -- closes the VCs that are literally hypotheses (InlInv.lean)
  …                                            -- what is left are the VCs with content
```

* Primitives that write the state (`alloc`, `modifyNode`, `setParent`, `delStack`, `pushStack`, `setUnparsedPos`,
  `setIgnoreNextIndent`, and the one raw `modify` in `finishLink`) are simply unfolded (`mvcgen [alloc, …]`): the VC is
  then about the explicit new state `{ nodes := s.nodes.push n, … }`.  State `I` on the components it speaks about
  (as `G φ s := GA φ s.nodes s.stack`) and prove one lemma per primitive (`GA.push`, `GA.modify`, `GA.modifyK`,
  `GA.setStack`, …); `inl_state` brings a goal into that form (it also unfolds the `let`s `mvcgen` introduces:
  the unifier does not).  These are ALL node-writing primitives: `alloc` (push) and `modifyNode` (`Array.modify`).
* Read-only helpers (`srcAt`, `srcIs`, `guardAt`, `srcSlice`, `unparsedFrom`, `unparsedAt`, `parseCodeSpan`,
  `csAddSpan`, `stripCodeSpanSpace`) have specifications with a ghost start state, `⦃fun s => ⌜s = s0⌝⦄ … ⦃⇓? r s =>
  ⌜s = s0 ∧ facts r⌝⦄` (`mvcgen` instantiates `s0`); `inl_subst` substitutes the resulting equations.  Unfolding them
  instead doubles the number of paths at every panic site.  `spanEnd`, `isLastSpan`, `getNode`, `nodeLen` are unfolded.
* A specification that has to say something about the state it started from (a frame, like `KExt` in
  `addToRoot_spec`, `appendFinished_spec`, or the result of `wrap`) takes the ghost state too:
  `⦃fun s => ⌜s = s0 ∧ I s⌝⦄`; loop invariants can then mention `s0`.
* Facts about node kinds survive everything (`KindP`, `KExt`: kinds never change, the arena only grows).

**2. Loops.** `for … in [a:b]` / `for x in arr` elaborate to `forIn` in `IM` itself (`break` / `continue` / early
`return` are `ForInStep`s and an `Option` in the loop state, no extra monad layers), so `mvcgen` asks one invariant per
loop: goals `inv1 …`.  `inl_inv I` gives all remaining ones `fun _ s => I s`; a loop whose mutable variables matter
gets its invariant first, e.g. `all_goals (try (exact (PostCond.mayThrow (fun p s => ⌜I s ∧ R p.2⌝))))` (`p.2` = the
loop variables; `finishLink_spec`, `collectCodeSpan_spec`), and local variables are referred to by type
(`‹Array DelimE›`, `processEmphasis_spec`).

**3. Join points.** `mvcgen` inlines the join points of `if … then x := …` sequences: `2^k` paths.  When that is too
much (`stripCodeSpanSpace`): `mvcgen +jp` is linear but forgets the STATE at join points, so prove the state-free part
with `+jp`, read-only-ness with `RO` (`unfold f; inl_ro`) and combine with `RO.spec`.  `parseRun` needs
`maxHeartbeats 400000` (once).

**4. Hypotheses by shape.** The VCs' hypotheses have inaccessible names: pick them with `‹pattern›`
(`‹G φ _ ∧ KExt _ _›`); inside a `first | … | …` put a `| fail` last (the last alternative runs with error
recovery) and use `have h := ‹…›` rather than `obtain … := ‹…›`.  To read the VCs, pipe Lean's output through
a filter that prints, per `case`, the last hypotheses and the goal.

**5. A second chain of specifications over the same functions** (`InlForestInv.lean` / `InlForestRun.lean` for the
structural invariant `S` are the example) must IMPORT the existing chain (`InlInvRun.lean`): `mvcgen` generates the
matcher congruence lemmas of the model functions (`CM.Model.Inl.wrap.match_3.congr_eq_1…`) in the first module that
needs them, and two independent modules that both did cannot be imported together.  Register the new specifications
with `@[spec high]` (candidates are tried by priority) and, in the proof of the new specification of `f`, unfold `f`
with `mvcgen [f, -f_spec, …]` (an existing `@[spec]` for `f` wins over unfolding `f`).

**6. From the triple to a theorem about `parseInlines`:** `triple_run spec hI0 hrun` with `hrun : m.run s0 = .ok (a, s)`
(`parseInlines_nodes` in `InlExport.lean` is the model).
-/

end CM.Proofs.InlH
