import CM.Proofs.QuoteBlank
import CM.Proofs.BlocksSpansStream
/-
C09 (block-quote half): cutting a root block off on the bare side. The stream machine re-bases the pending blocks
(`offsetPBs (-n)`) and the source (`buf[n:]`); the relation to the (uncut) prefixed side is kept if the correspondence
of positions is shifted accordingly — provided every position of the pending blocks is at or after the cut, which is
what the span invariant `PBSpans` of the bare side says.
-/
namespace CM.Proofs.Quote
open CM CM.Model CM.Gen CM.Proofs.BT CM.Proofs.BSp

/-- `F` is `E` seen from `n` bytes further on the bare side. -/
structure Env.Shift (E F : Env) (n : Nat) : Prop where
  PR : ∀ a a', (n : Int) ≤ a → E.PR a a' → F.PR (a - (n : Int)) a'
  src : F.src = E.src.drop n
  src' : F.src' = E.src'
  DR : ∀ is is', E.DR is is' → F.DR (offsetTrees (-(n : Int)) is) is'

variable {E F : Env} {n : Nat}

theorem offsetTree_children (m : Int) (l : Label) (cs : List Tree) :
    (offsetTree m (.node l cs)).children = offsetTrees m cs := by
  simp [offsetTree, Tree.children]

theorem offsetTrees_eq_map (m : Int) (l : List Tree) : offsetTrees m l = l.map (offsetTree m) := by
  induction l with
  | nil => simp [offsetTrees]
  | cons a t ih => simp [offsetTrees, ih]

theorem ILab.offset (hs : Env.Shift E F n) {l l' : Label} (h : ILab E l l') (hn : (n : Int) ≤ l.start) :
    ILab F { l with start := l.start + -(n : Int), stop := if l.stop ≥ 0 then l.stop + -(n : Int) else l.stop } l' := by
  have h1 := h.lo; have h2 := h.le; have h3 := h.hi; have h4 := h.len
  have hstop : l.stop ≥ 0 := by omega
  rw [if_pos hstop]
  have e1 : l.start + -(n : Int) = l.start - n := by omega
  have e2 : l.stop + -(n : Int) = l.stop - n := by omega
  rw [e1, e2]
  refine ⟨h.isBlock, h.kind, h.n, h.char, h.loose, h.indent, h.ref, ?_, ?_, ?_, h.lo', ?_, hs.PR _ _ hn h.start,
    hs.PR _ _ (by omega) h.stop, ?_, ?_⟩
  · show (0 : Int) ≤ l.start - n; omega
  · show l.start - (n : Int) ≤ l.stop - n; omega
  · show l.stop - (n : Int) ≤ (F.src.length : Int)
    rw [hs.src, List.length_drop]; omega
  · rw [hs.src']; exact h.hi'
  · show l'.stop - l'.start = (l.stop - n) - (l.start - n); omega
  · show (F.src'.drop l'.start.toNat).take ((l.stop - n) - (l.start - n)).toNat =
      (F.src.drop (l.start - n).toNat).take ((l.stop - n) - (l.start - n)).toNat
    have e3 : (l.stop - (n : Int)) - (l.start - n) = l.stop - l.start := by omega
    rw [e3, hs.src, hs.src', List.drop_drop]
    have e4 : n + (l.start - (n : Int)).toNat = l.start.toNat := by omega
    rw [e4]
    exact h.bytes

theorem IR.offset (hs : Env.Shift E F n) : ∀ (t t' : Tree), IR E t t' → (n : Int) ≤ t.label.start →
    IR F (offsetTree (-(n : Int)) t) t'
  | .node l cs, t', h, hn => by
    rw [IR_iff] at h
    rw [IR_iff, BSp.offsetTree_label, offsetTree_children]
    refine ⟨h.1.offset hs hn, offL cs t'.children h.2.1 (fun c hc => Int.le_trans hn (h.2.2 c hc)), ?_⟩
    intro c hc
    rw [offsetTrees_eq_map] at hc
    obtain ⟨c0, hc0, rfl⟩ := List.mem_map.mp hc
    rw [BSp.offsetTree_label]
    show l.start + -(n : Int) ≤ c0.label.start + -(n : Int)
    have h5 : l.start ≤ c0.label.start := h.2.2 c0 hc0
    omega
where
  offL : ∀ (cs cs' : List Tree), L2 (IR E) cs cs' → (∀ c ∈ cs, (n : Int) ≤ c.label.start) →
      L2 (IR F) (offsetTrees (-(n : Int)) cs) cs'
    | [], _, h, _ => by cases h; simp only [offsetTrees]; exact .nil
    | c :: cs, _, h, hn => by
      cases h with
      | cons h1 h2 =>
        simp only [offsetTrees]
        exact .cons (IR.offset hs c _ h1 (hn c (List.mem_cons_self ..)))
          (offL cs _ h2 fun d hd => hn d (List.mem_cons_of_mem _ hd))

/-- The inline children of a block with valid spans start at or after the block. -/
theorem InlsOK.ge : ∀ (is : List Tree) {lo hi : Int}, InlsOK lo hi is → ∀ t ∈ is, lo ≤ t.label.start
  | [], _, _, _, _, ht => by cases ht
  | a :: rest, lo, hi, h, t, ht => by
    rw [InlsOK_cons] at h
    rcases List.mem_cons.mp ht with rfl | ht
    · exact h.1
    · have := InlsOK.ge rest h.2.2.2 t ht
      omega

theorem LR.offset (hs : Env.Shift E F n) {l l' : PLabel} (h : LR E l l') (hst : (n : Int) ≤ l.start)
    (hc : 0 ≤ l.stop → (n : Int) ≤ l.stop) :
    LR F { l with start := l.start + -(n : Int), stop := if l.stop ≥ 0 then l.stop + -(n : Int) else l.stop } l' := by
  have e1 : l.start + -(n : Int) = l.start - n := by omega
  refine ⟨h.kind, h.n, h.char, h.indent, h.loose, h.blank, by rw [e1]; exact hs.PR _ _ hst h.start, ?_, ?_⟩
  · show l'.stop < 0 ↔ (if l.stop ≥ 0 then l.stop + -(n : Int) else l.stop) < 0
    rw [h.openIff]
    by_cases h0 : l.stop ≥ 0
    · rw [if_pos h0]; have := hc h0; omega
    · rw [if_neg h0]
  · intro h0
    have hs0 : l.stop ≥ 0 := by
      by_cases h1 : l.stop ≥ 0
      · exact h1
      · rw [if_neg h1] at h0
        exact absurd h0 h1
    show F.PR (if l.stop ≥ 0 then l.stop + -(n : Int) else l.stop) l'.stop
    rw [if_pos hs0]
    have e2 : l.stop + -(n : Int) = l.stop - n := by omega
    rw [e2]
    exact hs.PR _ _ (hc hs0) (h.stop hs0)

mutual
/-- Re-basing a block whose positions all lie at or after the cut. -/
theorem BR.offset (hs : Env.Shift E F n) : ∀ (b b' : PB) {lo hi : Int}, BR E b b' → PBSpans QT lo hi b → (n : Int) ≤ lo →
    BR F (offsetPB (-(n : Int)) b) b'
  | .mk l bs is, b', lo, hi, h, hsp, hn => by
    rw [BR_iff] at h
    simp only [PB.label, PB.blocks, PB.inlines] at h
    rw [PBSpans_mk] at hsp
    obtain ⟨a1, a2, a3, a4, a5, a6⟩ := hsp
    simp only [offsetPB]
    rw [BR_iff]
    have hcl : 0 ≤ l.stop → (n : Int) ≤ l.stop := by
      intro h0
      rw [endOf_closed h0] at a2
      omega
    refine ⟨h.1.offset hs (by omega) hcl, BRs.offset hs bs b'.blocks h.2.1 a5 (by omega), ?_⟩
    have hi2 := h.2.2
    show InlR F l.kind (offsetTrees (-(n : Int)) is) b'.inlines
    unfold InlR at hi2 ⊢
    split
    · rename_i hk; rw [if_pos hk] at hi2; exact hs.DR _ _ hi2
    · rename_i hk; rw [if_neg hk] at hi2
      have hge := InlsOK.ge is a4
      exact IR.offset.offL hs is b'.inlines hi2 fun c hc => by have := hge c hc; omega
theorem BRs.offset (hs : Env.Shift E F n) : ∀ (bs bs' : List PB) {po : Bool} {lo hi : Int}, L2 (BR E) bs bs' →
    PBSpansL QT po lo hi bs → (n : Int) ≤ lo → L2 (BR F) (offsetPBs (-(n : Int)) bs) bs'
  | [], _, _, _, _, h, _, _ => by cases h; simp only [offsetPBs]; exact .nil
  | b :: rest, _, po, lo, hi, h, hsp, hn => by
    cases h with
    | cons h1 h2 =>
      rw [PBSpansL_cons] at hsp
      obtain ⟨s1, s2, s3⟩ := hsp
      simp only [offsetPBs]
      refine .cons (BR.offset hs b _ h1 s1 hn) ?_
      by_cases hre : rest = []
      · subst hre; cases h2; simp only [offsetPBs]; exact .nil
      · -- `b` is closed, and the rest lies after its end
        have hbc : 0 ≤ b.label.stop := by
          cases hco : b.isOpen
          · exact (isOpen_false_iff b).mp hco
          · exact absurd (s2 hco).1 hre
        have hb := PBSpans_closed_bounds s1 hbc
        exact BRs.offset hs rest _ h2 s3 (by omega)
end

end CM.Proofs.Quote
