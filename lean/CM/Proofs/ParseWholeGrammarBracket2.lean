import CM.Proofs.ParseWholeGrammarBracket
/-
C05, inline half — the third chain, part 3: `parseEndBracket`.
-/
namespace CM.Proofs.InlH
open CM CM.Model CM.Model.Inl
open Std.Do

set_option mvcgen.warning false

section
variable {c : ICtx}

theorem Om.of_eq3 {s s' : IState} {b P0 : Nat} (h : Om s b P0)
    (e : s'.nodes = s.nodes ∧ s'.parentMap = s.parentMap ∧ s'.stack = s.stack) : Om s' b P0 :=
  h.congr e.1 e.2.1 (by rw [e.2.2])

theorem Om.pmsz' {s : IState} {b P0 : Nat} (h : Om s b P0) : s.parentMap.size = s.nodes.size := h.2.pmsz

theorem stack_get_eq3 {s s' : IState} {i : Nat} {e : DelimE} (h : s.stack[i]? = some e)
    (e3 : s'.nodes = s.nodes ∧ s'.parentMap = s.parentMap ∧ s'.stack = s.stack) : s'.stack[i]? = some e := by
  rw [e3.2.2]; exact h

/-- the opener's kind -/
theorem mid_wrap {s s5 : IState} (h : Om s 0 0) {e : DelimE} {r odi : Nat}
    (hW : WrapPost s s5 (if (e.elem.typ == 4) = true then IK.image else IK.link) e.node none r)
    (ho : s.stack[odi]? = some e) : Mid s5 odi r [] :=
  Mid.wrap h hW (isLinkKind_ite _) (stN_get_of ho)

/-- `wrap` made the link: the state `Mid` (after the state equations were substituted) -/
macro "peb_mid" : tactic => `(tactic| (
  have hM := mid_wrap ‹Om _ 0 0› ‹WrapPost _ _ _ _ _ _› ‹_ = some _›
  subst_vars))

set_option maxHeartbeats 400000 in
@[spec high + 1]
theorem parseEndBracket_specO (start : Int) :
    ⦃fun s => ⌜Om s 0 0⌝⦄ parseEndBracket c start ⦃⇓? _ s => ⌜Om s 0 0⌝⦄ := by
  mvcgen [parseEndBracket, spanEnd, getNode, modifyNode, setUnparsedPos, -parseEndBracket_spec, -parseEndBracket_specS,
    -processEmphasis_specO]
  all_goals inl_norm
  all_goals inl_subst
  all_goals try (
    have hO' := Om.of_eq3 ‹Om _ 0 0› ‹IState.nodes _ = _ ∧ _›
    have hx' := stack_get_eq3 ‹_ = some _› ‹IState.nodes _ = _ ∧ _›)
  all_goals first
    | assumption
    | exact fun h => h.elim
    | (apply Om.pmsz'; assumption)
    | (obtain ⟨h1, h2, h3, rfl⟩ := ‹_ ∧ _ ∧ _ ∧ _›
       exact Om.del ‹Om _ 0 0› (Nat.zero_le _) h3 h1)
    | exact Om.congr ‹Om _ 0 0› rfl rfl rfl
    | skip
  case vc5 =>
    peb_mid
    exact (Mid.append (Mid.append (Mid.span ‹Mid _ _ _ _› _ _
      (by intro _; rfl) (by intro _; rfl) (by intro _; rfl)) _ rfl rfl) _ rfl rfl).om
  case vc6 =>
    peb_mid
    exact (Mid.append (Mid.span ‹Mid _ _ _ _› _ _ (by intro _; rfl) (by intro _; rfl) (by intro _; rfl)) _ rfl rfl).om
  case vc7 =>
    peb_mid
    exact (Mid.append (Mid.span ‹Mid _ _ _ _› _ _ (by intro _; rfl) (by intro _; rfl) (by intro _; rfl)) _ rfl rfl).om
  case vc8 =>
    peb_mid
    exact (Mid.span ‹Mid _ _ _ _› _ _ (by intro _; rfl) (by intro _; rfl) (by intro _; rfl)).om
  case vc13 | vc53 | vc28 | vc48 | vc68 | vc88 =>
    peb_mid
    exact Mid.setRef ‹Mid _ _ _ _› _ (by intro _; rfl) (by intro _; rfl)
  case vc21 | vc41 | vc61 | vc81 =>
    peb_mid
    exact (Mid.span (Mid.append ‹Mid _ _ _ _› _ rfl rfl) _ _ (by intro _; rfl) (by intro _; rfl) (by intro _; rfl)).om

end
end CM.Proofs.InlH
