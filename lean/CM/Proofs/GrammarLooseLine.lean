import CM.Proofs.GrammarLooseList
import CM.Proofs.BlocksSpansLine
/-
C05, block half — looseness: `ruleMatch`, `descendLoop`, `tryStarts`, `openingLoop`, `openNewBlocks`, `addLineText`,
`processLine` keep the looseness invariant; `feedLines` from the empty document.
-/
namespace CM.Proofs.GL
open CM CM.Model CM.Gen
open CM.Proofs.BT CM.Proofs.BG

/-- The working invariant: `GI` (no panic, cursor, tree position, grammar) and looseness. -/
structure LI (p : LP) : Prop where
  gi : GI p
  lt : LT p

theorem LT.setDepth {p : LP} (h : LT p) (d : Nat) (hd : d ≤ p.depth) : LT { p with depth := d } := ⟨h.1, h.2.mono hd⟩
theorem LT.setState {p : LP} (h : LT p) (s : Nat) : LT { p with state := s } := h

theorem LI.setDepth {p : LP} (h : LI p) (d : Nat) (hd : d ≤ p.depth) : LI { p with depth := d } :=
  ⟨h.gi.setDepth d hd, h.lt.setDepth d hd⟩
theorem LI.setState {p : LP} (h : LI p) (s : Nat) : LI { p with state := s } := ⟨h.gi.setState s, h.lt.setState s⟩

/-! ### ruleMatch -/

theorem ruleMatch_LT (x : PExt) (kind : Nat) (p : LP) (h : GI p) (hl : LT p) (hs : p.state = 3) (hk : p.containerKind = kind)
    (ok : Bool) (p' : LP) (hrm : ruleMatch x kind p = some (ok, p')) : LT p' := by
  unfold ruleMatch at hrm
  split at hrm
  · simp only [Option.some.injEq, Prod.mk.injEq] at hrm; obtain ⟨_, rfl⟩ := hrm; exact hl
  split at hrm
  · split at hrm
    · split at hrm
      · simp only [Option.some.injEq, Prod.mk.injEq] at hrm; obtain ⟨_, rfl⟩ := hrm; exact hl
      · simp only [Option.some.injEq, Prod.mk.injEq] at hrm; obtain ⟨_, rfl⟩ := hrm; exact hl.consumeIndentN _
    · split at hrm
      · split at hrm
        · simp only [Option.some.injEq, Prod.mk.injEq] at hrm; obtain ⟨_, rfl⟩ := hrm; exact hl.consumeIndentN _
        · simp only [Option.some.injEq, Prod.mk.injEq] at hrm; obtain ⟨_, rfl⟩ := hrm; exact hl
      · simp only [Option.some.injEq, Prod.mk.injEq] at hrm; obtain ⟨_, rfl⟩ := hrm; exact hl
  split at hrm
  · simp only [] at hrm
    split at hrm
    · simp only [Option.some.injEq, Prod.mk.injEq] at hrm; obtain ⟨_, rfl⟩ := hrm; exact hl
    split at hrm
    · simp only [Option.some.injEq, Prod.mk.injEq] at hrm; obtain ⟨_, rfl⟩ := hrm; exact hl
    simp only [Option.some.injEq, Prod.mk.injEq] at hrm; obtain ⟨_, rfl⟩ := hrm
    split
    · exact ((hl.consumeIndentN _).advance _).consumeIndentN _
    · exact (hl.consumeIndentN _).advance _
  split at hrm
  · simp only [] at hrm
    split at hrm
    · simp only [Option.some.injEq, Prod.mk.injEq] at hrm; obtain ⟨_, rfl⟩ := hrm
      exact hl.consumeLine
    · simp only [Option.some.injEq, Prod.mk.injEq] at hrm; obtain ⟨_, rfl⟩ := hrm
      split
      · exact hl.consumeIndentN _
      · exact hl.consumeIndentN _
  split at hrm
  · simp only [] at hrm
    split at hrm
    · split at hrm
      · simp only [Option.some.injEq, Prod.mk.injEq] at hrm; obtain ⟨_, rfl⟩ := hrm; exact hl
      · simp only [Option.some.injEq, Prod.mk.injEq] at hrm; obtain ⟨_, rfl⟩ := hrm; exact hl.consumeIndentN _
    · simp only [Option.some.injEq, Prod.mk.injEq] at hrm; obtain ⟨_, rfl⟩ := hrm; exact hl.consumeIndentN _
  split at hrm
  · rename_i hkind
    have hk7 : p.containerKind = BK.htmlBlock := by rw [hk]; simpa using hkind
    split at hrm
    · split at hrm
      · simp only [Option.some.injEq, Prod.mk.injEq] at hrm; obtain ⟨_, rfl⟩ := hrm; exact hl
      · simp only [Option.some.injEq, Prod.mk.injEq] at hrm; obtain ⟨_, rfl⟩ := hrm
        apply LT.consumeLine
        exact collectInline_LT_free x p IK.rawHTML _ htmlKinds h.inv.tree h.g hl (by omega) (by rw [hk7]; rfl) (by rfl)
    · simp only [Option.some.injEq, Prod.mk.injEq] at hrm; obtain ⟨_, rfl⟩ := hrm; exact hl
  split at hrm
  · simp only [Option.some.injEq, Prod.mk.injEq] at hrm; obtain ⟨_, rfl⟩ := hrm; exact hl
  · cases hrm

/-! ### descendLoop -/

theorem SO_step {root : PB} {parent : Nat} {c : PB} (h : SO root parent) (hc : spineGet root (parent + 1) = some c)
    (ho : c.isOpen = true) : SO root (parent + 1) := by
  intro k h1 h2 s hs
  rcases Nat.lt_or_ge parent k with hk | hk
  · have : k = parent + 1 := by omega
    subst this
    simp only [stopAt, labelAt, hc, Option.map_some, Option.some.injEq] at hs
    subst hs
    unfold PB.isOpen at ho
    simpa using ho
  · exact h k h1 hk s hs

theorem descendLoop_LI (x : PExt) : ∀ (fuel : Nat) (p : LP) (parent : Nat), LI { p with depth := parent } →
    LI (descendLoop x fuel p parent).2 := by
  intro fuel
  induction fuel with
  | zero => intro p parent h; exact h
  | succ fuel ih =>
    intro p parent hh
    have h := hh.gi
    unfold descendLoop
    split
    · exact hh
    rename_i c hc
    split
    · exact hh
    rename_i hopen
    have hopen' : c.isOpen = true := by simpa using hopen
    simp only []
    have h1 : GI { p with depth := parent + 1 } :=
      ⟨⟨h.inv.panic, ⟨h.inv.cur.hi, h.inv.cur.htab⟩, ⟨h.inv.tree.root, by show (spineGet p.root (parent + 1)).isSome; rw [hc]; rfl⟩⟩, h.g⟩
    have l1 : LT { p with depth := parent + 1 } := ⟨hh.lt.1, SO_step (root := p.root) hh.lt.2 hc hopen'⟩
    split
    · exact hh
    · rename_i ok p2 hrm
      have hck : ({ ({ p with depth := parent + 1 } : LP) with state := stateDescending } : LP).containerKind = c.kind := by
        show PB.kind ((spineGet p.root (parent + 1)).getD p.root) = c.kind
        rw [hc]; rfl
      have rm := ruleMatch_post x c.kind _ (h1.inv.setState stateDescending) rfl ok p2 hrm
      have rmG := ruleMatch_G x c.kind _ (h1.setState stateDescending) rfl hck ok p2 hrm
      have rmL := ruleMatch_LT x c.kind _ (h1.setState stateDescending) (l1.setState stateDescending) rfl hck ok p2 hrm
      have d2 : p2.depth = parent + 1 := rm.depth
      have g2 : LI p2 := ⟨⟨rm.inv, rmG⟩, rmL⟩
      split
      · have cc := closeContainer_post x p2 (↑p2.lineStart + ↑p2.i) rm.inv.tree
        have ccG := closeContainer_G x p2 (↑p2.lineStart + ↑p2.i) rmG
        have ccL := closeContainer_LT x p2 (↑p2.lineStart + ↑p2.i) (by omega) rmG rmL
        have g3 : LI (p2.closeContainer x (↑p2.lineStart + ↑p2.i)) := ⟨⟨cc.inv rm.inv, ccG⟩, ccL⟩
        exact g3.setDepth parent (by rw [cc.depth, d2]; omega)
      · split
        · exact g2.setDepth parent (by omega)
        · apply ih
          exact g2.setDepth (parent + 1) (by omega)

theorem descendOpenBlocks_LI (x : PExt) (p : LP) (h : LI p) : LI (descendOpenBlocks x p).2 :=
  descendLoop_LI x _ p 0 (h.setDepth 0 (Nat.zero_le _))

/-! ### tryStarts, openingLoop -/

theorem blockStartFns_LI (x : PExt) : ∀ f ∈ blockStartFns x, ∀ q, LI q → q.state = 0 → SPost q (f q) ∧ LI (f q) := by
  intro f hf q h hs
  have a := blockStartFns_G x f hf q h.gi hs
  exact ⟨a.1, ⟨⟨a.1.inv, a.2⟩, blockStartFns_LT x f hf q h.gi h.lt hs⟩⟩

theorem tryStarts_LI : ∀ (fs : List (LP → LP)), (∀ f ∈ fs, ∀ q, LI q → q.state = 0 → SPost q (f q) ∧ LI (f q)) →
    ∀ p, LI p → LI (tryStarts fs p) := by
  intro fs
  induction fs with
  | nil => intro _ p h; exact h
  | cons f rest ih =>
    intro hf p h
    unfold tryStarts
    simp only []
    have sp := hf f (List.mem_cons_self ..) { p with state := stateOpening } (h.setState _) rfl
    generalize f { p with state := stateOpening } = p' at sp
    split
    · exact sp.2
    · exact ih (fun g hg => hf g (List.mem_cons_of_mem _ hg)) p' sp.2

theorem openingLoop_LI (x : PExt) : ∀ (fuel : Nat) (p : LP), LI p → LI (openingLoop x fuel p).2 := by
  intro fuel
  induction fuel with
  | zero => intro p h; exact h
  | succ fuel ih =>
    intro p h
    unfold openingLoop
    split
    · exact h
    · have ts := tryStarts_LI _ (blockStartFns_LI x) p h
      simp only []
      generalize tryStarts (blockStartFns x) p = p' at ts
      split
      · exact ih p' ts
      · split
        · exact ts
        · exact ts

/-! ### openNewBlocks -/

/-- The spine down to the tip is open. -/
theorem SO_tip (root : PB) : SO root (tipDepth root 0) := by
  intro k h1 h2 s hs
  obtain ⟨c, hc, hco⟩ := (CM.Proofs.BSp.tipDepth_spec (sizeOf root) root 0 (Nat.le_refl _)).2 k (by omega) (by omega)
  simp only [stopAt, labelAt, hc, Option.map_some, Option.some.injEq] at hs
  subst hs
  unfold PB.isOpen at hco
  simpa using hco

theorem openNewBlocks_LT (x : PExt) (p : LP) (allMatched : Bool) (h : LI p) : LT (openNewBlocks x p allMatched).2 := by
  unfold openNewBlocks
  split
  · exact closeContainer_LT x _ _ (by omega) h.gi.g (h.lt.setDepth 0 (Nat.zero_le _))
  · have ol := openingLoop_LI x (p.line.length + 8) p h
    generalize openingLoop x (p.line.length + 8) p = r at ol
    obtain ⟨hasText, q⟩ := r
    simp only [] at ol ⊢
    split
    · exact ol.lt
    · split
      · exact ⟨ol.lt.1, SO_tip q.root⟩
      · exact closeLastChild_LT x q _ (by omega) ol.gi.g ol.lt

/-! ### addLineText -/

theorem blankFn_L (c : PB) (hG : PBGrammar c) (h : PBLoose c) :
    PBLoose ((fun b => match b with
      | PB.mk l bs is => match bs.getLast? with
        | some c => PB.mk l (bs.dropLast ++ [c.setLabel fun cl => { cl with lastLineBlank := true }]) is
        | none => PB.mk l bs is) c) ∧
    LRes c [(fun b => match b with
      | PB.mk l bs is => match bs.getLast? with
        | some c => PB.mk l (bs.dropLast ++ [c.setLabel fun cl => { cl with lastLineBlank := true }]) is
        | none => PB.mk l bs is) c] := by
  obtain ⟨l, bs, is⟩ := c
  simp only []
  cases hgl : bs.getLast? with
  | none => exact ⟨h, LRes.refl _⟩
  | some c0 =>
    simp only []
    have hc0 : PBLoose c0 := ((PBLoose_mk l bs is).1 h).2 c0 (List.mem_of_getLast? hgl)
    have r := setLabel_L (f := fun cl => { cl with lastLineBlank := true }) (fun _ => rfl) (fun _ => rfl) (fun _ => rfl) c0 hc0
    refine ⟨PBL_replaceLast hG h hgl r.2 ?_, LRes.same rfl⟩
    intro c' hc'
    simp only [List.mem_singleton] at hc'
    subst hc'
    exact r.1

theorem altBlank_LT (p : LP) (hG : PBGrammar p.root) (h : LT p) : LT (altBlank p) := by
  unfold altBlank
  split
  · refine ⟨(PBL_spineModify _ p.depth p.root (fun c _ hcG hc => blankFn_L c hcG hc) hG h.1).1, ?_⟩
    exact SO_modify _ (fun c => by rw [blankFn_label]) _ (Nat.le_refl _) h.2
  · exact h

theorem altFlags_LT (b : Bool) (p : LP) (hG : PBGrammar p.root) (h : LT p) : LT (altFlags b p) := by
  unfold altFlags
  simp only []
  exact ⟨(PBL_setBlankFlags _ p.depth p.root hG h.1).1, SO_setBlankFlags _ h.2⟩

theorem altCont_LT (x : PExt) (b : Bool) (p : LP) (h : LI p) (hs : acceptsLines p.containerKind = false → p.state ≤ 2)
    (q : LP) (hq : altCont x b p = some q) : LT q := by
  unfold altCont at hq
  simp only [] at hq
  split at hq
  · split at hq
    · simp only [Option.some.injEq] at hq
      subst hq
      exact (appendInline_LT p _ h.gi.inv.tree h.gi.g h.lt).consumeIndentN _
    · simp only [Option.some.injEq] at hq
      subst hq
      exact h.lt
  · split at hq
    · simp only [Option.some.injEq] at hq
      subst hq
      rename_i hna _
      have hna' : acceptsLines p.containerKind = false := by simpa using hna
      exact (openBlock_LT x p BK.paragraph id h.gi.inv.tree h.gi.g h.lt (hs hna') (by decide) (fun _ => rfl)
        (fun _ => rfl)).consumeIndentN _
    · cases hq

theorem altTail_LT (q : LP) (hT : TreeOK q) (hG : PBGrammar q.root) (hacc : acceptsLines q.containerKind = true) (h : LT q) :
    LT (altTail q) := by
  unfold altTail
  simp only []
  obtain ⟨ks, hf, _, htk, _⟩ := acceptsLines_free _ hacc
  have g1 : PBGrammar (q.appendInline (mkInline (textKind q.containerKind) (q.lineStart + q.i) (q.lineStart + q.line.length))).root := by
    apply appendInline_G_free q _ ks hT hG hf
    simpa [inl, mkInline, Tree.label, Tree.children] using htk
  have e : (if (q.containerKind == BK.indentedCode || q.containerKind == BK.fencedCode) = true then IK.text
      else if (q.containerKind == BK.htmlBlock) = true then IK.rawHTML else IK.unparsed) = textKind q.containerKind := rfl
  rw [e]
  have l1 := appendInline_LT q (mkInline (textKind q.containerKind) (q.lineStart + q.i) (q.lineStart + q.line.length)) hT hG h
  split
  · exact appendInline_LT _ _ (appendInline_ok q _ hT) g1 l1
  · exact l1

theorem addLineText_LT (x : PExt) (p : LP) (h : LI p) (hs : acceptsLines p.containerKind = false → p.state ≤ 2) :
    LT (addLineText x p) := by
  rw [addLineText_eq]
  have a := altBlank_step p h.gi.inv
  have aG := altBlank_G p h.gi.g
  have aL := altBlank_LT p h.gi.g h.lt
  have b := altFlags_step p.isRestBlank (altBlank p) a.inv
  have bG := altFlags_G p.isRestBlank (altBlank p) aG
  have bL := altFlags_LT p.isRestBlank (altBlank p) aG aL
  generalize altFlags p.isRestBlank (altBlank p) = pB at b bG bL
  have kB : pB.containerKind = p.containerKind := by rw [b.ckind, a.ckind]
  have sB : pB.state = p.state := by rw [b.state, a.state]
  split
  · exact bL
  · rename_i q hq
    obtain ⟨hT, hG, hacc⟩ := altCont_G x _ pB ⟨b.inv, bG⟩ (by rw [kB, sB]; exact hs) q hq
    have qL := altCont_LT x _ pB ⟨⟨b.inv, bG⟩, bL⟩ (by rw [kB, sB]; exact hs) q hq
    exact altTail_LT q hT hG hacc qL

/-! ### processLine -/

/-- **One line through the line parser keeps the looseness invariant.** -/
theorem processLine_LI (x : PExt) (p : LP) (h : LI p) : LI (processLine x p) := by
  refine ⟨processLine_G x p h.gi, ?_⟩
  unfold processLine
  have d := descendOpenBlocks_LI x p h
  generalize descendOpenBlocks x p = r at d
  obtain ⟨allMatched, p1⟩ := r
  simp only [] at d ⊢
  split
  · exact d.lt
  · have o := openNewBlocks_post x p1 allMatched d.gi.inv
    have oG := openNewBlocks_G x p1 allMatched d.gi
    have oL := openNewBlocks_LT x p1 allMatched d
    generalize openNewBlocks x p1 allMatched = r2 at o oG oL
    obtain ⟨hasText, p2⟩ := r2
    simp only [] at o oG oL ⊢
    split
    · rename_i ht
      exact addLineText_LT x p2 ⟨⟨o.inv, oG⟩, oL⟩ (o.st ht)
    · exact oL

end CM.Proofs.GL
