import CM.Proofs.InlineSerEmFlat
import CM.Proofs.InlSpanBracket
/-
Inline serialisation — links, part 1: the SHORTCUT reference link `[text]`.  `parseEndBracket` as an equation, for a
delimiter stack that holds just the opening bracket and a `]` that is followed by neither `(` nor `[`: if the normalised
label matches a definition, the children after the bracket move under a new Link node carrying the label
(`wrap … none`, `finishLink`); otherwise the `]` is literal text and the bracket entry is dropped.
-/
namespace CM.Proofs.InlSer
open CM CM.Gen CM.Model CM.Model.Inl CM.Proofs.EscText

theorem setStkP_self (s : IState) : setStkP s.stack s = s := rfl

/-- `processEmphasis b` when nothing lies above `b`. -/
theorem procEm_none (b : Nat) (s : IState) (h : s.stack.size = b) : (Inl.processEmphasis b).run s = pure ((), s) := by
  unfold Inl.processEmphasis
  simp only [StateT.run_bind, StateT.run_get, pure_bind]
  obtain ⟨fuel, hfuel⟩ : ∃ f, emphFuel s = f + 1 := ⟨emphFuel s - 1, by unfold emphFuel; omega⟩
  have hrange : Std.Legacy.Range.size [:emphFuel s] = fuel + 1 := by simp [Std.Legacy.Range.size, hfuel]
  rw [Std.Legacy.Range.forIn_eq_forIn_range']
  simp only [hrange]
  generalize hg : (fun (x : Nat) (r : Nat × Array Nat × Bool) => (_ : IM (ForInStep (Nat × Array Nat × Bool)))) = g
  have hstep : ∀ x ob, (g x (b, ob, false)).run s = pure (ForInStep.done (b, ob, true), s) := by
    intro x ob
    rw [← hg]
    simp only [StateT.run_bind, StateT.run_get, pure_bind, Std.Legacy.Range.forIn_eq_forIn_range', Std.Legacy.Range.size, h]
    simp [List.range'_succ]
  rw [List.range'_succ, List.forIn_cons, StateT.run_bind, hstep, pure_bind]
  simp only [StateT.run_pure, pure_bind, Bool.not_true, Bool.false_eq_true, if_false, StateT.run_bind, StateT.run_get]
  rw [delStack_run b _ _ (by omega) (Nat.le_refl _)]
  congr 2
  show setStkP _ s = s
  have : s.stack.extract 0 b ++ s.stack.extract s.stack.size s.stack.size = s.stack := by
    rw [← h]; simp
  rw [this]; rfl

theorem lookFor_run (s : IState) (eo : DelimE) (hst : s.stack = #[eo]) (ht : eo.elem.typ = 3) (hf : eo.elem.flags &&& 1 ≠ 0) :
    lookForLinkOrImage.run s = pure (0, s) := by
  unfold lookForLinkOrImage
  simp [StateT.run_bind, hst, Std.Legacy.Range.forIn_eq_forIn_range', Std.Legacy.Range.size, List.range', ht, hf]

theorem guardAt_run {c : ICtx} {src : Bytes} (hA : c.srcA = src.toArray) (cond : Bool) (i : Nat) (b y : UInt8) (s : IState)
    (hy : src[i]? = some y) : (guardAt cond c (i : Int) b).run s = pure (cond && y == b, s) := by
  obtain ⟨h1, h2⟩ := getA hA hy
  cases cond <;> simp [guardAt, srcIs, StateT.run_bind, srcAt_run c i s h1, h2]

/-- `finishLink IK.link 0` when the stack holds only the opening bracket. -/
theorem finishLink_run (s : IState) (eo : DelimE) (hst : s.stack = #[eo]) (hp : (s.parentMap[eo.node]?).join = some 0) :
    (finishLink IK.link 0).run s = pure ((), setStkP #[] (rmP eo.node s)) := by
  unfold finishLink
  simp only [StateT.run_bind, Nat.zero_add]
  rw [procEm_none 1 s (by rw [hst]; rfl), pure_bind]
  simp only [StateT.run_get, pure_bind, hst]
  have hg : (#[eo] : Array DelimE)[0]? = some eo := rfl
  simp only [hg, StateT.run_bind]
  rw [removeNode_run eo.node s hp, pure_bind, delStack_run 0 1 _ (by omega) (by show 1 ≤ s.stack.size; rw [hst]; exact Nat.le_refl 1), pure_bind]
  simp [StateT.run_bind, Std.Legacy.Range.forIn_eq_forIn_range', Std.Legacy.Range.size, setStkP, rmP, hst, IK.link]

/-- The normalised label of the shortcut reference `[…]` whose opening bracket node is `o` and whose `]` is at `q`. -/
def labelOf (c : ICtx) (s : IState) (o q : Nat) : Bytes :=
  transformLinkReferenceSpan c.x.fold c.src c.unparsedL (s.nodes[o]!).stop.toNat q

/-- The arena after the shortcut reference link has been made. -/
def linkFinal (label : Bytes) (o : Nat) (stop : Int) (pre mid : List Nat) (s : IState) : IState :=
  setStkP #[] (rmP o
    { wrapP IK.link o none pre mid [] s with
      nodes := (wrapP IK.link o none pre mid [] s).nodes.modify s.nodes.size fun n =>
        { n with start := ((wrapP IK.link o none pre mid [] s).nodes[o]!).start, stop := stop, ref := label } })

theorem shortcut_run {c : ICtx} {src : Bytes} (hA : c.srcA = src.toArray) {a E : Nat} {last : Bool} (s : IState)
    (hs : At c a E last s) (q : Nat) (y : UInt8) (hq : q + 1 < E) (hy : src[q + 1]? = some y) (hy1 : y ≠ 0x28) (hy2 : y ≠ 0x5B)
    (eo : DelimE) (hst : s.stack = #[eo]) (ht : eo.elem.typ = 3) (hf : eo.elem.flags &&& 1 ≠ 0)
    (pre mid : List Nat) (hpm : (s.parentMap[eo.node]?).join = some 0)
    (hkids : (s.nodes[0]!).kids = (pre ++ eo.node :: (mid ++ [])).toArray) (ho : eo.node ∉ pre) (hom : eo.node ∉ mid)
    (hosz : eo.node < s.nodes.size) (hpsz : s.parentMap.size = s.nodes.size)
    (hm : c.matchRef (labelOf c s eo.node q) = true) :
    (parseEndBracket c (q : Int)).run s =
      pure ((q : Int) + 1, linkFinal (labelOf c s eo.node q) eo.node ((q : Int) + 1) pre mid s) := by
  have hwrap := wrap_run IK.link s eo.node none pre mid [] hpm hkids ho (fun x _ h => by cases h) (Or.inl rfl)
  have hg0 : s.stack[0]? = some eo := by rw [hst]; rfl
  have ht4 : (eo.elem.typ == 4) = false := by rw [ht]; rfl
  have hlt1 : ((q : Int) + 1 < (E : Int)) := by omega
  have hg1 : ∀ st : IState, (guardAt (decide ((q : Int) + 1 < (E : Int))) c ((q : Int) + 1) 0x28).run st = pure (false, st) := by
    intro st
    have := guardAt_run hA (decide ((q : Int) + 1 < (E : Int))) (q + 1) 0x28 y st hy
    have e : ((q + 1 : Nat) : Int) = (q : Int) + 1 := by simp
    rw [e] at this
    rw [this]
    have : (y == 0x28) = false := by simpa using hy1
    rw [this, Bool.and_false]
  have hg2 : ∀ (cond : Bool) (st : IState), (guardAt cond c ((q : Int) + 1) 0x5B).run st = pure (false, st) := by
    intro cond st
    have := guardAt_run hA cond (q + 1) 0x5B y st hy
    have e : ((q + 1 : Nat) : Int) = (q : Int) + 1 := by simp
    rw [e] at this
    rw [this]
    have : (y == 0x5B) = false := by simpa using hy2
    rw [this, Bool.and_false]
  rw [CM.Proofs.InlH.parseEndBracket_eq]
  unfold CM.Proofs.InlH.parseEndBracket'
  simp only [StateT.run_bind, lookFor_run s eo hst ht hf, pure_bind, StateT.run_get, hg0, ht4, spanEnd, StateT.run_pure, hs.se]
  simp [hg1, StateT.run_bind]
  simp only [hg0, StateT.run_bind, StateT.run_get, pure_bind, hs.se, hg1]
  simp only [Bool.false_eq_true, if_false, CM.Proofs.InlH.refPart, StateT.run_bind, spanEnd, StateT.run_get, StateT.run_pure, pure_bind,
    hs.se, hg2, getNode]
  have hqn : ((q : Nat) : Int).toNat = q := Int.toNat_natCast q
  have hm' : c.matchRef (transformLinkReferenceSpan c.x.fold c.src c.unparsedL (s.nodes[eo.node]!).stop.toNat q) = true := hm
  have htyp : ¬ (eo.elem.typ = 4) := by rw [ht]; decide
  simp only [hqn, hm', Bool.not_true, Bool.false_eq_true, if_false, htyp, StateT.run_bind, hwrap, pure_bind, StateT.run_get,
    StateT.run_pure, modifyNode, StateT.run_modify]
  have hstk : (wrapP IK.link eo.node none pre mid [] s).stack = #[eo] := by
    simp only [wrapP, foldl_setPar_stack]; exact hst
  have hpm2 : ((wrapP IK.link eo.node none pre mid [] s).parentMap[eo.node]?).join = some 0 := by
    simp only [wrapP]
    rw [foldl_setPar_pm _ _ _ _ hom]
    simp only [Array.set!_eq_setIfInBounds, Array.getElem?_setIfInBounds]
    rw [if_neg (by omega), Array.getElem?_push_lt (by omega), ← Array.getElem?_eq_getElem (by omega)]
    exact hpm
  rw [finishLink_run _ eo (by exact hstk) (by exact hpm2), pure_bind]
  rfl

/-- … and when the label matches no definition: the `]` is literal text, the bracket entry is dropped. -/
theorem shortcut_neg_run {c : ICtx} {src : Bytes} (hA : c.srcA = src.toArray) {a E : Nat} {last : Bool} (s : IState)
    (hs : At c a E last s) (q : Nat) (y : UInt8) (hq : q + 1 < E) (hy : src[q + 1]? = some y) (hy1 : y ≠ 0x28) (hy2 : y ≠ 0x5B)
    (eo : DelimE) (hst : s.stack = #[eo]) (ht : eo.elem.typ = 3) (hf : eo.elem.flags &&& 1 ≠ 0)
    (hm : c.matchRef (labelOf c s eo.node q) = false) :
    (parseEndBracket c (q : Int)).run s =
      pure ((q : Int) + 1, setStkP #[] (addLeafP IK.text (q : Int) ((q : Int) + 1) s)) := by
  have hg0 : s.stack[0]? = some eo := by rw [hst]; rfl
  have ht4 : (eo.elem.typ == 4) = false := by rw [ht]; rfl
  have hlt1 : ((q : Int) + 1 < (E : Int)) := by omega
  have hg1 : ∀ st : IState, (guardAt (decide ((q : Int) + 1 < (E : Int))) c ((q : Int) + 1) 0x28).run st = pure (false, st) := by
    intro st
    have := guardAt_run hA (decide ((q : Int) + 1 < (E : Int))) (q + 1) 0x28 y st hy
    have e : ((q + 1 : Nat) : Int) = (q : Int) + 1 := by simp
    rw [e] at this
    rw [this]
    have : (y == 0x28) = false := by simpa using hy1
    rw [this, Bool.and_false]
  have hg2 : ∀ (cond : Bool) (st : IState), (guardAt cond c ((q : Int) + 1) 0x5B).run st = pure (false, st) := by
    intro cond st
    have := guardAt_run hA cond (q + 1) 0x5B y st hy
    have e : ((q + 1 : Nat) : Int) = (q : Int) + 1 := by simp
    rw [e] at this
    rw [this]
    have : (y == 0x5B) = false := by simpa using hy2
    rw [this, Bool.and_false]
  rw [CM.Proofs.InlH.parseEndBracket_eq]
  unfold CM.Proofs.InlH.parseEndBracket'
  simp only [StateT.run_bind, lookFor_run s eo hst ht hf, pure_bind, StateT.run_get, hg0, ht4, spanEnd, StateT.run_pure, hs.se]
  simp [hg1, StateT.run_bind]
  simp only [hg0, StateT.run_bind, StateT.run_get, pure_bind, hs.se, hg1]
  simp only [Bool.false_eq_true, if_false, CM.Proofs.InlH.refPart, StateT.run_bind, spanEnd, StateT.run_get, StateT.run_pure, pure_bind,
    hs.se, hg2, getNode]
  have hqn : ((q : Nat) : Int).toNat = q := Int.toNat_natCast q
  have hm' : c.matchRef (transformLinkReferenceSpan c.x.fold c.src c.unparsedL (s.nodes[eo.node]!).stop.toNat q) = false := hm
  simp only [hqn, hm', Bool.not_false, if_true, StateT.run_bind, addLeaf_run, pure_bind, StateT.run_pure]
  rw [delStack_run 0 1 _ (by omega) (by
    show 1 ≤ (addLeafP IK.text (q : Int) ((q : Int) + 1) s).stack.size
    have : (addLeafP IK.text (q : Int) ((q : Int) + 1) s).stack = s.stack := by unfold addLeafP; split <;> rfl
    rw [this, hst]; exact Nat.le_refl 1), pure_bind]
  have : (addLeafP IK.text (q : Int) ((q : Int) + 1) s).stack = #[eo] := by
    have : (addLeafP IK.text (q : Int) ((q : Int) + 1) s).stack = s.stack := by unfold addLeafP; split <;> rfl
    rw [this, hst]
  rw [this]
  rfl

end CM.Proofs.InlSer
