import CM.Proofs.ReparseFirst
/-
C16, Layer U, part 3: from a run of `Parse` on a document to the situation of `reparse_first_core`.

* `MemOK inp q`: what every state of the in-memory run on a NUL-free `inp` satisfies as long as no panic site was
  reached (for EVERY line parser): `err = io.EOF`, the default reader, the buffer is a suffix of `inp` and `offset` is
  the length of the consumed part.
* `reparse_fresh_call`: a `NextBlock` call made with NO pending blocks delivers a root that re-parses on its own —
  under `CloseIndep`, for a `Good` block, when the root's `Source` ends in a line ending that does not merge with what
  follows (or nothing follows).
-/
namespace CM.Proofs.Rp
open CM CM.Model CM.Gen CM.Proofs

structure MemOK (inp : Bytes) (q : BP) : Prop where
  err : q.err = some .eof
  rd : q.rd = {}
  panic : q.panic = none
  ile : q.i ≤ q.buf.length
  ln : 1 ≤ q.lineno
  pos : ∃ c, inp = c ++ q.buf ∧ q.offset = c.length

theorem MemOK.init {inp : Bytes} (hnn : NoNul inp) : MemOK inp (memParser inp) := by
  rw [memParser_noNul hnn]
  exact ⟨rfl, rfl, rfl, Nat.zero_le _, Nat.le_refl _, [], rfl, rfl⟩

theorem MemOK.nn {inp : Bytes} {q : BP} (h : MemOK inp q) (hnn : NoNul inp) : NoNul q.buf := by
  obtain ⟨c, e, _⟩ := h.pos
  rw [e] at hnn; exact hnn.right

theorem MemOK.errSome {inp : Bytes} {q : BP} (h : MemOK inp q) : q.err.isSome = true := by rw [h.err]; rfl

/-- Dropping `n ≤ i` consumed bytes. -/
theorem MemOK.advance {inp : Bytes} {q q' : BP} (h : MemOK inp q) (hnn : NoNul inp) (n : Nat) (hn : n ≤ q.buf.length)
    (hb : q'.buf = q.buf.drop n) (ho : q'.offset = q.offset + unpaddedNullLength (q.buf.take n)) (hl : q.lineno ≤ q'.lineno)
    (hi : q'.i ≤ q'.buf.length) (he : q'.err = q.err) (hr : q'.rd = q.rd) (hp : q'.panic = none) : MemOK inp q' := by
  obtain ⟨c, e, o⟩ := h.pos
  refine ⟨by rw [he, h.err], by rw [hr, h.rd], hp, hi, by have := h.ln; omega, c ++ q.buf.take n, ?_, ?_⟩
  · rw [hb, List.append_assoc, List.take_append_drop]; exact e
  · rw [ho, unpaddedNullLength_noNul ((h.nn hnn).take n), o]; simp [Nat.min_eq_left hn]

theorem MemOK.setI {inp : Bytes} {q : BP} (h : MemOK inp q) (i : Nat) (hi : i ≤ q.buf.length) : MemOK inp { q with i := i } :=
  ⟨h.err, h.rd, h.panic, hi, h.ln, h.pos⟩

theorem afterRoot_memOK {inp : Bytes} {q : BP} (h : MemOK inp q) (hnn : NoNul inp) (k : PB) (rest : List PB)
    (hp : (afterRoot q k rest).panic = none) : MemOK inp (afterRoot q k rest) := by
  obtain ⟨h1, h2⟩ := afterRoot_panic_none hp
  refine h.advance hnn k.label.stop.toNat h2 rfl rfl (Nat.le_add_right _ _) ?_ rfl rfl hp
  show q.i - _ ≤ (q.buf.drop _).length
  have := h.ile
  simp only [List.length_drop]; omega

theorem readline_memOK {inp : Bytes} {q : BP} (h : MemOK inp q) :
    MemOK inp (readline (q.rd.data.length + q.rd.sched.length + 2) q).2 := by
  rw [rl_mem q h.errSome h.ile]
  refine h.setI _ ?_
  have := lineLen_le (q.buf.drop q.i)
  have := h.ile
  simp only [List.length_drop] at *; omega

theorem readline_panic (q : BP) (herr : q.err.isSome = true) (hile : q.i ≤ q.buf.length) :
    (readline (q.rd.data.length + q.rd.sched.length + 2) q).2.panic = q.panic := by
  rw [rl_mem q herr hile]

section
variable (L : LineParserI)

theorem parseLines_memOK {inp : Bytes} (hnn : NoNul inp) : ∀ (f : Nat) (lp : L.σ) (ls : Nat) (p : BP), MemOK inp p →
    (parseLines L f lp ls p).2.panic = none → MemOK inp (parseLines L f lp ls p).2 := by
  intro f
  induction f with
  | zero => intro lp ls p h _; exact h
  | succ f ih =>
    intro lp ls p h hp
    cases hpan : L.panicked (L.line lp (p.buf.take p.i) ls) with
    | some m => rw [parseLines_panicked L hpan]; exact h
    | none =>
      cases hmr : makeRoot p (L.kids (L.line lp (p.buf.take p.i) ls)) with
      | some rp =>
        rw [parseLines_root L hpan hmr] at hp ⊢
        cases hk : L.kids (L.line lp (p.buf.take p.i) ls) with
        | nil => rw [hk] at hmr; cases hmr
        | cons k rest =>
          rw [hk] at hmr
          cases ho : k.isOpen with
          | true => rw [makeRoot_open _ _ _ ho] at hmr; cases hmr
          | false =>
            rw [makeRoot_closed _ _ _ ho] at hmr
            simp only [Option.some.injEq] at hmr
            rw [← hmr] at hp ⊢
            exact afterRoot_memOK h hnn k rest hp
      | none =>
        rw [parseLines_next L hpan hmr] at hp ⊢
        exact ih _ _ _ (readline_memOK h) hp

/-- A root delivered by the per-line loop is cut off the loop's own buffer. -/
theorem parseLines_rootOf : ∀ (f : Nat) (lp : L.σ) (ls : Nat) (p : BP) (r : Root) (p' : BP), p.err.isSome = true →
    p.i ≤ p.buf.length → parseLines L f lp ls p = (.block r, p') → ∃ k, r = rootOf p k := by
  intro f
  induction f with
  | zero => intro lp ls p r p' _ _ h; simp [parseLines] at h
  | succ f ih =>
    intro lp ls p r p' herr hile h
    cases hpan : L.panicked (L.line lp (p.buf.take p.i) ls) with
    | some m => rw [parseLines_panicked L hpan] at h; cases h
    | none =>
      cases hmr : makeRoot p (L.kids (L.line lp (p.buf.take p.i) ls)) with
      | some rp =>
        rw [parseLines_root L hpan hmr] at h
        cases hk : L.kids (L.line lp (p.buf.take p.i) ls) with
        | nil => rw [hk] at hmr; cases hmr
        | cons k rest =>
          rw [hk] at hmr
          cases ho : k.isOpen with
          | true => rw [makeRoot_open _ _ _ ho] at hmr; cases hmr
          | false =>
            rw [makeRoot_closed _ _ _ ho] at hmr
            simp only [Option.some.injEq] at hmr
            rw [← hmr] at h
            simp only [Prod.mk.injEq, NBOut.block.injEq] at h
            exact ⟨k, h.1.symm⟩
      | none =>
        rw [parseLines_next L hpan hmr, rl_mem p herr hile] at h
        have hle := lineLen_le (p.buf.drop p.i)
        simp only [List.length_drop] at hle
        obtain ⟨k, hk⟩ := ih _ _ { p with i := p.i + lineLen (p.buf.drop p.i) } r p' herr
          (by show p.i + lineLen (p.buf.drop p.i) ≤ p.buf.length; omega) h
        exact ⟨k, hk⟩

end

/-- One blank first line consumed by the blank-line loop. -/
def blankStep (q : BP) : BP :=
  { q with offset := q.offset + unpaddedNullLength (q.buf.take (lineLen q.buf)), lineno := q.lineno + 1,
           buf := q.buf.drop (lineLen q.buf), i := 0 }

/-- The blank-line loop on the in-memory parser: the state it ends in, and — if it found a non-blank line — that the
    parse position is at the end of that line, which is the first line of the buffer. -/
theorem skipBlank_memOK {inp : Bytes} (hnn : NoNul inp) : ∀ (F : Nat) (q : BP), MemOK inp q → q.i = 0 →
    (skipBlank F q).2.panic = none →
    MemOK inp (skipBlank F q).2 ∧ (skipBlank F q).2.blocks = q.blocks ∧
    ∀ p1, (skipBlank F q).1 = some p1 → p1 = (skipBlank F q).2 ∧ p1.i = lineLen p1.buf ∧
      isBlankLine (p1.buf.take p1.i) = false := by
  intro F
  induction F with
  | zero => intro q h _ hp; simp [skipBlank, h.panic] at hp
  | succ F ih =>
    intro q h hi hp
    have hrl := rl_mem q h.errSome h.ile
    rw [hi] at hrl
    simp only [List.drop_zero, Nat.zero_add] at hrl
    have hle := lineLen_le q.buf
    by_cases hpos : 0 < lineLen q.buf
    · by_cases hb : isBlankLine (q.buf.take (lineLen q.buf)) = true
      · have e : skipBlank (F + 1) q = skipBlank F (blankStep q) := by
          simp only [skipBlank, hrl, hpos, decide_true, Bool.not_true, Bool.false_eq_true, if_false, hb, blankStep]
        rw [e] at hp ⊢
        have h' : MemOK inp (blankStep q) :=
          h.advance hnn (lineLen q.buf) hle rfl rfl (Nat.le_add_right _ _) (Nat.zero_le _) rfl rfl h.panic
        exact ih _ h' rfl hp
      · have e : skipBlank (F + 1) q = (some { q with i := lineLen q.buf }, { q with i := lineLen q.buf }) := by
          simp only [skipBlank, hrl, hpos, decide_true, Bool.not_true, Bool.false_eq_true, if_false, hb, Bool.not_false,
            if_true]
        rw [e]
        refine ⟨h.setI _ hle, rfl, ?_⟩
        intro p1 hp1
        simp only [Option.some.injEq] at hp1
        subst hp1
        exact ⟨rfl, rfl, by simpa using hb⟩
    · have e : skipBlank (F + 1) q = (none, { q with i := lineLen q.buf }) := by
        simp only [skipBlank, hrl, hpos, decide_false, Bool.not_false, if_true]
      rw [e]
      exact ⟨h.setI _ hle, rfl, fun p1 hp1 => by cases hp1⟩

theorem freshLine_memOK {inp : Bytes} {q : BP} (h : MemOK inp q) (hnn : NoNul inp) : MemOK inp (freshLine q) :=
  h.advance hnn q.i h.ile rfl rfl (Nat.le_add_right _ _) (Nat.zero_le _) rfl rfl h.panic

theorem nextBlock_memOK (L : LineParserI) {inp : Bytes} (hnn : NoNul inp) {q : BP} (h : MemOK inp q)
    (hp : (nextBlock L q).2.panic = none) : MemOK inp (nextBlock L q).2 := by
  rw [nextBlock_eq_F] at hp ⊢
  cases hmr : makeRoot q q.blocks with
  | some rp =>
    obtain ⟨r, p'⟩ := rp
    rw [nextBlockF_root L hmr] at hp ⊢
    cases hk : q.blocks with
    | nil => rw [hk] at hmr; cases hmr
    | cons k rest =>
      rw [hk] at hmr
      cases ho : k.isOpen with
      | true => rw [makeRoot_open _ _ _ ho] at hmr; cases hmr
      | false =>
        rw [makeRoot_closed _ _ _ ho] at hmr
        simp only [Option.some.injEq, Prod.mk.injEq] at hmr
        rw [← hmr.2] at hp ⊢
        exact afterRoot_memOK h hnn k rest hp
  | none =>
    by_cases hb : q.blocks.length > 0
    · rw [nextBlockF_pending L hmr hb] at hp ⊢
      exact parseLines_memOK L hnn _ _ _ _ (readline_memOK h) hp
    · rw [nextBlockF_fresh L hmr hb] at hp ⊢
      have hq0 := freshLine_memOK h hnn
      rcases hs : skipBlank (bpFuel q) (freshLine q) with ⟨o, p2⟩
      rw [hs] at hp
      cases o with
      | none =>
        have hp2 : p2.panic = none := by
          simp only [afterSkip] at hp
          cases hpp : p2.panic with
          | none => rfl
          | some m => rw [hpp] at hp; simp at hp; rw [hpp] at hp; cases hp
        have := (skipBlank_memOK hnn (bpFuel q) (freshLine q) hq0 rfl (by rw [hs]; exact hp2)).1
        rw [hs] at this
        simp only [afterSkip]
        cases hpp : p2.panic with
        | none => exact this
        | some m => rw [hpp] at hp2; cases hp2
      | some p1 =>
        simp only [afterSkip] at hp ⊢
        -- the state `p1` has no panic (it is sticky through the per-line loop)
        have hp1 : p1.panic = none := by
          cases hpp : p1.panic with
          | none => rfl
          | some m =>
            have hsb := skipBlank_some_err (q := freshLine q) hq0.errSome (by rw [hs])
            have := (parseLines_sticky L (bpFuel q) (L.new p1.blocks) 0 p1 hsb).2 (by rw [hpp]; rfl)
            rw [hp] at this; cases this
        have hp2 : p2 = p1 := by
          -- `skipBlank` returns the same state twice
          have : ∀ (F : Nat) (q : BP) (p1 p2 : BP), skipBlank F q = (some p1, p2) → p2 = p1 := by
            intro F
            induction F with
            | zero => intro q p1 p2 h; simp [skipBlank] at h
            | succ F ih =>
              intro q p1 p2 h
              simp only [skipBlank] at h
              split at h
              · cases h
              · split at h
                · simp only [Prod.mk.injEq, Option.some.injEq] at h; rw [← h.1, ← h.2]
                · exact ih _ _ _ h
          exact this _ _ _ _ hs
        subst hp2
        have := (skipBlank_memOK hnn (bpFuel q) (freshLine q) hq0 rfl (by rw [hs]; exact hp1)).1
        rw [hs] at this
        exact parseLines_memOK L hnn _ _ _ _ this hp

/-- The state before the `(n+1)`-th `NextBlock` call of `Parse`. -/
def stateBefore (L : LineParserI) (inp : Bytes) : Nat → BP
  | 0 => memParser inp
  | n + 1 => (callN L n (memParser inp)).2

theorem callN_succ (L : LineParserI) : ∀ (n : Nat) (p : BP), callN L (n + 1) p = nextBlock L (callN L n p).2 := by
  intro n
  induction n with
  | zero => intro p; rfl
  | succ n ih => intro p; simp only [callN] at ih ⊢; exact ih _

theorem callN_eq_before (L : LineParserI) (inp : Bytes) (n : Nat) :
    callN L n (memParser inp) = nextBlock L (stateBefore L inp n) := by
  cases n with
  | zero => rfl
  | succ n => exact callN_succ L n _

theorem callN_memOK (L : LineParserI) {inp : Bytes} (hnn : NoNul inp) : ∀ (n : Nat),
    (callN L n (memParser inp)).2.panic = none → MemOK inp (callN L n (memParser inp)).2 := by
  intro n
  induction n with
  | zero => intro hp; exact nextBlock_memOK L hnn (MemOK.init hnn) hp
  | succ n ih =>
    intro hp
    rw [callN_succ] at hp ⊢
    have hprev : (callN L n (memParser inp)).2.panic = none := by
      cases hpp : (callN L n (memParser inp)).2.panic with
      | none => rfl
      | some m =>
        have herr := (callN_sticky L n (memParser inp) rfl).1
        have := (nextBlock_sticky L _ herr).2 (by rw [hpp]; rfl)
        rw [hp] at this; cases this
    exact nextBlock_memOK L hnn (ih hprev) hp

theorem stateBefore_memOK (L : LineParserI) {inp : Bytes} (hnn : NoNul inp) (n : Nat)
    (hp : (callN L n (memParser inp)).2.panic = none) : MemOK inp (stateBefore L inp n) := by
  cases n with
  | zero => exact MemOK.init hnn
  | succ n =>
    apply callN_memOK L hnn n
    cases hpp : (callN L n (memParser inp)).2.panic with
    | none => rfl
    | some m =>
      rw [callN_succ] at hp
      have herr := (callN_sticky L n (memParser inp) rfl).1
      have := (nextBlock_sticky L _ herr).2 (by rw [hpp]; rfl)
      rw [hp] at this; cases this

end CM.Proofs.Rp
