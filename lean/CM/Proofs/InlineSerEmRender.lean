import CM.Proofs.InlineSerEmLine
import CM.Proofs.InlineSerRender
/-
Inline serialisation — emphasis, part 5: rendering.  The paragraph whose children are the result of
`parseInlines_emline` renders as `<p>` P1 `<em>` P2 `</em>` P3 `</p>` (`<strong>` for two delimiter bytes).
-/
namespace CM.Proofs.InlSer
open CM CM.Gen CM.Model CM.Model.Inl CM.Proofs.EscText CM.Spec

/-- the element name of an emphasis node -/
def emTag (n : Nat) : Bytes := if n = 2 then str "strong" else str "em"

theorem rn_em (cx : RCtx) (par blk : Option Tree) (i : Int) (n : Nat) (a b : Int) (kids : List Tree) :
    renderNode cx (.node { isBlock := false, kind := if n = 2 then IK.strong else IK.emphasis, start := a, stop := b } kids) par blk i =
      openTag cx (emTag n) ++
        renderForest cx (.node { isBlock := false, kind := if n = 2 then IK.strong else IK.emphasis, start := a, stop := b } kids)
          blk kids 0 ++ closeTag cx (emTag n) := by
  rw [renderNode]
  by_cases h : n = 2
  · simp [h, openBytes, closeBytes, Tree.label, preInline, postInline, IK.text, IK.charRef, IK.unparsed, IK.rawHTML, IK.softBreak,
      IK.hardBreak, IK.emphasis, IK.strong, emTag, blockFor]
  · simp [h, openBytes, closeBytes, Tree.label, preInline, postInline, IK.text, IK.charRef, IK.unparsed, IK.rawHTML, IK.softBreak,
      IK.hardBreak, IK.emphasis, IK.strong, emTag, blockFor]

theorem EmLine.A_eq (l : EmLine) (src : Bytes) : l.A src = lineNodes ⟨0, l.P1.map (SPiece.toPiece src), .eof⟩ := by
  simp [EmLine.A, lineNodes, Line.e0, plen_toPiece, endNodes, EmLine.p]

theorem EmLine.B_eq (l : EmLine) (src : Bytes) : l.B src = lineNodes ⟨l.p + l.n, l.P2.map (SPiece.toPiece src), .eof⟩ := by
  simp [EmLine.B, lineNodes, Line.e0, plen_toPiece, endNodes, EmLine.q]

theorem EmLine.C_eq (l : EmLine) (src : Bytes) : l.C src = lineNodes ⟨l.r, l.P3.map (SPiece.toPiece src), l.ending⟩ := by
  simp [EmLine.C, lineNodes, Line.e0, plen_toPiece, EmLine.e0]

/-- **The paragraph with one emphasis renders as its pieces, the emphasised ones inside `<em>` / `<strong>`.** -/
theorem render_emline (cx : RCtx) (dst : Bytes) (N : Int) (l : EmLine) (hsrc : cx.src = l.bytes)
    (h1 : PShape l.P1) (h2 : PShape l.P2) (h3 : PShape l.P3) :
    appendBlock cx dst (.node { isBlock := true, kind := BK.paragraph, start := 0, stop := N }
        ((l.A l.bytes).map nodeTree ++ l.tree l.bytes :: (l.C l.bytes).map nodeTree)) =
      dst ++ openTag cx (str "p") ++ l.P1.flatMap (htmlP cx) ++ openTag cx (emTag l.n) ++ l.P2.flatMap (htmlP cx) ++
        closeTag cx (emTag l.n) ++ l.P3.flatMap (htmlP cx) ++ htmlE cx l.ending ++ closeTag cx (str "p") := by
  rw [CM.Props.C10.render_eq_spec, renderSpec, renderNode]
  generalize hpar : (Tree.node { isBlock := true, kind := BK.paragraph, start := 0, stop := N }
    ((l.A l.bytes).map nodeTree ++ l.tree l.bytes :: (l.C l.bytes).map nodeTree)) = par
  have hd0 : cx.src.drop 0 = (⟨l.P1, .eof⟩ : SLine).bytes ++ (l.d ++ l.t2) := by
    rw [hsrc]; simp [SLine.bytes, Ending.bytes, EmLine.bytes]
  have hdp : cx.src.drop l.p = l.d ++ l.t2 := by
    have := drop_shift (show cx.src.drop 0 = pbytes l.P1 ++ (l.d ++ l.t2) by rw [hsrc]; rfl)
    simpa [EmLine.p] using this
  have hdpn : cx.src.drop (l.p + l.n) = (⟨l.P2, .eof⟩ : SLine).bytes ++ (l.d ++ l.t3) := by
    have := drop_shift hdp
    simpa [EmLine.d, EmLine.t2, SLine.bytes, Ending.bytes] using this
  have hdq : cx.src.drop l.q = l.d ++ l.t3 := by
    have := drop_shift (show cx.src.drop (l.p + l.n) = pbytes l.P2 ++ (l.d ++ l.t3) by simpa [SLine.bytes, Ending.bytes] using hdpn)
    simpa [EmLine.q] using this
  have hdr : cx.src.drop l.r = (⟨l.P3, l.ending⟩ : SLine).bytes ++ [] := by
    have := drop_shift hdq
    simpa [EmLine.d, EmLine.r, EmLine.t3, SLine.bytes] using this
  have rA := render_line cx par (some par) ⟨l.P1, .eof⟩ 0 0 _ hd0 h1
  have rC := render_line cx par (some par) ⟨l.P3, l.ending⟩ l.r (0 + (l.A l.bytes).length + 1) _ hdr h3
  rw [← hsrc] at *
  rw [← EmLine.A_eq] at rA
  rw [← EmLine.C_eq] at rC
  have rB := fun (p' : Tree) => render_line cx p' (some par) ⟨l.P2, .eof⟩ (l.p + l.n) 0 _ hdpn h2
  simp only [← EmLine.B_eq] at rB
  have hopen : (openBytes cx { node := par, parent := none, block := none, index := -1 }) = (openTag cx (str "p"), true) := by
    rw [← hpar]; simp [openBytes, Tree.label, preBlock, BK.paragraph, parentTight, Node.isTightList]
  have hclose : closeBytes cx { node := par, parent := none, block := none, index := -1 } = closeTag cx (str "p") := by
    rw [← hpar]; simp [closeBytes, Tree.label, postBlock, BK.paragraph, parentTight, Node.isTightList]
  have hblk : blockFor { node := par, parent := none, block := none, index := -1 } = some par := by
    rw [← hpar]; rfl
  rw [hopen, hclose, hblk]
  simp only [if_true]
  rw [renderForest_append, renderForest, List.length_map, rA, rC, EmLine.tree, rn_em, rB]
  simp [htmlL, htmlE, List.append_assoc]

end CM.Proofs.InlSer
