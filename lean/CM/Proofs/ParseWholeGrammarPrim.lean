import CM.Proofs.ParseWholeGrammarStack3
/-
C05, inline half — the third chain of specifications over the inline phase (after `G φ`, `InlInv*.lean`, and `S`,
`InlForest*.lean`): exact descriptions of what the small state-writing primitives do, and the invariant `Om` on the
states they produce.
-/
namespace CM.Proofs.InlH
open CM CM.Model CM.Model.Inl
open Std.Do

set_option mvcgen.warning false

/-! ### exact specifications of the primitives -/

/-- the state after `addToRoot id` -/
def addRootState (s0 : IState) (id : Nat) : IState :=
  if spanLenI (s0.nodes[id]!).start (s0.nodes[id]!).stop == 0 then s0
  else { s0 with nodes := s0.nodes.modify 0 (fun r => { r with kids := r.kids.push id }),
                 parentMap := s0.parentMap.set! id (some 0) }

@[spec high + 1]
theorem addToRoot_specO (id : Nat) (s0 : IState) :
    ⦃fun s => ⌜s = s0⌝⦄ addToRoot id ⦃⇓? _ s => ⌜s = addRootState s0 id⌝⦄ := by
  mvcgen [addToRoot, nodeLen, getNode, setParent, modifyNode, -addToRoot_spec, -addToRoot_specS]
  · subst_vars
    unfold addRootState
    rw [if_pos ‹_›]
  · subst_vars
    unfold addRootState
    rw [if_neg ‹_›]

/-- the state after `removeNode node` when the node's parent is `P` -/
def removeState (s0 : IState) (node P : Nat) : IState :=
  { s0 with nodes := s0.nodes.modify P (fun n => { n with kids := n.kids.filter (· != node) }),
            parentMap := s0.parentMap.set! node none }

@[spec high + 1]
theorem removeNode_specO (node : Nat) (s0 : IState) :
    ⦃fun s => ⌜s = s0⌝⦄ removeNode node
    ⦃⇓? _ s => ⌜∃ P, (s0.parentMap[node]?).join = some P ∧ s = removeState s0 node P⌝⦄ := by
  mvcgen [removeNode, setParent, modifyNode, -removeNode_spec, -removeNode_specS]
  · subst_vars
    exact ⟨_, ‹_›, rfl⟩
  · intro h; exact h.elim

/-- the state after `delStack i j` -/
def delState (s0 : IState) (i j : Nat) : IState :=
  { s0 with stack := s0.stack.extract 0 i ++ s0.stack.extract j s0.stack.size }

@[spec high + 1]
theorem delStack_specO (i j : Nat) (s0 : IState) :
    ⦃fun s => ⌜s = s0⌝⦄ delStack i j
    ⦃⇓? _ s => ⌜i ≤ s0.stack.size ∧ j ≤ s0.stack.size ∧ i ≤ j ∧ s = delState s0 i j⌝⦄ := by
  mvcgen [delStack, -delStack_spec, -delStack_specS]
  subst_vars
  rename_i hc
  simp only [Bool.or_eq_true, decide_eq_true_eq, not_or, Nat.not_lt] at hc
  exact ⟨hc.1.1, hc.1.2, hc.2, rfl⟩

/-- the state after `appendFinished parent n` -/
def appendState (s0 : IState) (parent : Nat) (n : INode) : IState :=
  { s0 with nodes := (s0.nodes.push n).modify parent (fun p => { p with kids := p.kids.push s0.nodes.size }),
            parentMap := s0.parentMap.push none }

@[spec high + 1]
theorem appendFinished_specO (parent : Nat) (n : INode) (s0 : IState) :
    ⦃fun s => ⌜s = s0⌝⦄ appendFinished parent n ⦃⇓? _ s => ⌜s = appendState s0 parent n⌝⦄ := by
  mvcgen [appendFinished, alloc, modifyNode, -appendFinished_spec, -appendFinished_specS]
  subst_vars
  rfl

end CM.Proofs.InlH
