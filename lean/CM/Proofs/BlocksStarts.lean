import CM.Proofs.BlocksOps
import CM.Proofs.BlocksBounds
/-
The eight block starts preserve the working invariant `Inv`, stay in the opening states, never move the cursor
backwards, and — when they report a match without consuming the line — either open a leaf block that takes the rest
of the line or move the cursor forward (this bounds the number of iterations of `openingLoop`).
-/
namespace CM.Proofs.BT
open CM CM.Model CM.Gen

structure SPost (p p' : LP) : Prop where
  inv : Inv p'
  st : p'.state ≤ 2
  line : p'.line = p.line
  ile : p.i ≤ p'.i
  prog : p'.state = 1 → (acceptsLines p'.containerKind = true ∧ p'.containerKind ≠ BK.paragraph) ∨ p.i < p'.i

theorem SPost.refl {p : LP} (h : Inv p) (hs : p.state = 0) : SPost p p :=
  ⟨h, by omega, rfl, Nat.le_refl _, fun h' => by omega⟩

theorem hasBytePrefix_length : ∀ (b pre : Bytes), hasBytePrefix b pre = true → pre.length ≤ b.length := by
  intro b
  induction b with
  | nil => intro pre h; cases pre with
    | nil => simp
    | cons a r => simp [hasBytePrefix] at h
  | cons c b ih => intro pre h; cases pre with
    | nil => simp
    | cons a r =>
      simp only [hasBytePrefix, Bool.and_eq_true] at h
      have := ih r h.2
      simp; omega

/-- Consuming the whole indentation puts the cursor at `bytesAfterIndent`. -/
theorem consumeAll (p : LP) (h : Inv p) :
    CIPost p (p.consumeIndentN p.indent) p.indent ∧
    (p.consumeIndentN p.indent).line.drop (p.consumeIndentN p.indent).i = p.bytesAfterIndent ∧
    (p.consumeIndentN p.indent).i + p.bytesAfterIndent.length = p.line.length := by
  have ci := consumeIndentN_post p p.indent h.cur (Nat.le_refl _)
  have h0 : (p.consumeIndentN p.indent).indent = 0 := by rw [ci.indent]; omega
  have hb := bai_of_indent_zero _ ci.cur h0
  rw [ci.bai] at hb
  refine ⟨ci, hb.symm, ?_⟩
  rw [hb, List.length_drop, ci.line]
  have := ci.cur.hi; rw [ci.line] at this
  omega

theorem id_kind : ∀ l : PLabel, (id l).kind = l.kind := fun _ => rfl

theorem startBlockQuote_post (x : PExt) (p : LP) (h : Inv p) (hs : p.state = 0) : SPost p (startBlockQuote x p) := by
  unfold startBlockQuote
  simp only []
  split
  · exact SPost.refl h hs
  split
  · exact SPost.refl h hs
  rename_i _ hpre
  have hpre' : hasBytePrefix p.bytesAfterIndent blockQuotePrefix = true := by
    cases hh : hasBytePrefix p.bytesAfterIndent blockQuotePrefix
    · rw [hh] at hpre; exact absurd rfl hpre
    · rfl
  have hlen := hasBytePrefix_length _ _ hpre'
  obtain ⟨ci, hdrop, hil⟩ := consumeAll p h
  generalize p.consumeIndentN p.indent = p1 at ci hdrop hil ⊢
  have i1 := ci.inv h
  have s1 := ci.st (by omega)
  have ob := openBlock_inv x p1 BK.blockQuote id id_kind i1 s1.2 (Or.inl (by decide))
  generalize p1.openBlock x BK.blockQuote = p2 at ob
  have i2 := ob.inv i1
  have s2 := ob.st s1.2
  have e2i : p2.i = p1.i := cur_i ob.cur
  have e2l : p2.line = p1.line := cur_line ob.cur
  have hbq : blockQuotePrefix.length = 1 := rfl
  have ad := advance_post p2 blockQuotePrefix.length i2.cur (by rw [e2i, e2l, ci.line]; omega)
  generalize p2.advance blockQuotePrefix.length = p3 at ad
  have i3 := ad.inv i2
  have s3 := ad.st s2.2.1
  have k3 : p3.containerKind = BK.blockQuote := by rw [ad.ckind, ob.ckind]
  have hi3 : p.i < p3.i := by rw [ad.i, e2i, hbq]; have := ci.ige; omega
  split
  · rename_i hpos
    have c4 := consumeIndentN_post p3 1 i3.cur (by omega)
    generalize p3.consumeIndentN 1 = p4 at c4
    have s4 := c4.st s3.2
    refine ⟨c4.inv i3, s4.2, by rw [c4.line, ad.line, e2l, ci.line], by have := c4.ige; omega, fun _ => Or.inr ?_⟩
    have := c4.ige; omega
  · exact ⟨i3, s3.2, by rw [ad.line, e2l, ci.line], by omega, fun _ => Or.inr hi3⟩

theorem getD_of_drop (p : LP) (b : Bytes) (k : Nat) (h : p.line.drop p.i = b) : p.line.getD (p.i + k) 0 = b.getD k 0 := by
  rw [← h, getD_drop_add]

/-- The indentation is 0 when the byte under the cursor is neither a space nor a tab. -/
theorem indent_zero_of_getD (p : LP) (h1 : p.line.getD p.i 0 ≠ SP) (h2 : p.line.getD p.i 0 ≠ TAB) : p.indent = 0 :=
  indent_other p h1 h2

theorem startATX_post (x : PExt) (p : LP) (h : Inv p) (hs : p.state = 0) : SPost p (startATX x p) := by
  unfold startATX
  simp only []
  split
  · exact SPost.refl h hs
  split
  · exact SPost.refl h hs
  rename_i _ hlev
  have hb := parseATXHeading_bound p.bytesAfterIndent
  generalize parseATXHeading p.bytesAfterIndent = hd at hb hlev ⊢
  obtain ⟨hb1, hb2, hb3⟩ := hb
  have hb3 := hb3 (by omega)
  obtain ⟨ci, hdrop, hil⟩ := consumeAll p h
  generalize p.consumeIndentN p.indent = p1 at ci hdrop hil ⊢
  have i1 := ci.inv h
  have s1 := ci.st (by omega)
  have ob := openBlock_inv x p1 BK.atxHeading (fun l => { l with n := hd.level }) (fun _ => rfl) i1 s1.2 (Or.inl (by decide))
  generalize p1.openBlock x BK.atxHeading (fun l => { l with n := hd.level }) = p2 at ob
  have i2 := ob.inv i1
  have s2 := ob.st s1.2
  have e2i : p2.i = p1.i := cur_i ob.cur
  have e2l : p2.line = p1.line := cur_line ob.cur
  have ad := advance_post p2 hd.start i2.cur (by rw [e2i, e2l, ci.line]; omega)
  generalize p2.advance hd.start = p3 at ad
  have i3 := ad.inv i2
  have s3 := ad.st s2.2.1
  have hdrop3 : p3.line.getD p3.i 0 = p.bytesAfterIndent.getD hd.start 0 := by
    rw [ad.i, ad.line, e2i, e2l]; exact getD_of_drop p1 _ _ hdrop
  have hind3 : p3.indent = 0 := indent_zero_of_getD p3 (by rw [hdrop3]; exact hb3.1) (by rw [hdrop3]; exact hb3.2)
  have co := collectInline_post x p3 IK.unparsed (hd.stop - hd.start) i3 (by omega) (by
    rw [ciSkip_zero p3 hind3, ad.i, ad.line, e2i, e2l, ci.line]; omega)
  generalize p3.collectInline x IK.unparsed (hd.stop - hd.start) = p4 at co
  have s4 := co.st s3.2
  have cl := consumeLine_post p4 co.inv.cur
  generalize p4.consumeLine = p5 at cl
  have i5 := cl.inv co.inv
  have s5 := cl.st s4.2.1
  have eb := endBlock_inv x p5 i5 (by omega)
  generalize p5.endBlock x = p6 at eb
  have s6 : p6.state = 2 := by rw [eb.state, s5]; rfl
  refine ⟨eb.inv i5, by omega, ?_, ?_, fun h' => by omega⟩
  · rw [cur_line eb.cur, cl.line, co.line, ad.line, e2l, ci.line]
  · rw [cur_i eb.cur]
    have := cl.ile co.inv.cur; have := co.ile; have := ci.ige; rw [ad.i] at *; omega

theorem startThematicBreak_post (x : PExt) (p : LP) (h : Inv p) (hs : p.state = 0) : SPost p (startThematicBreak x p) := by
  unfold startThematicBreak
  simp only []
  split
  · exact SPost.refl h hs
  split
  · exact SPost.refl h hs
  rename_i _ hneg
  have hb := parseThematicBreak_le p.bytesAfterIndent (by omega)
  generalize parseThematicBreak p.bytesAfterIndent = e at hb hneg ⊢
  obtain ⟨ci, hdrop, hil⟩ := consumeAll p h
  generalize p.consumeIndentN p.indent = p1 at ci hdrop hil ⊢
  have i1 := ci.inv h
  have s1 := ci.st (by omega)
  have ob := openBlock_inv x p1 BK.thematicBreak id id_kind i1 s1.2 (Or.inl (by decide))
  generalize p1.openBlock x BK.thematicBreak = p2 at ob
  have i2 := ob.inv i1
  have s2 := ob.st s1.2
  have e2i : p2.i = p1.i := cur_i ob.cur
  have e2l : p2.line = p1.line := cur_line ob.cur
  have ad := advance_post p2 e.toNat i2.cur (by rw [e2i, e2l, ci.line]; omega)
  generalize p2.advance e.toNat = p3 at ad
  have i3 := ad.inv i2
  have s3 := ad.st s2.2.1
  have cl := consumeLine_post p3 i3.cur
  generalize p3.consumeLine = p5 at cl
  have i5 := cl.inv i3
  have s5 := cl.st s3.2
  have eb := endBlock_inv x p5 i5 (by omega)
  generalize p5.endBlock x = p6 at eb
  have s6 : p6.state = 2 := by rw [eb.state, s5]; rfl
  refine ⟨eb.inv i5, by omega, ?_, ?_, fun h' => by omega⟩
  · rw [cur_line eb.cur, cl.line, ad.line, e2l, ci.line]
  · rw [cur_i eb.cur]
    have := cl.ile i3.cur; have := ci.ige; rw [ad.i] at *; omega

theorem startFenced_post (x : PExt) (p : LP) (h : Inv p) (hs : p.state = 0) : SPost p (startFenced x p) := by
  unfold startFenced
  simp only []
  split
  · exact SPost.refl h hs
  split
  · exact SPost.refl h hs
  have hb := parseCodeFence_bound p.bytesAfterIndent
  generalize parseCodeFence p.bytesAfterIndent = fc at hb ⊢
  obtain ⟨ci, hdrop, hil⟩ := consumeAll p h
  generalize p.consumeIndentN p.indent = p1 at ci hdrop hil ⊢
  have i1 := ci.inv h
  have s1 := ci.st (by omega)
  have ob := openBlock_inv x p1 BK.fencedCode (fun l => { l with char := fc.char, n := fc.n }) (fun _ => rfl) i1 s1.2
    (Or.inl (by decide))
  generalize p1.openBlock x BK.fencedCode (fun l => { l with char := fc.char, n := fc.n }) = p2 at ob
  have i2 := ob.inv i1
  have s2 := ob.st s1.2
  have sc := setContainerIndent_post p2 (↑p.indent) i2.tree s2.2.2 s2.2.1 (Or.inr ob.ckind)
  generalize p2.setContainerIndent (↑p.indent) = p3 at sc
  have i3 := sc.inv i2
  have e3i : p3.i = p1.i := by rw [cur_i sc.cur, cur_i ob.cur]
  have e3l : p3.line = p1.line := by rw [cur_line sc.cur, cur_line ob.cur]
  have s3 : 1 ≤ p3.state ∧ p3.state ≤ 2 := by rw [sc.state]; omega
  -- the info string
  have key : ∀ p4 : LP, Inv p4 → p4.state ≤ 2 → p4.line = p1.line → p1.i ≤ p4.i → SPost p p4.consumeLine := by
    intro p4 i4 s4 l4 il4
    have cl := consumeLine_post p4 i4.cur
    generalize p4.consumeLine = p5 at cl
    have s5 := cl.st s4
    refine ⟨cl.inv i4, by omega, by rw [cl.line, l4, ci.line], ?_, fun h' => by omega⟩
    have := cl.ile i4.cur; have := ci.ige; omega
  split
  · rename_i hcond
    simp only [Bool.and_eq_true, decide_eq_true_eq] at hcond
    obtain ⟨⟨hc1, hc2⟩, hc3⟩ := hcond
    obtain ⟨hb1, hb2, hb3⟩ := hb hc1 hc2
    have ad := advance_post p3 fc.infoStart.toNat i3.cur (by rw [e3i, e3l, ci.line]; omega)
    generalize p3.advance fc.infoStart.toNat = p4 at ad
    have i4 := ad.inv i3
    have s4 := ad.st s3.2
    have hdrop4 : p4.line.getD p4.i 0 = p.bytesAfterIndent.getD fc.infoStart.toNat 0 := by
      rw [ad.i, ad.line, e3i, e3l]; exact getD_of_drop p1 _ _ hdrop
    have hind4 : p4.indent = 0 := indent_zero_of_getD p4 (by rw [hdrop4]; exact hb2) (by rw [hdrop4]; exact hb3)
    have co := collectInline_post x p4 IK.infoString (fc.infoEnd - fc.infoStart).toNat i4 (by omega) (by
      rw [ciSkip_zero p4 hind4, ad.i, ad.line, e3i, e3l, ci.line]; omega)
    generalize p4.collectInline x IK.infoString (fc.infoEnd - fc.infoStart).toNat = p5 at co
    have s5 := co.st s4.2
    exact key p5 co.inv s5.2.1 (by rw [co.line, ad.line, e3l]) (by have := co.ile; rw [ad.i] at this; omega)
  · exact key p3 i3 s3.2 e3l (by omega)

theorem htmlStartLoop_post (x : PExt) (line : Bytes) : ∀ (fuel i : Nat) (p : LP), Inv p → p.state = 0 →
    SPost p (htmlStartLoop x line fuel i p) := by
  intro fuel
  induction fuel with
  | zero => intro i p h hs; exact SPost.refl h hs
  | succ fuel ih =>
    intro i p h hs
    unfold htmlStartLoop
    split
    · exact SPost.refl h hs
    split
    · split
      · exact SPost.refl h hs
      have ob := openBlock_inv x p BK.htmlBlock (fun l => { l with n := i }) (fun _ => rfl) h (by omega) (Or.inl (by decide))
      simp only []
      generalize p.openBlock x BK.htmlBlock (fun l => { l with n := i }) = p2 at ob
      have i2 := ob.inv h
      have s2 : p2.state = 1 := by rw [ob.state, hs]; rfl
      split
      · have co := collectInline_post x p2 IK.rawHTML p2.bytesAfterIndent.length i2 (by omega) (by
          rw [ciSkip_bai p2 i2.cur]; exact Nat.le_refl _)
        generalize p2.collectInline x IK.rawHTML p2.bytesAfterIndent.length = p4 at co
        have s4 := co.st (by omega)
        have cl := consumeLine_post p4 co.inv.cur
        generalize p4.consumeLine = p5 at cl
        have i5 := cl.inv co.inv
        have s5 := cl.st s4.2.1
        have eb := endBlock_inv x p5 i5 (by omega)
        generalize p5.endBlock x = p6 at eb
        have s6 : p6.state = 2 := by rw [eb.state, s5]; rfl
        refine ⟨eb.inv i5, by omega, ?_, ?_, fun h' => by omega⟩
        · rw [cur_line eb.cur, cl.line, co.line, cur_line ob.cur]
        · rw [cur_i eb.cur]
          have := cl.ile co.inv.cur; have := co.ile; rw [cur_i ob.cur] at this; omega
      · refine ⟨i2, by omega, cur_line ob.cur, by rw [cur_i ob.cur]; exact Nat.le_refl _, fun _ => Or.inl ?_⟩
        rw [ob.ckind]; decide
    · exact ih (i + 1) p h hs

theorem startHTML_post (x : PExt) (p : LP) (h : Inv p) (hs : p.state = 0) : SPost p (startHTML x p) := by
  unfold startHTML
  simp only []
  split
  · exact SPost.refl h hs
  split
  · exact SPost.refl h hs
  exact htmlStartLoop_post x _ 8 0 p h hs

theorem modifyContainer_ok_pos (p : LP) (f : PB → PB) (h : TreeOK p) (hd : 0 < p.depth) : TreeOK (p.modifyContainer f) := by
  refine ⟨?_, ?_⟩
  · show (spineModify f p.root p.depth).kind = _
    simp only [PB.kind]; rw [spineModify_label_pos f _ hd]; exact h.root
  · show (spineGet (spineModify f p.root p.depth) p.depth).isSome
    rw [spineGet_modify_self]
    cases hsg : spineGet p.root p.depth with
    | none => have := h.valid; rw [hsg] at this; cases this
    | some c => rfl

theorem startSetext_post (x : PExt) (p : LP) (h : Inv p) (hs : p.state = 0) : SPost p (startSetext x p) := by
  unfold startSetext
  simp only []
  split
  · exact SPost.refl h hs
  rename_i hck
  split
  · exact SPost.refl h hs
  split
  · exact SPost.refl h hs
  have hck' : p.containerKind = BK.paragraph := by simpa using hck
  have hd : 0 < p.depth := by
    rcases Nat.eq_zero_or_pos p.depth with h0 | h0
    · rw [containerKind_zero p h0, h.tree.root] at hck'; cases hck'
    · exact h0
  generalize hf : (PB.setLabel fun l => { l with kind := BK.setextHeading, n := ↑(parseSetextHeadingUnderline p.bytesAfterIndent) }) = f
  have i1 : Inv (p.modifyContainer f) := h.of_treeOp rfl rfl (modifyContainer_ok_pos p f h.tree hd)
  have e1s : (p.modifyContainer f).state = p.state := rfl
  have e1c : cur (p.modifyContainer f) = cur p := rfl
  generalize p.modifyContainer f = p1 at i1 e1s e1c
  have cl := consumeLine_post p1 i1.cur
  generalize p1.consumeLine = p5 at cl
  have i5 := cl.inv i1
  have s5 := cl.st (by omega)
  have eb := endBlock_inv x p5 i5 (by omega)
  generalize p5.endBlock x = p6 at eb
  have s6 : p6.state = 2 := by rw [eb.state, s5]; rfl
  refine ⟨eb.inv i5, by omega, ?_, ?_, fun h' => by omega⟩
  · rw [cur_line eb.cur, cl.line, cur_line e1c]
  · rw [cur_i eb.cur]
    have := cl.ile i1.cur; rw [cur_i e1c] at this; omega

theorem startIndentedCode_post (x : PExt) (p : LP) (h : Inv p) (hs : p.state = 0) : SPost p (startIndentedCode x p) := by
  unfold startIndentedCode
  split
  · exact SPost.refl h hs
  rename_i hc
  simp only [Bool.or_eq_true, decide_eq_true_eq, not_or, Nat.not_lt] at hc
  have hind : codeBlockIndentLimit ≤ p.indent := hc.1.1
  simp only []
  have ci := consumeIndentN_post p codeBlockIndentLimit h.cur hind
  generalize p.consumeIndentN codeBlockIndentLimit = p1 at ci
  have i1 := ci.inv h
  have s1 : p1.state = 1 := by rw [ci.state, hs]; rfl
  have ob := openBlock_inv x p1 BK.indentedCode id id_kind i1 (by omega) (Or.inl (by decide))
  generalize p1.openBlock x BK.indentedCode = p2 at ob
  have s2 : p2.state = 1 := by rw [ob.state, s1]; rfl
  refine ⟨ob.inv i1, by omega, by rw [cur_line ob.cur, ci.line], by rw [cur_i ob.cur]; exact ci.ige, fun _ => Or.inl ?_⟩
  rw [ob.ckind]; decide

/-! ### list items -/

theorem listMarkerLoop_pos : ∀ (l : Bytes) (i n : Nat), (listMarkerLoop l i n).stop = -1 ∨ 1 ≤ (listMarkerLoop l i n).stop := by
  intro l
  induction l with
  | nil => intro i n; left; rfl
  | cons c rest ih =>
    intro i n
    unfold listMarkerLoop
    split
    · left; rfl
    · split
      · exact ih _ _
      · split
        · split
          · left; rfl
          · right; simp; omega
        · left; rfl

theorem parseListMarker_pos (l : Bytes) : (parseListMarker l).stop = -1 ∨ 1 ≤ (parseListMarker l).stop := by
  unfold parseListMarker
  split
  · left; rfl
  · split
    · split
      · left; rfl
      · right; simp
    · split
      · exact listMarkerLoop_pos _ _ _
      · left; rfl

theorem tree_root {p q : LP} (h : tree p = tree q) : p.root = q.root := by simp [tree] at h; exact h.2.1
theorem tree_depth {p q : LP} (h : tree p = tree q) : p.depth = q.depth := by simp [tree] at h; exact h.2.2.1

/-- `startListItem` from the point where the container is the list. -/
def listItemTail (x : PExt) (delim : UInt8) (stop : Nat) (ind : Nat) (p : LP) : LP :=
  let p := p.openBlock x BK.listItem (fun l => { l with char := delim })
  let p := p.openBlock x BK.listMarker
  let p := p.advance stop
  let p := p.endBlock x
  if p.isRestBlank then
    let p := p.setContainerIndent (ind + stop + 1)
    p.consumeLine
  else
    let padding := p.indent
    if padding < 1 then p.setContainerIndent (ind + stop + 1)
    else if padding > 4 then (p.consumeIndentN 1).setContainerIndent (ind + stop + 1)
    else (p.consumeIndentN padding).setContainerIndent (ind + stop + padding)

theorem listItemTail_post (x : PExt) (p0 p : LP) (delim : UInt8) (stop ind : Nat) (h : Inv p)
    (hk : p.containerKind = BK.list) (hs : p.state ≤ 2) (hstop : 1 ≤ stop) (hb : p.i + stop ≤ p.line.length)
    (hl : p.line = p0.line) (hi : p0.i ≤ p.i) : SPost p0 (listItemTail x delim stop ind p) := by
  unfold listItemTail
  simp only []
  have cc1 : canContain p.containerKind BK.listItem = true := by rw [hk]; decide
  have ob1 := openBlock_inv x p BK.listItem (fun l => { l with char := delim }) (fun _ => rfl) h hs (Or.inr cc1)
  generalize p.openBlock x BK.listItem (fun l => { l with char := delim }) = q1 at ob1
  have i1 := ob1.inv h
  have s1 := ob1.st hs
  have k1 := ob1.ckind
  have cc2 : canContain q1.containerKind BK.listMarker = true := by rw [k1]; decide
  have ob2 := openBlock_inv x q1 BK.listMarker id id_kind i1 s1.2.1 (Or.inl (by decide))
  generalize q1.openBlock x BK.listMarker = q2 at ob2
  have i2 := ob2.inv i1
  have s2 := ob2.st s1.2.1
  have d2 := ob2.depth cc2
  have lab2 := ob2.label cc2
  have e2i : q2.i = p.i := by rw [cur_i ob2.cur, cur_i ob1.cur]
  have e2l : q2.line = p.line := by rw [cur_line ob2.cur, cur_line ob1.cur]
  have ad := advance_post q2 stop i2.cur (by rw [e2i, e2l]; exact hb)
  generalize q2.advance stop = q3 at ad
  have i3 := ad.inv i2
  have s3 := ad.st s2.2.1
  have eb := endBlock_inv x q3 i3 s3.2
  generalize q3.endBlock x = q4 at eb
  have i4 := eb.inv i3
  have s4 := eb.st s3.2
  have d3 : q3.depth = q1.depth + 1 := by rw [tree_depth ad.tree, d2]
  have k4 : q4.containerKind = BK.listItem := by
    have l4 := eb.label (by omega)
    rw [d3, tree_root ad.tree, Nat.add_sub_cancel, lab2, labelAt_container q1 i1.tree.valid] at l4
    rw [containerKind_of_labelAt q4 _ l4]
    exact k1
  have e4i : q4.i = p.i + stop := by rw [cur_i eb.cur, ad.i, e2i]
  have e4l : q4.line = p0.line := by rw [cur_line eb.cur, ad.line, e2l, hl]
  have na : acceptsLines BK.listItem = false := by decide
  -- the three endings
  have fin : ∀ (q5 : LP) (n : Int), Inv q5 → q5.containerKind = BK.listItem → 1 ≤ q5.state → q5.state ≤ 2 →
      q5.line = p0.line → q4.i ≤ q5.i → SPost p0 (q5.setContainerIndent n) := by
    intro q5 n i5 k5 s5a s5b l5 il5
    have sc := setContainerIndent_post q5 n i5.tree s5a s5b (Or.inl k5)
    generalize q5.setContainerIndent n = q6 at sc
    refine ⟨sc.inv i5, by rw [sc.state]; exact s5b, by rw [cur_line sc.cur, l5], by rw [cur_i sc.cur]; omega,
      fun _ => Or.inr (by rw [cur_i sc.cur]; omega)⟩
  split
  · have sc := setContainerIndent_post q4 (↑ind + ↑stop + 1) i4.tree s4.2.2 s4.2.1 (Or.inl k4)
    generalize q4.setContainerIndent (↑ind + ↑stop + 1) = q5 at sc
    have i5 := sc.inv i4
    have cl := consumeLine_post q5 i5.cur
    generalize q5.consumeLine = q6 at cl
    have s6 := cl.st (by rw [sc.state]; exact s4.2.1)
    refine ⟨cl.inv i5, by omega, by rw [cl.line, cur_line sc.cur, e4l], ?_, fun h' => by omega⟩
    have := cl.ile i5.cur; rw [cur_i sc.cur] at this; omega
  · split
    · exact fin q4 _ i4 k4 s4.2.2 s4.2.1 e4l (Nat.le_refl _)
    · split
      · have c5 := consumeIndentN_post q4 1 i4.cur (by omega)
        generalize q4.consumeIndentN 1 = q5 at c5
        have s5 := c5.st s4.2.1
        exact fin q5 _ (c5.inv i4) (by rw [c5.ckind, k4]) (by omega) s5.2 (by rw [c5.line, e4l]) c5.ige
      · have c5 := consumeIndentN_post q4 q4.indent i4.cur (Nat.le_refl _)
        generalize q4.consumeIndentN q4.indent = q5 at c5
        have s5 := c5.st s4.2.1
        exact fin q5 _ (c5.inv i4) (by rw [c5.ckind, k4]) (by omega) s5.2 (by rw [c5.line, e4l]) c5.ige

theorem startListItem_post (x : PExt) (p : LP) (h : Inv p) (hs : p.state = 0) : SPost p (startListItem x p) := by
  unfold startListItem
  simp only []
  split
  · exact SPost.refl h hs
  split
  · exact SPost.refl h hs
  rename_i _ hc1
  split
  · exact SPost.refl h hs
  have hb := parseListMarker_toNat_le p.bytesAfterIndent
  have hpos := parseListMarker_pos p.bytesAfterIndent
  generalize parseListMarker p.bytesAfterIndent = m at hb hpos hc1 ⊢
  have hm : 1 ≤ m.stop := by
    rcases hpos with h' | h'
    · rw [h'] at hc1; simp at hc1
    · exact h'
  obtain ⟨ci, hdrop, hil⟩ := consumeAll p h
  generalize p.consumeIndentN p.indent = p1 at ci hdrop hil ⊢
  have i1 := ci.inv h
  have s1 := ci.st (by omega)
  generalize hcond : (p1.containerKind != BK.list || (if (p1.containerKind != BK.list && p1.containerKind != BK.listItem) = true
      then (0 : UInt8) else p1.container.label.char) != m.delim) = c
  have hcf : c = false → p1.containerKind = BK.list := by
    intro hc; rw [hc] at hcond
    simp only [Bool.or_eq_false_iff] at hcond
    simpa using hcond.1
  have key : ∀ p2 : LP, Inv p2 → p2.containerKind = BK.list → p2.state ≤ 2 → cur p2 = cur p1 →
      SPost p (listItemTail x m.delim m.stop.toNat p.indent p2) := by
    intro p2 i2 k2 s2 c2
    apply listItemTail_post x p p2 _ _ _ i2 k2 s2
    · omega
    · rw [cur_i c2, cur_line c2, ci.line]; omega
    · rw [cur_line c2, ci.line]
    · rw [cur_i c2]; exact ci.ige
  cases c with
  | true =>
    have ob := openBlock_inv x p1 BK.list (fun l => { l with char := m.delim }) (fun _ => rfl) i1 s1.2 (Or.inl (by decide))
    exact key _ (ob.inv i1) ob.ckind (ob.st s1.2).2.1 ob.cur
  | false => exact key p1 i1 (hcf rfl) s1.2 rfl

end CM.Proofs.BT
