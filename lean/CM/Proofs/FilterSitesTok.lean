import CM.Proofs.FilterSitesBase
/-
The tokenizer-level core: an invariant of `Spec.tokenizeAux` over ARBITRARY input.
"Every start-tag name emitted so far is accepted; the name under construction, completed up to its
delimiter, is accepted; a tag-open state sits directly after a `<` whose site is OK."
-/
namespace CM.Proofs
open CM CM.Model CM.Spec
open FilterSites

namespace FilterSites

/-- Every start-tag name emitted so far is accepted (not rejected) by `p`. -/
def GoodL (p : Bytes → Bool) (o : List Bytes) : Prop := ∀ n ∈ o, p n = false

/-- The tag token may be emitted: it is an end tag or its name is accepted. -/
def EmitOK (p : Bytes → Bool) (nm : Bytes) (e : Bool) : Prop := e = true ∨ p nm.reverse = false

/-- State-dependent part of the invariant; `X` is the remaining input, `k` the pending look-ahead skip. -/
def StOK (p : Bytes → Bool) (st : TS) (nm : Bytes) (e : Bool) (X : Bytes) (k : Nat) : Prop :=
  match st with
  | .tagOpen => k = 0 ∧ siteOK p X = true
  | .tagName => k = 0 ∧ (e = true ∨ p (nm.reverse ++ (X.takeWhile notDelim).map lowerByte) = false)
  | .beforeAttrName | .attrName | .afterAttrName | .beforeAttrValue | .attrValueDQ | .attrValueSQ
  | .attrValueUQ | .afterAttrValueQ | .selfClosing => EmitOK p nm e
  | _ => True

def Inv (p : Bytes → Bool) (s : TokSt) (X : Bytes) (k : Nat) : Prop :=
  GoodL p s.out ∧ StOK p s.st s.name s.isEnd X k

theorem goodL_emit {p : Bytes → Bool} {nm : Bytes} {e : Bool} {o : List Bytes}
    (h : EmitOK p nm e) (ho : GoodL p o) : GoodL p (if e = true then o else nm.reverse :: o) := by
  rcases h with h | h
  · simp [h]; exact ho
  · split
    · exact ho
    · intro n hn
      rcases List.mem_cons.mp hn with rfl | hn
      · exact h
      · exact ho n hn

/-- The invariant after emitting a tag. -/
theorem inv_emit {p : Bytes → Bool} {st : TS} {nm : Bytes} {e : Bool} {o : List Bytes} {X : Bytes}
    (h : EmitOK p nm e) (ho : GoodL p o) : Inv p (emitTag ⟨st, nm, e, o⟩) X 0 := by
  refine ⟨?_, ?_⟩
  · simpa [emitTag] using goodL_emit h ho
  · simp [emitTag, StOK]

/-! ### One step, state by state -/

section steps
variable (p : Bytes → Bool)

theorem step_data (nm : Bytes) (e : Bool) (o : List Bytes) (c : UInt8) (X : Bytes)
    (ho : GoodL p o) (hs : sitesOK p (c :: X) = true) :
    Inv p (tstep 6 ⟨.data, nm, e, o⟩ c X).1 X (tstep 6 ⟨.data, nm, e, o⟩ c X).2 := by
  by_cases hc : c = 0x3C
  · subst hc
    rw [sitesOK_cons_lt] at hs
    simp only [Bool.and_eq_true] at hs
    simp [tstep, Inv, StOK, hs.1]; exact ho
  · simp [tstep, Inv, StOK, hc]; exact ho

theorem step_tagOpen (hp : NameClosed p) (nm : Bytes) (e : Bool) (o : List Bytes) (c : UInt8) (X : Bytes)
    (ho : GoodL p o) (hsite : siteOK p (c :: X) = true) (hs : sitesOK p (c :: X) = true) :
    Inv p (tstep 6 ⟨.tagOpen, nm, e, o⟩ c X).1 X (tstep 6 ⟨.tagOpen, nm, e, o⟩ c X).2 := by
  by_cases hl : Gen.isASCIILetter c = true
  · obtain ⟨h1, h2, h3, h4, h5, h6, h7⟩ := letter_facts c hl
    have hF : p (nameAt (c :: X)) = false := by
      simpa [siteOK, startsLetter, hl] using hsite
    have hN := name_agree p hp (c :: X) (by simpa [startsLetter] using hl) hF
    have hd : notDelim c = true := nameChar_notDelim c (letter_nameChar c hl)
    rw [List.takeWhile_cons, if_pos hd, List.map_cons] at hN
    simp [tstep, Inv, StOK, h1, h2, h3, letter_eq, hl, h7, hN]; exact ho
  · simp only [Bool.not_eq_true] at hl
    by_cases h3 : c = 0x21
    · subst h3
      simp only [tstep, beq_self_eq_true, if_true]
      split
      · simp [Inv, StOK]; exact ho
      · split
        · simp [Inv, StOK]; exact ho
        · simp [Inv, StOK]; exact ho
    · by_cases h2 : c = 0x2F
      · subst h2; simp [tstep, Inv, StOK]; exact ho
      · by_cases h4 : c = 0x3F
        · subst h4; simp [tstep, Inv, StOK, letter_eq, hl]; exact ho
        · by_cases h5 : c = 0x3C
          · subst h5
            rw [sitesOK_cons_lt] at hs
            simp only [Bool.and_eq_true] at hs
            simp [tstep, Inv, StOK, letter_eq, hl, hs.1]; exact ho
          · simp [tstep, Inv, StOK, letter_eq, hl, h2, h3, h4, h5]; exact ho

theorem step_endTagOpen (nm : Bytes) (e : Bool) (o : List Bytes) (c : UInt8) (X : Bytes)
    (ho : GoodL p o) :
    Inv p (tstep 6 ⟨.endTagOpen, nm, e, o⟩ c X).1 X (tstep 6 ⟨.endTagOpen, nm, e, o⟩ c X).2 := by
  by_cases hl : Gen.isASCIILetter c = true
  · obtain ⟨h1, h2, h3, h4, h5, h6, h7⟩ := letter_facts c hl
    simp [tstep, Inv, StOK, h1, h2, letter_eq, hl, h7]; exact ho
  · simp only [Bool.not_eq_true] at hl
    by_cases h1 : c = 0x3E
    · subst h1; simp [tstep, Inv, StOK, letter_eq, hl]; exact ho
    · simp [tstep, Inv, StOK, letter_eq, hl, h1]; exact ho

theorem step_tagName (nm : Bytes) (e : Bool) (o : List Bytes) (c : UInt8) (X : Bytes)
    (ho : GoodL p o) (hn : e = true ∨ p (nm.reverse ++ ((c :: X).takeWhile notDelim).map lowerByte) = false) :
    Inv p (tstep 6 ⟨.tagName, nm, e, o⟩ c X).1 X (tstep 6 ⟨.tagName, nm, e, o⟩ c X).2 := by
  by_cases hd : notDelim c = true
  · have hd' := hd
    simp only [notDelim, Bool.not_eq_true', Bool.or_eq_false_iff, beq_eq_false_iff_ne] at hd'
    obtain ⟨⟨hw, h2⟩, h1⟩ := hd'
    rw [List.takeWhile_cons, if_pos hd, List.map_cons] at hn
    simp [tstep, Inv, StOK, hw, h1, h2]
    exact ⟨ho, by simpa using hn⟩
  · have hem : EmitOK p nm e := by
      simpa [EmitOK, List.takeWhile_cons, hd] using hn
    by_cases hw : isHtmlWs c = true
    · simp [tstep, Inv, StOK, hw]; exact ⟨ho, hem⟩
    · by_cases h2 : c = 0x2F
      · subst h2; simp [tstep, Inv, StOK, hw]; exact ⟨ho, hem⟩
      · have h1 : c = 0x3E := by
          have h : isHtmlWs c = false → ¬c = 0x2F → c = 0x3E := by simpa [notDelim] using hd
          exact h (by simpa using hw) h2
        subst h1
        simp only [Bool.not_eq_true] at hw
        have : tstep 6 ⟨.tagName, nm, e, o⟩ 0x3E X = (emitTag ⟨.tagName, nm, e, o⟩, 0) := by
          simp [tstep, hw]
        rw [this]
        exact inv_emit hem ho

end steps

/-- The tokenizer states after a tag's name, inside the tag. -/
def isAN : TS → Bool
  | .beforeAttrName | .attrName | .afterAttrName | .beforeAttrValue | .attrValueDQ | .attrValueSQ
  | .attrValueUQ | .afterAttrValueQ | .selfClosing => true
  | _ => false

/-- Comment / bogus comment / DOCTYPE states. -/
def isCM : TS → Bool
  | .bogusComment | .markupDeclOpen | .commentStart | .commentStartDash | .comment | .commentLT
  | .commentLTBang | .commentLTBangDash | .commentLTBangDashDash | .commentEndDash | .commentEnd
  | .commentEndBang | .doctype => true
  | _ => false

set_option linter.unusedSimpArgs false in
/-- Inside a tag after its name: the tag is emitted here, or the tokenizer stays inside the tag. -/
theorem an_step (st : TS) (h : isAN st = true) (c : UInt8) (X : Bytes) (nm : Bytes) (e : Bool) (o : List Bytes) :
    tstep 6 ⟨st, nm, e, o⟩ c X = (emitTag ⟨st, nm, e, o⟩, 0) ∨
    ∃ st', isAN st' = true ∧ tstep 6 ⟨st, nm, e, o⟩ c X = (⟨st', nm, e, o⟩, 0) := by
  cases st <;> simp only [isAN, Bool.false_eq_true] at h
  all_goals
    by_cases h1 : c = 0x3E
    · subst h1; simp [tstep, isAN, emitTag, isHtmlWs]
    · by_cases h2 : c = 0x2F
      · subst h2; simp [tstep, isAN, emitTag, isHtmlWs]
      · by_cases h3 : c = 0x3D
        · subst h3; simp [tstep, isAN, emitTag, isHtmlWs]
        · by_cases h4 : c = 0x22
          · subst h4; simp [tstep, isAN, emitTag, isHtmlWs]
          · by_cases h5 : c = 0x27
            · subst h5; simp [tstep, isAN, emitTag, isHtmlWs]
            · by_cases h6 : isHtmlWs c = true
              · simp [tstep, isAN, emitTag, h1, h2, h3, h4, h5, h6]
              · simp [tstep, isAN, emitTag, h1, h2, h3, h4, h5, h6]

set_option linter.unusedSimpArgs false in
/-- Inside a comment-like construct: the tokenizer stays there or returns to the data state; no tag token
    is touched. -/
theorem cm_step (st : TS) (h : isCM st = true) (c : UInt8) (X : Bytes) (nm : Bytes) (e : Bool) (o : List Bytes) :
    ∃ st', (isCM st' = true ∨ st' = .data) ∧ tstep 6 ⟨st, nm, e, o⟩ c X = (⟨st', nm, e, o⟩, 0) := by
  cases st <;> simp only [isCM, Bool.false_eq_true] at h
  all_goals
    by_cases h1 : c = 0x3E
    · subst h1; simp [tstep, isCM]
    · by_cases h2 : c = 0x2D
      · subst h2; simp [tstep, isCM]
      · by_cases h3 : c = 0x21
        · subst h3; simp [tstep, isCM]
        · by_cases h4 : c = 0x3C
          · subst h4; simp [tstep, isCM]
          · simp [tstep, isCM, h1, h2, h3, h4]

theorem stOK_of_isAN {p : Bytes → Bool} {st : TS} (h : isAN st = true) (nm : Bytes) (e : Bool) (X : Bytes) (k : Nat) :
    StOK p st nm e X k = EmitOK p nm e := by
  cases st <;> simp only [isAN, Bool.false_eq_true] at h <;> rfl

theorem stOK_of_isCM {p : Bytes → Bool} {st : TS} (h : isCM st = true ∨ st = .data) (nm : Bytes) (e : Bool) (X : Bytes) (k : Nat) :
    StOK p st nm e X k := by
  rcases h with h | rfl
  · cases st <;> simp only [isCM, Bool.false_eq_true] at h <;> exact True.intro
  · exact True.intro

/-- Every state is of one of the six kinds. -/
theorem ts_kinds (st : TS) : st = .data ∨ st = .tagOpen ∨ st = .endTagOpen ∨ st = .tagName ∨ isAN st = true ∨ isCM st = true := by
  cases st <;> simp [isAN, isCM]

/-- One tokenizer step preserves the invariant. -/
theorem step_inv (p : Bytes → Bool) (hp : NameClosed p) (s : TokSt) (c : UInt8) (X : Bytes)
    (hinv : Inv p s (c :: X) 0) (hs : sitesOK p (c :: X) = true) :
    Inv p (tstep 6 s c X).1 X (tstep 6 s c X).2 := by
  obtain ⟨st, nm, e, o⟩ := s
  obtain ⟨ho, hst⟩ := hinv
  simp only at ho hst
  rcases ts_kinds st with rfl | rfl | rfl | rfl | h | h
  · exact step_data p nm e o c X ho hs
  · exact step_tagOpen p hp nm e o c X ho hst.2 hs
  · exact step_endTagOpen p nm e o c X ho
  · exact step_tagName p nm e o c X ho hst.2
  · rw [stOK_of_isAN h] at hst
    rcases an_step st h c X nm e o with h1 | ⟨st', h1, h2⟩
    · rw [h1]; exact inv_emit hst ho
    · rw [h2]; exact ⟨ho, by rw [stOK_of_isAN h1]; exact hst⟩
  · obtain ⟨st', h1, h2⟩ := cm_step st h c X nm e o
    rw [h2]; exact ⟨ho, stOK_of_isCM h1 _ _ _ _⟩

/-- A pending look-ahead skip only exists in states whose invariant does not mention the input. -/
theorem inv_skip {p : Bytes → Bool} {s : TokSt} {c : UInt8} {X : Bytes} {k : Nat}
    (h : Inv p s (c :: X) (k + 1)) : Inv p s X k := by
  obtain ⟨st, nm, e, o⟩ := s
  obtain ⟨ho, hst⟩ := h
  refine ⟨ho, ?_⟩
  simp only at hst ⊢
  cases st <;> first | exact hst | (exact absurd hst.1 (by simp))

/-- The invariant is preserved by the whole run. -/
theorem tokenizeAux_inv (p : Bytes → Bool) (hp : NameClosed p) :
    ∀ (X : Bytes) (s : TokSt) (k : Nat), Inv p s X k → sitesOK p X = true → GoodL p (tokenizeAux X s k).out
  | [], s, k, h, _ => by simpa [tokenizeAux] using h.1
  | c :: X, s, k + 1, h, hs => by
    rw [tokenizeAux]
    exact tokenizeAux_inv p hp X s k (inv_skip h) (sitesOK_tail hs)
  | c :: X, s, 0, h, hs => by
    rw [tokenizeAux]
    exact tokenizeAux_inv p hp X _ _ (step_inv p hp s c X h hs) (sitesOK_tail hs)

end FilterSites
open FilterSites

/-- Tokenizer-level core on a preprocessed stream. -/
theorem startTagsRaw_of_sitesOK (p : Bytes → Bool) (hp : NameClosed p) (html : Bytes) (h : sitesOK p html = true) :
    ∀ name ∈ Spec.startTagsRaw html, p name = false := by
  intro name hname
  have hinv : Inv p {} html 0 := ⟨(by intro n hn; cases hn), True.intro⟩
  have := tokenizeAux_inv p hp html {} 0 hinv h
  exact this name (by simpa [startTagsRaw] using hname)

end CM.Proofs
