import CM.Proofs.InlCoverRun
import CM.Proofs.ParseScanLkCoverBracketM

/-
C03, inline half, with `LinkScan2` / `TokScan2` — the last group of cases of the tokenizer.
(Generated from `InlCoverRun.lean`: the same proofs with `LinkScan2` in the place of `LinkScan`.)
-/

namespace CM.Proofs.InlH2
open CM CM.Model CM.Model.Inl CM.Gen CM.Spec CM.Proofs CM.Proofs.InlH
open Std.Do

set_option mvcgen.warning false

theorem tokC_cov (L : Lims) (c : ICtx) (hU : UnpOK c L) (hT : TokScan2 c L.hi) (s : IState) (b : UInt8)
    (pos plainStart : Int) (done : Bool) (hb : 0 ≤ pos ∧ pos < c.srcA.size ∧ b = c.srcA[pos.toNat]!) :
    ⦃fun st => ⌜st = s ∧ RunInv L c (pos, plainStart, done) s ∧ s.unparsedPos < c.unparsed.size ∧
        pos < spanEndOf c s ∧ StkNN c s ∧ CovBelow c s.nodes plainStart⌝⦄
    tokC c s b pos plainStart done
    ⦃⇓? r st => ⌜RunCov c r.value st⌝⦄ := by
  mvcgen [tokC, isLastSpan, addText, -CM.Proofs.InlH2.tokC_specP, -addLeaf_specP, -parseBackslash_specP, 
    -CM.Proofs.InlH.refPart_specP, -CM.Proofs.InlH.parseEndBracket_specP, -CM.Proofs.InlH.tokC_specP, 
    -CM.Proofs.InlH.tokA_specP, -CM.Proofs.InlH.tokCode_specP, -CM.Proofs.InlH.tokLt_specP, 
    -CM.Proofs.InlH.runBody_specP, -CM.Proofs.InlH.refPart_specC, -CM.Proofs.InlH.parseEndBracket_specC]
  all_goals (try (exact fun h => h))
  all_goals (try (exact ExceptConds.entails.refl _))
  all_goals tok_setupC
  all_goals unp_norm
  all_goals (try (have hce := charEsc_le hT ‹0 ≤ pos› ‹pos ≤ _› ‹_ ≤ (c.srcA.size : Int)› ‹_ = Array.toList _›))
  -- the preconditions
  all_goals (try (first
    | (refine ⟨trivial, ?_, ?_, ?_⟩
       · first | assumption | (apply SP.mono; assumption; omega; omega)
       · omega
       · assumption)
    | (refine ⟨trivial, ?_, ?_, ?_, ?_, ?_⟩
       · first | assumption | (apply SP.mono; assumption; omega; omega)
       · omega
       · omega
       · assumption
       · exact needs_beq ‹b = _› ‹(b == 92) = true› (by decide +kernel))))
  -- nothing happened
  all_goals (try (exact ⟨hnn0, hcb⟩))
  -- the postconditions
  all_goals (
    refine ⟨?_, ?_⟩
    · assumption
    have P1 := hcb.step (by assumption) (CovAll.seg ‹CovAll _ plainStart pos›)
    first
    | exact P1.step (by assumption) (by assumption)
    | exact P1.step (by assumption) (CovAll.seg (by assumption))
    | exact P1.step (Keep.refl _ _) (CovSeg.of_noNeed (noNeed_beq ‹b = _› ‹(b == LF) = true› (by decide +kernel)))
    | exact P1.step (Keep.refl _ _) (CovSeg.of_noNeed (noNeed_beq ‹b = _› ‹(b == CR) = true› (by decide +kernel)))
    | exact (P1.step (Keep.refl _ _) (CovSeg.of_noNeed ((noNeed_beq ‹b = _› ‹(b == CR) = true› (by decide +kernel)).append
        (noNeed_of_eq ‹c.srcA[Int.toNat (pos + 1)]! = LF› (by decide +kernel))))).of_eq (by dsimp only; omega))

end CM.Proofs.InlH2
