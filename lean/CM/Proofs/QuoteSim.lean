import CM.Proofs.QuoteClose
/-
C09 (block-quote half): the simulation relation `Sim E k p q` between the line parser `p` on a line of the bare document
and the line parser `q` on the prefixed line, after `q` has consumed the `k` bytes of the prefix:

  * the cursors are related (`CRel`: same rest of line, same state, same panic status);
  * the container of `q` is one level deeper: the root of `q` is the document with one child, the open block quote
    `Qb`, and `TopR E p.root Qb`;
  * the positions of the current line correspond (`here`, `start`).

This file: the relation, its transport along cursor operations and root modifications.
-/
namespace CM.Proofs.Quote
open CM CM.Model CM.Gen CM.Proofs.BT

variable {E : Env}

/-- The root of the prefixed side: the document block with the block quote as its only child. -/
def RootR (E : Env) (P Q : PB) : Prop :=
  ∃ lq isQ Qb, Q = .mk lq [Qb] isQ ∧ lq.kind = BK.document ∧ lq.stop < 0 ∧ TopR E P Qb

theorem spineGet_wrap (lq : PLabel) (Qb : PB) (isQ : List Tree) (d : Nat) :
    spineGet (.mk lq [Qb] isQ) (d + 1) = spineGet Qb d := by
  rw [spineGet_succ]; rfl

theorem spineModify_wrap (f : PB → PB) (lq : PLabel) (Qb : PB) (isQ : List Tree) (d : Nat) :
    spineModify f (.mk lq [Qb] isQ) (d + 1) = .mk lq [spineModify f Qb d] isQ := by
  rw [spineModify_succ]; rfl

theorem spineModify_valid (f : PB → PB) (P : PB) (d : Nat) (hv : (spineGet P d).isSome) :
    (spineGet (spineModify f P d) d).isSome := by
  rw [spineGet_modify_self]
  cases hs : spineGet P d with
  | none => rw [hs] at hv; cases hv
  | some c => rfl

/-- Modifying the two roots at corresponding depths. -/
theorem RootR.modify {P Q : PB} (h : RootR E P Q) (f f' : PB → PB) (d : Nat) (hv : (spineGet P d).isSome)
    (hf1 : 1 ≤ d → ∀ c c', spineGet P d = some c → spineGet Q (d + 1) = some c' → BR E c c' → BR E (f c) (f' c'))
    (hf0 : d = 0 → ∀ Qb, TopR E P Qb → TopR E (f P) (f' Qb)) :
    RootR E (spineModify f P d) (spineModify f' Q (d + 1)) := by
  obtain ⟨lq, isQ, Qb, rfl, h1, h2, ht⟩ := h
  refine ⟨lq, isQ, spineModify f' Qb d, spineModify_wrap f' lq Qb isQ d, h1, h2, ?_⟩
  cases d with
  | zero => rw [spineModify_zero, spineModify_zero]; exact hf0 rfl Qb ht
  | succ d =>
    apply ht.spineModify_succ f f' d hv
    intro c c' hc hc' r
    exact hf1 (by omega) c c' hc (by rw [spineGet_wrap]; exact hc') r

/-- The blocks at corresponding depths below the top. -/
theorem RootR.spineGet_succ {P Q : PB} (h : RootR E P Q) (d : Nat) {c : PB} (hc : spineGet P (d + 1) = some c) :
    ∃ c', spineGet Q (d + 2) = some c' ∧ BR E c c' := by
  obtain ⟨lq, isQ, Qb, rfl, _, _, ht⟩ := h
  obtain ⟨c', e, r⟩ := ht.spineGet_succ d hc
  exact ⟨c', by rw [spineGet_wrap]; exact e, r⟩

theorem RootR.pkind {P Q : PB} (h : RootR E P Q) : P.kind = BK.document := by
  obtain ⟨lq, isQ, Qb, rfl, _, _, ht⟩ := h
  exact ht.pkind

theorem RootR.qkind {P Q : PB} (h : RootR E P Q) : Q.kind = BK.document := by
  obtain ⟨lq, isQ, Qb, rfl, h1, _, ht⟩ := h
  exact h1

theorem RootR.quote {P Q : PB} (h : RootR E P Q) : ∃ Qb, spineGet Q 1 = some Qb ∧ TopR E P Qb := by
  obtain ⟨lq, isQ, Qb, rfl, _, _, ht⟩ := h
  exact ⟨Qb, by rw [spineGet_wrap, spineGet_zero], ht⟩

theorem TopR.mono {E F : Env} (hle : E.le F) (hd : F.done = E.done) {P Qb : PB} (h : TopR E P Qb) : TopR F P Qb := by
  obtain ⟨pre, bs', e, hpre, hr⟩ := h.kids
  exact ⟨h.pkind, h.popen, h.qlab, h.qinl, pre, bs', e, ⟨hpre.1, by rw [hd]; exact hpre.2⟩,
    hr.mono fun a b _ _ r => BR.mono hle a b r⟩

/-- The sources have grown (the next line has been read). -/
theorem RootR.mono {E F : Env} (hle : E.le F) (hd : F.done = E.done) {P Q : PB} (h : RootR E P Q) : RootR F P Q := by
  obtain ⟨lq, isQ, Qb, e, h1, h2, ht⟩ := h
  exact ⟨lq, isQ, Qb, e, h1, h2, ht.mono hle hd⟩

/-! ### the simulation relation -/

structure Sim (E : Env) (k : Nat) (p q : LP) : Prop where
  cur : CRel k p q
  depth : q.depth = p.depth + 1
  valid : (spineGet p.root p.depth).isSome
  root : RootR E p.root q.root
  srcp : p.source = E.src
  srcq : q.source = E.src'
  linep : p.line = p.source.drop p.lineStart
  lsp : p.lineStart ≤ p.source.length
  lineq : q.line = q.source.drop q.lineStart
  lsq : q.lineStart ≤ q.source.length
  here : ∀ j : Nat, j ≤ p.line.length → E.PR ((p.lineStart + j : Nat) : Int) ((q.lineStart + k + j : Nat) : Int)
  start : E.PR (p.lineStart : Int) (q.lineStart : Int)
  /-- corresponding positions lie on the same side of the current line start -/
  ord : ∀ a a' : Int, E.PR a a' → ((p.lineStart : Int) ≤ a ↔ (q.lineStart : Int) ≤ a')

namespace Sim
variable {k : Nat} {p q : LP}

theorem treeOK_p (h : Sim E k p q) : TreeOK p := ⟨h.root.pkind, h.valid⟩

theorem validq (h : Sim E k p q) : (spineGet q.root q.depth).isSome := by
  rw [h.depth]
  obtain ⟨lq, isQ, Qb, e, _, _, ht⟩ := h.root
  rw [e, spineGet_wrap]
  cases hd : p.depth with
  | zero => rw [spineGet_zero]; rfl
  | succ d =>
    have hv := h.valid
    rw [hd] at hv
    cases hc : spineGet p.root (d + 1) with
    | none => rw [hc] at hv; cases hv
    | some c =>
      obtain ⟨c', e', _⟩ := ht.spineGet_succ d hc
      rw [e']; rfl

theorem treeOK_q (h : Sim E k p q) : TreeOK q := ⟨h.root.qkind, h.validq⟩

/-- Positions of the current line, in the form `↑lineStart + ↑j`. -/
theorem here' (h : Sim E k p q) (j : Nat) (hj : j ≤ p.line.length) :
    E.PR ((p.lineStart : Int) + (j : Int)) ((q.lineStart : Int) + ((j + k : Nat) : Int)) := by
  have := h.here j hj
  have e1 : ((p.lineStart + j : Nat) : Int) = (p.lineStart : Int) + (j : Int) := by omega
  have e2 : ((q.lineStart + k + j : Nat) : Int) = (q.lineStart : Int) + ((j + k : Nat) : Int) := by omega
  rw [e1, e2] at this
  exact this

/-- The position of the cursor. -/
theorem pos (h : Sim E k p q) : E.PR ((p.lineStart : Int) + (p.i : Int)) ((q.lineStart : Int) + (q.i : Int)) := by
  have := h.here' p.i h.cur.ile
  rw [← h.cur.i] at this
  exact this

/-- A cursor operation: the tree parts are untouched. -/
theorem cursorOp {p' q' : LP} (h : Sim E k p q) (hc : CRel k p' q') (hp : tree p' = tree p) (hq : tree q' = tree q)
    (hlp : p'.line = p.line) (hlq : q'.line = q.line) : Sim E k p' q' := by
  simp only [tree, Prod.mk.injEq] at hp hq
  obtain ⟨p1, p2, p3, p4⟩ := hp
  obtain ⟨q1, q2, q3, q4⟩ := hq
  exact ⟨hc, by rw [q3, p3]; exact h.depth, by rw [p2, p3]; exact h.valid, by rw [p2, q2]; exact h.root,
    by rw [p1]; exact h.srcp, by rw [q1]; exact h.srcq, by rw [hlp, p1, p4]; exact h.linep, by rw [p1, p4]; exact h.lsp,
    by rw [hlq, q1, q4]; exact h.lineq, by rw [q1, q4]; exact h.lsq, by rw [hlp, p4, q4]; exact h.here,
    by rw [p4, q4]; exact h.start, by rw [p4, q4]; exact h.ord⟩

theorem advance (h : Sim E k p q) (n : Nat) : Sim E k (p.advance n) (q.advance n) :=
  h.cursorOp (h.cur.advance n) (advance_tree p n) (advance_tree q n) (advance_line p n) (advance_line q n)

theorem consumeIndentN (h : Sim E k p q) (n : Nat) : Sim E k (p.consumeIndentN n) (q.consumeIndentN n) :=
  h.cursorOp (h.cur.consumeIndentN n) (consumeIndentN_tree p n) (consumeIndentN_tree q n) (consumeIndentN_line p n)
    (consumeIndentN_line q n)

theorem consumeLine (h : Sim E k p q) : Sim E k p.consumeLine q.consumeLine :=
  h.cursorOp h.cur.consumeLine (consumeLine_tree p) (consumeLine_tree q) (consumeLine_line p) (consumeLine_line q)

theorem markMatched (h : Sim E k p q) : Sim E k p.markMatched q.markMatched :=
  h.cursorOp h.cur.markMatched (markMatched_tree p) (markMatched_tree q) (markMatched_line p) (markMatched_line q)

theorem setPanic (h : Sim E k p q) (m : String) : Sim E k (p.setPanic m) (q.setPanic m) :=
  h.cursorOp (h.cur.setPanic m) (setPanic_tree p m) (setPanic_tree q m) (setPanic_line p m) (setPanic_line q m)

theorem setState (h : Sim E k p q) (s : Nat) : Sim E k { p with state := s } { q with state := s } :=
  h.cursorOp (h.cur.setState s) rfl rfl rfl rfl

/-- New roots and depths. -/
theorem setRoot (h : Sim E k p q) (P2 Q2 : PB) (d2 : Nat) (hr : RootR E P2 Q2) (hv : (spineGet P2 d2).isSome) :
    Sim E k { p with root := P2, depth := d2 } { q with root := Q2, depth := d2 + 1 } :=
  ⟨h.cur.of_eq rfl rfl rfl rfl h.cur.state h.cur.panic, rfl, hv, hr, h.srcp, h.srcq, h.linep, h.lsp, h.lineq, h.lsq,
    h.here, h.start, h.ord⟩

/-- The container kinds: equal below the top; document / block quote at the top. -/
theorem container (h : Sim E k p q) :
    (p.depth = 0 ∧ p.container = p.root ∧ TopR E p.root q.container) ∨
    (1 ≤ p.depth ∧ BR E p.container q.container) := by
  cases hd : p.depth with
  | zero =>
    left
    obtain ⟨Qb, e, ht⟩ := h.root.quote
    refine ⟨rfl, ?_, ?_⟩
    · simp only [LP.container, hd, spineGet_zero, Option.getD_some]
    · simp only [LP.container, h.depth, hd, e, Option.getD_some]; exact ht
  | succ d =>
    right
    have hv := h.valid
    rw [hd] at hv
    cases hc : spineGet p.root (d + 1) with
    | none => rw [hc] at hv; cases hv
    | some c =>
      obtain ⟨c', e', r⟩ := h.root.spineGet_succ d hc
      refine ⟨by omega, ?_⟩
      simp only [LP.container, h.depth, hd, hc, e', Option.getD_some]
      exact r

theorem containerKind_pos (h : Sim E k p q) (hd : 1 ≤ p.depth) : q.containerKind = p.containerKind := by
  rcases h.container with ⟨h0, _⟩ | ⟨_, r⟩
  · omega
  · exact r.kind

theorem containerKind_zero (h : Sim E k p q) (hd : p.depth = 0) :
    p.containerKind = BK.document ∧ q.containerKind = BK.blockQuote := by
  rcases h.container with ⟨_, e, ht⟩ | ⟨h1, _⟩
  · exact ⟨by simp only [LP.containerKind, e]; exact ht.pkind, ht.qlab.kind⟩
  · omega

theorem canContain_eq (h : Sim E k p q) (kind : Nat) : canContain q.containerKind kind = Gen.canContain p.containerKind kind := by
  by_cases hd : p.depth = 0
  · obtain ⟨e1, e2⟩ := h.containerKind_zero hd
    rw [e1, e2]; rfl
  · rw [h.containerKind_pos (by omega)]

theorem acceptsLines_eq (h : Sim E k p q) : acceptsLines q.containerKind = Gen.acceptsLines p.containerKind := by
  by_cases hd : p.depth = 0
  · obtain ⟨e1, e2⟩ := h.containerKind_zero hd
    rw [e1, e2]; rfl
  · rw [h.containerKind_pos (by omega)]

theorem containerKind_eq_iff (h : Sim E k p q) (kd : Nat) (h1 : kd ≠ BK.document) (h2 : kd ≠ BK.blockQuote) :
    (q.containerKind = kd) ↔ (p.containerKind = kd) := by
  by_cases hd : p.depth = 0
  · obtain ⟨e1, e2⟩ := h.containerKind_zero hd
    rw [e1, e2]
    constructor
    · intro e; exact absurd e.symm h2
    · intro e; exact absurd e.symm h1
  · rw [h.containerKind_pos (by omega)]

end Sim

end CM.Proofs.Quote
