import CM.Proofs.InlCoverBracketM
import CM.Proofs.ParseScanLkCoverBracketR

/-
C03, inline half, with `LinkScan2` / `TokScan2` — `parseEndBracket` keeps the coverage.
(Generated from `InlCoverBracketM.lean`: the same proofs with `LinkScan2` in the place of `LinkScan`.)
-/

namespace CM.Proofs.InlH2
open CM CM.Model CM.Model.Inl CM.Gen CM.Spec CM.Proofs CM.Proofs.InlH
open Std.Do

set_option mvcgen.warning false

theorem parseEndBracket'_cov (L : Lims) (c : ICtx) (hc : c.unparsed = c.unparsedL.toArray) (hS : LinkScan2 c L.hi)
    (hC : LinkCover c) (start : Int) (s0 : IState) :
    ⦃fun s => ⌜s = s0 ∧ SPT L.lo L.hi start s ∧ s0.unparsedPos < c.unparsed.size ∧ start < spanEndOf c s0 ∧
        spanEndOf c s0 ≤ L.hi ∧ StkNN c s ∧ needsCover (c.srcA[start.toNat]!) = false⌝⦄
    parseEndBracket' c start
    ⦃⇓? r s => ⌜StkNN c s ∧ Keep c s0.nodes s.nodes ∧ CovSeg c s.nodes start r⌝⦄ := by
  mvcgen [parseEndBracket', spanEnd, getNode, modifyNode, appendFinished, alloc, setUnparsedPos, 
    -appendFinished_spec, -appendFinished_specS, -finishLink_spec, -finishLink_specS, -finishLink_specP, 
    -CM.Proofs.InlH2.refPart_specP, -addLeaf_specP, -CM.Proofs.InlH.refPart_specP, 
    -CM.Proofs.InlH.parseEndBracket_specP, -CM.Proofs.InlH.tokC_specP, -CM.Proofs.InlH.tokA_specP, 
    -CM.Proofs.InlH.tokCode_specP, -CM.Proofs.InlH.tokLt_specP, -CM.Proofs.InlH.runBody_specP, 
    -CM.Proofs.InlH.refPart_specC, -CM.Proofs.InlH.parseEndBracket_specC]
  all_goals (try (exact fun h => h))
  all_goals (try (exact ExceptConds.entails.refl _))
  -- side hypotheses of the specifications used
  all_goals (try (intros; assumption))
  all_goals (try (exact False.elim))
  -- no opener
  all_goals (try (
    have hneg := ‹(_ : Int) < 0›
    obtain ⟨hs0, hsp, hu, hlt, hhi, hnn0, hb0⟩ := ‹_ = _ ∧ SPT _ _ _ _ ∧ _›
    subst hs0
    rcases ‹(_ ∧ _ ∧ _ = _) ∨ _› with ⟨h0, -, -⟩ | ⟨hm1, hs1 | ⟨i, hi, hs1⟩⟩
    · exfalso; omega
    all_goals (
      subst hs1
      simp -failIfUnchanged only [spanEndOf_delSt] at *
      first
      | exact ⟨trivial, hsp, by omega, hnn0⟩
      | exact ⟨trivial, hsp.delStack _ _ (Nat.zero_le _) (by omega), by omega, hnn0.delSt _ _⟩
      | (obtain ⟨-, g1, g2, g3⟩ := ‹(SPT _ _ (max _ _) _ ∧ _) ∧ _›
         exact ⟨g1, g2, g3.seg⟩))))
  all_goals eb_foundC
  -- the preconditions of `refPart`
  all_goals (try (
    try eb_inl_inv
    exact ⟨trivial, hsp, hodi, hx, hu, hlt, hhi, hnn0, hb0⟩))
  -- after `refPart` when the byte behind `]` is not `(`
  all_goals (try (exact fun _ _ _ g1 g2 g3 => ⟨g1, g2, g3⟩))
  all_goals eb_inline
  -- the preconditions of `wrap`
  all_goals (try (first
    | exact (link_wrap_pre' hsp hsame hodi hx).1
    | exact (link_wrap_pre' hsp hsame hodi hx).2.1
    | exact (link_wrap_pre' hsp hsame hodi hx).2.2.1
    | exact (link_wrap_pre' hsp hsame hodi hx).2.2.2))
  -- `refPart` after an unsuccessful `parseInlineLink`
  all_goals (try (
    have hs := hinv ‹_›
    subst hs
    first
    | exact ⟨trivial, hsp, hodi, hx, hu, hlt, hhi, hnn0, hb0⟩
    | exact fun _ _ _ g1 g2 g3 => ⟨g1, g2, g3⟩))
  -- the four forms of an inline link
  all_goals (
    have hvalid := ‹(InlineLinkInfo.span _).isValid = true›
    obtain ⟨gse, g0, g1, g2⟩ := ‹_ < spanEndOf c _ ∧ (0 : Int) ≤ _ ∧ _ < (c.srcA.size : Int) ∧ _ = (40 : UInt8)›
    obtain ⟨i1, i2, idest, ititle⟩ := hS.inline _ _ _ _ g0 g1 g2 hu gse hrun hvalid
    have hcv := hC.inline _ _ _ _ g0 g1 g2 hrun hvalid
    obtain ⟨hL0, hu1⟩ := LinkInv.wrap' hsp hsame hodi hx ‹_ = _ ∧ _ = wrapNodes _ _ _ _ _ _ _ _ ∧ _›
    have hC0 := LinkCov.wrap' hsp hnn0 hsame hodi hx ‹_ = _ ∧ _ = wrapNodes _ _ _ _ _ _ _ _ ∧ _›
    have hfin := ‹∀ (lo hi : Int) (o N : Nat) (K E : Int), LinkInv lo hi o N _ K E true _ → _›
    first
    | (have hdv := ‹(InlineLinkInfo.destination _).span.isValid = true›
       have htv := ‹(InlineLinkInfo.title _).span.isValid = true›
       obtain ⟨d1, d2, d3, d4⟩ := idest hdv
       obtain ⟨t1, t2, t3, t4, t5⟩ := ititle htv
       have t2' := t2 hdv
       refine link_goal (hfin _ _ _ _ _ _ (((hL0.respan _ ?_ ?_ (fun r => r)).appendKid _ rfl ?_ ?_ ?_ ?_).appendKid _ rfl
         ?_ ?_ ?_ ?_) (((hC0.respanA _ _ (fun r => r)).appendKid _).appendKid _).nn)
         (((hC0.respanA _ _ (fun r => r)).appendKid _).appendKid _) ?_
       all_goals first
         | omega | (dsimp only; omega) | exact d4 | exact t5
         | (intro j h1 h2 hr hj
            rcases Int.lt_or_le j (start + 1) with h' | h'
            · exact absurd hj (noNeed_byte hb0 j h1 h')
            · rcases hcv j h' h2 hr hj with ⟨_, hp⟩ | ⟨_, hp⟩
              · exact Or.inl (Or.inr (hp.covN _ rfl rfl rfl rfl))
              · exact Or.inr (hp.covN _ rfl rfl rfl rfl)))
    | (have hdv := ‹(InlineLinkInfo.destination _).span.isValid = true›
       have htn := ‹(InlineLinkInfo.title _).span.isValid = false›
       obtain ⟨d1, d2, d3, d4⟩ := idest hdv
       refine link_goal (hfin _ _ _ _ _ _ ((hL0.respan _ ?_ ?_ (fun r => r)).appendKid _ rfl ?_ ?_ ?_ ?_)
         ((hC0.respanA _ _ (fun r => r)).appendKid _).nn) ((hC0.respanA _ _ (fun r => r)).appendKid _) ?_
       all_goals first
         | omega | (dsimp only; omega) | exact d4
         | (intro j h1 h2 hr hj
            rcases Int.lt_or_le j (start + 1) with h' | h'
            · exact absurd hj (noNeed_byte hb0 j h1 h')
            · rcases hcv j h' h2 hr hj with ⟨_, hp⟩ | ⟨ht, _⟩
              · exact Or.inr (hp.covN _ rfl rfl rfl rfl)
              · (rw [htn] at ht; cases ht)))
    | (have hdn := ‹(InlineLinkInfo.destination _).span.isValid = false›
       have htv := ‹(InlineLinkInfo.title _).span.isValid = true›
       obtain ⟨t1, t2, t3, t4, t5⟩ := ititle htv
       refine link_goal (hfin _ _ _ _ _ _ ((hL0.respan _ ?_ ?_ (fun r => r)).appendKid _ rfl ?_ ?_ ?_ ?_)
         ((hC0.respanA _ _ (fun r => r)).appendKid _).nn) ((hC0.respanA _ _ (fun r => r)).appendKid _) ?_
       all_goals first
         | omega | (dsimp only; omega) | exact t5
         | (intro j h1 h2 hr hj
            rcases Int.lt_or_le j (start + 1) with h' | h'
            · exact absurd hj (noNeed_byte hb0 j h1 h')
            · rcases hcv j h' h2 hr hj with ⟨hd, _⟩ | ⟨_, hp⟩
              · (rw [hdn] at hd; cases hd)
              · exact Or.inr (hp.covN _ rfl rfl rfl rfl)))
    | (have hdn := ‹(InlineLinkInfo.destination _).span.isValid = false›
       have htn := ‹(InlineLinkInfo.title _).span.isValid = false›
       refine link_goal (hfin _ _ _ _ _ _ (hL0.respan _ ?_ ?_ (fun r => r)) (hC0.respanA _ _ (fun r => r)).nn)
         (hC0.respanA _ _ (fun r => r)) ?_
       all_goals first
         | omega
         | (intro j h1 h2 hr hj
            rcases Int.lt_or_le j (start + 1) with h' | h'
            · exact absurd hj (noNeed_byte hb0 j h1 h')
            · rcases hcv j h' h2 hr hj with ⟨hd, _⟩ | ⟨ht, _⟩
              · (rw [hdn] at hd; cases hd)
              · (rw [htn] at ht; cases ht))))

theorem parseEndBracket_cov (L : Lims) (c : ICtx) (hc : c.unparsed = c.unparsedL.toArray) (hS : LinkScan2 c L.hi)
    (hC : LinkCover c) (start : Int) (s0 : IState) :
    ⦃fun s => ⌜s = s0 ∧ SPT L.lo L.hi start s ∧ s0.unparsedPos < c.unparsed.size ∧ start < spanEndOf c s0 ∧
        spanEndOf c s0 ≤ L.hi ∧ StkNN c s ∧ needsCover (c.srcA[start.toNat]!) = false⌝⦄
    parseEndBracket c start
    ⦃⇓? r s => ⌜StkNN c s ∧ Keep c s0.nodes s.nodes ∧ CovSeg c s.nodes start r⌝⦄ := by
  rw [parseEndBracket_eq]
  exact parseEndBracket'_cov L c hc hS hC start s0

/-- **`parseEndBracket` keeps the span invariant and the coverage of needed bytes.** -/
@[spec 41000]
theorem parseEndBracket_specC (L : Lims) (c : ICtx) (hc : c.unparsed = c.unparsedL.toArray) (hS : LinkScan2 c L.hi)
    (hC : LinkCover c) (start : Int) (s0 : IState) :
    ⦃fun s => ⌜s = s0 ∧ SPT L.lo L.hi start s ∧ s0.unparsedPos < c.unparsed.size ∧ start < spanEndOf c s0 ∧
        spanEndOf c s0 ≤ L.hi ∧ StkNN c s ∧ needsCover (c.srcA[start.toNat]!) = false⌝⦄
    parseEndBracket c start
    ⦃⇓? r s => ⌜(SPT L.lo L.hi r s ∧ start < r ∧ PosOK c s r) ∧
        StkNN c s ∧ Keep c s0.nodes s.nodes ∧ CovSeg c s.nodes start r⌝⦄ :=
  triple_and (parseEndBracket_specP L c hc hS start s0) (parseEndBracket_cov L c hc hS hC start s0)
    fun _ h => ⟨⟨h.1, h.2.1, h.2.2.1, h.2.2.2.1, h.2.2.2.2.1⟩, h⟩

end CM.Proofs.InlH2
