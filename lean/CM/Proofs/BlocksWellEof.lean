import CM.Proofs.BlocksWellOffset
/-
The empty end-of-input line: every open block on the spine is closed, in particular the first child of the document.
-/
namespace CM.Proofs
open CM CM.Model CM.Gen

theorem consumeIndentN_zero (p : LP) : p.consumeIndentN 0 = p := by
  unfold LP.consumeIndentN LP.consumeIndent
  simp

theorem empty_indent {p : LP} (h : p.line = []) : p.indent = 0 := by
  unfold LP.indent; rw [h]; simp

theorem empty_restBlank {p : LP} (h : p.line = []) : p.isRestBlank = true := by
  unfold LP.isRestBlank; rw [h]; simp [isBlankLine]

theorem empty_bytes {p : LP} (h : p.line = []) : p.bytesAfterIndent = [] := by
  unfold LP.bytesAfterIndent; rw [h]; simp

theorem parseCodeFence_nil : (parseCodeFence []).n = 0 := by decide

/-- On the empty line every `match` function returns the parser unchanged. -/
theorem ruleMatch_empty (x : PExt) (kind : Nat) (p : LP) (h : p.line = []) {ok : Bool} {p' : LP}
    (e : ruleMatch x kind p = some (ok, p')) : p' = p := by
  unfold ruleMatch at e
  simp only [empty_indent h, empty_restBlank h, empty_bytes h, consumeIndentN_zero, parseCodeFence_nil] at e
  split at e
  · cases e; rfl
  · split at e
    · split at e
      · split at e <;> (cases e; rfl)
      · rename_i hh; exact absurd trivial hh
    · split at e
      · split at e
        · cases e; rfl
        · split at e
          · cases e; rfl
          · rename_i hh
            exact (hh (by decide)).elim
      · split at e
        · split at e
          · rename_i hh
            simp at hh
          · cases e
            split
            · rfl
            · rename_i hb
              have : (p.containerIndent.getD 0).toNat = 0 := by omega
              rw [this]; exact consumeIndentN_zero p
        · split at e
          · split at e
            · split at e <;> (cases e; rfl)
            · rename_i hh; exact absurd (by decide) hh
          · split at e
            · split at e
              · split at e
                · cases e; rfl
                · rename_i hh; simp at hh
              · cases e; rfl
            · split at e
              · cases e; rfl
              · cases e

theorem ruleMatch_none (x : PExt) (kind : Nat) (p : LP) (e : ruleMatch x kind p = none) : ¬ hasMatch kind := by
  unfold ruleMatch at e
  split at e
  · cases e
  · rename_i h1
    split at e
    · exfalso; revert e; repeat' split
      all_goals (intro e; cases e)
    · rename_i h2
      split at e
      · exfalso; revert e; simp only; repeat' split
        all_goals (intro e; cases e)
      · rename_i h3
        split at e
        · exfalso; revert e; simp only; repeat' split
          all_goals (intro e; cases e)
        · rename_i h4
          split at e
          · exfalso; revert e; simp only; repeat' split
            all_goals (intro e; cases e)
          · rename_i h5
            split at e
            · exfalso; revert e; repeat' split
              all_goals (intro e; cases e)
            · rename_i h6
              split at e
              · cases e
              · rename_i h7
                simp only [Bool.or_eq_true, beq_iff_eq, not_or] at h1 h2 h3 h4 h5 h6 h7
                unfold hasMatch
                rintro (h | h | h | h | h | h | h | h)
                · exact h1.1 h
                · exact h1.2 h
                · exact h2 h
                · exact h3 h
                · exact h4 h
                · exact h5 h
                · exact h6 h
                · exact h7 h

theorem ruleMatch_some_of_hasMatch (x : PExt) (kind : Nat) (p : LP) (h : hasMatch kind) :
    ∃ r, ruleMatch x kind p = some r := by
  cases hr : ruleMatch x kind p with
  | none => exact absurd h (ruleMatch_none x kind p hr)
  | some r => exact ⟨r, rfl⟩

/-- On the empty line `descendLoop` only changes the depth and the state. -/
theorem descendLoop_empty (x : PExt) : ∀ (fuel : Nat) (p : LP) (parent : Nat), p.line = [] →
    ∃ d s, (descendLoop x fuel p parent).2 = { p with depth := d, state := s } ∧ (s = p.state ∨ s = stateDescending) := by
  intro fuel
  induction fuel with
  | zero => intro p parent _; exact ⟨parent, p.state, rfl, Or.inl rfl⟩
  | succ fuel ih =>
    intro p parent hl
    unfold descendLoop
    cases hc : spineGet p.root (parent + 1) with
    | none => exact ⟨parent, p.state, rfl, Or.inl rfl⟩
    | some c =>
      simp only
      split
      · exact ⟨parent, p.state, rfl, Or.inl rfl⟩
      · cases hr : ruleMatch x c.kind { p with depth := parent + 1, state := stateDescending } with
        | none => exact ⟨parent, p.state, rfl, Or.inl rfl⟩
        | some r =>
          obtain ⟨ok, p2⟩ := r
          have he := ruleMatch_empty x c.kind _ (show ({ p with depth := parent + 1, state := stateDescending } : LP).line = [] from hl) hr
          subst he
          simp only
          rw [if_neg (by decide)]
          split
          · exact ⟨parent, stateDescending, rfl, Or.inr rfl⟩
          · obtain ⟨d, s, h1, h2⟩ := ih { p with depth := parent + 1, state := stateDescending } (parent + 1) hl
            refine ⟨d, s, by rw [h1], Or.inr ?_⟩
            rcases h2 with h' | h'
            · exact h'
            · exact h'

/-- At the top: the state "descend terminated" survives only if the last child of the document is closed or has no
    `match` function. -/
theorem descend_empty_top (x : PExt) (p : LP) (hl : p.line = []) :
    ∃ d s, (descendOpenBlocks x p).2 = { p with depth := d, state := s } ∧
      (s = stateDescendTerminated → p.state = stateDescendTerminated ∧
        ∀ c, p.root.blocks.getLast? = some c → c.isOpen = true → ¬ hasMatch c.label.kind) := by
  unfold descendOpenBlocks descendLoop
  cases hc : spineGet p.root (0 + 1) with
  | none =>
    refine ⟨0, p.state, rfl, fun h => ⟨h, fun c hc' => ?_⟩⟩
    rw [spineGet_one, hc'] at hc; cases hc
  | some c =>
    have hc' : p.root.blocks.getLast? = some c := by rw [← spineGet_one]; exact hc
    simp only
    split
    · rename_i ho
      refine ⟨0, p.state, rfl, fun h => ⟨h, fun c2 hc2 ho2 => ?_⟩⟩
      rw [hc'] at hc2; cases hc2
      rw [ho2] at ho; simp at ho
    · cases hr : ruleMatch x c.kind { p with depth := 0 + 1, state := stateDescending } with
      | none =>
        refine ⟨0, p.state, rfl, fun h => ⟨h, fun c2 hc2 _ hm => ?_⟩⟩
        rw [hc'] at hc2; cases hc2
        obtain ⟨r, hr'⟩ := ruleMatch_some_of_hasMatch x c.kind { p with depth := 0 + 1, state := stateDescending } hm
        rw [hr'] at hr; cases hr
      | some r =>
        obtain ⟨ok, p2⟩ := r
        have he := ruleMatch_empty x c.kind _ (show ({ p with depth := 0 + 1, state := stateDescending } : LP).line = [] from hl) hr
        subst he
        simp only
        rw [if_neg (by decide)]
        split
        · exact ⟨0, stateDescending, rfl, fun h => absurd h (by decide)⟩
        · obtain ⟨d, s, h1, h2⟩ := descendLoop_empty x (spineLength p.root) { p with depth := 0 + 1, state := stateDescending } (0 + 1) hl
          refine ⟨d, s, by rw [h1], fun h => ?_⟩
          have hs : s = stateDescending := by
            rcases h2 with h' | h'
            · exact h'
            · exact h'
          rw [hs] at h; exact absurd h (by decide)

/-! ### Closing the document -/

theorem closeLast_eq (x : PExt) (src : Bytes) (e : Int) : ∀ bs : List PB,
    closeLast x src e bs = match bs.getLast? with
      | some c => bs.dropLast ++ closeBlock x src e c
      | none => [] := by
  intro bs
  induction bs with
  | nil => simp [closeLast]
  | cons a t ih =>
    cases t with
    | nil => simp [closeLast]
    | cons b t' =>
      have hcl : closeLast x src e (a :: b :: t') = a :: closeLast x src e (b :: t') := by
        rw [closeLast]; simp
      rw [hcl, ih, List.getLast?_cons_cons]
      cases h : (b :: t').getLast? with
      | none => exact absurd (List.getLast?_eq_none_iff.mp h) (by simp)
      | some c =>
        simp only
        rw [dropLast_cons_ne a (b :: t') (by simp)]
        rfl

/-- Closing the (open) document block closes its last child. -/
theorem eof_root_blocks (x : PExt) (src : Bytes) (e : Int) (root : PB) (hk : root.label.kind = BK.document)
    (hs : root.label.stop = -1) :
    ((closeBlock x src e root).headD root).blocks = (replLast (closeBlock x src e) root).blocks := by
  cases root with
  | mk l bs is =>
    simp only [PB.label] at hk hs
    rw [closeBlock]
    simp only [hs, hk]
    simp only [BK.document, BK.list, BK.paragraph, BK.setextHeading, BK.indentedCode]
    simp only [show ¬ ((-1 : Int) ≥ 0) by decide, if_false, Nat.reduceBEq, Bool.or_self, Bool.false_eq_true,
      List.headD_cons, PB.blocks, replLast, closeLast_eq]
    cases hb : bs.getLast? with
    | none => simp only [PB.blocks]; exact (List.getLast?_eq_none_iff.mp hb).symm
    | some c => simp only [PB.blocks]

theorem all_closed_of_last {N P : Nat} {bs : List PB} (h : Kids N P bs) (hl : ∀ c, bs.getLast? = some c → PBClosed c) :
    ∀ k ∈ bs, PBClosed k := by
  intro k hk
  by_cases hne : bs = []
  · subst hne; cases hk
  · rw [← List.dropLast_concat_getLast hne] at hk
    rcases List.mem_append.mp hk with h' | h'
    · exact h.init k h'
    · simp only [List.mem_singleton] at h'; subst h'
      exact hl _ (List.getLast?_eq_some_getLast hne)

/-- The empty end-of-input line: every child of the document is closed afterwards. -/
theorem processLine_eof {N : Nat} (x : PExt) (p : LP) (hl : p.line = []) (hls : p.lineStart = N)
    (hr : RootOK N N N p.root) (hT : p.state = stateDescendTerminated → TermOK p.root) :
    Kids N N (processLine x p).root.blocks ∧ ClosedLe N (processLine x p).root.blocks ∧
    (NE p.root → NE (processLine x p).root) ∧ ∀ k ∈ (processLine x p).root.blocks, PBClosed k := by
  unfold processLine
  obtain ⟨d, s, h1, h2⟩ := descend_empty_top x p hl
  generalize descendOpenBlocks x p = r at h1
  obtain ⟨b, p1⟩ := r
  simp only at h1
  subst h1
  simp only
  split
  · rename_i hterm
    have hs' : s = stateDescendTerminated := by simpa using hterm
    obtain ⟨t1, t2⟩ := h2 hs'
    have hlc : LastClosed p.root := by
      rcases hT t1 with h' | ⟨c, hc, hm⟩
      · exact h'
      · intro c' hc'
        rw [hc] at hc'; cases hc'
        by_cases ho : c.isOpen = true
        · exact absurd hm (t2 c hc ho)
        · unfold PB.isOpen at ho
          unfold PBClosed
          simp at ho; exact ho
    exact ⟨hr.kids, hr.cle, fun h => h, all_closed_of_last hr.kids hlc⟩
  · unfold openNewBlocks
    simp only [hl, List.isEmpty_nil, if_true]
    unfold LP.closeContainer
    simp only [beq_self_eq_true, if_true, Bool.false_eq_true, if_false]
    rw [eof_root_blocks x _ _ p.root hr.kind hr.stop]
    obtain ⟨k1, k2, k3⟩ := hr.close0 x p.source (e := (p.lineStart : Int)) (by rw [hls]; exact Int.le_refl _) (by rw [hls]; exact Int.le_refl _) (by rw [hls]; exact Int.le_refl _)
    have hk : Kids N N (replLast (closeBlock x p.source p.lineStart) p.root).blocks := k1.kids
    have hc : ClosedLe N (replLast (closeBlock x p.source p.lineStart) p.root).blocks := by
      have := k1.cle; rw [hls] at this; rw [hls]; exact this
    refine ⟨hk, hc, ?_, all_closed_of_last hk k3⟩
    intro hn
    have := k2 hn
    unfold NE at this ⊢
    rw [eof_root_blocks x _ _ p.root hr.kind hr.stop]
    exact this

end CM.Proofs
