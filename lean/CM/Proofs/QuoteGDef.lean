import CM.Proofs.QuoteGLine
import CM.Proofs.QuoteRdN
import CM.Proofs.QuoteArith
/-
C09 (with link reference definitions): the concrete one-sided invariant.  `GL src bd is`: the inline children `is` of a
paragraph are *lines of `src`* — sorted Unparsed nodes, each inside one line (no NUL, no CR, a line feed only as the
last byte), ending with a line feed or at the end of `src`, and ending at or before `bd` (the start of the current
line).  This file: `GL` under the operations of the block phase (a longer source, the line appended to a paragraph,
`onCloseParagraph`), and `GL` ⇒ the invariant `GoodT` of `RefDefSpans*`.
-/
namespace CM.Proofs.Quote
open CM CM.Model CM.Gen CM.Proofs.BT CM.Proofs.Nest

/-- A line (or the rest of a line) of `src` as an inline child of a paragraph. -/
def SegOK (src : Bytes) (t : Tree) : Prop :=
  isUnparsed t = true ∧ 0 ≤ t.label.start ∧ t.label.start < t.label.stop ∧ t.label.stop ≤ (src.length : Int) ∧
  (∀ j : Nat, t.label.start ≤ (j : Int) → (j : Int) < t.label.stop →
    src.getD j 0 ≠ 0 ∧ src.getD j 0 ≠ CR ∧ (src.getD j 0 = LF → (j : Int) + 1 = t.label.stop)) ∧
  (src.getD (t.label.stop.toNat - 1) 0 = LF ∨ (src.length : Int) ≤ t.label.stop)

/-- The inline children of a paragraph of the bare document. -/
def GL (src : Bytes) (bd : Int) (is : List Tree) : Prop :=
  SortedSpans is ∧ ∀ t ∈ is, SegOK src t ∧ t.label.stop ≤ bd

theorem GL_nil (src : Bytes) (bd : Int) : GL src bd [] := ⟨List.Pairwise.nil, fun _ h => by cases h⟩

theorem GL_drop {src : Bytes} {bd : Int} {is : List Tree} (h : GL src bd is) (k : Nat) : GL src bd (is.drop k) :=
  ⟨h.1.drop k, fun t ht => h.2 t (List.mem_of_mem_drop ht)⟩

/-- The source has grown by whole lines. -/
theorem SegOK_mono {src src2 : Bytes} (hp : src <+: src2) (hw : Whole src) {t : Tree} (h : SegOK src t) : SegOK src2 t := by
  obtain ⟨h1, h2, h3, h4, h5, h6⟩ := h
  have hlen : src.length ≤ src2.length := hp.length_le
  have hget : ∀ j : Nat, (j : Int) < t.label.stop → src2.getD j 0 = src.getD j 0 := by
    intro j hj
    exact RDS.getD_prefix hp (by omega)
  refine ⟨h1, h2, h3, by omega, ?_, ?_⟩
  · intro j ha hb
    rw [hget j hb]; exact h5 j ha hb
  · left
    rw [hget _ (by omega)]
    rcases h6 with h6 | h6
    · exact h6
    · -- the node ends at the end of `src`, which ends with a line feed
      have he : t.label.stop.toNat = src.length := by omega
      rcases hw with hw | hw
      · rw [hw] at h4; simp at h4; omega
      · rw [he]
        have hne : src ≠ [] := by intro e; rw [e] at hw; cases hw
        rw [List.getLast?_eq_getElem?] at hw
        rw [List.getD_eq_getElem?_getD, hw]; rfl

theorem GL_mono {src src2 : Bytes} {bd bd2 : Int} (hp : src <+: src2) (hw : Whole src) (hb : bd ≤ bd2) {is : List Tree}
    (h : GL src bd is) : GL src2 bd2 is :=
  ⟨h.1, fun t ht => ⟨SegOK_mono hp hw (h.2 t ht).1, by have := (h.2 t ht).2; omega⟩⟩

/-- `GL` gives the `NodeOK` of `RefDefSpans*`. -/
theorem SegOK.nodeOK {src : Bytes} {t : Tree} (h : SegOK src t) : RDS.NodeOK src t := by
  obtain ⟨h1, h2, h3, h4, h5, _⟩ := h
  refine ⟨h3, h4, fun hi => ?_, fun _ => ?_⟩
  · rw [unp_not_indent h1] at hi; cases hi
  · intro j ha hb
    obtain ⟨_, c2, c3⟩ := h5 j ha hb
    exact ⟨c3, fun hcr => absurd hcr c2⟩

theorem GL.ctx {src : Bytes} {bd : Int} {is : List Tree} (h : GL src bd is) : RDS.Ctx src is :=
  ⟨h.1, fun t ht => (h.2 t ht).1.nodeOK, fun t ht => (h.2 t ht).1.2.1⟩

/-- **`TP (GL …)` implies the invariant `GoodT` of `RefDefSpans*`.** -/
theorem goodT_of_tp {src : Bytes} {bd : Int} : ∀ b : PB, TP (GL src bd) b → RDS.GoodT src bd b := by
  apply BG.PB.ind
  intro l bs is ih h
  rw [TP_mk] at h
  rw [RDS.GoodT_mk]
  refine ⟨⟨fun hk => ?_, fun _ hs => ?_⟩, fun c hc => ih c hc (h.2 c hc)⟩
  · have hk' : l.kind = BK.paragraph := hk
    obtain ⟨hg, _⟩ := h.1 (Or.inl hk')
    exact Or.inl fun t ht => ⟨(hg.2 t ht).1.nodeOK, (hg.2 t ht).2⟩
  · have hs' : l.kind = BK.setextHeading := hs
    have := (h.1 (Or.inr hs')).2
    rw [hs'] at this; cases this

/-! ### the line appended to a paragraph -/

/-- A line: no NUL, no CR, a line feed only as the last byte. -/
def LineClean (line : Bytes) : Prop :=
  ∀ j : Nat, j < line.length → line.getD j 0 ≠ 0 ∧ line.getD j 0 ≠ CR ∧ (line.getD j 0 = LF → j + 1 = line.length)

theorem getD_drop'' (l : Bytes) (a j : Nat) : (l.drop a).getD j 0 = l.getD (a + j) 0 := by
  simp only [List.getD_eq_getElem?_getD, List.getElem?_drop]

/-- **The text of the current line can be appended.** -/
theorem GL_append {src : Bytes} {ls : Nat} (hls : ls ≤ src.length) (hlc : LineClean (src.drop ls)) :
    AppendOK (GL src ls) (GL src src.length) ls (src.drop ls) := by
  intro is p3 hg e1 e2 e3
  have hlen : (src.drop ls).length = src.length - ls := List.length_drop
  unfold lineNode
  rw [e1, e2] at *
  rw [hlen] at e3
  have hst : ((ls : Int) + ((src.drop ls).length : Int)) = (src.length : Int) := by rw [hlen]; omega
  rw [hst]
  constructor
  · -- sorted
    unfold SortedSpans
    rw [List.pairwise_append]
    refine ⟨hg.1, List.pairwise_singleton _ _, ?_⟩
    intro a ha b hb
    simp only [List.mem_singleton] at hb
    subst hb
    have := (hg.2 a ha).2
    show a.label.stop ≤ (ls : Int) + (p3.i : Int)
    omega
  · intro t ht
    rcases List.mem_append.mp ht with ht | ht
    · exact ⟨(hg.2 t ht).1, by have := (hg.2 t ht).2; omega⟩
    · simp only [List.mem_singleton] at ht
      subst ht
      refine ⟨⟨rfl, ?_, ?_, ?_, ?_, Or.inr ?_⟩, ?_⟩
      · show (0 : Int) ≤ (ls : Int) + (p3.i : Int); omega
      · show (ls : Int) + (p3.i : Int) < (src.length : Int); omega
      · exact Int.le_refl _
      · intro j ha hb
        have ha' : (ls : Int) + (p3.i : Int) ≤ (j : Int) := ha
        have hb' : (j : Int) < (src.length : Int) := hb
        have := hlc (j - ls) (by rw [hlen]; omega)
        rw [getD_drop'', hlen] at this
        have e : ls + (j - ls) = j := by omega
        rw [e] at this
        refine ⟨this.1, this.2.1, fun hlf => ?_⟩
        have := this.2.2 hlf
        show (j : Int) + 1 = (src.length : Int)
        omega
      · exact Int.le_refl _
      · exact Int.le_refl _

/-! ### `onCloseParagraph` keeps `TP (GL …)` -/

theorem tp_refdef {G : List Tree → Prop} (s e : Int) (kids : List Tree) : TP G (mkPB BK.linkRefDef s e kids) := by
  unfold mkPB
  rw [TP_mk]
  refine ⟨fun hp => ?_, fun _ h => by cases h⟩
  exfalso
  have hp' : PKind BK.linkRefDef := hp
  revert hp'; decide

theorem tp_para {src : Bytes} {bd : Int} {l : PLabel} {is : List Tree} (hk : l.kind = BK.paragraph) (hg : GL src bd is) :
    TP (GL src bd) (.mk l [] is) := by
  rw [TP_mk]
  exact ⟨fun _ => ⟨hg, hk⟩, fun _ h => by cases h⟩

theorem refDefLoop_TP (x : PExt) (src : Bytes) (bd : Int) (fuel : Nat) (r : Rd) (l : PLabel) (is : List Tree)
    (result : List PB) :
    l.kind = BK.paragraph → GL src bd is → (∀ b ∈ result, TP (GL src bd) b) →
    ∀ b ∈ refDefLoop x src none fuel r l is result, TP (GL src bd) b := by
  have happ : ∀ (res : List PB) (b : PB), (∀ c ∈ res, TP (GL src bd) c) → TP (GL src bd) b →
      ∀ c ∈ res ++ [b], TP (GL src bd) c := by
    intro res b h1 h2 c hc
    rcases List.mem_append.mp hc with hc | hc
    · exact h1 c hc
    · simp only [List.mem_singleton] at hc; subst hc; exact h2
  fun_induction refDefLoop x src none fuel r l is result
  all_goals intro hk hN hres
  all_goals first
    | exact happ _ _ hres (tp_para hk hN)
    | exact happ _ _ hres (tp_refdef _ _ _)
    | exact happ _ _ (happ _ _ hres (tp_refdef _ _ _)) (tp_para (by exact hk) (GL_drop hN _))
    | (rename_i ih; exact ih (by exact hk) (GL_drop hN _) (happ _ _ hres (tp_refdef _ _ _)))

/-- **`onCloseParagraph` keeps the one-sided invariant** (for paragraphs). -/
theorem GL_keep (x : PExt) (src : Bytes) (bd : Int) (l : PLabel) (bs : List PB) (is : List Tree)
    (hk : l.kind = BK.paragraph) (hg : GL src bd is) (hbs : ∀ c ∈ bs, TP (GL src bd) c) :
    ∀ b ∈ onCloseParagraph x src (.mk l bs is), TP (GL src bd) b := by
  cases is with
  | nil =>
    intro b hb
    have : b = .mk l bs [] := by simpa [onCloseParagraph] using hb
    subst this
    rw [TP_mk]
    exact ⟨fun _ => ⟨hg, hk⟩, hbs⟩
  | cons first rest =>
    rw [RDS.onCloseParagraph_cons]
    have hns : (l.kind == BK.setextHeading) = false := by rw [hk]; rfl
    rw [if_neg (by rw [hns]; decide)]
    exact refDefLoop_TP x src bd _ _ l _ [] hk hg (fun _ h => by cases h)

end CM.Proofs.Quote
