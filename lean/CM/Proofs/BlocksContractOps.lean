import CM.Proofs.BlocksContractInv
/-
C01 contract for the real block parser — `closeContainer`, `closeLastChild`, `openBlockLoop`, `openBlock` under the
invariant `TopA` (together with the invariant `LA` of the C08 proof).
-/
namespace CM.Proofs
open CM CM.Model CM.Gen

/-- Line in progress: the invariant of the C08 proof, the facts about the source, the children of the document. -/
structure LT (Q : Nat → Prop) (am : Bool) (N : Nat) (p : LP) : Prop where
  la : LA am N p
  src : SrcOK N p
  top : TopA Q p

theorem LT.of_frame {Q : Nat → Prop} {am : Bool} {N : Nat} {p p' : LP} (h : LT Q am N p) (f : CurFrame p p') : LT Q am N p' :=
  ⟨h.la.of_frame f, h.src.of_frame f, h.top.of_frame f⟩

theorem LT.weaken {Q : Nat → Prop} {am : Bool} {N : Nat} {p : LP} (h : LT Q am N p) : LT QW am N p :=
  ⟨h.la, h.src, h.top.weaken⟩

theorem containerKind_eq {p : LP} {b : PB} (h : spineGet p.root p.depth = some b) : p.containerKind = b.label.kind := by
  unfold LP.containerKind; rw [container_eq h]; rfl

/-! ### Closing the container below a child of the document -/

theorem TopA.replDeep {Q : Nat → Prop} {p : LP} (g : PB → List PB) (h : TopA Q p) (hd : 2 ≤ p.depth)
    (hnu : Univ p.containerKind = false) :
    TopA QU { p with root := spineModify (replLast g) p.root (p.depth - 1), depth := p.depth - 1 } := by
  -- a witness lies strictly above the container
  have hwit : Wit p → ∃ w b, 1 ≤ w ∧ w ≤ p.depth - 1 ∧ spineGet p.root w = some b ∧ Univ b.label.kind = true := by
    rintro ⟨w, b, w1, w2, w3, w4⟩
    refine ⟨w, b, w1, ?_, w3, w4⟩
    by_cases hw : w = p.depth
    · subst hw
      rw [containerKind_eq w3, w4] at hnu; cases hnu
    · omega
  refine h.deep (replLast g) (p.depth - 1) (by omega) (by omega) rfl rfl rfl
    (fun _ c => ⟨by rw [(replLast_same _ c).1], by rw [(replLast_same _ c).1]⟩)
    (fun _ c _ => Or.inl (replLast_same _ c).2.1) (by simp only; omega) ?_ ?_
  · intro hw
    rcases hw with hw | hw
    · omega
    · obtain ⟨w, b, w1, w2, w3, w4⟩ := hwit hw
      exact Or.inr (Wit.modify _ _ (fun b => by rw [(replLast_same _ b).1]) rfl ⟨w, b, w1, w2, w2, w3, w4⟩)
  · intro c hc hw _ h1
    simp only at h1
    rcases hw with hw | hw
    · omega
    · obtain ⟨w, b, w1, w2, w3, w4⟩ := hwit hw
      have hw1 : w = 1 := by omega
      subst hw1
      rw [spineGet_one, hc] at w3
      cases w3
      exact w4

theorem TopA.closeDeep {Q : Nat → Prop} {p : LP} (x : PExt) (e : Int) (h : TopA Q p) (hd : 2 ≤ p.depth)
    (hnu : Univ p.containerKind = false) :
    TopA QU { p with root := spineModify (replLast (closeBlock x p.source e)) p.root (p.depth - 1), depth := p.depth - 1 } :=
  h.replDeep _ hd hnu

/-! ### `closeContainer` at the start of the line (in `openBlock`) -/

theorem closeContainer_T (H : onCloseParagraph_cuts_target) (x : PExt) {am : Bool} {N : Nat} {p : LP} {kind : Nat}
    (h : LT QU am N p) (hd : p.depth ≠ 0) (hcc : canContain p.containerKind kind = false) (hK : kind ≠ BK.listItem) :
    LT QU am N (p.closeContainer x p.lineStart) := by
  obtain ⟨c1, _, _, _⟩ := closeContainer_LA x h.la hd
  refine ⟨c1, h.src.of_tframe (closeContainer_tframe x p _ hd), ?_⟩
  rw [closeContainer_eq x p _ hd]
  have hnu : Univ p.containerKind = false := by
    cases hu : Univ p.containerKind with
    | false => rfl
    | true => rw [univ_canContain hu hK] at hcc; cases hcc
  by_cases hd2 : 2 ≤ p.depth
  · exact h.top.closeDeep x _ hd2 hnu
  · have hd1 : p.depth = 1 := by omega
    simp only [hd1, Nat.sub_self, spineModify_zero]
    cases h.top with
    | empty he =>
      refine .empty ?_
      show (replLast _ p.root).blocks = []
      rw [replLast_blocks, he]; rfl
    | old k hb ho hls hp =>
      obtain ⟨k1, k2, k3⟩ := close_old_ls H x h.src h.la hb ho hls hp
      have hb' : p.root.blocks = [] ++ [k] := hb
      have hbl : (replLast (closeBlock x p.source p.lineStart) p.root).blocks = closeBlock x p.source p.lineStart k := by
        rw [replLast_blocks_append _ _ hb']; rfl
      refine .closedAt ?_ ?_ ?_ rfl
      · show (replLast _ p.root).blocks ≠ []; rw [hbl]; exact k1
      · show Chain p.source p.lineStart 0 (replLast _ p.root).blocks; rw [hbl]; exact k2
      · show Gap p.source (lastStop 0 (replLast _ p.root).blocks).toNat p.lineStart; rw [hbl]; exact k3
    | closedAt _ _ _ hd0 => omega
    | new pre c hb _ _ _ _ _ e1 =>
      have hu : Univ c.label.kind = true := e1 hd1
      rw [containerKind_of_last hd1 (last_of_append hb).1, hu] at hnu
      cases hnu

/-! ### `closeLastChild` at the start of the line -/

theorem replLast_closed_blocks (x : PExt) (src : Bytes) (e : Int) (root : PB) (h : ∀ b ∈ root.blocks, PBClosed b) :
    (replLast (closeBlock x src e) root).blocks = root.blocks := by
  rw [replLast_closed_id x src e root]
  intro c hc
  exact h c (List.mem_of_getLast? hc)

theorem TopA.close0 {Q : Nat → Prop} (H : onCloseParagraph_cuts_target) (x : PExt) {am : Bool} {N : Nat} {p : LP}
    (hla : LA am N p) (hs : SrcOK N p) (h : TopA Q p) (hd : p.depth = 0) :
    TopA Q { p with root := replLast (closeBlock x p.source p.lineStart) p.root } := by
  cases h with
  | empty he =>
    refine .empty ?_
    show (replLast _ p.root).blocks = []
    rw [replLast_blocks, he]; rfl
  | old k hb ho hls hp =>
    obtain ⟨k1, k2, k3⟩ := close_old_ls H x hs hla hb ho hls hp
    have hb' : p.root.blocks = [] ++ [k] := hb
    have hbl : (replLast (closeBlock x p.source p.lineStart) p.root).blocks = closeBlock x p.source p.lineStart k := by
      rw [replLast_blocks_append _ _ hb']; rfl
    refine .closedAt ?_ ?_ ?_ hd
    · show (replLast _ p.root).blocks ≠ []; rw [hbl]; exact k1
    · show Chain p.source p.lineStart 0 (replLast _ p.root).blocks; rw [hbl]; exact k2
    · show Gap p.source (lastStop 0 (replLast _ p.root).blocks).toNat p.lineStart; rw [hbl]; exact k3
  | closedAt hne hc hg hd0 =>
    have hbl := replLast_closed_blocks x p.source p.lineStart p.root (hc.closed (Int.le_refl _))
    refine .closedAt ?_ ?_ ?_ hd0
    · show (replLast _ p.root).blocks ≠ []; rw [hbl]; exact hne
    · show Chain p.source p.lineStart 0 (replLast _ p.root).blocks; rw [hbl]; exact hc
    · show Gap p.source (lastStop 0 (replLast _ p.root).blocks).toNat p.lineStart; rw [hbl]; exact hg
  | new _ _ _ _ _ _ hd1 _ _ => omega

theorem closeLastChild_T {Q : Nat → Prop} (H : onCloseParagraph_cuts_target) (x : PExt) {am : Bool} {N : Nat} {p : LP}
    (h : LT Q am N p) : LT Q am N (p.closeLastChild x p.lineStart) := by
  obtain ⟨c1, _⟩ := closeLastChild_LA x h.la
  refine ⟨c1, h.src.of_eq rfl rfl rfl, ?_⟩
  unfold LP.closeLastChild
  rw [spineReplaceLast_eq]
  by_cases hd : p.depth = 0
  · have := h.top.close0 H x h.la h.src hd
    refine this.of_eq ?_ rfl rfl rfl
    show spineModify _ p.root p.depth = _
    rw [hd, spineModify_zero]
  · refine h.top.deep (replLast (closeBlock x p.source p.lineStart)) p.depth (by omega) (by omega) rfl rfl rfl
      (fun _ c => ⟨by rw [(replLast_same _ c).1], by rw [(replLast_same _ c).1]⟩)
      (fun _ c _ => Or.inl (replLast_same _ c).2.1) (by simp only; omega) ?_ (fun c _ _ e1 h1 => e1 h1)
    intro hw
    rcases hw with hw | ⟨w, b, w1, w2, w3, w4⟩
    · exact Or.inl hw
    · exact Or.inr (Wit.modify _ _ (fun b => by rw [(replLast_same _ b).1]) rfl ⟨w, b, w1, w2, w2, w3, w4⟩)

/-! ### `openBlockLoop` -/

theorem openBlockLoop_T (H : onCloseParagraph_cuts_target) (x : PExt) {am : Bool} {N : Nat} (kind : Nat)
    (hK : kind ≠ BK.listItem) : ∀ (fuel : Nat) (p : LP), LT QU am N p → p.depth + 1 ≤ fuel →
    LT QU am N (LP.openBlockLoop x kind fuel p) := by
  intro fuel
  induction fuel with
  | zero => intro p _ hf; omega
  | succ fuel ih =>
    intro p h hf
    unfold LP.openBlockLoop
    split
    · exact h
    · rename_i hcc
      split
      · exact h.of_frame (setPanic_frame p _).1
      · rename_i hd
        have hd' : p.depth ≠ 0 := by simpa using hd
        have hcc' : canContain p.containerKind kind = false := by simpa using hcc
        have c1 := closeContainer_T H x h hd' hcc' hK
        obtain ⟨_, _, c3, _⟩ := closeContainer_LA x h.la hd'
        exact ih _ c1 (by rw [c3]; omega)

theorem openBlockLoop_id (x : PExt) (kind : Nat) (fuel : Nat) (p : LP) (hc : canContain p.containerKind kind = true) :
    LP.openBlockLoop x kind (fuel + 1) p = p := by
  unfold LP.openBlockLoop; rw [if_pos hc]

/-! ### `openBlock` -/

/-- A new child of the document has just been appended: closed children, then the new one, still empty. -/
def NewTop (kind : Nat) (p : LP) : Prop :=
  ∃ pre c, p.root.blocks = pre ++ [c] ∧ Chain p.source p.lineStart 0 pre ∧ c.label.stop < 0 ∧ c.inlines = [] ∧
    c.label.kind = kind

theorem NewTop.of_eq {kind : Nat} {p p' : LP} (h : NewTop kind p) (h1 : p'.root = p.root) (h3 : p'.source = p.source)
    (h4 : p'.lineStart = p.lineStart) : NewTop kind p' := by
  obtain ⟨pre, c, k1, k2, k3, k4, k5⟩ := h
  exact ⟨pre, c, by rw [h1]; exact k1, by rw [h3, h4]; exact k2, k3, k4, k5⟩

/-- Appending the new child to the document itself: the children before it are closed, in a chain. -/
theorem closeAppend0_core {Q : Nat → Prop} (H : onCloseParagraph_cuts_target) (x : PExt) {am : Bool} {N : Nat} {p : LP}
    (hla : LA am N p) (hs : SrcOK N p) (h : TopA Q p) (hd : p.depth = 0) (child : PB) :
    ∃ pre, (closeAppend x p.source p.lineStart child p.root).blocks = pre ++ [child] ∧
      Chain p.source p.lineStart 0 pre := by
  have hbl := (closeAppend_blocks x p.source p.lineStart child p.root).1
  rw [hbl]
  cases h with
  | empty he =>
    refine ⟨[], ?_, trivial⟩
    rw [replLast_blocks, he]; rfl
  | old k hb ho hls hp =>
    obtain ⟨_, k2, _⟩ := close_old_ls H x hs hla hb ho hls hp
    have hb' : p.root.blocks = [] ++ [k] := hb
    refine ⟨closeBlock x p.source p.lineStart k, ?_, k2⟩
    rw [replLast_blocks_append _ _ hb']; rfl
  | closedAt hne hc hg hd0 =>
    refine ⟨p.root.blocks, ?_, hc⟩
    rw [replLast_closed_blocks x p.source p.lineStart p.root (hc.closed (Int.le_refl _))]
  | new _ _ _ _ _ _ hd1 _ _ => omega

/-- Appending the new child to the document itself. -/
theorem TopA.closeAppend0 {Q : Nat → Prop} (H : onCloseParagraph_cuts_target) (x : PExt) {am : Bool} {N : Nat} {p : LP}
    (hla : LA am N p) (hs : SrcOK N p) (h : TopA Q p) (hd : p.depth = 0) (child : PB) (hcs : child.label.stop < 0)
    (hci : child.inlines = []) :
    TopA QW { p with root := closeAppend x p.source p.lineStart child p.root, depth := p.depth + 1 } ∧
    NewTop child.label.kind { p with root := closeAppend x p.source p.lineStart child p.root, depth := p.depth + 1 } := by
  obtain ⟨pre, h1, h2⟩ := closeAppend0_core H x hla hs h hd child
  exact ⟨.new pre child h1 h2 hcs (fun _ => hci) (by simp only; omega) (Or.inl (by simp only; omega)) (fun _ => trivial),
    ⟨pre, child, h1, h2, hcs, hci, rfl⟩⟩

theorem spineGet_closeAppend (x : PExt) (src : Bytes) (e : Int) (child : PB) (root : PB) (d : Nat) {b : PB}
    (hb : spineGet root d = some b) :
    spineGet (spineModify (closeAppend x src e child) root d) (d + 1) = some child := by
  rw [spineGet_modify_below, hb]
  simp only [Option.bind_some]
  rw [spineGet_one, (closeAppend_blocks x src e child b).1]
  exact List.getLast?_concat

/-- Appending the new child to a block below the document. -/
theorem TopA.closeAppendDeep {Q : Nat → Prop} (x : PExt) {p : LP} (h : TopA Q p) (hd : 1 ≤ p.depth) (child : PB) {kind : Nat}
    (hck : child.label.kind = kind) (hdv : ∃ b, spineGet p.root p.depth = some b)
    (hcan : canContain p.containerKind kind = true) :
    TopA QW { p with root := spineModify (closeAppend x p.source p.lineStart child) p.root p.depth, depth := p.depth + 1 } := by
  have hfk : ∀ b, (closeAppend x p.source p.lineStart child b).label.kind = b.label.kind := fun b => by
    rw [(closeAppend_blocks x p.source p.lineStart child b).2.1]
  refine h.deep (closeAppend x p.source p.lineStart child) p.depth hd hd rfl rfl rfl
    (fun _ c => ⟨hfk c, by rw [(closeAppend_blocks x p.source p.lineStart child c).2.1]⟩)
    (fun _ c _ => Or.inl (closeAppend_blocks x p.source p.lineStart child c).2.2) (by simp only; omega) ?_
    (fun _ _ _ _ _ => trivial)
  intro hw
  right
  rcases hw with hw | ⟨w, b, w1, w2, w3, w4⟩
  · -- the container is a child of the document
    obtain ⟨b, hb⟩ := hdv
    rw [containerKind_eq hb] at hcan
    rcases canContain_cases hcan with hu | ⟨_, hki⟩
    · exact Wit.modify _ _ hfk rfl ⟨p.depth, b, hd, Nat.le_refl _, by simp only; omega, hb, hu⟩
    · refine ⟨p.depth + 1, child, by omega, Nat.le_refl _, spineGet_closeAppend x _ _ child p.root p.depth hb, ?_⟩
      rw [hck, hki]; exact univ_listItem
  · exact Wit.modify _ _ hfk rfl ⟨w, b, w1, w2, by simp only; omega, w3, w4⟩

theorem openBlock_T (H : onCloseParagraph_cuts_target) (x : PExt) {am : Bool} {N : Nat} {p : LP} (kind : Nat)
    (setAttrs : PLabel → PLabel) (h : LT QW am N p)
    (hs : ¬ (p.state = stateDescending ∨ p.state = stateDescendTerminated))
    (hk : kind ≠ BK.setextHeading) (hkp : kind ≠ BK.paragraph ∨ am = true)
    (ha : ∀ l, (setAttrs l).kind = l.kind ∧ (setAttrs l).stop = l.stop)
    (hpre : canContain p.containerKind kind = true ∨ (kind ≠ BK.listItem ∧ TopA QU p)) :
    LT QW am N (p.openBlock x kind setAttrs) ∧
    ((p.openBlock x kind setAttrs).depth = 1 → NewTop kind (p.openBlock x kind setAttrs)) := by
  obtain ⟨o1, _, _, _, o5, _⟩ := openBlock_LA x kind setAttrs h.la hs hk hkp ha
  suffices hsuf : TopA QW (p.openBlock x kind setAttrs) ∧
      ((p.openBlock x kind setAttrs).depth = 1 → NewTop kind (p.openBlock x kind setAttrs)) from
    ⟨⟨o1, h.src.of_tframe o5, hsuf.1⟩, hsuf.2⟩
  rw [openBlock_eq x p kind setAttrs hs]
  obtain ⟨m1, _, _, _⟩ := markMatched_frame p
  have hm : LT QW am N p.markMatched := h.of_frame m1
  obtain ⟨r1, _, r3, _, _⟩ := openBlockLoop_LA x kind (p.markMatched.depth + 1) p.markMatched hm.la (Nat.le_refl _)
  -- the loop
  have hloop : TopA QW (LP.openBlockLoop x kind (p.markMatched.depth + 1) p.markMatched) ∧
      SrcOK N (LP.openBlockLoop x kind (p.markMatched.depth + 1) p.markMatched) := by
    rcases hpre with hcc | ⟨hK, hu⟩
    · rw [openBlockLoop_id x kind _ _ (by rw [(ContFrame.of_cur m1).kind]; exact hcc)]
      exact ⟨hm.top, hm.src⟩
    · have := openBlockLoop_T H x kind hK (p.markMatched.depth + 1) p.markMatched ⟨hm.la, hm.src, hu.of_frame m1⟩ (Nat.le_refl _)
      exact ⟨this.top.weaken, this.src⟩
  generalize LP.openBlockLoop x kind (p.markMatched.depth + 1) p.markMatched = p2 at r1 r3 hloop
  obtain ⟨ht2, hs2⟩ := hloop
  simp only
  have hcs : (PB.mk (setAttrs { kind := kind, start := (p2.lineStart : Int) + p2.i }) [] []).label.stop < 0 := by
    show (setAttrs _).stop < 0
    rw [(ha _).2]; show (-1 : Int) < 0; decide
  have hck : (PB.mk (setAttrs { kind := kind, start := (p2.lineStart : Int) + p2.i }) [] []).label.kind = kind := by
    show (setAttrs _).kind = kind
    rw [(ha _).1]
  by_cases hd : p2.depth = 0
  · have := ht2.closeAppend0 H x r1 hs2 hd _ hcs rfl
    rw [hck] at this
    simp only [hd, spineModify_zero] at this ⊢
    exact ⟨this.1, fun _ => this.2⟩
  · have hcan : canContain p2.containerKind kind = true := by
      rcases r3 with h' | h'
      · exact h'
      · exact absurd h' hd
    exact ⟨ht2.closeAppendDeep x (by omega) _ hck r1.dv hcan, fun h1 => by have h1' : p2.depth + 1 = 1 := h1; omega⟩

end CM.Proofs
