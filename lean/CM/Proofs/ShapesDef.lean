import CM.Model.Stream
import CM.Spec.TreeWF
import CM.Proofs.BlocksSpansDef
/-
C13, block half — definitions.

`Sh setx src lo e b`: every block of the tree under construction `b` has, in the current source `src`, the prefix its
construct needs, and a closed block's span is long enough to contain it:

  * a block quote starts at a `>` of the source and, once closed, is not empty;
  * an ATX heading of level `n` starts at a run of exactly `n` `#` (the byte after the run, if the span goes on, is not
    `#`); a fenced code block `(char, n)` at a run of exactly `n ≥ 3` fence characters;
  * a list marker is closed and its span selects a bullet or 1–9 digits and `.`/`)`;
  * (if `setx`) a setext heading is closed and the text before its end, trailing white space dropped, ends in `=`
    (level 1) or `-` (level 2), at or after the start of the heading (the rule is anchored at the end of the span; that
    the heading starts inside the source comes from the span theorem of C02).

An *open* block (`stop < 0`) is read "as if it were closed at any position `≥ e`": its prefix ends at or before `e`.
What the block phase needs to keep this true is carried along:

  * every block ends at or before `e`, and inside its (closed) parent; only the last child of a block may be open, and
    only if the block itself is; no open block is a setext heading; an open block starts at or before `e`; the blocks
    named above start (a setext heading: has the last character of its underline) at or after `lo`, where `lo` is
    threaded through the lists of children as the end of the previous sibling (so that re-basing left-over siblings
    keeps them inside the source);
  * the inline children of an open paragraph are valid spans in `[lo, e]`, in order (what `onCloseParagraph` needs to
    return link reference definitions that end inside the paragraph).

Everything is Boolean (`sh`), so the statements about concrete trees are decidable by evaluation.
-/
namespace CM.Proofs.Shp
open CM CM.Model CM.Gen

/-- `src[s ..]` begins with `n` copies of `ch`. -/
def runAt (src : Bytes) (s n : Nat) (ch : UInt8) : Bool := (src.drop s).take n == List.replicate n ch

/-- The end of a block's span, `e` while it is open. -/
def endOf (e : Int) (l : PLabel) : Int := if l.stop < 0 then e else l.stop

/-- A run of exactly `l.n` bytes `ch` at `l.start`. -/
def runOK (src : Bytes) (e : Int) (l : PLabel) (ch : UInt8) : Bool :=
  decide (0 ≤ l.start) && decide (0 ≤ l.n) && runAt src l.start.toNat l.n.toNat ch &&
  decide (l.start + l.n ≤ endOf e l) &&
  (if l.stop < 0 then src[l.start.toNat + l.n.toNat]? != some ch
   else (l.start + l.n == l.stop ||
     (match src[l.start.toNat + l.n.toNat]? with
      | some c => c != ch
      | none => false)))

/-- `src[start:stop]` for integers. -/
def sliceI (src : Bytes) (start stop : Int) : Bytes := (src.drop start.toNat).take (stop - start).toNat

/-- The text of a list marker (C13). -/
def markerText (s : Bytes) : Bool :=
  s == [0x2D] || s == [0x2B] || s == [0x2A] ||
  (let ds := s.takeWhile isASCIIDigit
   decide (1 ≤ ds.length) && decide (ds.length ≤ 9) && (s.drop ds.length == [0x2E] || s.drop ds.length == [0x29]))

/-- The underline character of a setext heading of level `n`. -/
def ulChar (n : Int) : UInt8 := if n == 1 then 0x3D else 0x2D

/-- The length of `src[.. stop]` without its trailing white space. -/
def bodyLen (src : Bytes) (stop : Int) : Nat := (Spec.dropRight Spec.isWs (src.take stop.toNat)).length

/-- The rule for a setext heading: it is closed inside the source, the text before its end, trailing white space
    dropped, ends in the underline character of its level, and the heading starts at or before that character. (The
    rule is anchored at the end of the span: where the heading starts, after the link reference definitions split off
    its first lines, is known to the reader of `onCloseParagraph` only.) -/
def setextOK (src : Bytes) (l : PLabel) : Bool :=
  decide (0 ≤ l.stop) && decide (l.stop ≤ src.length) &&
  ((Spec.dropRight Spec.isWs (src.take l.stop.toNat)).getLast? == some (ulChar l.n)) &&
  decide (l.start < bodyLen src l.stop)

/-- A closed block whose whole span is inside the source. -/
def closedIn (src : Bytes) (l : PLabel) : Bool :=
  decide (0 ≤ l.start) && decide (l.start ≤ l.stop) && decide (l.stop ≤ src.length)

/-- The kinds whose spans have a prescribed shape. -/
def shapeKind (setx : Bool) (k : Nat) : Bool :=
  k == BK.blockQuote || k == BK.atxHeading || k == BK.fencedCode || k == BK.listMarker || (setx && k == BK.setextHeading)

/-- Where a block with a prescribed shape is anchored: at its start, a setext heading at the last character of its
    underline. -/
def anchor (setx : Bool) (src : Bytes) (l : PLabel) : Int :=
  if setx && l.kind == BK.setextHeading then (bodyLen src l.stop : Int) - 1 else l.start

/-- The shape part of the rule at one block. `setx` = whether setext headings are checked. -/
def shapeOK (setx : Bool) (src : Bytes) (e : Int) (l : PLabel) : Bool :=
  if l.kind == BK.blockQuote then
    decide (0 ≤ l.start) && src[l.start.toNat]? == some 0x3E && decide (l.start + 1 ≤ endOf e l)
  else if l.kind == BK.atxHeading then decide (1 ≤ l.n) && runOK src e l 0x23
  else if l.kind == BK.fencedCode then decide (3 ≤ l.n) && (l.char == 0x60 || l.char == 0x7E) && runOK src e l l.char
  else if l.kind == BK.listMarker then closedIn src l && markerText (sliceI src l.start l.stop)
  else if l.kind == BK.setextHeading then !setx || setextOK src l
  else true

/-- Paragraphs and setext headings (what `onCloseParagraph` rewrites). -/
def paraLike (k : Nat) : Bool := k == BK.paragraph || k == BK.setextHeading

/-- The rule for an open paragraph (`leaf`: no block children): its inline children are valid spans in `[lo, e]`, in
    order. -/
def textOK (lo e : Int) (l : PLabel) (leaf : Bool) (is : List Tree) : Bool :=
  !paraLike l.kind || decide (0 ≤ l.stop) || (leaf && BSp.inlsOK lo e is)

/-- The rule for an open block: it is not a setext heading (a setext heading is closed in the step that creates it), it
    starts at or before `e`, and at or after `lo` (or it is a paragraph with text, which does). -/
def openOK (lo e : Int) (l : PLabel) (is : List Tree) : Bool :=
  decide (0 ≤ l.stop) ||
    (l.kind != BK.setextHeading && decide (l.start ≤ e) && ((paraLike l.kind && !is.isEmpty) || decide (lo ≤ l.start)))

/-- The kind-specific part of the rule at one block. -/
def kindOK (setx : Bool) (src : Bytes) (lo e : Int) (l : PLabel) (leaf : Bool) (is : List Tree) : Bool :=
  shapeOK setx src e l && textOK lo e l leaf is && openOK lo e l is

/-- The rule at one block: it ends in `[lo, e]`, a block with a prescribed shape is anchored at or after `lo`, and the
    kind-specific part. -/
def nodeOK (setx : Bool) (src : Bytes) (lo e : Int) (l : PLabel) (leaf : Bool) (is : List Tree) : Bool :=
  decide (l.stop ≤ e) && (decide (l.stop < 0) || decide (lo ≤ l.stop)) &&
    (!shapeKind setx l.kind || decide (lo ≤ anchor setx src l))
    && kindOK setx src lo e l leaf is

mutual
def sh (setx : Bool) (src : Bytes) (lo e : Int) : PB → Bool
  | .mk l bs is => nodeOK setx src lo e l bs.isEmpty is && shL setx src (decide (l.stop < 0)) lo (endOf e l) bs
/-- The children of a block whose span ends at `e` (`po`: the block is open): in order (`lo` is threaded through the
    list as the end of the previous sibling), only the last one may be open, and only if the parent is. -/
def shL (setx : Bool) (src : Bytes) (po : Bool) (lo e : Int) : List PB → Bool
  | [] => true
  | b :: bs => sh setx src lo e b && (!b.isOpen || (bs.isEmpty && po)) && shL setx src po (max lo b.label.stop) e bs
end

/-- **The shape invariant** of a block under construction. -/
def Sh (setx : Bool) (src : Bytes) (lo e : Int) (b : PB) : Prop := sh setx src lo e b = true
/-- … of a list of siblings (`lo`: the end of the sibling before the first one; `po`: the parent is open). -/
def ShL (setx : Bool) (src : Bytes) (po : Bool) (lo e : Int) (bs : List PB) : Prop := shL setx src po lo e bs = true

instance (setx src lo e b) : Decidable (Sh setx src lo e b) := by unfold Sh; infer_instance
instance (setx src po lo e bs) : Decidable (ShL setx src po lo e bs) := by unfold ShL; infer_instance

theorem ShL_nil (setx : Bool) (src : Bytes) (po : Bool) (lo e : Int) : ShL setx src po lo e [] := rfl

theorem ShL_cons {setx : Bool} {src : Bytes} {po : Bool} {lo e : Int} {b : PB} {bs : List PB} :
    ShL setx src po lo e (b :: bs) ↔
      Sh setx src lo e b ∧ (b.isOpen = true → bs = [] ∧ po = true) ∧ ShL setx src po (max lo b.label.stop) e bs := by
  unfold ShL Sh
  rw [shL, Bool.and_eq_true, Bool.and_eq_true]
  simp only [Bool.or_eq_true, Bool.not_eq_true', Bool.and_eq_true, List.isEmpty_iff, and_assoc]
  constructor
  · rintro ⟨h1, h2, h3⟩
    refine ⟨h1, fun ho => ?_, h3⟩
    rcases h2 with h2 | h2
    · rw [ho] at h2; cases h2
    · exact h2
  · rintro ⟨h1, h2, h3⟩
    refine ⟨h1, ?_, h3⟩
    cases ho : b.isOpen
    · left; rfl
    · right; exact h2 ho

theorem Sh_mk {setx : Bool} {src : Bytes} {lo e : Int} {l : PLabel} {bs : List PB} {is : List Tree} :
    Sh setx src lo e (.mk l bs is) ↔
      nodeOK setx src lo e l bs.isEmpty is = true ∧ ShL setx src (decide (l.stop < 0)) lo (endOf e l) bs := by
  unfold Sh ShL
  rw [sh, Bool.and_eq_true]

/-- Induction over `PB` (a nested inductive type). -/
theorem PB.ind {P : PB → Prop} (h : ∀ l bs is, (∀ c ∈ bs, P c) → P (.mk l bs is)) : ∀ b, P b
  | .mk l bs is => h l bs is (fun c _ => PB.ind h c)
termination_by b => sizeOf b
decreasing_by
  rename_i hc
  have := List.sizeOf_lt_of_mem hc
  simp_wf
  omega

end CM.Proofs.Shp
