import CM.Proofs.GrammarLooseStream
/-
C05, block half — summary: **`Spec.grammarAt`, restricted to what can hold before inline rewriting, holds at EVERY node
of every delivered block-phase tree** (`drain_phase1_mem`, `drain_phase1_stream`), and the root is container content
(`Spec.rootKindOK`).

`phase1At t` is `Spec.grammarAt t` except at the places the inline phase still has to rewrite:
  * paragraph, ATX heading, setext heading: the children are `Unparsed` (kind 18) and `Indent` leaves instead of phrasing
    content (the heading levels are checked as in `grammarAt`);
  * an `Unparsed` node (which `grammarAt` rejects by design) has no children.
At every other node — thematic break, indented / fenced code, HTML block, link reference definition, block quote, list
item, **list** (non-empty, items only, same kind of delimiter, **same looseness**), list marker; Text, SoftLineBreak,
Indent, CharacterReference, RawHTML, InfoString, LinkLabel, LinkDestination, LinkTitle — it IS `Spec.grammarAt`
(`phase1At_eq_grammarAt`). The document block (kind 13) does not occur in a delivered tree.

Inline kinds that occur after the block phase, and where: `Unparsed`/`Indent` in paragraphs and headings;
`Text`/`Indent`/`SoftLineBreak` in code blocks, an `InfoString` (children `Text`/`CharacterReference`) first in a fenced
code block; `RawHTML`/`Indent` in HTML blocks; `LinkLabel` (children `Text`/`Indent`), `LinkDestination`, `LinkTitle`
(children `Text`/`CharacterReference`/`Indent`) in link reference definitions. No other inline kind occurs
(`PBGrammar`, file `BGDefs`).
-/
namespace CM.Proofs
open CM CM.Model CM.Gen
open CM.Proofs.BT CM.Proofs.BG CM.Proofs.GL

/-- `Spec.grammarAt` restricted to what can hold before inline rewriting. -/
def phase1At (t : Tree) : Bool :=
  let cs := t.children
  let l := t.label
  if l.isBlock then
    if l.kind == BK.paragraph then cs.all (Spec.inlineOf [IK.unparsed, IK.indent])
    else if l.kind == BK.atxHeading then cs.all (Spec.inlineOf [IK.unparsed, IK.indent]) && 1 ≤ l.n && l.n ≤ 6
    else if l.kind == BK.setextHeading then cs.all (Spec.inlineOf [IK.unparsed, IK.indent]) && 1 ≤ l.n && l.n ≤ 2
    else Spec.grammarAt t
  else
    if l.kind == IK.unparsed then cs.isEmpty else Spec.grammarAt t

/-- Outside paragraphs, headings and `Unparsed` runs, `phase1At` is `Spec.grammarAt`. -/
theorem phase1At_eq_grammarAt (t : Tree)
    (h : if t.label.isBlock then t.label.kind ≠ BK.paragraph ∧ t.label.kind ≠ BK.atxHeading ∧ t.label.kind ≠ BK.setextHeading
         else t.label.kind ≠ IK.unparsed) : phase1At t = Spec.grammarAt t := by
  unfold phase1At
  simp only []
  split
  · rename_i hb
    rw [if_pos hb] at h
    obtain ⟨h1, h2, h3⟩ := h
    simp [h1, h2, h3]
  · rename_i hb
    rw [if_neg hb] at h
    simp [h]

namespace GL

/-- … at every node of the tree. -/
def AllP1 (u : Tree) : Prop := ∀ t ∈ Spec.T.nodes u, phase1At t = true

theorem allP1_of_parts (u : Tree) (h1 : phase1At u = true) (h2 : ∀ v ∈ u.children, AllP1 v) : AllP1 u := by
  intro t ht
  rw [nodes_eq, List.mem_cons] at ht
  rcases ht with rfl | ht
  · exact h1
  · obtain ⟨v, hv, htv⟩ := mem_nodesL ht
    exact h2 v hv t htv

/-- An inline node that is not `Unparsed`. -/
theorem phase1At_inline {t : Tree} (hb : t.label.isBlock = false) (hk : t.label.kind ≠ IK.unparsed) (h : Spec.grammarAt t = true) :
    phase1At t = true := by
  rw [phase1At_eq_grammarAt t (by rw [hb]; simpa using hk)]
  exact h

/-- A leaf of kind Unparsed / Text / SoftLineBreak / Indent / CharacterReference / RawHTML. -/
theorem allP1_leaf (K : List Nat) (u : Tree) (h : inl K u = true)
    (hK : ∀ k ∈ K, k = IK.unparsed ∨ k = IK.text ∨ k = IK.softBreak ∨ k = IK.indent ∨ k = IK.charRef ∨ k = IK.rawHTML) :
    AllP1 u := by
  have h' := h
  unfold inl at h'
  simp only [Bool.and_eq_true, Bool.not_eq_true', List.contains_iff_mem, List.isEmpty_iff] at h'
  apply allP1_of_parts
  · rcases hK _ h'.1.2 with hk | hk
    · unfold phase1At
      simp only []
      rw [h'.1.1, hk, h'.2]
      rfl
    · apply phase1At_inline h'.1.1 _ (spec_grammarAt_leaf K u h hk)
      rcases hk with hk | hk | hk | hk | hk <;> rw [hk] <;> decide
  · rw [h'.2]; intro v hv; cases hv

theorem allP1_leaves (K : List Nat) (ts : List Tree) (h : ts.all (inl K) = true)
    (hK : ∀ k ∈ K, k = IK.unparsed ∨ k = IK.text ∨ k = IK.softBreak ∨ k = IK.indent ∨ k = IK.charRef ∨ k = IK.rawHTML) :
    ∀ u ∈ ts, AllP1 u := by
  rw [List.all_eq_true] at h
  exact fun u hu => allP1_leaf K u (h u hu) hK

theorem allP1_info (u : Tree) (h : infoOK u = true) : AllP1 u := by
  have h' := h
  unfold infoOK at h'
  simp only [Bool.and_eq_true, Bool.not_eq_true', beq_iff_eq] at h'
  apply allP1_of_parts u (phase1At_inline h'.1.1 (by rw [h'.1.2]; decide) (spec_grammarAt_info u h).1)
  exact allP1_leaves _ _ h'.2 (by intro k hk; simp at hk; rcases hk with rfl | rfl <;> decide)

theorem allP1_label (u : Tree) (h : labelOK u = true) : AllP1 u := by
  have h' := h
  unfold labelOK isInl at h'
  simp only [Bool.and_eq_true, Bool.not_eq_true', beq_iff_eq] at h'
  apply allP1_of_parts u (phase1At_inline h'.1.1 (by rw [h'.1.2]; decide) (spec_grammarAt_label u h).1)
  exact allP1_leaves _ _ h'.2 (by intro k hk; simp at hk; rcases hk with rfl | rfl <;> decide)

theorem allP1_dest (k : Nat) (hk : k = IK.linkDest ∨ k = IK.linkTitle) (u : Tree) (h : destOK k u = true) : AllP1 u := by
  have h' := h
  unfold destOK isInl at h'
  simp only [Bool.and_eq_true, Bool.not_eq_true', beq_iff_eq] at h'
  apply allP1_of_parts u (phase1At_inline h'.1.1 (by rw [h'.1.2]; rcases hk with rfl | rfl <;> decide) (spec_grammarAt_dest k hk u h).1)
  exact allP1_leaves _ _ h'.2 (by intro k hk; simp at hk; rcases hk with rfl | rfl | rfl <;> decide)

/-- The inline children of a block that satisfies the local rule. -/
theorem inlines_allP1 {l : PLabel} {bs : List PB} {is : List Tree} (h : localOK l bs is = true) : ∀ u ∈ is, AllP1 u := by
  have hi := ((localOK_iff l bs is).1 h).2
  rcases inlinesOK_cases hi with ⟨_, h0⟩ | ⟨_, hp⟩ | ⟨_, hc⟩ | ⟨_, hf⟩ | ⟨_, hh⟩ | ⟨_, hr⟩
  · subst h0; intro u hu; cases hu
  · exact allP1_leaves _ _ hp (by intro k hk; simp [paraKinds] at hk; rcases hk with rfl | rfl <;> decide)
  · exact allP1_leaves _ _ hc (by intro k hk; simp [codeKinds] at hk; rcases hk with rfl | rfl | rfl <;> decide)
  · cases is with
    | nil => intro u hu; cases hu
    | cons c rest =>
      simp only [fencedKids, Bool.and_eq_true, Bool.or_eq_true] at hf
      have hrest := allP1_leaves _ _ hf.2 (by intro k hk; simp [codeKinds] at hk; rcases hk with rfl | rfl | rfl <;> decide)
      intro u hu
      rcases List.mem_cons.1 hu with rfl | hu
      · rcases hf.1 with hinfo | hcode
        · exact allP1_info _ hinfo
        · exact allP1_leaf _ _ hcode (by intro k hk; simp [codeKinds] at hk; rcases hk with rfl | rfl | rfl <;> decide)
      · exact hrest u hu
  · exact allP1_leaves _ _ hh (by intro k hk; simp [htmlKinds] at hk; rcases hk with rfl | rfl <;> decide)
  · match is, hr with
    | [a, b], hr =>
      simp only [refDefKids, Bool.and_eq_true] at hr
      intro u hu
      simp only [List.mem_cons, List.mem_nil_iff, or_false] at hu
      rcases hu with rfl | rfl
      · exact allP1_label _ hr.1
      · exact allP1_dest _ (Or.inl rfl) _ hr.2
    | [a, b, c], hr =>
      simp only [refDefKids, Bool.and_eq_true] at hr
      intro u hu
      simp only [List.mem_cons, List.mem_nil_iff, or_false] at hu
      rcases hu with rfl | rfl | rfl
      · exact allP1_label _ hr.1.1
      · exact allP1_dest _ (Or.inl rfl) _ hr.1.2
      · exact allP1_dest _ (Or.inr rfl) _ hr.2

/-- Paragraphs and headings have no block children. -/
theorem para_no_blocks {l : PLabel} {bs : List PB} {is : List Tree} (h : localOK l bs is = true)
    (hk : l.kind = BK.paragraph ∨ l.kind = BK.atxHeading ∨ l.kind = BK.setextHeading) : bs = [] := by
  have hb := ((localOK_iff l bs is).1 h).1
  unfold blocksOK at hb
  rcases hk with hk | hk | hk <;> rw [hk] at hb <;>
    simpa [BK.paragraph, BK.atxHeading, BK.setextHeading, BK.document, BK.blockQuote, BK.listItem, BK.list] using hb

/-- The block itself (not the document block). -/
theorem block_phase1 (b : PB) (hG : PBGrammar b) (hL : PBLoose b) (hd : b.kind ≠ BK.document) : phase1At (pbToTree b) = true := by
  obtain ⟨l, bs, is⟩ := b
  have hd' : l.kind ≠ BK.document := hd
  have hloc := ((PBGrammar_mk l bs is).1 hG).1
  have hi := ((localOK_iff l bs is).1 hloc).2
  have hlab : (pbToTree (.mk l bs is)).label.isBlock = true ∧ (pbToTree (.mk l bs is)).label.kind = l.kind ∧
      (pbToTree (.mk l bs is)).label.n = l.n := ⟨rfl, rfl, rfl⟩
  have other : l.kind ≠ BK.paragraph → l.kind ≠ BK.atxHeading → l.kind ≠ BK.setextHeading →
      Spec.grammarAt (pbToTree (.mk l bs is)) = true → phase1At (pbToTree (.mk l bs is)) = true := by
    intro h1 h2 h3 hg
    rw [phase1At_eq_grammarAt _ (by rw [hlab.1, hlab.2.1]; exact ⟨h1, h2, h3⟩)]
    exact hg
  have sp := spec_grammarAt_of_PBGrammar (.mk l bs is) hG
  have para : (l.kind = BK.paragraph ∨ l.kind = BK.atxHeading ∨ l.kind = BK.setextHeading) →
      (pbToTree (.mk l bs is)).children.all (Spec.inlineOf [IK.unparsed, IK.indent]) = true := by
    intro hk
    have hbs := para_no_blocks hloc hk
    subst hbs
    rw [pbToTree_children]
    simp only [List.isEmpty_nil, if_true]
    rw [List.all_eq_true]
    exact fun t ht => inlineOf_of_inl _ t ((grammar_leaf_inlines hloc).1 hk t ht)
  have hat := grammar_attrs hloc
  rcases inlinesOK_cases hi with ⟨hk, _⟩ | ⟨hk, _⟩ | ⟨hk, _⟩ | ⟨hk, _⟩ | ⟨hk, _⟩ | ⟨hk, _⟩
  · rcases hk with hk | hk | hk | hk | hk | hk
    · exact absurd hk hd'
    · exact other (by rw [hk]; decide) (by rw [hk]; decide) (by rw [hk]; decide) (sp (Or.inr (Or.inl hk)))
    · exact other (by rw [hk]; decide) (by rw [hk]; decide) (by rw [hk]; decide) (sp (Or.inr (Or.inr (Or.inl hk))))
    · exact other (by rw [hk]; decide) (by rw [hk]; decide) (by rw [hk]; decide) (spec_grammarAt_list _ hG hL hk)
    · exact other (by rw [hk]; decide) (by rw [hk]; decide) (by rw [hk]; decide) (sp (Or.inr (Or.inr (Or.inr (Or.inl hk)))))
    · exact other (by rw [hk]; decide) (by rw [hk]; decide) (by rw [hk]; decide) (sp (Or.inl hk))
  · have hp := para hk
    unfold phase1At
    simp only []
    rw [hlab.1, hlab.2.1, hlab.2.2]
    rcases hk with hk | hk | hk
    · rw [hk]; simpa [BK.paragraph] using hp
    · have := hat.1 hk
      rw [hk]
      simp only [BK.paragraph, BK.atxHeading, Nat.reduceBEq, Bool.false_eq_true, if_false, if_true, Bool.and_eq_true,
        decide_eq_true_eq]
      exact ⟨⟨hp, this.1⟩, this.2⟩
    · have := hat.2.1 hk
      rw [hk]
      simp only [BK.paragraph, BK.atxHeading, BK.setextHeading, Nat.reduceBEq, Bool.false_eq_true, if_false, if_true,
        Bool.and_eq_true, decide_eq_true_eq]
      exact ⟨⟨hp, this.1⟩, this.2⟩
  · exact other (by rw [hk]; decide) (by rw [hk]; decide) (by rw [hk]; decide)
      (sp (Or.inr (Or.inr (Or.inr (Or.inr (Or.inl hk))))))
  · exact other (by rw [hk]; decide) (by rw [hk]; decide) (by rw [hk]; decide)
      (sp (Or.inr (Or.inr (Or.inr (Or.inr (Or.inr (Or.inl hk)))))))
  · exact other (by rw [hk]; decide) (by rw [hk]; decide) (by rw [hk]; decide)
      (sp (Or.inr (Or.inr (Or.inr (Or.inr (Or.inr (Or.inr (Or.inl hk))))))))
  · exact other (by rw [hk]; decide) (by rw [hk]; decide) (by rw [hk]; decide)
      (sp (Or.inr (Or.inr (Or.inr (Or.inr (Or.inr (Or.inr (Or.inr hk))))))))

/-- No block child is a document block. -/
theorem child_ne_document {l : PLabel} {bs : List PB} {is : List Tree} (h : localOK l bs is = true) :
    ∀ c ∈ bs, c.kind ≠ BK.document := by
  intro c hc hk
  have hb := ((localOK_iff l bs is).1 h).1
  have hcck : cck c.kind = true → False := by rw [hk]; decide
  unfold blocksOK at hb
  split at hb
  · rw [List.all_eq_true] at hb
    exact hcck (hb c hc)
  · split at hb
    · simp only [Bool.and_eq_true] at hb
      cases bs with
      | nil => cases hc
      | cons m rest =>
        simp only [itemKids, Bool.and_eq_true, beq_iff_eq, List.all_eq_true] at hb
        rcases List.mem_cons.1 hc with rfl | hc
        · rw [hk] at hb; exact absurd hb.2.1 (by decide)
        · exact hcck (hb.2.2 c hc)
    · split at hb
      · simp only [Bool.and_eq_true, List.all_eq_true, beq_iff_eq] at hb
        have := (hb.2 c hc).1
        rw [hk] at this; exact absurd this (by decide)
      · have : bs = [] := by simpa using hb
        subst this; cases hc

/-- **`phase1At` holds at every node of the exported tree.** -/
theorem phase1_nodes : ∀ b : PB, PBGrammar b → PBLoose b → b.kind ≠ BK.document → AllP1 (pbToTree b) := by
  apply PB.ind
  intro l bs is ih hG hL hd
  have hloc := ((PBGrammar_mk l bs is).1 hG)
  have hlo := ((PBLoose_mk l bs is).1 hL)
  apply allP1_of_parts _ (block_phase1 _ hG hL hd)
  rw [pbToTree_children]
  split
  · exact inlines_allP1 hloc.1
  · intro v hv
    rw [List.mem_map] at hv
    obtain ⟨c, hc, rfl⟩ := hv
    exact ih c hc (hloc.2 c hc) (hlo.2 c hc) (child_ne_document hloc.1 c hc)

theorem cck_ne_document {k : Nat} (h : cck k = true) : k ≠ BK.document := by
  intro hk; subst hk; revert h; decide

end GL

/-- **Summary (block phase, `Parse`)**: every delivered root is container content and `Spec.grammarAt`, restricted to
    what can hold before inline rewriting, holds at every node of the exported tree — in particular the full
    `Spec.grammarAt` at every list (looseness included). -/
theorem drain_phase1_mem (x : PExt) (fuel : Nat) (source : Bytes) :
    ∀ r ∈ (drain (blocksLP x) fuel (memParser source) []).1,
      Spec.rootKindOK (pbToTree r.block) = true ∧ (Spec.T.nodes (pbToTree r.block)).all phase1At = true := by
  intro r hr
  obtain ⟨hG, hk, hL⟩ := drain_loose_mem x fuel source r hr
  refine ⟨rootKindOK_pbToTree _ hk, ?_⟩
  rw [List.all_eq_true]
  exact phase1_nodes r.block hG hL (cck_ne_document hk)

/-- … and the streaming parser (input below the block-size limit, any read schedule, any final reader error). -/
theorem drain_phase1_stream (x : PExt) (inp : Bytes) (sched : List Nat) (eofWith : Bool) (fin : RErr) (hsmall : Small inp)
    (fuel : Nat) :
    ∀ r ∈ (drain (blocksLP x) fuel (newBlockParser { data := inp, sched := sched, eofWith := eofWith, fin := fin }) []).1,
      Spec.rootKindOK (pbToTree r.block) = true ∧ (Spec.T.nodes (pbToTree r.block)).all phase1At = true := by
  rw [C08_blocks_roots x inp sched eofWith fin hsmall fuel]
  exact drain_phase1_mem x fuel inp

/-- The clause of the task statement: at every BLOCK node. -/
theorem drain_blocks_grammarAt (x : PExt) (fuel : Nat) (source : Bytes) :
    ∀ r ∈ (drain (blocksLP x) fuel (memParser source) []).1,
      (Spec.T.nodes (pbToTree r.block)).all (fun t => !t.label.isBlock || phase1At t) = true := by
  intro r hr
  have := (drain_phase1_mem x fuel source r hr).2
  rw [List.all_eq_true] at this ⊢
  intro t ht
  rw [this t ht]; simp

/-- Every list node of every delivered tree: the full `Spec.grammarAt`. -/
theorem drain_lists_grammarAt (x : PExt) (fuel : Nat) (source : Bytes) :
    ∀ r ∈ (drain (blocksLP x) fuel (memParser source) []).1, ∀ t ∈ Spec.T.nodes (pbToTree r.block),
      t.label.isBlock = true → t.label.kind = BK.list → Spec.grammarAt t = true := by
  intro r hr t ht hb hk
  have := (drain_phase1_mem x fuel source r hr).2
  rw [List.all_eq_true] at this
  rw [← phase1At_eq_grammarAt t (by rw [hb, hk]; decide)]
  exact this t ht

section Examples
-- non-vacuity: a document with a loose nested list, a heading, a definition and a fenced code block
example : ((bgRoots "- a\n  - b\n\n  - c\n# h\n```go\nz\n```\n").map
    (fun r => (Spec.T.nodes (pbToTree r.block)).length)) = [14, 2, 4] := by decide +kernel
example : ((bgRoots "- a\n  - b\n\n  - c\n# h\n```go\nz\n```\n").all
    (fun r => (Spec.T.nodes (pbToTree r.block)).all phase1At)) = true := by decide +kernel
-- `phase1At` rejects a loose list with a tight item, an Unparsed run with a child, a paragraph holding Text
example : phase1At (.node { isBlock := true, kind := BK.list, char := 0x2D, loose := true }
    [.node { isBlock := true, kind := BK.listItem, char := 0x2D } [.node { isBlock := true, kind := BK.listMarker } []]]) = false := by
  decide +kernel
example : phase1At (.node { isBlock := false, kind := IK.unparsed } [.node { isBlock := false, kind := IK.text } []]) = false := by
  decide +kernel
example : phase1At (.node { isBlock := true, kind := BK.paragraph } [.node { isBlock := false, kind := IK.text } []]) = false := by
  decide +kernel
end Examples

end CM.Proofs
