import CM.Proofs.BlocksSpansFrame
/-
C02, block half — the setext heading: the container paragraph is relabelled and closed at the end of the line;
`onCloseParagraph` may leave an open orphan paragraph behind (the underline), as the last child of the open parent.
-/
namespace CM.Proofs.BSp
open CM CM.Model CM.Gen CM.Proofs.BT

/-- What the paragraph predicate `Q` has to promise for turning the paragraph into a setext heading closed at `E`. -/
def SetextOK (Q : ParaPred) (x : PExt) (src : Bytes) (E : Int) : Prop :=
  ∀ l is (n : Int), Q l is = true → l.stop < 0 → l.kind = BK.paragraph → (n = 1 ∨ n = 2) →
    PBSpansL QT true l.start E (onCloseParagraph x src (.mk { l with kind := BK.setextHeading, n := n, stop := E } [] is))

theorem setext_root {Q : ParaPred} {x : PExt} {src : Bytes} {E C : Int} (root : PB) (d : Nat) (n : Int) (hn : n = 1 ∨ n = 2)
    (hbase : PBSpans Q 0 C root) (hCE : C ≤ E) (hopen : SpineOpen root (d + 1)) (P : PB) (hP : spineGet root (d + 1) = some P)
    (hkP : P.kind = BK.paragraph) (hS : SetextOK Q x src E) :
    PBSpans QT 0 E (spineReplaceLast (closeBlock x src E)
      (spineModify (PB.setLabel fun l => { l with kind := BK.setextHeading, n := n }) root (d + 1)) d) ∧
    SpineOpen (spineReplaceLast (closeBlock x src E)
      (spineModify (PB.setLabel fun l => { l with kind := BK.setextHeading, n := n }) root (d + 1)) d) d := by
  rw [spineReplaceLast_eq, spineModify_comp]
  have hFl : ∀ b : PB, ((fun b => replaceLastFn (closeBlock x src E)
      (spineModify (PB.setLabel fun l => { l with kind := BK.setextHeading, n := n }) b 1)) b).label = b.label := by
    intro b
    show (replaceLastFn _ _).label = _
    rw [replaceLastFn_label, spineModify_label_pos _ _ (by omega)]
  refine ⟨?_, ?_⟩
  · apply spineModify_spans _ d root 0 (PBSpans_mono' (Int.le_refl _) hCE (PBSpans_toQT hbase))
      (fun j hj => hopen j (by omega))
    intro b lo' hb _ hsp
    have hbo := hopen.open_of_get (by omega) hb
    have hPo := hopen.open_of_get (Nat.le_refl _) hP
    obtain ⟨loP, _, hPs⟩ := spineGet_spans (d + 1) root 0 P hbase hP
    obtain ⟨l, bs, is⟩ := b
    simp only [PB.label] at hbo
    have hgl : bs.getLast? = some P := by
      have := spineGet_succ_eq root d
      rw [hP, hb] at this
      simpa [PB.blocks] using this.symm
    obtain ⟨lP, bsP, isP⟩ := P
    simp only [PB.label] at hPo
    simp only [PB.kind, PB.label] at hkP
    rw [PBSpans_mk] at hPs
    have hbsP : bsP = [] := by
      rcases hPs.2.2.2.2.2.1 with h6 | h6
      · rw [hkP] at h6; simp [isContainerKind, BK.paragraph, BK.document, BK.list, BK.listItem, BK.blockQuote] at h6
      · exact h6
    subst hbsP
    have hQ : Q lP isP = true := (hPs.2.2.2.2.2.2 hPo).2 hkP
    have hres := hS lP isP n hQ hPo hkP hn
    -- compute the new block
    have hnew : replaceLastFn (closeBlock x src E)
        (spineModify (PB.setLabel fun l => { l with kind := BK.setextHeading, n := n }) (PB.mk l bs is) 1)
        = PB.mk l (bs.dropLast ++ onCloseParagraph x src (.mk { lP with kind := BK.setextHeading, n := n, stop := E } [] isP)) is := by
      rw [spineModify_succ, hgl]
      simp only [spineModify_zero, replaceLastFn, List.getLast?_append, List.getLast?_singleton, Option.some_or,
        List.dropLast_concat, PB.setLabel]
      rw [closeBlock_setext x src E { lP with kind := BK.setextHeading, n := n } [] isP hPo rfl]
    show PBSpans QT lo' E (replaceLastFn _ _)
    rw [hnew]
    rw [PBSpans_mk, endOf_open hbo] at hsp ⊢
    obtain ⟨a1, a2, a3, a4, a5, a6, a7⟩ := hsp
    obtain ⟨e, hinit, hc, hpo, hge⟩ := getLast_split hgl a5
    have hstart := PBSpans_start_ge hc
    simp only [PB.label] at hstart
    refine ⟨a1, a2, a3, a4, ?_, ⟨?_, a7⟩⟩
    · have : decide (l.stop < 0) = true := by simp [hbo]
      rw [this]
      exact PBSpansL_append_closed hinit (PBSpansL_mono' hstart (Int.le_refl _) hres)
    · rcases a6 with a6 | a6
      · exact Or.inl a6
      · rw [a6] at hgl; cases hgl
  · intro j hj
    obtain ⟨l, hl, ho⟩ := hopen j (by omega)
    refine ⟨l, ?_, ho⟩
    rw [labelAt_modify_le _ hFl _ _ _ hj]
    exact hl

/-- `startSetext`'s effect on the tree: relabel the container paragraph, consume the line, `endBlock`. -/
theorem setext_close {Q : ParaPred} {x : PExt} (p p5 : LP) (n : Int) (hn : n = 1 ∨ n = 2) (hinv : Inv p) (hmi : MI Q p)
    (hk : p.containerKind = BK.paragraph) (hS : SetextOK Q x p.source (lineEnd p))
    (ht : BT.tree p5 = BT.tree (p.modifyContainer (PB.setLabel fun l => { l with kind := BK.setextHeading, n := n })))
    (hl : p5.line = p.line) (hi : p5.i = p.line.length) (hst : p5.state ≤ 2) :
    MI QT (p5.endBlock x) := by
  have hd : p.depth ≠ 0 := by
    intro h0
    rw [containerKind_zero p h0, hinv.tree.root] at hk
    cases hk
  simp only [BT.tree, Prod.mk.injEq] at ht
  obtain ⟨hsrc, hroot, hdep, hls⟩ := ht
  have hsrc' : p5.source = p.source := hsrc
  have hdep' : p5.depth = p.depth := hdep
  have hls' : p5.lineStart = p.lineStart := hls
  have hroot' : p5.root = spineModify (PB.setLabel fun l => { l with kind := BK.setextHeading, n := n }) p.root p.depth := hroot
  have hcp : curPos p5 = lineEnd p := by simp only [curPos, lineEnd, hls', hi]
  obtain ⟨P, hPg, hPo, hPc⟩ := hmi.container_open
  have hkP : P.kind = BK.paragraph := by rw [← kind_of_container hPg]; exact hk
  rw [endBlock_eq x p5 hst, closeContainer_eq x _ _ (by show p5.depth ≠ 0; rw [hdep']; exact hd)]
  have hd1 : p.depth = (p.depth - 1) + 1 := by omega
  have key := setext_root (x := x) (src := p.source) (E := lineEnd p) p.root (p.depth - 1) n hn hmi.base
    (curPos_le_lineEnd hmi.ile) (by rw [← hd1]; exact hmi.sopen) P (by rw [← hd1]; exact hPg) hkP hS
  rw [← hd1] at key
  refine ⟨?_, ?_, ?_⟩
  · show PBSpans QT 0 (curPos p5) (spineReplaceLast (closeBlock x p5.source (curPos p5)) p5.root (p5.depth - 1))
    rw [hcp, hsrc', hroot', hdep']
    exact key.1
  · show SpineOpen (spineReplaceLast (closeBlock x p5.source (curPos p5)) p5.root (p5.depth - 1)) (p5.depth - 1)
    rw [hcp, hsrc', hroot', hdep']
    exact key.2
  · show p5.i ≤ p5.line.length
    rw [hi, hl]; exact Nat.le_refl _

end CM.Proofs.BSp
