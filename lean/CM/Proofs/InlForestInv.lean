import CM.Proofs.InlForest
import CM.Proofs.InlInv
/-
The structural invariant `S` (acyclic arena with valid child indices, `parentMap` names existing nodes) through the
inline phase, part 2: the primitives and the tree surgery.  (A second chain of specifications over the same functions: it imports the first one
(`InlInv*.lean`, for `G φ`) and registers its specifications with `@[spec high]`, so that `mvcgen` prefers them here.
Two INDEPENDENT chains cannot be imported into one file: `mvcgen` generates the matcher congruence lemmas of the model
functions — `CM.Model.Inl.wrap.match_3.congr_eq_1…` — in whichever module first needs them, and the copies clash.)
-/
namespace CM.Proofs.InlH
open CM CM.Model CM.Model.Inl
open Std.Do

set_option mvcgen.warning false

/-- The structural invariant on the two components of the state it speaks about. -/
structure SA (a : Array INode) (pm : Array (Option Nat)) : Prop where
  acyc : Acyc a
  pos : 0 < a.size
  pm : PMOK pm a.size

/-- The structural invariant of the inline phase. -/
abbrev S (s : IState) : Prop := SA s.nodes s.parentMap

/-- Normalise a goal `S s'` about a symbolically executed state to `SA nodes parentMap`. -/
macro "inl_stateS" : tactic =>
  `(tactic| (simp -failIfUnchanged +zetaDelta only []; try refine ⟨trivial, ?_⟩
             show SA _ _; try dsimp only))

/-- closes the verification conditions that need no thought -/
macro "inl_trivS" : tactic =>
  `(tactic| all_goals (try (first
      | assumption
      | exact ExceptConds.entails.refl _
      | (intros
         inl_subst
         first
          | assumption
          | contradiction
          | exact (And.left ‹S _ ∧ _›)
          | exact ⟨trivial, ‹S _›⟩
          | exact ⟨trivial, And.left ‹S _ ∧ _›⟩
          | (inl_stateS; assumption)))))

theorem SA.push {a : Array INode} {pm : Array (Option Nat)} {n : INode} (h : SA a pm) (hn : n.kids = #[]) :
    SA (a.push n) (pm.push none) :=
  ⟨h.acyc.push hn, by simp, (h.pm.mono (by simp)).push_none⟩

theorem SA.push_edge {a : Array INode} {pm : Array (Option Nat)} {n : INode} {p : Nat} (h : SA a pm) (hn : n.kids = #[])
    (hp : p < a.size) :
    SA ((a.push n).modify p (fun m => { m with kids := m.kids.push a.size })) (pm.push none) :=
  ⟨h.acyc.push_edge hn hp, by simp, by simpa using (h.pm.mono (Nat.le_succ _)).push_none⟩

theorem SA.modify_same {a : Array INode} {pm : Array (Option Nat)} {i : Nat} {g : INode → INode} (h : SA a pm)
    (hg : ∀ m, (g m).kids = m.kids) : SA (a.modify i g) pm :=
  ⟨h.acyc.modify_same hg, by simpa using h.pos, by simpa using h.pm⟩

theorem SA.modify_sub {a : Array INode} {pm : Array (Option Nat)} {i : Nat} {g : INode → INode} (h : SA a pm)
    (hg : ∀ m, ∀ k ∈ (g m).kids, k ∈ m.kids) : SA (a.modify i g) pm :=
  ⟨h.acyc.modify_sub hg, by simpa using h.pos, by simpa using h.pm⟩

theorem SA.setParent {a : Array INode} {pm : Array (Option Nat)} (h : SA a pm) (j : Nat) (v : Option Nat)
    (hv : ∀ p, v = some p → p < a.size) : SA a (pm.set! j v) :=
  ⟨h.acyc, h.pos, h.pm.set! j v hv⟩

/-- The state between `alloc` and `addToRoot id`: the last node is a fresh leaf with index `id`. -/
def Pend (s : IState) (id : Nat) : Prop :=
  ∃ (a : Array INode) (n : INode) (pm : Array (Option Nat)),
    s.nodes = a.push n ∧ s.parentMap = pm.push none ∧ n.kids = #[] ∧ id = a.size ∧ SA a pm

theorem Pend.mk {a : Array INode} {pm : Array (Option Nat)} (h : SA a pm) (n : INode) (hn : n.kids = #[])
    (up : Nat) (st : Array DelimE) (ig : Bool) :
    Pend { nodes := a.push n, parentMap := pm.push none, unparsedPos := up, stack := st, ignoreNextIndent := ig } a.size :=
  ⟨a, n, pm, rfl, rfl, hn, rfl, h⟩

@[spec high]
theorem addToRoot_specS (id : Nat) :
    ⦃fun s => ⌜Pend s id⌝⦄ addToRoot id ⦃⇓? _ s => ⌜S s⌝⦄ := by
  mvcgen [addToRoot, nodeLen, getNode, setParent, modifyNode, -addToRoot_spec]
  · obtain ⟨a, n, pm, hn, hpm, hk, rfl, h⟩ := ‹Pend _ _›
    show SA _ _
    rw [hn, hpm]
    exact h.push hk
  · obtain ⟨a, n, pm, hn, hpm, hk, rfl, h⟩ := ‹Pend _ _›
    inl_stateS
    rw [hn, hpm]
    exact (h.push_edge hk h.pos).setParent _ _ (fun p hp => by cases hp; simp)

@[spec high]
theorem addLeaf_specS (kind : Nat) (a b : Int) :
    ⦃fun s => ⌜S s⌝⦄ addLeaf kind a b ⦃⇓? _ s => ⌜S s⌝⦄ := by
  mvcgen [addLeaf, alloc, -addLeaf_spec]
  inl_trivS
  exact Pend.mk ‹S _› _ rfl _ _ _

@[spec high]
theorem importNode_specS (t : Tree) :
    ⦃fun s => ⌜S s⌝⦄ importNode t ⦃⇓? _ s => ⌜S s⌝⦄ := by
  mvcgen [importNode, alloc, modifyNode, -importNode_spec]
  inl_stateS
  exact SA.push_edge ‹S _› rfl (‹S _›).pos

@[spec high]
theorem removeNode_specS (id : Nat) :
    ⦃fun s => ⌜S s⌝⦄ removeNode id ⦃⇓? _ s => ⌜S s⌝⦄ := by
  mvcgen [removeNode, setParent, modifyNode, -removeNode_spec]
  inl_trivS
  inl_stateS
  refine (SA.modify_sub ‹S _› ?_).setParent _ _ (fun p hp => by cases hp)
  intro m k hk
  exact (Array.mem_filter.1 hk).1

/-- `appendFinished`, with the size frame -/
@[spec high]
theorem appendFinished_specS (parent : Nat) (n : INode) (hn : n.kids = #[]) (s0 : IState) :
    ⦃fun s => ⌜s = s0 ∧ S s ∧ parent < s.nodes.size⌝⦄ appendFinished parent n
    ⦃⇓? _ s => ⌜S s ∧ s0.nodes.size ≤ s.nodes.size⌝⦄ := by
  mvcgen [appendFinished, alloc, modifyNode]
  obtain ⟨rfl, h, hp⟩ := ‹_ = s0 ∧ S _ ∧ _›
  refine ⟨?_, ?_⟩
  · inl_stateS
    exact SA.push_edge h hn hp
  · simp -failIfUnchanged +zetaDelta only []
    simp

/-- `wrap`: the result is an existing node; with the size frame -/
@[spec high]
theorem wrap_specS (kind sn : Nat) (en : Option Nat) (s0 : IState) :
    ⦃fun s => ⌜s = s0 ∧ S s⌝⦄ wrap kind sn en
    ⦃⇓? r s => ⌜S s ∧ r < s.nodes.size ∧ s0.nodes.size ≤ s.nodes.size⌝⦄ := by
  mvcgen [wrap, alloc, setParent, modifyNode, -wrap_spec]
  -- the two index searches do not touch the state: the arena is still `s0.nodes.push n`
  all_goals (try (exact (PostCond.mayThrow (fun (_ : _ × Nat) s =>
    ⌜∃ n, s.nodes = s0.nodes.push n ∧ PMOK s.parentMap s.nodes.size⌝))))
  -- re-parenting the wrapped children
  all_goals (try (exact (PostCond.mayThrow (fun (_ : _ × PUnit) s =>
    ⌜S s ∧ s.nodes.size = s0.nodes.size + 1⌝))))
  inl_norm
  inl_trivS
  · -- after `alloc` and `setParent`
    obtain ⟨rfl, h⟩ := ‹_ = s0 ∧ S _›
    have hp := h.pm _ _ ‹_ = some _›
    simp -failIfUnchanged +zetaDelta only []
    refine ⟨_, rfl, ?_⟩
    simp only [Array.size_push]
    exact ((h.pm.mono (Nat.le_succ _)).push_none).set! _ _ (fun p hp' => by cases hp'; omega)
  · -- re-parenting one child
    obtain ⟨rfl, _⟩ := ‹_ = s0 ∧ S _›
    obtain ⟨h, hsz⟩ := ‹S _ ∧ _ = _ + 1›
    refine ⟨?_, by simp -failIfUnchanged +zetaDelta only []; exact hsz⟩
    inl_stateS
    exact h.setParent _ _ (fun p hp' => by cases hp'; omega)
  · -- the two children lists are rewritten
    obtain ⟨rfl, h⟩ := ‹_ = s0 ∧ S _›
    have hp := h.pm _ _ ‹_ = some _›
    obtain ⟨n, hn, hpm⟩ := ‹∃ n, _ = Array.push _ n ∧ _›
    simp -failIfUnchanged +zetaDelta only []
    rw [hn]
    refine ⟨⟨?_, by simp, ?_⟩, by simp⟩
    · exact Acyc.wrap h.acyc hp _ rfl _ _
    · rw [hn] at hpm; simpa using hpm
  · obtain ⟨rfl, _⟩ := ‹_ = s0 ∧ S _›
    obtain ⟨h, hsz⟩ := ‹S _ ∧ _ = _ + 1›
    exact ⟨h, by omega, by omega⟩

end CM.Proofs.InlH
