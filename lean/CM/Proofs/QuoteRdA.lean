import CM.Proofs.QuoteClose
import CM.Proofs.RefDefSpansRd4
/-
C09, `onCloseParagraph` with `[` (1): the two paragraphs seen by the link-reference-definition scanner.

`NR E t t'` — corresponding inline children of the two paragraphs (both are Unparsed nodes of the same length with the
same bytes, no NUL, and every position inside the one corresponds (`E.PR`) to the position at the same offset inside
the other).  `PC E is is'` — the pair of child lists: both are sorted lists of lines (`RDS.Ctx`), every node ends with a
line feed unless it ends at the end of the source.  Positions are compared through *coordinates* `(k, o)` (node index,
offset inside the node) and the stream offset `pre is k + o`, which is the same on both sides.
-/
namespace CM.Proofs.Quote
open CM CM.Model CM.Gen

/-! ### lists related element by element: access by index -/

theorem L2.getElem? {α β : Type} {R : α → β → Prop} {as : List α} {bs : List β} (h : L2 R as bs) {k : Nat} {a : α}
    (ha : as[k]? = some a) : ∃ b, bs[k]? = some b ∧ R a b := by
  induction h generalizing k with
  | nil => simp at ha
  | cons r _ ih =>
    cases k with
    | zero => simp only [List.getElem?_cons_zero, Option.some.injEq] at ha; subst ha; exact ⟨_, rfl, r⟩
    | succ k => simp only [List.getElem?_cons_succ] at ha ⊢; exact ih ha

theorem L2.getElem?_none {α β : Type} {R : α → β → Prop} {as : List α} {bs : List β} (h : L2 R as bs) {k : Nat}
    (ha : as[k]? = none) : bs[k]? = none := by
  rw [List.getElem?_eq_none_iff] at ha ⊢
  rw [← h.length_eq]; exact ha

theorem L2.symm_get {α β : Type} {R : α → β → Prop} {as : List α} {bs : List β} (h : L2 R as bs) {k : Nat} {b : β}
    (hb : bs[k]? = some b) : ∃ a, as[k]? = some a ∧ R a b := by
  cases ha : as[k]? with
  | none => rw [h.getElem?_none ha] at hb; cases hb
  | some a =>
    obtain ⟨b', e, r⟩ := h.getElem? ha
    rw [hb] at e; cases e
    exact ⟨a, rfl, r⟩

/-! ### the node relation -/

/-- Corresponding inline children of the two paragraphs. -/
structure NR (E : Env) (t t' : Tree) : Prop where
  unp : isUnparsed t = true
  unp' : isUnparsed t' = true
  len : t'.label.stop - t'.label.start = t.label.stop - t.label.start
  bytes : ∀ o : Nat, (o : Int) < t.label.stop - t.label.start →
    E.src'.getD (t'.label.start.toNat + o) 0 = E.src.getD (t.label.start.toNat + o) 0
  nz : ∀ o : Nat, (o : Int) < t.label.stop - t.label.start → E.src.getD (t.label.start.toNat + o) 0 ≠ 0
  pr : ∀ o : Nat, (o : Int) ≤ t.label.stop - t.label.start → E.PR (t.label.start + o) (t'.label.start + o)

theorem unp_not_indent {t : Tree} (h : isUnparsed t = true) : isIndent t = false := by
  unfold isUnparsed Node.isI at h
  unfold isIndent Node.isI
  simp only [Bool.and_eq_true, Bool.not_eq_true', beq_iff_eq] at h
  rw [h.1, h.2]; decide

theorem unp_textNode {t : Tree} (h : isUnparsed t = true) (rest : List Tree) :
    nextTextNode (t :: rest) = some (t, t :: rest) := by
  unfold isUnparsed at h
  simp only [nextTextNode, h, Bool.true_or, if_true]

/-- A node ends with a line feed or at the end of the source. -/
def EndLF (src : Bytes) (t : Tree) : Prop :=
  src.getD (t.label.stop.toNat - 1) 0 = LF ∨ (src.length : Int) ≤ t.label.stop

/-- The two lists of inline children. -/
structure PC (E : Env) (is is' : List Tree) : Prop where
  c : RDS.Ctx E.src is
  c' : RDS.Ctx E.src' is'
  rel : L2 (NR E) is is'
  eol : ∀ t ∈ is, EndLF E.src t
  eol' : ∀ t ∈ is', EndLF E.src' t

variable {E : Env} {is is' : List Tree}

theorem PC.drop (h : PC E is is') (k : Nat) : PC E (is.drop k) (is'.drop k) :=
  ⟨h.c.drop k, h.c'.drop k, h.rel.drop k, fun t ht => h.eol t (List.mem_of_mem_drop ht),
    fun t ht => h.eol' t (List.mem_of_mem_drop ht)⟩

/-! ### lengths and stream offsets -/

def tlen (t : Tree) : Nat := (t.label.stop - t.label.start).toNat

/-- Stream offset of the start of node `k`. -/
def pre (is : List Tree) (k : Nat) : Nat := ((is.take k).map tlen).sum

theorem pre_zero (is : List Tree) : pre is 0 = 0 := by simp [pre]

theorem pre_succ {is : List Tree} {k : Nat} {t : Tree} (h : is[k]? = some t) : pre is (k + 1) = pre is k + tlen t := by
  unfold pre
  have hk : k < is.length := (List.getElem?_eq_some_iff.mp h).1
  have ht : is[k] = t := (List.getElem?_eq_some_iff.mp h).2
  rw [List.take_add_one, h]
  simp [List.map_append, List.sum_append]

theorem pre_mono (is : List Tree) {k k2 : Nat} (h : k ≤ k2) : pre is k ≤ pre is k2 := by
  induction k2 with
  | zero => have : k = 0 := by omega
            subst this; exact Nat.le_refl _
  | succ n ih =>
    by_cases hk : k = n + 1
    · subst hk; exact Nat.le_refl _
    · have h1 := ih (by omega)
      cases hn : is[n]? with
      | none =>
        have : pre is (n + 1) = pre is n := by
          unfold pre
          rw [List.getElem?_eq_none_iff] at hn
          rw [List.take_of_length_le (by omega), List.take_of_length_le hn]
        omega
      | some t => rw [pre_succ hn]; omega

theorem sorted_idx {is : List Tree} (hs : SortedSpans is) {i j : Nat} {a b : Tree} (ha : is[i]? = some a)
    (hb : is[j]? = some b) (hij : i < j) : a.label.stop ≤ b.label.start := by
  have hi : i < is.length := (List.getElem?_eq_some_iff.mp ha).1
  have hj : j < is.length := (List.getElem?_eq_some_iff.mp hb).1
  have e1 : is[i] = a := (List.getElem?_eq_some_iff.mp ha).2
  have e2 : is[j] = b := (List.getElem?_eq_some_iff.mp hb).2
  have := (List.pairwise_iff_getElem.mp hs) i j hi hj hij
  rw [e1, e2] at this
  exact this

theorem tlen_cast {src : Bytes} {is : List Tree} (hc : RDS.Ctx src is) {k : Nat} {t : Tree} (h : is[k]? = some t) :
    (tlen t : Int) = t.label.stop - t.label.start ∧ 0 < tlen t := by
  have := (hc.ok t (List.mem_of_getElem? h)).1
  unfold tlen
  omega

/-- Order of positions and order of stream offsets. -/
theorem cmp_lt {src : Bytes} {is : List Tree} (hc : RDS.Ctx src is) {k k2 o o2 : Nat} {t u : Tree}
    (ht : is[k]? = some t) (ho : (o : Int) < t.label.stop - t.label.start)
    (hu : is[k2]? = some u) (ho2 : (o2 : Int) ≤ u.label.stop - u.label.start) :
    (t.label.start + (o : Int) < u.label.start + (o2 : Int)) ↔ pre is k + o < pre is k2 + o2 := by
  have ⟨c1, _⟩ := tlen_cast hc ht
  have ⟨c2, _⟩ := tlen_cast hc hu
  rcases Nat.lt_trichotomy k k2 with h | h | h
  · have h1 := sorted_idx hc.sorted ht hu h
    have h2 := pre_mono is (show k + 1 ≤ k2 by omega)
    rw [pre_succ ht] at h2
    constructor
    · intro _; omega
    · intro _; omega
  · subst h
    rw [ht] at hu; cases hu
    constructor <;> intro _ <;> omega
  · have h1 := sorted_idx hc.sorted hu ht h
    have h2 := pre_mono is (show k2 + 1 ≤ k by omega)
    rw [pre_succ hu] at h2
    constructor
    · intro _; omega
    · intro _; omega

theorem pre_eq (h : L2 (NR E) is is') (k : Nat) : pre is' k = pre is k := by
  unfold pre
  induction h generalizing k with
  | nil => rfl
  | cons r _ ih =>
    cases k with
    | zero => rfl
    | succ k =>
      simp only [List.take_succ_cons, List.map_cons, List.sum_cons, ih k]
      unfold tlen; rw [r.len]

/-! ### corresponding positions -/

/-- `a` and `a'` are at the same offset of corresponding nodes (the offset may be the length of the node). -/
def PosP (is is' : List Tree) (a a' : Int) : Prop :=
  ∃ (k o : Nat) (t t' : Tree), is[k]? = some t ∧ is'[k]? = some t' ∧ (o : Int) ≤ t.label.stop - t.label.start ∧
    a = t.label.start + (o : Int) ∧ a' = t'.label.start + (o : Int)

/-- … strictly inside the nodes. -/
def LiveP (is is' : List Tree) (a a' : Int) : Prop :=
  ∃ (k o : Nat) (t t' : Tree), is[k]? = some t ∧ is'[k]? = some t' ∧ (o : Int) < t.label.stop - t.label.start ∧
    a = t.label.start + (o : Int) ∧ a' = t'.label.start + (o : Int)

theorem LiveP.posP {a a' : Int} (h : LiveP is is' a a') : PosP is is' a a' := by
  obtain ⟨k, o, t, t', h1, h2, h3, h4, h5⟩ := h
  exact ⟨k, o, t, t', h1, h2, by omega, h4, h5⟩

/-- The position behind a live position. -/
theorem LiveP.succ {a a' : Int} (h : LiveP is is' a a') : PosP is is' (a + 1) (a' + 1) := by
  obtain ⟨k, o, t, t', h1, h2, h3, h4, h5⟩ := h
  exact ⟨k, o + 1, t, t', h1, h2, by omega, by omega, by omega⟩

theorem PosP.pr (hc : PC E is is') {a a' : Int} (h : PosP is is' a a') : E.PR a a' := by
  obtain ⟨k, o, t, t', h1, h2, h3, rfl, rfl⟩ := h
  obtain ⟨t2, e, r⟩ := hc.rel.getElem? h1
  rw [h2] at e; cases e
  exact r.pr o h3

theorem PosP.nonneg (hc : PC E is is') {a a' : Int} (h : PosP is is' a a') : 0 ≤ a ∧ 0 ≤ a' := by
  obtain ⟨k, o, t, t', h1, h2, h3, rfl, rfl⟩ := h
  have := hc.c.nn t (List.mem_of_getElem? h1)
  have := hc.c'.nn t' (List.mem_of_getElem? h2)
  omega

theorem PosP.le_len (hc : PC E is is') {a a' : Int} (h : PosP is is' a a') :
    a ≤ (E.src.length : Int) ∧ a' ≤ (E.src'.length : Int) := by
  obtain ⟨k, o, t, t', h1, h2, h3, rfl, rfl⟩ := h
  obtain ⟨t2, e, r⟩ := hc.rel.getElem? h1
  rw [h2] at e; cases e
  have := (hc.c.ok t (List.mem_of_getElem? h1)).2.1
  have := (hc.c'.ok t' (List.mem_of_getElem? h2)).2.1
  have := r.len
  omega

/-- Comparisons agree on the two sides. -/
theorem cmp_sides (hc : PC E is is') {a a' b b' : Int} (ha : LiveP is is' a a') (hb : PosP is is' b b') :
    (a < b ↔ a' < b') := by
  obtain ⟨k, o, t, t', h1, h2, h3, rfl, rfl⟩ := ha
  obtain ⟨k2, o2, u, u', g1, g2, g3, rfl, rfl⟩ := hb
  obtain ⟨t2, e, r⟩ := hc.rel.getElem? h1
  rw [h2] at e; cases e
  obtain ⟨u2, e, r2⟩ := hc.rel.getElem? g1
  rw [g2] at e; cases e
  rw [cmp_lt hc.c h1 h3 g1 g3, cmp_lt hc.c' h2 (by rw [r.len]; exact h3) g2 (by rw [r2.len]; exact g3),
    pre_eq hc.rel, pre_eq hc.rel]

theorem cmp_sides_le (hc : PC E is is') {a a' b b' : Int} (ha : LiveP is is' a a') (hb : PosP is is' b b') :
    (b ≤ a ↔ b' ≤ a') := by
  have := cmp_sides hc ha hb
  constructor <;> intro h <;> omega

/-- Equality of live positions agrees on the two sides. -/
theorem eq_sides (hc : PC E is is') {a a' b b' : Int} (ha : LiveP is is' a a') (hb : LiveP is is' b b') :
    (a = b ↔ a' = b') := by
  have h1 := cmp_sides hc ha hb.posP
  have h2 := cmp_sides hc hb ha.posP
  constructor <;> intro h <;> omega

end CM.Proofs.Quote
