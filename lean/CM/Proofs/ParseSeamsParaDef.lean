import CM.Proofs.ParseSeamsOps
import CM.Proofs.ParseSeamsCollect
/-
C17 (b) for parser output, part 10 (block phase, second invariant — definitions): **the inline children of paragraphs and
headings are lines, and Indent nodes cover white space.**

`PP S b`: for every block of `b`

  * of kind Paragraph or SetextHeading: every inline child that is an Indent node covers spaces / tabs of `S` (`IndWS`),
    every other one ends right after a line ending of `S`, or where `S` ends (`ParaOK`);
  * of kind ATXHeading: no block children, Indent nodes cover white space, and all inline children but the last are
    Indent nodes (`AtxOK`: the content run is the last child).

Both give `Lines S is` (`ParseSeamsCollect`) and `InlH.IndentWS S is` — what fact (2) asks of a container.
When the source grows by a non-empty line the old source ends with a line ending, so "ends where `S` ends" becomes
"ends right after a line ending" (`PP.upgrade`).
-/
namespace CM.Proofs.PS
open CM CM.Model CM.Gen CM.Spec
open CM.Proofs.BT CM.Proofs.BG CM.Proofs.PW

/-! ### nodes -/

/-- The node covers spaces and tabs only. -/
def IndWS (S : Bytes) (t : Tree) : Prop :=
  ∀ q : Nat, t.label.start ≤ (q : Int) → (q : Int) < t.label.stop → S[q]? = some SP ∨ S[q]? = some TAB

/-- The rule for one inline child of a paragraph. -/
def NodeP (S : Bytes) (t : Tree) : Prop :=
  (isIndent t = true → IndWS S t) ∧ (isIndent t = false → EolEnd S t.label.stop ∨ AtEnd S t.label.stop)

theorem IndWS.mono {S : Bytes} {t : Tree} (h : IndWS S t) (m : Bytes) : IndWS (S ++ m) t := by
  intro q h1 h2
  have key : ∀ c, S[q]? = some c → (S ++ m)[q]? = some c := by
    intro c hc
    have hlt : q < S.length := by
      by_cases hcon : q < S.length
      · exact hcon
      · rw [List.getElem?_eq_none (by omega)] at hc; cases hc
    rw [List.getElem?_append_left hlt]; exact hc
  rcases h q h1 h2 with h' | h'
  · exact Or.inl (key _ h')
  · exact Or.inr (key _ h')

theorem NodeP.upgrade {S : Bytes} {t : Tree} (h : NodeP S t) (hS : EndsEol S) (m : Bytes) :
    (isIndent t = true → IndWS (S ++ m) t) ∧ (isIndent t = false → EolEnd (S ++ m) t.label.stop) := by
  refine ⟨fun hi => (h.1 hi).mono m, fun hi => ?_⟩
  rcases h.2 hi with h' | h'
  · exact h'.mono m
  · exact h'.upgrade hS m

theorem isIndent_offsetTree (n : Int) (t : Tree) : isIndent (offsetTree n t) = isIndent t := by
  obtain ⟨l, cs⟩ := t
  unfold isIndent Node.isI
  rw [offsetTree]
  rfl

theorem offsetTree_stop (n : Int) (t : Tree) :
    (offsetTree n t).label.stop = if t.label.stop ≥ 0 then t.label.stop + n else t.label.stop := by
  obtain ⟨l, cs⟩ := t
  rw [offsetTree]
  rfl

theorem offsetTree_start (n : Int) (t : Tree) : (offsetTree n t).label.start = t.label.start + n := by
  obtain ⟨l, cs⟩ := t
  rw [offsetTree]
  rfl

theorem IndWS.shift {S : Bytes} {t : Tree} (h : IndWS S t) (n : Nat) : IndWS (S.drop n) (offsetTree (-(n : Int)) t) := by
  intro q h1 h2
  rw [offsetTree_start] at h1
  rw [offsetTree_stop] at h2
  have h2' : ((n + q : Nat) : Int) < t.label.stop := by
    split at h2 <;> omega
  have := h (n + q) (by omega) h2'
  rw [List.getElem?_drop]
  exact this

theorem NodeP.shift {S : Bytes} {t : Tree} (h : NodeP S t) (n : Nat) : NodeP (S.drop n) (offsetTree (-(n : Int)) t) := by
  rw [NodeP, isIndent_offsetTree, offsetTree_stop]
  refine ⟨fun hi => (h.1 hi).shift n, fun hi => ?_⟩
  rcases h.2 hi with h' | h'
  · exact Or.inl (h'.shift n)
  · exact Or.inr (h'.shift n)

/-! ### lists -/

/-- The inline children of a paragraph / setext heading. -/
def ParaOK (S : Bytes) (is : List Tree) : Prop := ∀ t ∈ is, NodeP S t

/-- The inline children of an ATX heading. -/
def AtxOK (S : Bytes) (is : List Tree) : Prop :=
  (∀ t ∈ is, isIndent t = true → IndWS S t) ∧ (∀ t ∈ is.dropLast, isIndent t = true)

theorem ParaOK.lines {S : Bytes} : ∀ {is : List Tree}, ParaOK S is → Lines S is
  | [], _ => trivial
  | [_], _ => trivial
  | t :: u :: rest, h =>
    ⟨(h t (List.mem_cons_self ..)).2, ParaOK.lines (is := u :: rest) (fun v hv => h v (List.mem_cons_of_mem _ hv))⟩

theorem AtxOK.lines {S : Bytes} : ∀ {is : List Tree}, (∀ t ∈ is.dropLast, isIndent t = true) → Lines S is
  | [], _ => trivial
  | [_], _ => trivial
  | t :: u :: rest, h => by
    refine ⟨fun hi => ?_, AtxOK.lines (is := u :: rest) (fun v hv => h v ?_)⟩
    · have := h t (by rw [List.dropLast_cons_cons]; exact List.mem_cons_self ..)
      rw [hi] at this; cases this
    · rw [List.dropLast_cons_cons]; exact List.mem_cons_of_mem _ hv

/-! ### blocks -/

/-- The rule at one block. -/
def BlockP (S : Bytes) (l : PLabel) (bs : List PB) (is : List Tree) : Prop :=
  (l.kind = BK.atxHeading → bs = []) ∧
  ((l.kind = BK.paragraph ∨ l.kind = BK.setextHeading) → ParaOK S is) ∧
  (l.kind = BK.atxHeading → AtxOK S is)

mutual
def PP (S : Bytes) : PB → Prop
  | .mk l bs is => BlockP S l bs is ∧ PPL S bs
def PPL (S : Bytes) : List PB → Prop
  | [] => True
  | b :: bs => PP S b ∧ PPL S bs
end

variable {S : Bytes}

theorem PPL_iff (bs : List PB) : PPL S bs ↔ ∀ b ∈ bs, PP S b := by
  induction bs with
  | nil => simp [PPL]
  | cons b bs ih => simp [PPL, ih]

theorem PP_mk (l : PLabel) (bs : List PB) (is : List Tree) :
    PP S (.mk l bs is) ↔ BlockP S l bs is ∧ ∀ b ∈ bs, PP S b := by
  rw [PP, PPL_iff]

/-- Lists of blocks. -/
def AllP (S : Bytes) (L : List PB) : Prop := ∀ b ∈ L, PP S b

theorem AllP.nil : AllP S [] := fun _ h => by cases h
theorem AllP.single {b : PB} (h : PP S b) : AllP S [b] := by
  intro c hc; simp only [List.mem_singleton] at hc; subst hc; exact h
theorem AllP.append {a b : List PB} (h1 : AllP S a) (h2 : AllP S b) : AllP S (a ++ b) := by
  intro c hc
  rcases List.mem_append.1 hc with hc | hc
  · exact h1 c hc
  · exact h2 c hc

/-- A block whose kind is none of the three. -/
theorem BlockP.other {l : PLabel} {bs : List PB} {is : List Tree} (h1 : l.kind ≠ BK.paragraph)
    (h2 : l.kind ≠ BK.setextHeading) (h3 : l.kind ≠ BK.atxHeading) : BlockP S l bs is :=
  ⟨fun h => absurd h h3, fun h => by rcases h with h | h; exact absurd h h1; exact absurd h h2, fun h => absurd h h3⟩

theorem BlockP.kind {l l' : PLabel} {bs : List PB} {is : List Tree} (hk : l'.kind = l.kind) (h : BlockP S l bs is) :
    BlockP S l' bs is := by
  unfold BlockP at h ⊢
  rw [hk]; exact h

/-- The block children change, and the block had some (so it is not an ATX heading). -/
theorem BlockP.blocks {l : PLabel} {bs bs' : List PB} {is : List Tree} (hne : bs ≠ []) (h : BlockP S l bs is) :
    BlockP S l bs' is :=
  ⟨fun hk => absurd (h.1 hk) hne, h.2.1, h.2.2⟩

theorem PP_relabel {l l' : PLabel} {bs : List PB} {is : List Tree} (hk : l'.kind = l.kind) (h : PP S (.mk l bs is)) :
    PP S (.mk l' bs is) := by
  rw [PP_mk] at h ⊢
  exact ⟨h.1.kind hk, h.2⟩

theorem PP_setLabel (f : PLabel → PLabel) (hf : ∀ l, (f l).kind = l.kind) {b : PB} (h : PP S b) : PP S (b.setLabel f) := by
  obtain ⟨l, bs, is⟩ := b
  exact PP_relabel (hf l) h

theorem PP_replaceLast {l : PLabel} {bs new : List PB} {is : List Tree} (hne : bs ≠ []) (h : PP S (.mk l bs is))
    (hn : AllP S new) : PP S (.mk l (bs.dropLast ++ new) is) := by
  rw [PP_mk] at h ⊢
  refine ⟨h.1.blocks hne, ?_⟩
  intro b hb
  rcases List.mem_append.1 hb with hb | hb
  · exact h.2 b (List.dropLast_subset bs hb)
  · exact hn b hb

theorem ne_nil_of_getLast? {α} {l : List α} {a : α} (h : l.getLast? = some a) : l ≠ [] := by
  intro e; rw [e] at h; cases h

theorem PP_spineModify (f : PB → PB) : ∀ (d : Nat) (b : PB), PP S b →
    (∀ c, spineGet b d = some c → PP S c → PP S (f c)) → PP S (spineModify f b d) := by
  intro d
  induction d with
  | zero => intro b h hf; rw [spineModify_zero]; exact hf b (spineGet_zero b) h
  | succ d ih =>
    intro b h hf
    obtain ⟨l, bs, is⟩ := b
    rw [spineModify_succ]
    cases hgl : bs.getLast? with
    | none => exact h
    | some c =>
      simp only []
      have hc : PP S c := ((PP_mk l bs is).1 h).2 c (List.mem_of_getLast? hgl)
      refine PP_replaceLast (ne_nil_of_getLast? hgl) h (AllP.single (ih c hc ?_))
      intro c' hc'
      refine hf c' ?_
      rw [spineGet_succ, hgl]; exact hc'

theorem PP_spineGet : ∀ (d : Nat) (b c : PB), PP S b → spineGet b d = some c → PP S c := by
  intro d
  induction d with
  | zero => intro b c h hc; rw [spineGet_zero] at hc; cases hc; exact h
  | succ d ih =>
    intro b c h hc
    obtain ⟨l, bs, is⟩ := b
    rw [spineGet_succ] at hc
    cases hgl : bs.getLast? with
    | none => rw [hgl] at hc; cases hc
    | some c0 =>
      rw [hgl] at hc
      exact ih c0 c (((PP_mk l bs is).1 h).2 c0 (List.mem_of_getLast? hgl)) hc

theorem PP_setBlankFlags (v : Bool) : ∀ (d : Nat) (b : PB), PP S b → PP S (setBlankFlags v b d) := by
  intro d
  induction d with
  | zero =>
    intro b h
    obtain ⟨l, bs, is⟩ := b
    simp only [setBlankFlags]
    exact PP_relabel rfl h
  | succ d ih =>
    intro b h
    obtain ⟨l, bs, is⟩ := b
    simp only [setBlankFlags]
    cases hgl : bs.getLast? with
    | none => exact PP_relabel rfl h
    | some c =>
      simp only []
      have hc : PP S c := ((PP_mk l bs is).1 h).2 c (List.mem_of_getLast? hgl)
      exact PP_replaceLast (ne_nil_of_getLast? hgl) (PP_relabel rfl h) (AllP.single (ih c hc))

/-! ### when the source grows; re-basing -/

theorem PP.upgrade (hS : EndsEol S) (m : Bytes) : ∀ b : PB, PP S b → PP (S ++ m) b := by
  apply PB.ind
  intro l bs is ih h
  rw [PP_mk] at h ⊢
  refine ⟨⟨h.1.1, fun hk t ht => ?_, fun hk => ⟨fun t ht hi => ((h.1.2.2 hk).1 t ht hi).mono m, (h.1.2.2 hk).2⟩⟩,
    fun b hb => ih b hb (h.2 b hb)⟩
  have := (h.1.2.1 hk t ht).upgrade hS m
  exact ⟨this.1, fun hi => Or.inl (this.2 hi)⟩

/-- The source does not change (the empty end-of-input line): nothing to do. -/
theorem AllP_upgrade (hS : EndsEol S) (m : Bytes) {L : List PB} (h : AllP S L) : AllP (S ++ m) L :=
  fun b hb => PP.upgrade hS m b (h b hb)

theorem PP_offsetPB (n : Nat) : ∀ b : PB, PP S b → PP (S.drop n) (offsetPB (-(n : Int)) b) := by
  apply PB.ind
  intro l bs is ih h
  rw [PP_mk] at h
  rw [offsetPB, offsetPBs_eq_map, offsetTrees_eq_map, PP_mk]
  refine ⟨⟨fun hk => ?_, fun hk t ht => ?_, fun hk => ⟨fun t ht hi => ?_, fun t ht => ?_⟩⟩, fun b hb => ?_⟩
  · rw [h.1.1 hk]; rfl
  · rw [List.mem_map] at ht
    obtain ⟨u, hu, rfl⟩ := ht
    exact (h.1.2.1 hk u hu).shift n
  · rw [List.mem_map] at ht
    obtain ⟨u, hu, rfl⟩ := ht
    rw [isIndent_offsetTree] at hi
    exact ((h.1.2.2 hk).1 u hu hi).shift n
  · rw [← List.map_dropLast, List.mem_map] at ht
    obtain ⟨u, hu, rfl⟩ := ht
    rw [isIndent_offsetTree]
    exact (h.1.2.2 hk).2 u hu
  · rw [List.mem_map] at hb
    obtain ⟨c, hc, rfl⟩ := hb
    exact ih c hc (h.2 c hc)

theorem AllP_offsetPBs (n : Nat) {bs : List PB} (h : AllP S bs) : AllP (S.drop n) (offsetPBs (-(n : Int)) bs) := by
  intro b hb
  rw [offsetPBs_eq_map, List.mem_map] at hb
  obtain ⟨c, hc, rfl⟩ := hb
  exact PP_offsetPB n c (h c hc)

theorem PP_docRoot {bs : List PB} (h : AllP S bs) : PP S (docRoot bs) := by
  unfold docRoot
  rw [PP_mk]
  exact ⟨BlockP.other (by decide) (by decide) (by decide), h⟩

theorem PP_kids {b : PB} (h : PP S b) : AllP S b.blocks := by
  obtain ⟨l, bs, is⟩ := b
  exact ((PP_mk l bs is).1 h).2

/-! ### closing blocks -/

/-- A leaf block that is none of the three kinds. -/
theorem PP_other_leaf {l : PLabel} {is : List Tree} (h1 : l.kind ≠ BK.paragraph) (h2 : l.kind ≠ BK.setextHeading)
    (h3 : l.kind ≠ BK.atxHeading) : PP S (.mk l [] is) := by
  rw [PP_mk]
  exact ⟨BlockP.other h1 h2 h3, fun _ h => by cases h⟩

theorem PP_refdef (s e : Int) (kids : List Tree) : AllP S [mkPB BK.linkRefDef s e kids] :=
  AllP.single (PP_other_leaf (by show BK.linkRefDef ≠ _; decide) (by show BK.linkRefDef ≠ _; decide)
    (by show BK.linkRefDef ≠ _; decide))

/-- The paragraph that is left: a suffix of the children. -/
theorem PP_rest {l' : PLabel} {is : List Tree} (hk : l'.kind = BK.paragraph ∨ l'.kind = BK.setextHeading)
    (h : ParaOK S is) (fc : Nat) : AllP S [PB.mk l' [] (is.drop fc)] := by
  apply AllP.single
  rw [PP_mk]
  refine ⟨⟨fun ha => rfl, fun _ t ht => h t (List.mem_of_mem_drop ht), fun ha => ?_⟩, fun _ hb => by cases hb⟩
  rcases hk with hk | hk <;> (rw [hk] at ha; exact absurd ha (by decide))

/-- `refDefLoop`: definitions, the rest of the paragraph, possibly the orphan. -/
theorem refDefLoop_PP (x : PExt) (src : Bytes) (orphan : Option PB)
    (fuel : Nat) (r : Rd) (l : PLabel) (is : List Tree) (result : List PB) :
    (l.kind = BK.paragraph ∨ l.kind = BK.setextHeading) →
    (∀ o, orphan = some o → AllP S [o]) → ParaOK S is → AllP S result →
    AllP S (refDefLoop x src orphan fuel r l is result) := by
  cases orphan <;> fun_induction refDefLoop x src _ fuel r l is result
  all_goals intro hk ho his hres
  all_goals first
    | exact hres.append (PP_rest (by exact hk) his 0)
    | exact hres.append (PP_refdef _ _ _)
    | exact (hres.append (PP_refdef _ _ _)).append (ho _ rfl)
    | exact (hres.append (PP_refdef _ _ _)).append (PP_rest (by exact hk) his _)
    | (rename_i ih; exact ih hk ho (fun t ht => his t (List.mem_of_mem_drop ht)) (hres.append (PP_refdef _ _ _)))



end CM.Proofs.PS
