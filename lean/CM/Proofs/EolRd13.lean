import CM.Proofs.EolRd12
/-
C14 (a), the paragraph hook under the position map — part 13: `parseCharacterEscape` looks at its argument only up to the
first line ending (`pce_stop`), and a character reference it recognises ends with `;` (`pce_last`).
-/
namespace CM.Proofs.ERd
open CM CM.Model CM.Gen CM.Proofs

/-- A line-ending byte. -/
def Stopper (c : UInt8) : Prop := c = LF ∨ c = CR

theorem stopper_facts {c : UInt8} (h : Stopper c) :
    (c == 0x3B) = false ∧ isHex c = false ∧ isASCIIDigit c = false ∧ isASCIILetter c = false ∧ c ≠ 0x26 ∧ c ≠ 0x23 ∧
      (c == 0x78) = false ∧ (c == 0x58) = false := by
  rcases h with h | h <;> subst h <;> decide

/-! ### the numeric loops -/

theorem numericRef_stop (P : UInt8 → Bool) (hP : ∀ c, Stopper c → P c = false) (z1 z2 : Bytes) (c1 c2 : UInt8)
    (h1 : Stopper c1) (h2 : Stopper c2) : ∀ (u : Bytes) (i : Nat),
    numericRefLoop P (u ++ c1 :: z1) i = numericRefLoop P (u ++ c2 :: z2) i := by
  intro u
  induction u with
  | nil =>
    intro i
    simp only [List.nil_append, numericRefLoop, (stopper_facts h1).1, (stopper_facts h2).1, hP c1 h1, hP c2 h2]
    rfl
  | cons a u ih =>
    intro i
    simp only [List.cons_append, numericRefLoop]
    split
    · rfl
    · split
      · rfl
      · exact ih (i + 1)

theorem numericRef_take (P : UInt8 → Bool) (hP : ∀ c, Stopper c → P c = false) (w z1 z2 : Bytes) (c1 c2 : UInt8)
    (h1 : Stopper c1) (h2 : Stopper c2) (d m : Nat) (hd : d ≤ w.length) :
    numericRefLoop P (((w ++ c1 :: z1).drop d).take m) 0 = numericRefLoop P (((w ++ c2 :: z2).drop d).take m) 0 := by
  rw [List.drop_append_of_le_length hd, List.drop_append_of_le_length hd]
  by_cases hl : m ≤ (w.drop d).length
  · rw [List.take_append_of_le_length hl, List.take_append_of_le_length hl]
  · have e1 : ∀ (c : UInt8) (z : Bytes), (w.drop d ++ c :: z).take m = w.drop d ++ c :: z.take (m - (w.drop d).length - 1) := by
      intro c z
      rw [List.take_append]
      have : m - (w.drop d).length = (m - (w.drop d).length - 1) + 1 := by omega
      rw [List.take_of_length_le (by omega), this, List.take_succ_cons, Nat.add_sub_cancel]
    rw [e1, e1]
    exact numericRef_stop P hP _ _ c1 c2 h1 h2 _ 0

/-! ### the entity loop -/

theorem entity_stop (ext : Ext) (w z1 z2 : Bytes) (c1 c2 : UInt8) (h1 : Stopper c1) (h2 : Stopper c2) :
    ∀ (u : Bytes) (i : Nat), u = w.drop (i + 1) →
      entityLoop ext (w ++ c1 :: z1) (u ++ c1 :: z1) i = entityLoop ext (w ++ c2 :: z2) (u ++ c2 :: z2) i := by
  intro u
  induction u with
  | nil =>
    intro i _
    have f1 := stopper_facts h1
    have f2 := stopper_facts h2
    simp only [List.nil_append, entityLoop, f1.1, f2.1, f1.2.2.1, f1.2.2.2.1, f2.2.2.1, f2.2.2.2.1]
    rfl
  | cons a u ih =>
    intro i hu
    have hlen : i + 2 ≤ w.length := by
      have := congrArg List.length hu
      simp only [List.length_cons, List.length_drop] at this
      omega
    have hu' : u = w.drop (i + 1 + 1) := by
      have : (a :: u).drop 1 = (w.drop (i + 1)).drop 1 := by rw [hu]
      rw [List.drop_drop] at this
      simpa using this
    simp only [List.cons_append, entityLoop]
    rw [List.take_append_of_le_length hlen, List.take_append_of_le_length hlen]
    split
    · rfl
    · split
      · rfl
      · exact ih (i + 1) hu'

/-! ### `parseCharacterEscape` -/

theorem pce_stop (ext : Ext) (w z1 z2 : Bytes) (c1 c2 : UInt8) (h1 : Stopper c1) (h2 : Stopper c2) :
    parseCharacterEscape ext (w ++ c1 :: z1) = parseCharacterEscape ext (w ++ c2 :: z2) := by
  have f1 := stopper_facts h1
  have f2 := stopper_facts h2
  match w with
  | [] =>
    unfold parseCharacterEscape
    have a1 : ((([] : Bytes) ++ c1 :: z1).head? != some 0x26) = true := by simpa using f1.2.2.2.2.1
    have a2 : ((([] : Bytes) ++ c2 :: z2).head? != some 0x26) = true := by simpa using f2.2.2.2.2.1
    rw [if_pos (by rw [a1]; simp), if_pos (by rw [a2]; simp)]
  | [a] =>
    have key : ∀ (c : UInt8) (z : Bytes), Stopper c → parseCharacterEscape ext ([a] ++ c :: z) = -1 := by
      intro c z hc
      have fc := stopper_facts hc
      unfold parseCharacterEscape
      split
      · rfl
      · have : (([a] ++ c :: z).getD 1 0 != 0x23) = true := by
          show (c != 0x23) = true
          simpa using fc.2.2.2.2.2.1
        rw [if_pos this]
        show entityLoop ext _ (c :: z) 0 = -1
        simp only [entityLoop, fc.1, fc.2.2.1, fc.2.2.2.1]
        rfl
    rw [key c1 z1 h1, key c2 z2 h2]
  | a :: b :: w' =>
    unfold parseCharacterEscape
    have l1 : ¬ ((a :: b :: w' ++ c1 :: z1).length < 3) := by simp; omega
    have l2 : ¬ ((a :: b :: w' ++ c2 :: z2).length < 3) := by simp; omega
    have hd1 : (a :: b :: w' ++ c1 :: z1).head? = some a := rfl
    have hd2 : (a :: b :: w' ++ c2 :: z2).head? = some a := rfl
    have g1 : (a :: b :: w' ++ c1 :: z1).getD 1 0 = b := rfl
    have g2 : (a :: b :: w' ++ c2 :: z2).getD 1 0 = b := rfl
    rw [hd1, hd2, g1, g2]
    by_cases hA : (decide ((a :: b :: w' ++ c1 :: z1).length < 3) || some a != some 0x26) = true
    · have hA' : (decide ((a :: b :: w' ++ c2 :: z2).length < 3) || some a != some 0x26) = true := by
        simp only [Bool.or_eq_true, decide_eq_true_eq] at hA ⊢
        rcases hA with h | h
        · exact absurd h l1
        · exact Or.inr h
      rw [if_pos hA, if_pos hA']
    · have hA' : ¬ (decide ((a :: b :: w' ++ c2 :: z2).length < 3) || some a != some 0x26) = true := by
        simp only [Bool.or_eq_true, decide_eq_true_eq] at hA ⊢
        intro h
        rcases h with h | h
        · exact absurd h l2
        · exact hA (Or.inr h)
      rw [if_neg hA, if_neg hA']
      by_cases hB : (b != 0x23) = true
      · rw [if_pos hB, if_pos hB]
        exact entity_stop ext (a :: b :: w') z1 z2 c1 c2 h1 h2 (b :: w') 0 rfl
      · rw [if_neg hB, if_neg hB]
        match w' with
        | [] =>
          have t1 : (a :: b :: ([] : Bytes) ++ c1 :: z1).getD 2 0 = c1 := rfl
          have t2 : (a :: b :: ([] : Bytes) ++ c2 :: z2).getD 2 0 = c2 := rfl
          rw [t1, t2, f1.2.2.2.2.2.2.1, f1.2.2.2.2.2.2.2, f2.2.2.2.2.2.2.1, f2.2.2.2.2.2.2.2]
          simp only [Bool.or_self, Bool.false_eq_true, if_false]
          rw [numericRef_take isASCIIDigit (fun c hc => (stopper_facts hc).2.2.1) [a, b] z1 z2 c1 c2 h1 h2 decDigitStart
            (decDigitLimit + 1) (by simp [decDigitStart])]
        | d :: w'' =>
          have t1 : (a :: b :: d :: w'' ++ c1 :: z1).getD 2 0 = d := rfl
          have t2 : (a :: b :: d :: w'' ++ c2 :: z2).getD 2 0 = d := rfl
          rw [t1, t2]
          by_cases hC : (d == 0x78 || d == 0x58) = true
          · rw [if_pos hC, if_pos hC]
            rw [numericRef_take isHex (fun c hc => (stopper_facts hc).2.1) (a :: b :: d :: w'') z1 z2 c1 c2 h1 h2 hexDigitStart
              (hexDigitLimit + 1) (by simp [hexDigitStart])]
          · rw [if_neg hC, if_neg hC]
            rw [numericRef_take isASCIIDigit (fun c hc => (stopper_facts hc).2.2.1) (a :: b :: d :: w'') z1 z2 c1 c2 h1 h2
              decDigitStart (decDigitLimit + 1) (by simp [decDigitStart])]

/-- On a piece of text that has a line feed at most as its last byte, re-writing the line feed does not change what
    `parseCharacterEscape` sees. -/
theorem pce_toEol (ext : Ext) {e : Bytes} (he : StdEol e) (t : Bytes)
    (hend : ∀ j, j < t.length → t.getD j 0 = LF → j + 1 = t.length) :
    parseCharacterEscape ext (toEol e t) = parseCharacterEscape ext t := by
  by_cases hl : t.getLast? = some LF
  · obtain ⟨w, hw⟩ : ∃ w, t = w ++ [LF] := by
      have hne : t ≠ [] := by intro h0; rw [h0] at hl; cases hl
      refine ⟨t.dropLast, ?_⟩
      have h1 := List.dropLast_concat_getLast hne
      have h2 : t.getLast hne = LF := by
        have := List.getLast?_eq_some_getLast hne
        rw [this] at hl
        exact Option.some.inj hl
      rw [h2] at h1
      exact h1.symm
    have hwn : ∀ c ∈ w, c ≠ LF := by
      intro c hc hcl
      obtain ⟨j, hj, hjc⟩ := List.getElem_of_mem hc
      have h1 : t.getD j 0 = LF := by
        rw [hw, List.getD_eq_getElem?_getD, List.getElem?_append_left hj, List.getElem?_eq_getElem hj, hjc, hcl]; rfl
      have := hend j (by rw [hw]; simp; omega) h1
      rw [hw] at this; simp at this; omega
    rw [hw, toEol_append, toEol_of_noLF e hwn]
    have h1 : toEol e [LF] = e := by rw [toEol_cons_LF]; simp [toEol]
    rw [h1]
    rcases he with hE | hE | hE
    · subst hE; rfl
    · subst hE; exact pce_stop ext w [] [] CR LF (Or.inr rfl) (Or.inl rfl)
    · subst hE; exact pce_stop ext w [LF] [] CR LF (Or.inr rfl) (Or.inl rfl)
  · have hn : ∀ c ∈ t, c ≠ LF := by
      intro c hc hcl
      obtain ⟨j, hj, hjc⟩ := List.getElem_of_mem hc
      have h1 : t.getD j 0 = LF := by
        rw [List.getD_eq_getElem?_getD, List.getElem?_eq_getElem hj, hjc, hcl]; rfl
      have h2 := hend j hj h1
      apply hl
      rw [List.getLast?_eq_getElem?, ← h2]
      simp only [Nat.add_sub_cancel]
      rw [List.getElem?_eq_getElem hj, hjc, hcl]
    rw [toEol_of_noLF e hn]

/-! ### a recognised reference ends with `;` -/

theorem numericRef_last (P : UInt8 → Bool) : ∀ (l : Bytes) (i n : Nat), numericRefLoop P l i = Int.ofNat n →
    i + 1 ≤ n ∧ n - 1 - i < l.length ∧ l.getD (n - 1 - i) 0 = 0x3B := by
  intro l
  induction l with
  | nil => intro i n h; simp [numericRefLoop] at h
  | cons c rest ih =>
    intro i n h
    simp only [numericRefLoop] at h
    split at h
    · rename_i hc
      split at h
      · exact absurd h (by simp)
      · have hn : n = i + 1 := by
          have : (n : Int) = (i : Int) + 1 := by simpa using h.symm
          omega
        subst hn
        refine ⟨Nat.le_refl _, by simp, ?_⟩
        have : i + 1 - 1 - i = 0 := by omega
        rw [this]
        simpa using hc
    · split at h
      · exact absurd h (by simp)
      · obtain ⟨a1, a2, a3⟩ := ih (i + 1) n h
        refine ⟨by omega, by simp; omega, ?_⟩
        have : n - 1 - i = (n - 1 - (i + 1)) + 1 := by omega
        rw [this]
        exact a3

theorem entity_last (ext : Ext) (text : Bytes) : ∀ (l : Bytes) (i n : Nat), entityLoop ext text l i = Int.ofNat n →
    i + 2 ≤ n ∧ n - 2 - i < l.length ∧ l.getD (n - 2 - i) 0 = 0x3B := by
  intro l
  induction l with
  | nil => intro i n h; simp [entityLoop] at h
  | cons c rest ih =>
    intro i n h
    simp only [entityLoop] at h
    split at h
    · rename_i hc
      split at h
      · exact absurd h (by simp)
      · have hn : n = i + 2 := by
          have : (n : Int) = (i : Int) + 2 := by simpa using h.symm
          omega
        subst hn
        refine ⟨Nat.le_refl _, by simp, ?_⟩
        have : i + 2 - 2 - i = 0 := by omega
        rw [this]
        simpa using hc
    · split at h
      · exact absurd h (by simp)
      · obtain ⟨a1, a2, a3⟩ := ih (i + 1) n h
        refine ⟨by omega, by simp; omega, ?_⟩
        have : n - 2 - i = (n - 2 - (i + 1)) + 1 := by omega
        rw [this]
        exact a3

theorem getD_drop_take (t : Bytes) (d m j : Nat) (hj : j < ((t.drop d).take m).length) :
    ((t.drop d).take m).getD j 0 = t.getD (d + j) 0 := by
  simp only [List.length_take, List.length_drop] at hj
  simp only [List.getD_eq_getElem?_getD, List.getElem?_take, List.getElem?_drop]
  rw [if_pos (by omega)]

theorem pce_last (ext : Ext) (t : Bytes) (n : Nat) (h : parseCharacterEscape ext t = Int.ofNat n) :
    1 ≤ n ∧ t.getD (n - 1) 0 = 0x3B := by
  unfold parseCharacterEscape at h
  split at h
  · exact absurd h (by simp)
  · split at h
    · obtain ⟨a1, a2, a3⟩ := entity_last ext t (t.drop 1) 0 n h
      refine ⟨by omega, ?_⟩
      have := getD_drop_take t 1 (t.length) (n - 2 - 0) (by simp at a2 ⊢; omega)
      rw [List.take_of_length_le (by simp)] at this
      rw [this] at a3
      have e1 : 1 + (n - 2 - 0) = n - 1 := by omega
      rw [e1] at a3
      exact a3
    · split at h
      · split at h
        · rename_i m hm
          obtain ⟨a1, a2, a3⟩ := numericRef_last isHex _ 0 m hm
          have hn : n = hexDigitStart + m := by
            have : ((hexDigitStart + m : Nat) : Int) = (n : Int) := by simpa using h
            omega
          subst hn
          refine ⟨by simp [hexDigitStart]; omega, ?_⟩
          rw [getD_drop_take t hexDigitStart (hexDigitLimit + 1) (m - 1 - 0) a2] at a3
          have e1 : hexDigitStart + (m - 1 - 0) = hexDigitStart + m - 1 := by omega
          rw [e1] at a3
          exact a3
        · exact absurd h (by simp)
      · split at h
        · rename_i m hm
          obtain ⟨a1, a2, a3⟩ := numericRef_last isASCIIDigit _ 0 m hm
          have hn : n = decDigitStart + m := by
            have : ((decDigitStart + m : Nat) : Int) = (n : Int) := by simpa using h
            omega
          subst hn
          refine ⟨by simp [decDigitStart]; omega, ?_⟩
          rw [getD_drop_take t decDigitStart (decDigitLimit + 1) (m - 1 - 0) a2] at a3
          have e1 : decDigitStart + (m - 1 - 0) = decDigitStart + m - 1 := by omega
          rw [e1] at a3
          exact a3
        · exact absurd h (by simp)

end CM.Proofs.ERd
