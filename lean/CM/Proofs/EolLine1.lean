import CM.Proofs.EolStarts3
import CM.Proofs.BlocksLine
/-
C14 (a), block level — `tryStarts`, `openingLoop`, the `blockRules` match functions (`ruleMatch`) and
`descendOpenBlocks` commute with `mapLP`.
-/
namespace CM.Proofs
open CM CM.Model CM.Gen CM.Proofs.BT

section
variable {x : PExt} {e X body nl : Bytes}

/-! ### tryStarts -/

/-- A block start that commutes with the position map on the states of the block phase. -/
def StartSim (x : PExt) (e X body nl : Bytes) (f : LP → LP) : Prop :=
  ∀ q : LP, BT.Inv q → q.state = 0 → LineOK X body nl q → f (mapLP e X q) = mapLP e X (f q) ∧ LineOK X body nl (f q)

theorem blockStartFns_sim (he : StdEol e) (hP : ParaSimAll x e X) (h7 : Start7Inv) :
    ∀ f ∈ blockStartFns x, StartSim x e X body nl f := by
  intro f hf q h hs hl
  simp only [blockStartFns, List.mem_cons, List.mem_nil_iff, or_false] at hf
  rcases hf with rfl | rfl | rfl | rfl | rfl | rfl | rfl | rfl
  · exact startBlockQuote_sim he hP h hs hl
  · exact startATX_sim he hP h hs hl
  · exact startFenced_sim he hP h hs hl
  · exact startHTML_sim he hP h7 h hl
  · exact startSetext_sim he hP hl
  · exact startThematicBreak_sim he hP h hs hl
  · exact startListItem_sim he hP h hl
  · exact startIndentedCode_sim he hP hl

theorem tryStarts_sim : ∀ (fs : List (LP → LP)), (∀ f ∈ fs, StartSim x e X body nl f) →
    (∀ f ∈ fs, ∀ q, BT.Inv q → q.state = 0 → SPost q (f q)) →
    ∀ p : LP, BT.Inv p → LineOK X body nl p →
      tryStarts fs (mapLP e X p) = mapLP e X (tryStarts fs p) ∧ LineOK X body nl (tryStarts fs p) := by
  intro fs
  induction fs with
  | nil => intro _ _ p _ hl; exact ⟨rfl, hl⟩
  | cons f rest ih =>
    intro hsim hpost p h hl
    unfold tryStarts
    simp only []
    have h0 : BT.Inv { p with state := stateOpening } := h.setState _
    have hl0 : LineOK X body nl { p with state := stateOpening } := hl.frame rfl rfl rfl hl.hi
    obtain ⟨a1, a2⟩ := hsim f (List.mem_cons_self ..) { p with state := stateOpening } h0 rfl hl0
    have sp := hpost f (List.mem_cons_self ..) { p with state := stateOpening } h0 rfl
    have hm : ({ mapLP e X p with state := stateOpening } : LP) = mapLP e X { p with state := stateOpening } := rfl
    rw [hm, a1]
    generalize f { p with state := stateOpening } = p' at a2 sp ⊢
    by_cases c : (p'.state == stateOpenMatched || p'.state == stateLineConsumed) = true
    · have c' : ((mapLP e X p').state == stateOpenMatched || (mapLP e X p').state == stateLineConsumed) = true := c
      rw [if_pos c', if_pos c]; exact ⟨rfl, a2⟩
    · have c' : ¬ ((mapLP e X p').state == stateOpenMatched || (mapLP e X p').state == stateLineConsumed) = true := c
      rw [if_neg c', if_neg c]
      exact ih (fun g hg => hsim g (List.mem_cons_of_mem _ hg)) (fun g hg => hpost g (List.mem_cons_of_mem _ hg)) p' sp.inv a2

theorem tryStarts_blockStarts_sim (he : StdEol e) (hP : ParaSimAll x e X) (h7 : Start7Inv) (p : LP) (h : BT.Inv p)
    (hl : LineOK X body nl p) :
    tryStarts (blockStartFns x) (mapLP e X p) = mapLP e X (tryStarts (blockStartFns x) p) ∧
      LineOK X body nl (tryStarts (blockStartFns x) p) :=
  tryStarts_sim _ (blockStartFns_sim he hP h7) (blockStartFns_post x) p h hl

/-! ### openingLoop -/

theorem openingLoop_sim (he : StdEol e) (hP : ParaSimAll x e X) (h7 : Start7Inv) : ∀ (fuel : Nat) (p : LP), BT.Inv p →
    LineOK X body nl p →
    openingLoop x fuel (mapLP e X p) = ((openingLoop x fuel p).1, mapLP e X (openingLoop x fuel p).2) ∧
      LineOK X body nl (openingLoop x fuel p).2 := by
  intro fuel
  induction fuel with
  | zero => intro p _ hl; exact ⟨rfl, hl⟩
  | succ fuel ih =>
    intro p h hl
    unfold openingLoop
    by_cases c : (!(p.containerKind == BK.paragraph || !acceptsLines p.containerKind)) = true
    · have c' : (!((mapLP e X p).containerKind == BK.paragraph || !acceptsLines (mapLP e X p).containerKind)) = true := by
        rw [mapLP_containerKind]; exact c
      rw [if_pos c', if_pos c]; exact ⟨rfl, hl⟩
    · have c' : ¬ (!((mapLP e X p).containerKind == BK.paragraph || !acceptsLines (mapLP e X p).containerKind)) = true := by
        rw [mapLP_containerKind]; exact c
      rw [if_neg c', if_neg c]
      simp only []
      obtain ⟨a1, a2⟩ := tryStarts_blockStarts_sim he hP h7 p h hl
      have ts := tryStarts_blockStarts x p h
      rw [a1]
      generalize tryStarts (blockStartFns x) p = p' at a2 ts ⊢
      by_cases c1 : (p'.state == stateOpenMatched) = true
      · have c1' : ((mapLP e X p').state == stateOpenMatched) = true := c1
        rw [if_pos c1', if_pos c1]
        exact ih p' ts.inv a2
      · have c1' : ¬ ((mapLP e X p').state == stateOpenMatched) = true := c1
        rw [if_neg c1', if_neg c1]
        by_cases c2 : (p'.state == stateLineConsumed) = true
        · have c2' : ((mapLP e X p').state == stateLineConsumed) = true := c2
          rw [if_pos c2', if_pos c2]; exact ⟨rfl, a2⟩
        · have c2' : ¬ ((mapLP e X p').state == stateLineConsumed) = true := c2
          rw [if_neg c2', if_neg c2]; exact ⟨rfl, a2⟩

/-! ### ruleMatch -/

/-- The result of a match function on the re-written state. -/
def mapRM (e X : Bytes) (r : Option (Bool × LP)) : Option (Bool × LP) := r.map fun r => (r.1, mapLP e X r.2)

theorem ruleMatch_sim (he : StdEol e) (hP : ParaSimAll x e X) (kind : Nat) (p : LP) (h : BT.Inv p) (hl : LineOK X body nl p) :
    ruleMatch x kind (mapLP e X p) = mapRM e X (ruleMatch x kind p) ∧
      ∀ ok q, ruleMatch x kind p = some (ok, q) → LineOK X body nl q := by
  unfold ruleMatch
  by_cases k1 : (kind == BK.document || kind == BK.list) = true
  · rw [if_pos k1, if_pos k1]
    refine ⟨rfl, ?_⟩
    intro ok q hq; simp only [Option.some.injEq, Prod.mk.injEq] at hq; rw [← hq.2]; exact hl
  rw [if_neg k1, if_neg k1]
  by_cases k2 : (kind == BK.listItem) = true
  · rw [if_pos k2, if_pos k2]
    have hrb := mapLP_isRestBlank (e := e) hl he
    by_cases c1 : p.isRestBlank = true
    · have c1' : (mapLP e X p).isRestBlank = true := by rw [hrb]; exact c1
      rw [if_pos c1', if_pos c1]
      by_cases c2 : (!(p.containerKind == BK.listItem && decide (p.container.childCount > 1))) = true
      · have c2' : (!((mapLP e X p).containerKind == BK.listItem && decide ((mapLP e X p).container.childCount > 1))) = true := by
          rw [mapLP_containerKind, mapLP_container_childCount]; exact c2
        rw [if_pos c2', if_pos c2]
        refine ⟨rfl, ?_⟩
        intro ok q hq; simp only [Option.some.injEq, Prod.mk.injEq] at hq; rw [← hq.2]; exact hl
      · have c2' : ¬ (!((mapLP e X p).containerKind == BK.listItem && decide ((mapLP e X p).container.childCount > 1))) = true := by
          rw [mapLP_containerKind, mapLP_container_childCount]; exact c2
        rw [if_neg c2', if_neg c2, mapLP_indent hl he, mapLP_consumeIndentN hl he]
        refine ⟨rfl, ?_⟩
        intro ok q hq; simp only [Option.some.injEq, Prod.mk.injEq] at hq; rw [← hq.2]; exact hl.consumeIndentN he _
    · have c1' : ¬ (mapLP e X p).isRestBlank = true := by rw [hrb]; exact c1
      rw [if_neg c1', if_neg c1]
      have hci' := mapLP_containerIndent (e := e) (X := X) (p := p)
      cases hci : p.containerIndent with
      | none =>
        rw [hci] at hci'
        rw [hci']
        refine ⟨rfl, ?_⟩
        intro ok q hq; simp only [Option.some.injEq, Prod.mk.injEq] at hq; rw [← hq.2]; exact hl
      | some ci =>
        rw [hci] at hci'
        rw [hci']
        simp only []
        rw [mapLP_indent hl he]
        by_cases c3 : (p.indent : Int) ≥ ci
        · rw [if_pos c3, if_pos c3, mapLP_consumeIndentN hl he]
          refine ⟨rfl, ?_⟩
          intro ok q hq; simp only [Option.some.injEq, Prod.mk.injEq] at hq; rw [← hq.2]; exact hl.consumeIndentN he _
        · rw [if_neg c3, if_neg c3]
          refine ⟨rfl, ?_⟩
          intro ok q hq; simp only [Option.some.injEq, Prod.mk.injEq] at hq; rw [← hq.2]; exact hl
  rw [if_neg k2, if_neg k2]
  by_cases k3 : (kind == BK.blockQuote) = true
  · rw [if_pos k3, if_pos k3]
    simp only []
    rw [mapLP_indent hl he, mapLP_bai_inv eolInv_bqPrefix hl he]
    by_cases c1 : p.indent ≥ codeBlockIndentLimit
    · rw [if_pos c1, if_pos c1]
      refine ⟨rfl, ?_⟩
      intro ok q hq; simp only [Option.some.injEq, Prod.mk.injEq] at hq; rw [← hq.2]; exact hl
    rw [if_neg c1, if_neg c1]
    by_cases c2 : (!hasBytePrefix p.bytesAfterIndent blockQuotePrefix) = true
    · rw [if_pos c2, if_pos c2]
      refine ⟨rfl, ?_⟩
      intro ok q hq; simp only [Option.some.injEq, Prod.mk.injEq] at hq; rw [← hq.2]; exact hl
    rw [if_neg c2, if_neg c2]
    have hpre : hasBytePrefix p.bytesAfterIndent blockQuotePrefix = true := by
      cases hh : hasBytePrefix p.bytesAfterIndent blockQuotePrefix
      · rw [hh] at c2; exact absurd rfl c2
      · rfl
    obtain ⟨ci, hdrop, hil⟩ := consumeAll p h
    rw [mapLP_consumeIndentN hl he]
    have hl1 := hl.consumeIndentN he p.indent
    have hrec := rec_body eolInv_bqPrefix hl1 _ hdrop
    rw [hpre] at hrec
    generalize p.consumeIndentN p.indent = p1 at ci hdrop hil hl1 hrec ⊢
    have hlen : 1 ≤ (body.drop p1.i).length := BT.hasBytePrefix_length _ _ hrec.symm
    rw [mapLP_advance_rec hl1 he blockQuotePrefix.length hlen]
    have hl3 := hl1.advance blockQuotePrefix.length
    generalize p1.advance blockQuotePrefix.length = p3 at hl3 ⊢
    rw [mapLP_indent hl3 he]
    by_cases c3 : p3.indent > 0
    · rw [if_pos c3, if_pos c3, mapLP_consumeIndentN hl3 he 1]
      refine ⟨rfl, ?_⟩
      intro ok q hq; simp only [Option.some.injEq, Prod.mk.injEq] at hq; rw [← hq.2]; exact hl3.consumeIndentN he 1
    · rw [if_neg c3, if_neg c3]
      refine ⟨rfl, ?_⟩
      intro ok q hq; simp only [Option.some.injEq, Prod.mk.injEq] at hq; rw [← hq.2]; exact hl3
  rw [if_neg k3, if_neg k3]
  by_cases k4 : (kind == BK.fencedCode) = true
  · rw [if_pos k4, if_pos k4]
    simp only []
    have hclosing : (decide ((mapLP e X p).indent < codeBlockIndentLimit) &&
        (decide ((parseCodeFence (mapLP e X p).bytesAfterIndent).n > 0) &&
          !(decide ((parseCodeFence (mapLP e X p).bytesAfterIndent).infoStart ≥ 0) &&
            decide ((parseCodeFence (mapLP e X p).bytesAfterIndent).infoEnd ≥ 0) &&
            decide ((parseCodeFence (mapLP e X p).bytesAfterIndent).infoStart ≤ (parseCodeFence (mapLP e X p).bytesAfterIndent).infoEnd)) &&
          (parseCodeFence (mapLP e X p).bytesAfterIndent).char == (mapLP e X p).container.label.char &&
          decide (((parseCodeFence (mapLP e X p).bytesAfterIndent).n : Int) ≥ (mapLP e X p).container.label.n))) =
        (decide (p.indent < codeBlockIndentLimit) &&
        (decide ((parseCodeFence p.bytesAfterIndent).n > 0) &&
          !(decide ((parseCodeFence p.bytesAfterIndent).infoStart ≥ 0) &&
            decide ((parseCodeFence p.bytesAfterIndent).infoEnd ≥ 0) &&
            decide ((parseCodeFence p.bytesAfterIndent).infoStart ≤ (parseCodeFence p.bytesAfterIndent).infoEnd)) &&
          (parseCodeFence p.bytesAfterIndent).char == p.container.label.char &&
          decide (((parseCodeFence p.bytesAfterIndent).n : Int) ≥ p.container.label.n))) := by
      rw [mapLP_indent hl he, mapLP_bai_inv eolInv_fence hl he, mapLP_container_char, mapLP_container_n]
    by_cases c1 : (decide (p.indent < codeBlockIndentLimit) &&
        (decide ((parseCodeFence p.bytesAfterIndent).n > 0) &&
          !(decide ((parseCodeFence p.bytesAfterIndent).infoStart ≥ 0) &&
            decide ((parseCodeFence p.bytesAfterIndent).infoEnd ≥ 0) &&
            decide ((parseCodeFence p.bytesAfterIndent).infoStart ≤ (parseCodeFence p.bytesAfterIndent).infoEnd)) &&
          (parseCodeFence p.bytesAfterIndent).char == p.container.label.char &&
          decide (((parseCodeFence p.bytesAfterIndent).n : Int) ≥ p.container.label.n))) = true
    · have c1' := c1; rw [← hclosing] at c1'
      rw [if_pos c1', if_pos c1, mapLP_consumeLine hl he]
      refine ⟨rfl, ?_⟩
      intro ok q hq; simp only [Option.some.injEq, Prod.mk.injEq] at hq; rw [← hq.2]; exact hl.consumeLine
    · have c1' := c1; rw [← hclosing] at c1'
      rw [if_neg c1', if_neg c1, mapLP_indent hl he, mapLP_containerIndent]
      by_cases c2 : p.indent < (p.containerIndent.getD 0).toNat
      · rw [if_pos c2, if_pos c2, mapLP_consumeIndentN hl he]
        refine ⟨rfl, ?_⟩
        intro ok q hq; simp only [Option.some.injEq, Prod.mk.injEq] at hq; rw [← hq.2]; exact hl.consumeIndentN he _
      · rw [if_neg c2, if_neg c2, mapLP_consumeIndentN hl he]
        refine ⟨rfl, ?_⟩
        intro ok q hq; simp only [Option.some.injEq, Prod.mk.injEq] at hq; rw [← hq.2]; exact hl.consumeIndentN he _
  rw [if_neg k4, if_neg k4]
  by_cases k5 : (kind == BK.indentedCode) = true
  · rw [if_pos k5, if_pos k5]
    simp only []
    rw [mapLP_indent hl he]
    by_cases c1 : p.indent < codeBlockIndentLimit
    · rw [if_pos c1, if_pos c1]
      have hrb := mapLP_isRestBlank (e := e) hl he
      by_cases c2 : (!p.isRestBlank) = true
      · have c2' : (!(mapLP e X p).isRestBlank) = true := by rw [hrb]; exact c2
        rw [if_pos c2', if_pos c2]
        refine ⟨rfl, ?_⟩
        intro ok q hq; simp only [Option.some.injEq, Prod.mk.injEq] at hq; rw [← hq.2]; exact hl
      · have c2' : ¬ (!(mapLP e X p).isRestBlank) = true := by rw [hrb]; exact c2
        rw [if_neg c2', if_neg c2, mapLP_consumeIndentN hl he]
        refine ⟨rfl, ?_⟩
        intro ok q hq; simp only [Option.some.injEq, Prod.mk.injEq] at hq; rw [← hq.2]; exact hl.consumeIndentN he _
    · rw [if_neg c1, if_neg c1, mapLP_consumeIndentN hl he]
      refine ⟨rfl, ?_⟩
      intro ok q hq; simp only [Option.some.injEq, Prod.mk.injEq] at hq; rw [← hq.2]; exact hl.consumeIndentN he _
  rw [if_neg k5, if_neg k5]
  by_cases k6 : (kind == BK.htmlBlock) = true
  · rw [if_pos k6, if_pos k6]
    have hend : htmlBlockEnd (mapLP e X p).container.label.n.toNat (mapLP e X p).bytesAfterIndent =
        htmlBlockEnd p.container.label.n.toNat p.bytesAfterIndent := by
      rw [mapLP_container_n, htmlBlockEnd_bai hl he]
    by_cases c1 : htmlBlockEnd p.container.label.n.toNat p.bytesAfterIndent = true
    · have c1' := c1; rw [← hend] at c1'
      rw [if_pos c1', if_pos c1]
      have hrb := mapLP_isRestBlank (e := e) hl he
      by_cases c2 : p.isRestBlank = true
      · have c2' : (mapLP e X p).isRestBlank = true := by rw [hrb]; exact c2
        rw [if_pos c2', if_pos c2]
        refine ⟨rfl, ?_⟩
        intro ok q hq; simp only [Option.some.injEq, Prod.mk.injEq] at hq; rw [← hq.2]; exact hl
      · have c2' : ¬ (mapLP e X p).isRestBlank = true := by rw [hrb]; exact c2
        rw [if_neg c2', if_neg c2]
        simp only []
        rw [mapLP_collectInline_rest hl he h.cur IK.rawHTML (by decide)]
        have hl4 := hl.collectInline x IK.rawHTML p.bytesAfterIndent.length
        rw [mapLP_consumeLine hl4 he]
        refine ⟨rfl, ?_⟩
        intro ok q hq; simp only [Option.some.injEq, Prod.mk.injEq] at hq; rw [← hq.2]; exact hl4.consumeLine
    · have c1' := c1; rw [← hend] at c1'
      rw [if_neg c1', if_neg c1]
      refine ⟨rfl, ?_⟩
      intro ok q hq; simp only [Option.some.injEq, Prod.mk.injEq] at hq; rw [← hq.2]; exact hl
  rw [if_neg k6, if_neg k6]
  by_cases k7 : (kind == BK.paragraph) = true
  · rw [if_pos k7, if_pos k7, mapLP_isRestBlank hl he]
    refine ⟨rfl, ?_⟩
    intro ok q hq; simp only [Option.some.injEq, Prod.mk.injEq] at hq; rw [← hq.2]; exact hl
  · rw [if_neg k7, if_neg k7]
    refine ⟨rfl, ?_⟩
    intro ok q hq; cases hq

/-! ### descendOpenBlocks -/

theorem descendLoop_sim (he : StdEol e) (hP : ParaSimAll x e X) : ∀ (fuel : Nat) (p : LP) (parent : Nat),
    BT.Inv { p with depth := parent } → LineOK X body nl p →
    descendLoop x fuel (mapLP e X p) parent =
      ((descendLoop x fuel p parent).1, mapLP e X (descendLoop x fuel p parent).2) ∧
      LineOK X body nl (descendLoop x fuel p parent).2 := by
  intro fuel
  induction fuel with
  | zero => intro p parent _ hl; exact ⟨rfl, hl.frame rfl rfl rfl hl.hi⟩
  | succ fuel ih =>
    intro p parent h hl
    unfold descendLoop
    have hsg : spineGet (mapLP e X p).root (parent + 1) = (spineGet p.root (parent + 1)).map (mapPB (eolPosZ e X)) := by
      rw [mapLP_root, spineGet_map]
    rw [hsg]
    cases hc : spineGet p.root (parent + 1) with
    | none => exact ⟨rfl, hl.frame rfl rfl rfl hl.hi⟩
    | some c =>
      simp only [Option.map_some]
      rw [mapPB_isOpen (signOK_eolPosZ e X), mapPB_kind]
      by_cases c1 : (!c.isOpen) = true
      · rw [if_pos c1, if_pos c1]; exact ⟨rfl, hl.frame rfl rfl rfl hl.hi⟩
      rw [if_neg c1, if_neg c1]
      have h1 : BT.Inv { p with depth := parent + 1 } :=
        ⟨h.panic, ⟨h.cur.hi, h.cur.htab⟩, ⟨h.tree.root, by show (spineGet p.root (parent + 1)).isSome; rw [hc]; rfl⟩⟩
      have h1s : BT.Inv { p with depth := parent + 1, state := stateDescending } := h1.setState stateDescending
      have hl1 : LineOK X body nl { p with depth := parent + 1, state := stateDescending } := hl.frame rfl rfl rfl hl.hi
      obtain ⟨r1, r2⟩ := ruleMatch_sim (x := x) he hP c.kind _ h1s hl1
      have hm : ({ ({ mapLP e X p with depth := parent + 1 } : LP) with state := stateDescending } : LP) =
          mapLP e X { p with depth := parent + 1, state := stateDescending } := rfl
      rw [hm, r1]
      cases hrm : ruleMatch x c.kind { p with depth := parent + 1, state := stateDescending } with
      | none => exact ⟨rfl, hl.frame rfl rfl rfl hl.hi⟩
      | some r =>
        obtain ⟨ok, p2⟩ := r
        simp only [mapRM, Option.map_some]
        have hl2 := r2 ok p2 hrm
        have rm := ruleMatch_post x c.kind _ h1s rfl ok p2 hrm
        have d2 : p2.depth = parent + 1 := rm.depth
        by_cases c2 : (p2.state == stateDescendTerminated) = true
        · have c2' : ((mapLP e X p2).state == stateDescendTerminated) = true := c2
          rw [if_pos c2', if_pos c2]
          simp only []
          have hcc := mapLP_closeContainer x hl2 he (hP.at hl2) ((p2.lineStart : Int) + (p2.i : Int))
          rw [mapLP_cursor_cast hl2] at hcc
          rw [hcc]
          exact ⟨rfl, (hl2.closeContainer x _).frame rfl rfl rfl (hl2.closeContainer x _).hi⟩
        · have c2' : ¬ ((mapLP e X p2).state == stateDescendTerminated) = true := c2
          rw [if_neg c2', if_neg c2]
          by_cases c3 : (!ok) = true
          · rw [if_pos c3, if_pos c3]; exact ⟨rfl, hl2.frame rfl rfl rfl hl2.hi⟩
          · rw [if_neg c3, if_neg c3]
            apply ih p2 (parent + 1) _ hl2
            exact rm.inv.setDepth (parent + 1) (by omega)

theorem descendOpenBlocks_sim (he : StdEol e) (hP : ParaSimAll x e X) (p : LP) (h : BT.Inv { p with depth := 0 })
    (hl : LineOK X body nl p) :
    descendOpenBlocks x (mapLP e X p) = ((descendOpenBlocks x p).1, mapLP e X (descendOpenBlocks x p).2) ∧
      LineOK X body nl (descendOpenBlocks x p).2 := by
  unfold descendOpenBlocks
  rw [mapLP_root, spineLength_map]
  exact descendLoop_sim he hP _ p 0 h hl

end

end CM.Proofs
