import CM.Proofs.ParseWholeGood
import CM.Proofs.StreamErr
/-
Whole-`Parse` theorems, part 6: the stream machine. Every `Root` delivered by `drain (blocksLP x) …` (from the parser
`Parse` builds, or from a streaming parser with any reader script) satisfies

    `RootGood r`  :=  `∃ S, r.source = fillNulls (S.take r.block.label.stop.toNat) ∧ PBI (Good S) r.block`

(`S` is the parser's buffer at the moment the root is cut off). The sources fed to one line parser are prefixes of each
other (`readline_prefix`), the left-over blocks are re-based together with the buffer (`Good.shift`).
-/
namespace CM.Proofs.PW
open CM CM.Model CM.Gen CM.Spec
open CM.Proofs.BT CM.Proofs.BG

/-! ### the buffer up to the parse position only grows -/

theorem take_prefix_append {α} (l X : List α) (i : Nat) : l.take i <+: (l ++ X).take i := by
  rw [List.take_append]
  exact List.prefix_append _ _

theorem padNulls_prefix (b bytes : Bytes) : ∃ X, padNulls (b ++ bytes) b.length = b ++ X := by
  unfold padNulls
  exact ⟨_, by rw [List.take_left']; rfl⟩

theorem readline_prefix : ∀ (f : Nat) (p : BP), p.buf.take p.i <+: (readline f p).2.buf.take (readline f p).2.i := by
  intro f
  induction f with
  | zero => intro p; exact List.prefix_refl _
  | succ f ih =>
    intro p
    cases hq : eolEnd? p with
    | some e =>
      rw [readline_some f hq]
      show p.buf.take p.i <+: p.buf.take e
      rw [eolEnd?_eq] at hq
      rcases (eolEndB_bounds hq).2 with h | ⟨_, h⟩
      · exact List.take_prefix_take_left (Nat.le_of_lt h)
      · rw [h, List.take_length]; exact List.take_prefix _ _
    | none =>
      rcases readline_none_cases f hq with ⟨n, hr⟩ | hr
      · rw [hr]
        show p.buf.take p.i <+: (p.buf.take p.i).take p.i
        rw [List.take_take, Nat.min_self]
        exact List.prefix_refl _
      · rw [hr]
        refine List.IsPrefix.trans ?_ (ih _)
        show p.buf.take p.i <+: (padNulls (p.buf ++ _) p.buf.length).take p.i
        obtain ⟨X, hX⟩ := padNulls_prefix p.buf (p.rd.read (readReq p.buf.length)).1
        rw [hX]
        exact take_prefix_append _ _ _

/-! ### the line parser over a growing source -/

theorem PBI_good_prefix {S S' : Bytes} (h : S <+: S') {b : PB} (hb : PBI (Good S) b) : PBI (Good S') b := by
  obtain ⟨m, rfl⟩ := h
  exact PBI.mono (fun t ht => ht.mono m) b hb

theorem AllI_good_prefix {S S' : Bytes} (h : S <+: S') {L : List PB} (hL : AllI (Good S) L) : AllI (Good S') L :=
  fun b hb => PBI_good_prefix h (hL b hb)

theorem reset_source (p : LP) (source : Bytes) (lineStart : Nat) : (p.reset source lineStart).source = source := by
  unfold LP.reset LP.updateTabRemaining
  split <;> rfl

theorem blocksLP_line_I (x : PExt) (lp : LP) (source : Bytes) (lineStart : Nat) (h : PBI (Good source) lp.root) :
    PBI (Good source) ((blocksLP x).line lp source lineStart).root := by
  have hJ : J Good source (lp.reset source lineStart) := ⟨reset_source lp source lineStart, by rw [reset_root]; exact h⟩
  exact (processLine_J (sites_good x) _ hJ).2

theorem docRoot_I {Q : Tree → Prop} (bs : List PB) (h : AllI Q bs) : PBI Q (docRoot bs) := by
  unfold docRoot
  rw [PBI_mk]
  exact ⟨fun _ ht => (by cases ht), h⟩

theorem kids_I {Q : Tree → Prop} (b : PB) (h : PBI Q b) : AllI Q b.blocks := by
  obtain ⟨l, bs, is⟩ := b
  exact ((PBI_mk l bs is).1 h).2

/-! ### the machine -/

/-- What is known about a delivered root: its source is the filled head of a buffer `S`, and every inline child of its
    block is `Good` with respect to `S`. -/
def RootGood (r : Root) : Prop :=
  ∃ S : Bytes, r.source = fillNulls (S.take r.block.label.stop.toNat) ∧ PBI (Good S) r.block

/-- The pending blocks are `Good` with respect to the buffer up to the parse position. -/
def BPGood (p : BP) : Prop := AllI (Good (p.buf.take p.i)) p.blocks

theorem makeRoot_I {p : BP} {kids : List PB} {r : Root} {p' : BP} (h : makeRoot p kids = some (r, p'))
    (hk : AllI (Good (p.buf.take p.i)) kids) : RootGood r ∧ BPGood p' := by
  unfold makeRoot at h
  split at h
  · cases h
  · rename_i k rest
    split at h
    · cases h
    · simp only [Option.some.injEq, Prod.mk.injEq] at h
      obtain ⟨rfl, rfl⟩ := h
      refine ⟨⟨p.buf, rfl, ?_⟩, ?_⟩
      · exact PBI_good_prefix (List.take_prefix _ _) (hk k (List.mem_cons_self ..))
      · show AllI (Good ((p.buf.drop k.label.stop.toNat).take (p.i - k.label.stop.toNat))) _
        rw [← List.drop_take]
        exact AllI_offsetPBs _ (fun t ht => ht.shift _) rest (fun b hb => hk b (List.mem_cons_of_mem _ hb))

theorem parseLines_I (x : PExt) : ∀ (fuel : Nat) (lp : LP) (ls : Nat) (p : BP) (r : Root) (p' : BP),
    (∃ S0, S0 <+: p.buf.take p.i ∧ PBI (Good S0) lp.root) →
    parseLines (blocksLP x) fuel lp ls p = (.block r, p') → RootGood r ∧ BPGood p' := by
  intro fuel
  induction fuel with
  | zero => intro lp ls p r p' _ h; simp [parseLines] at h
  | succ fuel ih =>
    intro lp ls p r p' hlp h
    obtain ⟨S0, hpre, hlp0⟩ := hlp
    have hl := blocksLP_line_I x lp (p.buf.take p.i) ls (PBI_good_prefix hpre hlp0)
    have hkids : AllI (Good (p.buf.take p.i)) ((blocksLP x).kids ((blocksLP x).line lp (p.buf.take p.i) ls)) :=
      kids_I _ hl
    simp only [parseLines] at h
    split at h
    · cases h
    · split at h
      · rename_i r0 p0 hmr
        simp only [Prod.mk.injEq, NBOut.block.injEq] at h
        obtain ⟨rfl, rfl⟩ := h
        exact makeRoot_I hmr hkids
      · have hp := readline_prefix (p.rd.data.length + p.rd.sched.length + 2) p
        generalize readline (p.rd.data.length + p.rd.sched.length + 2) p = rl at h hp
        obtain ⟨ok, p1⟩ := rl
        exact ih _ _ _ r p' ⟨_, hp, hl⟩ h

/-- One `NextBlock`. -/
theorem nextBlock_I (x : PExt) (p : BP) (r : Root) (p' : BP) (hk : BPGood p)
    (h : nextBlock (blocksLP x) p = (.block r, p')) : RootGood r ∧ BPGood p' := by
  unfold nextBlock at h
  split at h
  · rename_i r0 p0 hmr
    simp only [Prod.mk.injEq, NBOut.block.injEq] at h
    obtain ⟨rfl, rfl⟩ := h
    exact makeRoot_I hmr hk
  · simp only [] at h
    split at h
    · have hb := readline_blocks (p.rd.data.length + p.rd.sched.length + 2) p
      have hp := readline_prefix (p.rd.data.length + p.rd.sched.length + 2) p
      generalize readline (p.rd.data.length + p.rd.sched.length + 2) p = rl at h hb hp
      obtain ⟨ok, p1⟩ := rl
      simp only [] at h hb hp
      exact parseLines_I x _ _ _ _ r p' ⟨_, hp, docRoot_I _ (by rw [hb]; exact hk)⟩ h
    · rename_i hlen
      have hnil : p.blocks = [] := by
        cases hb : p.blocks with
        | nil => rfl
        | cons a b => rw [hb] at hlen; simp at hlen
      split at h
      · split at h
        · simp at h
        · simp at h
      · rename_i q _ hsb
        have hq := skipBlank_blocks _ _ q _ hsb
        refine parseLines_I x _ _ _ _ r p' ⟨[], List.nil_prefix, docRoot_I _ ?_⟩ h
        rw [hq]
        show AllI (Good []) p.blocks
        rw [hnil]
        exact AllI.nil

theorem drain_I (x : PExt) : ∀ (fuel : Nat) (p : BP) (acc : List Root), BPGood p →
    (∀ r ∈ acc, RootGood r) → ∀ r ∈ (drain (blocksLP x) fuel p acc).1, RootGood r := by
  intro fuel
  induction fuel with
  | zero =>
    intro p acc _ hacc r hr
    simp only [drain, List.mem_reverse] at hr
    exact hacc r hr
  | succ fuel ih =>
    intro p acc hk hacc r hr
    unfold drain at hr
    split at hr
    · rename_i r0 p0 hnb
      have g := nextBlock_I x p r0 p0 hk hnb
      apply ih p0 (r0 :: acc) g.2 _ r hr
      intro r' hr'
      rcases List.mem_cons.1 hr' with rfl | hr'
      · exact g.1
      · exact hacc r' hr'
    · simp only [List.mem_reverse] at hr
      exact hacc r hr

/-- **Every inline child of every block of every `Root` the block phase delivers is `Good`**: references only on the
    LinkLabel children of blocks, soft breaks with empty spans, character references of the shape `&…;` — from any
    parser state whose pending blocks are. -/
theorem drain_good (x : PExt) (fuel : Nat) (p : BP) (hp : BPGood p) :
    ∀ r ∈ (drain (blocksLP x) fuel p []).1, RootGood r :=
  drain_I x fuel p [] hp (fun _ h => by cases h)

/-- `Parse` (the whole input in the buffer). -/
theorem drain_good_mem (x : PExt) (fuel : Nat) (source : Bytes) :
    ∀ r ∈ (drain (blocksLP x) fuel (memParser source) []).1, RootGood r :=
  drain_good x fuel _ (fun _ h => by cases h)

/-- `NewBlockParser(r)` (streaming, any reader script). -/
theorem drain_good_stream (x : PExt) (fuel : Nat) (rd : Reader) :
    ∀ r ∈ (drain (blocksLP x) fuel (newBlockParser rd) []).1, RootGood r :=
  drain_good x fuel _ (fun _ h => by cases h)

end CM.Proofs.PW
