import CM.Proofs.ShapesStarts
import CM.Proofs.ShapesCloseSetext
import CM.Proofs.Recognize1
/-
C13, block half — the setext heading start: the paragraph is turned into a setext heading and closed in one step;
`onCloseParagraph` may leave link reference definitions, the heading, or the orphan paragraph (the underline) behind.
-/
namespace CM.Proofs.Shp
open CM CM.Model CM.Gen CM.Proofs.BG CM.Proofs.BT
open CM.Proofs.BSp (curPos)

/-- An edit at depth `d + 1` followed by an edit at depth `d` is one edit at depth `d`. -/
theorem spineModify_comp_up (g h : PB → PB) : ∀ (d : Nat) (b : PB),
    spineModify h (spineModify g b (d + 1)) d = spineModify (fun P => h (spineModify g P 1)) b d := by
  intro d
  induction d with
  | zero => intro b; rw [spineModify_zero, spineModify_zero]
  | succ d ih =>
    intro b
    obtain ⟨l, bs, is⟩ := b
    rw [spineModify_succ (d := d + 1)]
    cases hgl : bs.getLast? with
    | none => simp only []; rw [spineModify_succ, spineModify_succ, hgl]
    | some c =>
      simp only []
      rw [spineModify_succ, spineModify_succ]
      simp only [List.getLast?_append, List.getLast?_singleton, Option.some_or, List.dropLast_concat, hgl]
      rw [ih c]

theorem replaceLast_modify_one (cb : PB → List PB) (f : PB → PB) (P : PB) :
    replaceLastFn cb (spineModify f P 1) = replaceLastFn (fun c => cb (f c)) P := by
  obtain ⟨l, bs, is⟩ := P
  rw [spineModify_succ]
  cases hgl : bs.getLast? with
  | none => simp only [replaceLastFn, hgl]
  | some c =>
    simp only [replaceLastFn, spineModify_zero, List.getLast?_append, List.getLast?_singleton, Option.some_or,
      List.dropLast_concat, hgl]

/-- A paragraph has no block children. -/
theorem para_no_child' {c : PB} (hg : PBGrammar c) (hk : c.kind = BK.paragraph) : c.blocks = [] := by
  obtain ⟨l, bs, is⟩ := c
  have hk' : l.kind = BK.paragraph := hk
  have hloc := ((PBGrammar_mk l bs is).1 hg).1
  unfold localOK at hloc
  simp only [Bool.and_eq_true] at hloc
  have hb := hloc.1
  unfold blocksOK at hb
  rw [hk'] at hb
  have : bs = [] := by simpa [BK.paragraph, BK.document, BK.blockQuote, BK.listItem, BK.list] using hb
  exact this

/-! ### the underline -/

theorem setextRest_run (c : UInt8) : ∀ rest : Bytes, setextRest c rest = true →
    ∃ (m : Nat) (w : Bytes), rest = List.replicate m c ++ w ∧ ∀ b ∈ w, Spec.isWs b = true := by
  intro rest
  induction rest with
  | nil => intro _; exact ⟨0, [], rfl, fun _ h => by cases h⟩
  | cons b r ih =>
    intro h
    rw [setextRest] at h
    split at h
    · refine ⟨0, b :: r, rfl, ?_⟩
      unfold isBlankLine at h
      rw [List.all_eq_true] at h
      intro y hy
      rw [← genWs_eq]
      exact h y hy
    · rename_i hbc
      have hb : b = c := by simpa using hbc
      subst hb
      obtain ⟨m, w, e, hw⟩ := ih h
      exact ⟨m + 1, w, by rw [e]; simp [List.replicate_succ], hw⟩

/-- A setext underline of level `lev`: a non-empty run of the underline character of that level, then white space. -/
theorem underline_run (bai : Bytes) (lev : Nat) (h : parseSetextHeadingUnderline bai = lev) (h0 : lev ≠ 0) :
    ∃ (m : Nat) (w : Bytes), bai = List.replicate (m + 1) (ulChar (lev : Int)) ++ w ∧ ∀ b ∈ w, Spec.isWs b = true := by
  cases bai with
  | nil => exact absurd h.symm h0
  | cons c rest =>
    simp only [parseSetextHeadingUnderline] at h
    split at h
    · rename_i hc
      have hc' : c = 0x3D := by simpa using hc
      subst hc'
      split at h
      · rename_i hr
        obtain ⟨m, w, e, hw⟩ := setextRest_run _ rest hr
        subst h
        exact ⟨m, w, by rw [e]; simp [List.replicate_succ, ulChar], hw⟩
      · exact absurd h.symm h0
    · split at h
      · rename_i hc
        have hc' : c = 0x2D := by simpa using hc
        subst hc'
        split at h
        · rename_i hr
          obtain ⟨m, w, e, hw⟩ := setextRest_run _ rest hr
          subst h
          exact ⟨m, w, by rw [e]; simp [List.replicate_succ, ulChar], hw⟩
        · exact absurd h.symm h0
      · exact absurd h.symm h0

theorem ulChar_not_ws (lev : Int) : Spec.isWs (ulChar lev) = false := by
  unfold ulChar; split <;> decide

/-- A source that ends in an underline (after `A`): the text without its trailing white space ends in the underline
    character, after `A`. -/
theorem underline_body (src A bai : Bytes) (lev : Nat) (hsrc : src = A ++ bai) (h : parseSetextHeadingUnderline bai = lev)
    (h0 : lev ≠ 0) :
    (Spec.dropRight Spec.isWs (src.take ((src.length : Int)).toNat)).getLast? = some (ulChar (lev : Int)) ∧
      A.length < bodyLen src src.length := by
  obtain ⟨m, w, hb, hw⟩ := underline_run bai lev h h0
  have hbody : Spec.dropRight Spec.isWs src = A ++ List.replicate (m + 1) (ulChar (lev : Int)) := by
    rw [hsrc, hb, ← List.append_assoc]
    apply dropRight_eq _ _ _ hw
    intro c hc
    rw [List.getLast?_append, List.replicate_succ', List.getLast?_append] at hc
    simp only [List.getLast?_singleton, Option.some_or, Option.some.injEq] at hc
    subst hc
    exact ulChar_not_ws _
  unfold bodyLen
  rw [Int.toNat_natCast, List.take_length, hbody]
  refine ⟨?_, by simp⟩
  rw [List.getLast?_append, List.replicate_succ', List.getLast?_append]
  simp

/-- Closing an open paragraph that has just been turned into a setext heading. -/
theorem closeBlock_setext_Sh {setx : Bool} (x : PExt) (src : Bytes) (e e' : Int) (he' : e' ≤ src.length) (c : PB) (lo : Int) (n : Nat)
    (h0 : 0 ≤ lo) (hg : PBGrammar c) (hk : c.kind = BK.paragraph) (ho : c.label.stop < 0) (h1 : 1 ≤ n) (h2 : n ≤ 2)
    (hul : (Spec.dropRight Spec.isWs (src.take e'.toNat)).getLast? = some (ulChar (n : Int))) (hU : e < bodyLen src e')
    (h : Sh setx src lo e c) :
    ShL setx src true lo e' (closeBlock x src e' (c.setLabel fun l => { l with kind := BK.setextHeading, n := n })) := by
  have hbs := para_no_child' hg hk
  have hrel := (setext_relabel n hk hg h1 h2).1
  obtain ⟨l, bs, is⟩ := c
  have hbs' : bs = [] := hbs
  subst hbs'
  have hk' : l.kind = BK.paragraph := hk
  have ho' : l.stop < 0 := ho
  have hlo : lo ≤ e := Sh_open_le h ho
  have hloc := ((PBGrammar_mk _ _ _).1 hrel).1
  rw [Sh_mk, nodeOK_iff, kindOK_iff, textOK_iff, openOK_iff] at h
  have hi := (h.1.2.2.2.2.1 (by rw [hk']; rfl) ho').2
  have hs := (h.1.2.2.2.2.2 ho').2.1
  show ShL setx src true lo e' (closeBlock x src e' (.mk { l with kind := BK.setextHeading, n := n } [] is))
  rw [closeBlock]
  have hno : ¬ ({ l with kind := BK.setextHeading, n := (n : Int) } : PLabel).stop ≥ 0 := by show ¬ l.stop ≥ 0; omega
  simp only [hno, if_false]
  have e1 : (BK.setextHeading == BK.list) = false := by decide
  have e2 : (BK.setextHeading == BK.paragraph || BK.setextHeading == BK.setextHeading) = true := by decide
  simp only [e1, Bool.false_eq_true, if_false, e2, if_true]
  exact onCloseParagraph_setext_Sh x src { l with kind := BK.setextHeading, n := n } is lo e e' h0 hlo he' rfl hs hloc hi hul hU

theorem startSetext_LI {setx am : Bool} (x : PExt) (p : LP) (h : SPre setx am p) (hs : p.state = 0) :
    LI setx am (startSetext x p) := by
  have hG := startSetext_G x p h.w.gi hs
  have hP := startSetext_post x p h.w.inv hs
  unfold startSetext at hG hP ⊢
  simp only [] at hG hP ⊢
  split
  · exact h.li
  rename_i hck
  split
  · exact h.li
  split
  · exact h.li
  rename_i hx2 hlev
  rw [if_neg hck, if_neg hx2, if_neg hlev] at hG hP
  have hck' : p.containerKind = BK.paragraph := by simpa using hck
  have ham : am = true := by
    cases am
    · exact absurd hck' (h.amc rfl)
    · rfl
  have h2 := parseSetext_le p.bytesAfterIndent
  have h1 : 1 ≤ parseSetextHeadingUnderline p.bytesAfterIndent := by
    have : parseSetextHeadingUnderline p.bytesAfterIndent ≠ 0 := by simpa using hlev
    omega
  -- the underline: the source ends, white space dropped, in the underline character, after the cursor
  have hsrc0' : SrcOK p := h.w.src
  obtain ⟨hul, hU⟩ : (Spec.dropRight Spec.isWs (p.source.take ((p.source.length : Int)).toNat)).getLast? =
        some (ulChar ((parseSetextHeadingUnderline p.bytesAfterIndent : Nat) : Int)) ∧
      curPos p < bodyLen p.source p.source.length := by
    have hbai : p.bytesAfterIndent = (p.line.drop p.i).dropWhile (fun c => c == SP || c == TAB) := rfl
    have hsplit : p.source = (p.source.take (p.lineStart + p.i) ++
        (p.line.drop p.i).takeWhile (fun c => c == SP || c == TAB)) ++ p.bytesAfterIndent := by
      rw [List.append_assoc, hbai, List.takeWhile_append_dropWhile, ← src_drop_cur hsrc0', List.take_append_drop]
    have hub := underline_body p.source _ p.bytesAfterIndent _ hsplit rfl (by simpa using hlev)
    refine ⟨hub.1, ?_⟩
    have hA := hub.2
    rw [List.length_append, List.length_take] at hA
    have := hsrc0'.len
    have := h.w.inv.cur.hi
    unfold curPos
    omega
  generalize parseSetextHeadingUnderline p.bytesAfterIndent = lev at h1 h2 hG hP hul ⊢
  have hd : 0 < p.depth := by
    rcases Nat.eq_zero_or_pos p.depth with h0 | h0
    · rw [containerKind_zero p h0, h.w.inv.tree.root] at hck'; cases hck'
    · exact h0
  generalize hf : (PB.setLabel fun l : PLabel => { l with kind := BK.setextHeading, n := (lev : Int) }) = f at hG hP ⊢
  have i1 : Inv (p.modifyContainer f) := h.w.inv.of_treeOp rfl rfl (modifyContainer_ok_pos p f h.w.inv.tree hd)
  have hroot1 : (p.modifyContainer f).root = spineModify f p.root p.depth := rfl
  have hdep1 : (p.modifyContainer f).depth = p.depth := rfl
  have hsrc1 : (p.modifyContainer f).source = p.source := rfl
  have hls1 : (p.modifyContainer f).lineStart = p.lineStart := rfl
  have hline1 : (p.modifyContainer f).line = p.line := rfl
  have hst1 : (p.modifyContainer f).state = p.state := rfl
  generalize p.modifyContainer f = p1 at i1 hroot1 hdep1 hsrc1 hls1 hline1 hst1 hG hP ⊢
  have cl := consumeLine_post p1 i1.cur
  generalize p1.consumeLine = p5 at cl hG hP ⊢
  have i5 := cl.inv i1
  have s5 := cl.st (by omega)
  have hroot5 : p5.root = spineModify f p.root p.depth := by rw [tree_root cl.tree, hroot1]
  have hdep5 : p5.depth = p.depth := by rw [tree_depth cl.tree, hdep1]
  have hsrc5 : p5.source = p.source := by rw [tree_source cl.tree, hsrc1]
  have hls5 : p5.lineStart = p.lineStart := by rw [tree_lineStart cl.tree, hls1]
  have hline5 : p5.line = p.line := by rw [cl.line, hline1]
  have hsrc0 : SrcOK p := h.w.src
  have hc5 : curPos p5 = p.source.length := by
    unfold curPos; rw [hls5, cl.i, hline1]; have := hsrc0.len; omega
  have hcp : curPos p ≤ curPos p5 := by rw [hc5]; exact curPos_le_src hsrc0 h.w.inv.cur
  -- the tree after `endBlock`
  have hroot6 : (p5.endBlock x).root =
      spineModify (replaceLastFn (fun c => closeBlock x p.source (curPos p5) (f c))) p.root (p.depth - 1) := by
    rw [BSp.endBlock_eq x p5 (by omega), BSp.closeContainer_eq x _ _ (by show p5.depth ≠ 0; omega)]
    show spineReplaceLast (closeBlock x p5.source (curPos p5)) p5.root (p5.depth - 1) = _
    have e1 : p.depth = (p.depth - 1) + 1 := by omega
    rw [hroot5, hdep5, hsrc5, spineReplaceLast_eq]
    conv => lhs; rw [e1]
    rw [Nat.add_sub_cancel, spineModify_comp_up]
    congr 1
    funext P
    exact replaceLast_modify_one _ _ P
  have eb := endBlock_inv x p5 i5 (by omega)
  obtain ⟨es1, es2, es3, es4⟩ := BSp.endBlock_src x p5 (by omega)
  generalize p5.endBlock x = p6 at hroot6 eb es1 es2 es3 es4 hG hP ⊢
  have s6 : p6.state = 2 := by rw [eb.state, s5]; rfl
  have hc6 : curPos p6 = curPos p5 := by unfold curPos; rw [es2, es4]
  -- the parent of the paragraph
  obtain ⟨P, hPg, hPl⟩ := parent_of_container (by omega) h.w.inv.tree
  have hcc := BG.container_eq p h.w.inv.tree.valid
  have hPo : P.label.stop < 0 := Sh_spine_open_at h.w.sh hcc h.w.co (p.depth - 1) (by omega) P hPg
  have hCG : PBGrammar p.container := PBG_container p h.w.inv.tree h.w.g
  have hsh6 : Sh setx p.source 0 (curPos p5) p6.root := by
    rw [hroot6]
    apply spineModify_Sh hcp _ hPo (p.depth - 1) p.root 0 (Int.le_refl _) (curPos_nonneg p) h.w.sh hPg
    intro lo' hlo' _ hsP
    apply replaceLastFn_Sh hcp _ hlo' hsP hPo
    intro c lo'' hc hlo'' hsc
    rw [hPl] at hc
    cases hc
    rw [← hf]
    exact closeBlock_setext_Sh x p.source (curPos p) _ (by rw [hc5]; exact Int.le_refl _) p.container lo'' lev (by omega) hCG hck'
      h.w.co h1 h2 (by rw [hc5]; exact hul) (by rw [hc5]; exact hU) hsc
  -- the new container is the parent, still open
  have hco6 : p6.container.label.stop < 0 := by
    unfold LP.container
    rw [hroot6, eb.depth, hdep5, spineGet_modify_self, hPg]
    simp only [Option.map_some, Option.getD_some]
    rw [replaceLastFn_label]
    exact hPo
  have w6 : W setx (curPos p6) p6 :=
    ⟨hP.inv, hG, hsrc0.of_eq (by rw [es1, hsrc5]) (by rw [es2, hls5]) (by rw [es3, hline5]),
     by rw [es2, hls5, hc6]; have := h.w.le; omega, by rw [es1, hsrc5, hc6]; exact hsh6, hco6⟩
  exact ⟨w6, Or.inr ⟨s6, ham⟩, fun h => (by omega), fun h => (by omega), fun h => (by omega)⟩

end CM.Proofs.Shp
