import CM.Proofs.EolOps
/-
C14 (a), block level — `CollectInline` (with `parseInfoString`) commutes with `mapLP`.
The info string of a code fence lies inside the body of the line, where the position map is a translation;
`infoStringLoop_shift` is the statement about the loop for any translation of a stretch of the source.
-/
namespace CM.Proofs
open CM CM.Model CM.Gen CM.Proofs.BT

/-! ### `parseCharacterEscape` returns a length inside its argument -/

theorem numericRefLoop_bound (isDigit : UInt8 → Bool) : ∀ (l : Bytes) (i n : Nat),
    numericRefLoop isDigit l i = Int.ofNat n → n ≤ i + l.length := by
  intro l
  induction l with
  | nil => intro i n h; simp [numericRefLoop] at h
  | cons c rest ih =>
    intro i n h
    simp only [numericRefLoop] at h
    split at h
    · split at h
      · exact absurd h (by simp)
      · have : (n : Int) = (i : Int) + 1 := h.symm
        simp; omega
    · split at h
      · exact absurd h (by simp)
      · have := ih (i + 1) n h
        simp; omega

theorem entityLoop_bound (ext : Ext) (text : Bytes) : ∀ (l : Bytes) (i n : Nat),
    entityLoop ext text l i = Int.ofNat n → n ≤ i + 1 + l.length := by
  intro l
  induction l with
  | nil => intro i n h; simp [entityLoop] at h
  | cons c rest ih =>
    intro i n h
    simp only [entityLoop] at h
    split at h
    · split at h
      · exact absurd h (by simp)
      · have : (n : Int) = (i : Int) + 2 := h.symm
        simp; omega
    · split at h
      · exact absurd h (by simp)
      · have := ih (i + 1) n h
        simp; omega

theorem parseCharacterEscape_bound (ext : Ext) (text : Bytes) (n : Nat)
    (h : parseCharacterEscape ext text = Int.ofNat n) : n ≤ text.length := by
  unfold parseCharacterEscape at h
  split at h
  · exact absurd h (by simp)
  · rename_i hlen
    have h3 : 3 ≤ text.length := by
      simp only [Bool.or_eq_true, decide_eq_true_eq, not_or, Nat.not_lt] at hlen
      exact hlen.1
    split at h
    · have := entityLoop_bound ext text (text.drop 1) 0 n h
      simp at this; omega
    · split at h
      · split at h
        · rename_i m hm
          have := numericRefLoop_bound isHex _ 0 m hm
          have hn : (n : Int) = (hexDigitStart : Int) + (m : Int) := h.symm
          simp [hexDigitStart] at this hn
          omega
        · exact absurd h (by simp)
      · split at h
        · rename_i m hm
          have := numericRefLoop_bound isASCIIDigit _ 0 m hm
          have hn : (n : Int) = (decDigitStart : Int) + (m : Int) := h.symm
          simp [decDigitStart] at this hn
          omega
        · exact absurd h (by simp)

/-! ### The info-string loop on a translated stretch -/

theorem mapTree_mkInline (g : Int → Int) (k : Nat) (a b : Int) (kids : List Tree) :
    mapTree g (mkInline k a b kids) = mkInline k (g a) (g b) (mapTrees g kids) := rfl

theorem mapTrees_snoc (g : Int → Int) (acc : List Tree) (t : Tree) :
    mapTrees g (acc ++ [t]) = mapTrees g acc ++ [mapTree g t] := by
  rw [mapTrees_append]; rfl

theorem infoStringLoop_shift (ext : Ext) (g : Int → Int) (src src' : Bytes) (lo stop Δ : Nat)
    (hg : ∀ j : Nat, lo ≤ j → j ≤ stop → g (j : Int) = ((j + Δ : Nat) : Int))
    (hb : ∀ j, lo ≤ j → j < stop → src'.getD (j + Δ) 0 = src.getD j 0)
    (hs : ∀ j, lo ≤ j → j ≤ stop → (src'.take (stop + Δ)).drop (j + Δ) = (src.take stop).drop j) :
    ∀ (fuel i ps : Nat) (acc : List Tree), lo ≤ i → i ≤ stop → lo ≤ ps → ps ≤ stop →
      LP.infoStringLoop ext src' (stop + Δ) fuel (i + Δ) (ps + Δ) (mapTrees g acc) =
        mapTrees g (LP.infoStringLoop ext src stop fuel i ps acc) := by
  -- `g` on an `Int` expression that denotes a position of the stretch
  have hgI : ∀ (z : Int) (j : Nat), z = (j : Int) → lo ≤ j → j ≤ stop → g z = z + (Δ : Int) := by
    intro z j hz h1 h2
    rw [hz, hg j h1 h2]; omega
  have hnode : ∀ (k : Nat) (a b : Int) (ja jb : Nat), a = (ja : Int) → b = (jb : Int) → lo ≤ ja → ja ≤ stop → lo ≤ jb →
      jb ≤ stop → mapTree g (mkInline k a b) = mkInline k (a + (Δ : Int)) (b + (Δ : Int)) := by
    intro k a b ja jb ha hb' h1 h2 h3 h4
    rw [mapTree_mkInline, hgI a ja ha h1 h2, hgI b jb hb' h3 h4]; rfl
  intro fuel
  induction fuel with
  | zero => intro i ps acc _ _ _ _; rfl
  | succ fuel ih =>
    intro i ps acc hi1 hi2 hp1 hp2
    unfold LP.infoStringLoop
    by_cases hge : i ≥ stop
    · have hge' : i + Δ ≥ stop + Δ := by omega
      rw [if_pos hge', if_pos hge]
      by_cases hps : ps < stop
      · have hps' : ps + Δ < stop + Δ := by omega
        rw [if_pos hps', if_pos hps, mapTrees_snoc, hnode _ _ _ ps stop rfl rfl hp1 hp2 (by omega) (Nat.le_refl _)]
        congr 3 <;> omega
      · have hps' : ¬ ps + Δ < stop + Δ := by omega
        rw [if_neg hps', if_neg hps]
    · have hge' : ¬ i + Δ ≥ stop + Δ := by omega
      rw [if_neg hge', if_neg hge]
      have hlt : i < stop := by omega
      simp only []
      rw [hb i hi1 hlt]
      have hrec1 : LP.infoStringLoop ext src' (stop + Δ) fuel (i + Δ + 1) (ps + Δ) (mapTrees g acc) =
          mapTrees g (LP.infoStringLoop ext src stop fuel (i + 1) ps acc) := by
        have : i + Δ + 1 = (i + 1) + Δ := by omega
        rw [this]
        exact ih (i + 1) ps acc (by omega) (by omega) hp1 hp2
      by_cases hbs : (src.getD i 0 == 0x5C) = true
      · rw [if_pos hbs, if_pos hbs]
        by_cases hesc : (decide (i + 1 ≥ stop) || !isASCIIPunctuation (src.getD (i + 1) 0)) = true
        · have hesc' : (decide (i + Δ + 1 ≥ stop + Δ) || !isASCIIPunctuation (src'.getD (i + Δ + 1) 0)) = true := by
            by_cases h1 : i + 1 ≥ stop
            · have : i + Δ + 1 ≥ stop + Δ := by omega
              simp [this]
            · have e1 : i + Δ + 1 = (i + 1) + Δ := by omega
              rw [e1, hb (i + 1) (by omega) (by omega)]
              have : ¬ (i + 1 + Δ ≥ stop + Δ) := by omega
              simp only [h1, decide_false, Bool.false_or] at hesc
              simp only [this, decide_false, Bool.false_or]
              exact hesc
          rw [if_pos hesc', if_pos hesc]
          exact hrec1
        · have hesc' : ¬ (decide (i + Δ + 1 ≥ stop + Δ) || !isASCIIPunctuation (src'.getD (i + Δ + 1) 0)) = true := by
            have h1 : ¬ i + 1 ≥ stop := by
              intro h1; apply hesc; simp [h1]
            have e1 : i + Δ + 1 = (i + 1) + Δ := by omega
            rw [e1, hb (i + 1) (by omega) (by omega)]
            have : ¬ (i + 1 + Δ ≥ stop + Δ) := by omega
            simp only [h1, decide_false, Bool.false_or] at hesc
            simp only [this, decide_false, Bool.false_or]
            exact hesc
          rw [if_neg hesc', if_neg hesc]
          have h1 : i + 2 ≤ stop := by
            have : ¬ i + 1 ≥ stop := by
              intro h1; apply hesc; simp [h1]
            omega
          have e2 : i + Δ + 2 = (i + 2) + Δ := by omega
          rw [e2]
          have hacc : (if ps + Δ < i + Δ then mapTrees g acc ++ [mkInline IK.text ((ps + Δ : Nat) : Int) ((i + Δ : Nat) : Int)]
              else mapTrees g acc) = mapTrees g (if ps < i then acc ++ [mkInline IK.text (ps : Int) (i : Int)] else acc) := by
            by_cases hpi : ps < i
            · have hpi' : ps + Δ < i + Δ := by omega
              rw [if_pos hpi', if_pos hpi, mapTrees_snoc, hnode _ _ _ ps i rfl rfl hp1 hp2 hi1 hi2]
              congr 3 <;> omega
            · have hpi' : ¬ ps + Δ < i + Δ := by omega
              rw [if_neg hpi', if_neg hpi]
          have hnew : mkInline IK.text (((i + Δ : Nat) : Int) + 1) (((i + Δ : Nat) : Int) + 2) =
              mapTree g (mkInline IK.text ((i : Int) + 1) ((i : Int) + 2)) := by
            rw [hnode _ _ _ (i + 1) (i + 2) (by omega) (by omega) (by omega) (by omega) (by omega) h1]
            congr 1 <;> omega
          rw [hacc, hnew, ← mapTrees_snoc]
          exact ih (i + 2) (i + 2) _ (by omega) h1 (by omega) h1
      · rw [if_neg hbs, if_neg hbs]
        by_cases hamp : (src.getD i 0 == 0x26) = true
        · rw [if_pos hamp, if_pos hamp, hs i hi1 hi2]
          cases hpe : parseCharacterEscape ext ((src.take stop).drop i) with
          | ofNat en =>
            simp only []
            by_cases he0 : (en == 0) = true
            · rw [if_pos he0, if_pos he0]; exact hrec1
            · rw [if_neg he0, if_neg he0]
              have hbound := parseCharacterEscape_bound ext _ en hpe
              have hen : i + en ≤ stop := by
                simp only [List.length_drop, List.length_take] at hbound; omega
              have e2 : i + Δ + en = (i + en) + Δ := by omega
              rw [e2]
              have hacc : (if ps + Δ < i + Δ then mapTrees g acc ++ [mkInline IK.text ((ps + Δ : Nat) : Int) ((i + Δ : Nat) : Int)]
                  else mapTrees g acc) = mapTrees g (if ps < i then acc ++ [mkInline IK.text (ps : Int) (i : Int)] else acc) := by
                by_cases hpi : ps < i
                · have hpi' : ps + Δ < i + Δ := by omega
                  rw [if_pos hpi', if_pos hpi, mapTrees_snoc, hnode _ _ _ ps i rfl rfl hp1 hp2 hi1 hi2]
                  congr 3 <;> omega
                · have hpi' : ¬ ps + Δ < i + Δ := by omega
                  rw [if_neg hpi', if_neg hpi]
              have hnew : mkInline IK.charRef ((i + Δ : Nat) : Int) (((i + Δ : Nat) : Int) + (en : Int)) =
                  mapTree g (mkInline IK.charRef (i : Int) ((i : Int) + (en : Int))) := by
                rw [hnode _ _ _ i (i + en) rfl (by omega) hi1 hi2 (by omega) hen]
                congr 1 <;> omega
              rw [hacc, hnew, ← mapTrees_snoc]
              exact ih (i + en) (i + en) _ (by omega) hen (by omega) hen
          | negSucc m => exact hrec1
        · rw [if_neg hamp, if_neg hamp]; exact hrec1

/-! ### `CollectInline` -/

section
variable {e X body nl : Bytes} {p : LP}

theorem mapLP_cursor_cast' (h : LineOK X body nl p) :
    eolPosZ e X ((p.lineStart + p.i : Nat) : Int) = (((mapLP e X p).lineStart + (mapLP e X p).i : Nat) : Int) := by
  rw [eolPosZ_ofNat, h.abs_pos h.hi]; rfl

theorem advance_i (p : LP) (n : Nat) (hle : p.i + n ≤ p.line.length) : (p.advance n).i = p.i + n := by
  by_cases hz : n = 0
  · subst hz; rfl
  · rw [advance_pos _ _ hz]
    have h1 : p.markMatched.i = p.i := by rw [markMatched_eq]
    have h2 : p.markMatched.line = p.line := by rw [markMatched_eq]
    rw [if_neg (by rw [h1, h2]; omega), updateTab_i]
    exact congrArg (· + n) h1

theorem advance_source (p : LP) (n : Nat) : (p.advance n).source = p.source := by
  by_cases hz : n = 0
  · subst hz; rfl
  · rw [advance_pos _ _ hz]
    split
    · unfold LP.setPanic; split <;> rw [markMatched_eq]
    · rw [updateTab_source]; show p.markMatched.source = _; rw [markMatched_eq]

theorem advance_lineStart (p : LP) (n : Nat) : (p.advance n).lineStart = p.lineStart := by
  by_cases hz : n = 0
  · subst hz; rfl
  · rw [advance_pos _ _ hz]
    split
    · unfold LP.setPanic; split <;> rw [markMatched_eq]
    · rw [updateTab_lineStart]; show p.markMatched.lineStart = _; rw [markMatched_eq]

theorem advance_line (p : LP) (n : Nat) : (p.advance n).line = p.line := by
  by_cases hz : n = 0
  · subst hz; rfl
  · rw [advance_pos _ _ hz]
    split
    · unfold LP.setPanic; split <;> rw [markMatched_eq]
    · rw [updateTab_line]; show p.markMatched.line = _; rw [markMatched_eq]

theorem mid_slice (A B C : Bytes) (t1 t2 : Nat) (h : t2 ≤ B.length) :
    ((A ++ B ++ C).take (A.length + t2)).drop (A.length + t1) = (B.take t2).drop t1 := by
  rw [List.append_assoc, List.take_append, List.take_of_length_le (by omega), Nat.add_sub_cancel_left,
    List.take_append_of_le_length h, List.drop_append, List.drop_eq_nil_of_le (by omega), List.nil_append,
    Nat.add_sub_cancel_left]

theorem mid_getD (A B C : Bytes) (t : Nat) (h : t < B.length) : (A ++ B ++ C).getD (A.length + t) 0 = B.getD t 0 := by
  simp only [List.getD_eq_getElem?_getD]
  rw [List.append_assoc, List.getElem?_append_right (by omega), Nat.add_sub_cancel_left, List.getElem?_append_left h]

/-- The source around the current line: prefix, body, line ending (both sides). -/
theorem LineOK.source_split (h : LineOK X body nl p) (he : StdEol e) :
    ∃ A : Bytes, p.source = A ++ body ++ nl ∧ toEol e p.source = toEol e A ++ body ++ toEol e nl ∧
      A.length = p.lineStart ∧ (toEol e A).length = eolPos e X p.lineStart := by
  have h1 : p.source = p.source.take p.lineStart ++ (body ++ nl) := by
    rw [← h.shape, h.line, List.take_append_drop]
  have hlen : (p.source.take p.lineStart).length = p.lineStart := by rw [List.length_take]; exact Nat.min_eq_left h.ls
  refine ⟨p.source.take p.lineStart, by rw [List.append_assoc]; exact h1, ?_, hlen, ?_⟩
  · conv => lhs; rw [h1]
    rw [toEol_append, toEol_body_nl e h.body, List.append_assoc]
  · rw [← eolPos_eq_length e (stdEol_ne_nil he) p.source h.ls]
    have := source_eq_take h
    conv => lhs; rw [this]
    exact eolPos_take e X h.ls

/-- The optional `Indent` node of `CollectInline`. -/
def collectIndent (q : LP) : LP :=
  if q.indent > 0 then
    let q1 := q.advance (indentLength (q.line.drop q.i))
    q1.appendInline (.node { isBlock := false, kind := IK.indent, start := ((q.lineStart + q.i : Nat) : Int),
                             stop := (q1.lineStart : Int) + (q1.i : Int), indent := (q.indent : Int) } [])
  else q

/-- The collected node of `CollectInline`. -/
def collectTail (x : PExt) (kind n : Nat) (q2 : LP) : LP :=
  let start := q2.lineStart + q2.i
  let p3 := q2.advance n
  let stop := p3.lineStart + p3.i
  if kind == IK.infoString then
    p3.appendInline (mkInline IK.infoString (start : Int) (stop : Int)
      (LP.infoStringLoop x.ext p3.source stop (stop - start + 1) start start []))
  else p3.appendInline (mkInline kind (start : Int) (stop : Int))

theorem collectInline_eq (x : PExt) (p : LP) (kind n : Nat) :
    p.collectInline x kind n =
      if p.state == stateDescendTerminated then p.setPanic "CollectInline cannot be called in this context"
      else collectTail x kind n (collectIndent p.markMatched) := rfl

theorem mapLP_collectIndent (h : LineOK X body nl p) (he : StdEol e) :
    collectIndent (mapLP e X p) = mapLP e X (collectIndent p) ∧ LineOK X body nl (collectIndent p) ∧
      (collectIndent p).i = p.i + (if p.indent > 0 then indentLength (p.line.drop p.i) else 0) ∧
      (collectIndent p).line = p.line := by
  unfold collectIndent
  rw [mapLP_indent h he]
  obtain ⟨r, nl', hr, hnl', r1, r2, r3⟩ := h.rest he
  have hil : indentLength ((mapLP e X p).line.drop (mapLP e X p).i) = indentLength (p.line.drop p.i) := by
    rw [r1, r2, indentLength_append_eol r (eolBytes_toEol_nl he hnl'), indentLength_append_eol r (eolBytes_nl hnl')]
  have hkl : p.i + indentLength (p.line.drop p.i) ≤ p.line.length := by
    have := indentLength_le (p.line.drop p.i)
    simp only [List.length_drop] at this
    have := h.hi
    omega
  have hadv : eolPos e p.line (p.i + indentLength (p.line.drop p.i)) =
      eolPos e p.line p.i + indentLength (p.line.drop p.i) := by
    rcases h.cursor (e := e) with ⟨c1, c2⟩ | ⟨c1, c2⟩
    · have : p.i + indentLength (p.line.drop p.i) ≤ body.length := by
        rw [h.drop_i c1, indentLength_append_eol _ (eolBytes_nl h.nl)]
        have := indentLength_le (body.drop p.i)
        simp only [List.length_drop] at this
        omega
      rw [c2, h.pos_body this]
    · have : p.line.drop p.i = [] := by rw [c1]; simp
      rw [this]; simp [indentLength]
  by_cases hind : p.indent > 0
  · rw [if_pos hind, if_pos hind, if_pos hind]
    simp only []
    rw [hil, mapLP_advance h he _ _ hadv]
    have hq1 := h.advance (indentLength (p.line.drop p.i))
    refine ⟨?_, hq1.appendInline _, ?_, ?_⟩
    · rw [← mapLP_appendInline]
      congr 1
      rw [mapTree, mapLP_cursor_cast' h, mapLP_cursor_cast hq1]; rfl
    · show (p.advance _).i = _
      exact advance_i p _ hkl
    · show (p.advance _).line = _
      exact advance_line p _
  · rw [if_neg hind, if_neg hind, if_neg hind]
    exact ⟨rfl, h, rfl, rfl⟩

theorem mapLP_collectTail (x : PExt) (h : LineOK X body nl p) (he : StdEol e) (kind n n' : Nat)
    (hn : eolPos e p.line (p.i + n) = eolPos e p.line p.i + n')
    (hinfo : kind = IK.infoString → p.i + n ≤ body.length) :
    collectTail x kind n' (mapLP e X p) = mapLP e X (collectTail x kind n p) := by
  unfold collectTail
  simp only []
  rw [mapLP_advance h he n n' hn]
  have hq3 := h.advance n
  have hstart := mapLP_cursor_cast' (e := e) h
  have hstop := mapLP_cursor_cast' (e := e) hq3
  by_cases hk1 : (kind == IK.infoString) = true
  · rw [if_pos hk1, if_pos hk1, ← mapLP_appendInline]
    congr 1
    rw [mapTree_mkInline, hstart, hstop]
    congr 1
    -- the info string
    have hkind : kind = IK.infoString := by simpa using hk1
    have hq2i := hinfo hkind
    have hle3 : p.i + n ≤ p.line.length := by
      rw [h.shape, List.length_append]; omega
    have hi3 : (p.advance n).i = p.i + n := advance_i p n hle3
    have hs3 : (p.advance n).source = p.source := advance_source p n
    have hl3 : (p.advance n).lineStart = p.lineStart := advance_lineStart p n
    obtain ⟨A, s1, s2, s3, s4⟩ := h.source_split he
    have hΔ : p.lineStart ≤ eolPos e X p.lineStart := eolPos_ge e X _
    have hp2 : eolPos e p.line p.i = p.i := h.pos_body (by omega)
    have hp3 : eolPos e p.line (p.i + n) = p.i + n := h.pos_body hq2i
    have hline3 : (p.advance n).line = p.line := advance_line p n
    have e_start : (mapLP e X p).lineStart + (mapLP e X p).i = (p.lineStart + p.i) + (eolPos e X p.lineStart - p.lineStart) := by
      simp only [mapLP_lineStart, mapLP_i, hp2]; omega
    have e_stop : (mapLP e X (p.advance n)).lineStart + (mapLP e X (p.advance n)).i =
        ((p.advance n).lineStart + (p.advance n).i) + (eolPos e X p.lineStart - p.lineStart) := by
      simp only [mapLP_lineStart, mapLP_i, hl3, hi3, hline3, hp3]; omega
    rw [e_start, e_stop, mapLP_source, hs3, hl3, hi3]
    have hfuel : p.lineStart + (p.i + n) + (eolPos e X p.lineStart - p.lineStart) -
        (p.lineStart + p.i + (eolPos e X p.lineStart - p.lineStart)) + 1 =
        p.lineStart + (p.i + n) - (p.lineStart + p.i) + 1 := by omega
    rw [hfuel]
    refine infoStringLoop_shift x.ext (eolPosZ e X) p.source (toEol e p.source) (p.lineStart + p.i)
      (p.lineStart + (p.i + n)) (eolPos e X p.lineStart - p.lineStart) ?_ ?_ ?_
      (p.lineStart + (p.i + n) - (p.lineStart + p.i) + 1) (p.lineStart + p.i) (p.lineStart + p.i) []
      (Nat.le_refl _) (by omega) (Nat.le_refl _) (by omega)
    · intro j hj1 hj2
      rw [eolPosZ_ofNat]
      have : j = p.lineStart + (j - p.lineStart) := by omega
      rw [this, h.abs_pos (by rw [h.shape, List.length_append]; omega), h.pos_body (by omega)]
      congr 1; omega
    · intro j hj1 hj2
      have e1 : j + (eolPos e X p.lineStart - p.lineStart) = (toEol e A).length + (j - p.lineStart) := by
        rw [s4]; omega
      have e2 : j = A.length + (j - p.lineStart) := by rw [s3]; omega
      rw [e1, s2, mid_getD _ _ _ _ (by omega)]
      conv => rhs; rw [e2, s1, mid_getD _ _ _ _ (by omega)]
    · intro j hj1 hj2
      have e1 : j + (eolPos e X p.lineStart - p.lineStart) = (toEol e A).length + (j - p.lineStart) := by
        rw [s4]; omega
      have e1' : p.lineStart + (p.i + n) + (eolPos e X p.lineStart - p.lineStart) =
          (toEol e A).length + (p.i + n) := by rw [s4]; omega
      have e2 : j = A.length + (j - p.lineStart) := by rw [s3]; omega
      have e2' : p.lineStart + (p.i + n) = A.length + (p.i + n) := by rw [s3]
      rw [e1, e1', s2, mid_slice _ _ _ _ _ hq2i]
      conv => rhs; rw [e2, e2', s1, mid_slice _ _ _ _ _ hq2i]
  · rw [if_neg hk1, if_neg hk1, ← mapLP_appendInline]
    congr 1
    rw [mapTree_mkInline, hstart, hstop]; rfl

/-- `CollectInline(kind, n)`: the re-written side collects the image of the stretch. For an info string the stretch
    lies in the body of the line. -/
theorem mapLP_collectInline (x : PExt) (h : LineOK X body nl p) (he : StdEol e) (kind n n' : Nat)
    (hn : eolPos e p.line (p.i + (if p.indent > 0 then indentLength (p.line.drop p.i) else 0) + n) =
      eolPos e p.line (p.i + (if p.indent > 0 then indentLength (p.line.drop p.i) else 0)) + n')
    (hinfo : kind = IK.infoString → p.i + indentLength (p.line.drop p.i) + n ≤ body.length) :
    (mapLP e X p).collectInline x kind n' = mapLP e X (p.collectInline x kind n) := by
  rw [collectInline_eq, collectInline_eq]
  by_cases h1 : (p.state == stateDescendTerminated) = true
  · have h1' : ((mapLP e X p).state == stateDescendTerminated) = true := h1
    rw [if_pos h1', if_pos h1, mapLP_setPanic]
  · have h1' : ¬ ((mapLP e X p).state == stateDescendTerminated) = true := h1
    rw [if_neg h1', if_neg h1, mapLP_markMatched]
    have hq := h.markMatched
    have e1 : p.markMatched.i = p.i := by rw [markMatched_eq]
    have e2 : p.markMatched.line = p.line := by rw [markMatched_eq]
    have e3 : p.markMatched.indent = p.indent := by
      rw [indent_eq, indent_eq, e1, e2]; rw [markMatched_eq]
    rw [← e1, ← e2, ← e3] at hn
    rw [← e1, ← e2] at hinfo
    generalize p.markMatched = q at hq hn hinfo
    obtain ⟨a1, a2, a3, a4⟩ := mapLP_collectIndent hq he
    rw [a1]
    rw [← a3, ← a4] at hn
    apply mapLP_collectTail x a2 he kind n n' hn
    intro hk
    have := hinfo hk
    rw [a3]
    split <;> omega

theorem LineOK.collectInline (x : PExt) (h : LineOK X body nl p) (kind n : Nat) :
    LineOK X body nl (p.collectInline x kind n) := by
  rw [collectInline_eq]
  split
  · exact h.setPanic _
  · have hq := h.markMatched
    generalize p.markMatched = q at hq
    have h2 : LineOK X body nl (collectIndent q) := by
      unfold collectIndent
      split
      · exact (hq.advance _).appendInline _
      · exact hq
    unfold collectTail
    simp only []
    split
    · exact (h2.advance n).appendInline _
    · exact (h2.advance n).appendInline _

end

end CM.Proofs
