import CM.Proofs.RenderWF
/-
C07 with a tag filter: why the conclusion of `render_wellformed_filtered` cannot be stronger.

(N1) Full escaping (`tokOK`: no `>` and no `"` in text) fails as soon as the predicate rejects one of the
     renderer's own tags, even for a predicate that treats `name` and `/name` alike: the output
     `&lt;p>x&lt;/p>` is not the plain writing of ANY `tokOK` token sequence.
(N2) Nesting fails when the predicate rejects `em` but not `/em`: the output `<p>&lt;em>x</em></p>` is not
     the plain writing of ANY token sequence in the weakened language that is properly nested.
Both are statements about all token sequences (not only the one the proof of the positive theorem uses);
they are obtained from two counting invariants of the plain writing of (weakly) good tokens:
  number of `<` bytes  = number of tags,     number of `</` pairs = number of end tags.
-/
namespace CM.Proofs.RenderWF
open CM CM.Model CM.Spec CM.Gen Node

/-! ### bytes without `<` -/

def noLt (b : Bytes) : Bool := b.all (· != 0x3C)

theorem noLt_append (a b : Bytes) : noLt (a ++ b) = (noLt a && noLt b) := by simp [noLt]

theorem noLt_of_weak (b : Bytes) (h : weakData b = true) : noLt b = true := by
  simp only [weakData, Bool.and_eq_true, List.all_eq_true] at h
  simp only [noLt, List.all_eq_true]
  exact fun c hc => (h.1 c hc).1

theorem refChar_not_markup : ∀ c : UInt8, (Spec.isASCIILetter c || Spec.isASCIIDigit c || c == 0x23) = true →
    (c != 0x3C && c != 0x3E && c != 0x22) = true := by
  apply forall_uint8; decide +kernel

/-- A copied character reference `&…;` contains none of `< > "`. -/
theorem charRef_plain (b : Bytes) (h : charRefShape b = true) : b.all (fun c => c != 0x3C && c != 0x3E && c != 0x22) = true := by
  cases b with
  | nil => simp [charRefShape] at h
  | cons a rest =>
    simp only [charRefShape, Bool.and_eq_true, beq_iff_eq, List.all_eq_true] at h
    obtain ⟨⟨⟨ha, _⟩, hlast⟩, hmid⟩ := h
    simp only [List.all_cons, Bool.and_eq_true, List.all_eq_true]
    refine ⟨by subst ha; decide, fun c hc => ?_⟩
    have hsplit : rest = rest.dropLast ++ [0x3B] := by
      have hne : rest ≠ [] := by intro e; simp [e] at hlast
      have := List.dropLast_concat_getLast hne
      rw [List.getLast?_eq_some_getLast hne] at hlast
      simp only [Option.some.injEq] at hlast
      rw [hlast] at this; exact this.symm
    rw [hsplit] at hc
    rcases List.mem_append.mp hc with hc | hc
    · simpa using refChar_not_markup c (hmid c hc)
    · simp only [List.mem_singleton] at hc; subst hc; decide

theorem noLt_of_charRef (b : Bytes) (h : charRefShape b = true) : noLt b = true := by
  have := charRef_plain b h
  simp only [noLt, List.all_eq_true, Bool.and_eq_true] at this ⊢
  exact fun c hc => (this c hc).1.1

/-! ### (N1) a `tokOK` sequence whose writing has no `<` has no `>` either -/

theorem tokOK_noLt_noGt (t : Tok) (h : tokOK t = true) (hl : noLt (plainTok t) = true) :
    (plainTok t).all (· != 0x3E) = true := by
  cases t with
  | stag n attrs => simp [plainTok, noLt] at hl
  | etag n => simp [plainTok, noLt] at hl
  | br => simp [plainTok, noLt] at hl
  | text b =>
    simp only [tokOK, safeData, markupFree, Bool.and_eq_true, List.all_eq_true] at h
    simp only [plainTok, List.all_eq_true]
    intro c hc
    have := h.1 c hc
    simp only [isMarkupByte, Bool.not_eq_true', Bool.or_eq_false_iff] at this
    simpa using this.1.1.2
  | cref b =>
    have := charRef_plain b h
    simp only [plainTok, List.all_eq_true, Bool.and_eq_true] at this ⊢
    exact fun c hc => (this c hc).1.2
  | raw b =>
    have : b = [] := by simpa [tokOK] using h
    subst this; rfl

theorem flatPlain_noLt_noGt (ts : List Tok) (h : ts.all tokOK = true) (hl : noLt (flatPlain ts) = true) :
    (flatPlain ts).all (· != 0x3E) = true := by
  induction ts with
  | nil => rfl
  | cons t ts ih =>
    simp only [List.all_cons, Bool.and_eq_true] at h
    simp only [flatPlain, List.flatMap_cons, noLt_append, Bool.and_eq_true, List.all_append] at hl ⊢
    exact ⟨tokOK_noLt_noGt t h.1 hl.1, ih h.2 hl.2⟩

namespace RenderWFEx
/-- rejects `p` in both forms (slash-closed) -/
def pP : Bytes → Bool := fun n => n == str "p" || n == str "/p"
def srcX : Bytes := str "x"
def paraX : Tree :=
  .node { kind := BK.paragraph, start := 0, stop := 1 } [.node { isBlock := false, kind := IK.text, start := 0, stop := 1 } []]
def cxP : RCtx := { ext := { unescape := id }, src := srcX, filter := some pP }
/-- rejects `em` but not `/em` -/
def pEmOpen : Bytes → Bool := fun n => n == str "em"
def cxEmOpen : RCtx := { ext := { unescape := id }, src := src, filter := some pEmOpen }
end RenderWFEx
open RenderWFEx

theorem outP : appendBlock cxP [] paraX = str "&lt;p>x&lt;/p>" := by
  rw [Props.C07.render_eq_tokens]; decide +kernel

/-- (N1) With `FilterTag` rejecting `p` and `/p`, the output `&lt;p>x&lt;/p>` is not the plain writing of any
    fully escaped (`tokOK`) token sequence: it has a `>` but no `<`. -/
theorem filtered_tokOK_fails : ¬ ∃ ts, appendBlock cxP [] paraX = flatPlain ts ∧ ts.all tokOK = true := by
  rintro ⟨ts, heq, hok⟩
  rw [outP] at heq
  have h1 : noLt (flatPlain ts) = true := by rw [← heq]; decide +kernel
  have h2 := flatPlain_noLt_noGt ts hok h1
  rw [← heq] at h2
  revert h2; decide +kernel

/-- The full-strength statement one would like (the conclusion of `render_wellformed` under a filter,
    even restricted to slash-closed predicates). -/
def render_wellformed_filtered_target : Prop :=
  ∀ (cx : RCtx) (p : Bytes → Bool), cx.filter = some p → SlashClosed p → ∀ (root : Tree),
    safePre cx.src root = true → (cx.ignoreRaw = true ∨ noRaw root = true) → ∀ dst : Bytes,
    ∃ ts, appendBlock cx dst root = dst ++ flatPlain ts ∧ ts.all tokOK = true ∧ wellNested ts = true

theorem render_wellformed_filtered_target_false : ¬ render_wellformed_filtered_target := by
  intro h
  have hs : SlashClosed pP := by unfold SlashClosed pP; decide +kernel
  obtain ⟨ts, h1, h2, _⟩ := h cxP pP rfl hs paraX (by decide +kernel) (Or.inr (by decide +kernel)) []
  exact filtered_tokOK_fails ⟨ts, by simpa using h1, h2⟩

/-! ### (N2) counting `<` and `</` -/

/-- Number of positions holding `<` immediately followed by `/`. -/
def closes : Bytes → Nat
  | [] => 0
  | c :: rest => (if c == 0x3C && rest.head? == some 0x2F then 1 else 0) + closes rest

def lts (b : Bytes) : Nat := b.count 0x3C

theorem closes_noLt_append (a b : Bytes) (h : noLt a = true) : closes (a ++ b) = closes b := by
  induction a with
  | nil => rfl
  | cons c cs ih =>
    simp only [noLt, List.all_cons, Bool.and_eq_true] at h
    have hc : (c == 0x3C) = false := by simpa using h.1
    simp only [List.cons_append, closes, hc, Bool.false_and, Bool.false_eq_true, if_false, Nat.zero_add]
    exact ih (by simpa [noLt] using h.2)

theorem lts_noLt_append (a b : Bytes) (h : noLt a = true) : lts (a ++ b) = lts b := by
  simp only [lts, List.count_append]
  have : List.count 0x3C a = 0 := by
    rw [List.count_eq_zero]
    simp only [noLt, List.all_eq_true] at h
    intro hm; have := h _ hm; simp at this
  omega

theorem lts_cons_lt (b : Bytes) : lts (0x3C :: b) = 1 + lts b := by
  simp [lts, Nat.add_comm]

def isTagTok : Tok → Bool
  | .stag _ _ => true
  | .etag _ => true
  | .br => true
  | _ => false

def isETag : Tok → Bool
  | .etag _ => true
  | _ => false

def isOpenTok : Tok → Bool
  | .stag n _ => !isVoid n
  | _ => false

theorem elements_head : ∀ n ∈ rendererElements, n.head? ≠ some 0x2F ∧ n ≠ [] := by decide +kernel

theorem noLt_flatAttrs (attrs : List (Bytes × Bytes)) (h : attrs.all attrOK = true) : noLt (attrs.flatMap flatAttr) = true :=
  noLt_of_weak _ (weakData_flatAttrs attrs h)

/-- Writing one (weakly) good token in front of `rest`: it adds one `<` iff it is a tag and one `</` iff it
    is an end tag. -/
theorem count_tok (t : Tok) (h : tokOKw t = true) (rest : Bytes) :
    lts (plainTok t ++ rest) = (if isTagTok t then 1 else 0) + lts rest ∧
    closes (plainTok t ++ rest) = (if isETag t then 1 else 0) + closes rest := by
  cases t with
  | stag n attrs =>
    simp only [tokOKw, tokOK, Bool.and_eq_true, List.contains_iff_mem] at h
    have hn := noLt_of_weak _ (weakData_of_inert _ (elements_inert n h.1))
    have ha := noLt_flatAttrs attrs h.2
    have hbody : noLt (n ++ attrs.flatMap flatAttr ++ [0x3E]) = true := by
      rw [noLt_append, noLt_append, hn, ha]; rfl
    obtain ⟨hh, hne⟩ := elements_head n h.1
    have e : plainTok (.stag n attrs) ++ rest = 0x3C :: ((n ++ attrs.flatMap flatAttr ++ [0x3E]) ++ rest) := by
      simp [plainTok]
    rw [e]
    constructor
    · rw [lts_cons_lt, lts_noLt_append _ rest hbody]; simp [isTagTok]
    · simp only [closes, closes_noLt_append _ rest hbody, isETag]
      cases n with
      | nil => exact absurd rfl hne
      | cons c cs =>
        have : c ≠ 0x2F := by simpa using hh
        simp [this]
  | etag n =>
    simp only [tokOKw, tokOK, Bool.and_eq_true, List.contains_iff_mem] at h
    have hn := noLt_of_weak _ (weakData_of_inert _ (elements_inert n h.1))
    have hbody : noLt (0x2F :: n ++ [0x3E]) = true := by
      have : noLt [0x2F] = true := by decide
      rw [show (0x2F :: n ++ [0x3E] : Bytes) = [0x2F] ++ (n ++ [0x3E]) from rfl]
      rw [noLt_append, noLt_append, hn, this]; rfl
    have e : plainTok (.etag n) ++ rest = 0x3C :: ((0x2F :: n ++ [0x3E]) ++ rest) := by simp [plainTok]
    rw [e]
    constructor
    · rw [lts_cons_lt, lts_noLt_append _ rest hbody]; simp [isTagTok]
    · simp only [closes, closes_noLt_append _ rest hbody, isETag]
      simp
  | br =>
    have hbody : noLt [0x62, 0x72, 0x3E, LF] = true := by decide
    have e : plainTok .br ++ rest = 0x3C :: ([0x62, 0x72, 0x3E, LF] ++ rest) := by simp [plainTok]
    rw [e]
    constructor
    · rw [lts_cons_lt, lts_noLt_append _ rest hbody]; simp [isTagTok]
    · simp only [closes, closes_noLt_append _ rest hbody, isETag]
      simp
  | text b =>
    have hb := noLt_of_weak b h
    simp [plainTok, isTagTok, isETag, lts_noLt_append _ rest hb, closes_noLt_append _ rest hb]
  | cref b =>
    have hb := noLt_of_charRef b h
    simp [plainTok, isTagTok, isETag, lts_noLt_append _ rest hb, closes_noLt_append _ rest hb]
  | raw b =>
    have : b = [] := by simpa [tokOKw, tokOK] using h
    subst this
    simp [plainTok, isTagTok, isETag]

theorem count_flat (ts : List Tok) (h : ts.all tokOKw = true) :
    lts (flatPlain ts) = ts.countP isTagTok ∧ closes (flatPlain ts) = ts.countP isETag := by
  induction ts with
  | nil => exact ⟨rfl, rfl⟩
  | cons t ts ih =>
    simp only [List.all_cons, Bool.and_eq_true] at h
    obtain ⟨i1, i2⟩ := ih h.2
    obtain ⟨c1, c2⟩ := count_tok t h.1 (flatPlain ts)
    have e : flatPlain (t :: ts) = plainTok t ++ flatPlain ts := by simp [flatPlain]
    rw [e, c1, c2, i1, i2]
    simp only [List.countP_cons]
    constructor <;> (split <;> simp_all <;> omega)

/-- Nesting balances non-void start tags against end tags. -/
theorem nest_balance (ts : List Tok) (st r : List Bytes) (h : nest ts st = some r) :
    st.length + ts.countP isOpenTok = r.length + ts.countP isETag := by
  induction ts generalizing st with
  | nil => simp only [nest, Option.some.injEq] at h; subst h; simp
  | cons t ts ih =>
    cases t with
    | stag n attrs =>
      simp only [nest] at h
      split at h
      · rename_i hv; have := ih st h; simp [isOpenTok, isETag, hv]; omega
      · rename_i hv; have := ih (n :: st) h; simp [isOpenTok, isETag, hv] at this ⊢; omega
    | etag n =>
      cases st with
      | nil => simp [nest] at h
      | cons m st' =>
        simp only [nest] at h
        split at h
        · have := ih st' h; simp [List.countP_cons, isOpenTok, isETag] at this ⊢; omega
        · simp at h
    | br => simp only [nest] at h; have := ih st h; simp [isOpenTok, isETag] at this ⊢; omega
    | text b => simp only [nest] at h; have := ih st h; simp [isOpenTok, isETag] at this ⊢; omega
    | cref b => simp only [nest] at h; have := ih st h; simp [isOpenTok, isETag] at this ⊢; omega
    | raw b => simp only [nest] at h; have := ih st h; simp [isOpenTok, isETag] at this ⊢; omega

theorem open_etag_le_tags (ts : List Tok) : ts.countP isOpenTok + ts.countP isETag ≤ ts.countP isTagTok := by
  induction ts with
  | nil => simp
  | cons t ts ih =>
    simp only [List.countP_cons]
    cases t <;> simp [isOpenTok, isETag, isTagTok] <;> (try split) <;> omega

/-- In the plain writing of a weakly good, properly nested token sequence at most half of the `<` open an
    end tag. -/
theorem closes_le_half (ts : List Tok) (h : ts.all tokOKw = true) (hw : wellNested ts = true) :
    2 * closes (flatPlain ts) ≤ lts (flatPlain ts) := by
  obtain ⟨c1, c2⟩ := count_flat ts h
  have hb := nest_balance ts [] [] (by simpa [wellNested] using hw)
  have := open_etag_le_tags ts
  simp only [List.length_nil, Nat.zero_add] at hb
  omega

theorem outEmOpen : appendBlock cxEmOpen [] para = str "<p>&lt;em>x</em> &lt;y</p>" := by
  rw [Props.C07.render_eq_tokens]; decide +kernel

/-- (N2) With `FilterTag` rejecting `em` but not `/em`, the output `<p>&lt;em>x</em> &lt;y</p>` is not the
    plain writing of any properly nested token sequence, even in the weakened language: it has three `<`,
    two of which open an end tag. -/
theorem filtered_nesting_fails :
    ¬ ∃ ts, appendBlock cxEmOpen [] para = flatPlain ts ∧ ts.all tokOKw = true ∧ wellNested ts = true := by
  rintro ⟨ts, heq, hok, hwn⟩
  have := closes_le_half ts hok hwn
  rw [← heq, outEmOpen] at this
  revert this; decide +kernel

/-- The weakened statement without the `SlashClosed` side condition. -/
def render_wellformed_filtered_nesting_target : Prop :=
  ∀ (cx : RCtx) (p : Bytes → Bool), cx.filter = some p → ∀ (root : Tree),
    safePre cx.src root = true → (cx.ignoreRaw = true ∨ noRaw root = true) → ∀ dst : Bytes,
    ∃ ts, appendBlock cx dst root = dst ++ flatPlain ts ∧ ts.all tokOKw = true ∧ wellNested ts = true

theorem render_wellformed_filtered_nesting_target_false : ¬ render_wellformed_filtered_nesting_target := by
  intro h
  obtain ⟨ts, h1, h2, h3⟩ := h cxEmOpen pEmOpen rfl para (by decide +kernel) (Or.inr (by decide +kernel)) []
  exact filtered_nesting_fails ⟨ts, by simpa using h1, h2, h3⟩

example : ¬ SlashClosed pEmOpen := by unfold SlashClosed pEmOpen; decide +kernel

end CM.Proofs.RenderWF
