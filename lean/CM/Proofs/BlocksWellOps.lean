import CM.Proofs.BlocksWellCursor
/-
The tree operations of the line parser during one line: the invariant `LA` ("line in progress": every closed
child of the document ends at or before the start of the line) and `closeContainer`, `closeLastChild`, `openBlock`.
-/
namespace CM.Proofs
open CM CM.Model CM.Gen

/-- Line in progress. `am` is the value `allMatched` of `descendOpenBlocks` (ghost: when it is false and the
    container is a child of the document, that child is not an open paragraph). -/
structure LA (am : Bool) (N : Nat) (p : LP) : Prop where
  cur : p.lineStart + p.line.length ≤ N
  ile : p.i ≤ p.line.length
  dv : ∃ b, spineGet p.root p.depth = some b
  root : RootOK N p.lineStart p.lineStart p.root
  rp : am = false → p.depth = 1 → ∀ c, p.root.blocks.getLast? = some c → c.label.stop < 0 → c.label.kind ≠ BK.paragraph

/-- A child of the document has been closed at the end of the line (the line is consumed). -/
structure LB (am : Bool) (N : Nat) (p : LP) : Prop where
  state : p.state = stateLineConsumed
  depth : p.depth = 0
  root : RootOK N N N p.root
  last : LastClosed p.root ∨ am = true

theorem LA.of_frame {am : Bool} {N : Nat} {p p' : LP} (h : LA am N p) (f : CurFrame p p') : LA am N p' :=
  ⟨by rw [f.lineStart, f.line]; exact h.cur, f.ile h.ile, by rw [f.root, f.depth]; exact h.dv,
   by rw [f.root, f.lineStart]; exact h.root, by rw [f.root, f.depth]; exact h.rp⟩

theorem LA.weaken {am : Bool} {N : Nat} {p : LP} (h : LA am N p) : LA true N p :=
  ⟨h.cur, h.ile, h.dv, h.root, fun h' => (by cases h')⟩

theorem LB.of_frame {am : Bool} {N : Nat} {p p' : LP} (h : LB am N p) (f : CurFrame p p') (hs : p'.state = p.state) :
    LB am N p' :=
  ⟨by rw [hs]; exact h.state, by rw [f.depth]; exact h.depth, by rw [f.root]; exact h.root, by rw [f.root]; exact h.last⟩

/-! ### Spine facts about the children of the document -/

theorem spineGet_one (root : PB) : spineGet root 1 = root.blocks.getLast? := by
  cases root with
  | mk l bs is =>
    rw [spineGet_succ]
    simp only [PB.blocks]
    cases hb : bs.getLast? <;> simp [spineGet_zero]

theorem lastKid_deep (f : PB → PB) (root : PB) (d : Nat) :
    (spineModify f root (d + 1)).blocks.getLast? = (root.blocks.getLast?).map (fun c => spineModify f c d) := by
  cases root with
  | mk l bs is =>
    rw [spineModify_succ]
    cases hb : bs.getLast? with
    | none => simp [PB.blocks, hb]
    | some c => simp [PB.blocks, hb]

/-- A child of the document that has block children is not an open paragraph. -/
theorem not_para_of_kids {N P : Nat} {H : Int} {root c : PB} (h : RootOK N P H root) (hc : root.blocks.getLast? = some c)
    (hk : c.blocks ≠ []) : ¬ (c.label.stop < 0 ∧ c.label.kind = BK.paragraph) := by
  rintro ⟨h1, h2⟩
  exact hk ((h.kids.kid c (List.mem_of_getLast? hc)).para h1 h2).nokids

/-- If the spine reaches depth 2, the last child of the document has block children. -/
theorem kids_of_depth2 {root c x : PB} (hc : root.blocks.getLast? = some c) (h2 : spineGet root 2 = some x) :
    c.blocks ≠ [] := by
  cases root with
  | mk l bs is =>
    simp only [PB.blocks] at hc
    cases c with
    | mk cl cbs cis =>
      have e1 : spineGet (PB.mk l bs is) 2 = spineGet (PB.mk cl cbs cis) 1 := by
        rw [spineGet_succ]; simp only [hc]
      rw [e1, spineGet_succ] at h2
      intro he
      simp only [PB.blocks] at he
      subst he
      simp at h2

theorem container_eq {p : LP} {b : PB} (h : spineGet p.root p.depth = some b) : p.container = b := by
  unfold LP.container; rw [h]; rfl

/-! ### closeContainer -/

theorem closeContainer_eq (x : PExt) (p : LP) (e : Int) (hd : p.depth ≠ 0) :
    p.closeContainer x e =
      { p with root := spineModify (replLast (closeBlock x p.source e)) p.root (p.depth - 1), depth := p.depth - 1 } := by
  unfold LP.closeContainer
  have : (p.depth == 0) = false := by simpa using hd
  rw [this]
  simp only [Bool.false_eq_true, if_false, spineReplaceLast_eq]

/-- Closing the container at the start of the line (in `openBlock`). -/
theorem closeContainer_LA {am : Bool} {N : Nat} {p : LP} (x : PExt) (h : LA am N p) (hd : p.depth ≠ 0) :
    LA am N (p.closeContainer x p.lineStart) ∧ (NE p.root → NE (p.closeContainer x p.lineStart).root) ∧
    (p.closeContainer x p.lineStart).depth = p.depth - 1 ∧ (p.closeContainer x p.lineStart).state = p.state := by
  rw [closeContainer_eq x p _ hd]
  obtain ⟨b, hb⟩ := h.dv
  obtain ⟨d, hd'⟩ : ∃ d, p.depth = d + 1 := ⟨p.depth - 1, by omega⟩
  have hdv : ∃ y, spineGet p.root d = some y := spineGet_le hb (by omega)
  have hN : (p.lineStart : Int) ≤ (N : Int) := by have := h.cur; omega
  simp only [hd', Nat.add_sub_cancel]
  refine ⟨⟨h.cur, h.ile, ?_, ?_, ?_⟩, ?_, by first | rfl | trivial, by first | rfl | trivial⟩
  · obtain ⟨y, hy⟩ := hdv
    exact ⟨_, by simp only; rw [spineGet_modify_same, hy]; rfl⟩
  · show RootOK N p.lineStart p.lineStart (spineModify _ p.root d)
    cases d with
    | zero => rw [spineModify_zero]; exact (h.root.close0 x p.source (Int.le_refl _) hN (Int.le_refl _)).1
    | succ d => exact (h.root.deep _ (d + 1) (by omega) (fun _ c _ => HeadRel.replLast _ c)).1
  · intro ham hd1 c hc hneg
    simp only at hd1 hc
    subst hd1
    rw [lastKid_deep] at hc
    cases hc0 : p.root.blocks.getLast? with
    | none => rw [hc0] at hc; cases hc
    | some c0 =>
      rw [hc0] at hc
      simp only [Option.map_some, Option.some.injEq, spineModify_zero] at hc
      subst hc
      rw [hd'] at hb
      have hk := kids_of_depth2 hc0 hb
      have := not_para_of_kids h.root hc0 hk
      rw [(replLast_same _ c0).1] at hneg ⊢
      intro hkp; exact this ⟨hneg, hkp⟩
  · show NE p.root → NE (spineModify _ p.root d)
    cases d with
    | zero => rw [spineModify_zero]; exact (h.root.close0 x p.source (Int.le_refl _) hN (Int.le_refl _)).2.1
    | succ d => exact (h.root.deep _ (d + 1) (by omega) (fun _ c _ => HeadRel.replLast _ c)).2.1

/-- Closing a container that is not a child of the document, at the cursor (`endBlock`). -/
theorem closeContainer_deep {am : Bool} {N : Nat} {p : LP} (x : PExt) (e : Int) (h : LA am N p) (hd : 2 ≤ p.depth) :
    LA am N (p.closeContainer x e) ∧ (NE p.root → NE (p.closeContainer x e).root) ∧
    (p.closeContainer x e).depth = p.depth - 1 ∧ (p.closeContainer x e).state = p.state := by
  rw [closeContainer_eq x p _ (by omega)]
  obtain ⟨b, hb⟩ := h.dv
  obtain ⟨d, hd'⟩ : ∃ d, p.depth = d + 2 := ⟨p.depth - 2, by omega⟩
  have hdv : ∃ y, spineGet p.root (d + 1) = some y := spineGet_le hb (by omega)
  have hdeep := h.root.deep (replLast (closeBlock x p.source e)) (d + 1) (by omega) (fun _ c _ => HeadRel.replLast _ c)
  have e1 : p.depth - 1 = d + 1 := by omega
  simp only [e1]
  refine ⟨⟨h.cur, h.ile, ?_, hdeep.1, ?_⟩, hdeep.2.1, by first | rfl | trivial, by first | rfl | trivial⟩
  · obtain ⟨y, hy⟩ := hdv
    exact ⟨_, by simp only; rw [spineGet_modify_same, hy]; rfl⟩
  · intro ham hd1 c hc hneg
    simp only at hd1 hc
    have hd0 : d = 0 := by omega
    subst hd0
    rw [lastKid_deep] at hc
    cases hc0 : p.root.blocks.getLast? with
    | none => rw [hc0] at hc; cases hc
    | some c0 =>
      rw [hc0] at hc
      simp only [Option.map_some, Option.some.injEq, spineModify_zero] at hc
      subst hc
      rw [hd'] at hb
      have hk := kids_of_depth2 hc0 hb
      have := not_para_of_kids h.root hc0 hk
      rw [(replLast_same _ c0).1] at hneg ⊢
      intro hkp; exact this ⟨hneg, hkp⟩

/-- Closing a child of the document at a position `e` inside the line. -/
theorem closeContainer_top {am : Bool} {N : Nat} {p : LP} (x : PExt) (e : Int) (h : LA am N p) (hd : p.depth = 1)
    (he0 : (p.lineStart : Int) ≤ e) (he1 : e ≤ (N : Int)) :
    RootOK N N N (p.closeContainer x e).root ∧ LastClosed (p.closeContainer x e).root ∧
    (NE p.root → NE (p.closeContainer x e).root) ∧ (p.closeContainer x e).depth = 0 ∧
    (p.closeContainer x e).state = p.state := by
  rw [closeContainer_eq x p _ (by omega)]
  simp only [hd, Nat.sub_self, spineModify_zero]
  obtain ⟨k1, k2, k3⟩ := h.root.close0 x p.source he0 he1 he0
  have hls : p.lineStart ≤ N := by have := h.cur; omega
  exact ⟨k1.mono (Nat.le_refl _) hls he1, k3, k2, by first | rfl | trivial, by first | rfl | trivial⟩

/-! ### closeLastChild -/

theorem closeLastChild_LA {am : Bool} {N : Nat} {p : LP} (x : PExt) (h : LA am N p) :
    LA am N (p.closeLastChild x p.lineStart) ∧ (NE p.root → NE (p.closeLastChild x p.lineStart).root) := by
  unfold LP.closeLastChild
  rw [spineReplaceLast_eq]
  obtain ⟨b, hb⟩ := h.dv
  have hN : (p.lineStart : Int) ≤ (N : Int) := by have := h.cur; omega
  have key : RootOK N p.lineStart p.lineStart (spineModify (replLast (closeBlock x p.source p.lineStart)) p.root p.depth) ∧
      (NE p.root → NE (spineModify (replLast (closeBlock x p.source p.lineStart)) p.root p.depth)) := by
    cases hd : p.depth with
    | zero =>
      rw [spineModify_zero]
      have := h.root.close0 x p.source (Int.le_refl _) hN (Int.le_refl _)
      exact ⟨this.1, this.2.1⟩
    | succ d =>
      have := h.root.deep (replLast (closeBlock x p.source p.lineStart)) (d + 1) (by omega) (fun _ c _ => HeadRel.replLast _ c)
      exact ⟨this.1, this.2.1⟩
  refine ⟨⟨h.cur, h.ile, ⟨_, by simp only; rw [spineGet_modify_same, hb]; rfl⟩, key.1, ?_⟩, key.2⟩
  intro ham hd1 c hc hneg
  simp only at hd1 hc
  rw [hd1] at hc
  rw [lastKid_deep] at hc
  cases hc0 : p.root.blocks.getLast? with
  | none => rw [hc0] at hc; cases hc
  | some c0 =>
    rw [hc0] at hc
    simp only [Option.map_some, Option.some.injEq, spineModify_zero] at hc
    subst hc
    rw [(replLast_same _ c0).1] at hneg ⊢
    exact h.rp ham hd1 c0 hc0 hneg

/-! ### openBlock -/

/-- `p'` has the cursor, the source and the state of `p`. -/
structure TreeFrame (p p' : LP) : Prop where
  source : p'.source = p.source
  lineStart : p'.lineStart = p.lineStart
  line : p'.line = p.line
  i : p'.i = p.i

theorem TreeFrame.refl (p : LP) : TreeFrame p p := ⟨rfl, rfl, rfl, rfl⟩

theorem TreeFrame.trans {p q r : LP} (h1 : TreeFrame p q) (h2 : TreeFrame q r) : TreeFrame p r :=
  ⟨h2.source.trans h1.source, h2.lineStart.trans h1.lineStart, h2.line.trans h1.line, h2.i.trans h1.i⟩

theorem TreeFrame.of_cur {p p' : LP} (h : CurFrame p p') (hi : p'.i = p.i) : TreeFrame p p' :=
  ⟨h.source, h.lineStart, h.line, hi⟩

theorem closeContainer_tframe (x : PExt) (p : LP) (e : Int) (hd : p.depth ≠ 0) : TreeFrame p (p.closeContainer x e) := by
  rw [closeContainer_eq x p e hd]; exact ⟨rfl, rfl, rfl, rfl⟩

theorem canContain_para (k : Nat) : canContain BK.paragraph k = false := by
  simp [canContain, BK.paragraph]

theorem openBlockLoop_LA {am : Bool} {N : Nat} (x : PExt) (kind : Nat) : ∀ (fuel : Nat) (p : LP), LA am N p →
    p.depth + 1 ≤ fuel →
    LA am N (LP.openBlockLoop x kind fuel p) ∧ (NE p.root → NE (LP.openBlockLoop x kind fuel p).root) ∧
    (canContain (LP.openBlockLoop x kind fuel p).containerKind kind = true ∨ (LP.openBlockLoop x kind fuel p).depth = 0) ∧
    TreeFrame p (LP.openBlockLoop x kind fuel p) ∧ (LP.openBlockLoop x kind fuel p).state = p.state := by
  intro fuel
  induction fuel with
  | zero => intro p _ hf; omega
  | succ fuel ih =>
    intro p h hf
    unfold LP.openBlockLoop
    split
    · rename_i hc
      exact ⟨h, fun h => h, Or.inl hc, TreeFrame.refl p, rfl⟩
    · split
      · rename_i hd
        have hd' : p.depth = 0 := by simpa using hd
        obtain ⟨s1, s2, s3⟩ := setPanic_frame p "openBlock: no ancestor can contain the block"
        exact ⟨h.of_frame s1, by rw [s1.root]; exact fun h => h, Or.inr (by rw [s1.depth]; exact hd'), TreeFrame.of_cur s1 s3, s2⟩
      · rename_i hd
        have hd' : p.depth ≠ 0 := by simpa using hd
        obtain ⟨c1, c2, c3, c4⟩ := closeContainer_LA x h hd'
        have tf := closeContainer_tframe x p p.lineStart hd'
        obtain ⟨r1, r2, r3, r4, r5⟩ := ih (p.closeContainer x p.lineStart) c1 (by rw [c3]; omega)
        exact ⟨r1, fun hn => r2 (c2 hn), r3, tf.trans r4, by rw [r5, c4]⟩

/-- The result of `openBlock` when the state allows it. -/
theorem openBlock_eq (x : PExt) (p : LP) (kind : Nat) (setAttrs : PLabel → PLabel)
    (hs : ¬ (p.state = stateDescending ∨ p.state = stateDescendTerminated)) :
    p.openBlock x kind setAttrs =
      (let p2 := LP.openBlockLoop x kind (p.markMatched.depth + 1) p.markMatched
       let child : PB := .mk (setAttrs { kind := kind, start := p2.lineStart + p2.i }) [] []
       { p2 with root := spineModify (closeAppend x p2.source p2.lineStart child) p2.root p2.depth, depth := p2.depth + 1 }) := by
  unfold LP.openBlock
  have : (p.state == stateDescending || p.state == stateDescendTerminated) = false := by
    simp only [Bool.or_eq_false_iff, beq_eq_false_iff_ne, ne_eq]
    exact ⟨fun h => hs (Or.inl h), fun h => hs (Or.inr h)⟩
  rw [this]
  simp only [Bool.false_eq_true, if_false, LP.closeLastChild, spineReplaceLast_eq, spineModify_comp]
  all_goals congr 1

theorem openBlock_LA {am : Bool} {N : Nat} {p : LP} (x : PExt) (kind : Nat) (setAttrs : PLabel → PLabel) (h : LA am N p)
    (hs : ¬ (p.state = stateDescending ∨ p.state = stateDescendTerminated))
    (hk : kind ≠ BK.setextHeading) (hkp : kind ≠ BK.paragraph ∨ am = true)
    (ha : ∀ l, (setAttrs l).kind = l.kind ∧ (setAttrs l).stop = l.stop) :
    LA am N (p.openBlock x kind setAttrs) ∧ NE (p.openBlock x kind setAttrs).root ∧
    1 ≤ (p.openBlock x kind setAttrs).depth ∧ (p.openBlock x kind setAttrs).containerKind = kind ∧
    TreeFrame p (p.openBlock x kind setAttrs) ∧ (p.openBlock x kind setAttrs).state = p.markMatched.state := by
  rw [openBlock_eq x p kind setAttrs hs]
  obtain ⟨m1, m2, m3, m4⟩ := markMatched_frame p
  have hm := h.of_frame m1
  obtain ⟨r1, r2, r3, r4, r5⟩ := openBlockLoop_LA x kind (p.markMatched.depth + 1) p.markMatched hm (Nat.le_refl _)
  generalize LP.openBlockLoop x kind (p.markMatched.depth + 1) p.markMatched = p2 at r1 r2 r3 r4 r5
  simp only
  have hN : (p2.lineStart : Int) ≤ (N : Int) := by have := r1.cur; omega
  obtain ⟨b, hb⟩ := r1.dv
  -- the new child
  have hcs : (setAttrs { kind := kind, start := (p2.lineStart : Int) + p2.i }).stop < 0 := by
    rw [(ha _).2]; show (-1 : Int) < 0; decide
  have hck : (setAttrs { kind := kind, start := (p2.lineStart : Int) + p2.i }).kind = kind := by rw [(ha _).1]
  generalize hchild : PB.mk (setAttrs { kind := kind, start := (p2.lineStart : Int) + p2.i }) [] [] = child
  have hcs' : child.label.stop < 0 := by rw [← hchild]; exact hcs
  have hck' : child.label.kind = kind := by rw [← hchild]; exact hck
  have hci : child.inlines = [] := by rw [← hchild]; rfl
  have hcb : child.blocks = [] := by rw [← hchild]; rfl
  -- the tree
  have hroot : RootOK N p2.lineStart p2.lineStart (spineModify (closeAppend x p2.source p2.lineStart child) p2.root p2.depth) ∧
      NE (spineModify (closeAppend x p2.source p2.lineStart child) p2.root p2.depth) := by
    cases hd : p2.depth with
    | zero =>
      rw [spineModify_zero]
      exact r1.root.closeAppend0 x p2.source child (Int.le_refl _) hN (Int.le_refl _) hcs' (by rw [hck']; exact hk) hci hcb
    | succ d =>
      rw [hd] at hb
      have hne : NE p2.root := by
        obtain ⟨y, hy⟩ := spineGet_le hb (show 1 ≤ d + 1 by omega)
        rw [spineGet_one] at hy
        intro he; rw [he] at hy; cases hy
      have := r1.root.deep (closeAppend x p2.source p2.lineStart child) (d + 1) (by omega) (by
        intro hd1 c hc
        have hd0 : d = 0 := by omega
        subst hd0
        apply HeadRel.closeAppend
        rintro ⟨h1, h2⟩
        rcases r3 with hcan | hz
        · have hcont : p2.container = c := by
            apply container_eq; rw [hd, spineGet_one]; exact hc
          unfold LP.containerKind at hcan
          rw [hcont] at hcan
          unfold PB.kind at hcan
          rw [h2, canContain_para] at hcan
          cases hcan
        · omega)
      exact ⟨this.1, this.2.1 hne⟩
  have hget : spineGet (spineModify (closeAppend x p2.source p2.lineStart child) p2.root p2.depth) (p2.depth + 1) = some child := by
    rw [spineGet_modify_below, hb]
    simp only [Option.bind_some]
    rw [spineGet_one, (closeAppend_blocks x p2.source p2.lineStart child b).1]
    exact List.getLast?_concat
  refine ⟨⟨r1.cur, r1.ile, ⟨child, hget⟩, hroot.1, ?_⟩, hroot.2, Nat.le_add_left 1 p2.depth, ?_, ?_, ?_⟩
  · intro ham hd1 c hc hneg
    simp only at hd1 hc
    have hd0 : p2.depth = 0 := by omega
    rw [hd0, spineModify_zero, (closeAppend_blocks x p2.source p2.lineStart child p2.root).1] at hc
    simp only [List.getLast?_concat, Option.some.injEq] at hc
    subst hc
    rw [hck']
    rcases hkp with h' | h'
    · exact h'
    · rw [h'] at ham; cases ham
  · show ((spineGet _ (p2.depth + 1)).getD _).kind = kind
    rw [hget]
    exact hck'
  · have t := (TreeFrame.of_cur m1 m3).trans r4
    exact ⟨t.source, t.lineStart, t.line, t.i⟩
  · exact r5

/-- When the container can contain the new block, `openBlock` goes exactly one level down. -/
theorem openBlock_depth (x : PExt) (p : LP) (kind : Nat) (setAttrs : PLabel → PLabel)
    (hs : ¬ (p.state = stateDescending ∨ p.state = stateDescendTerminated))
    (hc : canContain p.containerKind kind = true) : (p.openBlock x kind setAttrs).depth = p.depth + 1 := by
  rw [openBlock_eq x p kind setAttrs hs]
  obtain ⟨m1, _, _, _⟩ := markMatched_frame p
  have hc' : canContain p.markMatched.containerKind kind = true := by
    rw [(show p.markMatched.containerKind = p.containerKind by
      unfold LP.containerKind LP.container; rw [m1.root, m1.depth])]; exact hc
  have : LP.openBlockLoop x kind (p.markMatched.depth + 1) p.markMatched = p.markMatched := by
    unfold LP.openBlockLoop; rw [if_pos hc']
  simp only [this]
  rw [m1.depth]

end CM.Proofs
