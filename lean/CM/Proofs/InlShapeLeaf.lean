import CM.Proofs.InlShapePure
import CM.Proofs.InlShapeSiteRun
/-
C13, inline half — the clauses for hard line breaks, autolinks and character references (and, trivially, every kind
without a clause), for every node (any depth) of the new inline children of a container:
`parseInlines_shape_leaf`, lifted through `Rewrite` in `rewriteE_shape_leaf`.
The hard-break clause needs a hypothesis on the container's block-phase inline children (`HBreakOK`): it is FALSE of
the model for arbitrary span lists (`hardBreak_bs_counterexample`, `hardBreak_sp_counterexample`).
-/
namespace CM.Proofs.InlH
open CM CM.Model CM.Model.Inl CM.Spec

/-- An inline node has its shape (the block clauses are the block phase's business). -/
def ShI (src : Bytes) (t : Tree) : Prop := t.label.isBlock = false → shapeAt src t = true

/-- Every inline node of the finished sub-trees of an arena node has its shape. -/
def SubOK (src : Bytes) (m : INode) : Prop := ∀ t ∈ T.nodesL m.sub, ShI src t

/-- Hypothesis on the block-phase inline children that are taken over as they are (Text / Indent / … leaves there). -/
def InShape (src : Bytes) (unparsed : List Tree) : Prop :=
  ∀ u ∈ unparsed, u.label.isBlock = false → isUnparsed u = false → ∀ t ∈ T.nodes u, ShI src t

/-- What the two hard-break sites need to know about the END `se` of every inline child but the last (in a block-phase
    tree: the end of a line of a paragraph): the last byte before `se` is not a backslash, and a rest `[p, se)` of
    the span that `parseHardLineBreakSpace` accepts is two or more spaces and ONE line ending. -/
def HBreakOK (src : Bytes) (unparsed : List Tree) : Prop :=
  ∀ (k : Nat) (u : Tree), k + 1 < unparsed.length → unparsed[k]? = some u →
    (∀ p : Nat, (p : Int) + 1 = u.label.stop → src[p]? ≠ some 0x5C) ∧
    (∀ p : Nat, (p : Int) ≤ u.label.stop → u.label.stop ≤ src.length →
      (parseHardLineBreakSpace (sliceI src (p : Int) u.label.stop)).snd = true →
      hardBreakShape (sliceI src (p : Int) u.label.stop) = true)

theorem noSubS {src : Bytes} : ∀ t ∈ T.nodesL ([] : List Tree), ShI src t :=
  fun t ht => by simp [T.nodesL] at ht

theorem shape_all {src : Bytes} {ts : List Tree} (h : ∀ c ∈ ts, ∀ u ∈ T.nodes c, ShI src u) :
    ∀ t ∈ T.nodesL ts, ShI src t := by
  intro t ht
  obtain ⟨c, hc, htc⟩ := mem_nodesL ht
  exact h c hc t htc

theorem shape_mkInline (src : Bytes) (k : Nat) (a b : Int) (hk : shapeI src k a b = true) :
    ∀ u ∈ T.nodes (Model.mkInline k a b), ShI src u := by
  intro u hu _
  rw [Model.mkInline, T.nodes, T.nodesL, List.mem_singleton] at hu
  subst hu
  rw [shapeAt_inline src _ rfl]
  exact hk

theorem charRefShape3_of (s : Bytes) (h : charRefShape s = true) : charRefShape3 s = true := by
  unfold charRefShape at h
  unfold charRefShape3
  split at h
  · rename_i a rest
    simp only [Bool.and_eq_true, beq_iff_eq, decide_eq_true_eq] at h
    obtain ⟨⟨⟨h1, h2⟩, h3⟩, _⟩ := h
    simp only [List.length_cons, List.head?_cons, Bool.and_eq_true, decide_eq_true_eq, beq_iff_eq]
    refine ⟨⟨by omega, by rw [h1]⟩, ?_⟩
    cases rest with
    | nil => simp at h2
    | cons b r => rw [List.getLast?_cons_cons]; exact h3
  · cases h

theorem collect_shape (ext : Ext) (src : Bytes) (stop textKind : Nat) (escapes : Bool) (htk : ¬ Shaped textKind)
    (spans : List Tree) (hin : InShape src spans) (fuel k p ps : Nat) :
    ∀ t ∈ T.nodesL (collectTextNodes ext src stop textKind escapes fuel (newReader (spans.drop k) p) ps []),
      ShI src t := by
  apply shape_all
  exact collect_all ext src stop textKind escapes (fun c => ∀ u ∈ T.nodes c, ShI src u)
    (fun a b => shape_mkInline src _ a b (shapeI_other src _ a b htk))
    (fun p k e he => shape_mkInline src _ _ _ (by
      rw [shapeI_charRef]; exact charRefShape3_of _ (charRef_site ext src p k e he))) spans
    (fun t ht hi => hin t ht (isIndent_inline hi).1 (isIndent_inline hi).2) fuel k p ps

/-- The arena invariant: the clause of the node itself (hard break, autolink, character reference), and the shapes of
    all nodes of its finished sub-trees. -/
def φL (src : Bytes) (m : INode) : Prop :=
  ((m.kind = IK.hardBreak ∨ m.kind = IK.autolink ∨ m.kind = IK.charRef) → shapeI src m.kind m.start m.stop = true) ∧
  SubOK src m

theorem φL.other {src : Bytes} {m : INode} (h1 : m.kind ≠ IK.hardBreak) (h2 : m.kind ≠ IK.autolink)
    (h3 : m.kind ≠ IK.charRef) (hs : SubOK src m) : φL src m :=
  ⟨fun h => by rcases h with h | h | h <;> contradiction, hs⟩

theorem not_shaped_text : ¬ Shaped IK.text := by unfold Shaped; decide
theorem not_shaped_rawHTML : ¬ Shaped IK.rawHTML := by unfold Shaped; decide
theorem not_shaped_indent : ¬ Shaped IK.indent := by unfold Shaped; decide

/-! ### the context `parseInlines` builds, on lists -/

theorem spanEndOf_inl (x : IExt) (src : Bytes) (srcA : Array UInt8) (matchRef : Bytes → Bool) (unparsed : List Tree)
    (s : IState) (hk : s.unparsedPos < unparsed.length) :
    spanEndOf (inlCtx x src srcA matchRef unparsed) s = (unparsed[s.unparsedPos]).label.stop := by
  unfold spanEndOf inlCtx
  simp only [List.size_toArray]
  rw [if_neg (by omega)]
  simp only [List.getElem!_toArray]
  rw [getElem!_pos unparsed _ hk]

theorem extract_eq_sliceI (src : Bytes) (a b : Int) (h0 : 0 ≤ a) (hab : a ≤ b) :
    (src.toArray.extract a.toNat b.toNat).toList = sliceI src a b := by
  obtain ⟨p, rfl⟩ := Int.eq_ofNat_of_zero_le h0
  obtain ⟨q, rfl⟩ := Int.eq_ofNat_of_zero_le (by omega : 0 ≤ b)
  rw [sliceI_of_nat src p q (by omega)]
  simp [List.extract_eq_take_drop]

theorem sliceI_length (src : Bytes) (a b : Int) (h0 : 0 ≤ a) (hab : a ≤ b) (hb : b ≤ src.length) :
    ((sliceI src a b).length : Int) = b - a := by
  obtain ⟨p, rfl⟩ := Int.eq_ofNat_of_zero_le h0
  obtain ⟨q, rfl⟩ := Int.eq_ofNat_of_zero_le (by omega : 0 ≤ b)
  rw [sliceI_of_nat src p q (by omega), slice_length src p q (by omega) (by omega)]
  omega

/-- an accepted autolink at the head of `src.drop p` (seen through a prefix `take m`) -/
theorem autolink_site (src : Bytes) (p m : Nat) (e : Int) (he : 0 ≤ e)
    (h : parseAutolink ((src.drop p).take m) = e) :
    angleShape (sliceI src (p : Int) (e + (p : Int))) = true := by
  obtain ⟨n, rfl, h2, hle, hh, hl⟩ := parseAutolink_shape _ e h he
  have e1 : ((n : Int) + (p : Int)) = (p : Int) + (n : Int) := by omega
  rw [e1, sliceI_nat]
  rw [List.length_take, List.length_drop] at hle
  have hn : n ≤ (src.drop p).length := by rw [List.length_drop]; omega
  unfold angleShape
  have hlen : ((src.drop p).take n).length = n := by rw [List.length_take]; omega
  simp only [hlen, Bool.and_eq_true, decide_eq_true_eq, beq_iff_eq]
  refine ⟨⟨h2, ?_⟩, ?_⟩
  · rw [List.getElem?_take_of_lt (by omega)] at hh
    rw [List.head?_eq_getElem?, List.getElem?_take_of_lt (by omega)]
    exact hh
  · rw [List.getElem?_take_of_lt (by omega)] at hl
    rw [List.getLast?_eq_getElem?, hlen, List.getElem?_take_of_lt (by omega)]
    exact hl

/-! ### the invariant -/

theorem hardBreak_bs_site (x : IExt) (src : Bytes) (matchRef : Bytes → Bool) (unparsed : List Tree)
    (hhb : HBreakOK src unparsed) (s : IState) (start : Int)
    (hlast : s.unparsedPos + 1 < (inlCtx x src src.toArray matchRef unparsed).unparsed.size)
    (h0 : 0 ≤ start) (h1 : start < (inlCtx x src src.toArray matchRef unparsed).srcA.size)
    (hlt : start < spanEndOf (inlCtx x src src.toArray matchRef unparsed) s)
    (hb : (inlCtx x src src.toArray matchRef unparsed).srcA[start.toNat]! = 0x5C)
    (hd : start + 1 ≥ spanEndOf (inlCtx x src src.toArray matchRef unparsed) s ∨
      (start + 1 < (inlCtx x src src.toArray matchRef unparsed).srcA.size ∧
        ((inlCtx x src src.toArray matchRef unparsed).srcA[(start + 1).toNat]! = LF ∨
         (inlCtx x src src.toArray matchRef unparsed).srcA[(start + 1).toNat]! = CR))) :
    hardBreakShape (sliceI src start
      (bsStop (inlCtx x src src.toArray matchRef unparsed) (spanEndOf (inlCtx x src src.toArray matchRef unparsed) s) start))
      = true := by
  have hk : s.unparsedPos + 1 < unparsed.length := by simpa [inlCtx] using hlast
  rw [spanEndOf_inl x src _ matchRef unparsed s (by omega)] at hlt hd ⊢
  obtain ⟨p, rfl⟩ := Int.eq_ofNat_of_zero_le h0
  have hp : p < src.length := by simpa [inlCtx] using h1
  have hbs : src[p] = 0x5C := by
    have : src.toArray[p]! = 0x5C := by simpa [inlCtx] using hb
    rw [toArray_get! src p hp] at this; exact this
  obtain ⟨hA, -⟩ := hhb s.unparsedPos (unparsed[s.unparsedPos]) hk (List.getElem?_eq_getElem (by omega))
  have hse : (p : Int) + 1 < (unparsed[s.unparsedPos]).label.stop := by
    by_cases h : (p : Int) + 1 < (unparsed[s.unparsedPos]).label.stop
    · exact h
    · exfalso
      refine hA p (by omega) ?_
      rw [List.getElem?_eq_getElem hp, hbs]
  rcases hd with hd | ⟨hd1, hd2⟩
  · omega
  · have hp1 : p + 1 < src.length := by
      have : ((p : Int) + 1) < (src.length : Int) := by simpa [inlCtx] using hd1
      omega
    have e1 : ((p : Int) + 1).toNat = p + 1 := by omega
    have hn : src[p + 1] = LF ∨ src[p + 1] = CR := by
      simp only [inlCtx, e1, toArray_get! src (p + 1) hp1] at hd2
      exact hd2
    exact hardBreak_bs _ src rfl p _ hp1 hbs hse hn

theorem hardBreak_sp_site (x : IExt) (src : Bytes) (matchRef : Bytes → Bool) (unparsed : List Tree)
    (hhb : HBreakOK src unparsed) (s : IState) (pos : Int)
    (hlast : s.unparsedPos + 1 < (inlCtx x src src.toArray matchRef unparsed).unparsed.size)
    (h0 : 0 ≤ pos) (h1 : pos ≤ spanEndOf (inlCtx x src src.toArray matchRef unparsed) s)
    (h2 : spanEndOf (inlCtx x src src.toArray matchRef unparsed) s ≤ (inlCtx x src src.toArray matchRef unparsed).srcA.size)
    (hs : (parseHardLineBreakSpace ((inlCtx x src src.toArray matchRef unparsed).srcA.extract pos.toNat
      (spanEndOf (inlCtx x src src.toArray matchRef unparsed) s).toNat).toList).snd = true) :
    hardBreakShape (sliceI src pos (pos + (parseHardLineBreakSpace ((inlCtx x src src.toArray matchRef unparsed).srcA.extract
      pos.toNat (spanEndOf (inlCtx x src src.toArray matchRef unparsed) s).toNat).toList).fst)) = true := by
  have hk : s.unparsedPos + 1 < unparsed.length := by simpa [inlCtx] using hlast
  rw [spanEndOf_inl x src _ matchRef unparsed s (by omega)] at h1 h2 hs ⊢
  have h2' : (unparsed[s.unparsedPos]).label.stop ≤ (src.length : Int) := by simpa [inlCtx] using h2
  have hex : (inlCtx x src src.toArray matchRef unparsed).srcA.extract pos.toNat (unparsed[s.unparsedPos]).label.stop.toNat
      = src.toArray.extract pos.toNat (unparsed[s.unparsedPos]).label.stop.toNat := rfl
  rw [hex, extract_eq_sliceI src _ _ h0 h1] at hs ⊢
  rw [phlbs_fst _ hs]
  have hl := sliceI_length src pos _ h0 h1 h2'
  have e : pos + ((sliceI src pos (unparsed[s.unparsedPos]).label.stop).length : Int) = (unparsed[s.unparsedPos]).label.stop := by
    omega
  rw [e]
  obtain ⟨p, rfl⟩ := Int.eq_ofNat_of_zero_le h0
  obtain ⟨-, hB⟩ := hhb s.unparsedPos (unparsed[s.unparsedPos]) hk (List.getElem?_eq_getElem (by omega))
  exact hB p h1 h2' hs

/-- `φL` is an invariant of the arena (for `srcA` the source as an array), under the two input hypotheses. -/
theorem siteInv_L (x : IExt) (src : Bytes) (matchRef : Bytes → Bool) (unparsed : List Tree)
    (hin : InShape src unparsed) (hhb : HBreakOK src unparsed) :
    SiteInv (inlCtx x src src.toArray matchRef unparsed) (φL src) where
  text a b := φL.other (by dsimp only; decide) (by dsimp only; decide) (by dsimp only; decide) noSubS
  hardBreakBS s start hlast h0 h1 hlt hb hd := by
    refine ⟨fun _ => ?_, noSubS⟩
    rw [shapeI_hardBreak]
    exact hardBreak_bs_site x src matchRef unparsed hhb s start hlast h0 h1 hlt hb hd
  hardBreakSP s pos hlast h0 h1 h2 hs := by
    refine ⟨fun _ => ?_, noSubS⟩
    rw [shapeI_hardBreak]
    exact hardBreak_sp_site x src matchRef unparsed hhb s pos hlast h0 h1 h2 hs
  charRef pos se e h0 h1 h2 he hp := by
    refine ⟨fun _ => ?_, noSubS⟩
    rw [shapeI_charRef]
    obtain ⟨p, rfl⟩ := Int.eq_ofNat_of_zero_le h0
    obtain ⟨e', rfl⟩ := Int.eq_ofNat_of_zero_le he
    have hp' : parseCharacterEscape x.ext ((src.drop p).take (se.toNat - p)) = Int.ofNat e' := by
      have : ((inlCtx x src src.toArray matchRef unparsed).srcA.extract (p : Int).toNat se.toNat).toList
          = (src.drop p).take (se.toNat - p) := by
        simp [inlCtx, List.extract_eq_take_drop]
      rw [← this]; exact hp
    exact charRefShape3_of _ (charRef_site x.ext src p _ e' hp')
  softBreak1 pos _ _ _ := φL.other (by dsimp only; decide) (by dsimp only; decide) (by dsimp only; decide) noSubS
  softBreak2 pos _ _ _ _ := φL.other (by dsimp only; decide) (by dsimp only; decide) (by dsimp only; decide) noSubS
  wrapped k a b hk := φL.other (by rcases hk with rfl | rfl | rfl | rfl <;> (dsimp only; decide))
    (by rcases hk with rfl | rfl | rfl | rfl <;> (dsimp only; decide))
    (by rcases hk with rfl | rfl | rfl | rfl <;> (dsimp only; decide)) noSubS
  imported t ht hb _ hk := by
    have hu : isUnparsed t = false := by
      unfold isUnparsed Node.isI
      simp [hk]
    have hall := hin t (by simpa [inlCtx] using ht) hb hu
    refine ⟨fun _ => ?_, fun u hu' => hall u (nodesL_children_sub hu')⟩
    have := hall t (self_mem_nodes t) hb
    rw [shapeAt_inline src t hb] at this
    exact this
  codeSpan cs ks hks _ _ := by
    refine φL.other (by dsimp only; decide) (by dsimp only; decide) (by dsimp only; decide) (shape_all fun c hc u hu => ?_)
    obtain ⟨k, hk, rfl⟩ := List.mem_map.1 hc
    rw [CSN.toTree, T.nodes, T.nodesL, List.mem_singleton] at hu
    subst hu
    intro _
    rw [shapeAt_inline src _ rfl]
    refine shapeI_other src _ _ _ ?_
    rcases hks k (Array.mem_toList_iff.1 hk) with h | h
    · show ¬ Shaped k.kind; rw [h]; exact not_shaped_text
    · show ¬ Shaped k.kind; rw [h]; exact not_shaped_indent
  autolink pos se e h0 h1 h2 he hp := by
    refine ⟨fun _ => ?_, shape_all fun c hc u hu => ?_⟩
    · rw [shapeI_autolink]
      obtain ⟨p, rfl⟩ := Int.eq_ofNat_of_zero_le h0
      have : ((inlCtx x src src.toArray matchRef unparsed).srcA.extract (p : Int).toNat se.toNat).toList
          = (src.drop p).take (se.toNat - p) := by
        simp [inlCtx, List.extract_eq_take_drop]
      rw [this] at hp
      exact autolink_site src p _ e he hp
    · rw [List.mem_singleton] at hc
      subst hc
      exact shape_mkInline src _ _ _ (shapeI_other src _ _ _ not_shaped_text) u hu
  htmlTag k pos _ _ _ _ := φL.other (by dsimp only; decide) (by dsimp only; decide) (by dsimp only; decide)
    (collect_shape _ _ _ _ _ not_shaped_rawHTML unparsed hin _ k _ _)
  linkDest a b stop fuel k p ps := φL.other (by dsimp only; decide) (by dsimp only; decide) (by dsimp only; decide)
    (collect_shape _ _ _ _ _ not_shaped_text unparsed hin fuel k p ps)
  linkDestEmpty a b := φL.other (by dsimp only; decide) (by dsimp only; decide) (by dsimp only; decide) noSubS
  linkTitle a b stop fuel k p ps := φL.other (by dsimp only; decide) (by dsimp only; decide) (by dsimp only; decide)
    (collect_shape _ _ _ _ _ not_shaped_text unparsed hin fuel k p ps)
  linkTitleEmpty a b := φL.other (by dsimp only; decide) (by dsimp only; decide) (by dsimp only; decide) noSubS
  linkLabel a b stop fuel k p ps ref _ := φL.other (by dsimp only; decide) (by dsimp only; decide) (by dsimp only; decide)
    (collect_shape _ _ _ _ _ not_shaped_text unparsed hin fuel k p ps)
  modKids n ks h := h
  modSpan n a b h hk := by
    refine φL.other ?_ ?_ ?_ h.2
    all_goals (show n.kind ≠ _; intro h'; rw [h'] at hk; exact absurd hk (by decide))
  modLink n a b r h hk _ := by
    refine φL.other ?_ ?_ ?_ h.2
    all_goals (show n.kind ≠ _; rcases hk with h' | h' <;> (rw [h']; decide))

/-! ### the theorems -/

/-- The kinds this file proves the clause for: everything except emphasis, strong emphasis, code spans, links, images
    and raw HTML tags — i.e. hard breaks, autolinks, character references, and every kind whose clause is `true`. -/
def LeafKind (k : Nat) : Prop :=
  k ≠ IK.emphasis ∧ k ≠ IK.strong ∧ k ≠ IK.codeSpan ∧ k ≠ IK.link ∧ k ≠ IK.image ∧ k ≠ IK.htmlTag

theorem shapeI_of_φL {src : Bytes} {m : INode} (h : φL src m) (hk : LeafKind m.kind) :
    shapeI src m.kind m.start m.stop = true := by
  by_cases hs : Shaped m.kind
  · obtain ⟨h1, h2, h3, h4, h5, h6⟩ := hk
    unfold Shaped at hs
    refine h.1 ?_
    rcases hs with hs | hs | hs | hs | hs | hs | hs | hs | hs
    all_goals first
      | contradiction
      | exact Or.inl hs
      | exact Or.inr (Or.inl hs)
      | exact Or.inr (Or.inr hs)
  · exact shapeI_other src _ _ _ hs

/-- C13 (inline half, leaf kinds) for one container: every node (any depth) of the new inline children whose kind is
    not emphasis / strong / code span / link / image / HTML tag has the shape of its construct — a hard line break is
    a backslash or two or more spaces, then a line ending; an autolink is `<`…`>` (two bytes or more); a character
    reference is `&`…`;` (three bytes or more). -/
theorem parseInlines_shape_leaf (x : IExt) (src : Bytes) (matchRef : Bytes → Bool) (cstart cstop : Int)
    (unparsed kids : List Tree) (hin : InShape src unparsed) (hhb : HBreakOK src unparsed)
    (h : parseInlines x src src.toArray matchRef cstart cstop unparsed = .ok kids) :
    ∀ t ∈ T.nodesL kids, t.label.isBlock = false → LeafKind t.label.kind → shapeAt src t = true := by
  intro t ht htb hk
  obtain ⟨m, hm, hl | hs⟩ := parseInlines_nodes_site x src src.toArray matchRef cstart cstop unparsed (φL src)
    (siteInv_L x src matchRef unparsed hin hhb)
    (φL.other (by dsimp only; decide) (by dsimp only; decide) (by dsimp only; decide) noSubS) kids h t ht
  · have hb : t.label.isBlock = false := by rw [hl]; rfl
    rw [shapeAt_inline src t hb, hl]
    rw [hl] at hk
    exact shapeI_of_φL hm hk
  · exact hm.2 t hs htb

/-- Lifting a shape theorem about `parseInlines` (for the kinds `K`, under a hypothesis `R` on the inline children of
    the parsed containers) through `Rewrite`. -/
theorem rewriteE_shapeK (x : IExt) (src : Bytes) (matchRef : Bytes → Bool) (K : Nat → Prop) (R : List Tree → Prop)
    (hparse : ∀ (cstart cstop : Int) (cs kids : List Tree), InShape src cs → R cs →
      parseInlines x src src.toArray matchRef cstart cstop cs = .ok kids →
      ∀ t ∈ T.nodesL kids, t.label.isBlock = false → K t.label.kind → shapeAt src t = true)
    (t t' : Tree)
    (hpre : ∀ u ∈ T.nodes t, u.label.isBlock = false → shapeAt src u = true)
    (hR : ∀ p ∈ conts t, R p.2)
    (h : rewriteE x src src.toArray matchRef t = .ok t') :
    ∀ u ∈ T.nodes t', u.label.isBlock = false → K u.label.kind → shapeAt src u = true := by
  obtain ⟨hs, hcont⟩ := surv_conts_of_all (Q := fun u => u.label.isBlock = false → shapeAt src u = true) t hpre
  refine rewriteE_nodes x src src.toArray matchRef
    (fun u => u.label.isBlock = false → K u.label.kind → shapeAt src u = true)
    (fun _ cs => InShape src cs ∧ R cs)
    (fun l cs kids hRR hp u hu hb hk => hparse l.start l.stop cs kids hRR.1 hRR.2 hp u hu hb hk)
    (fun l cs cs' _ hb hb' => by rw [show (Tree.node l cs').label.isBlock = l.isBlock from rfl, hb] at hb'; cases hb')
    t.size t t' (Nat.le_refl _) (fun u hu hb _ => hs u hu hb) ?_ h
  intro p hp
  exact ⟨fun c hc hb _ v hv => hcont p hp c hc v hv, hR p hp⟩

/-- C13 (inline half, leaf kinds) for `Rewrite`: if the inline nodes the block phase made itself have their shapes
    and the inline children of every container that is parsed satisfy `HBreakOK`, every inline node of the
    rewritten tree whose kind is not emphasis / strong / code span / link / image / HTML tag has its shape. -/
theorem rewriteE_shape_leaf (x : IExt) (src : Bytes) (matchRef : Bytes → Bool) (t t' : Tree)
    (hpre : ∀ u ∈ T.nodes t, u.label.isBlock = false → shapeAt src u = true)
    (hhb : ∀ p ∈ conts t, HBreakOK src p.2)
    (h : rewriteE x src src.toArray matchRef t = .ok t') :
    ∀ u ∈ T.nodes t', u.label.isBlock = false → LeafKind u.label.kind → shapeAt src u = true :=
  rewriteE_shapeK x src matchRef LeafKind (HBreakOK src)
    (fun cstart cstop cs kids hin hR hp => parseInlines_shape_leaf x src matchRef cstart cstop cs kids hin hR hp)
    t t' hpre hhb h

end CM.Proofs.InlH
