import CM.Proofs.BlocksContractPara
/-
C01 contract for the real block parser — closing a child of the document, and the invariants `TopA` / `TopB` of the
children of the document during one line.

Everything here is relative to the hypothesis `onCloseParagraph_cuts_target` (proved in `BlocksContractRefDef.lean`).
-/
namespace CM.Proofs
open CM CM.Model CM.Gen

/-! ### Closing a child of the document -/

/-- What is known about the text of an open paragraph child of the document: it tiles `[a, b)` for some `a`. -/
def ParaT (b : Nat) (c : PB) : Prop :=
  c.label.kind = BK.paragraph → c.inlines ≠ [] → ∃ a, ContigL c.inlines a b

/-- The blocks that replace a child of the document closed at `e` (its text, if it is a paragraph, ends at `b`). -/
def CloseTopSpec (src : Bytes) (e : Int) (b : Nat) (isSetext : Prop) (out : List PB) : Prop :=
  ∃ pre tail, out = pre ++ tail ∧ DefChain src b 0 pre ∧
    ((tail = [] ∧ pre ≠ [] ∧ ¬ isSetext ∧ Gap src (lastStop 0 pre).toNat b) ∨
     (∃ last, tail = [last] ∧ last.label.stop = e ∧ (pre ≠ [] → lastStop 0 pre < (b : Int))) ∨
     (∃ o, tail = [o] ∧ pre ≠ [] ∧ isSetext ∧ OrphanT b e o))

theorem DefChain.weaken_lo {src : Bytes} {b : Nat} {lo lo' : Int} {pre : List PB} (h : DefChain src b lo pre) (hle : lo' ≤ lo) :
    DefChain src b lo' pre := by
  cases pre with
  | nil => trivial
  | cons d rest => exact ⟨by have := h.1; omega, h.2.1, h.2.2.1, h.2.2.2⟩

theorem lastStop_of_ne (lo lo' : Int) {pre : List PB} (h : pre ≠ []) : lastStop lo pre = lastStop lo' pre := by
  cases pre with
  | nil => exact absurd rfl h
  | cons d rest => rfl

theorem closeTopSpec_single {src : Bytes} {e : Int} {b : Nat} {P : Prop} {c : PB} (h : c.label.stop = e) :
    CloseTopSpec src e b P [c] :=
  ⟨[], [c], rfl, trivial, Or.inr (Or.inl ⟨c, rfl, h, fun h' => absurd rfl h'⟩)⟩

theorem closeBlock_top (H : onCloseParagraph_cuts_target) (x : PExt) (src : Bytes) (e : Int) (c : PB) (b : Nat)
    (hop : c.label.stop < 0)
    (hp : (c.label.kind = BK.paragraph ∨ c.label.kind = BK.setextHeading) → c.inlines ≠ [] → ∃ a, ContigL c.inlines a b)
    (hb : b ≤ src.length) (hbe : (b : Int) ≤ e)
    (hset : c.label.kind = BK.setextHeading → (b : Int) < e ∧ e ≤ (src.length : Int)) :
    CloseTopSpec src e b (c.label.kind = BK.setextHeading) (closeBlock x src e c) := by
  cases c with
  | mk l bs is =>
    simp only [PB.label] at hop hset
    have hcl : ¬ l.stop ≥ 0 := by omega
    rw [closeBlock]
    simp only [hcl, if_false]
    split
    · split
      · exact closeTopSpec_single rfl
      · exact closeTopSpec_single rfl
    · split
      · rename_i hk
        have hk' : l.kind = BK.paragraph ∨ l.kind = BK.setextHeading := by simpa using hk
        cases is with
        | nil =>
          simp only [onCloseParagraph]
          exact closeTopSpec_single rfl
        | cons first rest =>
          obtain ⟨a, ha⟩ := hp hk' (by simp [PB.inlines])
          simp only [PB.inlines] at ha
          obtain ⟨pre, tail, h1, h2, h3⟩ := H x src { l with stop := e } bs (first :: rest) a b ha (by simp) hb hbe hset
          refine ⟨pre, tail, h1, h2.weaken_lo (by omega), ?_⟩
          rcases h3 with ⟨t1, t2, t3, t4⟩ | ⟨last, t1, t2, t3⟩ | ⟨o, t1, t2, t3, t4⟩
          · exact Or.inl ⟨t1, t2, t3, by rw [lastStop_of_ne 0 (a : Int) t2]; exact t4⟩
          · exact Or.inr (Or.inl ⟨last, t1, t2, fun hne => by rw [lastStop_of_ne 0 (a : Int) hne]; exact t3⟩)
          · exact Or.inr (Or.inr ⟨o, t1, t2, t3, t4⟩)
      · split
        · refine closeTopSpec_single ?_
          rw [indentedOnClose_label]; rfl
        · exact closeTopSpec_single rfl

/-! ### From definitions to chains -/

theorem cutAt_of_local {src : Bytes} {b : Nat} {e : Int} (hp : Padded src) (hb : CutAt src (b : Int)) (h : LocalCut src b e) :
    CutAt src e := by
  rcases h with rfl | ⟨h0, h1, h2, h3⟩
  · exact hb
  · have hbl := hb.2.1
    refine ⟨h0, by omega, goodCut_of_local hp (by omega) (by omega) h2 ?_⟩
    rintro ⟨c1, _, c3⟩
    exact h3 ⟨c1, c3⟩

theorem defChain_chain {src : Bytes} {b : Nat} (hp : Padded src) (hb : CutAt src (b : Int)) : ∀ {lo : Int} {pre : List PB},
    DefChain src b lo pre → Chain src (b : Int) lo pre := by
  intro lo pre
  induction pre generalizing lo with
  | nil => intro _; trivial
  | cons d rest ih => intro h; exact ⟨h.1, h.2.1, cutAt_of_local hp hb h.2.2.1, ih h.2.2.2⟩

/-! ### The source of the line in progress -/

/-- Facts about the source and the line in progress (`N`: length of the source). -/
structure SrcOK (N : Nat) (p : LP) : Prop where
  len : p.source.length = N
  line : p.line = p.source.drop p.lineStart
  lt : p.lineStart < N
  padded : Padded p.source
  ne : p.source ≠ []
  cutL : 0 < p.lineStart → GoodCut p.source p.lineStart

theorem SrcOK.ls {N : Nat} {p : LP} (h : SrcOK N p) : p.lineStart ≤ N := Nat.le_of_lt h.lt

theorem SrcOK.cutN {N : Nat} {p : LP} (h : SrcOK N p) : CutAt p.source (N : Int) := by
  rw [← h.len]; exact cutAt_length h.padded h.ne

theorem SrcOK.cutLs {N : Nat} {p : LP} (h : SrcOK N p) (h0 : 0 < p.lineStart) : CutAt p.source (p.lineStart : Int) := by
  have := h.ls
  refine ⟨by omega, by rw [h.len]; omega, ?_⟩
  rw [Int.toNat_natCast]; exact h.cutL h0

theorem SrcOK.lineLen {N : Nat} {p : LP} (h : SrcOK N p) : p.lineStart + p.line.length = N := by
  rw [h.line, List.length_drop, h.len]; have := h.ls; omega

theorem SrcOK.of_eq {N : Nat} {p p' : LP} (h : SrcOK N p) (h1 : p'.source = p.source) (h2 : p'.lineStart = p.lineStart)
    (h3 : p'.line = p.line) : SrcOK N p' :=
  ⟨by rw [h1]; exact h.len, by rw [h1, h2, h3]; exact h.line, by rw [h2]; exact h.lt, by rw [h1]; exact h.padded,
   by rw [h1]; exact h.ne, by rw [h1, h2]; exact h.cutL⟩

/-! ### Kinds -/

/-- The kinds that can contain every kind of block but a list item. -/
def Univ (k : Nat) : Bool := k == BK.blockQuote || k == BK.listItem || k == BK.document

/-- A leaf kind that takes the text of the line (no block start is tried inside it). -/
def AL (k : Nat) : Bool := acceptsLines k && k != BK.paragraph

theorem univ_canContain {k K : Nat} (h : Univ k = true) (hK : K ≠ BK.listItem) : canContain k K = true := by
  simp only [Univ, Bool.or_eq_true, beq_iff_eq] at h
  rcases h with (h | h) | h <;> subst h <;> simp [canContain, BK.blockQuote, BK.listItem, BK.document] <;> exact hK

theorem canContain_cases {k K : Nat} (h : canContain k K = true) : Univ k = true ∨ (k = BK.list ∧ K = BK.listItem) := by
  unfold canContain at h
  split at h
  · left; rename_i hk; simp only [beq_iff_eq] at hk; subst hk; decide
  · split at h
    · right; rename_i hk; simp only [beq_iff_eq] at hk h; exact ⟨hk, h⟩
    · split at h
      · left; rename_i hk; simp only [beq_iff_eq] at hk; subst hk; decide
      · split at h
        · left; rename_i hk; simp only [beq_iff_eq] at hk; subst hk; decide
        · cases h

theorem univ_listItem : Univ BK.listItem = true := by decide
theorem univ_blockQuote : Univ BK.blockQuote = true := by decide

theorem al_not_univ {k : Nat} (h : AL k = true) : Univ k = false := by
  simp only [AL, acceptsLines, Bool.and_eq_true] at h
  obtain ⟨h1, _⟩ := h
  unfold Univ
  repeat' split at h1
  all_goals first | (rename_i hk; simp only [beq_iff_eq] at hk; subst hk; decide) | cases h1

end CM.Proofs
