import CM.Proofs.BlocksWellRd
/-
The reader-based scanners of LinkParse.lean keep the reader bounded (`RdOK`).
-/
namespace CM.Proofs
open CM CM.Model CM.Gen

variable {m N : Nat} {pv : Bool} {src : Bytes}

theorem RdOK.current' {r r1 : Rd} {c : UInt8} (h : RdOK m N pv r) (e : r.current src = (c, r1)) : RdOK m N pv r1 := by
  have := h.current src; rw [e] at this; exact this

theorem RdOK.next' {r r1 : Rd} {b : Bool} (h : RdOK m N pv r) (e : r.next src = (b, r1)) : RdOK m N pv r1 := by
  have := h.next src; rw [e] at this; exact this

theorem RdOK.next_true' {r r1 : Rd} (h : RdOK m N pv r) (e : r.next src = (true, r1)) : RdOK m N true r1 := by
  have := h.next_true src (by rw [e]); rw [e] at this; exact this

theorem current_prev (src : Bytes) (r : Rd) : (r.current src).2.prev = r.prev := by
  rcases current_cases src r with e | e <;> rw [e]
  exact (currentNode_pos r).2.1

theorem skipLinkSpace_ok : ∀ (f : Nat) (r : Rd), RdOK m N pv r → RdOK m N pv (skipLinkSpace src f r).2 := by
  intro f
  induction f with
  | zero => intro r h; exact h
  | succ f ih =>
    intro r h
    rcases hc : r.current src with ⟨c, r1⟩
    have h1 := h.current' hc
    rcases hn : r1.next src with ⟨ok, r2⟩
    have h2 := h1.next' hn
    simp only [skipLinkSpace, hc, hn]
    split
    · exact h1
    · split
      · split
        · exact h2
        · exact ih r2 h2
      · exact h1

theorem skipSpacesAndTabs_ok : ∀ (f : Nat) (r : Rd), RdOK m N pv r → RdOK m N pv (skipSpacesAndTabs src f r).2 := by
  intro f
  induction f with
  | zero => intro r h; exact h
  | succ f ih =>
    intro r h
    rcases hc : r.current src with ⟨c, r1⟩
    have h1 := h.current' hc
    rcases hn : r1.next src with ⟨ok, r2⟩
    have h2 := h1.next' hn
    simp only [skipSpacesAndTabs, hc, hn]
    split
    · split
      · exact h2
      · exact ih r2 h2
    · exact h1

/-- `readEOL`: the reader stays bounded and the position returned is `-1` or in `[0, N]`. -/
theorem readEOL_ok (f : Nat) (r : Rd) (h : RdOK m N pv r) :
    RdOK m N pv (readEOL src f r).2 ∧ (readEOL src f r).1 ≤ (N : Int) ∧ -1 ≤ (readEOL src f r).1 := by
  have h0 := skipSpacesAndTabs_ok (src := src) f r h
  rcases hs : skipSpacesAndTabs src f r with ⟨ok, r0⟩
  rw [hs] at h0
  simp only at h0
  rcases hc : r0.current src with ⟨c, r1⟩
  have h1 := h0.current' hc
  rcases hn : r1.next src with ⟨ok1, r2⟩
  have h2 := h1.next' hn
  rcases hc2 : r2.current src with ⟨c2, r3⟩
  have h3 := h2.current' hc2
  rcases hn3 : r3.next src with ⟨ok3, r4⟩
  have h4 := h3.next' hn3
  have p0 := h0.pos; have p2 := h2.prev; have p3 := h3.prev; have p4 := h4.prev
  have q2 := h2.prevlb; have q3 := h3.prevlb; have q4 := h4.prevlb
  simp only [readEOL, hs, hc, hn, hc2, hn3]
  split
  · exact ⟨h0, by simp only; omega, by simp only; omega⟩
  · split
    · split
      · exact ⟨h2, by simp only; omega, by simp only; omega⟩
      · split
        · exact ⟨h4, by simp only; omega, by simp only; omega⟩
        · exact ⟨h3, by simp only; omega, by simp only; omega⟩
    · split
      · exact ⟨h2, by simp only; omega, by simp only; omega⟩
      · exact ⟨h1, by simp only; omega, by simp only; omega⟩

theorem labelSkip_ok : ∀ (f : Nat) (pv : Bool) (r : Rd) (chars : Nat) (r' : Rd) (n : Nat), RdOK m N pv r →
    labelSkip src f r chars = some (r', n) → RdOK m N true r' := by
  intro f
  induction f with
  | zero => intro pv r chars r' n _ e; simp [labelSkip] at e
  | succ f ih =>
    intro pv r chars r' n h e
    rcases hn : r.next src with ⟨ok, r1⟩
    rcases hc : r1.current src with ⟨c, r2⟩
    simp only [labelSkip, hn, hc] at e
    split at e
    · cases e
    · rename_i hok
      have hok' : ok = true := by simpa using hok
      subst hok'
      have h1 := h.next_true' hn
      have h2 := h1.current' hc
      split at e
      · cases e
      · split at e
        · cases e; exact h2
        · exact ih _ _ _ _ _ h2 e

theorem labelBody_ok : ∀ (f : Nat) (r : Rd) (chars : Nat) (ie : Int) (r' : Rd) (ie' : Int), RdOK m N pv r →
    labelBody src f r chars ie = some (r', ie') → RdOK m N pv r' := by
  intro f
  induction f with
  | zero => intro r chars ie r' ie' _ e; simp [labelBody] at e
  | succ f ih =>
    intro r chars ie r' ie' h e
    rcases hc : r.current src with ⟨c, r1⟩
    have h1 := h.current' hc
    rcases hn : r1.next src with ⟨ok, r2⟩
    have h2 := h1.next' hn
    rcases hc2 : r2.current src with ⟨c2, r3⟩
    have h3 := h2.current' hc2
    rcases hn3 : r3.next src with ⟨ok3, r4⟩
    have h4 := h3.next' hn3
    simp only [labelBody, hc, hn, hc2, hn3] at e
    split at e
    · cases e; exact h1
    · split at e
      · split at e
        · cases e
        · split at e
          · cases e
          · split at e
            · cases e
            · exact ih _ _ _ _ _ h4 e
      · split at e
        · cases e
        · exact ih _ _ _ _ _ h2 e

theorem parseLinkLabel_ok (f : Nat) (r : Rd) (h : RdOK m N pv r) : RdOK m N pv (parseLinkLabel src f r).2 := by
  rcases hc : r.current src with ⟨c, r1⟩
  have h1 := h.current' hc
  simp only [parseLinkLabel, hc]
  split
  · exact h1
  · cases hs : labelSkip src f r1 0 with
    | none => exact h1
    | some p =>
      obtain ⟨r2, chars⟩ := p
      have h2' := labelSkip_ok f pv r1 0 r2 chars h1 hs
      have h2 : RdOK m N pv r2 := ⟨h2'.spans, h2'.sorted, h2'.pos, h2'.lo, h2'.prev, h2'.prevlb, fun _ => h2'.pvl rfl, h2'.iv⟩
      simp only
      cases hb : labelBody src f r2 chars (-1) with
      | none => exact h2
      | some q =>
        obtain ⟨r3, ie⟩ := q
        have h3 := labelBody_ok f r2 chars (-1) r3 ie h2 hb
        rcases hc3 : r3.current src with ⟨c3, r4⟩
        have h4 := h3.current' hc3
        rcases hn4 : r4.next src with ⟨ok, r5⟩
        have h5 := h4.next' hn4
        simp only [hc3, hn4]
        split
        · exact h4
        · exact h5

theorem destAngle_ok (start : Nat) : ∀ (f : Nat) (r : Rd), RdOK m N pv r → RdOK m N pv (destAngle src start f r).2 := by
  intro f
  induction f with
  | zero => intro r h; exact h
  | succ f ih =>
    intro r h
    rcases hn : r.next src with ⟨ok, r1⟩
    have h1 := h.next' hn
    rcases hc : r1.current src with ⟨c, r2⟩
    have h2 := h1.current' hc
    rcases hn2 : r2.next src with ⟨ok2, r3⟩
    have h3 := h2.next' hn2
    rcases hc3 : r3.current src with ⟨c3, r4⟩
    have h4 := h3.current' hc3
    simp only [destAngle, hn, hc, hn2, hc3]
    split
    · exact h1
    · split
      · exact h2
      · split
        · split
          · exact h3
          · split
            · exact h4
            · exact ih _ h4
        · split
          · exact h3
          · exact ih _ h2

theorem destBare_ok : ∀ (f : Nat) (r : Rd) (parens : Int), RdOK m N pv r → RdOK m N pv (destBare src f r parens) := by
  intro f
  induction f with
  | zero => intro r _ h; exact h
  | succ f ih =>
    intro r parens h
    rcases hc : r.current src with ⟨c, r1⟩
    have h1 := h.current' hc
    rcases hn : r1.next src with ⟨ok, r2⟩
    have h2 := h1.next' hn
    rcases hc2 : r2.current src with ⟨c2, r3⟩
    have h3 := h2.current' hc2
    rcases hn3 : r3.next src with ⟨ok3, r4⟩
    have h4 := h3.next' hn3
    simp only [destBare, hc, hn, hc2, hn3]
    split
    · exact h1
    · split
      · split
        · exact h2
        · split
          · exact h3
          · split
            · exact h4
            · exact ih _ _ h4
      · split
        · split
          · exact h2
          · exact ih _ _ h2
        · split
          · split
            · exact h1
            · split
              · exact h2
              · exact ih _ _ h2
          · split
            · exact h2
            · exact ih _ _ h2

theorem parseLinkDestination_ok (f : Nat) (r : Rd) (h : RdOK m N pv r) : RdOK m N pv (parseLinkDestination src f r).2 := by
  rcases hc : r.current src with ⟨c, r1⟩
  have h1 := h.current' hc
  simp only [parseLinkDestination, hc]
  split
  · exact destAngle_ok _ f r1 h1
  · split
    · exact destBare_ok f r1 0 h1
    · exact h1

theorem titleLoop_ok (start : Nat) (term : UInt8) : ∀ (f : Nat) (r : Rd), RdOK m N pv r →
    RdOK m N pv (titleLoop src start term f r).2 := by
  intro f
  induction f with
  | zero => intro r h; exact h
  | succ f ih =>
    intro r h
    rcases hn : r.next src with ⟨ok, r1⟩
    have h1 := h.next' hn
    rcases hc : r1.current src with ⟨c, r2⟩
    have h2 := h1.current' hc
    rcases hn2 : r2.next src with ⟨ok2, r3⟩
    have h3 := h2.next' hn2
    simp only [titleLoop, hn, hc, hn2]
    split
    · exact h1
    · split
      · split
        · exact h3
        · exact ih _ h3
      · split
        · exact h3
        · exact ih _ h2

theorem parseLinkTitle_ok (f : Nat) (r : Rd) (h : RdOK m N pv r) : RdOK m N pv (parseLinkTitle src f r).2 := by
  rcases hc : r.current src with ⟨c, r1⟩
  have h1 := h.current' hc
  simp only [parseLinkTitle, hc]
  split
  · exact h1
  · exact titleLoop_ok _ _ f r1 h1

theorem RdOK.weaken {r : Rd} (h : RdOK m N true r) : RdOK m N pv r :=
  ⟨h.spans, h.sorted, h.pos, h.lo, h.prev, h.prevlb, fun _ => h.pvl rfl, h.iv⟩

/-- A valid label: some `next` succeeded while it was parsed. -/
theorem parseLinkLabel_valid (f : Nat) (r : Rd) (h : RdOK m N pv r)
    (hv : (parseLinkLabel src f r).1.span.isValid = true) : RdOK m N true (parseLinkLabel src f r).2 := by
  rcases hc : r.current src with ⟨c, r1⟩
  have h1 := h.current' hc
  simp only [parseLinkLabel, hc] at hv ⊢
  split
  · rename_i hc'; simp [hc', noLabel, nullSpan, SpanI.isValid] at hv
  · rename_i hc'
    simp only [hc', if_false] at hv
    cases hs : labelSkip src f r1 0 with
    | none => simp [hs, noLabel, nullSpan, SpanI.isValid] at hv
    | some p =>
      obtain ⟨r2, chars⟩ := p
      have h2 := labelSkip_ok f pv r1 0 r2 chars h1 hs
      simp only
      cases hb : labelBody src f r2 chars (-1) with
      | none => simp [hs, hb, noLabel, nullSpan, SpanI.isValid] at hv
      | some q =>
        obtain ⟨r3, ie⟩ := q
        have h3 := labelBody_ok f r2 chars (-1) r3 ie h2 hb
        rcases hc3 : r3.current src with ⟨c3, r4⟩
        have h4 := h3.current' hc3
        rcases hn4 : r4.next src with ⟨ok, r5⟩
        have h5 := h4.next' hn4
        simp only [hc3, hn4]
        split
        · exact h4
        · exact h5

theorem CR_ne : (CR : UInt8) ≠ 0 ∧ (CR : UInt8) ≠ SP := by decide
theorem LF_ne : (LF : UInt8) ≠ 0 ∧ (LF : UInt8) ≠ SP := by decide

/-- `readEOL`: the position returned is at most the reader's position afterwards, and (once a `next` has succeeded)
    at least the lower bound. -/
theorem readEOL_pos (f : Nat) (r : Rd) (h : RdOK m N pv r) :
    (readEOL src f r).1 ≤ ((readEOL src f r).2.pos : Int) ∧
    (pv = true → (readEOL src f r).1 = -1 ∨ (m : Int) ≤ (readEOL src f r).1) := by
  have h0 := skipSpacesAndTabs_ok (src := src) f r h
  rcases hs : skipSpacesAndTabs src f r with ⟨ok, r0⟩
  rw [hs] at h0
  simp only at h0
  rcases hc : r0.current src with ⟨c, r1⟩
  have h1 := h0.current' hc
  rcases hn : r1.next src with ⟨ok1, r2⟩
  have h2 := h1.next' hn
  rcases hc2 : r2.current src with ⟨c2, r3⟩
  have h3 := h2.current' hc2
  rcases hn3 : r3.next src with ⟨ok3, r4⟩
  have h4 := h3.next' hn3
  have l0 := h0.lo
  have e3p : r3.pos = r2.pos := by have := current_pos src r2; rw [hc2] at this; exact this
  have e3v : r3.prev = r2.prev := by have := current_prev src r2; rw [hc2] at this; exact this
  simp only [readEOL, hs, hc, hn, hc2, hn3]
  split
  · exact ⟨by simp only; omega, fun _ => Or.inr (by simp only; omega)⟩
  · split
    · rename_i hcr
      have hcr' : c = CR := by simpa using hcr
      have hlt : r2.prev + 1 ≤ (r2.pos : Int) := by
        have := next_prev_lt hc h1 (by rw [hcr']; exact CR_ne.1) (by rw [hcr']; exact CR_ne.2)
        rw [hn] at this; exact this
      split
      · exact ⟨hlt, fun hp => Or.inr (h2.pvl hp)⟩
      · split
        · rename_i hlf
          have hlf' : c2 = LF := by simpa using hlf
          have hlt4 : r4.prev + 1 ≤ (r4.pos : Int) := by
            have := next_prev_lt hc2 h3 (by rw [hlf']; exact LF_ne.1) (by rw [hlf']; exact LF_ne.2)
            rw [hn3] at this; exact this
          exact ⟨hlt4, fun hp => Or.inr (h4.pvl hp)⟩
        · exact ⟨by simp only; omega, fun hp => Or.inr (h3.pvl hp)⟩
    · split
      · rename_i hlf
        have hlf' : c = LF := by simpa using hlf
        have hlt : r2.prev + 1 ≤ (r2.pos : Int) := by
          have := next_prev_lt hc h1 (by rw [hlf']; exact LF_ne.1) (by rw [hlf']; exact LF_ne.2)
          rw [hn] at this; exact this
        exact ⟨hlt, fun hp => Or.inr (h2.pvl hp)⟩
      · exact ⟨by simp only; omega, fun _ => Or.inl rfl⟩

end CM.Proofs
