import CM.Proofs.RefDefCoverClose2
import CM.Proofs.RefDefCoverTOffset
import CM.Proofs.CoverageStream
import CM.Proofs.BlocksGrammar
import CM.Proofs.RefDefSpansStream
/-
C03, block half — discharging `RefDefCoverOK` along a run, part 1: the check on a tree (`opB_upgrade`), line endings
of the lines `readline` cuts, the pending blocks after `makeRoot`, `skipBlank`.
-/
namespace CM.Proofs.RDC
open CM CM.Model CM.Gen CM.Proofs CM.Proofs.BSp CM.Proofs.RDS CM.Proofs.Cov CM.Proofs.BT CM.Proofs.BG

/-! ### the check passes -/

/-- **The second check of the checked line parser passes** on a tree with valid spans whose paragraphs are good in the
    strong sense, that obeys the node grammar and is well formed. -/
theorem opB_upgrade (x : PExt) (src : Bytes) (bd L : Int) (hLs : L ≤ (src.length : Int)) :
    ∀ b : PB, ∀ lo : Int, 0 ≤ lo → PBSpans QT lo L b → GoodT2 src bd b → PBGrammar b → WF QT b →
      opB (RefDefCoverOK x src L (src.length : Int)) b = true := by
  apply RDC.PB.ind
  intro l bs is ih lo hlo hsp hg hgr hwf
  rw [GoodT2_mk] at hg
  rw [PBGrammar_mk] at hgr
  rw [WF_mk] at hwf
  rw [opB, Bool.and_eq_true, opBL_iff]
  constructor
  · by_cases ho : l.stop < 0
    · by_cases hk : l.kind = BK.paragraph
      · have hsp' := hsp
        rw [PBSpans_mk, endOf_open ho] at hsp'
        obtain ⟨a1, a2, a3, a4, a5, a6, a7⟩ := hsp'
        have hP : (∀ t ∈ is, NodeOK2 src t) ∨ NoBracket src is := by
          rcases hg.1.1 hk with h | h
          · exact Or.inl (fun t ht => (h t ht).1)
          · exact Or.inr h
        have := paraCover_of_nodes x src L l is hk (by omega) a2 hLs a4 hP
          ((grammar_leaf_inlines hgr.1).1 (Or.inl hk)) hwf.2.1.1
        rw [this]; simp
      · have : (l.kind != BK.paragraph) = true := by simpa using hk
        rw [this]; simp
    · have : decide (l.stop < 0) = false := by simpa using ho
      rw [this]; simp
  · intro c hc
    by_cases ho : l.stop < 0
    · rw [PBSpans_mk, endOf_open ho] at hsp
      obtain ⟨a1, a2, a3, a4, a5, a6, a7⟩ := hsp
      obtain ⟨lo', hlo', hspc⟩ := PBSpansL_mem a5 c hc
      exact ih c hc lo' (by omega) hspc (hg.2 c hc) (hgr.2 c hc) (hwf.2.2.2 c hc)
    · -- a closed block: no open paragraph below
      have hcl : 0 ≤ l.stop := by omega
      rw [PBSpans_mk, endOf_closed hcl] at hsp
      obtain ⟨a1, a2, a3, a4, a5, a6, a7⟩ := hsp
      obtain ⟨lo', hlo', hspc⟩ := PBSpansL_mem a5 c hc
      have hd1 : decide (l.stop < 0) = false := by simpa using ho
      rw [hd1] at a5
      have hcc := allClosed_of_false a5 c hc
      have : PBSpans QT lo' L c := by
        have hb := PBSpans_closed_bounds hspc hcc
        exact PBSpans_mono (fun _ _ h => h) c (Int.le_refl _) (by omega) hspc
      exact ih c hc lo' (by omega) this (hg.2 c hc) (hgr.2 c hc) (hwf.2.2.2 c hc)

/-! ### the lines `readline` cuts -/

theorem isEolB_LF : isEolB LF = true := by decide
theorem isEolB_CR : isEolB CR = true := by decide

/-- A non-empty line ends with a line ending or at the end of the buffer. -/
theorem lineLen_end (l : Bytes) : 0 < lineLen l → isEolB (l.getD (lineLen l - 1) 0) = true ∨ lineLen l = l.length := by
  induction l using lineLen_cases with
  | hnil => intro h; simp [lineLen] at h
  | hLF rest => intro _; left; rw [lineLen_LF]; exact isEolB_LF
  | hCRLF r => intro _; left; rw [lineLen_CRLF]; exact isEolB_LF
  | hCR rest hne => intro _; left; rw [lineLen_CR hne]; exact isEolB_CR
  | hother c rest h1 h2 ih =>
    intro _
    rw [lineLen_other h1 h2]
    by_cases h0 : 0 < lineLen rest
    · rcases ih h0 with h | h
      · left
        have : lineLen rest + 1 - 1 = (lineLen rest - 1) + 1 := by omega
        rw [this, List.getD_cons_succ]; exact h
      · right; simp only [List.length_cons]; omega
    · right
      have : rest = [] := lineLen_eq_zero (by omega)
      subst this
      simp [lineLen]

/-- The buffer up to `i` ends with a line ending, or is empty, or is the whole buffer. -/
def EolAt (buf : Bytes) (i : Nat) : Prop := i = 0 ∨ isEolB (buf.getD (i - 1) 0) = true ∨ buf.drop i = []

/-- After the line that starts at `ls`. -/
theorem eolAt_next (buf : Bytes) (ls : Nat) (hls : ls ≤ buf.length) (h : EolAt buf ls) :
    EolAt buf (ls + lineLen (buf.drop ls)) := by
  by_cases h0 : 0 < lineLen (buf.drop ls)
  · rcases lineLen_end (buf.drop ls) h0 with h1 | h1
    · right; left
      rw [getD_drop_add] at h1
      have : ls + (lineLen (buf.drop ls) - 1) = ls + lineLen (buf.drop ls) - 1 := by omega
      rw [← this]; exact h1
    · right; right
      rw [h1, List.length_drop]
      apply List.drop_eq_nil_of_le; omega
  · have : lineLen (buf.drop ls) = 0 := by omega
    rw [this, Nat.add_zero]; exact h

/-- What `GoodT2_mono_spans` needs when the source grows from `buf[:ls]` to `buf[:i]`. -/
theorem eolAt_mono (buf : Bytes) (ls i : Nat) (hli : ls ≤ i) (hi : i ≤ buf.length) (h : EolAt buf ls) (hd : buf.drop ls = [] → i = ls) :
    buf.take i = buf.take ls ∨ buf.take ls = [] ∨ isEolB ((buf.take ls).getD ((buf.take ls).length - 1) 0) = true := by
  rcases h with h | h | h
  · right; left; rw [h]; rfl
  · by_cases h0 : ls = 0
    · right; left; rw [h0]; rfl
    · right; right
      have hl : (buf.take ls).length = ls := by simp; omega
      rw [hl, getD_take (by omega)]; exact h
  · left; rw [hd h]

theorem eolAt_drop (buf : Bytes) (i n : Nat) (hn : n ≤ i) (h : EolAt buf i) : EolAt (buf.drop n) (i - n) := by
  by_cases h0 : i - n = 0
  · exact Or.inl h0
  · rcases h with h | h | h
    · omega
    · right; left
      rw [getD_drop_add]
      have : n + (i - n - 1) = i - 1 := by omega
      rw [this]; exact h
    · right; right
      rw [List.drop_drop]
      have : n + (i - n) = i := by omega
      rw [this]; exact h

/-! ### the pending blocks after `makeRoot` -/

theorem coverFail_ne_fuel : ("parseLines: fuel" == coverFail) = false := by decide

/-- The pending blocks after `makeRoot`: good in the strong sense, the grammar, no recorded failure, line ending. -/
theorem makeRoot_good2 (p : BP) (kids : List PB) (po : Bool) (lo : Int) (hi : p.i ≤ p.buf.length)
    (hk : PBSpansL QT po lo p.i kids) (hg : ∀ b ∈ kids, GoodT2 (p.buf.take p.i) (p.i : Int) b)
    (hnp : p.panic ≠ some coverFail) (he : EolAt p.buf p.i) (r : Root) (p' : BP) (hm : makeRoot p kids = some (r, p')) :
    (∀ b ∈ p'.blocks, GoodT2 (p'.buf.take p'.i) (p'.i : Int) b) ∧ p'.panic ≠ some coverFail ∧ EolAt p'.buf p'.i := by
  cases kids with
  | nil => simp [makeRoot] at hm
  | cons k rest =>
    simp only [makeRoot] at hm
    split at hm
    · cases hm
    · rename_i hko
      have hkc : 0 ≤ k.label.stop := by rw [← isOpen_false_iff]; simpa using hko
      simp only [Option.some.injEq, Prod.mk.injEq] at hm
      obtain ⟨_, rfl⟩ := hm
      rw [PBSpansL_cons] at hk
      obtain ⟨hk1, _, hk3⟩ := hk
      have hb := PBSpans_closed_bounds hk1 hkc
      have hn : ((k.label.stop.toNat : Nat) : Int) = k.label.stop := Int.toNat_of_nonneg hkc
      have hnle : k.label.stop.toNat ≤ p.i := by omega
      refine ⟨?_, ?_, ?_⟩
      · show ∀ b ∈ offsetPBs (-(k.label.stop.toNat : Int)) rest,
          GoodT2 ((p.buf.drop k.label.stop.toNat).take (p.i - k.label.stop.toNat)) ((p.i - k.label.stop.toNat : Nat) : Int) b
        have e1 : (p.buf.drop k.label.stop.toNat).take (p.i - k.label.stop.toNat) = (p.buf.take p.i).drop k.label.stop.toNat := by
          rw [List.drop_take]
        have e2 : ((p.i - k.label.stop.toNat : Nat) : Int) = (p.i : Int) - (k.label.stop.toNat : Nat) := by omega
        rw [e1, e2]
        exact GoodL2_offset k.label.stop.toNat (by omega) hk3 (fun b hb' => hg b (List.mem_cons_of_mem _ hb'))
      · dsimp only
        split
        · rename_i hc
          simp only [Bool.or_eq_true, decide_eq_true_eq] at hc
          omega
        · exact hnp
      · exact eolAt_drop p.buf p.i _ hnle he

/-! ### `skipBlank` -/

theorem orElse_ne' {a : Option String} {s : String} (ha : a ≠ some coverFail) (hs : s ≠ coverFail) :
    (a <|> some s) ≠ some coverFail := by
  cases a with
  | none => simpa using hs
  | some m => simpa using ha

theorem skipBlank_np : ∀ (fuel : Nat) (p : BP) (o : Option BP) (q' : BP), p.err.isSome = true → p.i = 0 →
    p.panic ≠ some coverFail → skipBlank fuel p = (o, q') →
    q'.panic ≠ some coverFail ∧ ∀ q, o = some q → q.panic ≠ some coverFail := by
  intro fuel
  induction fuel with
  | zero =>
    intro p o q' _ _ hnp h
    simp only [skipBlank, Prod.mk.injEq] at h
    obtain ⟨rfl, rfl⟩ := h
    exact ⟨orElse_ne' hnp (by decide), fun q hq => by cases hq⟩
  | succ fuel ih =>
    intro p o q' herr hi0 hnp h
    have hrl : readline (p.rd.data.length + p.rd.sched.length + 2) p =
        (decide (0 < lineLen (p.buf.drop p.i)), { p with i := p.i + lineLen (p.buf.drop p.i) }) :=
      CM.Model.readline_mem (p.rd.data.length + p.rd.sched.length + 1) p herr (by omega)
    simp only [skipBlank, hrl] at h
    split at h
    · simp only [Prod.mk.injEq] at h
      obtain ⟨rfl, rfl⟩ := h
      exact ⟨hnp, fun q hq => by cases hq⟩
    · split at h
      · simp only [Prod.mk.injEq] at h
        obtain ⟨rfl, rfl⟩ := h
        refine ⟨hnp, fun q hq => ?_⟩
        simp only [Option.some.injEq] at hq
        subst hq
        exact hnp
      · exact ih _ o q' (by exact herr) rfl (by exact hnp) h

end CM.Proofs.RDC
