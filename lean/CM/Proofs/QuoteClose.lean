import CM.Proofs.QuoteSpine
import CM.Proofs.BlocksSpansClose
/-
C09 (block-quote half): `close` on related blocks.

`closeBlock` with its `onClose` hooks takes `BR`-related blocks to `BR`-related lists of blocks:
  * the list hook decides looseness from the blank-line flags, which `BR` keeps equal (`listIsLoose_rel`);
  * the indented-code hook looks at the bytes of the text nodes, which `IR` keeps equal (`indentedOnClose_rel`);
  * the paragraph hook (`onCloseParagraph`: link reference definitions, read through the line-jumping reader) is the
    hypothesis `CloseParaSim`.
-/
namespace CM.Proofs.Quote
open CM CM.Model CM.Gen CM.Proofs.BT

variable {E : Env}

/-- **Hypothesis on `onCloseParagraph`**: on related paragraphs (or setext headings) it returns related blocks. -/
def CloseParaSim (x : PExt) (E : Env) : Prop :=
  ∀ (l l' : PLabel) (bs bs' : List PB) (is is' : List Tree),
    LR E l l' → 0 ≤ l.stop → (l.kind = BK.paragraph ∨ l.kind = BK.setextHeading) →
    L2 (BR E) bs bs' → L2 (IR E) is is' →
    L2 (BR E) (onCloseParagraph x E.src (.mk l bs is)) (onCloseParagraph x E.src' (.mk l' bs' is'))

/-! ### list looseness -/

theorem endsWithBlankLine_mk (l : PLabel) (bs : List PB) (is : List Tree) :
    endsWithBlankLine (.mk l bs is) =
      if l.lastLineBlank then true
      else if l.kind != BK.list && l.kind != BK.listItem then false
      else match bs.getLast? with
        | some c => endsWithBlankLine c
        | none => false := by
  rw [endsWithBlankLine]
  split
  · rfl
  · split
    · rfl
    · split <;> rename_i h <;> simp [h]

theorem endsWithBlankLine_rel : ∀ (n : Nat) (b b' : PB), sizeOf b ≤ n → BR E b b' →
    endsWithBlankLine b' = endsWithBlankLine b := by
  intro n
  induction n with
  | zero => intro b b' hs; obtain ⟨l, bs, is⟩ := b; simp at hs
  | succ n ih =>
    intro b b' hs h
    obtain ⟨l, bs, is⟩ := b
    obtain ⟨l', bs', is'⟩ := b'
    have hb := (BR_mk E _ _ _ _ _ _).mp h
    rw [endsWithBlankLine_mk, endsWithBlankLine_mk, hb.1.blank, hb.1.kind]
    split
    · rfl
    · split
      · rfl
      · obtain ⟨hl, _⟩ := hb.2.1.getLast
        cases hc : bs.getLast? with
        | none => rw [hc] at hl; rw [hl.none_left]
        | some c =>
          rw [hc] at hl
          obtain ⟨c', e, r⟩ := hl.some_left
          rw [e]
          have hsz : sizeOf c ≤ n := by
            have := List.sizeOf_lt_of_mem (List.mem_of_getLast? hc)
            simp at hs
            omega
          exact ih c c' hsz r

theorem BR.endsWithBlankLine {b b' : PB} (h : BR E b b') : endsWithBlankLine b' = endsWithBlankLine b :=
  endsWithBlankLine_rel (sizeOf b) b b' (Nat.le_refl _) h

theorem any_zipIdx_rel {α β : Type} {R : α → β → Prop} (f : α × Nat → Bool) (g : β × Nat → Bool) :
    ∀ {as : List α} {bs : List β} (k : Nat), L2 R as bs → (∀ a b i, R a b → g (b, i) = f (a, i)) →
    (bs.zipIdx k).any g = (as.zipIdx k).any f := by
  intro as bs k h
  induction h generalizing k with
  | nil => intro _; rfl
  | cons r _ ih =>
    intro hfg
    simp only [List.zipIdx_cons, List.any_cons]
    rw [hfg _ _ _ r, ih (k + 1) hfg]

theorem listIsLoose_rel {items items' : List PB} (h : L2 (BR E) items items') :
    listIsLoose items' = listIsLoose items := by
  unfold listIsLoose
  simp only []
  rw [← h.length_eq]
  apply any_zipIdx_rel _ _ 0 h
  intro a b i r
  rw [r.endsWithBlankLine]
  congr 1
  have hbl := r.blocks
  rw [← hbl.length_eq]
  apply any_zipIdx_rel _ _ 0 hbl
  intro c c' j rc
  rw [rc.endsWithBlankLine]

/-! ### the indented-code hook -/

theorem isBlankText_rel {t t' : Tree} (h : IR E t t') :
    (Node.isI t' IK.text && isBlankLine (Node.slice E.src' t')) = (Node.isI t IK.text && isBlankLine (Node.slice E.src t)) := by
  rw [h.isI, h.slice]

theorem trim_rel : ∀ {ts ts' : List Tree}, L2 (IR E) ts ts' →
    L2 (IR E) (indentedOnClose.trim E.src ts) (indentedOnClose.trim E.src' ts') := by
  intro ts ts' h
  induction h with
  | nil => exact .nil
  | cons r t ih =>
    simp only [indentedOnClose.trim]
    rw [isBlankText_rel r]
    split
    · exact ih
    · exact .cons r t

theorem indentedOnClose_rel {l l' : PLabel} {bs bs' : List PB} {is is' : List Tree} (hl : LR E l l')
    (hk : l.kind ≠ BK.linkRefDef) (hb : L2 (BR E) bs bs') (hi : L2 (IR E) is is') :
    BR E (indentedOnClose E.src (.mk l bs is)) (indentedOnClose E.src' (.mk l' bs' is')) := by
  unfold indentedOnClose
  simp only []
  rw [BR_mk]
  refine ⟨hl, hb, ?_⟩
  unfold InlR
  rw [if_neg hk]
  apply L2.reverse
  apply trim_rel
  apply L2.reverse
  -- the optional removal of the synthetic end-of-input line break
  have hr := hi.reverse
  generalize is.reverse = ris at hr ⊢
  generalize is'.reverse = ris' at hr ⊢
  cases hr with
  | nil => exact hi
  | cons r1 t1 =>
    cases t1 with
    | nil => exact hi
    | cons r2 t2 =>
      simp only []
      rw [r1.isI, r1.spanLen, r2.isI, r2.slice]
      split
      · apply L2.reverse
        exact .cons r2 t2
      · exact hi

/-! ### `closeBlock` -/

theorem LR.close {l l' : PLabel} (h : LR E l l') {e e' : Int} (he : 0 ≤ e) (he' : 0 ≤ e') (hp : E.PR e e') :
    LR E { l with stop := e } { l' with stop := e' } :=
  ⟨h.kind, h.n, h.char, h.indent, h.loose, h.blank, h.start, by show e' < 0 ↔ e < 0; omega, fun _ => hp⟩

theorem LR.setLoose {l l' : PLabel} (h : LR E l l') (v : Bool) : LR E { l with loose := v } { l' with loose := v } :=
  ⟨h.kind, h.n, h.char, h.indent, rfl, h.blank, h.start, h.openIff, h.stop⟩

theorem BR.setLoose {b b' : PB} (h : BR E b b') :
    BR E (b.setLabel fun il => { il with loose := true }) (b'.setLabel fun il => { il with loose := true }) :=
  h.setLabel _ (h.label.setLoose true) rfl

mutual
theorem closeBlock_rel {x : PExt} (HC : CloseParaSim x E) {e e' : Int} (he : 0 ≤ e) (he' : 0 ≤ e') (hp : E.PR e e') :
    ∀ (b b' : PB), BR E b b' → L2 (BR E) (closeBlock x E.src e b) (closeBlock x E.src' e' b')
  | .mk l bs is, .mk l' bs' is', h => by
    have hb := (BR_mk E _ _ _ _ _ _).mp h
    rw [closeBlock, closeBlock]
    by_cases hc : l.stop ≥ 0
    · have hc' : l'.stop ≥ 0 := by
        have := hb.1.openIff
        by_cases h0 : l'.stop < 0
        · have := this.mp h0; omega
        · omega
      rw [if_pos hc, if_pos hc']
      exact L2.single h
    · have hc' : ¬ l'.stop ≥ 0 := by
        have := hb.1.openIff
        have : l'.stop < 0 := this.mpr (by omega)
        omega
      rw [if_neg hc, if_neg hc']
      simp only []
      have hkids := closeLast_rel HC he he' hp bs bs' hb.2.1
      have hlc := hb.1.close he he' hp
      by_cases hk : (l.kind == BK.list) = true
      · -- list
        have hk' : (l'.kind == BK.list) = true := by rw [hb.1.kind]; exact hk
        rw [if_pos hk, if_pos hk']
        have hloose : listLooseAtClose { l' with stop := e' } bs' = listLooseAtClose { l with stop := e } bs := by
          unfold listLooseAtClose
          rw [listIsLoose_rel hb.2.1]
          show (l'.loose || _) = (l.loose || _)
          rw [hb.1.loose]
        rw [hloose]
        split
        · apply L2.single
          rw [BR_mk]
          exact ⟨hlc.setLoose true, hkids.map₂ _ _ fun a b r => r.setLoose, hb.2.2⟩
        · apply L2.single
          rw [BR_mk]
          exact ⟨hlc, hkids, hb.2.2⟩
      · have hk' : ¬ (l'.kind == BK.list) = true := by rw [hb.1.kind]; exact hk
        rw [if_neg hk, if_neg hk']
        by_cases hk2 : (l.kind == BK.paragraph || l.kind == BK.setextHeading) = true
        · -- paragraph / setext heading
          have hk2' : (l'.kind == BK.paragraph || l'.kind == BK.setextHeading) = true := by rw [hb.1.kind]; exact hk2
          rw [if_pos hk2, if_pos hk2']
          have hk3 : l.kind = BK.paragraph ∨ l.kind = BK.setextHeading := by simpa using hk2
          have hi : L2 (IR E) is is' := by
            have := hb.2.2
            unfold InlR at this
            rw [if_neg (by rcases hk3 with h | h <;> rw [h] <;> decide)] at this
            exact this
          exact HC _ _ bs bs' is is' hlc he hk3 hb.2.1 hi
        · have hk2' : ¬ (l'.kind == BK.paragraph || l'.kind == BK.setextHeading) = true := by rw [hb.1.kind]; exact hk2
          rw [if_neg hk2, if_neg hk2']
          by_cases hk4 : (l.kind == BK.indentedCode) = true
          · -- indented code
            have hk4' : (l'.kind == BK.indentedCode) = true := by rw [hb.1.kind]; exact hk4
            rw [if_pos hk4, if_pos hk4']
            have hk5 : l.kind = BK.indentedCode := by simpa using hk4
            have hi : L2 (IR E) is is' := by
              have := hb.2.2
              unfold InlR at this
              rw [if_neg (by rw [hk5]; decide)] at this
              exact this
            apply L2.single
            exact indentedOnClose_rel hlc (by show l.kind ≠ _; rw [hk5]; decide) hb.2.1 hi
          · have hk4' : ¬ (l'.kind == BK.indentedCode) = true := by rw [hb.1.kind]; exact hk4
            rw [if_neg hk4, if_neg hk4']
            apply L2.single
            rw [BR_mk]
            exact ⟨hlc, hkids, hb.2.2⟩
theorem closeLast_rel {x : PExt} (HC : CloseParaSim x E) {e e' : Int} (he : 0 ≤ e) (he' : 0 ≤ e') (hp : E.PR e e') :
    ∀ (bs bs' : List PB), L2 (BR E) bs bs' → L2 (BR E) (closeLast x E.src e bs) (closeLast x E.src' e' bs')
  | [], _, h => by
    cases h
    rw [BSp.closeLast_nil, BSp.closeLast_nil]; exact .nil
  | [b], _, h => by
    cases h with
    | cons r t =>
      cases t
      rw [BSp.closeLast_single, BSp.closeLast_single]
      exact closeBlock_rel HC he he' hp b _ r
  | b :: c :: rest, _, h => by
    cases h with
    | cons r t =>
      cases t with
      | cons r2 t2 =>
        rw [BSp.closeLast_cons, BSp.closeLast_cons]
        exact .cons r (closeLast_rel HC he he' hp (c :: rest) _ (.cons r2 t2))
end

end CM.Proofs.Quote
