import CM.Proofs.InlForestInv
import CM.Proofs.InlInvRun
/-
The structural invariant `S`, part 3: `processEmphasis`, the tokenizer pieces, brackets, `parseRun`, `parseBody`.
-/
namespace CM.Proofs.InlH
open CM CM.Model CM.Model.Inl
open Std.Do

set_option mvcgen.warning false

section
variable {c : ICtx}

@[spec high]
theorem delStack_specS (i j : Nat) :
    ⦃fun s => ⌜S s⌝⦄ delStack i j ⦃⇓? _ s => ⌜S s⌝⦄ := by
  mvcgen [delStack, -delStack_spec]
  inl_trivS

@[spec high]
theorem processEmphasis_specS (sb : Nat) :
    ⦃fun s => ⌜S s⌝⦄ Inl.processEmphasis sb ⦃⇓? _ s => ⌜S s⌝⦄ := by
  mvcgen [Inl.processEmphasis, nodeLen, getNode, modifyNode, -processEmphasis_spec]
  inl_inv S
  inl_norm
  inl_trivS
  -- the delimiter nodes shrink: children unchanged
  refine ⟨trivial, ?_⟩
  inl_stateS
  exact (SA.modify_same ‹S _› (by intro _; rfl)).modify_same (by intro _; rfl)

@[spec high]
theorem parseDelimiterRun_specS (start : Int) :
    ⦃fun s => ⌜S s⌝⦄ parseDelimiterRun c start ⦃⇓? _ s => ⌜S s⌝⦄ := by
  mvcgen [parseDelimiterRun, spanEnd, alloc, pushStack, -parseDelimiterRun_spec]
  inl_inv S
  inl_norm
  inl_trivS
  inl_subst
  exact Pend.mk ‹S _› _ rfl _ _ _

@[spec high]
theorem parseBackslash_specS (start : Int) :
    ⦃fun s => ⌜S s⌝⦄ parseBackslash c start ⦃⇓? _ s => ⌜S s⌝⦄ := by
  mvcgen [parseBackslash, spanEnd, isLastSpan, setIgnoreNextIndent, -parseBackslash_spec]
  inl_trivS

@[spec high]
theorem collectCodeSpan_specS (cs : CodeSpan) :
    ⦃fun s => ⌜S s⌝⦄ collectCodeSpan c cs ⦃⇓? _ s => ⌜S s⌝⦄ := by
  mvcgen [collectCodeSpan, setUnparsedPos, alloc, -collectCodeSpan_spec]
  inl_inv S
  inl_norm
  inl_trivS
  all_goals
    inl_subst
    exact Pend.mk ‹S _› _ rfl _ _ _

@[spec high]
theorem lookForLinkOrImage_specS :
    ⦃fun s => ⌜S s⌝⦄ lookForLinkOrImage ⦃⇓? _ s => ⌜S s⌝⦄ := by
  mvcgen [lookForLinkOrImage, -lookForLinkOrImage_spec]
  inl_inv S
  inl_norm
  inl_trivS

@[spec high]
theorem parseInlineLink_specS (start : Int) :
    ⦃fun s => ⌜S s⌝⦄ parseInlineLink c start ⦃⇓? _ s => ⌜S s⌝⦄ := by
  mvcgen [parseInlineLink, setUnparsedPos, -parseInlineLink_spec]
  inl_trivS

@[spec high]
theorem finishLink_specS (kind odi : Nat) :
    ⦃fun s => ⌜S s⌝⦄ finishLink kind odi ⦃⇓? _ s => ⌜S s⌝⦄ := by
  mvcgen [finishLink, -finishLink_spec]
  inl_inv S
  inl_norm
  inl_trivS

@[spec high]
theorem parseEndBracket_specS (start : Int) :
    ⦃fun s => ⌜S s⌝⦄ parseEndBracket c start ⦃⇓? _ s => ⌜S s⌝⦄ := by
  mvcgen [parseEndBracket, spanEnd, getNode, modifyNode, setUnparsedPos, -parseEndBracket_spec]
  inl_trivS
  all_goals
    inl_subst
    simp -failIfUnchanged +zetaDelta only [] at *
    first
      | (refine ⟨trivial, ?_, ?_⟩
         · first
            | exact (‹S _ ∧ _›).1
            | (show SA _ _; dsimp only; exact SA.modify_same (‹S _ ∧ _›).1 (by intro _; rfl))
            | fail "S"
         · simp -failIfUnchanged only [Array.size_modify] at *
           omega)
      | exact (‹S _ ∧ _›).1
      | (show SA _ _; dsimp only; exact SA.modify_same (‹S _ ∧ _›).1 (by intro _; rfl))
      | fail "parseEndBracket"

set_option maxHeartbeats 400000 in
@[spec high]
theorem parseRun_specS :
    ⦃fun s => ⌜S s⌝⦄ parseRun c ⦃⇓? _ s => ⌜S s⌝⦄ := by
  mvcgen [parseRun, spanEnd, isLastSpan, addText, alloc, pushStack, setIgnoreNextIndent, setUnparsedPos, -parseRun_spec]
  inl_inv S
  inl_norm
  inl_trivS
  all_goals
    inl_subst
    subst_vars
    first
      | exact Pend.mk ‹S _› _ rfl _ _ _
      | assumption
      | (inl_stateS; assumption)
      | fail "parseRun"

@[spec high]
theorem parseBody_specS :
    ⦃fun s => ⌜S s⌝⦄ parseBody c ⦃⇓? _ s => ⌜S s⌝⦄ := by
  mvcgen [parseBody, setIgnoreNextIndent, setUnparsedPos, -parseBody_spec]
  inl_inv S
  inl_norm
  inl_trivS

end

end CM.Proofs.InlH
