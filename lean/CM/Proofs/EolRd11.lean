import CM.Proofs.EolRd10
/-
C14 (a), the paragraph hook under the position map — part 11: the pieces of `collectTextNodes`: the `go` step (named `goF`),
`finish`, `jumped`, `skipNode`.
-/
namespace CM.Proofs.ERd
open CM CM.Model CM.Gen CM.Proofs CM.Proofs.RDS CM.Proofs.BSp

/-- The local function `go` of `collectTextNodes.collectStep`. -/
def goF (ext : Ext) (src : Bytes) (stop tk : Nat) (esc : Bool) (f : Nat) (r : Rd) (plainStart : Nat) (acc : List Tree) :
    List Tree :=
  if r.pos ≥ stop then collectTextNodes.finish stop tk plainStart acc
  else
    match Rd.next src r with
    | (ok, r) =>
      if (!ok) = true then collectTextNodes.finish stop tk plainStart acc
      else
        if r.jumped = true then
          collectTextNodes ext src stop tk esc f r r.pos
            (if r.prev ≥ (plainStart : Int) then acc ++ [mkInline tk (plainStart : Int) (r.prev + 1)] else acc)
        else collectTextNodes ext src stop tk esc f r plainStart acc

theorem collectStep_eq (ext : Ext) (src : Bytes) (stop tk : Nat) (esc : Bool) (cn : Tree) (r : Rd) (ps : Nat)
    (acc : List Tree) (f : Nat) :
    collectTextNodes.collectStep ext src stop tk esc cn r ps acc f =
      if (esc && isUnparsed cn) = true then
        match Rd.current src r with
        | (c, r) =>
          if (c == 92) = true then
            match Rd.next src r with
            | (ok, r) =>
              match (if ok = true then Rd.current src r else (0, r)) with
              | (c2, r) =>
                if (ok && decide (r.pos < stop) && isASCIIPunctuation c2) = true then
                  goF ext src stop tk esc f r r.pos (if r.prev > (ps : Int) then acc ++ [mkInline tk (ps : Int) r.prev] else acc)
                else goF ext src stop tk esc f r ps acc
          else
            if (c == 38) = true then
              match Rd.remainingNodeBytes src r with
              | (rest, r) =>
                match parseCharacterEscape ext rest with
                | Int.ofNat n =>
                  match Rd.next src (List.foldl (fun r _ => (Rd.next src r).snd) r (List.range (n - 1))) with
                  | (ok, r') =>
                    if (!ok) = true then collectTextNodes.finish stop tk (r.pos + n)
                      ((if r.pos > ps then acc ++ [mkInline tk (ps : Int) (r.pos : Int)] else acc) ++
                        [mkInline IK.charRef (r.pos : Int) ((r.pos : Int) + (n : Int))])
                    else collectTextNodes ext src stop tk esc f r' (r.pos + n)
                      ((if r.pos > ps then acc ++ [mkInline tk (ps : Int) (r.pos : Int)] else acc) ++
                        [mkInline IK.charRef (r.pos : Int) ((r.pos : Int) + (n : Int))])
                | _ => goF ext src stop tk esc f r ps acc
            else goF ext src stop tk esc f r ps acc
      else goF ext src stop tk esc f r ps acc := by
  rw [collectTextNodes.collectStep]
  rfl

section
variable {e X : Bytes} {k : Nat} {is : List Tree} {r : Rd}

theorem mapTree_mkInline (g : Int → Int) (kd : Nat) (a b : Int) : mapTree g (mkInline kd a b) = mkInline kd (g a) (g b) := rfl

theorem finish_map (stop tk ps : Nat) (acc : List Tree) :
    collectTextNodes.finish (eolPos e X stop) tk (eolPos e X ps) (mapTrees (eolPosZ e X) acc) =
      mapTrees (eolPosZ e X) (collectTextNodes.finish stop tk ps acc) := by
  unfold collectTextNodes.finish
  by_cases h : ps < stop
  · rw [if_pos h, if_pos ((eolPos_lt_iff e X).2 h), mapTrees_append, mapTrees_singleton, mapTree_mkInline,
      eolPosZ_ofNat, eolPosZ_ofNat]
  · rw [if_neg h, if_neg (fun hh => h ((eolPos_lt_iff e X).1 hh))]

theorem jumped_map (h : -1 ≤ r.prev) : (mapRd e X r).jumped = r.jumped := by
  unfold Rd.jumped
  show (decide (mapPrev e X r.prev ≥ 0) && decide (((eolPos e X r.pos : Nat) : Int) - mapPrev e X r.prev > 1)) = _
  by_cases hp : r.prev < 0
  · rw [mapPrev_neg e X hp]
    have h1 : decide (r.prev ≥ 0) = false := by rw [decide_eq_false_iff_not]; omega
    rw [h1]; rfl
  · obtain ⟨n, hn⟩ : ∃ n : Nat, r.prev = n := ⟨r.prev.toNat, by omega⟩
    rw [hn, mapPrev_nat]
    have h1 : decide (((eolPos e X (n + 1) : Nat) : Int) - 1 ≥ 0) = true := by
      rw [decide_eq_true_eq]; have := eolPos_ge e X (n + 1); omega
    have h2 : decide ((n : Int) ≥ 0) = true := by rw [decide_eq_true_eq]; omega
    rw [h1, h2, Bool.true_and, Bool.true_and]
    have : (((eolPos e X r.pos : Nat) : Int) - (((eolPos e X (n + 1) : Nat) : Int) - 1) > 1) ↔ ((r.pos : Int) - (n : Int) > 1) := by
      have := eolPos_lt_iff e X (j := n + 1) (k := r.pos)
      omega
    exact decide_eq_decide.2 this

/-- `prev ≥ plainStart` on both sides. -/
theorem prev_ge_map (h : -1 ≤ r.prev) (ps : Nat) :
    ((mapRd e X r).prev ≥ ((eolPos e X ps : Nat) : Int)) ↔ (r.prev ≥ (ps : Int)) := by
  show mapPrev e X r.prev ≥ _ ↔ _
  by_cases hp : r.prev < 0
  · rw [mapPrev_neg e X hp]; omega
  · obtain ⟨n, hn⟩ : ∃ n : Nat, r.prev = n := ⟨r.prev.toNat, by omega⟩
    rw [hn, mapPrev_nat]
    have := eolPos_lt_iff e X (j := ps) (k := n + 1)
    omega

/-- `currentNode` of a normalised reader, on both sides. -/
theorem currentNode_map (he : StdEol e) (hcr : NoCR X) (hc : Ctx (X.take k) is) (htab : TabsOK (X.take k) is)
    (h : RI (X.take k) is r) :
    r.currentNode = (r.spans.head?, r) ∧
    (mapRd e X r).currentNode = (r.spans.head?.map (mapTree (eolPosZ e X)), mapRd e X r) := by
  refine ⟨currentNode_eq hc h, ?_⟩
  rw [currentNode_eq (ctx_map (e := e) he hcr hc htab) (ri_map h)]
  refine Prod.ext ?_ rfl
  show (mapTrees (eolPosZ e X) r.spans).head? = _
  cases r.spans with
  | nil => rfl
  | cons t rest => rfl

end

end CM.Proofs.ERd
