import CM.Proofs.ParseWholeGrammarNestExport
import CM.Proofs.ParseWholeGrammarMain
/-
C05 for the whole of `Parse`, clause (iii) and the one theorem: `Spec.noNestedLink`, `Spec.grammar` of the tree of every
root on which the inline phase completed (inputs without NUL bytes).
-/
namespace CM.Proofs.InlH
open CM CM.Model CM.Model.Inl CM.Spec

theorem noNestedLink_iff (t : Tree) : noNestedLink t = true ↔ ∀ u ∈ T.nodes t, NL u := by
  unfold noNestedLink NL
  rw [List.all_eq_true]
  constructor
  · intro h u hu hl d hd
    have := h u hu
    rw [hl] at this
    simp only [Bool.not_true, Bool.false_or, List.all_eq_true, Bool.not_eq_true'] at this
    exact this d hd
  · intro h u hu
    cases hl : T.isI u IK.link with
    | false => rfl
    | true =>
      simp only [Bool.not_true, Bool.false_or, List.all_eq_true, Bool.not_eq_true']
      exact h u hu hl

/-- **`Rewrite` keeps "no Link below a Link"** (the block phase has no Link at all; the inline phase makes none inside a
    Link). -/
theorem rewriteE_noNested (x : IExt) (src : Bytes) (srcA : Array UInt8) (matchRef : Bytes → Bool) (S : Bytes)
    (t t' : Tree) (hP : Pre1 S t) (hn : noNestedLink t = true) (h : rewriteE x src srcA matchRef t = .ok t') :
    noNestedLink t' = true := by
  rw [noNestedLink_iff] at hn ⊢
  refine rewriteE_nodes x src srcA matchRef NL (fun _ cs => UOK cs)
    (fun l cs kids hR hp => parseInlines_noNested x src srcA matchRef l.start l.stop cs kids hR hp)
    (fun l cs cs' _ hb hl => by
      unfold T.isI at hl
      rw [label_node, hb] at hl; cases hl)
    t.size t t' (Nat.le_refl _) ?_ ?_ h
  · intro u hu
    exact hn u (surv_sub t.size t (Nat.le_refl _) u hu)
  · intro p hp
    obtain ⟨hmem, hb, hu⟩ := conts_sub t.size t (Nat.le_refl _) p hp
    have h1 := (hP.p1 _ hmem).1
    have hk := phase1_unparsed_kind hb h1 hu
    refine (phase1_container hb h1 hk ?_).1
    intro c hc
    exact (hP.p1 c (nodes_trans' hmem (nodesL_children_sub (u := .node p.1 p.2) (nodesL_of_mem hc (self_mem_nodes c))))).1

end CM.Proofs.InlH

namespace CM.Proofs.PW
open CM CM.Model CM.Gen CM.Spec
open CM.Proofs.BT CM.Proofs.BG CM.Proofs.RK CM.Proofs.InlH

/-- **C05, clause (iii), for the whole of `Parse`: no Link inside a Link**, at any depth, in the tree of every root on
    which the inline phase completed. -/
theorem parse_noNestedLink (x : PExt) (ix : IExt) (inp : Bytes) (hz : ∀ c ∈ inp, c ≠ 0) :
    ∀ pr ∈ (parseDoc x ix inp).roots, ∀ t', pr.tree = .ok t' → noNestedLink t' = true := by
  intro pr hpr t' ht
  rw [parseDoc_tree x ix inp pr hpr] at ht
  obtain ⟨hP, _⟩ := parse_pre1 x ix inp hz pr hpr
  have hg := drain_grammar_phase1 x _ inp hz pr.root (root_mem_drain x ix inp pr hpr)
  unfold grammarPhase1 at hg
  simp only [Bool.and_eq_true] at hg
  exact rewriteE_noNested ix _ _ _ pr.root.source _ t' hP hg.2 ht

/-- **C05 as one theorem**: the tree of every root of every NUL-free input on which the inline phase completed satisfies
    the whole node grammar `Spec.grammar` — the root kind, `Spec.grammarAt` (block and inline clauses) and
    `Spec.orderedItemOK` at every node, and `Spec.noNestedLink`. -/
theorem parse_grammar (x : PExt) (ix : IExt) (inp : Bytes) (hz : ∀ c ∈ inp, c ≠ 0) :
    ∀ pr ∈ (parseDoc x ix inp).roots, ∀ t', pr.tree = .ok t' → grammar pr.root.source t' = true :=
  fun pr hpr t' ht => parse_grammar_partial x ix inp hz pr hpr t' ht (parse_noNestedLink x ix inp hz pr hpr t' ht)

/-- the target of `ParseWholeGrammarMain.lean` holds -/
theorem parse_grammar_target_holds : parse_grammar_target := parse_grammar

/-- … in terms of `RK.finalTree` / `RK.treeOk` -/
theorem parse_grammar_final (x : PExt) (ix : IExt) (inp : Bytes) (hz : ∀ c ∈ inp, c ≠ 0) :
    ∀ pr ∈ (parseDoc x ix inp).roots, treeOk pr = true → grammar pr.root.source (finalTree pr) = true :=
  fun pr hpr hok => parse_grammar x ix inp hz pr hpr _ (tree_of_treeOk hok)

/-! ### Non-vacuity -/

section Examples

/-- A definition, then a paragraph: an undefined outer bracket pair around a shortcut reference link and emphasis, an
    undefined image label around a link, a collapsed reference link.  (Reference links only: `decide +kernel` does not
    evaluate `collectTextNodes`, which inline destinations use; for the same reason the definition's own tree is left
    out below.) -/
def pwNestDoc : Bytes := Bytes.ofString "[foo]: /a\n\n[a [foo] *b*] ![x [foo] y] [foo][]\n"

example : ∀ c ∈ pwNestDoc, c ≠ 0 := by decide +kernel
example : (parseDoc exX exIX pwNestDoc).roots.length = 2 := by decide +kernel
example : ∀ pr ∈ (parseDoc exX exIX pwNestDoc).roots, treeOk pr = true := by decide +kernel

-- the paragraph: three Links (9), none inside another; the outer brackets stayed text
example : ((parseDoc exX exIX pwNestDoc).roots.drop 1).map (fun pr =>
    ((T.nodes (finalTree pr)).filter (fun u => !u.label.isBlock)).map (fun u => u.label.kind)) =
    [[1, 1, 9, 1, 1, 7, 1, 1, 1, 1, 1, 9, 1, 1, 1, 1, 9, 1]] := by decide +kernel

-- the theorems on that document
example : ∀ pr ∈ (parseDoc exX exIX pwNestDoc).roots, noNestedLink (finalTree pr) = true :=
  fun pr hpr => parse_noNestedLink exX exIX pwNestDoc (by decide +kernel) pr hpr _
    (tree_of_treeOk ((by decide +kernel : ∀ pr ∈ (parseDoc exX exIX pwNestDoc).roots, treeOk pr = true) pr hpr))

example : ∀ pr ∈ (parseDoc exX exIX pwNestDoc).roots, grammar pr.root.source (finalTree pr) = true :=
  fun pr hpr => parse_grammar_final exX exIX pwNestDoc (by decide +kernel) pr hpr
    ((by decide +kernel : ∀ pr ∈ (parseDoc exX exIX pwNestDoc).roots, treeOk pr = true) pr hpr)

-- … and on the document of `ParseWholeGrammarMain.lean` (headings, lists, a block quote, code span, autolink)
example : ∀ pr ∈ (parseDoc exX exIX pwGrDoc).roots, grammar pr.root.source (finalTree pr) = true :=
  fun pr hpr => parse_grammar_final exX exIX pwGrDoc (by decide +kernel) pr hpr
    ((by decide +kernel : ∀ pr ∈ (parseDoc exX exIX pwGrDoc).roots, treeOk pr = true) pr hpr)

end Examples

end CM.Proofs.PW
