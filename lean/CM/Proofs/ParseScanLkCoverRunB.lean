import CM.Proofs.InlCoverRunB
import CM.Proofs.ParseScanLkCoverRun

/-
C03, inline half, with `LinkScan2` / `TokScan2` — code spans and HTML tags.
(Generated from `InlCoverRunB.lean`: the same proofs with `LinkScan2` in the place of `LinkScan`.)
-/

namespace CM.Proofs.InlH2
open CM CM.Model CM.Model.Inl CM.Gen CM.Spec CM.Proofs CM.Proofs.InlH
open Std.Do

set_option mvcgen.warning false

theorem tokCode_cov (L : Lims) (c : ICtx) (hU : UnpOK c L) (hT : TokScan2 c L.hi) (hV : TokCover c) (s : IState)
    (pos plainStart : Int) (done : Bool) (hb : 0 ≤ pos ∧ pos < c.srcA.size ∧ c.srcA[pos.toNat]! = 0x60) :
    ⦃fun st => ⌜st = s ∧ RunInv L c (pos, plainStart, done) s ∧ s.unparsedPos < c.unparsed.size ∧
        pos < spanEndOf c s ∧ StkNN c s ∧ CovBelow c s.nodes plainStart⌝⦄
    tokCode c pos plainStart done
    ⦃⇓? r st => ⌜RunCov c r.value st⌝⦄ := by
  mvcgen [tokCode, addText, parseCodeSpan_specP, collectCodeSpan_specP, -collectCodeSpan_spec, 
    -collectCodeSpan_specS, -parseCodeSpan_spec, -CM.Proofs.InlH2.tokCode_specP, -addLeaf_specP, 
    -CM.Proofs.InlH.refPart_specP, -CM.Proofs.InlH.parseEndBracket_specP, -CM.Proofs.InlH.tokC_specP, 
    -CM.Proofs.InlH.tokA_specP, -CM.Proofs.InlH.tokCode_specP, -CM.Proofs.InlH.tokLt_specP, 
    -CM.Proofs.InlH.runBody_specP, -CM.Proofs.InlH.refPart_specC, -CM.Proofs.InlH.parseEndBracket_specC]
  all_goals (try (exact fun h => h))
  all_goals (try (exact ExceptConds.entails.refl _))
  all_goals tok_setupC
  all_goals (
    have hrun := ‹StateT.run (parseCodeSpan _ _) _ = _›
    have hcode := hT.code _ _ _ _ hb.1 hb.2.1 hb.2.2 hrun hu hlt)
  -- `addText` before the code span
  · obtain ⟨c1, c2, c3, -⟩ := hcode.1 ‹_›
    exact ⟨trivial, hsp, by omega, hnn0⟩
  -- the code span
  · obtain ⟨c1, c2, c3, c4⟩ := hcode.1 ‹_›
    obtain ⟨⟨hq, hq2, -⟩, k1, k2, k3⟩ := ‹(SPT _ _ (max _ _) _ ∧ _) ∧ _›
    have hcr := ‹StateT.run (collectCodeSpan _ _) _ = _›
    obtain ⟨n, n1, n2, n3, n4, n5, n6, n7, n8, n9⟩ := c4 _ _ hq2 hq.2 hcr
    obtain ⟨g1, g2, g3⟩ := cov_addRoot hq k1 n n5 n6
    refine ⟨g1, ?_⟩
    have P1 := hcb.step k2 k3.seg
    rw [c1] at P1
    refine P1.step g2 fun j h1 h2 hr hn => g3 j ?_
    have := hV.code _ _ _ _ hb.1 hb.2.1 hb.2.2 hrun hu hlt ‹_› _ _ hq2 hcr j h1 h2 hr hn
    rw [n5, addRootA_new n hq.1.pos] at this
    exact this
  -- no code span
  · exact ⟨hnn0, hcb⟩

theorem tokLt_cov (L : Lims) (c : ICtx) (hU : UnpOK c L) (hT : TokScan2 c L.hi) (hV : TokCover c) (s : IState)
    (pos plainStart : Int) (done : Bool) (hb : 0 ≤ pos ∧ pos < c.srcA.size ∧ c.srcA[pos.toNat]! = 0x3C) :
    ⦃fun st => ⌜st = s ∧ RunInv L c (pos, plainStart, done) s ∧ s.unparsedPos < c.unparsed.size ∧
        pos < spanEndOf c s ∧ StkNN c s ∧ CovBelow c s.nodes plainStart⌝⦄
    tokLt c s pos plainStart done
    ⦃⇓? r st => ⌜RunCov c r.value st⌝⦄ := by
  mvcgen [tokLt, addText, alloc, addToRoot, nodeLen, getNode, setParent, modifyNode, setUnparsedPos, 
    -addToRoot_spec, -addToRoot_specS, -CM.Proofs.InlH2.tokLt_specP, -addLeaf_specP, -CM.Proofs.InlH.refPart_specP, 
    -CM.Proofs.InlH.parseEndBracket_specP, -CM.Proofs.InlH.tokC_specP, -CM.Proofs.InlH.tokA_specP, 
    -CM.Proofs.InlH.tokCode_specP, -CM.Proofs.InlH.tokLt_specP, -CM.Proofs.InlH.runBody_specP, 
    -CM.Proofs.InlH.refPart_specC, -CM.Proofs.InlH.parseEndBracket_specC]
  all_goals (try (exact fun h => h))
  all_goals (try (exact ExceptConds.entails.refl _))
  all_goals tok_setupC
  all_goals (obtain ⟨a0, a1, a2, a3⟩ := ‹0 ≤ pos ∧ _ ∧ _ ∧ _›)
  -- facts about the scanners
  all_goals (try (have hal := autolink_le hT a0 a1 a2 a3 ‹0 ≤ parseAutolink _›))
  all_goals (try (
    have hhv := ‹SpanI.isValid _ = true›
    obtain ⟨w1, w2, w3, w4⟩ := hT.html _ pos _ _ hb.1 hb.2.1 hb.2.2 (Prod.eta _).symm hhv))
  -- the dead branch of `addToRoot` (the new node is not empty)
  all_goals (try (
    exfalso
    have h2 := ‹(spanLenI _ _ == 0) = true›
    rw [get!_push_eq] at h2
    dsimp only at h2
    have := spanLen_zero h2 (by omega)
    omega))
  all_goals (try simp only [RunCov, ForInStep.value])
  -- the preconditions of `addText`
  all_goals (try (exact ⟨trivial, hsp, by omega, hnn0⟩))
  -- nothing happened
  all_goals (try (exact ⟨hnn0, hcb⟩))
  all_goals (
    obtain ⟨⟨hq, hq2, -⟩, k1, k2, k3⟩ := ‹(SPT _ _ (max _ _) _ ∧ _) ∧ _›
    have P1 := hcb.step k2 k3.seg
    refine runCov_addRoot hq k1 P1 ?_ ?_ ?_ ?_
    rotate_left
    · rfl
    · rfl
    first
    | exact autolink_seg hV a0 a1 a2 a3 ‹0 ≤ parseAutolink _› hal hb.2.2 _ rfl
    | (intro j h1 h2 hr hj
       rw [w1] at h1
       exact (hV.html _ pos _ _ hb.1 hb.2.1 hb.2.2 (Prod.eta _).symm hhv j h1 h2 hr hj).covN _ rfl rfl rfl rfl))

end CM.Proofs.InlH2
