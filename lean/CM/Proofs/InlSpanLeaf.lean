import CM.Proofs.InlSpanEmph
/-
C02, inline half — the tokenizer's elementary steps on the invariant `SPA` (no pending link: `x = none`, `b = 0`, `p = 0`):
raising the frontier, appending a finished node to the root (`addToRoot` of a fresh node, `importNode`), the same with a
push on the delimiter stack.
-/
namespace CM.Proofs.InlH
open CM CM.Model CM.Model.Inl

variable {lo hi : Int} {x : Option Nat} {b p : Nat} {F : Int} {Z : List Nat} {a : Array INode} {sk : List Nat}
  {pm : Nat → Option Nat}

/-- The frontier may be raised. -/
theorem SPA.mono (h : SPA lo hi x b p F Z a sk pm) {F' : Int} (h1 : F ≤ F') (h2 : F' ≤ hi) :
    SPA lo hi x b p F' Z a sk pm :=
  { h with front := h.front.mono (Int.le_refl _) h1, Fhi := h2 }

theorem SPA.lo_le (h : SPA lo hi x b p F Z a sk pm) : lo ≤ F := h.front.le

/-- the arena after `alloc n; modifyNode 0 (kids := kids.push id)` -/
def addRootA (a : Array INode) (n : INode) : Array INode :=
  (a.push n).modify 0 (fun r => { r with kids := r.kids.push a.size })

theorem addRootA_size (a : Array INode) (n : INode) : (addRootA a n).size = a.size + 1 := by
  unfold addRootA; simp

theorem addRootA_zero (n : INode) (h0 : 0 < a.size) :
    (addRootA a n)[0]! = { a[0]! with kids := (a[0]!).kids.push a.size } := by
  unfold addRootA
  rw [get!_modify_eqS (by simp), get!_push_lt h0]

theorem addRootA_lt (n : INode) {i : Nat} (h0 : 0 < i) (hi : i < a.size) : (addRootA a n)[i]! = a[i]! := by
  unfold addRootA
  rw [get!_modify_neS (by omega), get!_push_lt hi]

theorem addRootA_new (n : INode) (h0 : 0 < a.size) : (addRootA a n)[a.size]! = n := by
  unfold addRootA
  rw [get!_modify_neS (by omega), get!_push_eq]

theorem addRootA_span (n : INode) {i : Nat} (hi : i < a.size) :
    ((addRootA a n)[i]!).start = (a[i]!).start ∧ ((addRootA a n)[i]!).stop = (a[i]!).stop := by
  rcases Nat.eq_zero_or_pos i with rfl | h0
  · rw [addRootA_zero n hi]; exact ⟨rfl, rfl⟩
  · rw [addRootA_lt n h0 hi]; exact ⟨rfl, rfl⟩

theorem addRootA_kids0 (n : INode) (h0 : 0 < a.size) : kidsLS (addRootA a n) 0 = kidsLS a 0 ++ [a.size] := by
  unfold kidsLS; rw [addRootA_zero n h0]; simp

theorem addRootA_kids_lt (n : INode) {i : Nat} (h0 : 0 < i) (hi : i < a.size) :
    kidsLS (addRootA a n) i = kidsLS a i := by
  unfold kidsLS; rw [addRootA_lt n h0 hi]

theorem addRootA_kids_new (n : INode) (h0 : 0 < a.size) (hk : n.kids = #[]) : kidsLS (addRootA a n) a.size = [] := by
  unfold kidsLS; rw [addRootA_new n h0, hk]

/-- A finished node `n` (no arena children) at or after the frontier becomes the last child of the root. -/
theorem SPA.addRoot (h : SPA lo hi none 0 0 F Z a sk pm) (n : INode) (hk : n.kids = #[]) (hs : F ≤ n.start)
    (hv : n.start ≤ n.stop) (hh : n.stop ≤ hi) (hsub : WFL n.start n.stop n.sub)
    {pm' : Nat → Option Nat} (hpm : ∀ i, i ≠ a.size → pm' i = pm i) :
    SPA lo hi none 0 0 n.stop Z (addRootA a n) sk pm' := by
  have h0 := h.pos
  have hsp : ∀ i, i < a.size → ((addRootA a n)[i]!).start = (a[i]!).start ∧ ((addRootA a n)[i]!).stop = (a[i]!).stop :=
    fun i hi => addRootA_span n hi
  have hch : ∀ {ks : List Nat} {l u : Int}, (∀ k ∈ ks, k < a.size) → ChainA a l u ks → ChainA (addRootA a n) l u ks :=
    fun hks hc => hc.congr fun k hk' => hsp k (hks k hk')
  have hkl : ∀ i, i < a.size + 1 → ∀ k ∈ kidsLS (addRootA a n) i, k < a.size + 1 := by
    intro i hi k hk'
    rcases Nat.eq_zero_or_pos i with rfl | hi0
    · rw [addRootA_kids0 n h0] at hk'
      rcases List.mem_append.1 hk' with hk' | hk'
      · have := h.klt 0 h0 k hk'; omega
      · simp at hk'; omega
    · rcases Nat.lt_or_ge i a.size with hia | hia
      · rw [addRootA_kids_lt n hi0 hia] at hk'
        have := h.klt i hia k hk'; omega
      · have : i = a.size := by omega
        subst this
        rw [addRootA_kids_new n h0 hk] at hk'; cases hk'
  have hsk : ∀ k ∈ sk, k < a.size ∧ k ≠ 0 := fun k hk' => ⟨(h.plain k hk').lt, (h.plain k hk').ne0⟩
  have hmemold : ∀ i, i < a.size + 1 → ∀ k, k < a.size → k ∈ kidsLS (addRootA a n) i → i < a.size ∧ k ∈ kidsLS a i := by
    intro i hi k hka hk'
    rcases Nat.eq_zero_or_pos i with rfl | hi0
    · rw [addRootA_kids0 n h0] at hk'
      rcases List.mem_append.1 hk' with hk' | hk'
      · exact ⟨h0, hk'⟩
      · simp at hk'; omega
    · rcases Nat.lt_or_ge i a.size with hia | hia
      · rw [addRootA_kids_lt n hi0 hia] at hk'; exact ⟨hia, hk'⟩
      · have : i = a.size := by omega
        subst this
        rw [addRootA_kids_new n h0 hk] at hk'; cases hk'
  refine
    { pos := by rw [addRootA_size]; omega
      root := by rw [addRootA_zero n h0]; exact h.root
      front := ?_
      Fhi := hh
      nodes := ?_
      klt := by rw [addRootA_size]; exact hkl
      nodup := ?_
      uniqp := ?_
      plain := ?_
      sorted := ?_
      low := ⟨by simp, by simp⟩
      high := ?_
      plt := by rw [addRootA_size]; omega
      pb := fun _ => ⟨rfl, rfl⟩ }
  · -- front
    rw [vis_none, addRootA_kids0 n h0]
    have hf := h.front
    rw [vis_none] at hf
    refine (hch (h.klt 0 h0) hf).snoc ?_ ?_ ?_ <;> rw [addRootA_new n h0]
    · exact hs
    · exact hv
    · exact Int.le_refl _
  · -- nodes
    intro i hi0 hi
    rw [addRootA_size] at hi
    rcases Nat.lt_or_ge i a.size with hia | hia
    · have hn := h.nodes i hi0 hia
      have e := addRootA_lt n hi0 hia
      exact { valid := by rw [e]; exact hn.valid, lo := by rw [e]; exact hn.lo, hi := by rw [e]; exact hn.hi
              chain := by rw [e, addRootA_kids_lt n hi0 hia]; exact hch (h.klt i hia) hn.chain
              sub := by rw [e]; exact hn.sub, nosub := by rw [e]; exact hn.nosub }
    · have : i = a.size := by omega
      subst this
      have e := addRootA_new n h0
      exact { valid := by rw [e]; exact hv, lo := by rw [e]; have := h.lo_le; omega, hi := by rw [e]; exact hh
              chain := by rw [e, addRootA_kids_new n h0 hk, ChainA_nil]; exact hv
              sub := by rw [e]; exact fun _ => hsub, nosub := by rw [e]; exact fun hne => absurd hk hne }
  · -- nodup
    intro i hi
    rw [addRootA_size] at hi
    rcases Nat.eq_zero_or_pos i with rfl | hi0
    · rw [addRootA_kids0 n h0]
      refine List.nodup_append.2 ⟨h.nodup 0 h0, by simp, ?_⟩
      intro k hk' k' hk'' hkk
      simp at hk''
      have := h.klt 0 h0 k hk'
      omega
    · rcases Nat.lt_or_ge i a.size with hia | hia
      · rw [addRootA_kids_lt n hi0 hia]; exact h.nodup i hia
      · have : i = a.size := by omega
        subst this
        rw [addRootA_kids_new n h0 hk]; exact List.nodup_nil
  · -- uniqp
    intro i j k hi hj hki hkj
    rw [addRootA_size] at hi hj
    rcases Nat.lt_or_ge k a.size with hka | hka
    · obtain ⟨hi', hki'⟩ := hmemold i hi k hka hki
      obtain ⟨hj', hkj'⟩ := hmemold j hj k hka hkj
      exact h.uniqp i j k hi' hj' hki' hkj'
    · have hnew : ∀ i, i < a.size + 1 → k ∈ kidsLS (addRootA a n) i → i = 0 := by
        intro i hi hki
        rcases Nat.eq_zero_or_pos i with rfl | hi0
        · rfl
        · rcases Nat.lt_or_ge i a.size with hia | hia
          · rw [addRootA_kids_lt n hi0 hia] at hki
            have := h.klt i hia k hki; omega
          · have : i = a.size := by omega
            subst this
            rw [addRootA_kids_new n h0 hk] at hki; cases hki
      rw [hnew i hi hki, hnew j hj hkj]
  · -- plain
    intro k hk'
    have hp := h.plain k hk'
    have e := addRootA_lt n (Nat.pos_of_ne_zero hp.ne0) hp.lt
    exact { lt := by rw [addRootA_size]; have := hp.lt; omega, ne0 := hp.ne0, kids := by rw [e]; exact hp.kids
            sub := by rw [e]; exact hp.sub, len := by rw [e]; exact hp.len }
  · -- sorted
    refine pairwise_shrink (fun k hk' => ?_) h.sorted
    have := hsp k (hsk k hk').1
    omega
  · -- high
    refine ⟨?_, fun k hk' => ?_⟩
    · rw [addRootA_kids0 n h0]
      exact h.high.1.trans (List.sublist_append_left _ _)
    · rw [hpm k (by have := (hsk k (List.mem_of_mem_drop hk')).1; omega)]
      exact h.high.2 k hk'

/-- …and is pushed on the delimiter stack (a non-empty Text leaf). -/
theorem SPA.addRootPush (h : SPA lo hi none 0 0 F Z a sk pm) (n : INode) (hk : n.kids = #[]) (hs : F ≤ n.start)
    (hv : n.start < n.stop) (hh : n.stop ≤ hi) (hsub : n.sub = [])
    {pm' : Nat → Option Nat} (hpm : ∀ i, i ≠ a.size → pm' i = pm i) (hpmn : pm' a.size = some 0) :
    SPA lo hi none 0 0 n.stop Z (addRootA a n) (sk ++ [a.size]) pm' := by
  have h0 := h.pos
  have base := h.addRoot n hk hs (Int.le_of_lt hv) hh (by rw [hsub, WFL_nil]; exact Int.le_of_lt hv) hpm
  have e := addRootA_new (a := a) n h0
  have hskF : ∀ k ∈ sk, ((addRootA a n)[k]!).stop ≤ F := by
    intro k hk'
    have hf := h.front
    rw [vis_none] at hf
    have hkk : k ∈ kidsLS a 0 := h.high.1.subset (by simpa using hk')
    have := (hf.mem k hkk).2.2
    rw [(addRootA_span n (h.plain k hk').lt).2]
    exact this
  refine { base with plain := ?_, sorted := ?_, low := ⟨by simp, by simp⟩, high := ?_ }
  · intro k hk'
    rcases List.mem_append.1 hk' with hk' | hk'
    · exact base.plain k hk'
    · simp at hk'; subst hk'
      exact { lt := by rw [addRootA_size]; omega, ne0 := by omega, kids := by rw [e]; exact hk
              sub := by rw [e]; exact hsub, len := fun _ => by rw [e]; exact hv }
  · rw [List.pairwise_append]
    refine ⟨base.sorted, List.pairwise_singleton _ _, ?_⟩
    intro k hk' k' hk''
    simp at hk''; subst hk''
    rw [e]
    have := hskF k hk'
    omega
  · refine ⟨?_, ?_⟩
    · rw [List.drop_zero, addRootA_kids0 n h0]
      have := h.high.1
      rw [List.drop_zero] at this
      exact List.Sublist.append this (List.Sublist.refl _)
    · intro k hk'
      rw [List.drop_zero] at hk'
      rcases List.mem_append.1 hk' with hk' | hk'
      · exact base.high.2 k (by simpa using hk')
      · simp at hk'; subst hk'; exact hpmn

end CM.Proofs.InlH
