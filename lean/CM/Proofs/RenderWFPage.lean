import CM.Proofs.RenderWF
/-
C07 at page level: `Render(w, blocks)` (`Model.renderAll`: every block rendered with `AppendBlock` on a
buffer holding `"\n\n"` for all blocks but the first, and the buffers written one after the other) is well
formed whenever every block is — the page is the plain writing of the blocks' token sequences separated by
the text token `"\n\n"`. Stated for an arbitrary common `FilterTag` setting `flt` (`none` = unset).
-/
namespace CM.Proofs.RenderWF
open CM CM.Model CM.Spec CM.Gen Node

/-- What is assumed of every block of the page: the renderer configuration `mk src` applied to the block's
    source has the `FilterTag` setting `flt`, and the block meets the hypotheses of `render_wellformed`. -/
def PageHyp (mk : Bytes → RCtx) (flt : Option (Bytes → Bool)) (blocks : List (Bytes × Tree)) : Prop :=
  ∀ b ∈ blocks, (mk b.1).filter = flt ∧ safePre (mk b.1).src b.2 = true ∧
    ((mk b.1).ignoreRaw = true ∨ noRaw b.2 = true)

def slashOK : Option (Bytes → Bool) → Prop
  | none => True
  | some p => SlashClosed p

def noOwn : Option (Bytes → Bool) → Prop
  | none => True
  | some p => RejectsNoOwn p

/-- The three levels of the conclusion, for a filter setting. -/
def GoodUnder (flt : Option (Bytes → Bool)) (ts : List Tok) : Prop :=
  ts.all tokOKw = true ∧ (slashOK flt → WN ts) ∧ (noOwn flt → ts.all tokOK = true ∧ WN ts)

theorem GoodUnder_append {flt : Option (Bytes → Bool)} {a b : List Tok} (ha : GoodUnder flt a) (hb : GoodUnder flt b) :
    GoodUnder flt (a ++ b) := by
  refine ⟨by simp [ha.1, hb.1], fun h => WN_append (ha.2.1 h) (hb.2.1 h), fun h => ?_⟩
  exact ⟨by simp [(ha.2.2 h).1, (hb.2.2 h).1], WN_append (ha.2.2 h).2 (hb.2.2 h).2⟩

theorem GoodUnder_nil (flt : Option (Bytes → Bool)) : GoodUnder flt [] :=
  ⟨rfl, fun _ => WN_nil, fun _ => ⟨rfl, WN_nil⟩⟩

/-- The separator between two blocks is a (safe) text token. -/
theorem GoodUnder_sep (flt : Option (Bytes → Bool)) : GoodUnder flt [Tok.text [LF, LF]] :=
  ⟨by decide, fun _ => WN_text _, fun _ => ⟨by decide, WN_text _⟩⟩

theorem WN_iff (ts : List Tok) : WN ts ↔ wellNested ts = true := by
  simp [WN, wellNested]

/-- The effective tokens of good tokens are good at the level the filter setting allows. -/
theorem GoodUnder_eff (flt : Option (Bytes → Bool)) (ts : List Tok) (hok : ts.all tokOK = true)
    (hwn : wellNested ts = true) : GoodUnder flt (effToks flt ts) := by
  cases flt with
  | none =>
    have hw : ts.all tokOKw = true := by
      simp only [List.all_eq_true] at hok ⊢
      exact fun t ht => tokOKw_of_tokOK t (hok t ht)
    exact ⟨hw, fun _ => (WN_iff _).2 hwn, fun _ => ⟨hok, (WN_iff _).2 hwn⟩⟩
  | some p =>
    refine ⟨all_tokOKw_map p ts hok, fun h => (WN_iff _).2 (wellNested_rej p h ts hok hwn), fun h => ?_⟩
    simp only [effToks]
    rw [map_rejTok_id p h ts hok]
    exact ⟨hok, (WN_iff _).2 hwn⟩

/-- One block, any filter setting, any `dst`. -/
theorem block_goodUnder (cx : RCtx) (root : Tree) (hpre : safePre cx.src root = true)
    (hraw : cx.ignoreRaw = true ∨ noRaw root = true) (dst : Bytes) :
    ∃ ts, appendBlock cx dst root = dst ++ flatPlain ts ∧ GoodUnder cx.filter ts := by
  obtain ⟨ts, hok, hwn, heq⟩ := render_eq_effective cx root hpre hraw dst
  exact ⟨_, heq, GoodUnder_eff cx.filter ts hok hwn⟩

theorem PageHyp_cons {mk : Bytes → RCtx} {flt : Option (Bytes → Bool)} {b : Bytes × Tree} {bs : List (Bytes × Tree)}
    (h : PageHyp mk flt (b :: bs)) :
    ((mk b.1).filter = flt ∧ safePre (mk b.1).src b.2 = true ∧ ((mk b.1).ignoreRaw = true ∨ noRaw b.2 = true))
      ∧ PageHyp mk flt bs :=
  ⟨h b List.mem_cons_self, fun c hc => h c (List.mem_cons_of_mem _ hc)⟩

/-- The page from block number `i` on. -/
theorem renderAll_goodUnder (mk : Bytes → RCtx) (flt : Option (Bytes → Bool)) (blocks : List (Bytes × Tree))
    (h : PageHyp mk flt blocks) (i : Nat) :
    ∃ ts, renderAll mk blocks i = flatPlain ts ∧ GoodUnder flt ts := by
  induction blocks generalizing i with
  | nil => exact ⟨[], rfl, GoodUnder_nil flt⟩
  | cons b bs ih =>
    obtain ⟨src, t⟩ := b
    obtain ⟨⟨hflt, hpre, hraw⟩, hrest⟩ := PageHyp_cons h
    obtain ⟨ts2, h2, g2⟩ := ih hrest (i + 1)
    obtain ⟨ts1, h1, g1⟩ := block_goodUnder (mk src) t hpre hraw (if i > 0 then [LF, LF] else [])
    simp only at hflt
    rw [hflt] at g1
    simp only [renderAll, h1, h2]
    by_cases hi : i > 0
    · refine ⟨[Tok.text [LF, LF]] ++ ts1 ++ ts2, ?_, GoodUnder_append (GoodUnder_append (GoodUnder_sep flt) g1) g2⟩
      simp [hi, flatPlain, plainTok]
    · refine ⟨ts1 ++ ts2, ?_, GoodUnder_append g1 g2⟩
      simp [hi, flatPlain_append]

/-- C07 for a whole page, FilterTag unset: the bytes `Render` writes are the plain writing of a token
    sequence in the fixed vocabulary, fully escaped, properly nested. -/
theorem renderAll_wellformed (mk : Bytes → RCtx) (blocks : List (Bytes × Tree)) (h : PageHyp mk none blocks) :
    ∃ ts, renderAll mk blocks 0 = flatPlain ts ∧ ts.all tokOK = true ∧ wellNested ts = true := by
  obtain ⟨ts, h1, g⟩ := renderAll_goodUnder mk none blocks h 0
  exact ⟨ts, h1, (g.2.2 trivial).1, (WN_iff _).1 (g.2.2 trivial).2⟩

/-- C07 for a whole page with `FilterTag = p` (the page-level form of `render_wellformed_filtered`). -/
theorem renderAll_wellformed_filtered (mk : Bytes → RCtx) (p : Bytes → Bool) (blocks : List (Bytes × Tree))
    (h : PageHyp mk (some p) blocks) :
    ∃ ts, renderAll mk blocks 0 = flatPlain ts ∧ ts.all tokOKw = true ∧
      (SlashClosed p → wellNested ts = true) ∧
      (RejectsNoOwn p → ts.all tokOK = true ∧ wellNested ts = true) := by
  obtain ⟨ts, h1, g⟩ := renderAll_goodUnder mk (some p) blocks h 0
  exact ⟨ts, h1, g.1, fun hp => (WN_iff _).1 (g.2.1 hp), fun hp => ⟨(g.2.2 hp).1, (WN_iff _).1 (g.2.2 hp).2⟩⟩

/-- The same for the specification form of the page (`Spec.renderAllSpec`, C10). -/
theorem renderAllSpec_wellformed (mk : Bytes → RCtx) (blocks : List (Bytes × Tree)) (h : PageHyp mk none blocks) :
    ∃ ts, renderAllSpec mk blocks = flatPlain ts ∧ ts.all tokOK = true ∧ wellNested ts = true := by
  rw [← Props.C10.renderAll_join]; exact renderAll_wellformed mk blocks h

-- Non-vacuity: a two-block page (the example paragraph twice), unfiltered and filtered.
open RenderWFEx in
example : PageHyp (fun s => { ext := { unescape := id }, src := s }) none [(src, para), (src, para)] := by
  intro b hb
  simp only [List.mem_cons, List.not_mem_nil, or_false, or_self] at hb
  subst hb
  exact ⟨rfl, by decide +kernel, Or.inr (by decide +kernel)⟩

open RenderWFEx in
example : (renderAllSpec (fun s => { ext := { unescape := id }, src := s, filter := some pEm }) [(src, para), (src, para)]
    == str "<p>&lt;em>x&lt;/em> &lt;y</p>\n\n<p>&lt;em>x&lt;/em> &lt;y</p>") = true := by
  simp only [renderAllSpec, renderSpec, renderNode_eq_flat]; decide +kernel

end CM.Proofs.RenderWF
