import CM.Proofs.BlocksWellLoop
/-
`ruleMatch` and `descendLoop` (`descendOpenBlocks`).
-/
namespace CM.Proofs
open CM CM.Model CM.Gen

/-- What a `match` function of `blockRules` returns. -/
structure MatchOK (N : Nat) (p p' : LP) : Prop where
  la : LA true N p'
  ne : NE p.root → NE p'.root
  fr : MoveFrame p p'
  st : (p'.state = stateDescending ∧ p'.root = p.root) ∨ p'.state = stateDescendTerminated

theorem MatchOK.of_cur {N : Nat} {p p' : LP} (h : LA true N p) (hst : p.state = stateDescending) (f : CurFrame p p')
    (s : StateStep p.state p'.state) : MatchOK N p p' :=
  ⟨h.of_frame f, by rw [f.root]; exact fun h => h, MoveFrame.of_cur f,
   Or.inl ⟨by rw [s.eq_of_ne (by rw [hst]; decide)]; exact hst, f.root⟩⟩

theorem MatchOK.self {N : Nat} {p : LP} (h : LA true N p) (hst : p.state = stateDescending) : MatchOK N p p :=
  MatchOK.of_cur h hst (CurFrame.refl p) (StateStep.refl _)

theorem MatchOK.indent {N : Nat} {p : LP} (h : LA true N p) (hst : p.state = stateDescending) (n : Nat) :
    MatchOK N p (p.consumeIndentN n) :=
  MatchOK.of_cur h hst (consumeIndentN_frame p n).1 (consumeIndentN_frame p n).2

theorem MatchOK.line {N : Nat} {p : LP} (h : LA true N p) (hst : p.state = stateDescending) :
    MatchOK N p p.consumeLine := by
  obtain ⟨l1, _, l3, _⟩ := consumeLine_frame p
  exact ⟨h.of_frame l1, by rw [l1.root]; exact fun h => h, MoveFrame.of_cur l1, Or.inr (l3 hst)⟩

theorem ruleMatch_ok {N : Nat} (x : PExt) (kind : Nat) (p : LP) (h : LA true N p) (hst : p.state = stateDescending)
    (hk : p.containerKind = kind) {ok : Bool} {p' : LP} (e : ruleMatch x kind p = some (ok, p')) : MatchOK N p p' := by
  unfold ruleMatch at e
  split at e
  · cases e; exact MatchOK.self h hst
  · split at e
    · -- list item
      split at e
      · split at e
        · cases e; exact MatchOK.self h hst
        · cases e; exact MatchOK.indent h hst _
      · split at e
        · split at e
          · cases e; exact MatchOK.indent h hst _
          · cases e; exact MatchOK.self h hst
        · cases e; exact MatchOK.self h hst
    · split at e
      · -- block quote
        simp only at e
        split at e
        · cases e; exact MatchOK.self h hst
        · split at e
          · cases e; exact MatchOK.self h hst
          · cases e
            obtain ⟨c1, c2⟩ := consumeIndentN_frame p p.indent
            obtain ⟨a1, a2⟩ := advance_frame (p.consumeIndentN p.indent) blockQuotePrefix.length
            split
            · obtain ⟨d1, d2⟩ := consumeIndentN_frame ((p.consumeIndentN p.indent).advance blockQuotePrefix.length) 1
              exact MatchOK.of_cur h hst ((c1.trans a1).trans d1) ((c2.trans a2).trans d2)
            · exact MatchOK.of_cur h hst (c1.trans a1) (c2.trans a2)
      · split at e
        · -- fenced code
          simp only at e
          split at e
          · cases e; exact MatchOK.line h hst
          · cases e
            split
            · exact MatchOK.indent h hst _
            · exact MatchOK.indent h hst _
        · split at e
          · -- indented code
            simp only at e
            split at e
            · split at e
              · cases e; exact MatchOK.self h hst
              · cases e; exact MatchOK.indent h hst _
            · cases e; exact MatchOK.indent h hst _
          · split at e
            · -- HTML block
              rename_i hkh
              have hkh' : kind = BK.htmlBlock := by simpa using hkh
              split at e
              · split at e
                · cases e; exact MatchOK.self h hst
                · cases e
                  obtain ⟨c1, c2, c3, c4⟩ := collectInline_LA x IK.rawHTML p.bytesAfterIndent.length h
                    (fun _ => by rw [hk, hkh']; decide)
                  obtain ⟨l1, _, l3, _⟩ := consumeLine_frame (p.collectInline x IK.rawHTML p.bytesAfterIndent.length)
                  have hst2 : (p.collectInline x IK.rawHTML p.bytesAfterIndent.length).state = stateDescending := by
                    rw [c4.eq_of_ne (by rw [hst]; decide)]; exact hst
                  exact ⟨c1.of_frame l1, fun hn => by rw [l1.root]; exact c2 hn, c3.trans (MoveFrame.of_cur l1), Or.inr (l3 hst2)⟩
              · cases e; exact MatchOK.self h hst
            · split at e
              · cases e; exact MatchOK.self h hst
              · cases e

/-- The kinds whose `blockRules` entry has a `match` function. -/
def hasMatch (k : Nat) : Prop :=
  k = BK.document ∨ k = BK.list ∨ k = BK.listItem ∨ k = BK.blockQuote ∨ k = BK.fencedCode ∨ k = BK.indentedCode ∨
  k = BK.htmlBlock ∨ k = BK.paragraph

theorem hasMatch_of_some (x : PExt) (kind : Nat) (p : LP) {r : Bool × LP} (e : ruleMatch x kind p = some r) :
    hasMatch kind := by
  unfold ruleMatch at e
  unfold hasMatch
  split at e
  · rename_i h; simp only [Bool.or_eq_true, beq_iff_eq] at h; rcases h with h | h <;> simp [h]
  · split at e
    · rename_i h; simp only [beq_iff_eq] at h; simp [h]
    · split at e
      · rename_i h; simp only [beq_iff_eq] at h; simp [h]
      · split at e
        · rename_i h; simp only [beq_iff_eq] at h; simp [h]
        · split at e
          · rename_i h; simp only [beq_iff_eq] at h; simp [h]
          · split at e
            · rename_i h; simp only [beq_iff_eq] at h; simp [h]
            · split at e
              · rename_i h; simp only [beq_iff_eq] at h; simp [h]
              · cases e

/-- When the state is "descend terminated": the last child of the document is closed, or it is a block whose kind
    has a `match` function (so the next `descendOpenBlocks` overwrites the state). -/
def TermOK (root : PB) : Prop :=
  LastClosed root ∨ ∃ c, root.blocks.getLast? = some c ∧ hasMatch c.label.kind

/-! ### descendLoop -/

theorem la_setDepth {N : Nat} {p : LP} (h : LA true N p) (d : Nat) (hd : ∃ y, spineGet p.root d = some y) :
    LA true N { p with depth := d } :=
  ⟨h.cur, h.ile, hd, h.root, fun h' => (by cases h')⟩

/-- The result of `descendOpenBlocks`. -/
structure DescOK (N : Nat) (p : LP) (b : Bool) (p' : LP) : Prop where
  source : p'.source = p.source
  lineStart : p'.lineStart = p.lineStart
  line : p'.line = p.line
  ne : NE p.root → NE p'.root
  res : (p'.state = stateDescendTerminated ∧ RootOK N N N p'.root ∧ TermOK p'.root) ∨
    (p'.state ≠ stateDescendTerminated ∧ LA true N p' ∧ (b = false → ∃ c, spineGet p'.root (p'.depth + 1) = some c) ∧
      (p'.state = p.state ∨ p'.state = stateDescending))

theorem DescOK.stop {N : Nat} {p : LP} (h : LA true N p) (parent : Nat) (hd : ∃ y, spineGet p.root parent = some y)
    (hT : p.state = stateDescendTerminated → TermOK p.root) :
    DescOK N p true { p with depth := parent } := by
  refine ⟨rfl, rfl, rfl, fun h => h, ?_⟩
  by_cases hs : p.state = stateDescendTerminated
  · exact Or.inl ⟨hs, h.root.mono (Nat.le_refl _) (by have := h.cur; omega) (by have := h.cur; omega), hT hs⟩
  · exact Or.inr ⟨hs, la_setDepth h parent hd, fun h' => (by cases h'), Or.inl rfl⟩

theorem descendLoop_ok {N : Nat} (x : PExt) : ∀ (fuel : Nat) (p : LP) (parent : Nat), LA true N p →
    (∃ y, spineGet p.root parent = some y) → (p.state = stateDescendTerminated → TermOK p.root) →
    (1 ≤ parent → ∃ c0, p.root.blocks.getLast? = some c0 ∧ hasMatch c0.label.kind) →
    DescOK N p (descendLoop x fuel p parent).1 (descendLoop x fuel p parent).2 := by
  intro fuel
  induction fuel with
  | zero => intro p parent h hd hT _; exact DescOK.stop h parent hd hT
  | succ fuel ih =>
    intro p parent h hd hT hM
    unfold descendLoop
    cases hc : spineGet p.root (parent + 1) with
    | none => exact DescOK.stop h parent hd hT
    | some c =>
      simp only
      split
      · exact DescOK.stop h parent hd hT
      · -- the state in which the rule is called
        have h1 : LA true N { p with depth := parent + 1, state := stateDescending } :=
          ⟨h.cur, h.ile, ⟨c, hc⟩, h.root, fun h' => (by cases h')⟩
        have hk1 : ({ p with depth := parent + 1, state := stateDescending } : LP).containerKind = c.kind := by
          unfold LP.containerKind
          rw [container_eq (b := c) hc]
        cases hr : ruleMatch x c.kind { p with depth := parent + 1, state := stateDescending } with
        | none =>
          simp only
          refine ⟨rfl, rfl, rfl, fun h => h, ?_⟩
          by_cases hs : p.state = stateDescendTerminated
          · exact Or.inl ⟨hs, h.root.mono (Nat.le_refl _) (by have := h.cur; omega) (by have := h.cur; omega), hT hs⟩
          · exact Or.inr ⟨hs, la_setDepth h parent hd, fun _ => ⟨c, hc⟩, Or.inl rfl⟩
        | some r =>
          obtain ⟨ok, p2⟩ := r
          have hm := ruleMatch_ok x c.kind _ h1 rfl hk1 hr
          have hd2 : p2.depth = parent + 1 := hm.fr.cont.depth
          simp only
          split
          · -- the rule consumed the line: close the container
            rename_i hterm
            have hterm' : p2.state = stateDescendTerminated := by simpa using hterm
            have hile := hm.la.ile
            have hcur := hm.la.cur
            have tf := closeContainer_tframe x p2 (p2.lineStart + p2.i) (by rw [hd2]; omega)
            have hroot : RootOK N N N (p2.closeContainer x (p2.lineStart + p2.i)).root ∧
                (NE p2.root → NE (p2.closeContainer x (p2.lineStart + p2.i)).root) ∧
                (p2.closeContainer x (p2.lineStart + p2.i)).state = p2.state ∧
                TermOK (p2.closeContainer x (p2.lineStart + p2.i)).root := by
              by_cases hp0 : parent = 0
              · obtain ⟨c1, c2, c3, _, c5⟩ := closeContainer_top x (p2.lineStart + p2.i) hm.la (by rw [hd2, hp0])
                  (by omega) (by omega)
                exact ⟨c1, c3, c5, Or.inl c2⟩
              · obtain ⟨c1, c2, _, c4⟩ := closeContainer_deep x (p2.lineStart + p2.i) hm.la (by rw [hd2]; omega)
                have hls : (p2.closeContainer x (p2.lineStart + p2.i)).lineStart ≤ N := by
                  have := c1.cur; omega
                refine ⟨c1.root.mono (Nat.le_refl _) hls (by omega), c2, c4, Or.inr ?_⟩
                -- the last child of the document keeps its label
                obtain ⟨c0, hc0, hm0⟩ := hM (by omega)
                obtain ⟨d', hd'⟩ : ∃ d', p2.depth - 1 = d' + 1 := ⟨p2.depth - 2, by omega⟩
                rw [closeContainer_eq x p2 _ (by rw [hd2]; omega)]
                simp only [hd', lastKid_deep]
                -- the rule did not change the tree above the container
                have hroot2 : p2.root.blocks.getLast?.map (fun c => c.label.kind) = some c0.label.kind := by
                  rcases hm.st with ⟨_, hr⟩ | hterm2
                  · rw [hr]; simp only; rw [hc0]; rfl
                  · -- the rule appended to the container, which is below the last child of the document
                    obtain ⟨c', hc', e'⟩ := hm.fr.lastKind c0 hc0
                    rw [hc']; simp only [Option.map_some, e']
                cases hl2 : p2.root.blocks.getLast? with
                | none => rw [hl2] at hroot2; cases hroot2
                | some c2' =>
                  rw [hl2] at hroot2
                  simp only [Option.map_some, Option.some.injEq] at hroot2
                  refine ⟨_, rfl, ?_⟩
                  cases d' with
                  | zero => simp only [spineModify_zero, (replLast_same _ c2').1, hroot2]; exact hm0
                  | succ d'' => simp only [(spineModify_succ_same _ c2' d'').1, hroot2]; exact hm0
            refine ⟨?_, ?_, ?_, fun hn => hroot.2.1 (hm.ne hn), Or.inl ⟨?_, hroot.1, hroot.2.2.2⟩⟩
            · show (p2.closeContainer x (p2.lineStart + p2.i)).source = p.source
              rw [tf.source, hm.fr.source]
            · show (p2.closeContainer x (p2.lineStart + p2.i)).lineStart = p.lineStart
              rw [tf.lineStart, hm.fr.lineStart]
            · show (p2.closeContainer x (p2.lineStart + p2.i)).line = p.line
              rw [tf.line, hm.fr.line]
            · show (p2.closeContainer x (p2.lineStart + p2.i)).state = stateDescendTerminated
              rw [hroot.2.2.1]; exact hterm'
          · rename_i hterm
            have hterm' : p2.state ≠ stateDescendTerminated := by simpa using hterm
            have hst2 : p2.state = stateDescending ∧ p2.root = p.root := by
              rcases hm.st with h' | h'
              · exact h'
              · exact absurd h' hterm'
            split
            · -- not matched
              refine ⟨hm.fr.source, hm.fr.lineStart, hm.fr.line, hm.ne, Or.inr ⟨hterm', ?_, fun _ => ⟨c, ?_⟩, Or.inr hst2.1⟩⟩
              · exact la_setDepth hm.la parent (by rw [hst2.2]; exact hd)
              · show spineGet p2.root (parent + 1) = some c
                rw [hst2.2]; exact hc
            · -- matched: go down
              have ih' := ih p2 (parent + 1) hm.la ⟨c, by rw [hst2.2]; exact hc⟩
                (fun h' => absurd h' hterm') (by
                  intro _
                  by_cases hp0 : parent = 0
                  · subst hp0
                    refine ⟨c, ?_, hasMatch_of_some x c.kind _ hr⟩
                    rw [hst2.2, ← spineGet_one]; exact hc
                  · obtain ⟨c0, hc0, hm0⟩ := hM (by omega)
                    exact ⟨c0, by rw [hst2.2]; exact hc0, hm0⟩)
              refine ⟨ih'.source.trans hm.fr.source, ih'.lineStart.trans hm.fr.lineStart, ih'.line.trans hm.fr.line,
                fun hn => ih'.ne (hm.ne hn), ?_⟩
              rcases ih'.res with h' | ⟨r1, r2, r3, r4⟩
              · exact Or.inl h'
              · refine Or.inr ⟨r1, r2, r3, Or.inr ?_⟩
                rcases r4 with h' | h'
                · rw [h']; exact hst2.1
                · exact h'

theorem descendOpenBlocks_ok {N : Nat} (x : PExt) (p : LP) (h : LA true N p)
    (hT : p.state = stateDescendTerminated → TermOK p.root) :
    DescOK N p (descendOpenBlocks x p).1 (descendOpenBlocks x p).2 :=
  descendLoop_ok x _ p 0 h ⟨p.root, spineGet_zero _⟩ hT (fun h' => absurd h' (by omega))

end CM.Proofs
