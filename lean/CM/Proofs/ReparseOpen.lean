import CM.Proofs.ReparseFrameLine
import CM.Proofs.BlocksStarts
/-
C16, Layer B, part 4: what the opening phase of a line does FIRST to the tree.

`FO x p p'`: starting from `p`, the block starts / the opening loop end in `p'`, and
* `same`: nothing was touched but the state; or
* `opened`: the first modification of the tree was an `openBlock` from a state `q` that differs from `p` only in the
  cursor — everything after it is covered by the frame property `LF`; or
* `setext`: the container (a paragraph) was turned into a setext heading and closed at the end of the line.
-/
namespace CM.Proofs.Rp
open CM CM.Model CM.Gen CM.Proofs

/-- `p` with the state of the opening phase. -/
def T (p : LP) : LP := { p with state := stateOpening }

theorem T_T (p : LP) : T (T p) = T p := rfl
theorem T_of_state {p : LP} (h : p.state = stateOpening) : T p = p := by cases p; simp only at h; subst h; rfl
theorem curFrame_T (p : LP) : CurFrame p (T p) := ⟨rfl, rfl, rfl, rfl, rfl, fun h => h, Nat.le_refl _⟩
theorem curFrame_T' (p : LP) : CurFrame (T p) p := ⟨rfl, rfl, rfl, rfl, rfl, fun h => h, Nat.le_refl _⟩

/-- The relabelled and closed paragraph of `startSetext`. -/
def setextClose (x : PExt) (q : LP) (level : Nat) : LP :=
  ((q.modifyContainer (PB.setLabel fun l => { l with kind := BK.setextHeading, n := level })).consumeLine).endBlock x

inductive FO (x : PExt) (p : LP) : LP → Prop
  | same (p' : LP) : p' = T p → FO x p p'
  | opened (q : LP) (kind : Nat) (attrs : PLabel → PLabel) (p' : LP) : CurFrame p q → InOpen q.state →
      (kind = BK.listItem → q.containerKind = BK.list) → LF (q.openBlock x kind attrs) p' → FO x p p'
  | setext (q : LP) (level : Nat) (p' : LP) : CurFrame p q → InOpen q.state → q.i = p.i → q.containerKind = BK.paragraph →
      p' = setextClose x q level → FO x p p'

theorem FO.of_T {x : PExt} {p r : LP} (h : FO x (T p) r) : FO x p r := by
  cases h with
  | same _ hs => exact FO.same _ (by rw [hs]; rfl)
  | opened q kind attrs _ hc hs hk hl => exact FO.opened q kind attrs _ ((curFrame_T p).trans hc) hs hk hl
  | setext q level _ hc hs hi hk he => exact FO.setext q level _ ((curFrame_T p).trans hc) hs hi hk he

theorem FO.of_same {x : PExt} {p p1 r : LP} (hs : ∃ s, p1 = { p with state := s }) (h : FO x p1 r) : FO x p r := by
  obtain ⟨s, rfl⟩ := hs
  have hc : CurFrame p { p with state := s } := ⟨rfl, rfl, rfl, rfl, rfl, fun h => h, Nat.le_refl _⟩
  cases h with
  | same _ hs' => exact FO.same _ (by rw [hs']; rfl)
  | opened q kind attrs _ hc' hs' hk hl => exact FO.opened q kind attrs _ (hc.trans hc') hs' hk hl
  | setext q level _ hc' hs' hi hk he => exact FO.setext q level _ (hc.trans hc') hs' hi hk he

theorem inOpen_opening {p : LP} (h : p.state = stateOpening) : InOpen p.state := Or.inl h

theorem inOpen_step {p q : LP} (hs : InOpen p.state) (h : StateStep p.state q.state) : InOpen q.state := h.inOpen hs

/-! ### The block starts -/

/-- `opened` with the rest of the start function after the `openBlock`. -/
theorem fo_open (x : PExt) {p q p' : LP} (kind : Nat) (attrs : PLabel → PLabel) (hc : CurFrame p q) (hs : InOpen q.state)
    (hk : kind ≠ BK.listItem) (hl : LF (q.openBlock x kind attrs) p') : FO x p p' :=
  FO.opened q kind attrs p' hc hs (fun e => absurd e hk) hl

theorem fo_blockQuote (x : PExt) (p : LP) (hs : p.state = stateOpening) : FO x p (startBlockQuote x p) := by
  unfold startBlockQuote
  simp only []
  split
  · exact FO.same _ (T_of_state hs).symm
  · split
    · exact FO.same _ (T_of_state hs).symm
    · obtain ⟨c1, c2⟩ := consumeIndentN_frame p p.indent
      refine fo_open x BK.blockQuote id c1 (c2.inOpen (inOpen_opening hs)) (by decide) ?_
      lf

theorem fo_atx (x : PExt) (p : LP) (hs : p.state = stateOpening) : FO x p (startATX x p) := by
  unfold startATX
  simp only []
  split
  · exact FO.same _ (T_of_state hs).symm
  · split
    · exact FO.same _ (T_of_state hs).symm
    · obtain ⟨c1, c2⟩ := consumeIndentN_frame p p.indent
      refine fo_open x BK.atxHeading (fun l => { l with n := (parseATXHeading p.bytesAfterIndent).level }) c1
        (c2.inOpen (inOpen_opening hs)) (by decide) ?_
      lf

theorem fo_fenced (x : PExt) (p : LP) (hs : p.state = stateOpening) : FO x p (startFenced x p) := by
  unfold startFenced
  simp only []
  split
  · exact FO.same _ (T_of_state hs).symm
  · split
    · exact FO.same _ (T_of_state hs).symm
    · obtain ⟨c1, c2⟩ := consumeIndentN_frame p p.indent
      refine fo_open x BK.fencedCode
        (fun l => { l with char := (parseCodeFence p.bytesAfterIndent).char, n := (parseCodeFence p.bytesAfterIndent).n })
        c1 (c2.inOpen (inOpen_opening hs)) (by decide) ?_
      lf

theorem fo_htmlLoop (x : PExt) (line : Bytes) : ∀ (fuel i : Nat) (p : LP), p.state = stateOpening →
    FO x p (htmlStartLoop x line fuel i p) := by
  intro fuel
  induction fuel with
  | zero => intro i p hs; exact FO.same _ (T_of_state hs).symm
  | succ fuel ih =>
    intro i p hs
    unfold htmlStartLoop
    split
    · exact FO.same _ (T_of_state hs).symm
    · split
      · split
        · exact FO.same _ (T_of_state hs).symm
        · refine fo_open x BK.htmlBlock (fun l => { l with n := (i : Int) }) (CurFrame.refl p) (inOpen_opening hs) (by decide) ?_
          simp only []
          lf
      · exact ih _ _ hs

theorem fo_html (x : PExt) (p : LP) (hs : p.state = stateOpening) : FO x p (startHTML x p) := by
  unfold startHTML
  simp only []
  split
  · exact FO.same _ (T_of_state hs).symm
  · split
    · exact FO.same _ (T_of_state hs).symm
    · exact fo_htmlLoop x _ _ _ p hs

theorem fo_setext (x : PExt) (p : LP) (hs : p.state = stateOpening) : FO x p (startSetext x p) := by
  unfold startSetext
  split
  · exact FO.same _ (T_of_state hs).symm
  · rename_i hk
    have hk' : p.containerKind = BK.paragraph := by simpa using hk
    simp only []
    split
    · exact FO.same _ (T_of_state hs).symm
    · split
      · exact FO.same _ (T_of_state hs).symm
      · exact FO.setext p _ _ (CurFrame.refl p) (inOpen_opening hs) rfl hk' rfl

theorem fo_thematic (x : PExt) (p : LP) (hs : p.state = stateOpening) : FO x p (startThematicBreak x p) := by
  unfold startThematicBreak
  simp only []
  split
  · exact FO.same _ (T_of_state hs).symm
  · split
    · exact FO.same _ (T_of_state hs).symm
    · obtain ⟨c1, c2⟩ := consumeIndentN_frame p p.indent
      refine fo_open x BK.thematicBreak id c1 (c2.inOpen (inOpen_opening hs)) (by decide) ?_
      lf

theorem containerKind_of_cur {p q : LP} (h : CurFrame p q) : q.containerKind = p.containerKind := by
  unfold LP.containerKind LP.container; rw [h.root, h.depth]

theorem fo_listItem (x : PExt) (p : LP) (hs : p.state = stateOpening) : FO x p (startListItem x p) := by
  unfold startListItem
  simp only []
  split
  · exact FO.same _ (T_of_state hs).symm
  split
  · exact FO.same _ (T_of_state hs).symm
  split
  · exact FO.same _ (T_of_state hs).symm
  obtain ⟨c1, c2⟩ := consumeIndentN_frame p p.indent
  have hst := c2.inOpen (inOpen_opening hs)
  generalize parseListMarker p.bytesAfterIndent = m
  generalize p.consumeIndentN p.indent = p1 at c1 hst ⊢
  generalize hcond : (p1.containerKind != BK.list || (if (p1.containerKind != BK.list && p1.containerKind != BK.listItem) = true
      then (0 : UInt8) else p1.container.label.char) != m.delim) = c
  cases c with
  | true =>
    show FO x p (CM.Proofs.BT.listItemTail x m.delim m.stop.toNat p.indent (p1.openBlock x BK.list (fun l => { l with char := m.delim })))
    refine FO.opened p1 BK.list (fun l => { l with char := m.delim }) _ c1 hst (fun e => absurd e (by decide)) ?_
    unfold CM.Proofs.BT.listItemTail
    simp only []
    lf
  | false =>
    show FO x p (CM.Proofs.BT.listItemTail x m.delim m.stop.toNat p.indent p1)
    simp only [Bool.or_eq_false_iff] at hcond
    have hk : p1.containerKind = BK.list := by simpa using hcond.1
    refine FO.opened p1 BK.listItem (fun l => { l with char := m.delim }) _ c1 hst (fun _ => hk) ?_
    unfold CM.Proofs.BT.listItemTail
    simp only []
    lf

theorem fo_indented (x : PExt) (p : LP) (hs : p.state = stateOpening) : FO x p (startIndentedCode x p) := by
  unfold startIndentedCode
  split
  · exact FO.same _ (T_of_state hs).symm
  · obtain ⟨c1, c2⟩ := consumeIndentN_frame p codeBlockIndentLimit
    exact fo_open x BK.indentedCode id c1 (c2.inOpen (inOpen_opening hs)) (by decide) (LF.refl _)

theorem fo_all (x : PExt) : ∀ f ∈ blockStartFns x, ∀ p : LP, p.state = stateOpening → FO x p (f p) := by
  intro f hf p hs
  simp only [blockStartFns, List.mem_cons, List.mem_nil_iff, or_false] at hf
  rcases hf with rfl | rfl | rfl | rfl | rfl | rfl | rfl | rfl
  · exact fo_blockQuote x p hs
  · exact fo_atx x p hs
  · exact fo_fenced x p hs
  · exact fo_html x p hs
  · exact fo_setext x p hs
  · exact fo_thematic x p hs
  · exact fo_listItem x p hs
  · exact fo_indented x p hs

/-! ### After `startSetext` the line is consumed -/

theorem modifyContainer_fields (p : LP) (f : PB → PB) :
    (p.modifyContainer f).state = p.state ∧ (p.modifyContainer f).i = p.i ∧ (p.modifyContainer f).line = p.line ∧
    (p.modifyContainer f).depth = p.depth ∧ (p.modifyContainer f).lineStart = p.lineStart ∧
    (p.modifyContainer f).source = p.source := ⟨rfl, rfl, rfl, rfl, rfl, rfl⟩

theorem closeContainer_state (x : PExt) (p : LP) (e : Int) : (p.closeContainer x e).state = p.state := by
  unfold LP.closeContainer; split <;> rfl

theorem setextClose_state (x : PExt) (q : LP) (level : Nat) (hs : InOpen q.state) :
    (setextClose x q level).state = stateLineConsumed := by
  unfold setextClose
  obtain ⟨_, l2, _, _⟩ := consumeLine_frame (q.modifyContainer (PB.setLabel fun l => { l with kind := BK.setextHeading, n := level }))
  have hc := l2 hs
  generalize (q.modifyContainer (PB.setLabel fun l => { l with kind := BK.setextHeading, n := level })).consumeLine = q2 at hc
  rw [endBlock_eq x q2 (by rw [hc]; decide), closeContainer_state]
  obtain ⟨_, m2, _⟩ := markMatched_frame q2
  rw [m2.eq_of_ne (by rw [hc]; decide)]; exact hc

/-! ### `tryStarts` and the opening loop -/

theorem tryStarts_T (f : LP → LP) (rest : List (LP → LP)) (p : LP) : tryStarts (f :: rest) p = tryStarts (f :: rest) (T p) := by
  unfold tryStarts; rfl

theorem fo_tryStarts (x : PExt) : ∀ (fs : List (LP → LP)), (∀ f ∈ fs, f ∈ blockStartFns x) → ∀ p : LP,
    FO x p (tryStarts fs (T p)) := by
  intro fs
  induction fs with
  | nil => intro _ p; exact FO.same _ rfl
  | cons f rest ih =>
    intro hfs p
    have h1 : FO x (T p) (f (T p)) := fo_all x f (hfs f (by simp)) (T p) rfl
    have hrest := fun q => ih (fun g hg => hfs g (by simp [hg])) q
    have hlf := fun q => lf_tryStarts x rest (fun g hg => hfs g (by simp [hg])) q
    apply FO.of_T
    unfold tryStarts
    show FO x (T p) (if (f (T p)).state == stateOpenMatched || (f (T p)).state == stateLineConsumed then f (T p)
      else tryStarts rest (f (T p)))
    split
    · exact h1
    · rename_i hst
      cases h1 with
      | same _ hs =>
        rw [hs, T_T]
        exact FO.of_same ⟨stateOpening, rfl⟩ (hrest (T p))
      | opened q kind attrs _ hc hs' hk hl => exact FO.opened q kind attrs _ hc hs' hk (hl.trans (hlf _))
      | setext q level _ hc hs' hi hk he =>
        exfalso
        have := setextClose_state x q level hs'
        rw [← he] at this
        rw [this] at hst
        exact hst (by decide)

theorem fo_tryStarts_all (x : PExt) (p : LP) : FO x p (tryStarts (blockStartFns x) p) := by
  have : tryStarts (blockStartFns x) p = tryStarts (blockStartFns x) (T p) := by
    unfold blockStartFns; exact tryStarts_T _ _ p
  rw [this]
  exact fo_tryStarts x _ (fun _ h => h) p

/-- The result of the opening loop: `hasText` and the state. -/
inductive OL (x : PExt) (p : LP) : Bool × LP → Prop
  | same (p' : LP) : (p' = T p ∨ (p' = p ∧ ¬ (p.containerKind == BK.paragraph || !acceptsLines p.containerKind) = true)) →
      OL x p (true, p')
  | opened (q : LP) (kind : Nat) (attrs : PLabel → PLabel) (ht : Bool) (p' : LP) : CurFrame p q → InOpen q.state →
      (kind = BK.listItem → q.containerKind = BK.list) → LF (q.openBlock x kind attrs) p' → OL x p (ht, p')
  | setext (q : LP) (level : Nat) : CurFrame p q → InOpen q.state → q.i = p.i → q.containerKind = BK.paragraph →
      OL x p (false, setextClose x q level)

theorem ol_openingLoop (x : PExt) (fuel : Nat) (p : LP) : OL x p (openingLoop x (fuel + 1) p) := by
  unfold openingLoop
  split
  · rename_i hc
    exact OL.same _ (Or.inr ⟨rfl, by simpa using hc⟩)
  · have h1 := fo_tryStarts_all x p
    simp only []
    split
    · rename_i hst
      -- a block was opened: the loop goes on
      cases h1 with
      | same _ hs =>
        exfalso
        rw [hs] at hst
        exact absurd hst (by simp [T, stateOpening, stateOpenMatched])
      | opened q kind attrs _ hc hs' hk hl =>
        have h2 := lf_openingLoop x fuel (tryStarts (blockStartFns x) p)
        generalize openingLoop x fuel (tryStarts (blockStartFns x) p) = r at h2
        obtain ⟨ht, p'⟩ := r
        exact OL.opened q kind attrs ht p' hc hs' hk (hl.trans h2)
      | setext q level _ hc hs' hi hk he =>
        exfalso
        have := setextClose_state x q level hs'
        rw [← he] at this
        rw [this] at hst
        exact absurd hst (by decide)
    · split
      · rename_i hst hst2
        cases h1 with
        | same _ hs =>
          exfalso
          rw [hs] at hst2
          exact absurd hst2 (by simp [T, stateOpening, stateLineConsumed])
        | opened q kind attrs _ hc hs' hk hl => exact OL.opened q kind attrs false _ hc hs' hk hl
        | setext q level _ hc hs' hi hk he => rw [he]; exact OL.setext q level hc hs' hi hk
      · rename_i hst hst2
        cases h1 with
        | same _ hs => exact OL.same _ (Or.inl hs)
        | opened q kind attrs _ hc hs' hk hl => exact OL.opened q kind attrs true _ hc hs' hk hl
        | setext q level _ hc hs' hi hk he =>
          exfalso
          have := setextClose_state x q level hs'
          rw [← he] at this
          rw [this] at hst2
          exact absurd hst2 (by decide)

end CM.Proofs.Rp
