import CM.Proofs.LeafBlocksBase
import CM.Proofs.Recognize2
/-
C06 (block piece, leaf blocks): ATX headings.
`parseATXHeading` on the canonical heading line `#…# content [ #…#]\n` and on the empty heading `#…#\n`; `startATX` on the
empty document; the run of the stream machine.
-/
namespace CM.Proofs.Leaf
open CM CM.Model CM.Gen CM.Spec
open CM.Proofs CM.Proofs.BT

/-! ### the heading line -/

/-- The optional closing sequence: nothing (`k = 0`), or a space and `k` number signs. -/
def closingSeq (k : Nat) : Bytes := if k = 0 then [] else SP :: List.replicate k 0x23

/-- `#`×n, a space, the content, the closing sequence, LF. -/
def atxLine (n : Nat) (c : Bytes) (k : Nat) : Bytes := (List.replicate n 0x23 ++ [SP]) ++ (c ++ closingSeq k) ++ [LF]

/-- The empty heading: `#`×n, LF. -/
def atxEmptyLine (n : Nat) : Bytes := List.replicate n 0x23 ++ [LF]

/-- The side condition on the content of a canonical ATX heading. Without a closing sequence the content must not itself
    look like one (a final run of `#` that is the whole content or is preceded by a space or tab); with a closing sequence
    the content must not end in an odd number of backslashes (the parser's trim of the blanks before the closing sequence
    stops one byte early there). -/
def atxContentOK (c : Bytes) (k : Nat) : Bool :=
  plainLine c && !c.isEmpty && !isSpTab (c.headD 0) && !isSpTab (c.getLast?.getD 0) &&
  (if k = 0 then
     (let r2 := dropRight (· == 0x23) c
      r2.length == c.length || (!r2.isEmpty && !isSpTab (r2.getLast?.getD 0)))
   else !isEndEscaped c)

theorem trailingBackslashes_append_ne (a : Bytes) (b : UInt8) (r : Bytes) (hb : b ≠ 0x5C) :
    trailingBackslashes (a ++ b :: r) = trailingBackslashes a := by
  induction a with
  | nil => simp [trailingBackslashes, hb]
  | cons y a ih =>
    simp only [List.cons_append, trailingBackslashes]
    split
    · rw [ih]
    · rfl

theorem isEndEscaped_pre (pre c : Bytes) (b : UInt8) (hb : b ≠ 0x5C) :
    isEndEscaped ((pre ++ [b]) ++ c) = isEndEscaped c := by
  unfold isEndEscaped
  rw [List.reverse_append, List.reverse_append, List.reverse_singleton, List.singleton_append,
    trailingBackslashes_append_ne _ _ _ hb]

theorem plain_not_NL {c : Bytes} (h : plainLine c = true) : ∀ x ∈ c, isNL x = false := by
  intro x hx
  have := plainLine_mem h hx
  simp [isNL, LF, CR] at this ⊢
  exact ⟨this.1, this.2.1⟩

theorem atxContentOK_elim {c : Bytes} {k : Nat} (h : atxContentOK c k = true) :
    plainLine c = true ∧ c ≠ [] ∧ isSpTab (c.headD 0) = false ∧ isSpTab (c.getLast?.getD 0) = false ∧
    (k = 0 → (dropRight (· == 0x23) c).length = c.length ∨
      ((dropRight (· == 0x23) c) ≠ [] ∧ isSpTab ((dropRight (· == 0x23) c).getLast?.getD 0) = false)) ∧
    (k ≠ 0 → isEndEscaped c = false) := by
  simp only [atxContentOK, Bool.and_eq_true, Bool.not_eq_true', List.isEmpty_eq_false_iff] at h
  obtain ⟨⟨⟨⟨h1, h2⟩, h3⟩, h4⟩, h5⟩ := h
  refine ⟨h1, h2, h3, h4, ?_, ?_⟩
  · intro hk; simp only [hk, if_true, Bool.or_eq_true, beq_iff_eq, Bool.and_eq_true, Bool.not_eq_true',
      List.isEmpty_eq_false_iff] at h5; exact h5
  · intro hk; simp only [hk, if_false, Bool.not_eq_true'] at h5; exact h5

theorem dropRight_spTab_content {c : Bytes} (h : isSpTab (c.getLast?.getD 0) = false) : dropRight isSpTab c = c := by
  apply dropRight_id_of_getLast
  intro x hx
  rw [hx] at h; exact h

/-- The content end `parseATXHeading` computes on the canonical heading line. -/
theorem atxStopModel_atxLine (n : Nat) (c : Bytes) (k : Nat) (h : atxContentOK c k = true) :
    atxStopModel (atxLine n c k) (n + 1) = n + 1 + c.length := by
  obtain ⟨h1, h2, _, h4, h5, h6⟩ := atxContentOK_elim h
  have hpre : (List.replicate n (0x23 : UInt8) ++ [SP]).length = n + 1 := by simp
  have hcl : ∀ x ∈ closingSeq k, isNL x = false := by
    intro x hx
    unfold closingSeq at hx
    split at hx
    · simp at hx
    · simp only [List.mem_cons, List.mem_replicate] at hx
      rcases hx with hx | ⟨_, hx⟩ <;> subst hx <;> decide
  have hcont : ∀ x ∈ c ++ closingSeq k, isNL x = false := by
    intro x hx
    rcases List.mem_append.1 hx with hx | hx
    · exact plain_not_NL h1 x hx
    · exact hcl x hx
  have key := atxStopModel_eq (List.replicate n (0x23 : UInt8) ++ [SP]) (c ++ closingSeq k) [LF] hcont (by
    intro x hx; simp at hx; subst hx; decide)
  rw [hpre] at key
  unfold atxLine
  rw [key]
  simp only []
  by_cases hk : k = 0
  · -- no closing sequence
    have hcs : closingSeq k = [] := by simp [closingSeq, hk]
    rw [hcs, List.append_nil, dropRight_spTab_content h4]
    simp only [Nat.lt_irrefl, false_and, if_false]
    by_cases hlast : c.getLast? = some 0x23
    · simp only [hlast, if_true]
      rcases h5 hk with h5 | ⟨h5a, h5b⟩
      · have : dropRight (· == 0x23) c = c := by
          have := dropRight_eq_take (· == 0x23) c
          rw [h5, List.take_length] at this; exact this
        rw [this]
        have he : c.isEmpty = false := by simpa using h2
        simp only [he, Bool.false_eq_true, if_false, h4]
      · have he : (dropRight (· == 0x23) c).isEmpty = false := by simpa using h5a
        simp only [he, Bool.false_eq_true, if_false, h5b]
    · simp only [hlast, if_false]
  · -- a closing sequence
    have hcs : closingSeq k = SP :: List.replicate k 0x23 := by simp [closingSeq, hk]
    obtain ⟨m, rfl⟩ : ∃ m, k = m + 1 := ⟨k - 1, by omega⟩
    have hcontent : c ++ closingSeq (m + 1) = ((c ++ [SP]) ++ List.replicate m 0x23) ++ [0x23] := by
      rw [hcs, List.replicate_succ']; simp
    have hr1 : dropRight isSpTab (c ++ closingSeq (m + 1)) = c ++ closingSeq (m + 1) := by
      rw [hcontent, dropRight_snoc]; simp [isSpTab]
    have hr2 : dropRight (· == 0x23) (c ++ closingSeq (m + 1)) = c ++ [SP] := by
      rw [hcs, show c ++ SP :: List.replicate (m + 1) 0x23 = (c ++ [SP]) ++ List.replicate (m + 1) 0x23 by simp,
        dropRight_append, dropRight_all (· == 0x23) (List.replicate (m + 1) 0x23) (by
          intro x hx; simp only [List.mem_replicate] at hx; rw [hx.2]; rfl)]
      simp only [if_true, dropRight_snoc]
      simp [SP]
    have hr3 : dropRight isSpTab (c ++ [SP]) = c := by
      rw [dropRight_snoc]
      simp only [show isSpTab SP = true from rfl, if_true]
      exact dropRight_spTab_content h4
    rw [hr1, hr2, hr3]
    have hlast : (c ++ closingSeq (m + 1)).getLast? = some 0x23 := by
      rw [hcontent]; exact List.getLast?_concat
    have hesc : isEndEscaped ((List.replicate n (0x23 : UInt8) ++ [SP]) ++ c) = false := by
      rw [isEndEscaped_pre _ _ _ (by decide)]; exact h6 hk
    simp only [Nat.lt_irrefl, false_and, if_false, hlast, if_true, hesc, Bool.false_eq_true, and_false]
    simp [isSpTab, SP]

theorem atxLine_getElem (n : Nat) (c : Bytes) (k : Nat) : (atxLine n c k)[n]? = some SP := by
  unfold atxLine
  rw [List.append_assoc, List.append_assoc, List.getElem?_append_right (by simp)]
  simp

theorem atxLine_drop (n : Nat) (c : Bytes) (k : Nat) : (atxLine n c k).drop (n + 1) = c ++ closingSeq k ++ [LF] := by
  unfold atxLine
  rw [List.append_assoc, List.drop_left' (by simp)]

/-- **`parseATXHeading` on the canonical heading line**: level `n`, content exactly `c`. -/
theorem parseATXHeading_atxLine (n : Nat) (c : Bytes) (k : Nat) (hn1 : 1 ≤ n) (hn6 : n ≤ 6) (h : atxContentOK c k = true) :
    parseATXHeading (atxLine n c k) = ⟨n, n + 1, n + 1 + c.length⟩ := by
  obtain ⟨h1, h2, h3, _, _, _⟩ := atxContentOK_elim h
  have hcp : countPrefix 0x23 (atxLine n c k) = n := by
    unfold atxLine
    rw [List.append_assoc, List.append_assoc, countPrefix_replicate_append, countPrefix_of_head_ne]
    · rfl
    · simp [SP]
  rw [parseATXHeading_eq]
  simp only [hcp]
  have hlv : (n == 0 || decide (n > 6)) = false := by simp; omega
  simp only [hlv, Bool.false_eq_true, if_false, atxLine_getElem]
  have hskip : skipSpTab ((atxLine n c k).drop (n + 1)) = 0 := by
    rw [atxLine_drop]
    cases c with
    | nil => exact absurd rfl h2
    | cons b t =>
      have : (b == SP || b == TAB) = false := h3
      simp [skipSpTab, this]
  rw [hskip, Nat.add_zero, atxStopModel_atxLine n c k h]
  simp [SP, LF, CR, isSpTab]

theorem parseATXHeading_atxEmptyLine (n : Nat) (hn1 : 1 ≤ n) (hn6 : n ≤ 6) :
    parseATXHeading (atxEmptyLine n) = ⟨n, n, n⟩ := by
  have hcp : countPrefix 0x23 (atxEmptyLine n) = n := by
    unfold atxEmptyLine
    rw [countPrefix_replicate_append, countPrefix_of_head_ne]
    · rfl
    · simp [LF]
  have hg : (atxEmptyLine n)[n]? = some LF := by
    unfold atxEmptyLine
    rw [List.getElem?_append_right (by simp)]
    simp
  rw [parseATXHeading_eq]
  simp only [hcp]
  have hlv : (n == 0 || decide (n > 6)) = false := by simp; omega
  simp only [hlv, Bool.false_eq_true, if_false, hg]
  simp

/-! ### `startATX` on the empty document -/

theorem startATX_fresh (x : PExt) (p : LP) (lvl st sp : Nat)
    (hroot : p.root = docRoot []) (hd : p.depth = 0) (hi : p.i = 0) (hls : p.lineStart = 0)
    (hst : p.state = stateOpening) (hc : CurOK p) (hind : p.indent = 0)
    (hh : parseATXHeading p.bytesAfterIndent = ⟨lvl, st, sp⟩) (hl : 1 ≤ lvl) (h1 : st ≤ sp) (h2 : sp ≤ p.line.length)
    (h3 : p.line.getD st 0 ≠ SP) (h4 : p.line.getD st 0 ≠ TAB) :
    (startATX x p).root = docClosed1 (leafClosed BK.atxHeading lvl (p.line.length : Nat) [mkInline IK.unparsed (st : Nat) (sp : Nat)]) ∧
    (startATX x p).panic = p.panic ∧ (startATX x p).state = stateLineConsumed := by
  unfold startATX
  have hlt : ¬ (0 ≥ codeBlockIndentLimit) := by decide
  have hl' : ¬ (lvl < 1) := by omega
  simp only [hind, hh, hlt, hl', if_false, consumeIndentN_zero]
  rw [openBlock_doc0 x p BK.atxHeading lvl hroot hd (by rw [hst]; decide) hls hi (by decide)]
  -- advance to the content
  have a1 := advance_post { p with state := mm p.state, root := doc1 (leafOpen BK.atxHeading lvl []), depth := 1 } st
    ⟨hc.hi, hc.htab⟩ (by show p.i + st ≤ p.line.length; omega)
  generalize LP.advance _ st = q1 at a1 ⊢
  have t1 := a1.tree; have l1 := a1.line; have i1 := a1.i; have p1 := a1.panic; have s1 := a1.state; have c1 := a1.cur
  simp only [tree, Prod.mk.injEq] at t1
  obtain ⟨ts, tr, td, tl⟩ := t1
  have i1' : q1.i = st := by rw [i1]; show p.i + st = st; omega
  have l1' : q1.line = p.line := l1
  have s1' : q1.state = stateOpenMatched := by
    rw [s1]; show (if st = 0 then mm p.state else mm (mm p.state)) = _
    rw [hst]; split <;> rfl
  have hq1ind : q1.indent = 0 := indent_other q1 (by rw [l1', i1']; exact h3) (by rw [l1', i1']; exact h4)
  rw [collectInline_plain x q1 IK.unparsed (sp - st) (by decide) hq1ind (by rw [s1']; decide)]
  have a2 := advance_post q1 (sp - st) c1 (by rw [i1', l1']; omega)
  generalize LP.advance q1 (sp - st) = q2 at a2 ⊢
  have t2 := a2.tree; have l2 := a2.line; have i2 := a2.i; have p2 := a2.panic; have c2 := a2.cur
  simp only [tree, Prod.mk.injEq] at t2
  obtain ⟨ts2, tr2, td2, tl2⟩ := t2
  have hs2 : q2.state = stateOpenMatched := by rw [a2.state, s1']; split <;> rfl
  have i2' : q2.i = sp := by rw [i2, i1']; omega
  have hls1 : q1.lineStart = 0 := by rw [tl]; exact hls
  have hls2 : q2.lineStart = 0 := by rw [tl2]; exact hls1
  rw [hls1, i1', hls2, i2', Nat.zero_add, Nat.zero_add]
  have cl := consumeLine_post (q2.appendInline (mkInline IK.unparsed (st : Nat) (sp : Nat))) ⟨c2.hi, c2.htab⟩
  generalize LP.consumeLine _ = q3 at cl ⊢
  have t3 := cl.tree; have l3 := cl.line; have i3 := cl.i; have p3 := cl.panic
  simp only [tree, Prod.mk.injEq] at t3
  obtain ⟨ts3, tr3, td3, tl3⟩ := t3
  have hs3 : q3.state = stateLineConsumed := by
    rw [cl.state, appendInline_state, hs2]; split <;> rfl
  have hroot3 : q3.root = doc1 (leafOpen BK.atxHeading lvl [mkInline IK.unparsed (st : Nat) (sp : Nat)]) := by
    rw [tr3]
    show spineModify _ q2.root q2.depth = _
    rw [tr2, td2, tr, td]
    simp [doc1, docRoot, leafOpen, spineModify]
  have hd3 : q3.depth = 1 := by rw [td3]; show q2.depth = 1; rw [td2, td]
  rw [endBlock_doc1 x q3 _ hroot3 hd3 (by rw [hs3]; decide)]
  refine ⟨?_, ?_, ?_⟩
  · show PB.mk _ (closeBlock x q3.source (q3.lineStart + q3.i) _) [] = _
    rw [closeBlock_leaf x _ _ _ _ _ (by decide) (by decide) (by decide) (by decide)]
    have : q3.lineStart = 0 := by rw [tl3]; exact hls2
    have hi3 : q3.i = p.line.length := by rw [i3]; show q2.line.length = _; rw [l2, l1']
    rw [this, hi3]
    simp [docClosed1]
  · show q3.panic = p.panic
    rw [p3]; show q2.panic = _; rw [p2, p1]
  · show mm q3.state = _
    rw [hs3]; rfl

/-- `processLine` on the empty document, for a line `startATX` takes. -/
theorem processLine_atx (x : PExt) (p : LP) (rest : Bytes) (lvl st sp : Nat)
    (hroot : p.root = docRoot []) (hd : p.depth = 0) (hi : p.i = 0) (hls : p.lineStart = 0)
    (hst : p.state = stateOpening) (hc : CurOK p) (hline : p.line = 0x23 :: rest)
    (hh : parseATXHeading p.line = ⟨lvl, st, sp⟩) (hl : 1 ≤ lvl) (h1 : st ≤ sp) (h2 : sp ≤ p.line.length)
    (h3 : p.line.getD st 0 ≠ SP) (h4 : p.line.getD st 0 ≠ TAB) :
    (processLine x p).root = docClosed1 (leafClosed BK.atxHeading lvl (p.line.length : Nat) [mkInline IK.unparsed (st : Nat) (sp : Nat)]) ∧
    (processLine x p).panic = p.panic := by
  obtain ⟨hind, hbai⟩ := noIndent p 0x23 rest hc hi hline (by decide) (by decide)
  have hs := startATX_fresh x p lvl st sp hroot hd hi hls hst hc hind (by rw [hbai]; exact hh) hl h1 h2 h3 h4
  have hbq : hasBytePrefix p.bytesAfterIndent blockQuotePrefix = false := by rw [hbai, hline]; rfl
  have hts : tryStarts (blockStartFns x) p = startATX x p := by
    unfold blockStartFns
    rw [tryStarts_skip _ _ p hst (startBlockQuote_none x p (by rw [hind]; decide) hbq),
      tryStarts_hit _ _ p hst (Or.inr hs.2.2)]
  rw [processLine_doc0_consumed x p hroot hd hst (by rw [hline]; simp) (by rw [hts]; exact hs.2.2), hts]
  exact ⟨hs.1, hs.2.1⟩

/-! ### the run of the stream machine -/

theorem plain_hashes (n : Nat) : plainLine (List.replicate n (0x23 : UInt8)) = true :=
  plainLine_replicate n (by decide) (by decide) (by decide)

theorem closingSeq_plain (k : Nat) : plainLine (closingSeq k) = true := by
  unfold closingSeq
  split
  · rfl
  · rw [show SP :: List.replicate k (0x23 : UInt8) = [SP] ++ List.replicate k 0x23 from rfl, plainLine_append, plain_hashes]; rfl

theorem atxLine_body_plain (n : Nat) (c : Bytes) (k : Nat) (hc : plainLine c = true) :
    plainLine ((List.replicate n (0x23 : UInt8) ++ [SP]) ++ (c ++ closingSeq k)) = true := by
  rw [plainLine_append, plainLine_append, plainLine_append, plain_hashes, hc, closingSeq_plain]; rfl

theorem not_blank_hash (n : Nat) (hn : 1 ≤ n) (r : Bytes) : isBlankLine (List.replicate n (0x23 : UInt8) ++ r) = false := by
  obtain ⟨m, rfl⟩ : ∃ m, n = m + 1 := ⟨n - 1, by omega⟩
  have : Gen.isSpaceTabOrLineEnding 0x23 = false := by decide
  simp [List.replicate_succ, isBlankLine, this]

theorem getD_of_drop (l : Bytes) (i : Nat) (b : UInt8) (t : Bytes) (h : l.drop i = b :: t) : l.getD i 0 = b := by
  have hlt : i < l.length := by
    by_cases hlt : i < l.length
    · exact hlt
    · rw [List.drop_eq_nil_of_le (by omega)] at h; cases h
  rw [drop_cons_of_lt l i hlt] at h
  exact (List.cons.inj h).1

/-- **ATX heading** (the run of the stream machine): for `1 ≤ n ≤ 6`, content `c` with `atxContentOK c k`, and an optional
    closing sequence of `k` number signs, draining the parser on `#`×n SP `c` [SP `#`×k] LF delivers exactly one root, an
    ATX heading of level `n` spanning the document whose only inline child is one Unparsed node spanning exactly `c`; then
    the end of input. -/
theorem atx_heading_run (x : PExt) (n : Nat) (c : Bytes) (k : Nat) (fuel : Nat) (hn1 : 1 ≤ n) (hn6 : n ≤ 6)
    (hc : atxContentOK c k = true) (hfuel : 2 ≤ fuel) :
    drain (blocksLP x) fuel (memParser (atxLine n c k)) [] =
      ([{ source := atxLine n c k, startLine := 1, startOffset := 0, endOffset := (atxLine n c k).length,
          block := leafClosed BK.atxHeading n ((atxLine n c k).length : Nat)
            [mkInline IK.unparsed ((n + 1 : Nat) : Int) ((n + 1 + c.length : Nat) : Int)] }],
       .err .eof, doneBP (atxLine n c k).length (1 + lineCount (atxLine n c k))) := by
  obtain ⟨h1, h2, h3, _, _, _⟩ := atxContentOK_elim hc
  apply oneLine_run x _ fuel _ (atxLine_body_plain n c k h1) (by rw [List.append_assoc]; exact not_blank_hash n hn1 _) hfuel
  · intro p hp
    obtain ⟨r1, r2, r3, r4, r5, r6, r7, r8, _, _, _⟩ := reset_first _ p hp
    have hline : p.line = atxLine n c k := r8
    obtain ⟨m, rfl⟩ : ∃ m, n = m + 1 := ⟨n - 1, by omega⟩
    have hcons : p.line = 0x23 :: (List.replicate m 0x23 ++ [SP] ++ (c ++ closingSeq k) ++ [LF]) := by
      rw [hline, atxLine, List.replicate_succ]; simp
    have hlen : (atxLine (m + 1) c k).length = (m + 1) + 1 + c.length + ((closingSeq k).length + 1) := by
      simp [atxLine]; omega
    obtain ⟨b, t, rfl⟩ : ∃ b t, c = b :: t := by
      cases c with
      | nil => exact absurd rfl h2
      | cons b t => exact ⟨b, t, rfl⟩
    have hget : p.line.getD (m + 1 + 1) 0 = b := by
      rw [hline]; exact getD_of_drop _ _ b (t ++ closingSeq k ++ [LF]) (by rw [atxLine_drop]; rfl)
    have hb : (b == SP || b == TAB) = false := h3
    simp only [Bool.or_eq_false_iff, beq_eq_false_iff_ne] at hb
    have := processLine_atx x p _ (m + 1) (m + 1 + 1) (m + 1 + 1 + (b :: t).length) r1 r2 r3 r4 r5 r7 hcons
      (by rw [hline]; exact parseATXHeading_atxLine (m + 1) (b :: t) k hn1 hn6 hc) hn1 (by omega) (by rw [hline, hlen]; omega)
      (by rw [hget]; exact hb.1) (by rw [hget]; exact hb.2)
    rw [r6, hline] at this
    exact this
  · rfl

/-- The Unparsed node of the heading slices to the content. -/
theorem atx_heading_slice (n : Nat) (c : Bytes) (k : Nat) :
    Node.slice (atxLine n c k) (mkInline IK.unparsed ((n + 1 : Nat) : Int) ((n + 1 + c.length : Nat) : Int)) = c := by
  rw [slice_span, atxLine_drop, List.append_assoc, List.take_left' rfl]

/-- **Empty ATX heading** `#`×n LF: one root, an ATX heading of level `n` with one Unparsed child of length 0. -/
theorem atx_empty_run (x : PExt) (n : Nat) (fuel : Nat) (hn1 : 1 ≤ n) (hn6 : n ≤ 6) (hfuel : 2 ≤ fuel) :
    drain (blocksLP x) fuel (memParser (atxEmptyLine n)) [] =
      ([{ source := atxEmptyLine n, startLine := 1, startOffset := 0, endOffset := (atxEmptyLine n).length,
          block := leafClosed BK.atxHeading n ((atxEmptyLine n).length : Nat)
            [mkInline IK.unparsed ((n : Nat) : Int) ((n : Nat) : Int)] }],
       .err .eof, doneBP (atxEmptyLine n).length (1 + lineCount (atxEmptyLine n))) := by
  apply oneLine_run x _ fuel _ (plain_hashes n) (by
    have := not_blank_hash n hn1 []; rwa [List.append_nil] at this) hfuel
  · intro p hp
    obtain ⟨r1, r2, r3, r4, r5, r6, r7, r8, _, _, _⟩ := reset_first _ p hp
    have hline : p.line = atxEmptyLine n := r8
    obtain ⟨m, rfl⟩ : ∃ m, n = m + 1 := ⟨n - 1, by omega⟩
    have hcons : p.line = 0x23 :: (List.replicate m 0x23 ++ [LF]) := by
      rw [hline, atxEmptyLine, List.replicate_succ]; simp
    have hget : p.line.getD (m + 1) 0 = LF := by
      rw [hline, atxEmptyLine, List.getD_eq_getElem?_getD, List.getElem?_append_right (by simp)]
      simp
    have := processLine_atx x p _ (m + 1) (m + 1) (m + 1) r1 r2 r3 r4 r5 r7 hcons
      (by rw [hline]; exact parseATXHeading_atxEmptyLine (m + 1) hn1 hn6) hn1 (by omega) (by rw [hline]; simp [atxEmptyLine])
      (by rw [hget]; decide) (by rw [hget]; decide)
    rw [r6, hline] at this
    exact this
  · rfl

/-! ### the empty heading with a closing sequence -/

/-- `#`×n, a space, `#`×k, LF (`k ≥ 1`): an empty heading with a closing sequence. -/
def atxEmptyClosedLine (n k : Nat) : Bytes := (List.replicate n 0x23 ++ [SP]) ++ List.replicate k 0x23 ++ [LF]

theorem parseATXHeading_atxEmptyClosedLine (n k : Nat) (hn1 : 1 ≤ n) (hn6 : n ≤ 6) (hk : 1 ≤ k) :
    parseATXHeading (atxEmptyClosedLine n k) = ⟨n, n + 1, n + 1⟩ := by
  obtain ⟨m, rfl⟩ : ∃ m, k = m + 1 := ⟨k - 1, by omega⟩
  have hpre : (List.replicate n (0x23 : UInt8) ++ [SP]).length = n + 1 := by simp
  have hcp : countPrefix 0x23 (atxEmptyClosedLine n (m + 1)) = n := by
    unfold atxEmptyClosedLine
    rw [List.append_assoc, List.append_assoc, countPrefix_replicate_append, countPrefix_of_head_ne]
    · rfl
    · simp [SP]
  have hg : (atxEmptyClosedLine n (m + 1))[n]? = some SP := by
    unfold atxEmptyClosedLine
    rw [List.append_assoc, List.append_assoc, List.getElem?_append_right (by simp)]
    simp
  have hdrop : (atxEmptyClosedLine n (m + 1)).drop (n + 1) = List.replicate (m + 1) 0x23 ++ [LF] := by
    unfold atxEmptyClosedLine
    rw [List.append_assoc, List.drop_left' (by simp)]
  have hall : ∀ x ∈ List.replicate (m + 1) (0x23 : UInt8), (x == 0x23) = true := by
    intro x hx; simp only [List.mem_replicate] at hx; rw [hx.2]; rfl
  have key := atxStopModel_eq (List.replicate n (0x23 : UInt8) ++ [SP]) (List.replicate (m + 1) 0x23) [LF] (by
    intro x hx; simp only [List.mem_replicate] at hx; rw [hx.2]; decide) (by
    intro x hx; simp at hx; subst hx; decide)
  rw [hpre] at key
  have hr1 : dropRight isSpTab (List.replicate (m + 1) (0x23 : UInt8)) = List.replicate (m + 1) 0x23 := by
    rw [List.replicate_succ', dropRight_snoc]; simp [isSpTab]
  have hlast : (List.replicate (m + 1) (0x23 : UInt8)).getLast? = some 0x23 := by
    rw [List.replicate_succ']; exact List.getLast?_concat
  simp only [] at key
  rw [hr1, dropRight_all _ _ hall] at key
  simp only [Nat.lt_irrefl, false_and, if_false, hlast, if_true, List.isEmpty_nil] at key
  rw [parseATXHeading_eq]
  simp only [hcp]
  have hlv : (n == 0 || decide (n > 6)) = false := by simp; omega
  simp only [hlv, Bool.false_eq_true, if_false, hg]
  have hskip : skipSpTab ((atxEmptyClosedLine n (m + 1)).drop (n + 1)) = 0 := by
    rw [hdrop, List.replicate_succ]; simp [skipSpTab, SP, TAB]
  rw [hskip, Nat.add_zero]
  have : atxStopModel (atxEmptyClosedLine n (m + 1)) (n + 1) = n + 1 := key
  rw [this]
  simp [SP, LF, CR, isSpTab]

/-- **Empty ATX heading with a closing sequence** `#`×n SP `#`×k LF: an ATX heading of level `n` with one Unparsed child
    of length 0 (the `#`×k is the closing sequence, not content). -/
theorem atx_empty_closed_run (x : PExt) (n k : Nat) (fuel : Nat) (hn1 : 1 ≤ n) (hn6 : n ≤ 6) (hk : 1 ≤ k) (hfuel : 2 ≤ fuel) :
    drain (blocksLP x) fuel (memParser (atxEmptyClosedLine n k)) [] =
      ([{ source := atxEmptyClosedLine n k, startLine := 1, startOffset := 0, endOffset := (atxEmptyClosedLine n k).length,
          block := leafClosed BK.atxHeading n ((atxEmptyClosedLine n k).length : Nat)
            [mkInline IK.unparsed ((n + 1 : Nat) : Int) ((n + 1 : Nat) : Int)] }],
       .err .eof, doneBP (atxEmptyClosedLine n k).length (1 + lineCount (atxEmptyClosedLine n k))) := by
  have hplain : plainLine ((List.replicate n (0x23 : UInt8) ++ [SP]) ++ List.replicate k 0x23) = true := by
    rw [plainLine_append, plainLine_append, plain_hashes, plain_hashes]; rfl
  apply oneLine_run x _ fuel _ hplain (by rw [List.append_assoc]; exact not_blank_hash n hn1 _) hfuel
  · intro p hp
    obtain ⟨r1, r2, r3, r4, r5, r6, r7, r8, _, _, _⟩ := reset_first _ p hp
    have hline : p.line = atxEmptyClosedLine n k := r8
    obtain ⟨m, rfl⟩ : ∃ m, n = m + 1 := ⟨n - 1, by omega⟩
    obtain ⟨j, rfl⟩ : ∃ j, k = j + 1 := ⟨k - 1, by omega⟩
    have hcons : p.line = 0x23 :: (List.replicate m 0x23 ++ [SP] ++ List.replicate (j + 1) 0x23 ++ [LF]) := by
      rw [hline, atxEmptyClosedLine, List.replicate_succ]; simp
    have hget : p.line.getD (m + 1 + 1) 0 = 0x23 := by
      rw [hline]
      apply getD_of_drop _ _ 0x23 (List.replicate j 0x23 ++ [LF])
      unfold atxEmptyClosedLine
      rw [List.append_assoc, List.drop_left' (by simp), List.replicate_succ]; rfl
    have := processLine_atx x p _ (m + 1) (m + 1 + 1) (m + 1 + 1) r1 r2 r3 r4 r5 r7 hcons
      (by rw [hline]; exact parseATXHeading_atxEmptyClosedLine (m + 1) (j + 1) hn1 hn6 hk) hn1 (by omega)
      (by rw [hline]; simp [atxEmptyClosedLine]) (by rw [hget]; decide) (by rw [hget]; decide)
    rw [r6, hline] at this
    exact this
  · rfl

end CM.Proofs.Leaf
