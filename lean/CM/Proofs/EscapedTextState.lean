import CM.Proofs.EscapedTextDefs
/-
C06, escaped text — part 2, the arena: the state `mkState … L` whose dummy root has the Text leaves `L` as its only
children (empty delimiter stack), what `addLeaf` does to it, what `processEmphasis` does on an empty stack (nothing),
and what `exportNode` returns for it.  Everything is an EQUATION about running the model (no panic, no fuel exhaustion).
-/
namespace CM.Proofs.EscText
open CM CM.Gen CM.Model CM.Model.Inl

/-- The state after `addLeaf kind start stop`. -/
def addLeafP (k : Nat) (a b : Int) (s : IState) : IState :=
  if spanLenI a b == 0 then s else
  { s with
    nodes := (s.nodes.push { kind := k, start := a, stop := b }).modify 0 fun r => { r with kids := r.kids.push s.nodes.size },
    parentMap := (s.parentMap.push none).set! s.nodes.size (some 0) }

theorem addLeaf_run (k : Nat) (a b : Int) (s : IState) : (addLeaf k a b).run s = pure ((), addLeafP k a b s) := by
  unfold addLeaf addLeafP
  by_cases h : spanLenI a b = 0
  · simp [h]
  · simp [h, alloc, addToRoot, nodeLen, getNode, setParent, modifyNode, StateT.run_bind]

def textNode (p : Nat × Nat) : INode := { kind := IK.text, start := (p.1 : Int), stop := (p.2 : Int) }

/-- The arena with the dummy root `[cstart, cstop)` and the Text leaves `L` as its children, empty delimiter stack. -/
def mkState (cstart cstop : Int) (up : Nat) (L : List (Nat × Nat)) : IState :=
  { nodes := ({ kind := 0, start := cstart, stop := cstop, kids := (List.range' 1 L.length).toArray } :: L.map textNode).toArray,
    parentMap := (none :: List.replicate L.length (some 0)).toArray,
    unparsedPos := up, stack := #[], ignoreNextIndent := false }

theorem spanLenI_cast (a b : Nat) : spanLenI (a : Int) (b : Int) = b - a := by
  unfold spanLenI
  by_cases h : a ≤ b
  · simp [h]
  · simp [h]; omega

theorem addLeafP_mkState (cs ce : Int) (up : Nat) (L : List (Nat × Nat)) (a b : Nat) (h : a < b) :
    addLeafP IK.text (a : Int) (b : Int) (mkState cs ce up L) = mkState cs ce up (L ++ [(a, b)]) := by
  unfold addLeafP
  rw [spanLenI_cast, if_neg (by simp; omega)]
  simp [mkState]
  refine ⟨⟨?_, rfl⟩, ?_⟩
  · apply Array.ext'
    simp [List.range'_concat]; omega
  · rw [List.replicate_succ']

theorem processEmphasis_empty (s : IState) (h : s.stack = #[]) : (Inl.processEmphasis 0).run s = pure ((), s) := by
  unfold Inl.processEmphasis
  simp [StateT.run_bind, emphFuel, h, Std.Legacy.Range.forIn_eq_forIn_range', Std.Legacy.Range.size, List.range']
  cases s
  simp only at h
  subst h
  simp [delStack, StateT.run_bind]

def textTree (p : Nat × Nat) : Tree := mkInline IK.text (p.1 : Int) (p.2 : Int)

theorem export_mkState (cs ce : Int) (up : Nat) (L : List (Nat × Nat)) :
    (exportNode (mkState cs ce up L).nodes ((mkState cs ce up L).nodes.size + 1) 0).children = L.map textTree := by
  simp only [mkState, exportNode, List.size_toArray, List.length_cons, List.length_map]
  simp [Tree.children]
  apply List.ext_getElem
  · simp
  · intro i h1 h2
    simp only [List.length_map, List.length_range'] at h1
    simp [Nat.add_comm 1 i, h1, textNode, textTree, mkInline]

end CM.Proofs.EscText
