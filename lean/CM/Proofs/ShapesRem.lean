import CM.Proofs.ShapesClose
/-
C13, block half — what `refDefLoop` (the loop of `onCloseParagraph`) returns: link reference definitions, the orphan
paragraph, and what is left of the block being closed — the same label, except that its start has moved to a position
inside one of its inline children.
-/
namespace CM.Proofs.Shp
open CM CM.Model CM.Gen CM.Proofs.BG

theorem mem_snoc {α : Type} {Q : α → Prop} {l : List α} {b : α} (h1 : ∀ c ∈ l, Q c) (h2 : Q b) : ∀ c ∈ l ++ [b], Q c := by
  intro c hc
  rcases List.mem_append.mp hc with hc | hc
  · exact h1 c hc
  · rw [List.mem_singleton] at hc; subst hc; exact h2

/-- **An induction principle for the output of `refDefLoop`.** `PL` is kept when the label's start moves into one of
    the inline children (and the children before it are dropped); `Q` holds of what is left of the block, of every
    definition and of the orphan. -/
theorem refDefLoop_ind (x : PExt) (src : Bytes) (orphan : Option PB) (PL : PLabel → List Tree → Prop) (Q : PB → Prop)
    (hstep : ∀ l is pos fc, PL l is → nodeIndexForPosition is pos 0 = some fc → PL { l with start := (pos : Int) } (is.drop fc))
    (hrem : ∀ l is, PL l is → Q (.mk l [] is))
    (hdef : ∀ (s e : Int) (kids : List Tree), Q (mkPB BK.linkRefDef s e kids))
    (horph : ∀ o, orphan = some o → Q o) :
    ∀ (fuel : Nat) (r : Rd) (l : PLabel) (is : List Tree) (result : List PB), PL l is → (∀ c ∈ result, Q c) →
      ∀ c ∈ refDefLoop x src orphan fuel r l is result, Q c := by
  intro fuel r l is result
  cases orphan <;> fun_induction refDefLoop x src _ fuel r l is result
  all_goals intro hl hres
  all_goals first
    | exact mem_snoc hres (hrem _ _ hl)
    | exact mem_snoc hres (hdef _ _ _)
    | exact mem_snoc (mem_snoc hres (hdef _ _ _)) (horph _ rfl)
    | exact mem_snoc (mem_snoc hres (hdef _ _ _)) (hrem _ _ (hstep _ _ _ _ hl (by assumption)))
    | (rename_i ih; exact ih (hstep _ _ _ _ hl (by assumption)) (mem_snoc hres (hdef _ _ _)))

/-- What is left of the block being closed. -/
def Rem (B : Int) (l0 : PLabel) (c : PB) : Prop :=
  c.label.kind = l0.kind ∧ c.label.stop = l0.stop ∧ c.label.n = l0.n ∧ c.label.start ≤ B ∧ c.blocks = []

/-- A position found in a list of spans that end at or before `B` is before `B`. -/
theorem nodeIndex_lt {is : List Tree} {pos fc : Nat} {B : Int} (h : nodeIndexForPosition is pos 0 = some fc)
    (hB : ∀ t ∈ is, t.label.stop ≤ B) : (pos : Int) < B := by
  obtain ⟨_, t, h2, h3, _⟩ := nodeIndex_spec h
  have ht : t ∈ is := List.mem_of_getElem? h2
  have := hB t ht
  unfold spanContains at h3
  simp only [Bool.and_eq_true, decide_eq_true_eq] at h3
  omega

/-- **Every block `refDefLoop` returns is a link reference definition, the orphan, or what is left of the block**: the
    label of the block with its start moved to a position before `B`, if the block starts, and its inline children end,
    at or before `B`. -/
theorem refDefLoop_rem (x : PExt) (src : Bytes) (orphan : Option PB) (B : Int) (l0 : PLabel) (fuel : Nat) (r : Rd)
    (is : List Tree) (hs : l0.start ≤ B) (hB : ∀ t ∈ is, t.label.stop ≤ B) :
    ∀ c ∈ refDefLoop x src orphan fuel r l0 is [], c.kind = BK.linkRefDef ∨ orphan = some c ∨ Rem B l0 c := by
  apply refDefLoop_ind x src orphan
    (fun l is => l.kind = l0.kind ∧ l.stop = l0.stop ∧ l.n = l0.n ∧ l.start ≤ B ∧ ∀ t ∈ is, t.label.stop ≤ B)
    (fun c => c.kind = BK.linkRefDef ∨ orphan = some c ∨ Rem B l0 c)
  · intro l is pos fc hl hn
    refine ⟨hl.1, hl.2.1, hl.2.2.1, ?_, fun t ht => hl.2.2.2.2 t (List.mem_of_mem_drop ht)⟩
    have := nodeIndex_lt hn hl.2.2.2.2
    show (pos : Int) ≤ B
    omega
  · intro l is hl
    exact Or.inr (Or.inr ⟨hl.1, hl.2.1, hl.2.2.1, hl.2.2.2.1, rfl⟩)
  · intro s e kids
    exact Or.inl rfl
  · intro o ho
    exact Or.inr (Or.inl ho)
  · exact ⟨rfl, rfl, rfl, hs, hB⟩
  · intro c hc; cases hc

end CM.Proofs.Shp
