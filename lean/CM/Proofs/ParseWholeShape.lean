import CM.Proofs.BlocksGrammarSpec
import CM.Proofs.RefKeysParse
import CM.Proofs.InlExport
/-
Whole-`Parse` theorems, part 1: **the shape of block-phase trees that the inline-phase theorems ask for**
(`InlH.rewriteE_no_unparsed`, `InlH.rewriteE_inline_kinds`: hypotheses `hroot`, `hflat`, `hkinds`), from the node
grammar `PBGrammar` of the block phase.

* `InlShape t`: at every inline node `u` of `t`: no Unparsed node below `u`, and `u` is an Unparsed node or has an inline
  kind of the library (≤ 17).
* `inlShape_pbToTree`: `PBGrammar b → InlShape (pbToTree b)`.
* `blockphase_inline_shape`: for every root delivered by `drain (blocksLP x) fuel (memParser inp) []`.
-/
namespace CM.Proofs.PW
open CM CM.Model CM.Gen CM.Spec
open CM.Proofs.BT CM.Proofs.BG CM.Proofs.InlH

/-- What the inline-phase theorems ask of one inline node of a block-phase tree. -/
def InlNodeOK (u : Tree) : Prop :=
  u.label.isBlock = false →
    (∀ v ∈ T.nodesL u.children, T.isI v IK.unparsed = false) ∧ (T.isI u IK.unparsed = true ∨ u.label.kind ≤ 17)

/-- … of all nodes of a tree. -/
def InlShape (t : Tree) : Prop := ∀ u ∈ T.nodes t, InlNodeOK u

theorem inlShape_of_parts (u : Tree) (h1 : InlNodeOK u) (h2 : ∀ v ∈ u.children, InlShape v) : InlShape u := by
  intro t ht
  rw [InlH.nodes_eq, List.mem_cons] at ht
  rcases ht with rfl | ht
  · exact h1
  · obtain ⟨v, hv, htv⟩ := InlH.mem_nodesL ht
    exact h2 v hv t htv

theorem kinds_le {K : List Nat} (hK : ∀ k ∈ K, k ≤ 18) {t : Tree} (h : inl K t = true) :
    t.label.isBlock = false ∧ t.label.kind ≤ 18 ∧ t.label.kind ∈ K ∧ t.children = [] := by
  unfold inl at h
  simp only [Bool.and_eq_true, Bool.not_eq_true', List.contains_iff_mem, List.isEmpty_iff] at h
  exact ⟨h.1.1, hK _ h.1.2, h.1.2, h.2⟩

/-- A leaf of one of the inline kinds (Unparsed included). -/
theorem inlShape_leaf {K : List Nat} (hK : ∀ k ∈ K, k ≤ 18) {t : Tree} (h : inl K t = true) : InlShape t := by
  obtain ⟨hb, hk, _, hc⟩ := kinds_le hK h
  apply inlShape_of_parts
  · intro _
    refine ⟨by rw [hc]; intro v hv; simp [T.nodesL] at hv, ?_⟩
    by_cases h18 : t.label.kind = 18
    · left
      unfold T.isI
      rw [hb, h18]; rfl
    · right; omega
  · rw [hc]; intro v hv; cases hv

/-- A leaf that is not Unparsed is not Unparsed. -/
theorem notUnp_leaf {K : List Nat} (hK : IK.unparsed ∉ K) {t : Tree} (h : inl K t = true) :
    ∀ v ∈ T.nodes t, T.isI v IK.unparsed = false := by
  unfold inl at h
  simp only [Bool.and_eq_true, Bool.not_eq_true', List.contains_iff_mem, List.isEmpty_iff] at h
  intro v hv
  rw [InlH.nodes_eq, h.2] at hv
  simp only [T.nodesL, List.mem_singleton] at hv
  subst hv
  unfold T.isI
  rw [h.1.1]
  simp only [Bool.not_false, Bool.true_and, beq_eq_false_iff_ne, ne_eq]
  intro hk
  exact hK (hk ▸ h.1.2)

/-- An inline node of kind `k ≤ 17` whose children are leaves of kinds in `K` (no Unparsed). -/
theorem inlShape_parent {K : List Nat} (hK : ∀ k ∈ K, k ≤ 18) (hU : IK.unparsed ∉ K) {t : Tree} (hk : t.label.kind ≤ 17)
    (hc : t.children.all (inl K) = true) : InlShape t := by
  rw [List.all_eq_true] at hc
  apply inlShape_of_parts
  · intro _
    refine ⟨?_, Or.inr hk⟩
    intro v hv
    obtain ⟨c, hcm, hvc⟩ := InlH.mem_nodesL hv
    exact notUnp_leaf hU (hc c hcm) v hvc
  · intro v hv
    exact inlShape_leaf hK (hc v hv)

theorem inlShape_leaves {K : List Nat} (hK : ∀ k ∈ K, k ≤ 18) {ts : List Tree} (h : ts.all (inl K) = true) :
    ∀ u ∈ ts, InlShape u := by
  rw [List.all_eq_true] at h
  exact fun u hu => inlShape_leaf hK (h u hu)

theorem inlShape_info {t : Tree} (h : infoOK t = true) : InlShape t := by
  unfold infoOK at h
  simp only [Bool.and_eq_true, Bool.not_eq_true', beq_iff_eq] at h
  exact inlShape_parent (K := [IK.text, IK.charRef]) (by decide) (by decide) (by rw [h.1.2]; decide) h.2

theorem inlShape_label {t : Tree} (h : labelOK t = true) : InlShape t := by
  unfold labelOK isInl at h
  simp only [Bool.and_eq_true, Bool.not_eq_true', beq_iff_eq] at h
  exact inlShape_parent (K := [IK.text, IK.indent]) (by decide) (by decide) (by rw [h.1.2]; decide) h.2

theorem inlShape_dest {k : Nat} (hk : k ≤ 17) {t : Tree} (h : destOK k t = true) : InlShape t := by
  unfold destOK isInl at h
  simp only [Bool.and_eq_true, Bool.not_eq_true', beq_iff_eq] at h
  exact inlShape_parent (K := [IK.text, IK.charRef, IK.indent]) (by decide) (by decide) (by rw [h.1.2]; exact hk) h.2

/-- The inline children of a block that satisfies the local grammar rule. -/
theorem inlines_inlShape {l : PLabel} {bs : List PB} {is : List Tree} (h : localOK l bs is = true) :
    ∀ u ∈ is, InlShape u := by
  have hi := ((localOK_iff l bs is).1 h).2
  rcases inlinesOK_cases hi with ⟨_, h0⟩ | ⟨_, hp⟩ | ⟨_, hc⟩ | ⟨_, hf⟩ | ⟨_, hh⟩ | ⟨_, hr⟩
  · subst h0; intro u hu; cases hu
  · exact inlShape_leaves (K := paraKinds) (by decide) hp
  · exact inlShape_leaves (K := codeKinds) (by decide) hc
  · cases is with
    | nil => intro u hu; cases hu
    | cons c rest =>
      simp only [fencedKids, Bool.and_eq_true, Bool.or_eq_true] at hf
      intro u hu
      rcases List.mem_cons.1 hu with rfl | hu
      · rcases hf.1 with hinfo | hcode
        · exact inlShape_info hinfo
        · exact inlShape_leaf (K := codeKinds) (by decide) hcode
      · exact inlShape_leaves (K := codeKinds) (by decide) hf.2 u hu
  · exact inlShape_leaves (K := htmlKinds) (by decide) hh
  · match is, hr with
    | [a, b], hr =>
      simp only [refDefKids, Bool.and_eq_true] at hr
      intro u hu
      simp only [List.mem_cons, List.mem_nil_iff, or_false] at hu
      rcases hu with rfl | rfl
      · exact inlShape_label hr.1
      · exact inlShape_dest (by decide) hr.2
    | [a, b, c], hr =>
      simp only [refDefKids, Bool.and_eq_true] at hr
      intro u hu
      simp only [List.mem_cons, List.mem_nil_iff, or_false] at hu
      rcases hu with rfl | rfl | rfl
      · exact inlShape_label hr.1.1
      · exact inlShape_dest (by decide) hr.1.2
      · exact inlShape_dest (by decide) hr.2

/-- **Block-phase trees that obey the node grammar have the shape the inline phase relies on.** -/
theorem inlShape_pbToTree : ∀ b : PB, PBGrammar b → InlShape (pbToTree b) := by
  apply PB.ind
  intro l bs is ih h
  have hloc := ((PBGrammar_mk l bs is).1 h)
  apply inlShape_of_parts
  · intro hb
    have : (pbToTree (.mk l bs is)).label.isBlock = true := rfl
    rw [this] at hb; cases hb
  · rw [pbToTree_children]
    split
    · exact inlines_inlShape hloc.1
    · intro v hv
      rw [List.mem_map] at hv
      obtain ⟨c, hc, rfl⟩ := hv
      exact ih c hc (hloc.2 c hc)

/-- The three hypotheses of `InlH.rewriteE_no_unparsed` / `InlH.rewriteE_inline_kinds` on a tree. -/
structure InlinePre (t : Tree) : Prop where
  hroot : T.isI t IK.unparsed = false
  hflat : ∀ u ∈ T.nodes t, u.label.isBlock = false → ∀ v ∈ T.nodesL u.children, T.isI v IK.unparsed = false
  hkinds : ∀ u ∈ T.nodes t, u.label.isBlock = false → T.isI u IK.unparsed = true ∨ u.label.kind ≤ 17

theorem inlinePre_pbToTree (b : PB) (h : PBGrammar b) : InlinePre (pbToTree b) where
  hroot := by
    unfold T.isI
    rw [(pbToTree_label b).1]; rfl
  hflat := fun u hu hb => (inlShape_pbToTree b h u hu hb).1
  hkinds := fun u hu hb => (inlShape_pbToTree b h u hu hb).2

/-- **1. Every root the block phase of `Parse` delivers satisfies the preconditions of the inline-phase theorems**:
    the root is not an Unparsed node, no inline node has an Unparsed descendant (Unparsed runs are direct inline
    children of blocks), and every inline node is an Unparsed run or has an inline kind ≤ 17. -/
theorem blockphase_inline_shape (x : PExt) (fuel : Nat) (inp : Bytes) :
    ∀ r ∈ (drain (blocksLP x) fuel (memParser inp) []).1,
      T.isI (pbToTree r.block) IK.unparsed = false ∧
      (∀ u ∈ T.nodes (pbToTree r.block), u.label.isBlock = false →
        ∀ v ∈ T.nodesL u.children, T.isI v IK.unparsed = false) ∧
      (∀ u ∈ T.nodes (pbToTree r.block), u.label.isBlock = false →
        T.isI u IK.unparsed = true ∨ u.label.kind ≤ 17) := by
  intro r hr
  have h := inlinePre_pbToTree r.block (drain_grammar_mem x fuel inp r hr).1
  exact ⟨h.hroot, h.hflat, h.hkinds⟩

/-- … and the same for the streaming parser (any reader script). -/
theorem blockphase_inline_shape_stream (x : PExt) (fuel : Nat) (rd : Reader) :
    ∀ r ∈ (drain (blocksLP x) fuel (newBlockParser rd) []).1, InlinePre (pbToTree r.block) :=
  fun r hr => inlinePre_pbToTree r.block (drain_grammar_stream x fuel rd r hr).1

/-! ### Non-vacuity -/

section Examples
open CM.Proofs.RK

/-- A document without link reference definitions (`decide +kernel` does not evaluate `collectTextNodes`): a heading, a
    fenced code block whose info string holds a character reference, a paragraph. -/
def pwDoc : Bytes := Bytes.ofString "# h\n\n```a&#65;b\ncode\n```\n\npara *x*\n"

-- three roots; the heading and the paragraph hold an Unparsed run (`hkinds`' first alternative), the code block holds
-- an InfoString with children Text, CharacterReference, Text
example : ((drain (blocksLP exX) (pwDoc.length + 8) (memParser pwDoc) []).1).map
    (fun r => ((T.nodes (pbToTree r.block)).map (fun u => u.label.kind))) = [[3, 18], [6, 6, 1, 5, 1, 1], [1, 18]] := by
  decide +kernel

example : ∀ r ∈ (drain (blocksLP exX) (pwDoc.length + 8) (memParser pwDoc) []).1, InlinePre (pbToTree r.block) :=
  fun r hr => ⟨(blockphase_inline_shape exX _ pwDoc r hr).1, (blockphase_inline_shape exX _ pwDoc r hr).2.1,
    (blockphase_inline_shape exX _ pwDoc r hr).2.2⟩

-- the predicate rejects an Unparsed node below an inline node, and an unknown inline kind
example : ¬ InlShape (.node { isBlock := false, kind := IK.linkDest } [mkInline IK.unparsed 0 1]) := by
  intro h
  have := (h _ (InlH.self_mem_nodes _) rfl).1 (mkInline IK.unparsed 0 1) (by simp [T.nodesL, T.nodes, mkInline, Tree.children])
  revert this; decide
example : ¬ InlShape (mkInline 19 0 1) := by
  intro h
  have := (h _ (InlH.self_mem_nodes _) rfl).2
  revert this; decide

end Examples

end CM.Proofs.PW
