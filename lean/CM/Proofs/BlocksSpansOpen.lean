import CM.Proofs.BlocksSpansOps
/-
C02, block half — `openBlockLoop` / `openBlock`: the chain condition makes every container that `openBlock` closes at
the start of the line closable there; the new child starts at the cursor, after everything else.
-/
namespace CM.Proofs.BSp
open CM CM.Model CM.Gen CM.Proofs.BT

/-- The container is universal or closable (except for its last child) at the start of the line. -/
def ChainAt (p : LP) : Prop := Univ p.containerKind = true ∨ CEL p.lineStart p.container

theorem ChainAbove_zero (L : Int) (b : PB) : ChainAbove L 0 b := by cases b; trivial

theorem ChainAbove_at {L : Int} : ∀ (d : Nat) (root : PB) (j : Nat), ChainAbove L d root → j < d → ∀ b c,
    spineGet root j = some b → b.blocks.getLast? = some c → Univ b.kind = true ∨ CEL L b ∨ Univ c.kind = true := by
  intro d
  induction d with
  | zero => intro _ j _ hj; omega
  | succ d ih =>
    intro root j h hj b c hb hc
    obtain ⟨l, bs, is⟩ := root
    cases j with
    | zero =>
      rw [spineGet_zero] at hb
      cases hb
      simp only [PB.blocks] at hc
      rw [ChainAbove_succ hc] at h
      exact h.1
    | succ j =>
      rw [spineGet_succ] at hb
      cases hgl : bs.getLast? with
      | none => rw [hgl] at hb; cases hb
      | some c1 =>
        rw [hgl] at hb
        rw [ChainAbove_succ hgl] at h
        exact ih c1 j h.2 (by omega) b c hb hc

theorem ChainAbove_extend {L : Int} : ∀ (d : Nat) (root : PB), ChainAbove L d root →
    (∀ b c, spineGet root d = some b → b.blocks.getLast? = some c → Univ b.kind = true ∨ CEL L b ∨ Univ c.kind = true) →
    ChainAbove L (d + 1) root := by
  intro d
  induction d with
  | zero =>
    intro root _ h
    obtain ⟨l, bs, is⟩ := root
    cases hgl : bs.getLast? with
    | none => exact ChainAbove_none hgl
    | some c =>
      rw [ChainAbove_succ hgl]
      exact ⟨h _ c (spineGet_zero _) hgl, ChainAbove_zero _ _⟩
  | succ d ih =>
    intro root hc h
    obtain ⟨l, bs, is⟩ := root
    cases hgl : bs.getLast? with
    | none => exact ChainAbove_none hgl
    | some c1 =>
      rw [ChainAbove_succ hgl] at hc ⊢
      exact ⟨hc.1, ih c1 hc.2 (fun b c hb hg => h b c (by rw [spineGet_succ, hgl]; exact hb) hg)⟩

theorem CEL_replaceLast {L : Int} {g : PB → List PB} {b : PB} (h : CEL L b)
    (hg : ∀ c, b.blocks.getLast? = some c → ∀ c' ∈ g c, 0 ≤ c'.label.stop → c'.label.stop ≤ L) :
    CEL L (replaceLastFn g b) := by
  obtain ⟨l, bs, is⟩ := b
  simp only [replaceLastFn]
  cases hgl : bs.getLast? with
  | none => exact h
  | some c =>
    simp only []
    obtain ⟨c1, c2, c3⟩ := h
    refine ⟨c1, c2, ?_⟩
    intro c' hc' hcc
    rcases List.mem_append.mp hc' with hm | hm
    · exact c3 c' ((List.dropLast_sublist bs).subset hm) hcc
    · exact hg c hgl c' hm hcc

theorem kind_of_container {p : LP} {b : PB} (h : spineGet p.root p.depth = some b) : p.containerKind = b.kind := by
  simp only [LP.containerKind, container_of_spineGet h]

/-- The container is closable at the start of the line, when it is `CEL` there. -/
theorem container_closable {Q : ParaPred} {p : LP} (h : MI Q p) (hbl : Below Q p) (hc : CEL p.lineStart p.container) :
    PBSpans Q 0 p.lineStart p.container := by
  obtain ⟨b, hb, hbo, hbc⟩ := h.container_open
  rw [hbc] at hc ⊢
  obtain ⟨lo', hlo', hsp⟩ := spineGet_spans p.depth p.root 0 b h.base hb
  refine PBSpans_mono' hlo' (Int.le_refl _) (PBSpans_lower hsp hbo hc ?_)
  intro c hgl hco
  apply hbl c _ hco
  rw [spineGet_succ_eq, hb]; exact hgl

theorem openBlockLoop_MI {Q : ParaPred} {x : PExt} {kind : Nat} (hk : kind ≠ BK.listItem) : ∀ (fuel : Nat) (p : LP),
    TreeOK p → MI Q p → Below Q p → CloseParaOK Q x p.source p.lineStart →
    ChainAbove p.lineStart p.depth p.root → ChainAt p → p.depth < fuel →
    MI Q (LP.openBlockLoop x kind fuel p) ∧ Below Q (LP.openBlockLoop x kind fuel p) ∧
    ChainAbove (LP.openBlockLoop x kind fuel p).lineStart (LP.openBlockLoop x kind fuel p).depth (LP.openBlockLoop x kind fuel p).root ∧
    canContain (LP.openBlockLoop x kind fuel p).containerKind kind = true ∧
    (LP.openBlockLoop x kind fuel p).source = p.source ∧ (LP.openBlockLoop x kind fuel p).lineStart = p.lineStart ∧
    TreeOK (LP.openBlockLoop x kind fuel p) := by
  intro fuel
  induction fuel with
  | zero => intro p _ _ _ _ _ _ h; omega
  | succ fuel ih =>
    intro p ht hmi hbl hL habove hat hf
    unfold LP.openBlockLoop
    split
    · rename_i hcc
      exact ⟨hmi, hbl, habove, hcc, rfl, rfl, ht⟩
    · rename_i hcc
      split
      · rename_i hd
        have hd0 : p.depth = 0 := by simpa using hd
        rw [containerKind_zero p hd0, ht.root, doc_canContain kind hk] at hcc
        exact absurd rfl hcc
      · rename_i hd
        have hd0 : p.depth ≠ 0 := by simpa using hd
        obtain ⟨b, hbg, hbo, hbc⟩ := hmi.container_open
        have hkb := kind_of_container hbg
        -- the container is closable at the start of the line
        have hcel : CEL p.lineStart p.container := by
          rcases hat with hu | hc
          · exact absurd (Univ_canContain hu hk) hcc
          · exact hc
        have hB := container_closable hmi hbl hcel
        have cc := closeContainer_MI (x := x) hmi hd0 (Int.natCast_nonneg _) (lineStart_le_curPos p) hL hB
        have ccp := closeContainer_post x p p.lineStart ht
        -- the chain for the new state
        have hroot : (p.closeContainer x p.lineStart).root
            = spineModify (replaceLastFn (closeBlock x p.source p.lineStart)) p.root (p.depth - 1) := by
          rw [closeContainer_eq x p _ hd0]; rfl
        have hdep : (p.closeContainer x p.lineStart).depth = p.depth - 1 := by
          rw [closeContainer_eq x p _ hd0]
        have hls : (p.closeContainer x p.lineStart).lineStart = p.lineStart := by
          rw [closeContainer_eq x p _ hd0]
        have hsrc : (p.closeContainer x p.lineStart).source = p.source := by
          rw [closeContainer_eq x p _ hd0]
        have habove' : ChainAbove (p.closeContainer x p.lineStart).lineStart (p.closeContainer x p.lineStart).depth
            (p.closeContainer x p.lineStart).root := by
          rw [hroot, hdep, hls]
          apply ChainAbove_modify _ (fun c => by rw [replaceLastFn_label]; exact ⟨rfl, rfl⟩)
          exact ChainAbove_le _ _ _ (by omega) habove
        have hat' : ChainAt (p.closeContainer x p.lineStart) := by
          -- the parent of the old container
          obtain ⟨l1, hl1, _⟩ := hmi.sopen (p.depth - 1) (by omega)
          obtain ⟨b1, hb1, _⟩ := labelAt_eq_some hl1
          have hlast : b1.blocks.getLast? = some b := by
            have := spineGet_succ_eq p.root (p.depth - 1)
            rw [show p.depth - 1 + 1 = p.depth by omega, hbg, hb1] at this
            simpa using this.symm
          have hnew : spineGet (p.closeContainer x p.lineStart).root (p.closeContainer x p.lineStart).depth
              = some (replaceLastFn (closeBlock x p.source p.lineStart) b1) := by
            rw [hroot, hdep, spineGet_modify_self, hb1]; rfl
          have hk1 : (replaceLastFn (closeBlock x p.source p.lineStart) b1).kind = b1.kind := by
            simp only [PB.kind, replaceLastFn_label]
          unfold ChainAt
          rw [kind_of_container hnew, container_of_spineGet hnew, hk1, hls]
          rcases ChainAbove_at _ _ (p.depth - 1) habove (by omega) b1 b hb1 hlast with h1 | h1 | h1
          · exact Or.inl h1
          · right
            apply CEL_replaceLast h1
            intro c hgl c' hc' _
            rw [hlast] at hgl
            cases hgl
            have hbo' : b.isOpen = true := by rw [isOpen_iff]; exact hbo
            obtain ⟨lo', _, hsp⟩ := spineGet_spans p.depth p.root 0 b hmi.base hbg
            exact (closeBlock_hg (Int.natCast_nonneg _) (lineStart_le_curPos p) hL b lo'
              (fun _ => by rw [← hbc]; exact hB) hsp).2.2 hbo' c' hc'
          · rw [← hkb] at h1
            exact absurd (Univ_canContain h1 hk) hcc
        have r := ih (p.closeContainer x p.lineStart) ccp.ok cc.1 cc.2.below (by rw [hsrc, hls]; exact hL) habove' hat'
          (by rw [hdep]; omega)
        obtain ⟨r1, r2, r3, r4, r5, r6, r7⟩ := r
        exact ⟨r1, r2, r3, r4, by rw [r5, hsrc], by rw [r6, hls], r7⟩

theorem allClosed_of_last {Q : ParaPred} {po : Bool} {hi : Int} : ∀ {bs : List PB} {lo : Int}, PBSpansL Q po lo hi bs →
    (∀ c, bs.getLast? = some c → 0 ≤ c.label.stop) → allClosed bs := by
  intro bs
  induction bs with
  | nil => intro _ _ _ b hb; cases hb
  | cons c rest ih =>
    intro lo h hlast b hb
    rw [PBSpansL_cons] at h
    cases rest with
    | nil =>
      simp only [List.mem_singleton] at hb
      subst hb
      exact hlast b rfl
    | cons r rs =>
      rcases List.mem_cons.mp hb with rfl | hb
      · cases hco : b.isOpen
        · exact (isOpen_false_iff b).mp hco
        · have := (h.2.1 hco).1; cases this
      · exact ih h.2.2 (fun c' hc' => hlast c' (by simpa [List.getLast?_cons_cons] using hc')) b hb

/-- `openBlock`: the invariant, and the chain above the new container. -/
theorem openBlock_MI {Q Q' : ParaPred} {x : PExt} (p : LP) (kind : Nat) (setAttrs : PLabel → PLabel)
    (hattr : ∀ l, (setAttrs l).kind = l.kind ∧ (setAttrs l).start = l.start ∧ (setAttrs l).stop = l.stop)
    (hinv : Inv p) (hst : p.state ≤ 2) (hmi : MI Q p) (hbl : Below Q p) (hL : CloseParaOK Q x p.source p.lineStart)
    (habove : ChainAbove p.lineStart p.depth p.root)
    (hc : (kind ≠ BK.listItem ∧ ChainAt p) ∨ canContain p.containerKind kind = true)
    (hQQ : ∀ l is, Q l is = true → Q' l is = true) (hk4 : kind ≠ BK.setextHeading)
    (hkp : kind = BK.paragraph → ∀ l is, Q' l is = true) :
    MI Q' (p.openBlock x kind setAttrs) ∧ TipClosed (p.openBlock x kind setAttrs) ∧
    ChainAbove (p.openBlock x kind setAttrs).lineStart (p.openBlock x kind setAttrs).depth (p.openBlock x kind setAttrs).root ∧
    (Univ kind = true → ChainAt (p.openBlock x kind setAttrs)) ∧
    (p.openBlock x kind setAttrs).source = p.source ∧ (p.openBlock x kind setAttrs).lineStart = p.lineStart := by
  unfold LP.openBlock
  have hs : (p.state == stateDescending || p.state == stateDescendTerminated) = false := by
    simp only [stateDescending, stateDescendTerminated]
    have : p.state ≠ 3 := by omega
    have : p.state ≠ 4 := by omega
    simp [*]
  simp only [hs, Bool.false_eq_true, if_false]
  rw [markMatched_eq]
  let p1 : LP := { p with state := mm p.state }
  have h1 : TreeOK p1 := ⟨hinv.tree.root, hinv.tree.valid⟩
  have hmi1 : MI Q p1 := ⟨hmi.base, hmi.sopen, hmi.ile⟩
  have hbl1 : Below Q p1 := hbl
  -- the loop
  have loop : MI Q (LP.openBlockLoop x kind (p1.depth + 1) p1) ∧ Below Q (LP.openBlockLoop x kind (p1.depth + 1) p1) ∧
      ChainAbove (LP.openBlockLoop x kind (p1.depth + 1) p1).lineStart (LP.openBlockLoop x kind (p1.depth + 1) p1).depth
        (LP.openBlockLoop x kind (p1.depth + 1) p1).root ∧
      canContain (LP.openBlockLoop x kind (p1.depth + 1) p1).containerKind kind = true ∧
      (LP.openBlockLoop x kind (p1.depth + 1) p1).source = p.source ∧
      (LP.openBlockLoop x kind (p1.depth + 1) p1).lineStart = p.lineStart ∧
      TreeOK (LP.openBlockLoop x kind (p1.depth + 1) p1) := by
    rcases hc with ⟨hk, hat⟩ | hcc
    · exact openBlockLoop_MI hk (p1.depth + 1) p1 h1 hmi1 hbl1 hL habove hat (Nat.lt_succ_self _)
    · rw [openBlockLoop_of_canContain x kind _ p1 hcc]
      exact ⟨hmi1, hbl1, habove, hcc, rfl, rfl, h1⟩
  generalize LP.openBlockLoop x kind (p1.depth + 1) p1 = p2 at loop
  obtain ⟨hmi2, hbl2, habove2, hcc2, hsrc2, hls2, ht2⟩ := loop
  have cl := closeLastChild_MI (x := x) hmi2 hbl2 (by rw [hsrc2, hls2]; exact hL)
  have hck3 := closeLastChild_containerKind x p2 p2.lineStart ht2
  have hok3 := closeLastChild_ok x p2 p2.lineStart ht2
  have habove3 : ChainAbove (p2.closeLastChild x p2.lineStart).lineStart (p2.closeLastChild x p2.lineStart).depth
      (p2.closeLastChild x p2.lineStart).root := by
    show ChainAbove p2.lineStart p2.depth (spineReplaceLast _ p2.root p2.depth)
    rw [spineReplaceLast_eq]
    exact ChainAbove_modify _ (fun c => by rw [replaceLastFn_label]; exact ⟨rfl, rfl⟩) _ _ habove2
  have hsrc3 : (p2.closeLastChild x p2.lineStart).source = p.source := hsrc2
  have hls3 : (p2.closeLastChild x p2.lineStart).lineStart = p.lineStart := hls2
  generalize p2.closeLastChild x p2.lineStart = p3 at cl hck3 hok3 habove3 hsrc3 hls3
  obtain ⟨hmi3, htip3⟩ := cl
  -- the new child
  let child : PB := .mk (setAttrs { kind := kind, start := p3.lineStart + p3.i }) [] []
  let f : PB → PB := fun b => match b with | .mk l bs is => .mk l (bs ++ [child]) is
  have hf : ∀ c, (f c).label = c.label := appendChild_label child
  show MI Q' { p3 with root := spineModify f p3.root p3.depth, depth := p3.depth + 1 } ∧
    TipClosed { p3 with root := spineModify f p3.root p3.depth, depth := p3.depth + 1 } ∧
    ChainAbove p3.lineStart (p3.depth + 1) (spineModify f p3.root p3.depth) ∧
    (Univ kind = true → ChainAt { p3 with root := spineModify f p3.root p3.depth, depth := p3.depth + 1 }) ∧
    p3.source = p.source ∧ p3.lineStart = p.lineStart
  obtain ⟨b3, hb3, hbo3, hbc3⟩ := hmi3.container_open
  have hkb3 := kind_of_container hb3
  have hchild : child.label.kind = kind ∧ child.label.start = curPos p3 ∧ child.label.stop = -1 := by
    simp only [child, PB.label]
    exact ⟨(hattr _).1, (hattr _).2.1, (hattr _).2.2⟩
  have hget : spineGet (spineModify f p3.root p3.depth) (p3.depth + 1) = some child := by
    rw [spineGet_modify_add, hb3]
    obtain ⟨l, bs, is⟩ := b3
    show spineGet (PB.mk l (bs ++ [child]) is) 1 = some child
    rw [spineGet_succ]
    simp [spineGet_zero]
  have hself : spineGet (spineModify f p3.root p3.depth) p3.depth = some (f b3) := by
    rw [spineGet_modify_self, hb3]; rfl
  refine ⟨⟨?_, ?_, hmi3.ile⟩, ?_, ?_, ?_, hsrc3, hls3⟩
  · -- base
    show PBSpans Q' 0 (curPos p3) (spineModify f p3.root p3.depth)
    apply spineModify_spans f p3.depth p3.root 0 (PBSpans_mono hQQ _ (Int.le_refl _) (Int.le_refl _) hmi3.base)
      (fun j hj => hmi3.sopen j (by omega))
    intro b lo' hb hlo' hsp
    rw [hb3] at hb
    cases hb
    obtain ⟨l, bs, is⟩ := b3
    simp only [PB.label] at hbo3
    show PBSpans Q' lo' (curPos p3) (PB.mk l (bs ++ [child]) is)
    rw [PBSpans_mk, endOf_open hbo3] at hsp ⊢
    obtain ⟨a1, a2, a3, a4, a5, a6, a7⟩ := hsp
    have hac : allClosed bs := allClosed_of_last a5 (fun c hgl => htip3 c (by rw [spineGet_succ_eq, hb3]; exact hgl))
    refine ⟨a1, a2, a3, a4, ?_, ⟨Or.inl ?_, a7⟩⟩
    · rw [PBSpansL_snoc]
      refine ⟨PBSpansL_false_of_allClosed a5 hac, ?_, fun _ => by simp [hbo3]⟩
      have hple := pbLast_le a2 a5 hac
      have hno : child.label.stop < 0 := by rw [hchild.2.2]; omega
      show PBSpans Q' _ _ (PB.mk (setAttrs { kind := kind, start := p3.lineStart + p3.i }) [] [])
      simp only [PB.label] at hchild hno
      rw [PBSpans_mk, endOf_open hno, hchild.2.1]
      refine ⟨hple, Int.le_refl _, Int.le_refl _, InlsOK_nil _ _, PBSpansL_nil _ _ _ _, Or.inr rfl, fun _ => ?_⟩
      rw [hchild.1]
      exact ⟨hk4, fun hk1 => hkp hk1 _ _⟩
    · rw [hck3] at hkb3
      have : l.kind = p2.containerKind := hkb3.symm
      rw [this]
      exact canContain_container hcc2
  · -- the spine is open
    intro j hj
    rcases Nat.lt_or_ge j (p3.depth + 1) with hlt | hge
    · obtain ⟨l, hl, ho⟩ := hmi3.sopen j (by omega)
      refine ⟨l, ?_, ho⟩
      show labelAt (spineModify f p3.root p3.depth) j = some l
      rw [labelAt_modify_le f hf _ _ _ (by omega)]
      exact hl
    · have hj' : j = p3.depth + 1 := by
        have : j ≤ p3.depth + 1 := hj
        omega
      subst hj'
      refine ⟨child.label, ?_, by rw [hchild.2.2]; omega⟩
      show labelAt (spineModify f p3.root p3.depth) (p3.depth + 1) = _
      rw [labelAt_of_spineGet hget]
  · -- the new container has no children
    intro c hc
    have : spineGet (spineModify f p3.root p3.depth) (p3.depth + 1 + 1) = none := by
      rw [spineGet_succ_eq, hget]; rfl
    rw [this] at hc
    cases hc
  · -- the chain
    apply ChainAbove_extend
    · exact ChainAbove_modify f (fun c => by rw [hf]; exact ⟨rfl, rfl⟩) _ _ habove3
    · intro b c hb hgl
      rw [hself] at hb
      cases hb
      obtain ⟨l, bs, is⟩ := b3
      have hc : c = child := by
        simp only [f, PB.blocks] at hgl
        simpa using hgl.symm
      subst hc
      by_cases hk10 : kind = BK.listItem
      · right; right
        simp only [PB.kind]
        rw [hchild.1, hk10]; rfl
      · left
        have : (PB.mk l (bs ++ [child]) is).kind = p2.containerKind := by
          rw [← hck3, hkb3]; rfl
        show Univ (PB.mk l (bs ++ [child]) is).kind = true
        rw [this]
        exact canContain_Univ hcc2 hk10
  · intro hu
    left
    have : ({ p3 with root := spineModify f p3.root p3.depth, depth := p3.depth + 1 } : LP).containerKind = child.kind :=
      kind_of_container (p := { p3 with root := spineModify f p3.root p3.depth, depth := p3.depth + 1 }) hget
    rw [this]
    simp only [PB.kind]
    rw [hchild.1]; exact hu

end CM.Proofs.BSp
