import CM.Proofs.BlocksSpansOpen
/-
C02, block half — `appendInline`, label modifications of the container, `collectInline`, closing a leaf container at
the cursor (`endBlock`, the terminated descent), closing the setext heading.
-/
namespace CM.Proofs.BSp
open CM CM.Model CM.Gen CM.Proofs.BT

/-- The always-false paragraph predicate: "no open paragraph". -/
def QF : ParaPred := fun _ _ => false

theorem closeParaOK_QF (x : PExt) (src : Bytes) (e : Int) : CloseParaOK QF x src e := by
  intro l is h
  cases h

/-- A block without block children that is not an open paragraph: the paragraph predicate is irrelevant. -/
theorem PBSpans_leaf_Q {Q Q' : ParaPred} {lo hi : Int} {l : PLabel} {is : List Tree} (hk : l.kind ≠ BK.paragraph)
    (h : PBSpans Q lo hi (.mk l [] is)) : PBSpans Q' lo hi (.mk l [] is) := by
  rw [PBSpans_mk] at h ⊢
  obtain ⟨a1, a2, a3, a4, a5, a6, a7⟩ := h
  exact ⟨a1, a2, a3, a4, PBSpansL_nil _ _ _ _, a6, fun ho => ⟨(a7 ho).1, fun hk' => absurd hk' hk⟩⟩

/-! ### composition of spine modifications -/

theorem spineModify_comp (f g : PB → PB) : ∀ (d : Nat) (root : PB) (k : Nat),
    spineModify f (spineModify g root (d + k)) d = spineModify (fun b => f (spineModify g b k)) root d := by
  intro d
  induction d with
  | zero => intro root k; rw [Nat.zero_add, spineModify_zero, spineModify_zero]
  | succ d ih =>
    intro root k
    obtain ⟨l, bs, is⟩ := root
    have e : d + 1 + k = (d + k) + 1 := by omega
    rw [e, spineModify_succ]
    cases hgl : bs.getLast? with
    | none => simp only []; rw [spineModify_succ, spineModify_succ, hgl]
    | some c =>
      simp only []
      rw [spineModify_succ, spineModify_succ, hgl]
      simp only [List.getLast?_append, List.getLast?_singleton, Option.some_or, List.dropLast_concat]
      rw [ih c k]

/-! ### closing with a general replacement function -/

theorem closeAt_spans_gen {Q : ParaPred} {C : Int} (g : PB → List PB) (root : PB) (d : Nat)
    (hbase : PBSpans Q 0 C root) (hopen : SpineOpen root d)
    (hg : ∀ c lo', spineGet root (d + 1) = some c → 0 ≤ lo' → PBSpans Q lo' C c →
      PBSpansL Q true lo' C (g c) ∧ allClosed (g c)) :
    PBSpans Q 0 C (spineReplaceLast g root d) ∧ SpineOpen (spineReplaceLast g root d) d ∧
    (∀ c, spineGet (spineReplaceLast g root d) (d + 1) = some c → 0 ≤ c.label.stop) := by
  refine ⟨?_, ?_, ?_⟩
  · apply replaceLastG_spans _ root d 0 hbase hopen
    intro c lo' hc hlo' hsp
    exact (hg c lo' hc hlo' hsp).1
  · intro j hj
    obtain ⟨l, hl, ho⟩ := hopen j hj
    refine ⟨l, ?_, ho⟩
    rw [spineReplaceLast_eq, labelAt_modify_le _ (replaceLastFn_label _) _ _ _ hj]
    exact hl
  · intro c' hc'
    obtain ⟨b, c, hb, hgl, hmem⟩ := replaceLast_tip hc'
    obtain ⟨lo', hlo', hbs⟩ := spineGet_spans d root 0 b hbase hb
    have hbo := hopen.open_of_get (Nat.le_refl _) hb
    obtain ⟨l, bs, is⟩ := b
    simp only [PB.label] at hbo
    simp only [PB.blocks] at hgl hmem
    rw [PBSpans_mk, endOf_open hbo] at hbs
    obtain ⟨e1, hinit, hc, _, hge⟩ := getLast_split hgl hbs.2.2.2.2.1
    rcases List.mem_append.mp hmem with hm | hm
    · exact allClosed_of_false hinit c' hm
    · have hcg : spineGet root (d + 1) = some c := by rw [spineGet_succ_eq, hb]; exact hgl
      exact (hg c _ hcg (by have := hbs.1; omega) hc).2 c' hm

/-- Closing a leaf block (no block children, neither paragraph nor setext heading) at `e`. -/
theorem closeLeaf_hg {Q : ParaPred} {x : PExt} {src : Bytes} {e : Int} (he : 0 ≤ e) (c : PB) (lo' : Int)
    (hbs : c.blocks = []) (hk1 : c.kind ≠ BK.paragraph) (h : PBSpans Q lo' e c) :
    PBSpansL Q true lo' e (closeBlock x src e c) ∧ allClosed (closeBlock x src e c) := by
  obtain ⟨l, bs, is⟩ := c
  simp only [PB.blocks] at hbs
  subst hbs
  have h1 : PBSpans QF lo' e (.mk l [] is) := PBSpans_leaf_Q hk1 h
  have h2 := closeBlock_spans (x := x) (src := src) he (closeParaOK_QF x src e) _ h1
  exact ⟨PBSpansL_po (PBSpansL_closed_Q h2), allClosed_of_false h2⟩

/-- `closeContainer` (depth ≥ 1) with a general argument for the container. -/
theorem closeContainer_MI_gen {Q : ParaPred} {x : PExt} {p : LP} {e : Int} (h : MI Q p) (hd : p.depth ≠ 0)
    (hg : ∀ lo', 0 ≤ lo' → PBSpans Q lo' (curPos p) p.container →
      PBSpansL Q true lo' (curPos p) (closeBlock x p.source e p.container) ∧ allClosed (closeBlock x p.source e p.container)) :
    MI Q (p.closeContainer x e) ∧ TipClosed (p.closeContainer x e) := by
  rw [closeContainer_eq x p e hd]
  obtain ⟨b, hbg, _, hbc⟩ := h.container_open
  have hd1 : p.depth - 1 + 1 = p.depth := by omega
  have := closeAt_spans_gen (closeBlock x p.source e) p.root (p.depth - 1) h.base (h.sopen.mono (by omega))
    (fun c lo' hc hlo' hsp => by
      rw [hd1, hbg] at hc
      cases hc
      rw [← hbc] at hsp ⊢
      exact hg lo' hlo' hsp)
  exact ⟨⟨this.1, this.2.1, h.ile⟩, this.2.2⟩

/-- Closing a leaf container at the cursor. -/
theorem closeContainer_leaf {Q : ParaPred} {x : PExt} {p : LP} (h : MI Q p) (hd : p.depth ≠ 0)
    (hk : isContainerKind p.containerKind = false) (hk1 : p.containerKind ≠ BK.paragraph) :
    MI Q (p.closeContainer x (curPos p)) ∧ TipClosed (p.closeContainer x (curPos p)) := by
  apply closeContainer_MI_gen h hd
  intro lo' _ hsp
  obtain ⟨b, hbg, _, hbc⟩ := h.container_open
  have hkb := kind_of_container hbg
  rw [hbc] at hsp ⊢
  apply closeLeaf_hg (curPos_nonneg p) b lo' _ (by rw [← hkb]; exact hk1) hsp
  obtain ⟨l, bs, is⟩ := b
  rw [PBSpans_mk] at hsp
  rcases hsp.2.2.2.2.2.1 with h6 | h6
  · rw [hkb] at hk
    simp only [PB.kind, PB.label] at hk
    rw [hk] at h6; cases h6
  · exact h6

theorem closeContainer_src (x : PExt) (p : LP) (e : Int) :
    (p.closeContainer x e).source = p.source ∧ (p.closeContainer x e).lineStart = p.lineStart ∧
    (p.closeContainer x e).line = p.line ∧ (p.closeContainer x e).i = p.i := by
  unfold LP.closeContainer
  split <;> exact ⟨rfl, rfl, rfl, rfl⟩

/-! ### `appendInline` -/

theorem appendInline_root (p : LP) (t : Tree) :
    (p.appendInline t).root = spineModify (fun b => match b with | .mk l bs is => .mk l bs (is ++ [t])) p.root p.depth := rfl

theorem appendFn_label (t : Tree) (c : PB) :
    ((fun b => match b with | PB.mk l bs is => PB.mk l bs (is ++ [t])) c).label = c.label := by
  obtain ⟨l, bs, is⟩ := c; rfl

theorem appendFn_blocks (t : Tree) (c : PB) :
    ((fun b => match b with | PB.mk l bs is => PB.mk l bs (is ++ [t])) c).blocks = c.blocks := by
  obtain ⟨l, bs, is⟩ := c; rfl

/-- A modification of the container that keeps its block children keeps what hangs below it. -/
theorem spineGet_modify_below (f : PB → PB) (hf : ∀ c, (f c).blocks = c.blocks) (root : PB) (d : Nat) :
    spineGet (spineModify f root d) (d + 1) = spineGet root (d + 1) := by
  rw [spineGet_succ_eq, spineGet_succ_eq, spineGet_modify_self]
  cases spineGet root d with
  | none => rfl
  | some b => simp [hf]

theorem appendInline_MI {Q : ParaPred} (p : LP) (t : Tree) (C0 : Int) (h0 : PBSpans Q 0 C0 p.root)
    (h1 : C0 ≤ t.label.start) (h2 : t.label.start ≤ t.label.stop) (h3 : t.label.stop ≤ curPos p) (hmi : MI Q p)
    (hQ : p.containerKind = BK.paragraph → ∀ l is, Q l is = true) : MI Q (p.appendInline t) := by
  refine ⟨?_, ?_, hmi.ile⟩
  · show PBSpans Q 0 (curPos p) (p.appendInline t).root
    rw [appendInline_root]
    apply spineModify_spans _ p.depth p.root 0 hmi.base (fun j hj => hmi.sopen j (by omega))
    intro b lo' hb _ hsp
    have hbo := hmi.sopen.open_of_get (Nat.le_refl _) hb
    have hkb := kind_of_container hb
    obtain ⟨lo'', _, hsp0⟩ := spineGet_spans p.depth p.root 0 b h0 hb
    obtain ⟨l, bs, is⟩ := b
    simp only [PB.label] at hbo
    show PBSpans Q lo' (curPos p) (PB.mk l bs (is ++ [t]))
    rw [PBSpans_mk, endOf_open hbo] at hsp hsp0 ⊢
    obtain ⟨a1, a2, a3, a4, a5, a6, a7⟩ := hsp
    obtain ⟨b1, b2, b3, b4, _⟩ := hsp0
    have hl := inlLast_le b2 b4
    refine ⟨a1, a2, a3, InlsOK_snoc b4 (by omega) h2 _ h3 (by omega), a5, a6, fun ho => ⟨(a7 ho).1, fun hk1 => ?_⟩⟩
    exact hQ (by rw [hkb]; exact hk1) _ _
  · intro j hj
    obtain ⟨l, hl, ho⟩ := hmi.sopen j hj
    exact ⟨l, by rw [appendInline_label p t j hj]; exact hl, ho⟩

theorem appendInline_below {Q : ParaPred} (p : LP) (t : Tree) (h : Below Q p) : Below Q (p.appendInline t) := by
  intro c hc ho
  have : spineGet (p.appendInline t).root (p.depth + 1) = spineGet p.root (p.depth + 1) := by
    rw [appendInline_root]; exact spineGet_modify_below _ (appendFn_blocks t) _ _
  rw [show (p.appendInline t).depth = p.depth from rfl, this] at hc
  exact h c hc ho

theorem appendInline_tip (p : LP) (t : Tree) (h : TipClosed p) : TipClosed (p.appendInline t) := by
  intro c hc
  have : spineGet (p.appendInline t).root (p.depth + 1) = spineGet p.root (p.depth + 1) := by
    rw [appendInline_root]; exact spineGet_modify_below _ (appendFn_blocks t) _ _
  rw [show (p.appendInline t).depth = p.depth from rfl, this] at hc
  exact h c hc

theorem appendInline_above (p : LP) (t : Tree) (h : ChainAbove p.lineStart p.depth p.root) :
    ChainAbove (p.appendInline t).lineStart (p.appendInline t).depth (p.appendInline t).root := by
  show ChainAbove p.lineStart p.depth (p.appendInline t).root
  rw [appendInline_root]
  exact ChainAbove_modify _ (fun c => by rw [appendFn_label]; exact ⟨rfl, rfl⟩) _ _ h

/-! ### relabelling the container -/

theorem setLabel_blocks (f : PLabel → PLabel) (c : PB) : (c.setLabel f).blocks = c.blocks := by cases c; rfl

theorem PBSpans_setLabel_Q {Q : ParaPred} {f : PLabel → PLabel} (hk : ∀ l, (f l).kind = l.kind) (hs : ∀ l, (f l).start = l.start)
    (he : ∀ l, (f l).stop = l.stop) {lo hi : Int} {b : PB} (hnp : b.kind ≠ BK.paragraph ∨ ∀ l is, Q l is = true)
    (h : PBSpans Q lo hi b) : PBSpans Q lo hi (b.setLabel f) := by
  obtain ⟨l, bs, is⟩ := b
  simp only [PB.setLabel]
  rw [PBSpans_mk] at h ⊢
  have e1 : endOf hi (f l) = endOf hi l := by simp only [endOf, he]
  rw [e1, hs, he]
  obtain ⟨a1, a2, a3, a4, a5, a6, a7⟩ := h
  refine ⟨a1, a2, a3, a4, a5, ⟨?_, ?_⟩⟩
  · rw [hk]; exact a6
  · intro ho; rw [he] at ho; rw [hk]
    refine ⟨(a7 ho).1, fun hk1 => ?_⟩
    rcases hnp with hnp | hnp
    · exact absurd hk1 hnp
    · exact hnp _ _

/-- Relabelling the container (kind, start, stop unchanged). -/
theorem modifyLabel_MI {Q : ParaPred} (p : LP) (f : PLabel → PLabel) (hk : ∀ l, (f l).kind = l.kind)
    (hs : ∀ l, (f l).start = l.start) (he : ∀ l, (f l).stop = l.stop) (hmi : MI Q p)
    (hnp : p.containerKind ≠ BK.paragraph ∨ ∀ l is, Q l is = true) :
    MI Q (p.modifyContainer (PB.setLabel f)) := by
  refine ⟨?_, ?_, hmi.ile⟩
  · show PBSpans Q 0 (curPos p) (spineModify (PB.setLabel f) p.root p.depth)
    apply spineModify_spans _ p.depth p.root 0 hmi.base (fun j hj => hmi.sopen j (by omega))
    intro b lo' hb _ hsp
    have hkb := kind_of_container hb
    exact PBSpans_setLabel_Q hk hs he (by rw [← hkb]; exact hnp) hsp
  · intro j hj
    have hj : j ≤ p.depth := hj
    show ∃ l, labelAt (spineModify (PB.setLabel f) p.root p.depth) j = some l ∧ l.stop < 0
    rcases Nat.lt_or_ge j p.depth with hlt | hge
    · obtain ⟨l, hl, ho⟩ := hmi.sopen j hj
      exact ⟨l, by rw [labelAt_modify_lt _ _ _ _ hlt]; exact hl, ho⟩
    · have : j = p.depth := by omega
      subst this
      obtain ⟨l, hl, ho⟩ := hmi.sopen p.depth hj
      obtain ⟨b, hb, e⟩ := labelAt_eq_some hl
      refine ⟨f l, ?_, by rw [he]; exact ho⟩
      simp only [labelAt, spineGet_modify_self, hb, Option.map_some, setLabel_label, e]

theorem modifyLabel_below {Q : ParaPred} (p : LP) (f : PLabel → PLabel) (h : Below Q p) :
    Below Q (p.modifyContainer (PB.setLabel f)) := by
  intro c hc ho
  have : spineGet (spineModify (PB.setLabel f) p.root p.depth) (p.depth + 1) = spineGet p.root (p.depth + 1) :=
    spineGet_modify_below _ (setLabel_blocks f) _ _
  have hc' : spineGet (spineModify (PB.setLabel f) p.root p.depth) (p.depth + 1) = some c := hc
  rw [this] at hc'
  exact h c hc' ho

theorem modifyLabel_tip (p : LP) (f : PLabel → PLabel) (h : TipClosed p) : TipClosed (p.modifyContainer (PB.setLabel f)) := by
  intro c hc
  have : spineGet (spineModify (PB.setLabel f) p.root p.depth) (p.depth + 1) = spineGet p.root (p.depth + 1) :=
    spineGet_modify_below _ (setLabel_blocks f) _ _
  have hc' : spineGet (spineModify (PB.setLabel f) p.root p.depth) (p.depth + 1) = some c := hc
  rw [this] at hc'
  exact h c hc'

theorem modifyLabel_above (p : LP) (f : PLabel → PLabel) (hk : ∀ l, (f l).kind = l.kind) (he : ∀ l, (f l).stop = l.stop)
    (h : ChainAbove p.lineStart p.depth p.root) :
    ChainAbove p.lineStart p.depth (p.modifyContainer (PB.setLabel f)).root := by
  show ChainAbove p.lineStart p.depth (spineModify (PB.setLabel f) p.root p.depth)
  exact ChainAbove_modify _ (fun c => by rw [setLabel_label]; exact ⟨hk _, he _⟩) _ _ h

theorem modifyLabel_at {Q : ParaPred} (p : LP) (f : PLabel → PLabel) (hk : ∀ l, (f l).kind = l.kind) (hs : ∀ l, (f l).start = l.start)
    (hmi : MI Q p) (h : ChainAt p) : ChainAt (p.modifyContainer (PB.setLabel f)) := by
  obtain ⟨b, hb, _, hbc⟩ := hmi.container_open
  have hnew : spineGet (p.modifyContainer (PB.setLabel f)).root (p.modifyContainer (PB.setLabel f)).depth = some (b.setLabel f) := by
    show spineGet (spineModify (PB.setLabel f) p.root p.depth) p.depth = _
    rw [spineGet_modify_self, hb]; rfl
  unfold ChainAt at h ⊢
  rw [kind_of_container hnew, container_of_spineGet hnew]
  rw [kind_of_container hb, hbc] at h
  obtain ⟨l, bs, is⟩ := b
  rcases h with h | h
  · left; simp only [PB.setLabel, PB.kind, PB.label, hk]; exact h
  · right
    obtain ⟨c1, c2, c3⟩ := h
    exact ⟨by rw [hs]; exact c1, by rw [hs]; exact c2, c3⟩

theorem setContainerIndent_eq (p : LP) (n : Int) (h1 : 1 ≤ p.state) (h2 : p.state ≤ 2)
    (hk : p.containerKind = BK.listItem ∨ p.containerKind = BK.fencedCode) :
    p.setContainerIndent n = p.modifyContainer (PB.setLabel fun l => { l with indent := n }) := by
  unfold LP.setContainerIndent
  have hs : (p.state == stateOpening || p.state == stateDescending || p.state == stateDescendTerminated) = false := by
    simp only [stateOpening, stateDescending, stateDescendTerminated]
    have : p.state ≠ 0 := by omega
    have : p.state ≠ 3 := by omega
    have : p.state ≠ 4 := by omega
    simp [*]
  simp only [hs, Bool.false_eq_true, if_false]
  have hk' : (p.containerKind != BK.listItem && p.containerKind != BK.fencedCode) = false := by
    rcases hk with hk | hk <;> simp [hk]
  simp only [hk', Bool.false_eq_true, if_false]

end CM.Proofs.BSp
