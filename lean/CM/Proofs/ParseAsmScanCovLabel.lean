import CM.Proofs.ParseAsmScanCovStrip3
import CM.Proofs.RefDefCoverCollect2
/-
C03, inline half — the shared prerequisite of the fields `LinkCover.label`, `TokCover.html`, `LinkCover.inline`:
**the coverage of `collectTextNodes` on the containers of block-phase trees that are paragraphs or setext headings**, for any
fuel the inline phase uses.  Route: such a container meets the block phase's own reader context `RDC.Ctx2`
(`ContF.ctx2`), so `RDC.collect_spec` (`RefDefCoverCollect2`, proved for the link reference definitions) applies.
NOT covered: ATX headings (their only run does not end with a line ending, `RDC.NodeX` fails; that case needs the port of
`RDC.collect_spec` to `PSc.RC2`).
-/
namespace CM.Proofs.PSc
open CM CM.Model CM.Gen CM.Spec CM.Model.Inl
open CM.Proofs CM.Proofs.PW CM.Proofs.RK CM.Proofs.InlH CM.Proofs.PS CM.Proofs.PSh CM.Proofs.RDS CM.Proofs.RDC

/-- the paragraph shape of `ContF.shape` -/
def ParaShape (src : Bytes) (L : List Tree) : Prop :=
  (∀ t ∈ L, NodeQ src t) ∧ (∀ t ∈ L, isIndent t = false → EolEnd src t.label.stop ∨ AtEnd src t.label.stop)

theorem isBlock_of_kind {t : Tree} (h : isIndent t = true ∨ isUnparsed t = true) : t.label.isBlock = false := by
  rcases h with h | h
  · unfold isIndent Node.isI at h
    simp only [Bool.and_eq_true, Bool.not_eq_true'] at h
    exact h.1
  · exact (isUnparsed_facts h).1

/-- **A paragraph / setext-heading container of a block-phase tree meets the block phase's reader context.** -/
theorem ContF.ctx2 {src : Bytes} {p : Label × List Tree} (h : ContF src p) (hp : ParaShape src p.2) : Ctx2 src p.2 := by
  have hs := h.span
  refine ⟨⟨h.sorted, fun t ht => ?_, fun t ht => (h.kids t ht).1⟩, fun t ht => ⟨(h.leaf t ht).1, isBlock_of_kind (h.leaf t ht).2⟩,
    fun t ht => (h.leaf t ht).2, fun t ht => ?_⟩
  · have hq := hp.1 t ht
    have hk := h.kids t ht
    refine ⟨?_, by omega, fun hi => (hq.ind hi).1, fun hi => (hq.run hi).2.1⟩
    cases hi : isIndent t with
    | true => have := (hq.ind hi).1; omega
    | false => exact (hq.run hi).1
  · have hq := hp.1 t ht
    have hk := h.kids t ht
    refine ⟨fun hi => ?_, fun hi => ?_⟩
    · have := (hq.ind hi).2
      rw [List.getD_eq_getElem?_getD, this]; rfl
    · have hlt := (hq.run hi).1
      rcases hp.2 t ht hi with he | ha
      · right
        rcases he.2 with h0 | h1
        · omega
        · exact h1
      · left
        rcases ha with ha | ha
        · exact ha
        · omega

/-- `RDC.collect_ok` for any fuel that is at least `rdFuel`. -/
theorem collect_ok_fuel {src : Bytes} {is : List Tree} (hc : Ctx2 src is) (ext : CM.Model.Ext) (a b k : Nat) (esc : Bool)
    (f : Nat) (hf : rdFuel src is ≤ f)
    (hstop : esc = true → StopOK src is b) (hin : a < b → InNode is a) :
    PcFin src is a b (collectTextNodes ext src b k esc f (newReader is a) a []) := by
  by_cases hab : a < b
  · obtain ⟨kk, t, rest, hd, hi, h1, h2⟩ := hin hab
    have htm : t ∈ is := List.mem_of_mem_drop (by rw [hd]; exact List.mem_cons_self)
    have hcn : (newReader is a).currentNode = (some t, ({ spans := t :: rest, pos := a } : Rd)) := by
      have := nodeIndex_of_drop hc.base kk hd h1 h2
      rw [currentNode_some_eq (r := newReader is a) (i := kk) this]
      simp only [newReader, hd, List.head?_cons]
    rw [collect_congr, hcn]
    have hri : RI src is ({ spans := t :: rest, pos := a } : Rd) := by
      refine ⟨⟨kk, hd.symm⟩, ?_, ?_, ?_⟩
      · intro t' rest' e
        have e' : t :: rest = t' :: rest' := e
        cases e'
        exact ⟨h1, h2⟩
      · intro _ _ _ _
        show 0 < 3
        omega
      · intro e
        have e' : t :: rest = [] := e
        cases e'
    exact collect_spec hc hstop f _ a [] (CPre.here hri) (Nat.lt_of_lt_of_le (mu_lt_fuel hri) hf) (Pc.nil src is a b)
  · obtain ⟨f0, hf0⟩ := CM.Proofs.rdFuel_pos src is
    obtain ⟨f', rfl⟩ : ∃ f', f = f' + 1 := ⟨f - 1, by omega⟩
    rw [collectTextNodes.eq_2]
    have : (!decide ((newReader is a).pos < b)) = true := by
      show (!decide (a < b)) = true
      simp only [Bool.not_eq_eq_eq_not, Bool.not_true, decide_eq_false_iff_not]; exact hab
    rw [if_pos this, if_neg hab]
    exact ⟨CM.Proofs.BSp.InlsOK_nil _ _, fun j j1 j2 _ _ => by omega⟩

/-- **The coverage of `collectTextNodes` on every paragraph / setext-heading container of every root the block phase
    delivers**: the pieces of `[a, b)`, read from any suffix of the container's inline children with any fuel that is at
    least `rdFuel`, lie in order inside `[a, b]` and cover every byte of `[a, b)` that the inline children cover and that
    needs to be covered (`RDC.PcFin`). -/
theorem blockphase_collect_cov (x : PExt) (fuel : Nat) (inp : Bytes) :
    ∀ r ∈ (drain (blocksLP x) fuel (memParser inp) []).1, ∀ p ∈ conts (pbToTree r.block), p.1.kind ≠ BK.atxHeading →
      ∀ (ext : CM.Model.Ext) (u a b k : Nat) (esc : Bool) (f : Nat), rdFuel r.source (p.2.drop u) ≤ f →
        (esc = true → StopOK r.source (p.2.drop u) b) → (a < b → InNode (p.2.drop u) a) →
        PcFin r.source (p.2.drop u) a b
          (collectTextNodes ext r.source b k esc f (newReader (p.2.drop u) a) a []) := by
  intro r hr p hp hk ext u a b k esc f hf hstop hin
  have hF := blockphase_contF x fuel inp r hr p hp
  have hps : ParaShape r.source p.2 := by
    rcases hF.shape with ⟨h1, _, h3⟩ | ⟨_, _, _, h4⟩
    · exact ⟨h1, h3⟩
    · exact absurd h4 hk
  exact collect_ok_fuel ((hF.ctx2 hps).drop u) ext a b k esc f hf hstop hin

end CM.Proofs.PSc

#print axioms CM.Proofs.PSc.ContF.ctx2
#print axioms CM.Proofs.PSc.collect_ok_fuel
#print axioms CM.Proofs.PSc.blockphase_collect_cov
