import CM.Proofs.InlCoverLink
/-
C03, inline half — `finishLink` keeps the coverage of needed bytes (the opener's Text node, which is removed, consists of
`[` or `![`), and `processEmphasis` without ghost parameters.
-/
namespace CM.Proofs.InlH
open CM CM.Model CM.Model.Inl CM.Gen CM.Spec
open Std.Do

set_option mvcgen.warning false

theorem finish_cov {c : ICtx} {lo hi e : Int} {o N odi : Nat} {s s0 s' : IState}
    (h : SP lo hi (some o) (odi + 1) N e s) (hnn : StkNN c s)
    (hstk : s.stack = s0.stack.extract 0 (odi + 1)) (hodi : odi < s0.stack.size) (ho : (s0.stack[odi]!).node = o)
    (e' : DelimE) (he : s.stack[odi]? = some e') (par : Nat)
    (hn : s'.nodes = s.nodes.modify par (fun n => { n with kids := n.kids.filter (· != e'.node) }))
    (hs : stkOf s' = (s.stack.extract 0 odi ++ s.stack.extract (odi + 1)).toList.map (·.node)) :
    StkNN c s' ∧ Keep c s.nodes s'.nodes := by
  have hen : e'.node = o := by
    rw [hstk] at he
    have : (s0.stack.extract 0 (odi + 1))[odi]? = s0.stack[odi]? := by
      rw [Array.getElem?_extract]; simp; omega
    rw [this, Array.getElem?_eq_getElem hodi] at he
    have := Option.some.inj he
    rw [← this, ← ho, getElem!_pos s0.stack odi hodi]
  rw [hen] at hn
  have hsk : stkOf s = (stkOf s0).take odi ++ [o] := by
    have hl := stkOf_length s0
    have e1 : stkOf s = (stkOf s0).take (odi + 1) := stkOf_extract s0 (odi + 1) s.stack hstk
    rw [e1, List.take_succ_eq_append_getElem (by omega), stkOf_get s0 odi hodi, ho]
  have hos : o ∈ stkOf s := by rw [hsk]; simp
  have po := h.1.plain o hos
  have hd : DelimOK c s.nodes o := ⟨po.kids, po.sub, hnn o hos⟩
  refine ⟨?_, by rw [hn]; exact Keep.rm hd par⟩
  refine hnn.of_same (fun k hk => ?_) fun k _ => ?_
  · rw [hs, stkOf_del' s.stack odi (odi + 1)] at hk
    rcases List.mem_append.1 hk with hk | hk
    · exact List.mem_of_mem_take hk
    · exact List.mem_of_mem_drop hk
  · rw [hn, get!_modify]
    split <;> exact ⟨Int.le_refl _, Int.le_refl _⟩

theorem finishLink_postC (c : ICtx) (lo hi : Int) (o N : Nat) (e : Int) (kind odi : Nat) (s0 : IState) :
    Post (fun s => s = s0 ∧ SP lo hi (some o) (odi + 1) N e s ∧ odi < s0.stack.size ∧ (s0.stack[odi]!).node = o ∧
        StkNN c s)
      (finishLink kind odi)
      (fun _ s => StkNN c s ∧ Keep c s0.nodes s.nodes) := by
  unfold finishLink
  refine Post.bind (Q := fun _ s => ((SP lo hi (some o) (odi + 1) N e s ∧ s.stack = s0.stack.extract 0 (odi + 1)) ∧
      StkNN c s ∧ Keep c s0.nodes s.nodes) ∧ (odi < s0.stack.size ∧ (s0.stack[odi]!).node = o))
      ?_ (fun _ => Post.of_triple ?_)
  · refine ((Post.of_triple (processEmphasis_specC c lo hi (some o) (odi + 1) N e s0)).and
      (Post.const (C := odi < s0.stack.size ∧ (s0.stack[odi]!).node = o) (fun _ h => h))).conseq ?_ (fun _ _ h => h)
    rintro s ⟨rfl, h1, h2, h3, h4⟩
    exact ⟨⟨rfl, h1, h4⟩, h2, h3⟩
  · mvcgen [removeNode, delStack, setParent, modifyNode, -delStack_spec, -delStack_specS, -removeNode_spec,
      -removeNode_specS]
    case inv4 =>
      have t : Unit × IState := ‹Unit × IState›
      exact PostCond.mayThrow (fun (q : _ × Array DelimE) s =>
        ⌜s.nodes = t.2.nodes ∧
          q.2.toList.map (·.node) = (t.2.stack.extract 0 odi ++ t.2.stack.extract (odi + 1)).toList.map (·.node)⌝)
    inl_norm
    · obtain ⟨h1, h5⟩ := ‹_ ∧ _›
      refine ⟨h1, ?_⟩
      rw [← h5]
      exact map_node_set _ _ _
    · assumption
    · exact ⟨trivial, rfl⟩
    · obtain ⟨⟨⟨hsp, hstk⟩, hnn, hkeep⟩, hodi, ho⟩ := ‹((SP _ _ _ _ _ _ _ ∧ _) ∧ _ ∧ _) ∧ _›
      obtain ⟨h1, h5⟩ := ‹_ = _ ∧ _›
      refine ⟨(finish_cov hsp hnn hstk hodi ho _ ‹_› ?p1 ?a1 ?b1).1,
        hkeep.trans (finish_cov hsp hnn hstk hodi ho _ ‹_› ?p2 ?a2 ?b2).2⟩
      case a1 => exact h1
      case b1 => exact h5
      case a2 => exact h1
      case b2 => exact h5
    · obtain ⟨⟨⟨hsp, hstk⟩, hnn, hkeep⟩, hodi, ho⟩ := ‹((SP _ _ _ _ _ _ _ ∧ _) ∧ _ ∧ _) ∧ _›
      refine ⟨(finish_cov hsp hnn hstk hodi ho _ ‹_› ?p1 ?a1 ?b1).1,
        hkeep.trans (finish_cov (s' := { (‹Unit × IState›).2 with
          stack := (‹Unit × IState›).2.stack.extract 0 odi ++ (‹Unit × IState›).2.stack.extract (odi + 1) })
          hsp hnn hstk hodi ho _ ‹_› ?p2 ?a2 ?b2).2⟩
      case a1 => rfl
      case b1 => rfl
      case a2 => rfl
      case b2 => rfl
    · exact False.elim

/-- `finishLink` in the form `mvcgen` uses: no ghost parameters in the precondition (cf. `finishLink_specP`). -/
@[spec 40000]
theorem finishLink_specC (c : ICtx) (kind odi : Nat) (s0 : IState) :
    ⦃fun s => ⌜s = s0⌝⦄ finishLink kind odi
    ⦃⇓? _ s => ⌜∀ (lo hi : Int) (o N : Nat) (K E : Int), LinkInv lo hi o N odi K E true s0 → StkNN c s0 →
        (SPT lo hi E s ∧ s.unparsedPos = s0.unparsedPos ∧ s.ignoreNextIndent = s0.ignoreNextIndent) ∧
        StkNN c s ∧ Keep c s0.nodes s.nodes⌝⦄ := by
  apply Post.triple
  intro s hs
  subst hs
  cases hr : (finishLink kind odi).run s with
  | error e => trivial
  | ok p =>
    intro lo hi o N K E hL hnn
    have hsp : SP lo hi (some o) (odi + 1) N E s := by simpa using hL.sp
    have h1 := finishLink_post lo hi o N E kind odi s s ⟨rfl, hsp, hL.osk.1, hL.osk.2⟩
    have h2 := finishLink_postC c lo hi o N E kind odi s s ⟨rfl, hsp, hL.osk.1, hL.osk.2, hnn⟩
    rw [hr] at h1 h2
    exact ⟨h1, h2⟩

/-- `processEmphasis`, likewise. -/
@[spec 40000]
theorem processEmphasis_specGC (c : ICtx) (b : Nat) (s0 : IState) :
    ⦃fun s => ⌜s = s0⌝⦄ processEmphasis b
    ⦃⇓? _ s => ⌜∀ (lo hi : Int) (x : Option Nat) (p : Nat) (F : Int), SP lo hi x b p F s0 → StkNN c s0 →
        (SP lo hi x b p F s ∧ s.stack = s0.stack.extract 0 b ∧ s.unparsedPos = s0.unparsedPos ∧
        s.ignoreNextIndent = s0.ignoreNextIndent) ∧ StkNN c s ∧ Keep c s0.nodes s.nodes⌝⦄ := by
  apply Post.triple
  intro s hs
  subst hs
  cases hr : (processEmphasis b).run s with
  | error e => trivial
  | ok q =>
    intro lo hi x p F hsp hnn
    have h1 := Post.of_triple (processEmphasis_specC c lo hi x b p F s) s ⟨rfl, hsp, hnn⟩
    have h2 := Post.of_triple (processEmphasis_frame b ⟨s.unparsedPos, s.ignoreNextIndent⟩) s ⟨rfl, rfl⟩
    rw [hr] at h1 h2
    exact ⟨⟨h1.1.1, h1.1.2, h2.1, h2.2⟩, h1.2⟩

end CM.Proofs.InlH
