import CM.Proofs.ShapesNul
import CM.Proofs.RefDefSpansStream
import CM.Proofs.BlocksContractFinal
import CM.Props.C01Contract
/-
C13, block half — the theorem about the trees the block parser delivers.

* `drain_block_shapes` (= `drain_block_shapes_target`): for every extension, input and fuel, every block node of every
  tree delivered by `drain (blocksLP x) fuel (memParser inp) []` satisfies `Spec.shapeAt` in the root's source.

Ingredients: the invariant `Sh` of the block phase (`processLine_Sh`, `nextBlock_sh`), the block grammar
(`drain_grammar_mem`, the inline children of block-phase trees are not flagged as blocks), the spans of C02
(`RDS.drain_spans_uncond`: a setext heading starts inside the source, before its end), and, for inputs with NUL bytes,
the contract of the C01 tiling theorem (`blocksLP_contract`: the part of the padded buffer a root is cut from is the
padded image of a part of the input).
-/
namespace CM.Proofs.Shp
open CM CM.Model CM.Gen CM.Proofs.BG
open CM.Props.C01 (x0)

/-- The full statement of the block half of C13. -/
def drain_block_shapes_target : Prop :=
  ∀ (x : PExt) (inp : Bytes) (fuel : Nat), ∀ r ∈ (drain (blocksLP x) fuel (memParser inp) []).1,
    ∀ t ∈ Spec.T.nodes (pbToTree r.block), t.label.isBlock = true → Spec.shapeAt r.source t = true

/-! ### The roots

A root's source is `fillNulls head`, where `head` is the part of the padded buffer the root was cut from
(`nextBlock_sh`), and `head` is the padded image `padNulls y₁ 0` of the part `y₁` of the input the root stands for: the
contract of the C01 tiling theorem gives the cuts of the buffer (`nextBlock_spec`), `nextBlock_sh` the place of `head`
between them. -/

/-- What is proved about a root: it stands for a part `y₁` of the input, its source is `y₁` with every NUL replaced, and
    its block tree is good in the padded image of `y₁`. -/
def RootGood (setx : Bool) (r : Root) : Prop :=
  ∃ y₁ : Bytes, r.source = Spec.replNul y₁ ∧ 0 ≤ r.block.label.stop ∧
    Sh setx (padNulls y₁ 0) 0 (padNulls y₁ 0).length r.block

theorem drain_good {setx : Bool} (x : PExt) (hsx : SetextStep setx x) (C : LPContract (blocksLP x)) (inp : Bytes) :
    ∀ (fuel : Nat) (p : BP) (c y : Bytes) (acc : List Root), MInv inp p c y → PendInv C p.blocks (p.buf.take p.i) →
      BPS setx x (fun _ => True) p → (∀ r ∈ acc, RootGood setx r) →
      ∀ r ∈ (drain (blocksLP x) fuel p acc).1, RootGood setx r := by
  intro fuel
  induction fuel with
  | zero => intro p c y acc _ _ _ hacc r hr; simp only [drain, List.mem_reverse] at hr; exact hacc r hr
  | succ fuel ih =>
    intro p c y acc hM hP hB hacc r hr
    unfold drain at hr
    split at hr
    · rename_i r0 p0 hnb
      rcases nextBlock_spec C hM hP with ⟨r1, p1, g, y', hnb1, ey, _, y₁, y₂, ey', _, hM', hP', hR⟩ | ⟨p1, hnb1, _, _⟩
      · rw [hnb] at hnb1
        simp only [Prod.mk.injEq, NBOut.block.injEq] at hnb1
        obtain ⟨rfl, rfl⟩ := hnb1
        obtain ⟨⟨g', head, eb, hsrc, _, h0, hstop, hsh⟩, hB'⟩ :=
          nextBlock_sh x hsx ⟨fun _ _ _ => trivial, fun _ _ _ => trivial⟩ p hB r0 p0 hnb
        -- `head` is the padded image of `y₁`
        have hhead : head = padNulls y₁ 0 := by
          have e1 : padNulls y 0 = (padNulls g 0 ++ padNulls y₁ 0) ++ padNulls y₂ 0 := by
            rw [ey, ey', padNulls_append, padNulls_append, List.append_assoc]
          rw [hM.buf, hM'.buf, e1] at eb
          have e2 := List.append_cancel_right eb
          have hl : (padNulls y₁ 0).length = head.length := by
            have a1 := BSp.fillNulls_length head.length head (Nat.le_refl _)
            have a2 := BSp.fillNulls_length (padNulls y₁ 0).length (padNulls y₁ 0) (Nat.le_refl _)
            rw [fillNulls_padNulls] at a2
            rw [← hsrc, hR.source] at a1
            omega
          exact (List.append_inj_right' e2 hl).symm
        have hgood : RootGood setx r0 := ⟨y₁, hR.source, h0, by rw [← hhead]; exact hsh⟩
        exact ih p0 _ _ (r0 :: acc) hM' hP' hB' (fun r' hr' => by
          rcases List.mem_cons.mp hr' with rfl | hr'
          · exact hgood
          · exact hacc r' hr') r hr
      · rw [hnb] at hnb1
        cases hnb1
    · simp only [List.mem_reverse] at hr; exact hacc r hr

/-- **C13, block half.** For every extension `x`, input and fuel, in every tree the block parser delivers, the source
    text selected by a block node's span has the shape of its construct: an ATX heading of level `n` starts with exactly
    `n` `#`; a setext heading ends (trailing white space dropped) in `=` (level 1) or `-` (level 2); a fenced code block
    `(char, n)` starts with exactly `n ≥ 3` fence characters, `` ` `` or `~`; a block quote starts with `>`; a list
    marker is a bullet `-`, `+`, `*` or 1–9 digits and `.` or `)`. -/
theorem drain_block_shapes (x : PExt) (inp : Bytes) (fuel : Nat) :
    ∀ r ∈ (drain (blocksLP x) fuel (memParser inp) []).1,
      ∀ t ∈ Spec.T.nodes (pbToTree r.block), t.label.isBlock = true → Spec.shapeAt r.source t = true := by
  intro r hr t ht hb
  obtain ⟨C⟩ := blocksLP_contract x
  obtain ⟨y₁, hsrc, h0, hsh⟩ := drain_good x (setextStep true x) C inp fuel (memParser inp) [] inp []
    (MInv.init inp) (Or.inl ⟨rfl, rfl⟩) (memParser_BPS x inp trivial) (fun _ h => by cases h) r hr
  have hg := (drain_grammar_mem x fuel inp r hr).1
  have hsp := (RDS.drain_spans_uncond x inp fuel r hr).1
  have h1 := Sh_shapeAt r.block 0 _ 0 _ hsh h0 hg (Int.le_refl _) hsp t ht hb (Or.inl rfl)
  rw [hsrc]
  exact shapeAt_NR (NR_pad y₁) t hb h1

/-- The full statement holds. -/
theorem drain_block_shapes_target_holds : drain_block_shapes_target := drain_block_shapes

/-- … through the executable checker `Spec.shapes` restricted to block nodes. -/
theorem drain_block_shapes_all (x : PExt) (inp : Bytes) (fuel : Nat) :
    ∀ r ∈ (drain (blocksLP x) fuel (memParser inp) []).1,
      ((Spec.T.nodes (pbToTree r.block)).filter (·.label.isBlock)).all (Spec.shapeAt r.source) = true := by
  intro r hr
  rw [List.all_eq_true]
  intro t ht
  rw [List.mem_filter] at ht
  exact drain_block_shapes x inp fuel r hr t ht.1 ht.2

/-! ### Non-vacuity -/

/-- `## a⏎> b⏎⏎- c⏎⏎```⏎x⏎```⏎1) d⏎⏎[a]: b⏎c␀⏎ == ⏎` (with a NUL byte in the heading) -/
def docS : Bytes :=
  [35, 35, 32, 97, 10, 62, 32, 98, 10, 10, 45, 32, 99, 10, 10, 96, 96, 96, 10, 120, 10, 96, 96, 96, 10, 49, 41, 32, 100, 10,
   10, 91, 97, 93, 58, 32, 98, 10, 99, 0, 10, 32, 61, 61, 32, 10]

/-- The theorem applied to it … -/
example : ∀ r ∈ (drain (blocksLP x0) 50 (memParser docS) []).1,
    ∀ t ∈ Spec.T.nodes (pbToTree r.block), t.label.isBlock = true → Spec.shapeAt r.source t = true :=
  drain_block_shapes x0 docS 50

/-- … and the block nodes it talks about: an ATX heading of level 2, a block quote, two lists with their markers, a
    fenced code block of three backticks, a link reference definition split off a setext heading of level 1 (the
    heading is what is left of the paragraph: `c␀⏎ == ⏎`, ten bytes in the padded buffer and in the source). -/
example : (drain (blocksLP x0) 50 (memParser docS) []).1.map
      (fun r => (pbNodes r.block).map (fun c => (c.kind, c.label.start, c.label.stop, c.label.n)))
    = [[(BK.atxHeading, 0, 5, 2)], [(BK.blockQuote, 0, 4, 0), (BK.paragraph, 2, 4, 0)],
       [(BK.list, 0, 5, 0), (BK.listItem, 0, 5, 0), (BK.listMarker, 0, 1, 0), (BK.paragraph, 2, 4, 0)],
       [(BK.fencedCode, 0, 10, 3)],
       [(BK.list, 0, 6, 0), (BK.listItem, 0, 6, 0), (BK.listMarker, 0, 2, 0), (BK.paragraph, 3, 5, 0)],
       [(BK.linkRefDef, 0, 7, 0)], [(BK.setextHeading, 0, 10, 1)]] := by
  decide +kernel

-- The executable checker agrees on this run (as it must, by `drain_block_shapes_all`).
#guard (drain (blocksLP x0) 50 (memParser docS) []).1.all fun r =>
  ((Spec.T.nodes (pbToTree r.block)).filter (·.label.isBlock)).all (Spec.shapeAt r.source)

end CM.Proofs.Shp
