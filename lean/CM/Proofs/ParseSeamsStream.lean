import CM.Proofs.ParseSeamsLine
/-
C17 (b) for parser output, part 5 (block phase): the stream machine of `Parse`.

`drain_tail`: every root `r` delivered by `drain (blocksLP x) fuel (memParser inp) []` was cut from a padded buffer `buf`
whose first `i` bytes the line parser had seen, and `Tail (buf.take i) r.block` holds: every RawHTML node of the block
ends with a line ending of `buf`, except possibly the last inline child of the HTML block at the end of the last-child
spine, which ends at `i`.

The loop is that of `ParseWholeContract.parseLines_rootFrom` (the machine invariant `MInv` of the C01 tiling theorem gives
the closed form of `readline` and the padded buffer), with two more facts carried along: `Tail` of the line parser's tree
and `RDC.EolAt buf i` (the buffer up to the parse position is empty, ends with a line ending, or is the whole buffer) —
the reason why a line is only ever appended to a source that ends with a line ending.
-/
namespace CM.Proofs.PS
open CM CM.Model CM.Gen CM.Spec
open CM.Proofs.BT CM.Proofs.BG CM.Proofs.PW

/-! ### one line fed to the line parser -/

theorem endsEol_of_eolAt {buf : Bytes} {i : Nat} (h : RDC.EolAt buf i) (hi : i ≤ buf.length) (hd : buf.drop i ≠ []) :
    EndsEol (buf.take i) := by
  rcases h with h | h | h
  · left; rw [h]; rfl
  · by_cases h0 : i = 0
    · left; rw [h0]; rfl
    · right
      have hl : (buf.take i).length = i := by simp; omega
      rw [hl, CM.Proofs.Cov.getD_take (by omega)]; exact h
  · exact absurd h hd

/-- Feeding the line `ln` (or the empty end-of-input line) to a line parser whose tree satisfies `Tail src`. -/
theorem line_Tail (x : PExt) (σ : LP) (src ln : Bytes) (hinv : CM.Proofs.LPInv' σ) (ht : Tail src σ.root)
    (he : ln ≠ [] → EndsEol src) :
    Tail (src ++ ln) ((blocksLP x).line σ (src ++ ln) src.length).root := by
  show Tail (src ++ ln) (processLine x (σ.reset (src ++ ln) src.length)).root
  obtain ⟨r1, r2, r3, r4⟩ := BSp.reset_fields σ (src ++ ln) src.length
  have hline : (σ.reset (src ++ ln) src.length).line = ln := by rw [r4]; simp
  by_cases hln : ln = []
  · subst hln
    have hg : GT (src ++ []) (σ.reset (src ++ []) src.length) :=
      ⟨r2, by rw [r3, hline]; simp, by rw [r1, List.append_nil]; exact ht⟩
    exact (processLine_eof (x := x) _ hline hg).good
  · have hg : GJ (src ++ ln) (σ.reset (src ++ ln) src.length) :=
      ⟨r2, by rw [r3, hline]; simp, by rw [r1]; exact Tail.upgrade (he hln) ln σ.root ht⟩
    exact (processLine_GT (x := x) _ (CM.Proofs.reset_LPInv σ hinv _ _).toInv hg).good

/-! ### the machine -/

/-- What is proved about a delivered root. -/
def RootTail (r : Root) : Prop :=
  ∃ (buf : Bytes) (i : Nat), Padded buf ∧ stopOf r.block ≤ i ∧ i ≤ buf.length ∧
    r.source = fillNulls (buf.take (stopOf r.block)) ∧ Tail (buf.take i) r.block

/-- The stream state between `NextBlock` calls. -/
def BPTail (p : BP) : Prop := TailL (p.buf.take p.i) p.blocks ∧ RDC.EolAt p.buf p.i

theorem makeRoot_tail {inp : Bytes} {p : BP} {c y : Bytes} (h : MInv inp p c y) (k : PB) (rest : List PB)
    (hclosed : k.isOpen = false) (hle : stopOf k ≤ p.i) (hT : TailL (p.buf.take p.i) (k :: rest))
    (hE : RDC.EolAt p.buf p.i) {r : Root} {p' : BP} (hmk : makeRoot p (k :: rest) = some (r, p')) :
    RootTail r ∧ BPTail p' := by
  obtain ⟨hb, hs⟩ := makeRoot_closed_eq p k rest hclosed hmk
  refine ⟨⟨p.buf, p.i, ⟨y, h.buf⟩, by rw [hb]; exact hle, h.i_le, by rw [hb]; exact hs, by rw [hb]; exact TailL_head hT⟩, ?_⟩
  simp only [makeRoot, hclosed, Bool.false_eq_true, if_false, Option.some.injEq, Prod.mk.injEq] at hmk
  obtain ⟨_, rfl⟩ := hmk
  constructor
  · show TailL ((p.buf.drop k.label.stop.toNat).take (p.i - k.label.stop.toNat)) (offsetPBs (-(k.label.stop.toNat : Int)) rest)
    rw [← List.drop_take]
    exact TailL_offsetPBs _ (TailL_tail hT)
  · show RDC.EolAt (p.buf.drop k.label.stop.toNat) (p.i - k.label.stop.toNat)
    exact RDC.eolAt_drop p.buf p.i _ hle hE

theorem parseLines_tail (x : PExt) (C : LPContract (blocksLP x)) {inp : Bytes} :
    ∀ (fuel : Nat) {p : BP} {c y : Bytes} (σ : LP) (ls : Nat), MInv inp p c y →
    C.Ok ((blocksLP x).line σ (p.buf.take p.i) ls) (p.buf.take p.i) ls →
    CM.Proofs.LPInv' ((blocksLP x).line σ (p.buf.take p.i) ls) →
    Tail (p.buf.take p.i) ((blocksLP x).line σ (p.buf.take p.i) ls).root → RDC.EolAt p.buf p.i →
    ∀ r p', parseLines (blocksLP x) fuel σ ls p = (.block r, p') → RootTail r ∧ BPTail p' := by
  intro fuel
  induction fuel with
  | zero => intro p c y σ ls _ _ _ _ _ r p' h; simp [parseLines] at h
  | succ fuel ih =>
    intro p c y σ ls h hOk hI hT hE r p' hres
    have hil := h.i_le
    have hsl : (p.buf.take p.i).length = p.i := by simp [hil]
    obtain ⟨hpan, hne, hkids, heof⟩ := checkStep_elim (C.obs _ _ _ hOk)
    simp only [parseLines, hpan] at hres
    cases hk : (blocksLP x).kids ((blocksLP x).line σ (p.buf.take p.i) ls) with
    | nil => exact absurd hk hne
    | cons k rest =>
      rw [hk] at hkids heof hres
      have hTk : TailL (p.buf.take p.i) (k :: rest) := by
        have := Tail_kids hT
        have e : ((blocksLP x).line σ (p.buf.take p.i) ls).root.blocks = k :: rest := hk
        rw [e] at this; exact this
      by_cases hopen : k.isOpen = true
      · have hrest : rest = [] := kidsOK_cons_open hopen hkids
        subst hrest
        simp only [makeRoot_none_of_open p hopen, h.readline_eq] at hres
        obtain ⟨hpad, hline, hns, htake, hnil⟩ := h.line_facts
        have hok' := C.next _ _ ls _ hOk (by rw [hk]; exact hopen) hpad hline hns
        have hT' := line_Tail x ((blocksLP x).line σ (p.buf.take p.i) ls) (p.buf.take p.i)
          ((p.buf.drop p.i).take (lineLen (p.buf.drop p.i))) hI hT (fun hln => by
          refine endsEol_of_eolAt hE hil ?_
          intro hd
          apply hln
          rw [hd]; rfl)
        have hI' := CM.Proofs.blocksLP_line_LPInv' x _ hI (p.buf.take p.i ++ (p.buf.drop p.i).take (lineLen (p.buf.drop p.i)))
          (p.buf.take p.i).length
        rw [hsl, ← htake] at hok' hT' hI'
        exact ih ((blocksLP x).line σ (p.buf.take p.i) ls) p.i h.readline hok' hI' hT'
          (RDC.eolAt_next p.buf p.i hil hE) r p' hres
      · have hclosed : k.isOpen = false := by simpa using hopen
        obtain ⟨_, hle, _, _⟩ := kidsOK_cons_closed hclosed hkids
        rw [hsl] at hle
        cases hmk : makeRoot p (k :: rest) with
        | none => simp [makeRoot, hclosed] at hmk
        | some rp =>
          obtain ⟨r0, p0⟩ := rp
          rw [hmk] at hres
          simp only [Prod.mk.injEq, NBOut.block.injEq] at hres
          obtain ⟨rfl, rfl⟩ := hres
          exact makeRoot_tail h k rest hclosed hle hTk hE hmk

theorem nextBlock_tail (x : PExt) (C : LPContract (blocksLP x)) {inp : Bytes} {p : BP} {c y : Bytes}
    (h : MInv inp p c y) (hp : PendInv C p.blocks (p.buf.take p.i)) (hB : BPTail p) :
    ∀ r p', nextBlock (blocksLP x) p = (.block r, p') → RootTail r ∧ BPTail p' := by
  intro r p' hres
  have hil := h.i_le
  have hsl : (p.buf.take p.i).length = p.i := by simp [hil]
  rcases hp with ⟨hb, hblank⟩ | ⟨hb, hpd⟩
  · -- no left-over blocks
    have hmk : makeRoot p p.blocks = none := by rw [hb]; simp [makeRoot]
    have hlen : ¬ (p.blocks.length > 0) := by rw [hb]; simp
    simp only [nextBlock, hmk, hlen, if_false] at hres
    let p0 : BP := { p with offset := p.offset + unpaddedNullLength (p.buf.take p.i),
                            lineno := p.lineno + lineCount (p.buf.take p.i), buf := p.buf.drop p.i, i := 0 }
    obtain ⟨g, y₂, e, ht, -, hM⟩ :=
      h.advance (n := p.i) (Nat.le_refl _) h.cut_i p0 rfl rfl (fun _ => rfl) (by simp [p0]) rfl rfl h.panic
    have hf : y₂.length + 1 ≤ bpFuel p := by
      have h1 := length_le_length_padNulls y
      have : y₂.length ≤ y.length := by rw [e]; simp
      have hbuflen : p.buf.length = (padNulls y 0).length := by rw [h.buf]
      simp only [bpFuel]; omega
    have hres' : (match skipBlank (bpFuel p) p0 with
        | (none, p) => (match p.panic with
            | some m => (NBOut.panic m, p)
            | none => (NBOut.err (p.err.getD .eof), p))
        | (some q, _) => parseLines (blocksLP x) (bpFuel p) ((blocksLP x).new q.blocks) 0 q) = (.block r, p') := hres
    rcases skipBlank_spec (bpFuel p) hM rfl hf with
      ⟨q, hs, hp1, hp2, _⟩ | ⟨q, q'', g', y', hs, e', hg', hM', hbk, hi', hpos', hnb⟩
    · rw [hs] at hres'
      simp only [hp1, hp2, Option.getD_some] at hres'
      cases hres'
    · rw [hs] at hres'
      simp only at hres'
      have hbk' : q.blocks = [] := by rw [hbk]; exact hb
      rw [hbk'] at hres'
      have hne : q.buf ≠ [] := by
        intro e0; rw [e0] at hi'; simp at hi'; omega
      have hline : IsLine (q.buf.take q.i) := by rw [hi']; exact isLine_take hne
      have hpad : Padded (q.buf.take q.i) := by
        obtain ⟨z₁, z₂, -, h1, -⟩ := hM'.cut_facts hM'.cut_i
        exact ⟨z₁, h1⟩
      have hOk := C.fresh _ hpad hline hnb
      have hI0 := CM.Proofs.new_LPInv' x []
      have hT := line_Tail x ((blocksLP x).new []) [] (q.buf.take q.i) hI0
        (Tail_docRoot TailL_nil) (fun _ => Or.inl rfl)
      have hI := CM.Proofs.blocksLP_line_LPInv' x _ hI0 ([] ++ q.buf.take q.i) ([] : Bytes).length
      simp only [List.nil_append, List.length_nil] at hT hI
      have hE : RDC.EolAt q.buf q.i := by
        have := RDC.eolAt_next q.buf 0 (Nat.zero_le _) (Or.inl rfl)
        simpa [hi'] using this
      exact parseLines_tail x C (bpFuel p) ((blocksLP x).new []) 0 hM' hOk hI hT hE r p' hres'
  · -- left-over blocks
    have hkids := C.obsP _ _ hpd
    cases hbs : p.blocks with
    | nil => exact absurd hbs hb
    | cons k rest =>
      rw [hbs] at hkids hpd
      have hTk : TailL (p.buf.take p.i) (k :: rest) := by rw [← hbs]; exact hB.1
      by_cases hopen : k.isOpen = true
      · have hrest : rest = [] := kidsOK_cons_open hopen hkids
        subst hrest
        have hmk : makeRoot p p.blocks = none := by rw [hbs]; exact makeRoot_none_of_open p hopen
        have hlen : p.blocks.length > 0 := by rw [hbs]; simp
        simp only [nextBlock, hmk, hlen, if_true, h.readline_eq] at hres
        obtain ⟨hpad, hline, hns, htake, -⟩ := h.line_facts
        have hOk := C.resume _ _ _ hpd hopen hpad hline hns
        have hI0 := CM.Proofs.new_LPInv' x [k]
        have hT := line_Tail x ((blocksLP x).new [k]) (p.buf.take p.i)
          ((p.buf.drop p.i).take (lineLen (p.buf.drop p.i))) hI0 (Tail_docRoot hTk) (fun hln => by
            refine endsEol_of_eolAt hB.2 hil ?_
            intro hd
            apply hln
            rw [hd]; rfl)
        have hI := CM.Proofs.blocksLP_line_LPInv' x _ hI0
          (p.buf.take p.i ++ (p.buf.drop p.i).take (lineLen (p.buf.drop p.i))) (p.buf.take p.i).length
        rw [hsl, ← htake] at hOk hT hI
        refine parseLines_tail x C (bpFuel p) ((blocksLP x).new [k]) p.i h.readline hOk hI hT
          (RDC.eolAt_next p.buf p.i hil hB.2) r p' ?_
        rw [← hbs]
        exact hres
      · have hclosed : k.isOpen = false := by simpa using hopen
        obtain ⟨_, hle, _, _⟩ := kidsOK_cons_closed hclosed hkids
        rw [hsl] at hle
        cases hmk : makeRoot p (k :: rest) with
        | none => simp [makeRoot, hclosed] at hmk
        | some rp =>
          obtain ⟨r0, p0⟩ := rp
          simp only [nextBlock, hbs, hmk, Prod.mk.injEq, NBOut.block.injEq] at hres
          obtain ⟨rfl, rfl⟩ := hres
          exact makeRoot_tail h k rest hclosed hle hTk hB.2 hmk

theorem drain_tail_aux (x : PExt) (C : LPContract (blocksLP x)) {inp : Bytes} :
    ∀ (fuel : Nat) {p : BP} {c y : Bytes} (acc : List Root), MInv inp p c y → PendInv C p.blocks (p.buf.take p.i) →
    BPTail p → (∀ r ∈ acc, RootTail r) → ∀ r ∈ (drain (blocksLP x) fuel p acc).1, RootTail r := by
  intro fuel
  induction fuel with
  | zero =>
    intro p c y acc _ _ _ hacc r hr
    simp only [drain, List.mem_reverse] at hr
    exact hacc r hr
  | succ fuel ih =>
    intro p c y acc h hp hB hacc r hr
    rcases nextBlock_spec C h hp with ⟨r0, p', g, y', hnb, e, hg, y₁, y₂, e', hy1, hM, hP, hR⟩ | ⟨p', hnb, hpn, hb⟩
    · simp only [drain, hnb] at hr
      have hn := nextBlock_tail x C h hp hB r0 p' hnb
      refine ih (r0 :: acc) hM hP hn.2 ?_ r hr
      intro r' hr'
      rcases List.mem_cons.1 hr' with rfl | hr'
      · exact hn.1
      · exact hacc r' hr'
    · simp only [drain, hnb, List.mem_reverse] at hr
      exact hacc r hr

/-- **Fact (1), on the trees under construction**: every root of `Parse`'s block phase satisfies `Tail` with respect to
    the buffer it was cut from. -/
theorem drain_tail (x : PExt) (fuel : Nat) (inp : Bytes) :
    ∀ r ∈ (drain (blocksLP x) fuel (memParser inp) []).1, RootTail r := by
  obtain ⟨C⟩ := blocksLP_contract x
  exact drain_tail_aux x C fuel [] (MInv.init inp) (Or.inl ⟨rfl, rfl⟩)
    ⟨by show TailL _ []; exact TailL_nil, Or.inl rfl⟩ (fun _ h => by cases h)

end CM.Proofs.PS
