import CM.Proofs.EolX2
/-
C14 (a), discharging the `kidsOrd` and "tabs" checks — part 3: `onCloseParagraph`, `close` and the edits along the last-child
spine keep `XT`.
-/
namespace CM.Proofs.EolX
open CM CM.Model CM.Gen CM.Proofs CM.Proofs.RDS CM.Proofs.BSp CM.Proofs.ERd CM.Proofs.BG

section
variable {src : Bytes}

theorem XT.leaf {l : PLabel} {is : List Tree} (h : XQ src l is) : XT src (.mk l [] is) :=
  (XT_mk l [] is).2 ⟨h, fun _ hb => absurd hb List.not_mem_nil⟩

theorem AllX.single {b : PB} (h : XT src b) : AllX src [b] := by
  intro c hc
  rw [List.mem_singleton.1 hc]; exact h

theorem isIndent_mkInline_unparsed (a b : Int) : isIndent (mkInline IK.unparsed a b) = false := by
  simp [isIndent, Node.isI, mkInline, Tree.label]
  decide

/-- The orphaned underline paragraph of a setext heading. -/
theorem orphan_xt (l : PLabel) (is : List Tree) (hc : Ctx src is) (h0 : 0 ≤ l.stop) (hle : ∀ t ∈ is, t.label.stop ≤ l.stop) :
    XT src (orphanOf src l is) := by
  rw [orphanOf_eq]
  unfold mkPB
  apply XT.leaf
  have hB : 0 ≤ (is.getLast?.map (fun t : Tree => t.label.stop)).getD 0 ∧
      (is.getLast?.map (fun t : Tree => t.label.stop)).getD 0 ≤ l.stop := by
    cases hg : is.getLast? with
    | none => simp; exact h0
    | some t =>
      have hm : t ∈ is := List.mem_of_getLast? hg
      have := (hc.ok t hm).1
      have := hc.nn t hm
      have := hle t hm
      simp only [Option.map_some, Option.getD_some]
      omega
  generalize (is.getLast?.map (fun t : Tree => t.label.stop)).getD 0 = B at hB
  have hlsp := lsp_le ((src.take l.stop.toNat).drop B.toNat)
  have hlen : ((src.take l.stop.toNat).drop B.toNat).length ≤ l.stop.toNat - B.toNat := by
    simp only [List.length_drop, List.length_take]; omega
  refine ⟨?_, ?_⟩
  · intro t ht
    rw [List.mem_singleton.1 ht]
    apply inlOK_mkInline _ _ _ _ _ rfl
    omega
  · intro _ t ht hi
    rw [List.mem_singleton.1 ht, isIndent_mkInline_unparsed] at hi
    cases hi

/-- **The paragraph hook keeps `XT`**, for a paragraph that does not begin with `[` or is sorted. -/
theorem onClose_xq (x : PExt) (l : PLabel) (bs : List PB) (is : List Tree) (hq : XQ src l is) (hbs : ∀ b ∈ bs, XT src b)
    (hf : RDS.NoBracket src is ∨
      (Ctx src is ∧ (l.kind = BK.setextHeading → 0 ≤ l.stop ∧ ∀ t ∈ is, t.label.stop ≤ l.stop))) :
    AllX src (onCloseParagraph x src (.mk l bs is)) := by
  cases is with
  | nil =>
    show AllX src [PB.mk l bs []]
    exact AllX.single ((XT_mk l bs []).2 ⟨hq, hbs⟩)
  | cons first rest =>
    rw [onCloseParagraph_cons]
    rcases hf with hnb | ⟨hc, ho⟩
    · have c1 := current_of_noBracket hnb first rest rfl
      simp only [List.length_cons]
      rw [refDefLoop_no_bracket x _ _ _ _ _ _ c1]
      exact AllX.single (XT.leaf hq)
    · have hfm : first ∈ first :: rest := List.mem_cons_self
      have hnn := hc.nn first hfm
      have hok := hc.ok first hfm
      have hrd : RdOK 0 src.length false (newReader (first :: rest) first.label.start.toNat) := by
        refine ⟨?_, hc.sorted, ?_, Nat.zero_le _, ?_, ?_, fun h => (by cases h), Or.inl ?_⟩
        · intro t ht
          have := hc.ok t ht
          unfold TB
          have h1 := this.1
          have h2 := this.2.1
          omega
        · show first.label.start.toNat ≤ _
          have h1 := hok.1
          have h2 := hok.2.1
          omega
        · show (-1 : Int) + 1 ≤ _
          omega
        · show (-1 : Int) ≤ -1
          omega
        · show (-1 : Int) + 1 ≤ ((first.label.start.toNat : Nat) : Int)
          omega
      have hri : RDS.RI src (first :: rest) (newReader (first :: rest) first.label.start.toNat) := by
        refine ⟨⟨0, rfl⟩, ?_, ?_, ?_⟩
        · intro t rest' e
          have e' : first :: rest = t :: rest' := e
          cases e'
          show first.label.start ≤ ((first.label.start.toNat : Nat) : Int) ∧ ((first.label.start.toNat : Nat) : Int) < _
          have := hok.1
          omega
        · intro _ _ _ _
          show 0 < 3
          omega
        · intro e
          have e' : first :: rest = [] := e
          cases e'
      apply refDefLoop_xq x src _ src.length _ _ _ l (first :: rest) [] 0 hc ⟨Nat.zero_le _, hrd, hri⟩ hq
        (fun _ h => absurd h List.not_mem_nil)
      intro o ho'
      split at ho'
      · rename_i hk
        have hk' : l.kind = BK.setextHeading := by simpa using hk
        simp only [Option.some.injEq] at ho'
        subst ho'
        exact orphan_xt l (first :: rest) hc (ho hk').1 (ho hk').2
      · cases ho'

/-! ### `close` -/

theorem XT_setLabel {f : PLabel → PLabel} (hk : ∀ l, (f l).kind = l.kind ∨ (f l).kind ≠ BK.paragraph) {b : PB}
    (h : XT src b) : XT src (b.setLabel f) := by
  obtain ⟨l, bs, is⟩ := b
  rw [PB.setLabel, XT_mk]
  rw [XT_mk] at h
  refine ⟨?_, h.2⟩
  rcases hk l with h1 | h1
  · exact h.1.kind h1
  · exact XQ.notPara h.1.1 h1

/-- `close` keeps `XT`, for a tree invariant `R` that makes the paragraphs to be closed sorted (or not beginning with `[`),
    and bounds the inline children of an open setext heading by the end position. -/
theorem closeBlock_xq (x : PExt) (endPos : Int) (R : PB → Prop) (hsub : ∀ l bs is, R (.mk l bs is) → ∀ c ∈ bs, R c)
    (hhook : ∀ l bs is, R (.mk l bs is) → l.stop < 0 → (l.kind = BK.paragraph ∨ l.kind = BK.setextHeading) →
      RDS.NoBracket src is ∨
        (Ctx src is ∧ (l.kind = BK.setextHeading → 0 ≤ endPos ∧ ∀ t ∈ is, t.label.stop ≤ endPos))) :
    ∀ b : PB, R b → XT src b → AllX src (closeBlock x src endPos b) := by
  apply BG.PB.ind
  intro l bs is ih hR h
  rw [closeBlock]
  split
  · exact AllX.single h
  rename_i hopen
  have hop : l.stop < 0 := by omega
  simp only []
  rw [XT_mk] at h
  have hcl : ∀ c ∈ closeLast x src endPos bs, XT src c := by
    cases hgl : bs.getLast? with
    | none => rw [closeLast_none x src endPos bs hgl]; exact h.2
    | some c =>
      rw [closeLast_some x src endPos bs c hgl]
      have hcm : c ∈ bs := List.mem_of_getLast? hgl
      intro c' hc'
      rcases List.mem_append.mp hc' with h' | h'
      · exact h.2 c' ((List.dropLast_sublist bs).subset h')
      · exact ih c hcm (hsub l bs is hR c hcm) (h.2 c hcm) c' h'
  have hq' : ∀ l' : PLabel, l'.kind = l.kind → XQ src l' is := fun l' hk => h.1.kind hk
  split
  · split
    · apply AllX.single
      rw [XT_mk]
      refine ⟨hq' _ rfl, ?_⟩
      intro b hb'
      rw [List.mem_map] at hb'
      obtain ⟨c, hc, rfl⟩ := hb'
      exact XT_setLabel (f := fun il => { il with loose := true }) (fun _ => Or.inl rfl) (hcl c hc)
    · exact AllX.single ((XT_mk _ _ _).2 ⟨hq' _ rfl, hcl⟩)
  split
  · rename_i hk
    have hkp : l.kind = BK.paragraph ∨ l.kind = BK.setextHeading := by
      simpa only [Bool.or_eq_true, beq_iff_eq] using hk
    exact onClose_xq x { l with stop := endPos } bs is (hq' _ rfl) h.2 (hhook l bs is hR hop hkp)
  split
  · obtain ⟨is', heq, hsub'⟩ := indentedOnClose_eq src { l with stop := endPos } bs is
    rw [heq]
    exact AllX.single ((XT_mk _ _ _).2 ⟨(hq' { l with stop := endPos } rfl).sub hsub', h.2⟩)
  · exact AllX.single ((XT_mk _ _ _).2 ⟨hq' _ rfl, hcl⟩)

/-! ### The spine -/

theorem xt_spineModify_R (R : PB → Prop) (hsub : ∀ l bs is, R (.mk l bs is) → ∀ c ∈ bs, R c) (f : PB → PB)
    (hf : ∀ c, R c → XT src c → XT src (f c)) :
    ∀ (d : Nat) (b : PB), R b → XT src b → XT src (spineModify f b d) := by
  intro d
  induction d with
  | zero => intro b hR h; cases b; exact hf _ hR h
  | succ d ih =>
    intro b hR h
    obtain ⟨l, bs, is⟩ := b
    simp only [spineModify]
    cases hg : bs.getLast? with
    | none => exact h
    | some c =>
      simp only []
      rw [XT_mk] at h ⊢
      refine ⟨h.1, ?_⟩
      intro b' hb'
      rcases mem_dropLast_append hb' with h1 | h1
      · exact h.2 b' h1
      · simp only [List.mem_singleton] at h1
        subst h1
        exact ih c (hsub l bs is hR c (List.mem_of_getLast? hg)) (h.2 c (List.mem_of_getLast? hg))

theorem xt_spineModify (f : PB → PB) (hf : ∀ c, XT src c → XT src (f c)) (d : Nat) (b : PB) (h : XT src b) :
    XT src (spineModify f b d) :=
  xt_spineModify_R (fun _ => True) (fun _ _ _ _ _ _ => trivial) f (fun c _ hc => hf c hc) d b trivial h

theorem xt_spineReplaceLast_R (R : PB → Prop) (hsub : ∀ l bs is, R (.mk l bs is) → ∀ c ∈ bs, R c) (f : PB → List PB)
    (hf : ∀ c, R c → XT src c → AllX src (f c)) (root : PB) (d : Nat) (hR : R root) (h : XT src root) :
    XT src (spineReplaceLast f root d) := by
  unfold spineReplaceLast
  apply xt_spineModify_R R hsub _ _ d root hR h
  intro c hRc hc
  obtain ⟨l, bs, is⟩ := c
  simp only []
  cases hg : bs.getLast? with
  | none => exact hc
  | some c' =>
    simp only []
    rw [XT_mk] at hc ⊢
    refine ⟨hc.1, ?_⟩
    intro b' hb'
    rcases mem_dropLast_append hb' with h1 | h1
    · exact hc.2 b' h1
    · exact hf c' (hsub l bs is hRc c' (List.mem_of_getLast? hg)) (hc.2 c' (List.mem_of_getLast? hg)) b' h1

theorem xt_setBlankFlags (v : Bool) : ∀ (d : Nat) (b : PB), XT src b → XT src (setBlankFlags v b d) := by
  intro d
  induction d with
  | zero =>
    intro b h
    obtain ⟨l, bs, is⟩ := b
    rw [setBlankFlags, XT_mk]
    rw [XT_mk] at h
    exact ⟨h.1.kind rfl, h.2⟩
  | succ d ih =>
    intro b h
    obtain ⟨l, bs, is⟩ := b
    simp only [setBlankFlags]
    rw [XT_mk] at h
    cases hg : bs.getLast? with
    | none => exact (XT_mk _ _ _).2 ⟨h.1.kind rfl, h.2⟩
    | some c =>
      simp only []
      rw [XT_mk]
      refine ⟨h.1.kind rfl, ?_⟩
      intro b' hb'
      rcases mem_dropLast_append hb' with h1 | h1
      · exact h.2 b' h1
      · simp only [List.mem_singleton] at h1
        subst h1
        exact ih c (h.2 c (List.mem_of_getLast? hg))

/-- Appending a block child. -/
theorem xt_appendChild (child : PB) (hc : XT src child) (d : Nat) (b : PB) (h : XT src b) :
    XT src (spineModify (fun b => match b with | .mk l bs is => .mk l (bs ++ [child]) is) b d) := by
  apply xt_spineModify _ _ d b h
  intro c hcx
  obtain ⟨l, bs, is⟩ := c
  simp only []
  rw [XT_mk] at hcx ⊢
  refine ⟨hcx.1, ?_⟩
  intro b' hb'
  rcases List.mem_append.1 hb' with h1 | h1
  · exact hcx.2 b' h1
  · rw [List.mem_singleton.1 h1]; exact hc

/-- Appending an inline child `t` to the container: `t` is start-minimal, and is not an Indent node, or the container is not
    a paragraph, or `t` sits on a TAB. -/
theorem xt_appendInline (t : Tree) (ht : inlOK t = true) (d : Nat) (b : PB) (h : XT src b)
    (htab : isIndent t = true → (∀ c, spineGet b d = some c → c.kind ≠ BK.paragraph) ∨ src.getD t.label.start.toNat 0 = TAB) :
    XT src (spineModify (fun b => match b with | .mk l bs is => .mk l bs (is ++ [t])) b d) := by
  induction d generalizing b with
  | zero =>
    obtain ⟨l, bs, is⟩ := b
    simp only [spineModify]
    rw [XT_mk] at h ⊢
    refine ⟨⟨?_, ?_⟩, h.2⟩
    · intro t' ht'
      rcases List.mem_append.1 ht' with h1 | h1
      · exact h.1.1 t' h1
      · rw [List.mem_singleton.1 h1]; exact ht
    · intro hk t' ht' hi
      rcases List.mem_append.1 ht' with h1 | h1
      · exact h.1.2 hk t' h1 hi
      · rw [List.mem_singleton.1 h1] at hi ⊢
        rcases htab hi with h2 | h2
        · exact absurd hk (h2 _ rfl)
        · exact h2
  | succ d ih =>
    obtain ⟨l, bs, is⟩ := b
    simp only [spineModify]
    cases hg : bs.getLast? with
    | none => exact h
    | some c =>
      simp only []
      rw [XT_mk] at h ⊢
      refine ⟨h.1, ?_⟩
      intro b' hb'
      rcases mem_dropLast_append hb' with h1 | h1
      · exact h.2 b' h1
      · simp only [List.mem_singleton] at h1
        subst h1
        apply ih c (h.2 c (List.mem_of_getLast? hg))
        intro hi
        rcases htab hi with h2 | h2
        · left
          intro c' hc'
          apply h2 c'
          simp only [spineGet, hg]
          exact hc'
        · exact Or.inr h2

end

end CM.Proofs.EolX
