import CM.Proofs.RefDefSpansStream
import CM.Proofs.BlocksWell
/-
C02, block half — summary: the `RefDefSpansOK` hypothesis of `drain_spans` is discharged.

* `refDefSpansOK : refDefSpansOK_target` (file `RefDefSpansStream`): the Boolean check of the checked block parser never
  fails on an in-memory run.
* `drain_spans_uncond`: every root the block parser delivers has valid, nested, ordered spans — no hypothesis.
* `drain_spans_stream`: the same for a streaming run (any read schedule, any final reader error) of an input below the
  block-size limit, through the C08 theorem "streaming parse = in-memory parse".

How the proof goes: (A, files `RefDefSpansRd1…6`) a paragraph whose inline children are *lines* (`NodeOK`: non-empty,
inside the source, Indent nodes one byte long, line endings only at the end of a node) is split by `onCloseParagraph`
into blocks with valid spans (`paraSpans_of_nodes`); (B, files `RefDefSpansTree`, `…Close`, `…Ops`, `…Starts`, `…Starts2`,
`…Setext`, `…Line`, `…Line2`, `…Line3`) the block phase keeps "every paragraph of the tree is made of lines, or does not
begin with `[`" (`GoodT`, `processLine_st`); (C, `RefDefSpansUpgrade`, `RefDefSpansStream`) the stream machine keeps it
across `makeRoot` (translation) and from line to line.
-/
namespace CM.Proofs.RDS
open CM CM.Model CM.Gen CM.Proofs CM.Proofs.BSp CM.Proofs.BT

/-- The streaming variant: the roots of a streaming run are those of the in-memory run (C08). -/
theorem drain_spans_stream (x : PExt) (inp : Bytes) (sched : List Nat) (eofWith : Bool) (fin : RErr) (hsmall : Small inp)
    (fuel : Nat) :
    ∀ r ∈ (drain (blocksLP x) fuel (newBlockParser { data := inp, sched := sched, eofWith := eofWith, fin := fin }) []).1,
      RootSpansOK r := by
  rw [C08_blocks_roots x inp sched eofWith fin hsmall fuel]
  exact drain_spans_uncond x inp fuel

/-- The checked machine is the machine, always. -/
theorem drain_checked_eq_uncond (x : PExt) (inp : Bytes) (fuel : Nat) :
    drain (blocksLP x) fuel (memParser inp) [] = drain (blocksLPc x) fuel (memParser inp) [] :=
  drain_checked_eq x fuel _ [] (refDefSpansOK x inp fuel)

/-! ### Non-vacuity -/

section Examples

/-- Link reference definitions with a title over two lines, CRLF line endings, a partially consumed tab inside a block
    quote, a setext heading made of a definition only, a NUL byte. -/
def rdDoc : Bytes := Bytes.ofString "[a]: /u\r\n'x\r\ny'\r\n[b]: <v>\r\nrest\r\n\r\n> [c]: /w\n>\t\"t\"\n> ===\n\n[d]: /z\n" ++ [0, 10]

-- the theorem delivers the spans of all roots of this document …
example : ∀ r ∈ (drain (blocksLP btX) 40 (memParser rdDoc) []).1, RootSpansOK r := drain_spans_uncond btX rdDoc 40
-- … there are six of them: two definitions, the rest of the first paragraph, the block quote, a definition, the
-- last paragraph (a NUL)
example : (drain (blocksLP btX) 40 (memParser rdDoc) []).1.map
    (fun r => (r.block.kind, r.block.label.start, r.block.label.stop, r.source.length)) =
    [(BK.linkRefDef, 0, 17, 17), (BK.linkRefDef, 0, 10, 10), (BK.paragraph, 0, 6, 6), (BK.blockQuote, 0, 22, 22),
     (BK.linkRefDef, 0, 8, 8), (BK.paragraph, 0, 4, 4)] := by decide +kernel
-- inside the block quote: the definition (with its title on the line after the partially consumed tab) and the
-- orphan paragraph of the setext underline
example : (drain (blocksLP btX) 40 (memParser rdDoc) []).1.flatMap (fun r => spKids r.block) =
    [(BK.linkRefDef, 2, 16), (BK.paragraph, 16, 22)] := by decide +kernel
-- the streaming run, read 3 + 0 + 5 + … bytes at a time
example : ∀ r ∈ (drain (blocksLP btX) 60 (newBlockParser { data := rdDoc, sched := [3, 0, 5], eofWith := false, fin := .eof }) []).1,
    RootSpansOK r := drain_spans_stream btX rdDoc [3, 0, 5] false .eof (by decide +kernel) 60

/-! `processLine_st` and `startSetext_st` on `[a]: /u⏎===⏎` -/

def sxSrc1 : Bytes := Bytes.ofString "[a]: /u\n"
def sxSrc2 : Bytes := Bytes.ofString "[a]: /u\n===\n"

theorem sx_line1 : LineOK (sxSrc1.drop 0) := by
  have h : sxSrc1.take (lineLen sxSrc1) = sxSrc1.drop 0 := by decide +kernel
  rw [← h]; exact lineOK_take _

/-- The first line: the hypotheses of `processLine_st` hold at the start of the document … -/
theorem sx_good1 : GoodT sxSrc1 (sxSrc1.length : Int) (processLine exX (exLP sxSrc1)).root :=
  processLine_st exX (exLP sxSrc1) (exLP_inv _ (by decide +kernel)) sx_line1 (Nat.zero_le _) (Int.le_refl _) (exLP_GI _)
-- … and the result is an open paragraph with one line
example : (processLine exX (exLP sxSrc1)).root.blocks.map (fun b => (b.kind, b.label.stop, b.inlines.map (fun t => (t.label.start, t.label.stop))))
    = [(BK.paragraph, -1, [(0, 8)])] := by decide +kernel

/-- The second line, at the point where `startSetext` is tried: the container is the paragraph. -/
def sxP : LP := { (processLine exX (exLP sxSrc1)).reset sxSrc2 8 with depth := 1, state := 0 }

theorem sxP_inv : BT.Inv sxP :=
  ⟨by decide +kernel, ⟨by decide +kernel, fun _ h => absurd h (by decide +kernel)⟩, ⟨by decide +kernel, by decide +kernel⟩⟩

theorem sxP_GI : GI sxSrc2 8 8 sxP := by
  obtain ⟨r1, r2, r3, r4⟩ := BSp.reset_fields (processLine exX (exLP sxSrc1)) sxSrc2 8
  refine ⟨r2, r3, r4, ?_⟩
  show GoodT sxSrc2 8 ((processLine exX (exLP sxSrc1)).reset sxSrc2 8).root
  rw [r1]
  exact GoodT_mono (show sxSrc1 <+: sxSrc2 from ⟨Bytes.ofString "===\n", by decide +kernel⟩) (by decide +kernel) _ sx_good1

example : sxP.containerKind = BK.paragraph := by decide +kernel
example : StPost sxSrc2 8 8 sxP (startSetext exX sxP) :=
  startSetext_st exX (Int.le_refl _) (by decide +kernel) sxP sxP_inv rfl sxP_GI
-- the paragraph is replaced by the definition and the (open) orphan paragraph of the underline
example : (startSetext exX sxP).root.blocks.map (fun b => (b.kind, b.label.start, b.label.stop, b.inlines.map (fun t => (t.label.start, t.label.stop))))
    = [(BK.linkRefDef, 0, 8, [(1, 2), (5, 7)]), (BK.paragraph, 8, -1, [(8, 12)])] := by
  decide +kernel

end Examples

end CM.Proofs.RDS

#print axioms CM.Proofs.RDS.refDefSpansOK
#print axioms CM.Proofs.RDS.drain_spans_uncond
#print axioms CM.Proofs.RDS.drain_spans_stream
#print axioms CM.Proofs.RDS.paraSpans_of_nodes
#print axioms CM.Proofs.RDS.processLine_st
