import CM.Proofs.InlineSerLinkLine
import CM.Proofs.InlineSerEmRender
/-
Inline serialisation — links, part 4: rendering.  The paragraph `P1 [P2]` whose label is defined renders as
`<p>` P1 `<a href="…">` P2 `</a></p>` with the destination (and title) of the definition the renderer is given for the
label (`cx.refs`).
-/
namespace CM.Proofs.InlSer
open CM CM.Gen CM.Model CM.Model.Inl CM.Proofs.EscText CM.Spec

theorem rn_link (cx : RCtx) (par blk : Option Tree) (i : Int) (a b : Int) (ref : Bytes) (kids : List Tree) :
    renderNode cx (.node { isBlock := false, kind := IK.link, start := a, stop := b, ref := ref } kids) par blk i =
      openTagAttr cx (str "a") ++
        linkAttrs (linkDef cx (.node { isBlock := false, kind := IK.link, start := a, stop := b, ref := ref } kids)) "href" ++ [0x3E] ++
        renderForest cx (.node { isBlock := false, kind := IK.link, start := a, stop := b, ref := ref } kids) blk kids 0 ++
        closeTag cx (str "a") := by
  rw [renderNode]
  simp [openBytes, closeBytes, Tree.label, preInline, postInline, IK.text, IK.charRef, IK.unparsed, IK.rawHTML, IK.softBreak,
    IK.hardBreak, IK.emphasis, IK.strong, IK.codeSpan, IK.link, blockFor]

/-- The nodes of source pieces are no link labels. -/
theorem outP_kind (src : Bytes) : ∀ (P : List SPiece) (ps p : Nat), ∀ n ∈ (outP ps p (P.map (SPiece.toPiece src))).1,
    n.kind ≠ IK.linkLabel := by
  intro P
  induction P with
  | nil => intro ps p n hn; simp [outP] at hn
  | cons x r ih =>
    intro ps p n hn
    have hfl : ∀ a b, ∀ m ∈ flushN a b, m.kind ≠ IK.linkLabel := by
      intro a b m hm
      unfold flushN at hm
      split at hm
      · simp only [List.mem_singleton] at hm; subst hm; show IK.text ≠ IK.linkLabel; decide
      · cases hm
    cases x with
    | byte b => exact ih ps (p + 1) n hn
    | sp => exact ih ps (p + 1) n hn
    | esc b =>
      simp only [List.map_cons, SPiece.toPiece, outP, List.mem_append, List.mem_cons] at hn
      rcases hn with h | rfl | h
      · exact hfl _ _ n h
      · show IK.text ≠ IK.linkLabel; decide
      · exact ih _ _ n h
    | ref t =>
      simp only [List.map_cons, SPiece.toPiece, outP, List.mem_append, List.mem_cons] at hn
      rcases hn with h | rfl | h
      · exact hfl _ _ n h
      · show IK.charRef ≠ IK.linkLabel; decide
      · exact ih _ _ n h
    | auto u =>
      simp only [List.map_cons, SPiece.toPiece, outP, List.mem_append, List.mem_cons] at hn
      rcases hn with h | rfl | h
      · exact hfl _ _ n h
      · show IK.autolink ≠ IK.linkLabel; decide
      · exact ih _ _ n h
    | code k mid =>
      simp only [List.map_cons, SPiece.toPiece, outP, List.mem_append, List.mem_cons] at hn
      rcases hn with h | rfl | h
      · exact hfl _ _ n h
      · show IK.codeSpan ≠ IK.linkLabel; decide
      · exact ih _ _ n h

theorem linkRef_of (a b : Int) (ref : Bytes) (B : List INode) (hB : ∀ n ∈ B, n.kind ≠ IK.linkLabel) :
    Node.linkReference (.node { isBlock := false, kind := IK.link, start := a, stop := b, ref := ref } (B.map nodeTree)) = ref := by
  unfold Node.linkReference
  have h1 : Node.isLinkOrImage (.node { isBlock := false, kind := IK.link, start := a, stop := b, ref := ref } (B.map nodeTree)) = true := rfl
  rw [if_pos h1]
  simp only [Tree.children]
  cases hl : (B.map nodeTree).getLast? with
  | none => rfl
  | some last =>
    have hmem := List.mem_of_getLast? hl
    obtain ⟨n, hn, rfl⟩ := List.mem_map.1 hmem
    have : Node.isI (nodeTree n) IK.linkLabel = false := by
      simp [Node.isI, nodeTree, Tree.label, hB n hn]
    simp [this, Tree.label]

theorem LinkLine.A_eq (l : LinkLine) (src : Bytes) : l.A src = lineNodes ⟨0, l.P1.map (SPiece.toPiece src), .eof⟩ := by
  simp [LinkLine.A, lineNodes, Line.e0, plen_toPiece, endNodes, LinkLine.p]

theorem LinkLine.B_eq (l : LinkLine) (src : Bytes) : l.B src = lineNodes ⟨l.p + 1, l.P2.map (SPiece.toPiece src), .eof⟩ := by
  simp [LinkLine.B, lineNodes, Line.e0, plen_toPiece, endNodes, LinkLine.q]

/-- **The paragraph `P1 [P2]` with a defined label renders as a link to the definition.** -/
theorem render_linkline (x : IExt) (cx : RCtx) (dst : Bytes) (N : Int) (l : LinkLine) (hsrc : cx.src = l.bytes)
    (h1 : PShape l.P1) (h2 : PShape l.P2) (hlab : l.label x ≠ []) :
    appendBlock cx dst (.node { isBlock := true, kind := BK.paragraph, start := 0, stop := N }
        ((l.A l.bytes).map nodeTree ++ [l.tree x])) =
      dst ++ openTag cx (str "p") ++ l.P1.flatMap (htmlP cx) ++ openTagAttr cx (str "a") ++
        linkAttrs (cx.refs (l.label x)) "href" ++ [0x3E] ++ l.P2.flatMap (htmlP cx) ++ closeTag cx (str "a") ++
        closeTag cx (str "p") := by
  unfold LinkLine.tree
  generalize hlabel : l.label x = label at *
  rw [CM.Props.C10.render_eq_spec, renderSpec, renderNode]
  generalize hpar : (Tree.node { isBlock := true, kind := BK.paragraph, start := 0, stop := N }
    ((l.A l.bytes).map nodeTree ++ [.node { isBlock := false, kind := IK.link, start := (l.p : Int), stop := ((l.q + 1 : Nat) : Int), ref := label }
      ((l.B l.bytes).map nodeTree)])) = par
  have hd0 : cx.src.drop 0 = (⟨l.P1, .eof⟩ : SLine).bytes ++ (0x5B :: l.t2) := by
    rw [hsrc]; simp [SLine.bytes, Ending.bytes, LinkLine.bytes]
  have hdp : cx.src.drop l.p = [0x5B] ++ l.t2 := by
    have := drop_shift (show cx.src.drop 0 = pbytes l.P1 ++ (0x5B :: l.t2) by rw [hsrc]; rfl)
    simpa [LinkLine.p] using this
  have hdp1 : cx.src.drop (l.p + 1) = (⟨l.P2, .eof⟩ : SLine).bytes ++ [0x5D, LF] := by
    have := drop_shift hdp
    simpa [LinkLine.t2, SLine.bytes, Ending.bytes] using this
  have rA := render_line cx par (some par) ⟨l.P1, .eof⟩ 0 0 _ hd0 h1
  rw [← hsrc] at *
  rw [← LinkLine.A_eq] at rA
  have rB := fun (p' : Tree) => render_line cx p' (some par) ⟨l.P2, .eof⟩ (l.p + 1) 0 _ hdp1 h2
  simp only [← LinkLine.B_eq] at rB
  have hopen : (openBytes cx { node := par, parent := none, block := none, index := -1 }) = (openTag cx (str "p"), true) := by
    rw [← hpar]; simp [openBytes, Tree.label, preBlock, BK.paragraph, parentTight, Node.isTightList]
  have hclose : closeBytes cx { node := par, parent := none, block := none, index := -1 } = closeTag cx (str "p") := by
    rw [← hpar]; simp [closeBytes, Tree.label, postBlock, BK.paragraph, parentTight, Node.isTightList]
  have hblk : blockFor { node := par, parent := none, block := none, index := -1 } = some par := by
    rw [← hpar]; rfl
  have hkB : ∀ n ∈ l.B cx.src, n.kind ≠ IK.linkLabel := by
    intro n hn
    rcases List.mem_append.1 hn with h | h
    · exact outP_kind cx.src l.P2 _ _ n h
    · unfold flushN at h
      split at h
      · simp only [List.mem_singleton] at h; subst h; show IK.text ≠ IK.linkLabel; decide
      · cases h
  have hdef : linkDef cx (.node { isBlock := false, kind := IK.link, start := (l.p : Int), stop := ((l.q + 1 : Nat) : Int), ref := label }
      ((l.B cx.src).map nodeTree)) = cx.refs label := by
    unfold linkDef
    rw [linkRef_of _ _ _ (l.B cx.src) hkB]
    simp [hlab]
  rw [hopen, hclose, hblk]
  simp only [if_true]
  rw [renderForest_append, renderForest, renderForest, rA, List.append_nil, rn_link, hdef, rB]
  simp [htmlL, htmlE, List.append_assoc]

end CM.Proofs.InlSer
