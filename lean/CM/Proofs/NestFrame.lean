import CM.Proofs.NestClose
import CM.Proofs.QuoteStarts2
import CM.Proofs.QuoteText
/-
C09 (nested documents): the frame.  The bare document `D` is parsed at the top level; the prefixed document is parsed
into the same blocks inside a container — a block quote (one level) or a list item inside a list (two levels).
`Frame` records the label of that container (`top`) and whether there is a list around it.

`TopR F E P Qb`: the document block `P` of the bare side corresponds to the open container `Qb` of the prefixed side
(port of `Quote.TopR`, with the label of `Qb` given by the frame).
-/
namespace CM.Proofs.Nest
open CM CM.Model CM.Gen CM.Proofs.BT CM.Proofs.Quote

/-- The container of the prefixed side. -/
structure Frame where
  /-- the label of the container (`stop` and `lastLineBlank` are ignored) -/
  top : PLabel
  /-- a list item inside a list (two levels) rather than a block quote (one level) -/
  two : Bool
  /-- the label of the list (`stop`, `loose` and `lastLineBlank` are ignored) -/
  list : PLabel := { kind := BK.list, start := 0 }
  kind_ok : top.kind = BK.blockQuote ∨ top.kind = BK.listItem

/-- Number of blocks between the document and the contents. -/
def Frame.d (F : Frame) : Nat := if F.two then 2 else 1

theorem Frame.d_pos (F : Frame) : 1 ≤ F.d := by unfold Frame.d; split <;> omega

/-- The label of the open container. -/
structure TL (F : Frame) (l : PLabel) : Prop where
  kind : l.kind = F.top.kind
  start : l.start = F.top.start
  stop : l.stop < 0
  n : l.n = F.top.n
  char : l.char = F.top.char
  indent : l.indent = F.top.indent
  loose : l.loose = F.top.loose

structure TopR (F : Frame) (E : Env) (P Qb : PB) : Prop where
  pkind : P.label.kind = BK.document
  popen : P.label.stop < 0
  qlab : TL F Qb.label
  qinl : Qb.inlines = []
  kids : ∃ pre bs', Qb.blocks = pre ++ bs' ∧ Quote.PreOK E pre ∧ L2 (BR E) P.blocks bs'

variable {F : Frame} {E : Env} {G : List Tree → Prop}

/-- Below the top: the spine of the document of the bare side is matched on the prefixed side. -/
theorem TopR.spineGet_succ {P Qb : PB} (h : TopR F E P Qb) (d : Nat) {c : PB} (hc : spineGet P (d + 1) = some c) :
    ∃ c', spineGet Qb (d + 1) = some c' ∧ BR E c c' := by
  obtain ⟨lp, bs, isP⟩ := P
  obtain ⟨lq, bq, isq⟩ := Qb
  obtain ⟨pre, bs', e, _, hr⟩ := h.kids
  simp only [PB.blocks] at e hr
  rw [BT.spineGet_succ] at hc ⊢
  cases hl : bs.getLast? with
  | none => rw [hl] at hc; cases hc
  | some x =>
    rw [hl] at hc
    have hne : bs ≠ [] := by intro e0; rw [e0] at hl; cases hl
    have hne' : bs' ≠ [] := fun e0 => hne (hr.nil_iff.mpr e0)
    obtain ⟨hg, _⟩ := hr.getLast
    rw [e, getLast?_append_ne' _ _ hne']
    rw [hl] at hg
    cases hx : bs'.getLast? with
    | none => rw [hx] at hg; cases hg
    | some x' =>
      rw [hx] at hg
      cases hg with
      | ss r =>
        have := BR.spineGet_rel d x x' r
        simp only [] at hc ⊢
        rw [hc] at this
        cases hx2 : Model.spineGet x' d with
        | none => rw [hx2] at this; cases this
        | some c' => rw [hx2] at this; cases this with | ss r2 => exact ⟨c', rfl, r2⟩

/-- When the document of the bare side has no open child at depth 1, neither has the block quote. -/
theorem TopR.spineGet_one_none {P Qb : PB} (h : TopR F E P Qb) (hc : spineGet P 1 = none) :
    spineGet Qb 1 = none ∨ ∃ c', spineGet Qb 1 = some c' ∧ c'.isOpen = false := by
  obtain ⟨lp, bs, isP⟩ := P
  obtain ⟨lq, bq, isq⟩ := Qb
  obtain ⟨pre, bs', e, hpre, hr⟩ := h.kids
  simp only [PB.blocks] at e hr
  rw [BT.spineGet_succ] at hc ⊢
  cases hl : bs.getLast? with
  | some x => rw [hl] at hc; simp only [spineGet_zero] at hc; cases hc
  | none =>
    have hnil : bs = [] := List.getLast?_eq_none_iff.mp hl
    have hnil' : bs' = [] := hr.nil_iff.mp hnil
    rw [e, hnil', List.append_nil]
    cases hp : pre.getLast? with
    | none => left; rfl
    | some c' =>
      right
      refine ⟨c', by simp only [spineGet_zero], ?_⟩
      have := hpre.1 c' (List.mem_of_getLast? hp)
      simp only [PB.isOpen, decide_eq_false_iff_not]
      omega

/-- Modifying below the top. -/
theorem TopR.spineModify_succ {P Qb : PB} (h : TopR F E P Qb) (f f' : PB → PB) (d : Nat)
    (hv : (spineGet P (d + 1)).isSome)
    (hf : ∀ c c', spineGet P (d + 1) = some c → spineGet Qb (d + 1) = some c' → BR E c c' → BR E (f c) (f' c')) :
    TopR F E (spineModify f P (d + 1)) (spineModify f' Qb (d + 1)) := by
  obtain ⟨lp, bs, isP⟩ := P
  obtain ⟨lq, bq, isq⟩ := Qb
  obtain ⟨pre, bs', e, hpre, hr⟩ := h.kids
  simp only [PB.blocks] at e hr
  subst e
  rw [BT.spineGet_succ] at hv
  cases hl : bs.getLast? with
  | none => rw [hl] at hv; cases hv
  | some x =>
    have hne : bs ≠ [] := by intro e0; rw [e0] at hl; cases hl
    have hne' : bs' ≠ [] := fun e0 => hne (hr.nil_iff.mpr e0)
    obtain ⟨hg, hd⟩ := hr.getLast
    rw [hl] at hg
    cases hx : bs'.getLast? with
    | none => rw [hx] at hg; cases hg
    | some x' =>
      rw [hx] at hg
      cases hg with
      | ss r =>
        have hlq : (pre ++ bs').getLast? = some x' := by rw [getLast?_append_ne' _ _ hne', hx]
        rw [BT.spineModify_succ, BT.spineModify_succ, hl, hlq]
        simp only []
        refine ⟨h.pkind, h.popen, h.qlab, h.qinl, pre, bs'.dropLast ++ [spineModify f' x' d], ?_, hpre, ?_⟩
        · simp only [PB.blocks]
          rw [dropLast_append_ne' _ _ hne', List.append_assoc]
        · simp only [PB.blocks]
          apply hd.concat
          apply BR.spineModify_rel f f' d x x' r
          intro c c' hc hc' hcc
          exact hf c c' (by rw [BT.spineGet_succ, hl]; exact hc) (by rw [BT.spineGet_succ, hlq]; exact hc') hcc


theorem BR.replaceLast_close {x : PExt} (HG : GOK x E G) {e e' : Int} (he : 0 ≤ e) (he' : 0 ≤ e') (hp : E.PR e e')
    {c c' : PB} (h : BR E c c') (htp0 : TP G c) :
    BR E (replaceLastFn (closeBlock x E.src e) c) (replaceLastFn (closeBlock x E.src' e') c') := by
  have htp := htp0.kids
  obtain ⟨l, bs, is⟩ := c
  obtain ⟨l', bs', is'⟩ := c'
  have hb := (BR_mk E _ _ _ _ _ _).mp h
  obtain ⟨hl, hd⟩ := hb.2.1.getLast
  simp only [replaceLastFn]
  cases hc : bs.getLast? with
  | none =>
    rw [hc] at hl; rw [hl.none_left]
    exact h
  | some a =>
    rw [hc] at hl
    obtain ⟨a', ea, r⟩ := hl.some_left
    rw [ea]
    simp only []
    rw [BR_mk]
    exact ⟨hb.1, hd.append (closeBlock_rel HG he he' hp a a' r (htp a (List.mem_of_getLast? hc))), hb.2.2⟩

theorem TopR.closeLast0 {x : PExt} (HG : GOK x E G) {e e' : Int} (he : 0 ≤ e) (he' : 0 ≤ e') (hp : E.PR e e')
    {P Qb : PB} (h : TopR F E P Qb) (htp0 : TP G P) :
    TopR F E (replaceLastFn (closeBlock x E.src e) P) (replaceLastFn (closeBlock x E.src' e') Qb) := by
  have htp := htp0.kids
  obtain ⟨lp, bs, isP⟩ := P
  obtain ⟨lq, bq, isq⟩ := Qb
  obtain ⟨pre, bs', ebq, hpre, hr⟩ := h.kids
  simp only [PB.blocks] at ebq hr
  subst ebq
  simp only [replaceLastFn]
  obtain ⟨hl, hd⟩ := hr.getLast
  cases hc : bs.getLast? with
  | none =>
    have hnil : bs = [] := List.getLast?_eq_none_iff.mp hc
    have hnil' : bs' = [] := hr.nil_iff.mp hnil
    subst hnil'
    rw [List.append_nil]
    cases hp2 : pre.getLast? with
    | none =>
      show TopR F E (PB.mk lp bs isP) (PB.mk lq pre isq)
      exact ⟨h.pkind, h.popen, h.qlab, h.qinl, pre, [], by simp [PB.blocks], hpre, by simp only [PB.blocks, hnil]; exact .nil⟩
    | some c' =>
      simp only []
      have hcl : 0 ≤ c'.label.stop := hpre.1 c' (List.mem_of_getLast? hp2)
      rw [BSp.closeBlock_closed x _ e' c' hcl]
      have hne : pre ≠ [] := by intro e0; rw [e0] at hp2; cases hp2
      have : pre.dropLast ++ [c'] = pre := by
        have h1 := List.dropLast_concat_getLast hne
        rw [List.getLast?_eq_some_getLast hne] at hp2
        cases hp2
        exact h1
      rw [this]
      exact ⟨h.pkind, h.popen, h.qlab, h.qinl, pre, [], by simp [PB.blocks], hpre, by simp only [PB.blocks, hnil]; exact .nil⟩
  | some a =>
    rw [hc] at hl
    obtain ⟨a', ea, r⟩ := hl.some_left
    have hne : bs ≠ [] := by intro e0; rw [e0] at hc; cases hc
    have hne' : bs' ≠ [] := fun e0 => hne (hr.nil_iff.mpr e0)
    rw [getLast?_append_ne' _ _ hne', ea]
    simp only []
    refine ⟨h.pkind, h.popen, h.qlab, h.qinl, pre, bs'.dropLast ++ closeBlock x E.src' e' a', ?_, hpre, ?_⟩
    · simp only [PB.blocks]
      rw [dropLast_append_ne' _ _ hne', List.append_assoc]
    · simp only [PB.blocks]
      exact hd.append (closeBlock_rel HG he he' hp a a' r (htp a (List.mem_of_getLast? hc)))


theorem TopR.addChild {P Qb child child' : PB} (h : TopR F E P Qb) (hc : BR E child child') :
    TopR F E (addChild child P) (addChild child' Qb) := by
  obtain ⟨lp, bs, isP⟩ := P
  obtain ⟨lq, bq, isq⟩ := Qb
  obtain ⟨pre, bs', ebq, hpre, hr⟩ := h.kids
  simp only [PB.blocks] at ebq hr
  subst ebq
  show TopR F E (.mk lp (bs ++ [child]) isP) (.mk lq (pre ++ bs' ++ [child']) isq)
  exact ⟨h.pkind, h.popen, h.qlab, h.qinl, pre, bs' ++ [child'], by simp [PB.blocks], hpre,
    by simp only [PB.blocks]; exact hr.concat hc⟩


theorem TopR.blankFn {P Qb : PB} (h : TopR F E P Qb) : TopR F E (blankFn P) (blankFn Qb) := by
  obtain ⟨lp, bs, isP⟩ := P
  obtain ⟨lq, bq, isq⟩ := Qb
  obtain ⟨pre, bs', ebq, hpre, hr⟩ := h.kids
  simp only [PB.blocks] at ebq hr
  subst ebq
  simp only [Quote.blankFn]
  obtain ⟨hl, hd⟩ := hr.getLast
  cases hc : bs.getLast? with
  | none =>
    have hnil : bs = [] := List.getLast?_eq_none_iff.mp hc
    have hnil' : bs' = [] := hr.nil_iff.mp hnil
    subst hnil'
    rw [List.append_nil]
    cases hp2 : pre.getLast? with
    | none =>
      show TopR F E (PB.mk lp bs isP) (PB.mk lq pre isq)
      exact ⟨h.pkind, h.popen, h.qlab, h.qinl, pre, [], by simp [PB.blocks], hpre, by simp only [PB.blocks, hnil]; exact .nil⟩
    | some c' =>
      show TopR F E (PB.mk lp bs isP) (PB.mk lq (pre.dropLast ++ [c'.setLabel fun cl => { cl with lastLineBlank := true }]) isq)
      refine ⟨h.pkind, h.popen, h.qlab, h.qinl, pre.dropLast ++ [c'.setLabel fun cl => { cl with lastLineBlank := true }], [],
        by simp [PB.blocks], ?_, by simp only [PB.blocks, hnil]; exact .nil⟩
      have hne : pre ≠ [] := by intro e0; rw [e0] at hp2; cases hp2
      have hsplit : pre = pre.dropLast ++ [c'] := by
        have h1 := List.dropLast_concat_getLast hne
        rw [List.getLast?_eq_some_getLast hne] at hp2
        cases hp2
        exact h1.symm
      refine ⟨?_, ?_⟩
      · intro b hb
        rcases List.mem_append.mp hb with hb | hb
        · exact hpre.1 b ((List.dropLast_sublist pre).subset hb)
        · simp only [List.mem_singleton] at hb
          subst hb
          have := hpre.1 c' (List.mem_of_getLast? hp2)
          obtain ⟨l0, b0, i0⟩ := c'
          exact this
      · rw [← hpre.2]
        conv => rhs; rw [hsplit]
        simp only [List.map_append, List.map_cons, List.map_nil]
        congr 2
        obtain ⟨l0, b0, i0⟩ := c'
        simp only [PB.setLabel, pbToTree]
  | some a =>
    rw [hc] at hl
    obtain ⟨a', ea, r⟩ := hl.some_left
    have hne : bs ≠ [] := by intro e0; rw [e0] at hc; cases hc
    have hne' : bs' ≠ [] := fun e0 => hne (hr.nil_iff.mpr e0)
    rw [getLast?_append_ne' _ _ hne', ea]
    simp only []
    refine ⟨h.pkind, h.popen, h.qlab, h.qinl, pre, bs'.dropLast ++ [a'.setLabel fun cl => { cl with lastLineBlank := true }], ?_, hpre, ?_⟩
    · simp only [PB.blocks]
      rw [dropLast_append_ne' _ _ hne', List.append_assoc]
    · simp only [PB.blocks]
      exact hd.concat r.markBlank


theorem TopR.blankFlags {P Qb : PB} (h : TopR F E P Qb) (v v' : Bool) (d : Nat) (hv : (spineGet P d).isSome)
    (hvv : 1 ≤ d → v' = v) : TopR F E (setBlankFlags v P d) (setBlankFlags v' Qb d) := by
  obtain ⟨lp, bs, isP⟩ := P
  obtain ⟨lq, bq, isq⟩ := Qb
  obtain ⟨pre, bs', ebq, hpre, hr⟩ := h.kids
  simp only [PB.blocks] at ebq hr
  subst ebq
  have hq : TL F ({ lq with lastLineBlank := v' } : PLabel) :=
    ⟨h.qlab.kind, h.qlab.start, h.qlab.stop, h.qlab.n, h.qlab.char, h.qlab.indent, h.qlab.loose⟩
  cases d with
  | zero =>
    rw [setBlankFlags_zero, setBlankFlags_zero]
    exact ⟨h.pkind, h.popen, hq, h.qinl, pre, bs', rfl, hpre, hr⟩
  | succ d =>
    have e : v' = v := hvv (by omega)
    subst e
    rw [BT.spineGet_succ] at hv
    rw [setBlankFlags_succ, setBlankFlags_succ]
    obtain ⟨hl, hd⟩ := hr.getLast
    cases hc : bs.getLast? with
    | none => rw [hc] at hv; cases hv
    | some a =>
      rw [hc] at hl
      obtain ⟨a', ea, r⟩ := hl.some_left
      have hne : bs ≠ [] := by intro e0; rw [e0] at hc; cases hc
      have hne' : bs' ≠ [] := fun e0 => hne (hr.nil_iff.mpr e0)
      rw [getLast?_append_ne' _ _ hne', ea]
      simp only []
      refine ⟨h.pkind, h.popen, hq, h.qinl, pre, bs'.dropLast ++ [setBlankFlags v' a' d], ?_, hpre, ?_⟩
      · simp only [PB.blocks]
        rw [dropLast_append_ne' _ _ hne', List.append_assoc]
      · simp only [PB.blocks]
        exact hd.concat (BR.setBlankFlags_rel v' d a a' r)


theorem TopR.tipDepth_eq {P Qb : PB} (h : TopR F E P Qb) (d : Nat) : tipDepth Qb d = tipDepth P d := by
  obtain ⟨lp, bs, isP⟩ := P
  obtain ⟨lq, bq, isq⟩ := Qb
  obtain ⟨pre, bs', ebq, hpre, hr⟩ := h.kids
  simp only [PB.blocks] at ebq hr
  subst ebq
  rw [tipDepth_mk, tipDepth_mk]
  obtain ⟨hl, _⟩ := hr.getLast
  cases hc : bs.getLast? with
  | none =>
    have hnil : bs = [] := List.getLast?_eq_none_iff.mp hc
    have hnil' : bs' = [] := hr.nil_iff.mp hnil
    subst hnil'
    rw [List.append_nil]
    cases hp2 : pre.getLast? with
    | none => rfl
    | some c' =>
      have hcl : 0 ≤ c'.label.stop := hpre.1 c' (List.mem_of_getLast? hp2)
      have : c'.isOpen = false := by simp only [PB.isOpen, decide_eq_false_iff_not]; omega
      simp only [this]; rfl
  | some a =>
    rw [hc] at hl
    obtain ⟨a', ea, r⟩ := hl.some_left
    have hne : bs ≠ [] := by intro e0; rw [e0] at hc; cases hc
    have hne' : bs' ≠ [] := fun e0 => hne (hr.nil_iff.mpr e0)
    rw [getLast?_append_ne' _ _ hne', ea]
    simp only []
    rw [r.isOpen, BR.tipDepth_eq (sizeOf a) a a' (d + 1) (Nat.le_refl _) r]


theorem TopR.mono {E E2 : Env} (hle : E.le E2) (hd : E2.done = E.done) {P Qb : PB} (h : TopR F E P Qb) : TopR F E2 P Qb := by
  obtain ⟨pre, bs', e, hpre, hr⟩ := h.kids
  exact ⟨h.pkind, h.popen, h.qlab, h.qinl, pre, bs', e, ⟨hpre.1, by rw [hd]; exact hpre.2⟩,
    hr.mono fun a b _ _ r => BR.mono hle a b r⟩

end CM.Proofs.Nest
