import CM.Proofs.EolRd23
import CM.Proofs.EolEnd
/-
C14 (a), block phase with link reference definitions — part 1: the tree invariant `FineT` (every open paragraph has inline
children for which the paragraph hook commutes with the position map — `ParaFineB` — and no open block is a setext heading),
and `close` under it: `closeBlock_mapG` (close commutes with the map) and `closeBlock_fine` (the blocks `close` returns satisfy
the invariant again).
-/
namespace CM.Proofs.EolG
open CM CM.Model CM.Gen CM.Proofs CM.Proofs.RDS CM.Proofs.BSp CM.Proofs.ERd CM.Proofs.BG

/-- The inline children of an open paragraph: `ParaFine`, and (for paragraphs made of lines) all lines end at or before `bd`
    (the start of the current line). -/
def ParaFineB (e X : Bytes) (k : Nat) (bd : Int) (is : List Tree) : Prop :=
  RDS.NoBracket (X.take k) is ∨
  (Ctx (X.take k) is ∧ TabsOK (X.take k) is ∧
    (∀ first rest, is = first :: rest →
      labelsAgree (e.length - 1) (X.take k) (is.length + 2) (newReader is first.label.start.toNat) is = true) ∧
    ∀ t ∈ is, t.label.stop ≤ bd)

theorem ParaFineB.fine {e X : Bytes} {k : Nat} {bd : Int} {is : List Tree} (h : ParaFineB e X k bd is) : ParaFine e X k is := by
  rcases h with h | ⟨h1, h2, h3, _⟩
  · exact Or.inl h
  · exact Or.inr ⟨h1, h2, h3⟩

theorem paraFineB_nil (e X : Bytes) (k : Nat) (bd : Int) : ParaFineB e X k bd [] := by
  refine Or.inr ⟨⟨List.Pairwise.nil, ?_, ?_⟩, ?_, ?_, ?_⟩
  · intro t h; exact absurd h List.not_mem_nil
  · intro t h; exact absurd h List.not_mem_nil
  · intro t h; exact absurd h List.not_mem_nil
  · intro f r h; cases h
  · intro t h; exact absurd h List.not_mem_nil

mutual
/-- Every open paragraph of the tree is `ParaFineB`; no open block is a setext heading. -/
def FineT (e X : Bytes) (k : Nat) (bd : Int) : PB → Prop
  | .mk l bs is => ((l.stop < 0 → l.kind = BK.paragraph → ParaFineB e X k bd is) ∧ (l.stop < 0 → l.kind ≠ BK.setextHeading)) ∧
      FineL e X k bd bs
def FineL (e X : Bytes) (k : Nat) (bd : Int) : List PB → Prop
  | [] => True
  | b :: rest => FineT e X k bd b ∧ FineL e X k bd rest
end

mutual
/-- The weaker invariant under which `close` commutes with the map: every open paragraph AND every open setext heading has
    `ParaFineB` inline children (an open setext heading exists only inside `startSetext`). -/
def FineS (e X : Bytes) (k : Nat) (bd : Int) : PB → Prop
  | .mk l bs is => (l.stop < 0 → (l.kind = BK.paragraph ∨ l.kind = BK.setextHeading) → ParaFineB e X k bd is) ∧
      FineSL e X k bd bs
def FineSL (e X : Bytes) (k : Nat) (bd : Int) : List PB → Prop
  | [] => True
  | b :: rest => FineS e X k bd b ∧ FineSL e X k bd rest
end

section
variable {e X : Bytes} {k : Nat} {bd : Int}

theorem FineSL_iff (bs : List PB) : FineSL e X k bd bs ↔ ∀ b ∈ bs, FineS e X k bd b := by
  induction bs with
  | nil => simp [FineSL]
  | cons b rest ih => simp [FineSL, ih]

theorem FineS_mk (l : PLabel) (bs : List PB) (is : List Tree) :
    FineS e X k bd (.mk l bs is) ↔
      (l.stop < 0 → (l.kind = BK.paragraph ∨ l.kind = BK.setextHeading) → ParaFineB e X k bd is) ∧
      ∀ b ∈ bs, FineS e X k bd b := by
  rw [FineS, FineSL_iff]

theorem fineS_sub : ∀ l bs is, FineS e X k bd (.mk l bs is) → ∀ c ∈ bs, FineS e X k bd c :=
  fun l bs is h => ((FineS_mk l bs is).1 h).2

theorem FineL_iff (bs : List PB) : FineL e X k bd bs ↔ ∀ b ∈ bs, FineT e X k bd b := by
  induction bs with
  | nil => simp [FineL]
  | cons b rest ih => simp [FineL, ih]

theorem FineT_mk (l : PLabel) (bs : List PB) (is : List Tree) :
    FineT e X k bd (.mk l bs is) ↔
      ((l.stop < 0 → l.kind = BK.paragraph → ParaFineB e X k bd is) ∧ (l.stop < 0 → l.kind ≠ BK.setextHeading)) ∧
      ∀ b ∈ bs, FineT e X k bd b := by
  rw [FineT, FineL_iff]

/-- A block that is closed, or neither a paragraph nor a setext heading, with fine children. -/
theorem fineT_of (l : PLabel) (bs : List PB) (is : List Tree) (h : 0 ≤ l.stop ∨ (l.kind ≠ BK.paragraph ∧ l.kind ≠ BK.setextHeading))
    (hb : ∀ b ∈ bs, FineT e X k bd b) : FineT e X k bd (.mk l bs is) := by
  rw [FineT_mk]
  refine ⟨⟨fun ho hk => ?_, fun ho => ?_⟩, hb⟩
  · rcases h with h | h
    · omega
    · exact absurd hk h.1
  · rcases h with h | h
    · omega
    · exact h.2

theorem FineT.toS : ∀ b : PB, FineT e X k bd b → FineS e X k bd b := by
  apply BG.PB.ind
  intro l bs is ih h
  rw [FineT_mk] at h
  rw [FineS_mk]
  refine ⟨fun ho hk => ?_, fun c hc => ih c hc (h.2 c hc)⟩
  rcases hk with hk | hk
  · exact h.1.1 ho hk
  · exact absurd hk (h.1.2 ho)

theorem FineT.kids {b : PB} (h : FineT e X k bd b) : ∀ c ∈ b.blocks, FineT e X k bd c := by
  obtain ⟨l, bs, is⟩ := b
  rw [FineT_mk] at h
  exact h.2

theorem FineT_setLabel {f : PLabel → PLabel} (hk : ∀ l, (f l).kind = l.kind) (hs : ∀ l, (f l).stop = l.stop) {b : PB}
    (h : FineT e X k bd b) : FineT e X k bd (b.setLabel f) := by
  obtain ⟨l, bs, is⟩ := b
  rw [PB.setLabel, FineT_mk]
  rw [FineT_mk] at h
  rw [hk, hs]
  exact h

/-! ### The spine -/

theorem fineT_spineGet : ∀ (d : Nat) (b c : PB), FineT e X k bd b → spineGet b d = some c → FineT e X k bd c := by
  intro d
  induction d with
  | zero => intro b c h hc; simp only [spineGet, Option.some.injEq] at hc; subst hc; exact h
  | succ d ih =>
    intro b c h hc
    obtain ⟨l, bs, is⟩ := b
    simp only [spineGet] at hc
    cases hg : bs.getLast? with
    | none => rw [hg] at hc; cases hc
    | some c' =>
      rw [hg] at hc
      exact ih c' c ((FineT_mk l bs is).1 h |>.2 c' (List.mem_of_getLast? hg)) hc

theorem fineT_spineModify (f : PB → PB) (hf : ∀ c, FineT e X k bd c → FineT e X k bd (f c)) :
    ∀ (d : Nat) (b : PB), FineT e X k bd b → FineT e X k bd (spineModify f b d) := by
  intro d
  induction d with
  | zero => intro b h; cases b; exact hf _ h
  | succ d ih =>
    intro b h
    obtain ⟨l, bs, is⟩ := b
    simp only [spineModify]
    cases hg : bs.getLast? with
    | none => exact h
    | some c =>
      simp only []
      rw [FineT_mk] at h ⊢
      refine ⟨h.1, ?_⟩
      intro b' hb'
      rcases mem_dropLast_append hb' with h1 | h1
      · exact h.2 b' h1
      · simp only [List.mem_singleton] at h1
        subst h1
        exact ih c (h.2 c (List.mem_of_getLast? hg))

theorem fineT_spineReplaceLast (f : PB → List PB) (hf : ∀ c, FineT e X k bd c → ∀ b' ∈ f c, FineT e X k bd b')
    (root : PB) (d : Nat) (h : FineT e X k bd root) : FineT e X k bd (spineReplaceLast f root d) := by
  unfold spineReplaceLast
  apply fineT_spineModify _ _ d root h
  intro c hc
  obtain ⟨l, bs, is⟩ := c
  simp only []
  cases hg : bs.getLast? with
  | none => exact hc
  | some c' =>
    simp only []
    rw [FineT_mk] at hc ⊢
    refine ⟨hc.1, ?_⟩
    intro b' hb'
    rcases mem_dropLast_append hb' with h1 | h1
    · exact hc.2 b' h1
    · exact hf c' (hc.2 c' (List.mem_of_getLast? hg)) b' h1

theorem fineT_setBlankFlags (v : Bool) : ∀ (d : Nat) (b : PB), FineT e X k bd b → FineT e X k bd (setBlankFlags v b d) := by
  intro d
  induction d with
  | zero =>
    intro b h
    obtain ⟨l, bs, is⟩ := b
    rw [setBlankFlags, FineT_mk]
    rw [FineT_mk] at h
    exact h
  | succ d ih =>
    intro b h
    obtain ⟨l, bs, is⟩ := b
    simp only [setBlankFlags]
    cases hg : bs.getLast? with
    | none =>
      simp only []
      rw [FineT_mk] at h ⊢
      exact h
    | some c =>
      simp only []
      rw [FineT_mk] at h ⊢
      refine ⟨h.1, ?_⟩
      intro b' hb'
      rcases mem_dropLast_append hb' with h1 | h1
      · exact h.2 b' h1
      · simp only [List.mem_singleton] at h1
        subst h1
        exact ih c (h.2 c (List.mem_of_getLast? hg))

end

end CM.Proofs.EolG
